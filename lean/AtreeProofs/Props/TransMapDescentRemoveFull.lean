import AtreeProofs.Props.TransMapDescentRemoveTree
import AtreeProofs.Props.TransMapDescentTopRemove
/-
  WP13 (map descent, Remove, EVERY branch): the generated `MapSlab_Remove` over a heap (`envD cfg.T eb rs`) is the
  translation of the model's `MTree.remove` on every path - store, `SplitChildSlab`, `MergeOrRebalanceChildSlab` - for ANY
  restructuring record `rs` whose calls behave as the model's (`MRSplitTail`, `MRMorTail`: pointwise TAIL hypotheses,
  quantified only over what the descent produces: `MRPre`), and the top level `OrderedMap_remove` under `MRRootTail`.
  * `I : (d : Nat) → MTree r d → Prop` is a PARAMETER: the invariant of subtrees the restructuring calls rely on (sizes,
    flags, first keys ...).  The tails quantify only over children satisfying `I` and promise `I` of their result; the
    theorems ask that `I` is kept along the descent (`MRInvClosed`).  (A tail over ALL records would be false: e.g. a
    child whose model `root` flag is set while the heap record carries no extra data.)
  * `MRAllocOk`: allocated identifiers lie below the counter of the `Ctx`; without it the freshness of the identifiers a
    split generates (hence the distinctness of the identifiers of the new tree) cannot be established.
  * `MRStep h h' I I'` (frame / gone / fresh) composes (`MRStep.trans`, `MRStep.ctx`); `MRPost` = `MHolds` of the new tree
    + `MRStep` + distinct identifiers + child headers = headers of the children.
  * FINDING (top level): after `OrderedMap.remove` WITHOUT promotion / root split the root record STORED in a heap of
    values still carries the OLD extra data (count not decremented): Go's `decrementCount` mutates the slab the storage
    points to and no `Store` follows.  `Ob_OrderedMap_remove_heap_of_tails` therefore states `MHolds` with the stored
    extra data `xh`, `xh = some (md_extra m)` (stale) or `some (md_extra m')`.
  Helper names: `mdr_` / `MR`.
-/
namespace Atree.TransEq
open Atree Atree.Gen.TransMapD

section defs
variable {r : Nat}

/-- how an operation moves the heap, in terms of the identifiers of the old (`I`) and the new (`I'`) tree:
    outside both untouched; what left the tree is gone; what entered the tree was unallocated before -/
structure MRStep (h h' : SlabID → Option (DSlab r)) (I I' : List SlabID) : Prop where
  frame : ∀ id, id ∉ I → id ∉ I' → h' id = h id
  gone : ∀ id, id ∈ I → id ∉ I' → h' id = none
  fresh : ∀ id, id ∈ I' → id ∉ I → h id = none

/-- an index slab's child headers are the headers of its children (top level only) -/
def mdr_HdrsOk : (d : Nat) → MTree r d → Prop
  | 0, _ => True
  | d + 1, (m : MMetaSlab (MTree r d)) => m.childHdrs = m.children.map (MTree.hdr d)

/-- the heap after an operation that turns `t` into `t'` (same depth): it holds `t'`, `MRStep`, identifiers distinct,
    child headers = headers of the children -/
structure MRPost (h h' : SlabID → Option (DSlab r)) {d : Nat} (t t' : MTree r d) (x : Option DX) : Prop where
  holds : MHolds h' d t' x
  step : MRStep h h' (md_ids d t) (md_ids d t')
  nodup : (md_ids d t').Nodup
  hdrs : mdr_HdrsOk d t'

theorem MRStep.refl (h : SlabID → Option (DSlab r)) (I : List SlabID) : MRStep h h I I :=
  ⟨fun _ _ _ => rfl, fun _ h1 h2 => absurd h1 h2, fun _ h1 h2 => absurd h1 h2⟩

theorem MRPost.heapPost {h h' : SlabID → Option (DSlab r)} {d : Nat} {t t' : MTree r d} {x : Option DX}
    (p : MRPost h h' t t' x) : MHeapPost h h' t t' x :=
  ⟨p.holds, p.step.gone, p.step.frame⟩

theorem MRStep.trans {h h1 h2 : SlabID → Option (DSlab r)} {I I1 I2 : List SlabID}
    (a : MRStep h h1 I I1) (b : MRStep h1 h2 I1 I2) : MRStep h h2 I I2 := by
  refine ⟨?_, ?_, ?_⟩
  · intro id h0 h2'
    by_cases h1' : id ∈ I1
    · rw [b.gone id h1' h2', a.fresh id h1' h0]
    · rw [b.frame id h1' h2', a.frame id h0 h1']
  · intro id h0 h2'
    by_cases h1' : id ∈ I1
    · exact b.gone id h1' h2'
    · rw [b.frame id h1' h2']; exact a.gone id h0 h1'
  · intro id h2' h0
    by_cases h1' : id ∈ I1
    · exact a.fresh id h1' h0
    · rw [← a.frame id h0 h1']; exact b.fresh id h2' h1'

/-- a step on a part of the identifiers is a step on the whole -/
theorem MRStep.ctx {h h1 : SlabID → Option (DSlab r)} {C C' : List SlabID} (a : MRStep h h1 C C') (root : SlabID)
    (LA LB : List SlabID) : MRStep h h1 (root :: (LA ++ (C ++ LB))) (root :: (LA ++ (C' ++ LB))) := by
  refine ⟨?_, ?_, ?_⟩
  · intro id h0 h1'
    simp only [List.mem_cons, List.mem_append, not_or] at h0 h1'
    exact a.frame id h0.2.2.1 h1'.2.2.1
  · intro id h0 h1'
    simp only [List.mem_cons, List.mem_append, not_or] at h0 h1'
    rcases h0 with h | h | h | h
    · exact absurd h h1'.1
    · exact absurd h h1'.2.1
    · exact a.gone id h h1'.2.2.1
    · exact absurd h h1'.2.2.2
  · intro id h1' h0
    simp only [List.mem_cons, List.mem_append, not_or] at h0 h1'
    rcases h1' with h | h | h | h
    · exact absurd h h0.1
    · exact absurd h h0.2.1
    · exact a.fresh id h h0.2.2.1
    · exact absurd h h0.2.2.2

/-- the identifiers stay distinct when a part `C` is replaced by distinct `C'` whose new members are unallocated, all the
    others being allocated -/
theorem mdr_nodup_replace (h : SlabID → Option (DSlab r)) (root : SlabID) (LA LB C C' : List SlabID)
    (hn : (root :: (LA ++ (C ++ LB))).Nodup) (hC' : C'.Nodup) (hfresh : ∀ id, id ∈ C' → id ∉ C → h id = none)
    (hroot : h root ≠ none) (hA : ∀ id ∈ LA, h id ≠ none) (hB : ∀ id ∈ LB, h id ≠ none) :
    (root :: (LA ++ (C' ++ LB))).Nodup := by
  obtain ⟨hr, hn⟩ := List.nodup_cons.mp hn
  obtain ⟨hnA, hn2, hdA⟩ := List.nodup_append.mp hn
  obtain ⟨_, hnB, hdB⟩ := List.nodup_append.mp hn2
  simp only [List.mem_append, not_or] at hr
  have key : ∀ id ∈ C', h id ≠ none → id ∈ C := fun id hid hne => by
    by_cases hc : id ∈ C
    · exact hc
    · exact absurd (hfresh id hid hc) hne
  refine List.nodup_cons.mpr ⟨?_, List.nodup_append.mpr ⟨hnA, List.nodup_append.mpr ⟨hC', hnB, ?_⟩, ?_⟩⟩
  · simp only [List.mem_append, not_or]
    exact ⟨hr.1, fun hc => hr.2.1 (key root hc hroot), hr.2.2⟩
  · intro a ha b hb hab
    subst hab
    exact hdB a (key a ha (hB a hb)) a hb rfl
  · intro a ha b hb hab
    subst hab
    rcases List.mem_append.mp hb with hb | hb
    · exact hdA a ha a (List.mem_append.mpr (Or.inl (key a hb (hA a ha)))) rfl
    · exact hdA a ha a (List.mem_append.mpr (Or.inr hb)) rfl

/-- every identifier of a held tree is allocated -/
theorem mdr_MHolds_some {h : SlabID → Option (DSlab r)} :
    ∀ (d : Nat) (t : MTree r d) (x : Option DX), MHolds h d t x → ∀ id ∈ md_ids d t, h id ≠ none := by
  intro d
  induction d with
  | zero =>
    intro t x hh id hid
    have e : id = (t : MDataSlab r).hdr.id := List.mem_singleton.mp hid
    have hh' : h (t : MDataSlab r).hdr.id = some (.dataSlab (md_data t x)) := hh
    rw [e, hh']; exact Option.some_ne_none _
  | succ d ih =>
    intro t x hh id hid
    obtain ⟨h1, h2⟩ := hh
    have hid' : id = (t : MMetaSlab (MTree r d)).hdr.id ∨ id ∈ (t : MMetaSlab (MTree r d)).children.flatMap (md_ids d) :=
      List.mem_cons.mp hid
    rcases hid' with e | hm
    · have h1' : h (t : MMetaSlab (MTree r d)).hdr.id = some (.metaSlab (md_meta t x)) := h1
      rw [e, h1']; exact Option.some_ne_none _
    · obtain ⟨c, hc, hidc⟩ := List.mem_flatMap.mp hm
      exact ih c none (h2 c hc) id hidc

/-- the search returns a position among the headers -/
theorem mdr_findChild_lt (hdrs : List MHdr) (hk : Nat) : ∀ (fuel i j : Nat) (a : Option Nat) (n : Nat),
    MMetaSlab.findChild hdrs hk i j a fuel = some n → a = some n ∨ (i ≤ n ∧ n < j) := by
  intro fuel
  induction fuel with
  | zero => intro i j a n h; exact Or.inl h
  | succ fuel ih =>
    intro i j a n h
    simp only [MMetaSlab.findChild] at h
    split at h
    · split at h
      · rcases ih _ _ _ _ h with h' | h'
        · exact Or.inl h'
        · exact Or.inr (by omega)
      · rcases ih _ _ _ _ h with h' | h'
        · injection h' with h'; exact Or.inr (by omega)
        · exact Or.inr (by omega)
    · exact Or.inl h

/-- `MTree.remove` on an index slab, unfolded -/
theorem mdr_remove_succ (cfg : MCfg) (d : Nat) (m : MMetaSlab (MTree r d)) (k : MKey) (c : Ctx) :
    MTree.remove cfg (d + 1) (m : MMetaSlab (MTree r d)) k c =
      match MMetaSlab.findChild m.childHdrs (k.dig 0) 0 m.childHdrs.length none (m.childHdrs.length + 1) with
      | none => .error .keyNotFound
      | some i =>
        match m.children[i]? with
        | none => .error .slabNotFound
        | some child =>
          match MTree.remove cfg d child k c with
          | .error e => .error e
          | .ok (rk, rv, child', c1) =>
            match m.afterChild cfg.T child' i c1 with
            | .error e => .error e
            | .ok (m', c2) => .ok (rk, rv, (m' : MMetaSlab (MTree r d)), c2) := by
  simp only [MTree.remove, bind, Except.bind, pure, Except.pure, throw, throwThe, MonadExceptOf.throw]
  cases MMetaSlab.findChild m.childHdrs (k.dig 0) 0 m.childHdrs.length none (m.childHdrs.length + 1) with
  | none => rfl
  | some i =>
    simp only []
    cases m.children[i]? with
    | none => rfl
    | some child =>
      simp only []
      cases MTree.remove cfg d child k c with
      | error e => rfl
      | ok q =>
        obtain ⟨rk, rv, child', c1⟩ := q
        simp only []
        cases MMetaSlab.afterChild cfg.T m child' i c1 with
        | error e => rfl
        | ok q2 => rfl

end defs
section tails
variable {r : Nat} (I : (d : Nat) → MTree r d → Prop)

/-- the allocator invariant: every allocated identifier has an index the counter of the `Ctx` has passed (`Ctx.alloc`
    hands out `⟨addr, ctr + 1⟩`), so a newly generated identifier is unallocated -/
def MRAllocOk (s : MHSt r) : Prop := ∀ id, s.heap id ≠ none → id.idx ≤ s.ctx.ctr

/-- what the descent has established (besides the allocator invariant `MRAllocOk s1`) when it calls `SplitChildSlab` /
    `MergeOrRebalanceChildSlab` on the receiver `m1`
    (= the index slab with the returned child written back at position `k`, NOT yet stored) over the storage `s1`:
    `child'` is child `k` of `m1`; the child headers are the headers of the children; the identifiers of `m1` are pairwise
    distinct; the heap holds every child subtree of `m1` (the returned `child'` included, its root too); the size of
    `child'` is a `uint32`; every child subtree satisfies the invariant `I` (a PARAMETER: whatever the restructuring
    calls need to know about a subtree - sizes, flags, first keys ...; the theorems ask that `I` is kept along the descent,
    `MRInvClosed`) -/
structure MRPre (s1 : MHSt r) {d : Nat} (m1 : MMetaSlab (MTree r d)) (child' : MTree r d) (k : Nat) : Prop where
  alloc : MRAllocOk s1
  inv : ∀ c ∈ m1.children, I d c
  at_k : m1.children[k]? = some child'
  hdrs : m1.childHdrs = m1.children.map (MTree.hdr d)
  nodup : (md_ids (d + 1) (m1 : MMetaSlab (MTree r d))).Nodup
  held : ∀ c ∈ m1.children, MHolds s1.heap d c none
  size : (MTree.hdr d child').size < 2^32

/-- TAIL hypothesis on `rs.splitChild` (for ANY `rs`): on what the descent produces (`MRPre`, `child'` full) the call is the
    model's `splitChildSlab`: no error, the new receiver, the model's `Ctx`, the heap holds the new subtree (receiver
    stored under its identifier, every child held), `MRStep` (outside the old / new subtree untouched, what left is
    gone, what entered was unallocated), identifiers distinct; a model error comes back as that error -/
def MRSplitTail (T : Nat) (rs : DRestruct r) : Prop :=
  ∀ (d : Nat) (m1 : MMetaSlab (MTree r d)) (x : Option DX) (child' : MTree r d) (k : Nat) (s1 : MHSt r),
    MRPre I s1 m1 child' k → MTree.isFull T d child' = true →
    match m1.splitChildSlab child' k s1.ctx with
    | .ok (m', c') => ∃ s' cc, rs.splitChild (md_meta m1 x) s1 (md_tree d child' none) (Int.ofNat k) =
          (none, md_meta m' x, s', cc) ∧ s'.ctx = c' ∧ s'.popped = s1.popped ∧
        MRPost s1.heap s'.heap (d := d + 1) (m1 : MMetaSlab (MTree r d)) (m' : MMetaSlab (MTree r d)) x ∧ MRAllocOk s' ∧
        I (d + 1) (m' : MMetaSlab (MTree r d))
    | .error e => ∃ m'' s'' cc, rs.splitChild (md_meta m1 x) s1 (md_tree d child' none) (Int.ofNat k) = (some e, m'', s'', cc)

/-- TAIL hypothesis on `rs.mergeOrRebalance` (for ANY `rs`): the same for the model's `mergeOrRebalanceChildSlab`, `child'`
    not full and underflowing by `u` -/
def MRMorTail (T : Nat) (rs : DRestruct r) : Prop :=
  ∀ (d : Nat) (m1 : MMetaSlab (MTree r d)) (x : Option DX) (child' : MTree r d) (k u : Nat) (s1 : MHSt r),
    MRPre I s1 m1 child' k → MTree.isFull T d child' = false → MTree.isUnderflow T d child' = some u →
    match m1.mergeOrRebalanceChildSlab T child' k u s1.ctx with
    | .ok (m', c') => ∃ s' cc, rs.mergeOrRebalance (md_meta m1 x) s1 (md_tree d child' none) (Int.ofNat k) (u32 u) =
          (none, md_meta m' x, s', cc) ∧ s'.ctx = c' ∧ s'.popped = s1.popped ∧
        MRPost s1.heap s'.heap (d := d + 1) (m1 : MMetaSlab (MTree r d)) (m' : MMetaSlab (MTree r d)) x ∧ MRAllocOk s' ∧
        I (d + 1) (m' : MMetaSlab (MTree r d))
    | .error e => ∃ m'' s'' cc, rs.mergeOrRebalance (md_meta m1 x) s1 (md_tree d child' none) (Int.ofNat k) (u32 u) =
          (some e, m'', s'', cc)

/-- the invariant `I` is kept along the descent of `Remove` for the key `k`: by the leaf's `Remove` (`leaf`; it does not
    decrease the allocation counter: `mono`), by going down to a child (`down`), and by writing the child on the path of
    `k`, when it comes back neither full nor underflowing, back into its parent (`store`); its members have `uint32`
    sizes (`size`) -/
structure MRInvClosed (cfg : MCfg) (k : MKey) : Prop where
  leaf : ∀ (sl : MDataSlab r) (c : Ctx) rk rv (sl' : MDataSlab r) c', I 0 (sl : MDataSlab r) →
    MDataSlab.remove cfg sl k c = .ok (rk, rv, sl', c') → I 0 (sl' : MDataSlab r)
  mono : ∀ (sl : MDataSlab r) (c : Ctx) rk rv (sl' : MDataSlab r) c', I 0 (sl : MDataSlab r) →
    MDataSlab.remove cfg sl k c = .ok (rk, rv, sl', c') → c.ctr ≤ c'.ctr
  size : ∀ (d : Nat) (t : MTree r d), I d t → (MTree.hdr d t).size < 2^32
  down : ∀ (d : Nat) (m : MMetaSlab (MTree r d)) (c : MTree r d), I (d + 1) (m : MMetaSlab (MTree r d)) → c ∈ m.children → I d c
  store : ∀ (d : Nat) (m : MMetaSlab (MTree r d)) (child child' : MTree r d) (i : Nat) (c c1 : Ctx) rk rv,
    I (d + 1) (m : MMetaSlab (MTree r d)) →
    MMetaSlab.findChild m.childHdrs (k.dig 0) 0 m.childHdrs.length none (m.childHdrs.length + 1) = some i →
    m.children[i]? = some child → MTree.remove cfg d child k c = .ok (rk, rv, child', c1) →
    I d child' → MTree.isFull cfg.T d child' = false → MTree.isUnderflow cfg.T d child' = none →
    I (d + 1) ({ m with childHdrs := m.childHdrs.set i (MTree.hdr d child'), children := m.children.set i child',
                        hdr := { m.hdr with firstKey := if i == 0 then (MTree.hdr d child').firstKey else m.hdr.firstKey } } :
      MMetaSlab (MTree r d))

/-- the model's error does not come out of a restructuring call (it is `KeyNotFound` at some level or an error of the
    element layer): no `afterChild` is reached -/
def mdr_ErrClean (cfg : MCfg) (k : MKey) : (d : Nat) → MTree r d → Ctx → Prop
  | 0, _, _ => True
  | d + 1, (m : MMetaSlab (MTree r d)), c =>
    ∀ i child, MMetaSlab.findChild m.childHdrs (k.dig 0) 0 m.childHdrs.length none (m.childHdrs.length + 1) = some i →
      m.children[i]? = some child →
      match MTree.remove cfg d child k c with
      | .ok _ => False
      | .error _ => mdr_ErrClean cfg k d child c

theorem mdr_isUnderflow_data_some (T : Nat) (eb : DEnvB r) (rs : DRestruct r) (sl : MDataSlab r) (x : Option DX) (u : Nat)
    (hs : sl.hdr.size < 2^32) (hmin : minThr T < 2^32) (hu : sl.isUnderflow T = some u) :
    MapSlab_IsUnderflow (envD T eb rs) (.dataSlab (md_data sl x)) = some (u32 u, true) := by
  have hn : sl.hdr.size < minThr T := by
    apply Classical.byContradiction; intro h
    simp only [MDataSlab.isUnderflow, gt_iff_lt, if_neg h] at hu; cases hu
  have hu' : u = minThr T - sl.hdr.size := by
    simp only [MDataSlab.isUnderflow, gt_iff_lt, if_pos hn] at hu; injection hu with hu; exact hu.symm
  simp only [MapSlab_IsUnderflow, MapDataSlab_IsUnderflow, md_data, md_hdr, envD_minThr, Bool.false_eq_true, if_false]
  simp only [gt_iff_lt, u32_lt hs hmin, hn, decide_true, if_true, u32_sub (Nat.le_of_lt hn) hmin, hu']

theorem mdr_isUnderflow_meta_some {α : Type} (T : Nat) (eb : DEnvB r) (rs : DRestruct r) (m : MMetaSlab α) (x : Option DX)
    (u : Nat) (hs : m.hdr.size < 2^32) (hmin : minThr T < 2^32) (hu : m.isUnderflow T = some u) :
    MapSlab_IsUnderflow (envD T eb rs) (.metaSlab (md_meta m x)) = some (u32 u, true) := by
  have hn : m.hdr.size < minThr T := by
    apply Classical.byContradiction; intro h
    simp only [MMetaSlab.isUnderflow, gt_iff_lt, if_neg h] at hu; cases hu
  have hu' : u = minThr T - m.hdr.size := by
    simp only [MMetaSlab.isUnderflow, gt_iff_lt, if_pos hn] at hu; injection hu with hu; exact hu.symm
  simp only [MapSlab_IsUnderflow, MapMetaDataSlab_IsUnderflow, md_meta, md_hdr, envD_minThr]
  simp only [gt_iff_lt, u32_lt hs hmin, hn, decide_true, if_true, u32_sub (Nat.le_of_lt hn) hmin, hu']

theorem mdr_isUnderflow_md_tree_some (T : Nat) (eb : DEnvB r) (rs : DRestruct r) (d : Nat) (t : MTree r d) (x : Option DX)
    (u : Nat) (hs : (MTree.hdr d t).size < 2^32) (hmin : minThr T < 2^32) (hu : MTree.isUnderflow T d t = some u) :
    MapSlab_IsUnderflow (envD T eb rs) (md_tree d t x) = some (u32 u, true) := by
  cases d with
  | zero => exact mdr_isUnderflow_data_some T eb rs t x u hs hmin hu
  | succ d => exact mdr_isUnderflow_meta_some T eb rs t x u hs hmin hu

/-- the receiver with the returned child written back, over the storage the child's `Remove` left: the preconditions of
    the restructuring calls and the step from the old tree -/
theorem mdr_m1_facts {d : Nat} (m : MMetaSlab (MTree r d)) (x : Option DX) (s s1 : MHSt r) (i : Nat)
    (child child' : MTree r d) (hhdrs : m.childHdrs = m.children.map (MTree.hdr d))
    (hnd : (md_ids (d + 1) (m : MMetaSlab (MTree r d))).Nodup) (hh : MHolds s.heap (d + 1) (m : MMetaSlab (MTree r d)) x)
    (hc : m.children[i]? = some child) (hpost : MRPost s.heap s1.heap child child' none)
    (hsz : (MTree.hdr d child').size < 2^32) (halloc : MRAllocOk s1) (hinvm : ∀ c ∈ m.children, I d c)
    (hinvc : I d child') :
    MRPre I s1 (mdr_model_m1 m child' i) child' i ∧
    MRStep s.heap s1.heap (md_ids (d + 1) (m : MMetaSlab (MTree r d)))
      (md_ids (d + 1) (mdr_model_m1 m child' i : MMetaSlab (MTree r d))) := by
  obtain ⟨A, B, hAB, _, hset⟩ := mdr_split_at m.children i child hc
  have hil : i < m.children.length := (List.getElem?_eq_some_iff.mp hc).1
  have hch1 : (mdr_model_m1 m child' i).children = A ++ child' :: B := hset child'
  have e0 : md_ids (d + 1) (m : MMetaSlab (MTree r d)) =
      m.hdr.id :: (A.flatMap (md_ids d) ++ (md_ids d child ++ B.flatMap (md_ids d))) := by
    show m.hdr.id :: m.children.flatMap (md_ids d) = _
    rw [hAB]; simp only [List.flatMap_append, List.flatMap_cons]
  have e1 : md_ids (d + 1) (mdr_model_m1 m child' i : MMetaSlab (MTree r d)) =
      m.hdr.id :: (A.flatMap (md_ids d) ++ (md_ids d child' ++ B.flatMap (md_ids d))) := by
    show m.hdr.id :: (mdr_model_m1 m child' i).children.flatMap (md_ids d) = _
    rw [hch1]; simp only [List.flatMap_append, List.flatMap_cons]
  have hsome : ∀ c ∈ m.children, ∀ id ∈ md_ids d c, s.heap id ≠ none :=
    fun c hcm => mdr_MHolds_some d c none (hh.2 c hcm)
  have hnd1 : (md_ids (d + 1) (mdr_model_m1 m child' i : MMetaSlab (MTree r d))).Nodup := by
    rw [e1]
    refine mdr_nodup_replace s.heap m.hdr.id _ _ (md_ids d child) _ (e0 ▸ hnd) hpost.nodup hpost.step.fresh ?_ ?_ ?_
    · rw [hh.1]; exact Option.some_ne_none _
    · intro id hid
      obtain ⟨c, hcA, hidc⟩ := List.mem_flatMap.mp hid
      exact hsome c (by rw [hAB]; exact List.mem_append.mpr (Or.inl hcA)) id hidc
    · intro id hid
      obtain ⟨c, hcB, hidc⟩ := List.mem_flatMap.mp hid
      exact hsome c (by rw [hAB]; exact List.mem_append.mpr (Or.inr (List.mem_cons_of_mem _ hcB))) id hidc
  obtain ⟨_, _, hsib⟩ := mdr_nodup_facts m A B child hAB hnd
  obtain ⟨_, _, hsib1⟩ := mdr_nodup_facts (mdr_model_m1 m child' i) A B child' hch1 hnd1
  refine ⟨⟨halloc, ?_, ?_, ?_, hnd1, ?_, hsz⟩, ?_⟩
  · intro c hcm
    rw [hch1] at hcm
    rcases List.mem_append.mp hcm with hA | hB
    · exact hinvm c (by rw [hAB]; exact List.mem_append.mpr (Or.inl hA))
    · rcases List.mem_cons.mp hB with rfl | hB
      · exact hinvc
      · exact hinvm c (by rw [hAB]; exact List.mem_append.mpr (Or.inr (List.mem_cons_of_mem _ hB)))
  · show (m.children.set i child')[i]? = some child'
    exact List.getElem?_set_self hil
  · show m.childHdrs.set i (MTree.hdr d child') = (m.children.set i child').map (MTree.hdr d)
    rw [List.map_set, hhdrs]
  · intro c hcm
    rw [hch1] at hcm
    have sib : c ∈ A ∨ c ∈ B → MHolds s1.heap d c none := by
      intro hcs
      have hcm0 : c ∈ m.children := by
        rw [hAB]; rcases hcs with h | h
        · exact List.mem_append.mpr (Or.inl h)
        · exact List.mem_append.mpr (Or.inr (List.mem_cons_of_mem _ h))
      refine mdr_MHolds_congr d c none (fun id hid => ?_) (hh.2 c hcm0)
      exact hpost.step.frame id (hsib c hcs id hid).2 (hsib1 c hcs id hid).2
    rcases List.mem_append.mp hcm with hA | hB
    · exact sib (Or.inl hA)
    · rcases List.mem_cons.mp hB with rfl | hB
      · exact hpost.holds
      · exact sib (Or.inr hB)
  · rw [e0, e1]
    exact hpost.step.ctx _ _ _

end tails

section full
variable {r : Nat} (I : (d : Nat) → MTree r d → Prop) (eb : DEnvB r) (rs : DRestruct r) (cfg : MCfg) (k : MKey) (v : Elem)
  (P : DG r → Prop)

/-- the statement proved by induction on the depth: the generated dispatch on a held tree is the translation of the
    model's `MTree.remove`, error or not -/
def MRRemoveOk (d : Nat) : Prop :=
  ∀ (t : MTree r d) (x : Option DX) (s : MHSt r) (depth : Nat), d ≤ depth → mdr_WF d t x → (md_ids d t).Nodup →
    MHolds s.heap d t x → MRAllocOk s → I d t →
    match MTree.remove cfg d t k s.ctx with
    | .ok (rk, rv, t', c') =>
      ∃ s', MapSlab_Remove (envD cfg.T eb rs) (MapMetaDataSlab_Remove (envD cfg.T eb rs) depth) (md_tree d t x) s k (u64 0)
              (u64 (k.dig 0)) (.key k) = some (some (.key rk), some (.val rv), none, md_tree d t' x, s') ∧
            s'.ctx = c' ∧ s'.popped = s.popped ∧ MRPost s.heap s'.heap t t' x ∧ MRAllocOk s' ∧ I d t'
    | .error e =>
      ∃ tt ss, MapSlab_Remove (envD cfg.T eb rs) (MapMetaDataSlab_Remove (envD cfg.T eb rs) depth) (md_tree d t x) s k (u64 0)
              (u64 (k.dig 0)) (.key k) = some (none, none, some e, tt, ss) ∧
            (mdr_ErrClean cfg k d t s.ctx → tt = md_tree d t x ∧ ss = s)

theorem mdr_full_leaf (hE : ElemsSpec cfg k v P eb) (hP : ∀ g, P g) (sl : MDataSlab r) (x : Option DX) (s : MHSt r)
    (rec_ : MapMetaDataSlab DX → MHSt r → MKey → UInt64 → UInt64 → SW →
      Option (Option SV × Option SV × Option GE × MapMetaDataSlab DX × MHSt r))
    (hx : x.isSome = sl.root) (hinl : sl.inlined = false) (hh : s.heap sl.hdr.id ≠ none) (halloc : MRAllocOk s)
    (hmono : ∀ rk rv sl' c', MDataSlab.remove cfg sl k s.ctx = .ok (rk, rv, sl', c') → s.ctx.ctr ≤ c'.ctr)
    (hIc : MRInvClosed I cfg k) (hI : I 0 (sl : MDataSlab r)) :
    match MDataSlab.remove cfg sl k s.ctx with
    | .ok (rk, rv, sl', c') =>
      ∃ s', MapSlab_Remove (envD cfg.T eb rs) rec_ (.dataSlab (md_data sl x)) s k (u64 0) (u64 (k.dig 0)) (.key k) =
              some (some (.key rk), some (.val rv), none, .dataSlab (md_data sl' x), s') ∧
            s'.ctx = c' ∧ s'.popped = s.popped ∧
            MRPost s.heap s'.heap (d := 0) (sl : MDataSlab r) (sl' : MDataSlab r) x ∧ MRAllocOk s' ∧ I 0 (sl' : MDataSlab r)
    | .error e =>
      ∃ tt ss, MapSlab_Remove (envD cfg.T eb rs) rec_ (.dataSlab (md_data sl x)) s k (u64 0) (u64 (k.dig 0)) (.key k) =
              some (none, none, some e, tt, ss) ∧ (True → tt = .dataSlab (md_data sl x) ∧ ss = s) := by
  have hgo := Ob_MapDataSlab_Remove_heap cfg.T eb rs cfg k v P hE sl x hx (hP _) s
  cases hrem : MDataSlab.remove cfg sl k s.ctx with
  | error e =>
    rw [hrem] at hgo
    refine ⟨.dataSlab (md_data sl x), s, ?_, fun _ => ⟨rfl, rfl⟩⟩
    simp only [MapSlab_Remove, hgo]
  | ok q =>
    obtain ⟨rk, rv, sl', c'⟩ := q
    rw [hrem] at hgo
    obtain ⟨hinl', hid⟩ := mdr_data_remove_inv hrem
    rw [hinl] at hinl'
    refine ⟨mdr_leafSt s sl' x c', ?_, rfl, rfl, ⟨?_, ?_, ?_, trivial⟩, ?_, hIc.leaf sl s.ctx rk rv sl' c' hI hrem⟩
    · simp only [MapSlab_Remove, hgo]
    · show (mdr_leafSt s sl' x c').heap sl'.hdr.id = some (.dataSlab (md_data sl' x))
      simp only [mdr_leafSt, hinl', Bool.false_eq_true, if_false, if_true]
    · have e : md_ids 0 (sl' : MDataSlab r) = md_ids 0 (sl : MDataSlab r) := by
        show [sl'.hdr.id] = [sl.hdr.id]; rw [hid]
      rw [e]
      refine ⟨?_, fun id h1 h2 => absurd h1 h2, fun id h1 h2 => absurd h1 h2⟩
      intro id h1 _
      have hne : id ≠ sl'.hdr.id := by
        rw [hid]; intro h; exact h1 (by rw [h]; exact List.mem_singleton.mpr rfl)
      simp only [mdr_leafSt, hinl', Bool.false_eq_true, if_false, hne]
    · exact List.nodup_cons.mpr ⟨List.not_mem_nil, List.nodup_nil⟩
    · intro id hid'
      have hc := hmono rk rv sl' c' hrem
      have hold : s.heap id ≠ none := by
        by_cases he : id = sl'.hdr.id
        · rw [he, hid]; exact hh
        · simpa only [mdr_leafSt, hinl', Bool.false_eq_true, if_false, he] using hid'
      exact Nat.le_trans (halloc id hold) hc

theorem mdr_afterChild_eq {d : Nat} (T : Nat) (m : MMetaSlab (MTree r d)) (child' : MTree r d) (i : Nat) (c1 : Ctx) :
    m.afterChild T child' i c1 =
      if MTree.isFull T d child' then (mdr_model_m1 m child' i).splitChildSlab child' i c1
      else match MTree.isUnderflow T d child' with
        | some u => (mdr_model_m1 m child' i).mergeOrRebalanceChildSlab T child' i u c1
        | none => .ok (mdr_model_m1 m child' i, c1.emit (.store m.hdr.id)) := rfl

theorem mdr_full_level (hS : MRSplitTail I cfg.T rs) (hM : MRMorTail I cfg.T rs) (hIc : MRInvClosed I cfg k)
    (hmax : maxThr cfg.T < 2^32)
    (hmin : minThr cfg.T < 2^32) (hk : k.dig 0 < 2^64) (d : Nat) (ih : MRRemoveOk I eb rs cfg k d)
    (m : MMetaSlab (MTree r d)) (x : Option DX) (s : MHSt r) (depth : Nat) (hd : d + 1 ≤ depth)
    (hwf : mdr_WF (d + 1) (m : MMetaSlab (MTree r d)) x) (hnd : (md_ids (d + 1) (m : MMetaSlab (MTree r d))).Nodup)
    (hh : MHolds s.heap (d + 1) (m : MMetaSlab (MTree r d)) x) (halloc : MRAllocOk s)
    (hI : I (d + 1) (m : MMetaSlab (MTree r d))) :
    match MTree.remove cfg (d + 1) (m : MMetaSlab (MTree r d)) k s.ctx with
    | .ok (rk, rv, t', c') =>
      ∃ s', MapSlab_Remove (envD cfg.T eb rs) (MapMetaDataSlab_Remove (envD cfg.T eb rs) depth) (.metaSlab (md_meta m x)) s k
              (u64 0) (u64 (k.dig 0)) (.key k) = some (some (.key rk), some (.val rv), none, md_tree (d + 1) t' x, s') ∧
            s'.ctx = c' ∧ s'.popped = s.popped ∧ MRPost s.heap s'.heap (d := d + 1) (m : MMetaSlab (MTree r d)) t' x ∧
            MRAllocOk s' ∧ I (d + 1) t'
    | .error e =>
      ∃ tt ss, MapSlab_Remove (envD cfg.T eb rs) (MapMetaDataSlab_Remove (envD cfg.T eb rs) depth) (.metaSlab (md_meta m x)) s k
              (u64 0) (u64 (k.dig 0)) (.key k) = some (none, none, some e, tt, ss) ∧
            (mdr_ErrClean cfg k (d + 1) (m : MMetaSlab (MTree r d)) s.ctx → tt = .metaSlab (md_meta m x) ∧ ss = s) := by
  obtain ⟨hhdrs, hfk, hlen, hwfc⟩ := hwf
  obtain ⟨depth', rfl⟩ : ∃ depth', depth = depth' + 1 := ⟨depth - 1, by omega⟩
  have hgen : ∀ a b c mm ss, MapMetaDataSlab_Remove (envD cfg.T eb rs) (depth' + 1) (md_meta m x) s k (u64 0)
        (u64 (k.dig 0)) (.key k) = some (a, b, c, mm, ss) →
      MapSlab_Remove (envD cfg.T eb rs) (MapMetaDataSlab_Remove (envD cfg.T eb rs) (depth' + 1)) (.metaSlab (md_meta m x)) s k
        (u64 0) (u64 (k.dig 0)) (.key k) = some (a, b, c, .metaSlab mm, ss) := by
    intro a b c mm ss hq
    simp only [MapSlab_Remove, hq]
  rw [mdr_remove_succ]
  cases hf : MMetaSlab.findChild m.childHdrs (k.dig 0) 0 m.childHdrs.length none (m.childHdrs.length + 1) with
  | none =>
    refine ⟨.metaSlab (md_meta m x), s, ?_, fun _ => ⟨rfl, rfl⟩⟩
    exact hgen _ _ _ _ _ (Ob_MapMetaDataSlab_Remove_keyNotFound cfg.T eb rs m x s k (k.dig 0) depth' hk hfk hlen hf)
  | some i =>
    have hi : i < m.childHdrs.length := by
      rcases mdr_findChild_lt _ _ _ _ _ _ _ hf with h | h
      · cases h
      · exact h.2
    have hil : i < m.children.length := by rw [hhdrs, List.length_map] at hi; exact hi
    obtain ⟨child, hc⟩ : ∃ child, m.children[i]? = some child := ⟨_, List.getElem?_eq_getElem hil⟩
    simp only [hc]
    have hmem : child ∈ m.children := List.mem_of_getElem? hc
    obtain ⟨A, B, hAB, _, _⟩ := mdr_split_at m.children i child hc
    obtain ⟨hndc, _, _⟩ := mdr_nodup_facts m A B child hAB hnd
    have ihc := ih child none s depth' (by omega) (hwfc child hmem) hndc (hh.2 child hmem) halloc
      (hIc.down d m child hI hmem)
    have hhdr : m.childHdrs.getD i default = MTree.hdr d child := by
      rw [hhdrs, List.getD_eq_getElem?_getD, List.getElem?_map, hc]; rfl
    have hheap : s.heap (m.childHdrs.getD i default).id = some (md_tree d child none) := by
      rw [hhdr]; exact (hh.2 child hmem).root
    cases hq : MTree.remove cfg d child k s.ctx with
    | error e =>
      rw [hq] at ihc
      obtain ⟨tt, ss, hdisp, hclean⟩ := ihc
      refine ⟨.metaSlab (md_meta m x), ss, ?_, ?_⟩
      · exact hgen _ _ _ _ _ (Ob_MapMetaDataSlab_Remove_childErr cfg.T eb rs m x s k (k.dig 0) depth' hk hfk hlen i hf hi _ _ _ _ _ e
          hheap hdisp)
      · intro hcl
        have h1 := hcl i child hf hc
        rw [hq] at h1
        exact ⟨rfl, (hclean h1).2⟩
    | ok q =>
      obtain ⟨rk, rv, child', c1⟩ := q
      rw [hq] at ihc
      obtain ⟨s1, hdisp, hctx1, hpop1, hpost1, halloc1, hIc'⟩ := ihc
      have hsize := hIc.size d child' hIc'
      obtain ⟨hpre, hstep⟩ := mdr_m1_facts I m x s s1 i child child' hhdrs hnd hh hc hpost1 hsize halloc1
        (fun c hcm => hIc.down d m c hI hcm) hIc'
      have hgo := Ob_MapMetaDataSlab_Remove_step cfg.T eb rs m x s k (k.dig 0) depth' hk hfk hlen i hf hi
        (md_tree d child none) (md_tree d child' none) s1 _ _ hheap hdisp
      rw [mdr_hdrOf_md_tree, mdr_m1_md_meta] at hgo
      have hIF := mdr_isFull_md_tree cfg.T eb rs d child' none hsize hmax
      have hnoclean : mdr_ErrClean cfg k (d + 1) (m : MMetaSlab (MTree r d)) s.ctx → False := by
        intro hcl
        have h1 := hcl i child hf hc
        rw [hq] at h1
        exact h1
      simp only [mdr_afterChild_eq]
      cases hfull : MTree.isFull cfg.T d child' with
      | true =>
        simp only [if_true]
        have ht := hS d (mdr_model_m1 m child' i) x child' i s1 hpre hfull
        rw [hctx1] at ht
        cases hsp : (mdr_model_m1 m child' i).splitChildSlab child' i c1 with
        | error e =>
          rw [hsp] at ht
          obtain ⟨m'', s'', cc, hcall⟩ := ht
          refine ⟨.metaSlab m'', s'', ?_, fun hcl => (hnoclean hcl).elim⟩
          refine (hgen _ _ _ _ _ (hgo.trans ?_))
          simp only [mdr_after, hIF, hfull, hcall, Option.isNone_some, Bool.not_false, if_true]
        | ok q2 =>
          obtain ⟨m', c2⟩ := q2
          rw [hsp] at ht
          obtain ⟨s', cc, hcall, hctx', hpop', hpost', halloc', hI'⟩ := ht
          refine ⟨s', ?_, hctx', by rw [hpop', hpop1], ⟨hpost'.holds, hstep.trans hpost'.step, hpost'.nodup, hpost'.hdrs⟩,
            halloc', hI'⟩
          refine (hgen _ _ _ _ _ (hgo.trans ?_))
          simp only [mdr_after, hIF, hfull, hcall, Option.isNone_none, Bool.not_true, Bool.false_eq_true, if_false]
      | false =>
        simp only [Bool.false_eq_true, if_false]
        cases hunder : MTree.isUnderflow cfg.T d child' with
        | some u =>
          simp only []
          have hIU := mdr_isUnderflow_md_tree_some cfg.T eb rs d child' none u hsize hmin hunder
          have ht := hM d (mdr_model_m1 m child' i) x child' i u s1 hpre hfull hunder
          rw [hctx1] at ht
          cases hsp : (mdr_model_m1 m child' i).mergeOrRebalanceChildSlab cfg.T child' i u c1 with
          | error e =>
            rw [hsp] at ht
            obtain ⟨m'', s'', cc, hcall⟩ := ht
            refine ⟨.metaSlab m'', s'', ?_, fun hcl => (hnoclean hcl).elim⟩
            refine (hgen _ _ _ _ _ (hgo.trans ?_))
            simp only [mdr_after, hIF, hfull, hIU, hcall, Option.isNone_some, Bool.not_false, if_true]
          | ok q2 =>
            obtain ⟨m', c2⟩ := q2
            rw [hsp] at ht
            obtain ⟨s', cc, hcall, hctx', hpop', hpost', halloc', hI'⟩ := ht
            refine ⟨s', ?_, hctx', by rw [hpop', hpop1], ⟨hpost'.holds, hstep.trans hpost'.step, hpost'.nodup, hpost'.hdrs⟩,
              halloc', hI'⟩
            refine (hgen _ _ _ _ _ (hgo.trans ?_))
            simp only [mdr_after, hIF, hfull, hIU, hcall, Option.isNone_none, Bool.not_true, Bool.false_eq_true, if_false]
        | none =>
          simp only []
          have hIU := mdr_isUnderflow_md_tree cfg.T eb rs d child' none hsize hmin hunder
          have hrootnot : ∀ id ∈ (mdr_model_m1 m child' i).children.flatMap (md_ids d), id ≠ m.hdr.id := by
            intro id hid heq
            exact (List.nodup_cons.mp hpre.nodup).1 (heq ▸ hid)
          refine ⟨s1.store m.hdr.id (.metaSlab (md_meta (mdr_model_m1 m child' i) x)), ?_, ?_, ?_, ⟨⟨?_, ?_⟩, ?_, hpre.nodup, hpre.hdrs⟩, ?_,
            hIc.store d m child child' i s.ctx c1 rk rv hI hf hc hq hIc' hfull hunder⟩
          · refine (hgen _ _ _ _ _ (hgo.trans ?_))
            simp only [mdr_after, hIF, hfull, hIU]
            rfl
          · rw [MHSt.store_ctx, hctx1]
          · rw [MHSt.store_popped, hpop1]
          · show (s1.store m.hdr.id _).heap (mdr_model_m1 m child' i).hdr.id = _
            simp only [MHSt.store_heap, mdr_model_m1, if_true]
          · intro c hcm
            refine mdr_MHolds_congr d c none (fun id hid => ?_) (hpre.held c hcm)
            rw [MHSt.store_heap, if_neg (hrootnot id (List.mem_flatMap.mpr ⟨c, hcm, hid⟩))]
          · refine hstep.trans ⟨?_, fun id h1 h2 => absurd h1 h2, fun id h1 h2 => absurd h1 h2⟩
            intro id h1 _
            have hne : id ≠ m.hdr.id := fun h => h1 (by rw [h]; exact List.mem_cons_self)
            rw [MHSt.store_heap, if_neg hne]
          · intro id hid
            show id.idx ≤ s1.ctx.ctr
            by_cases he : id = m.hdr.id
            · have hroot : s1.heap m.hdr.id = s.heap m.hdr.id := by
                obtain ⟨A, B, hAB, _, hset⟩ := mdr_split_at m.children i child hc
                obtain ⟨_, hrc, _⟩ := mdr_nodup_facts m A B child hAB hnd
                obtain ⟨_, hrc1, _⟩ := mdr_nodup_facts (mdr_model_m1 m child' i) A B child' (hset child') hpre.nodup
                exact hpost1.step.frame _ (fun h => hrc _ h rfl) (fun h => hrc1 _ h rfl)
              refine halloc1 id ?_
              rw [he, hroot, hh.1]; exact Option.some_ne_none _
            · refine halloc1 id ?_
              rw [MHSt.store_heap, if_neg he] at hid
              exact hid

theorem mdr_full_all (hE : ElemsSpec cfg k v P eb) (hP : ∀ g, P g) (hS : MRSplitTail I cfg.T rs) (hM : MRMorTail I cfg.T rs)
    (hIc : MRInvClosed I cfg k)
    (hmax : maxThr cfg.T < 2^32) (hmin : minThr cfg.T < 2^32) (hk : k.dig 0 < 2^64) :
    ∀ d, MRRemoveOk I eb rs cfg k d := by
  intro d
  induction d with
  | zero =>
    intro t x s depth _ hwf _ hh halloc hI
    have hh' : s.heap (t : MDataSlab r).hdr.id = some (.dataSlab (md_data t x)) := hh
    have h := mdr_full_leaf I eb rs cfg k v P hE hP t x s (MapMetaDataSlab_Remove (envD cfg.T eb rs) depth) hwf.1 hwf.2
      (fun h => by have h2 := hh'.symm.trans h; cases h2) halloc (fun rk rv sl' c' => hIc.mono t s.ctx rk rv sl' c' hI) hIc hI
    have e : MTree.remove cfg 0 t k s.ctx = MDataSlab.remove cfg (t : MDataSlab r) k s.ctx := rfl
    rw [e]
    cases hq : MDataSlab.remove cfg (t : MDataSlab r) k s.ctx with
    | error err =>
      rw [hq] at h
      obtain ⟨tt, ss, h1, h2⟩ := h
      exact ⟨tt, ss, h1, fun _ => h2 trivial⟩
    | ok q =>
      obtain ⟨rk, rv, t', c'⟩ := q
      rw [hq] at h
      exact h
  | succ d ih =>
    intro t x s depth hd hwf hnd hh halloc hI
    have h := mdr_full_level I eb rs cfg k hS hM hIc hmax hmin hk d ih t x s depth hd hwf hnd hh halloc hI
    cases hq : MTree.remove cfg (d + 1) t k s.ctx with
    | error err =>
      rw [hq] at h
      exact h
    | ok q =>
      obtain ⟨rk, rv, t', c'⟩ := q
      rw [hq] at h
      exact h

/-- THE WHOLE `MapSlab.Remove` over a heap, every branch (store / `SplitChildSlab` / `MergeOrRebalanceChildSlab`), for ANY
    restructuring record `rs` that satisfies the two tails: on a tree held by the heap the generated dispatch is the
    translation of the model's `MTree.remove` - removed key / value, the new tree `md_tree d t' x`, the storage carries
    the model's `Ctx`, holds the new tree, `MRStep` relative to the identifiers of the old and the new tree (frame, gone,
    fresh), identifiers distinct; a model error `e` comes back as `e`, and with nothing changed when it does not come out
    of a restructuring call (`mdr_ErrClean`: `KeyNotFound` at any level, element-layer errors) -/
theorem Ob_MapSlab_Remove_heap_of_tails (hE : ElemsSpec cfg k v P eb) (hP : ∀ g, P g) (hS : MRSplitTail I cfg.T rs)
    (hM : MRMorTail I cfg.T rs) (hIc : MRInvClosed I cfg k) (hmax : maxThr cfg.T < 2^32) (hmin : minThr cfg.T < 2^32) (hk : k.dig 0 < 2^64)
    (d : Nat) (t : MTree r d) (x : Option DX) (s : MHSt r) (depth : Nat) (hd : d ≤ depth) (hwf : mdr_WF d t x)
    (hnd : (md_ids d t).Nodup) (hh : MHolds s.heap d t x) (halloc : MRAllocOk s) (hI : I d t) :
    match MTree.remove cfg d t k s.ctx with
    | .ok (rk, rv, t', c') =>
      ∃ s', MapSlab_Remove (envD cfg.T eb rs) (MapMetaDataSlab_Remove (envD cfg.T eb rs) depth) (md_tree d t x) s k (u64 0)
              (u64 (k.dig 0)) (.key k) = some (some (.key rk), some (.val rv), none, md_tree d t' x, s') ∧
            s'.ctx = c' ∧ s'.popped = s.popped ∧ MRPost s.heap s'.heap t t' x ∧ MRAllocOk s' ∧ I d t'
    | .error e =>
      ∃ tt ss, MapSlab_Remove (envD cfg.T eb rs) (MapMetaDataSlab_Remove (envD cfg.T eb rs) depth) (md_tree d t x) s k (u64 0)
              (u64 (k.dig 0)) (.key k) = some (none, none, some e, tt, ss) ∧
            (mdr_ErrClean cfg k d t s.ctx → tt = md_tree d t x ∧ ss = s) :=
  mdr_full_all I eb rs cfg k v P hE hP hS hM hIc hmax hmin hk d t x s depth hd hwf hnd hh halloc hI

/-- `KeyNotFound` of the model is never the error of a restructuring call... at the top of the path: an index slab whose
    search finds no child is `mdr_ErrClean` -/
theorem mdr_ErrClean_of_notFound {d : Nat} (m : MMetaSlab (MTree r d)) (c : Ctx)
    (hf : MMetaSlab.findChild m.childHdrs (k.dig 0) 0 m.childHdrs.length none (m.childHdrs.length + 1) = none) :
    mdr_ErrClean cfg k (d + 1) (m : MMetaSlab (MTree r d)) c := by
  intro i child hf' _
  rw [hf] at hf'; cases hf'

end full

section top
variable {r : Nat} (I : (d : Nat) → MTree r d → Prop) (eb : DEnvB r) (rs : DRestruct r) (cfg : MCfg) (k : MKey) (v : Elem)
  (P : DG r → Prop)

/-- the heap after a root operation that turns the handle `m1` into `m2` (the depth may change); `xh2` = the extra data of
    the root record AS STORED -/
structure MRRootPost (h h' : SlabID → Option (DSlab r)) (m1 m2 : OMap r) (xh2 : Option DX) : Prop where
  holds : MHolds h' m2.d m2.root xh2
  step : MRStep h h' (md_ids m1.d m1.root) (md_ids m2.d m2.root)
  nodup : (md_ids m2.d m2.root).Nodup
  hdrs : mdr_HdrsOk m2.d m2.root

/-- TAIL hypothesis on the root calls (for ANY `rs`), pointwise on what `OrderedMap.remove` produces.
    * `rs.promote`: the root of the handle is an index slab with exactly ONE child `child` (header list = `[hdr child]`),
      held by the heap (the STORED root record may carry any extra data `xh`: `decrementCount` has only changed the copy in
      the handle), identifiers distinct: the call on `md_map m1 s1` with the child's identifier is the model's
      `promoteIfSingleChild`: no error, `md_map m2 s2`, the model's `Ctx`, the heap holds the new tree with the handle's extra
      data in the root record, `MRStep`, identifiers distinct.
    * `rs.splitRoot`: the root (held, identifiers distinct, size a `uint32`) is full: the call is the model's
      `OMap.splitRoot`; a model error comes back as that error. -/
def MRRootTail (T : Nat) (rs : DRestruct r) : Prop :=
  (∀ (d : Nat) (x : MMetaSlab (MTree r d)) (ty cnt seed : Nat) (child : MTree r d) (s1 : MHSt r) (xh : Option DX),
    x.children = [child] → x.childHdrs = [MTree.hdr d child] →
    MHolds s1.heap (d + 1) (x : MMetaSlab (MTree r d)) xh → (md_ids (d + 1) (x : MMetaSlab (MTree r d))).Nodup →
    MRAllocOk s1 → I (d + 1) (x : MMetaSlab (MTree r d)) →
    ∃ s2, rs.promote (md_map (⟨d + 1, x, ty, cnt, seed⟩ : OMap r) s1) (MTree.hdr d child).id =
        (none, md_map ((⟨d + 1, x, ty, cnt, seed⟩ : OMap r).promoteIfSingleChild s1.ctx).1 s2) ∧
      s2.ctx = ((⟨d + 1, x, ty, cnt, seed⟩ : OMap r).promoteIfSingleChild s1.ctx).2 ∧ s2.popped = s1.popped ∧
      MRRootPost s1.heap s2.heap (⟨d + 1, x, ty, cnt, seed⟩ : OMap r)
        ((⟨d + 1, x, ty, cnt, seed⟩ : OMap r).promoteIfSingleChild s1.ctx).1
        (some (md_extra ((⟨d + 1, x, ty, cnt, seed⟩ : OMap r).promoteIfSingleChild s1.ctx).1)) ∧ MRAllocOk s2 ∧
      I ((⟨d + 1, x, ty, cnt, seed⟩ : OMap r).promoteIfSingleChild s1.ctx).1.d
        ((⟨d + 1, x, ty, cnt, seed⟩ : OMap r).promoteIfSingleChild s1.ctx).1.root) ∧
  (∀ (m2 : OMap r) (s2 : MHSt r) (xh : Option DX),
    MHolds s2.heap m2.d m2.root xh → (md_ids m2.d m2.root).Nodup → mdr_HdrsOk m2.d m2.root →
    (MTree.hdr m2.d m2.root).size < 2^32 → MTree.isFull T m2.d m2.root = true → MRAllocOk s2 →
    I m2.d m2.root →
    match m2.splitRoot s2.ctx with
    | .ok (m3, c3) => ∃ s3, rs.splitRoot (md_map m2 s2) = (none, md_map m3 s3) ∧ s3.ctx = c3 ∧ s3.popped = s2.popped ∧
        MRRootPost s2.heap s3.heap m2 m3 (some (md_extra m3)) ∧ MRAllocOk s3 ∧ I m3.d m3.root
    | .error e => ∃ M, rs.splitRoot (md_map m2 s2) = (some e, M))

/-- the promotion step of the generated `OrderedMap.remove` on a handle whose tree the heap holds = the model's
    `promoteIfSingleChild` (the decision AND the call) -/
theorem mdr_promoteStep_md (hR : MRRootTail I cfg.T rs) (m1 : OMap r) (s1 : MHSt r) (xh : Option DX)
    (hh : MHolds s1.heap m1.d m1.root xh) (hnd : (md_ids m1.d m1.root).Nodup) (hhd : mdr_HdrsOk m1.d m1.root)
    (halloc : MRAllocOk s1) (hI : I m1.d m1.root) :
    ∃ s2 xh2, mdr_promoteStep rs (md_map m1 s1) = (none, md_map (m1.promoteIfSingleChild s1.ctx).1 s2) ∧
      s2.ctx = (m1.promoteIfSingleChild s1.ctx).2 ∧ s2.popped = s1.popped ∧
      MRRootPost s1.heap s2.heap m1 (m1.promoteIfSingleChild s1.ctx).1 xh2 ∧
      (xh2 = xh ∨ xh2 = some (md_extra (m1.promoteIfSingleChild s1.ctx).1)) ∧ MRAllocOk s2 ∧
      I (m1.promoteIfSingleChild s1.ctx).1.d (m1.promoteIfSingleChild s1.ctx).1.root := by
  obtain ⟨d, root, ty, cnt, seed⟩ := m1
  cases d with
  | zero =>
    exact ⟨s1, xh, rfl, rfl, rfl, ⟨hh, MRStep.refl _ _, hnd, hhd⟩, Or.inl rfl, halloc, hI⟩
  | succ d =>
    have hhd' : (root : MMetaSlab (MTree r d)).childHdrs = (root : MMetaSlab (MTree r d)).children.map (MTree.hdr d) := hhd
    have hroot : (md_map (⟨d + 1, root, ty, cnt, seed⟩ : OMap r) s1).root =
        .metaSlab (md_meta (root : MMetaSlab (MTree r d)) (some (md_extra (⟨d + 1, root, ty, cnt, seed⟩ : OMap r)))) := rfl
    have noprom : ((root : MMetaSlab (MTree r d)).children.length ≠ 1) →
        mdr_promoteStep rs (md_map (⟨d + 1, root, ty, cnt, seed⟩ : OMap r) s1) =
          (none, md_map (⟨d + 1, root, ty, cnt, seed⟩ : OMap r) s1) ∧
        (⟨d + 1, root, ty, cnt, seed⟩ : OMap r).promoteIfSingleChild s1.ctx = (⟨d + 1, root, ty, cnt, seed⟩, s1.ctx) := by
      intro hlen
      constructor
      · simp only [mdr_promoteStep, hroot, md_meta, hhd']
        rcases hch : (root : MMetaSlab (MTree r d)).children with _ | ⟨c1, _ | ⟨c2, tl⟩⟩
        · rfl
        · rw [hch] at hlen; exact absurd rfl hlen
        · rfl
      · simp only [OMap.promoteIfSingleChild, hhd']
        rcases hch : (root : MMetaSlab (MTree r d)).children with _ | ⟨c1, _ | ⟨c2, tl⟩⟩
        · rfl
        · rw [hch] at hlen; exact absurd rfl hlen
        · rfl
    by_cases hlen : (root : MMetaSlab (MTree r d)).children.length = 1
    · obtain ⟨child, hch⟩ : ∃ child, (root : MMetaSlab (MTree r d)).children = [child] := by
        rcases hc : (root : MMetaSlab (MTree r d)).children with _ | ⟨c1, _ | ⟨c2, tl⟩⟩
        · rw [hc] at hlen; cases hlen
        · exact ⟨c1, rfl⟩
        · rw [hc] at hlen; simp at hlen
      have hhdr1 : (root : MMetaSlab (MTree r d)).childHdrs = [MTree.hdr d child] := by rw [hhd', hch]; rfl
      obtain ⟨s2, hcall, hctx, hpop, hpost, halloc2, hI2⟩ := hR.1 d root ty cnt seed child s1 xh hch hhdr1 hh hnd halloc hI
      refine ⟨s2, _, ?_, hctx, hpop, hpost, Or.inr rfl, halloc2, hI2⟩
      rw [← hcall]
      simp only [mdr_promoteStep, hroot, md_meta, hhdr1, List.map_cons, List.map_nil, md_hdr]
    · obtain ⟨h1, h2⟩ := noprom hlen
      rw [h2]
      exact ⟨s1, xh, h1, rfl, rfl, ⟨hh, MRStep.refl _ _, hnd, hhd⟩, Or.inl rfl, halloc, hI⟩

/-- `OMap.remove`, unfolded -/
theorem mdr_OMap_remove_eq (m : OMap r) (c : Ctx) :
    OMap.remove cfg m k c =
      match MTree.remove cfg m.d m.root k c with
      | .error e => .error e
      | .ok (rk, rv, root', c1) =>
        let q := ({ m with root := root', count := m.count - 1 } : OMap r).promoteIfSingleChild c1
        if MTree.isFull cfg.T q.1.d q.1.root then
          match q.1.splitRoot q.2 with
          | .error e => .error e
          | .ok (m3, c3) => .ok (rk, rv, m3, c3)
        else .ok (rk, rv, q.1, q.2) := by
  simp only [OMap.remove, OMap.splitRootIfFull, bind, Except.bind, pure, Except.pure]
  cases MTree.remove cfg m.d m.root k c with
  | error e => rfl
  | ok q =>
    obtain ⟨rk, rv, root', c1⟩ := q
    simp only []
    cases hf : MTree.isFull cfg.T (({ m with root := root', count := m.count - 1 } : OMap r).promoteIfSingleChild c1).1.d
        (({ m with root := root', count := m.count - 1 } : OMap r).promoteIfSingleChild c1).1.root with
    | false => simp only [Bool.false_eq_true, if_false]
    | true =>
      simp only [if_true]
      cases (({ m with root := root', count := m.count - 1 } : OMap r).promoteIfSingleChild c1).1.splitRoot
          (({ m with root := root', count := m.count - 1 } : OMap r).promoteIfSingleChild c1).2 with
      | error e => rfl
      | ok q3 => rfl

/-- the tail of the generated `OrderedMap.remove` after `decrementCount`, on the in-memory handle `M` -/
def mdr_topTail (T : Nat) (rk rv : Option SV) (M : DMap r) : Option (Option SV × Option SV × Option GE × DMap r) :=
  let pr := mdr_promoteStep rs M
  if (!pr.1.isNone) then some (none, none, pr.1, pr.2)
  else
    match MapSlab_IsFull (envD T eb rs) pr.2.root with
    | none => none
    | some true =>
      let q := rs.splitRoot pr.2
      if (!q.1.isNone) then some (none, none, q.1, q.2) else some (rk, rv, none, q.2)
    | some false => some (rk, rv, none, pr.2)

/-- THE WHOLE `OrderedMap.remove` over a heap, for ANY `rs` satisfying the three tails: on a handle whose tree the heap
    holds, the generated code is the translation of the model's `OMap.remove`: removed key / value, the new handle
    `md_map m' s'`, the model's `Ctx`, the heap holds the new tree, `MRStep` from the old tree's identifiers to the new
    tree's.  The STORED root record carries the extra data `xh`: the new handle's after a promotion / root split, but the
    OLD one (`md_extra m`: count not decremented) on the plain path - Go's `decrementCount` mutates the slab the storage
    already points to, no `Store` follows; in a heap of VALUES the stored copy is stale.
    A model error comes back as that error; with `md_map m s` unchanged (count untouched) when it is the tree's
    `Remove` that failed outside a restructuring call. -/
theorem Ob_OrderedMap_remove_heap_of_tails (hE : ElemsSpec cfg k v P eb) (hP : ∀ g, P g) (hS : MRSplitTail I cfg.T rs)
    (hM : MRMorTail I cfg.T rs) (hR : MRRootTail I cfg.T rs) (hIc : MRInvClosed I cfg k) (hmax : maxThr cfg.T < 2^32) (hmin : minThr cfg.T < 2^32)
    (hk : k.dig 0 < 2^64) (m : OMap r) (s : MHSt r) (depth : Nat) (hd : m.d ≤ depth)
    (hwf : mdr_WF m.d m.root (some (md_extra m))) (hnd : (md_ids m.d m.root).Nodup)
    (hh : MHolds s.heap m.d m.root (some (md_extra m))) (hcnt : 0 < m.count)
    (halloc : MRAllocOk s) (hI : I m.d m.root) :
    match OMap.remove cfg m k s.ctx with
    | .ok (rk, rv, m', c') =>
      ∃ s' xh, OrderedMap_remove (envD cfg.T eb rs) depth (md_map m s) (.key k) =
          some (some (.key rk), some (.val rv), none, md_map m' s') ∧
        s'.ctx = c' ∧ s'.popped = s.popped ∧ MRRootPost s.heap s'.heap m m' xh ∧
        (xh = some (md_extra m) ∨ xh = some (md_extra m')) ∧ MRAllocOk s' ∧ I m'.d m'.root
    | .error e =>
      ∃ M, OrderedMap_remove (envD cfg.T eb rs) depth (md_map m s) (.key k) = some (none, none, some e, M) ∧
        (mdr_ErrClean cfg k m.d m.root s.ctx → (∃ e', MTree.remove cfg m.d m.root k s.ctx = .error e') → M = md_map m s) := by
  have htree := Ob_MapSlab_Remove_heap_of_tails I eb rs cfg k v P hE hP hS hM hIc hmax hmin hk m.d m.root (some (md_extra m)) s depth
    hd hwf hnd hh halloc hI
  rw [mdr_OMap_remove_eq]
  cases hq : MTree.remove cfg m.d m.root k s.ctx with
  | error e =>
    rw [hq] at htree
    obtain ⟨tt, ss, hdisp, hclean⟩ := htree
    refine ⟨{ Storage := ss, root := tt, digesterBuilder := () }, ?_, ?_⟩
    · exact Ob_OrderedMap_remove_err cfg.T eb rs (md_map m s) k depth tt ss none none e hdisp
    · intro hcl _
      obtain ⟨h1, h2⟩ := hclean hcl
      rw [h1, h2]; rfl
  | ok q =>
    obtain ⟨rk, rv, root', c1⟩ := q
    rw [hq] at htree
    obtain ⟨s1, hdisp, hctx1, hpop1, hpost1, halloc1, hI1⟩ := htree
    have hstep : OrderedMap_remove (envD cfg.T eb rs) depth (md_map m s) (.key k) =
        mdr_topTail eb rs cfg.T (some (.key rk)) (some (.val rv))
          (md_map ({ m with root := root', count := m.count - 1 } : OMap r) s1) :=
      Ob_OrderedMap_remove_step_md cfg.T eb rs m s k depth m.d root' s1 _ _ hcnt hdisp
    obtain ⟨s2, xh2, hprom, hctx2, hpop2, hpost2, hxh2, halloc2, hI2⟩ := mdr_promoteStep_md I rs cfg hR
      ({ m with root := root', count := m.count - 1 } : OMap r) s1 (some (md_extra m)) hpost1.holds hpost1.nodup hpost1.hdrs
      halloc1 hI1
    rw [hctx1] at hprom hctx2 hpost2 hxh2 hI2
    have hstep1 : MRStep s.heap s2.heap (md_ids m.d m.root)
        (md_ids (({ m with root := root', count := m.count - 1 } : OMap r).promoteIfSingleChild c1).1.d
          (({ m with root := root', count := m.count - 1 } : OMap r).promoteIfSingleChild c1).1.root) :=
      hpost1.step.trans hpost2.step
    obtain ⟨pq, hpq⟩ : ∃ pq, pq = ({ m with root := root', count := m.count - 1 } : OMap r).promoteIfSingleChild c1 :=
      ⟨_, rfl⟩
    simp only []
    rw [← hpq]
    rw [← hpq] at hprom hctx2 hpost2 hxh2 hstep1 hI2
    obtain ⟨m2, c2⟩ := pq
    simp only [] at hprom hctx2 hpost2 hxh2 hstep1 hI2 ⊢
    have hsize := hIc.size m2.d m2.root hI2
    have hIF : MapSlab_IsFull (envD cfg.T eb rs) (md_map m2 s2).root = some (MTree.isFull cfg.T m2.d m2.root) :=
      mdr_isFull_md_tree cfg.T eb rs m2.d m2.root _ hsize hmax
    cases hfull : MTree.isFull cfg.T m2.d m2.root with
    | false =>
      simp only [Bool.false_eq_true, if_false]
      refine ⟨s2, xh2, ?_, hctx2, by rw [hpop2, hpop1], ⟨hpost2.holds, hstep1, hpost2.nodup, hpost2.hdrs⟩, hxh2, halloc2, hI2⟩
      rw [hstep]
      simp only [mdr_topTail, hprom, Option.isNone_none, Bool.not_true, Bool.false_eq_true, if_false, hIF, hfull]
    | true =>
      simp only [if_true]
      have ht := hR.2 m2 s2 xh2 hpost2.holds hpost2.nodup hpost2.hdrs hsize hfull halloc2 hI2
      rw [hctx2] at ht
      cases hsp : m2.splitRoot c2 with
      | error e =>
        rw [hsp] at ht
        obtain ⟨M, hcall⟩ := ht
        refine ⟨M, ?_, ?_⟩
        · rw [hstep]
          simp only [mdr_topTail, hprom, Option.isNone_none, Bool.not_true, Bool.false_eq_true, if_false, hIF, hfull, hcall,
            Option.isNone_some, Bool.not_false, if_true]
        · intro _ h
          obtain ⟨e', he'⟩ := h
          cases he'
      | ok q3 =>
        obtain ⟨m3, c3⟩ := q3
        rw [hsp] at ht
        obtain ⟨s3, hcall, hctx3, hpop3, hpost3, halloc3, hI3⟩ := ht
        refine ⟨s3, _, ?_, hctx3, by rw [hpop3, hpop2, hpop1],
          ⟨hpost3.holds, hstep1.trans hpost3.step, hpost3.nodup, hpost3.hdrs⟩, Or.inr rfl, halloc3, hI3⟩
        rw [hstep]
        simp only [mdr_topTail, hprom, Option.isNone_none, Bool.not_true, Bool.false_eq_true, if_false, hIF, hfull, hcall]

end top

/-! ## non-vacuity: all hypotheses of the two theorems hold together on a concrete run -/

namespace MdrEx
open MeiEx
/-- the 2-child index slab with a size between the thresholds of `T = 16` (8, 24) -/
def mmS : MMetaSlab (MTree 0 0) := { mm with hdr := { mm.hdr with size := 20 } }
def mmS1 : MMetaSlab (MTree 0 0) := mdr_model_m1 mmS dA' 0
/-- the handle: 2 entries -/
def omS : OMap 0 := { d := 1, root := mmS, ty := 0, count := 2, seed := 0 }
def xS : Option DX := some (md_extra omS)
def sS : MHSt 0 :=
  { heap := fun id => if id = ⟨1, 1⟩ then some (.metaSlab (md_meta mmS xS)) else s0.heap id, ctx := c0 }

/-- the invariant of the example: the slabs this run meets -/
def IS : (d : Nat) → MTree 0 d → Prop
  | 0, (sl : MDataSlab 0) => sl = dA ∨ sl = dA' ∨ sl = dB
  | 1, (m : MMetaSlab (MTree 0 0)) => m = mmS ∨ m = mmS1
  | _ + 2, _ => False

theorem dA_remove (c : Ctx) : MDataSlab.remove cfg16 dA k1 c = .ok (k1, v1, dA', c.emit (.store ⟨1, 2⟩)) := rfl
theorem dA'_remove (c : Ctx) : MDataSlab.remove cfg16 dA' k1 c = .error .keyNotFound := rfl
theorem dB_remove (c : Ctx) : MDataSlab.remove cfg16 dB k1 c = .error .keyNotFound := rfl

theorem IS1 {m : MTree 0 1} (h : IS 1 m) : (m : MMetaSlab (MTree 0 0)) = mmS ∨ (m : MMetaSlab (MTree 0 0)) = mmS1 := h
theorem IS0 {sl : MTree 0 0} (h : IS 0 sl) : (sl : MDataSlab 0) = dA ∨ (sl : MDataSlab 0) = dA' ∨ (sl : MDataSlab 0) = dB := h

theorem IS_closed : MRInvClosed IS cfg16 k1 where
  leaf := by
    intro sl c rk rv sl' c' hI hrem
    rcases IS0 hI with rfl | rfl | rfl
    · rw [dA_remove] at hrem
      injection hrem with hrem
      injection hrem with _ hrem
      injection hrem with _ hrem
      injection hrem with hrem _
      exact Or.inr (Or.inl hrem.symm)
    · rw [dA'_remove] at hrem; cases hrem
    · rw [dB_remove] at hrem; cases hrem
  mono := by
    intro sl c rk rv sl' c' hI hrem
    rcases IS0 hI with rfl | rfl | rfl
    · rw [dA_remove] at hrem
      injection hrem with hrem
      injection hrem with _ hrem
      injection hrem with _ hrem
      injection hrem with _ hrem
      rw [← hrem]; exact Nat.le_refl _
    · rw [dA'_remove] at hrem; cases hrem
    · rw [dB_remove] at hrem; cases hrem
  size := by
    intro d t hI
    match d, t, hI with
    | 0, t, hI => rcases IS0 hI with rfl | rfl | rfl <;> decide
    | 1, t, hI => rcases IS1 hI with h | h <;> (rw [h]; decide)
    | d + 2, t, hI => exact hI.elim
  down := by
    intro d m c hI hmem
    match d, m, c, hI, hmem with
    | 0, m, c, hI, hmem =>
      rcases IS1 hI with h | h
      · rw [h] at hmem
        have hm : c ∈ [(dA : MTree 0 0), dB] := hmem
        rcases List.mem_cons.mp hm with rfl | hm
        · exact Or.inl rfl
        · rcases List.mem_cons.mp hm with rfl | hm
          · exact Or.inr (Or.inr rfl)
          · cases hm
      · rw [h] at hmem
        have hm : c ∈ [(dA' : MTree 0 0), dB] := hmem
        rcases List.mem_cons.mp hm with rfl | hm
        · exact Or.inr (Or.inl rfl)
        · rcases List.mem_cons.mp hm with rfl | hm
          · exact Or.inr (Or.inr rfl)
          · cases hm
    | d + 1, m, c, hI, hmem => exact hI.elim
  store := by
    intro d m child child' i c c1 rk rv hI hf hc hq hI' _ _
    match d, m, child, child', hI, hf, hc, hq, hI' with
    | 0, m, child, child', hI, hf, hc, hq, hI' =>
      rcases IS1 hI with h | h
      · subst h
        have h0 : MMetaSlab.findChild mmS.childHdrs (k1.dig 0) 0 mmS.childHdrs.length none (mmS.childHdrs.length + 1) = some 0 := rfl
        rw [h0] at hf
        injection hf with hf
        subst hf
        have hcA : mmS.children[0]? = some dA := rfl
        have hch : child = dA := (Option.some.inj (hcA.symm.trans hc)).symm
        subst hch
        have hr : MTree.remove cfg16 0 (dA : MDataSlab 0) k1 c = .ok (k1, v1, dA', c.emit (.store ⟨1, 2⟩)) := dA_remove c
        rw [hr] at hq
        injection hq with hq
        injection hq with _ hq
        injection hq with _ hq
        injection hq with hq _
        subst hq
        exact Or.inr rfl
      · subst h
        have h0 : MMetaSlab.findChild mmS1.childHdrs (k1.dig 0) 0 mmS1.childHdrs.length none (mmS1.childHdrs.length + 1) = some 0 := rfl
        rw [h0] at hf
        injection hf with hf
        subst hf
        have hcA : mmS1.children[0]? = some dA' := rfl
        have hch : child = dA' := (Option.some.inj (hcA.symm.trans hc)).symm
        subst hch
        have hr : MTree.remove cfg16 0 (dA' : MDataSlab 0) k1 c = .error .keyNotFound := dA'_remove c
        rw [hr] at hq
        cases hq
    | d + 1, m, child, child', hI, hf, hc, hq, hI' => exact hI.elim

/-- in this run nothing is restructured: every slab of `IS` is neither full nor underflowing at `T = 16` -/
theorem IS_quiet : ∀ (d : Nat) (t : MTree 0 d), IS d t → MTree.isFull 16 d t = false ∧ MTree.isUnderflow 16 d t = none := by
  intro d t hI
  match d, t, hI with
  | 0, t, hI => rcases IS0 hI with rfl | rfl | rfl <;> exact ⟨rfl, rfl⟩
  | 1, t, hI => rcases IS1 hI with h | h <;> (rw [h]; exact ⟨rfl, rfl⟩)
  | d + 2, t, hI => exact hI.elim

theorem IS_split : MRSplitTail IS 16 rsx := by
  intro d m1 x child' k s1 hpre hfull
  have hI := hpre.inv child' (List.mem_of_getElem? hpre.at_k)
  rw [(IS_quiet d child' hI).1] at hfull
  cases hfull

theorem IS_mor : MRMorTail IS 16 rsx := by
  intro d m1 x child' k u s1 hpre _ hunder
  have hI := hpre.inv child' (List.mem_of_getElem? hpre.at_k)
  rw [(IS_quiet d child' hI).2] at hunder
  cases hunder

theorem IS_root : MRRootTail IS 16 rsx := by
  refine ⟨?_, ?_⟩
  · intro d x ty cnt seed child s1 xh hch _ _ _ _ hI
    match d, x, child, hch, hI with
    | 0, x, child, hch, hI =>
      rcases IS1 hI with h | h
      · rw [h] at hch
        have : ([(dA : MTree 0 0), dB] : List (MTree 0 0)) = [child] := hch
        injection this with _ h2; cases h2
      · rw [h] at hch
        have : ([(dA' : MTree 0 0), dB] : List (MTree 0 0)) = [child] := hch
        injection this with _ h2; cases h2
    | d + 1, x, child, hch, hI => exact hI.elim
  · intro m2 s2 xh _ _ _ _ hfull _ hI
    rw [(IS_quiet m2.d m2.root hI).1] at hfull
    cases hfull

theorem mmS_holds : MHolds sS.heap 1 (mmS : MMetaSlab (MTree 0 0)) xS := by
  refine ⟨rfl, ?_⟩
  intro c hc
  have hc' : c ∈ [(dA : MTree 0 0), dB] := hc
  rcases List.mem_cons.mp hc' with rfl | h
  · rfl
  · rcases List.mem_cons.mp h with rfl | h
    · rfl
    · cases h

theorem mmS_wf : mdr_WF 1 (mmS : MMetaSlab (MTree 0 0)) xS := by
  refine ⟨rfl, by decide, by decide, ?_⟩
  intro c hc
  have hc' : c ∈ [(dA : MTree 0 0), dB] := hc
  rcases List.mem_cons.mp hc' with rfl | h
  · exact ⟨rfl, rfl⟩
  · rcases List.mem_cons.mp h with rfl | h
    · exact ⟨rfl, rfl⟩
    · cases h

theorem sS_alloc : MRAllocOk sS := by
  intro id hid
  show id.idx ≤ 5
  by_cases h1 : id = ⟨1, 1⟩
  · rw [h1]; decide
  · by_cases h2 : id = ⟨1, 2⟩
    · rw [h2]; decide
    · by_cases h3 : id = ⟨1, 3⟩
      · rw [h3]; decide
      · exact absurd (by simp only [sS, s0, h1, h2, h3, if_false]) hid

theorem mmS_remove : MTree.remove cfg16 1 (mmS : MMetaSlab (MTree 0 0)) k1 sS.ctx =
    .ok (k1, v1, (mmS1 : MMetaSlab (MTree 0 0)), { ctr := 5, eff := [.store ⟨1, 2⟩, .store ⟨1, 1⟩] }) := rfl

/-- non-vacuity of `Ob_MapSlab_Remove_heap_of_tails`: all its hypotheses hold together on the run that removes `k1` from
    the 2-child index slab `mmS` (invariant `IS` = the slabs of this run; none of them is full or underflowing at
    `T = 16`, so the tails hold for ANY `rs`, here `rsx`) -/
example : ∃ s', MapSlab_Remove (envD 16 ebx16 rsx) (MapMetaDataSlab_Remove (envD 16 ebx16 rsx) 1) (.metaSlab (md_meta mmS xS)) sS k1
      (u64 0) (u64 5) (.key k1) = some (some (.key k1), some (.val v1), none, .metaSlab (md_meta mmS1 xS), s') ∧
    s'.ctx = { ctr := 5, eff := [.store ⟨1, 2⟩, .store ⟨1, 1⟩] } ∧ s'.popped = [] ∧
    MRPost sS.heap s'.heap (d := 1) (mmS : MMetaSlab (MTree 0 0)) (mmS1 : MMetaSlab (MTree 0 0)) xS ∧ MRAllocOk s' ∧
    IS 1 (mmS1 : MMetaSlab (MTree 0 0)) := by
  have h := Ob_MapSlab_Remove_heap_of_tails IS ebx16 rsx cfg16 k1 v3 (fun _ => True) ebx16_ok (fun _ => trivial) IS_split IS_mor
    IS_closed (by decide) (by decide) (by decide) 1 (mmS : MMetaSlab (MTree 0 0)) xS sS 1 (Nat.le_refl _) mmS_wf (by decide)
    mmS_holds sS_alloc (Or.inl rfl)
  rw [mmS_remove] at h
  exact h

theorem omS_remove : OMap.remove cfg16 omS k1 sS.ctx =
    .ok (k1, v1, { omS with root := (mmS1 : MMetaSlab (MTree 0 0)), count := 1 },
      { ctr := 5, eff := [.store ⟨1, 2⟩, .store ⟨1, 1⟩] }) := rfl

/-- non-vacuity of `Ob_OrderedMap_remove_heap_of_tails`: the same run from the handle; count 2 -> 1, no promotion (two
    children), no root split; the STORED root record keeps the old extra data (`xh = some (md_extra omS)`) -/
example : ∃ s' xh, OrderedMap_remove (envD 16 ebx16 rsx) 1 (md_map omS sS) (.key k1) =
      some (some (.key k1), some (.val v1), none,
        md_map ({ omS with root := (mmS1 : MMetaSlab (MTree 0 0)), count := 1 } : OMap 0) s') ∧
    s'.ctx = { ctr := 5, eff := [.store ⟨1, 2⟩, .store ⟨1, 1⟩] } ∧ s'.popped = [] ∧
    MRRootPost sS.heap s'.heap omS ({ omS with root := (mmS1 : MMetaSlab (MTree 0 0)), count := 1 } : OMap 0) xh ∧
    (xh = some (md_extra omS) ∨
      xh = some (md_extra ({ omS with root := (mmS1 : MMetaSlab (MTree 0 0)), count := 1 } : OMap 0))) ∧
    MRAllocOk s' ∧ IS 1 (mmS1 : MMetaSlab (MTree 0 0)) := by
  have h := Ob_OrderedMap_remove_heap_of_tails IS ebx16 rsx cfg16 k1 v3 (fun _ => True) ebx16_ok (fun _ => trivial) IS_split
    IS_mor IS_root IS_closed (by decide) (by decide) (by decide) omS sS 1 (Nat.le_refl _) mmS_wf (by decide) mmS_holds
    (by decide) sS_alloc (Or.inl rfl)
  rw [omS_remove] at h
  exact h
end MdrEx

end Atree.TransEq
