import AtreeModel.CommitPool
/-
  Lemmas about the message-passing model `AtreeModel/CommitPool.lean` (`Atree.PoolX`) of the
  worker pools of `FastCommit` / `NondeterministicFastCommit` with main goroutine, `done` channel
  and deferred closure:
  * `DataInv`  (conservation): results received ++ results buffered ++ jobs held ++ queued ++ unsent
    ++ dropped is a permutation of the jobs; every result is `(j, f j)`.  Preserved by EVERY step for
    EVERY parameter value (also for the mutants).
  * `CtlInv`   (control): the relations between main's phase, the channel flags and the encoder
    states; needs `waitBeforeClose = true`.
  * `measure`  : decreases on every step that changes the state.
  * progress   : in a reachable non-final state some actor's step decreases the measure.
  Core Lean only.
-/
namespace Atree
namespace PoolX

variable {ι ρ : Type}

/-! ### per-encoder bookkeeping -/

/-- the job an encoder holds -/
def wjob : WState ι → List ι
  | .took j => [j]
  | .sending j => [j]
  | _ => []

/-- the jobs held by encoders (taken from `jobs`, result not yet sent, not dropped) -/
def held (ws : List (WState ι)) : List ι := ws.flatMap wjob

/-- weight of an encoder state in the termination measure -/
def wt : WState ι → Nat
  | .idle => 1
  | .took _ => 4
  | .sending _ => 3
  | .exited => 0

theorem sum_map_set {α : Type} (g : α → Nat) (l : List α) (w : Nat) (old new : α)
    (h : l[w]? = some old) :
    ((l.set w new).map g).sum + g old = (l.map g).sum + g new := by
  induction l generalizing w with
  | nil => simp at h
  | cons a as ih =>
    cases w with
    | zero =>
      simp only [List.getElem?_cons_zero, Option.some.injEq] at h
      subst h
      simp only [List.set_cons_zero, List.map_cons, List.sum_cons]
      omega
    | succ w =>
      simp only [List.getElem?_cons_succ] at h
      have := ih w h
      simp only [List.set_cons_succ, List.map_cons, List.sum_cons]
      omega

theorem count_held_set [DecidableEq ι] (a : ι) (ws : List (WState ι)) (w : Nat) (old new : WState ι)
    (h : ws[w]? = some old) :
    (held (ws.set w new)).count a + (wjob old).count a = (held ws).count a + (wjob new).count a := by
  unfold held
  rw [List.count_flatMap, List.count_flatMap]
  exact sum_map_set (List.count a ∘ wjob) ws w old new h

theorem length_held_set (ws : List (WState ι)) (w : Nat) (old new : WState ι)
    (h : ws[w]? = some old) :
    (held (ws.set w new)).length + (wjob old).length = (held ws).length + (wjob new).length := by
  unfold held
  rw [List.length_flatMap, List.length_flatMap]
  exact sum_map_set (fun x => (wjob x).length) ws w old new h

theorem wt_set (ws : List (WState ι)) (w : Nat) (old new : WState ι) (h : ws[w]? = some old) :
    ((ws.set w new).map wt).sum + wt old = (ws.map wt).sum + wt new :=
  sum_map_set wt ws w old new h

theorem held_replicate_idle (n : Nat) : held (List.replicate n (WState.idle : WState ι)) = [] := by
  induction n with
  | zero => rfl
  | succ n ih => rw [List.replicate_succ]; unfold held at *; rw [List.flatMap_cons, ih]; rfl

theorem allExited_iff (ws : List (WState ι)) : allExited ws = true ↔ ∀ x ∈ ws, x = .exited := by
  unfold allExited
  rw [List.all_eq_true]
  constructor
  · intro h x hx
    have := h x hx
    cases x <;> simp_all
  · intro h x hx
    rw [h x hx]

theorem held_of_allExited (ws : List (WState ι)) (h : ∀ x ∈ ws, x = .exited) : held ws = [] := by
  unfold held
  rw [List.flatMap_eq_nil_iff]
  intro x hx
  rw [h x hx]
  rfl

/-! ### conservation -/

/-- where every job is: received, buffered in `results`, held by an encoder, queued in `jobs`,
    still to be sent, or dropped -/
def jobList (s : XState ι ρ) : List ι :=
  (s.received ++ s.results).map Prod.fst ++ (held s.workers ++ (s.queue ++ (s.unsent ++ s.dropped)))

structure DataInv (P : Params ι ρ) (jobs : List ι) (s : XState ι ρ) : Prop where
  perm : (jobList s).Perm jobs
  vals : ∀ r ∈ s.received ++ s.results, r.2 = P.f r.1

theorem DataInv.of_eq {P : Params ι ρ} {jobs : List ι} {s s' : XState ι ρ} (h : DataInv P jobs s)
    (h1 : s'.received = s.received) (h2 : s'.results = s.results) (h3 : s'.workers = s.workers)
    (h4 : s'.queue = s.queue) (h5 : s'.unsent = s.unsent) (h6 : s'.dropped = s.dropped) :
    DataInv P jobs s' := by
  constructor
  · have := h.perm
    unfold jobList at *
    rw [h1, h2, h3, h4, h5, h6]
    exact this
  · rw [h1, h2]
    exact h.vals

/-- main receives the oldest buffered result -/
theorem DataInv.recv {P : Params ι ρ} {jobs : List ι} {s s' : XState ι ρ} (h : DataInv P jobs s)
    (r : ι × ρ) (rest : List (ι × ρ)) (hr : s.results = r :: rest)
    (h1 : s'.received = s.received ++ [r]) (h2 : s'.results = rest) (h3 : s'.workers = s.workers)
    (h4 : s'.queue = s.queue) (h5 : s'.unsent = s.unsent) (h6 : s'.dropped = s.dropped) :
    DataInv P jobs s' := by
  have e : s'.received ++ s'.results = s.received ++ s.results := by
    rw [h1, h2, hr, List.append_assoc]; rfl
  constructor
  · have := h.perm
    unfold jobList at *
    rw [e, h3, h4, h5, h6]
    exact this
  · rw [e]
    exact h.vals

theorem data_init (P : Params ι ρ) (jobs : List ι) (workers : Nat) :
    DataInv P jobs (init P jobs workers) := by
  unfold init
  split
  · constructor
    · simp [jobList, initNondet, held_replicate_idle]
    · simp [initNondet]
  · constructor
    · simp [jobList, initFast, held_replicate_idle]
    · simp [initFast]

theorem data_encoder (P : Params ι ρ) (jobs : List ι) (s : XState ι ρ) (w : Nat)
    (h : DataInv P jobs s) : DataInv P jobs (encoderStep P s w) := by
  classical
  have hp := h.perm
  rw [List.perm_iff_count] at hp
  unfold encoderStep
  split
  · exact h
  · exact h
  · rename_i hw
    split
    · rename_i j rest hq
      constructor
      · rw [List.perm_iff_count]
        intro a
        have := hp a
        have hc := count_held_set a s.workers w _ (.took j) hw
        simp only [jobList, hq, wjob, List.count_append, List.count_cons, List.count_nil] at this hc ⊢
        omega
      · exact h.vals
    · split
      · constructor
        · rw [List.perm_iff_count]
          intro a
          have := hp a
          have hc := count_held_set a s.workers w _ .exited hw
          simp only [jobList, wjob, List.count_append, List.count_nil] at this hc ⊢
          omega
        · exact h.vals
      · exact h
  · rename_i j hw
    split
    · constructor
      · rw [List.perm_iff_count]
        intro a
        have := hp a
        have hc := count_held_set a s.workers w _ .exited hw
        simp only [jobList, wjob, List.count_append, List.count_cons, List.count_nil] at this hc ⊢
        omega
      · exact h.vals
    · constructor
      · rw [List.perm_iff_count]
        intro a
        have := hp a
        have hc := count_held_set a s.workers w _ (.sending j) hw
        simp only [jobList, wjob, List.count_append, List.count_cons, List.count_nil] at this hc ⊢
        omega
      · exact h.vals
  · rename_i j hw
    split
    · exact h.of_eq rfl rfl rfl rfl rfl rfl
    · split
      · constructor
        · rw [List.perm_iff_count]
          intro a
          have := hp a
          have hc := count_held_set a s.workers w _ .idle hw
          simp only [jobList, wjob, List.map_append, List.map_cons, List.map_nil, List.count_append,
            List.count_cons, List.count_nil] at this hc ⊢
          omega
        · intro r hr
          simp only [← List.append_assoc, List.mem_append, List.mem_singleton] at hr
          rcases hr with hr | rfl
          · exact h.vals r (List.mem_append.mpr hr)
          · rfl
      · exact h

theorem data_main (P : Params ι ρ) (jobs : List ι) (s : XState ι ρ)
    (h : DataInv P jobs s) : DataInv P jobs (mainStep P s) := by
  classical
  unfold mainStep
  split
  · unfold deferredStep
    split
    · split
      · exact h
      · exact h.of_eq rfl rfl rfl rfl rfl rfl
    · exact h.of_eq rfl rfl rfl rfl rfl rfl
    · exact h
  · unfold deferredStep
    split
    · split
      · exact h
      · exact h.of_eq rfl rfl rfl rfl rfl rfl
    · exact h.of_eq rfl rfl rfl rfl rfl rfl
    · exact h
  · exact h
  · split
    · unfold nondetMainStep
      split
      · split
        · rename_i j rest hu
          constructor
          · have hp := h.perm
            rw [List.perm_iff_count] at hp ⊢
            intro a
            have := hp a
            simp only [jobList, hu, List.count_append, List.count_cons, List.count_nil] at this ⊢
            omega
          · exact h.vals
        · exact h.of_eq rfl rfl rfl rfl rfl rfl
      · exact h.of_eq rfl rfl rfl rfl rfl rfl
      · split
        · exact h.of_eq rfl rfl rfl rfl rfl rfl
        · exact h.of_eq rfl rfl rfl rfl rfl rfl
      · split
        · exact h.of_eq rfl rfl rfl rfl rfl rfl
        · split
          · exact h
          · rename_i r rest hr
            dsimp only
            split
            · exact h.recv r rest hr rfl rfl rfl rfl rfl rfl
            · split
              · exact h.recv r rest hr rfl rfl rfl rfl rfl rfl
              · split
                · exact h.recv r rest hr rfl rfl rfl rfl rfl rfl
                · exact h.recv r rest hr rfl rfl rfl rfl rfl rfl
      · exact h
    · unfold fastCommitMainStep
      split
      · split
        · exact h.of_eq rfl rfl rfl rfl rfl rfl
        · split
          · exact h
          · rename_i r rest hr
            dsimp only
            split
            · exact h.recv r rest hr rfl rfl rfl rfl rfl rfl
            · exact h.recv r rest hr rfl rfl rfl rfl rfl rfl
      · exact h.of_eq rfl rfl rfl rfl rfl rfl
      · exact h

/-- Conservation is preserved by every step, whatever the parameters. -/
theorem data_step (P : Params ι ρ) (jobs : List ι) (s : XState ι ρ) (a : Actor)
    (h : DataInv P jobs s) : DataInv P jobs (step P s a) := by
  unfold step
  split
  · exact h
  · cases a with
    | main => exact data_main P jobs s h
    | worker w => exact data_encoder P jobs s w h

theorem data_run (P : Params ι ρ) (jobs : List ι) (sched : List Actor) (s : XState ι ρ)
    (h : DataInv P jobs s) : DataInv P jobs (run P s sched) := by
  induction sched generalizing s with
  | nil => exact h
  | cons a as ih => exact ih _ (data_step P jobs s a h)

/-! ### control invariant -/

/-- the parameter values of the Go code: `results` has capacity = number of jobs, the deferred
    closure waits before closing -/
def Real (P : Params ι ρ) (jobs : List ι) : Prop := P.cap = jobs.length ∧ P.waitBeforeClose = true

/-- main has not yet left its loops -/
def Phase.pre : Phase → Bool
  | .sendJobs | .deleting _ | .receiving | .applying => true
  | _ => false

structure CtlInv (P : Params ι ρ) (jobs : List ι) (s : XState ι ρ) : Prop where
  np : s.panicked = false
  closedRet : s.resultsClosed = true → s.phase = .returned
  lateExited : s.phase = .closing ∨ s.phase = .returned → ∀ x ∈ s.workers, x = .exited
  jc : s.jobsClosed = false ↔ s.phase = .sendJobs
  us : s.phase ≠ .sendJobs → s.unsent = []
  noDrop : s.doneClosed = false → s.dropped = []
  exitedQ : s.doneClosed = false → .exited ∈ s.workers → s.queue = [] ∧ s.jobsClosed = true
  doneStop : s.doneClosed = s.stop.isSome
  pre : s.phase.pre = true → s.stop = none
  rem : s.stop = none → s.remaining + s.received.length = jobs.length
  remLate : s.stop = none → s.phase ≠ .sendJobs → (∀ k, s.phase ≠ .deleting k) →
    s.phase ≠ .receiving → s.remaining = 0
  recvOk : s.stop = none → ∀ r ∈ s.received, P.isErr r.2 = false
  fastStop : P.nondet = false → s.stop = none ∨ s.stop = some .encodeErr
  errRecv : s.stop = some .encodeErr → ∃ r ∈ s.received, P.isErr r.2 = true
  mode : (P.nondet = false → s.phase ≠ .sendJobs ∧ ∀ k, s.phase ≠ .deleting k) ∧
    (P.nondet = true → s.phase ≠ .applying)


macro "ctl_close" : tactic =>
  `(tactic| first | assumption | (simp_all [Phase.pre, earlyExit] <;> first | omega | grind) | (dsimp only [earlyExit] <;> grind [Phase.pre]))

theorem ctl_fast (P : Params ι ρ) (jobs : List ι) (s : XState ι ρ) (hn : P.nondet = false)
    (h : CtlInv P jobs s) : CtlInv P jobs (fastCommitMainStep P s) := by
  obtain ⟨np, closedRet, lateExited, jc, us, noDrop, exitedQ, doneStop, pre, rem, remLate, recvOk,
    fastStop, errRecv, mode⟩ := h
  unfold fastCommitMainStep
  split
  · rename_i hph
    split
    · rename_i hrem
      constructor <;> ctl_close
    · rename_i n hrem
      split
      · constructor <;> assumption
      · rename_i r rest hr
        dsimp only
        split
        · rename_i he
          constructor <;> ctl_close
        · rename_i he
          constructor <;> ctl_close
  · rename_i hph
    constructor <;> ctl_close
  · constructor <;> assumption

theorem ctl_nondet (P : Params ι ρ) (jobs : List ι) (s : XState ι ρ) (hn : P.nondet = true)
    (h : CtlInv P jobs s) : CtlInv P jobs (nondetMainStep P s) := by
  obtain ⟨np, closedRet, lateExited, jc, us, noDrop, exitedQ, doneStop, pre, rem, remLate, recvOk,
    fastStop, errRecv, mode⟩ := h
  unfold nondetMainStep
  split
  · rename_i hph
    split
    · rename_i j rest hu
      constructor <;> ctl_close
    · rename_i hu
      constructor <;> ctl_close
  · rename_i hph
    constructor <;> ctl_close
  · rename_i k hph
    split
    · rename_i hf
      constructor <;> ctl_close
    · rename_i hf
      constructor <;> ctl_close
  · rename_i hph
    split
    · rename_i hrem
      constructor <;> ctl_close
    · rename_i n hrem
      split
      · constructor <;> assumption
      · rename_i r rest hr
        dsimp only
        split
        · rename_i he
          constructor <;> ctl_close
        · rename_i he
          split
          · constructor <;> ctl_close
          · split
            · constructor <;> ctl_close
            · constructor <;> ctl_close
  · constructor <;> assumption

theorem ctl_deferred (P : Params ι ρ) (jobs : List ι) (s : XState ι ρ) (hw : P.waitBeforeClose = true)
    (h : CtlInv P jobs s) : CtlInv P jobs (deferredStep P s) := by
  obtain ⟨np, closedRet, lateExited, jc, us, noDrop, exitedQ, doneStop, pre, rem, remLate, recvOk,
    fastStop, errRecv, mode⟩ := h
  unfold deferredStep
  split
  · rename_i hph
    split
    · constructor <;> assumption
    · rename_i hx
      rw [hw] at hx
      have hall : ∀ x ∈ s.workers, x = .exited := by
        rw [← allExited_iff]
        simpa using hx
      constructor <;> ctl_close
  · rename_i hph
    constructor <;> ctl_close
  · constructor <;> assumption


theorem ctl_encoder (P : Params ι ρ) (jobs : List ι) (s : XState ι ρ) (w : Nat)
    (h : CtlInv P jobs s) : CtlInv P jobs (encoderStep P s w) := by
  obtain ⟨np, closedRet, lateExited, jc, us, noDrop, exitedQ, doneStop, pre, rem, remLate, recvOk,
    fastStop, errRecv, mode⟩ := h
  unfold encoderStep
  split
  · constructor <;> assumption
  · constructor <;> assumption
  · rename_i hw
    have hmem := List.mem_of_getElem? hw
    split
    · rename_i j rest hq
      have hset : ∀ x, x ∈ s.workers.set w (.took j) → x ∈ s.workers ∨ x = .took j :=
        fun x hx => List.mem_or_eq_of_mem_set hx
      constructor <;> ctl_close
    · rename_i hq
      have hset : ∀ x, x ∈ s.workers.set w .exited → x ∈ s.workers ∨ x = .exited :=
        fun x hx => List.mem_or_eq_of_mem_set hx
      split
      · constructor <;> ctl_close
      · constructor <;> assumption
  · rename_i j hw
    have hmem := List.mem_of_getElem? hw
    split
    · have hset : ∀ x, x ∈ s.workers.set w .exited → x ∈ s.workers ∨ x = .exited :=
        fun x hx => List.mem_or_eq_of_mem_set hx
      constructor <;> ctl_close
    · have hset : ∀ x, x ∈ s.workers.set w (.sending j) → x ∈ s.workers ∨ x = .sending j :=
        fun x hx => List.mem_or_eq_of_mem_set hx
      constructor <;> ctl_close
  · rename_i j hw
    have hmem := List.mem_of_getElem? hw
    split
    · rename_i hc
      exfalso
      have := lateExited (Or.inr (closedRet hc)) _ hmem
      cases this
    · split
      · have hset : ∀ x, x ∈ s.workers.set w .idle → x ∈ s.workers ∨ x = .idle :=
          fun x hx => List.mem_or_eq_of_mem_set hx
        constructor <;> ctl_close
      · constructor <;> assumption


theorem ctl_init (P : Params ι ρ) (jobs : List ι) (workers : Nat) :
    CtlInv P jobs (init P jobs workers) := by
  unfold init
  split
  · constructor <;> simp_all [initNondet, Phase.pre]
  · constructor <;> simp_all [initFast, Phase.pre]

theorem ctl_main (P : Params ι ρ) (jobs : List ι) (s : XState ι ρ) (hw : P.waitBeforeClose = true)
    (h : CtlInv P jobs s) : CtlInv P jobs (mainStep P s) := by
  unfold mainStep
  split
  · exact ctl_deferred P jobs s hw h
  · exact ctl_deferred P jobs s hw h
  · exact h
  · split
    · rename_i hn; exact ctl_nondet P jobs s hn h
    · rename_i hn; exact ctl_fast P jobs s (by simpa using hn) h

theorem ctl_step (P : Params ι ρ) (jobs : List ι) (s : XState ι ρ) (a : Actor)
    (hw : P.waitBeforeClose = true) (h : CtlInv P jobs s) : CtlInv P jobs (step P s a) := by
  unfold step
  split
  · exact h
  · cases a with
    | main => exact ctl_main P jobs s hw h
    | worker w => exact ctl_encoder P jobs s w h

/-! ### enabledness and the termination measure -/

/-- main's progress rank -/
def rank (P : Params ι ρ) : Phase → Nat
  | .sendJobs => P.dels + 6
  | .deleting k => k + 5
  | .receiving => 4
  | .applying => 3
  | .waiting => 2
  | .closing => 1
  | .returned => 0

def pw (b : Bool) : Nat := if b then 0 else 1

/-- every job is moved at most five times (unsent → queue → took → sending → results → received),
    every encoder returns once, main's phase only advances, the process panics at most once -/
def measure (P : Params ι ρ) (s : XState ι ρ) : Nat :=
  5 * s.unsent.length + 4 * s.queue.length + (s.workers.map wt).sum + s.results.length +
    rank P s.phase + pw s.panicked

/-- the actor's next operation does not block (and the process is alive) -/
def enabled (P : Params ι ρ) (s : XState ι ρ) : Actor → Bool
  | .main =>
    !s.panicked && (match s.phase with
      | .sendJobs => P.nondet
      | .deleting _ => P.nondet
      | .receiving => s.remaining == 0 || !s.results.isEmpty
      | .applying => !P.nondet
      | .waiting => !P.waitBeforeClose || allExited s.workers
      | .closing => true
      | .returned => false)
  | .worker w =>
    !s.panicked && (match s.workers[w]? with
      | some .idle => !s.queue.isEmpty || s.jobsClosed
      | some (.took _) => true
      | some (.sending _) => s.resultsClosed || decide (s.results.length < P.cap)
      | _ => false)

theorem encoder_cases (P : Params ι ρ) (s : XState ι ρ) (w : Nat) (hnp : s.panicked = false) :
    (enabled P s (.worker w) = false ∧ encoderStep P s w = s) ∨
    (enabled P s (.worker w) = true ∧ measure P (encoderStep P s w) < measure P s) := by
  cases hw : s.workers[w]? with
  | none => left; simp [enabled, encoderStep, hw]
  | some x =>
    cases x with
    | exited => left; simp [enabled, encoderStep, hw]
    | idle =>
      cases hq : s.queue with
      | cons j rest =>
        right
        have := wt_set s.workers w _ (.took j) hw
        simp only [enabled, encoderStep, hw, hq, hnp, measure, wt, List.length_cons] at this ⊢
        simp [-List.map_set]
        omega
      | nil =>
        cases hj : s.jobsClosed with
        | true =>
          right
          have := wt_set s.workers w _ .exited hw
          simp only [enabled, encoderStep, hw, hq, hnp, hj, measure, wt] at this ⊢
          simp [-List.map_set]
          omega
        | false => left; simp [enabled, encoderStep, hw, hq, hj]
    | took j =>
      right
      cases hd : s.doneClosed with
      | true =>
        have := wt_set s.workers w _ .exited hw
        simp only [enabled, encoderStep, hw, hnp, hd, measure, wt] at this ⊢
        simp [-List.map_set]
        omega
      | false =>
        have := wt_set s.workers w _ (.sending j) hw
        simp only [enabled, encoderStep, hw, hnp, hd, measure, wt] at this ⊢
        simp [-List.map_set]
        omega
    | sending j =>
      cases hc : s.resultsClosed with
      | true =>
        right
        simp [enabled, encoderStep, hw, hnp, hc, measure, pw]
      | false =>
        by_cases hl : s.results.length < P.cap
        · right
          have := wt_set s.workers w _ .idle hw
          simp only [enabled, encoderStep, hw, hnp, hc, hl, measure, wt] at this ⊢
          simp [-List.map_set]
          omega
        · left; simp [enabled, encoderStep, hw, hc, hl]

theorem main_cases (P : Params ι ρ) (s : XState ι ρ) (hnp : s.panicked = false) :
    (enabled P s .main = false ∧ mainStep P s = s) ∨
    (enabled P s .main = true ∧ measure P (mainStep P s) < measure P s) := by
  cases hph : s.phase with
  | sendJobs =>
    cases hn : P.nondet with
    | false => left; simp [enabled, mainStep, fastCommitMainStep, hph, hn]
    | true =>
      right
      cases hu : s.unsent with
      | nil => simp [enabled, mainStep, nondetMainStep, hph, hn, hu, hnp, measure, rank]
      | cons j rest =>
        simp [enabled, mainStep, nondetMainStep, hph, hn, hu, hnp, measure, rank]
        omega
  | deleting k =>
    cases hn : P.nondet with
    | false => left; simp [enabled, mainStep, fastCommitMainStep, hph, hn]
    | true =>
      right
      cases k with
      | zero => simp [enabled, mainStep, nondetMainStep, hph, hn, hnp, measure, rank]
      | succ k =>
        by_cases hf : P.fault s.ncalls = true
        · simp [enabled, mainStep, nondetMainStep, hph, hn, hnp, hf, measure, rank, earlyExit]
        · simp [enabled, mainStep, nondetMainStep, hph, hn, hnp, hf, measure, rank]
  | receiving =>
    cases hr : s.remaining with
    | zero =>
      right
      cases hn : P.nondet <;>
        simp [enabled, mainStep, nondetMainStep, fastCommitMainStep, hph, hn, hr, hnp, measure, rank]
    | succ n =>
      cases hres : s.results with
      | nil =>
        left
        cases hn : P.nondet <;>
          simp [enabled, mainStep, nondetMainStep, fastCommitMainStep, hph, hn, hr, hres]
      | cons r rest =>
        right
        cases hn : P.nondet with
        | false =>
          by_cases he : P.isErr r.2 = true
          · simp [enabled, mainStep, fastCommitMainStep, hph, hn, hr, hres, hnp, he, measure, rank,
              earlyExit]
            omega
          · simp [enabled, mainStep, fastCommitMainStep, hph, hn, hr, hres, hnp, he, measure, rank]
        | true =>
          by_cases he : P.isErr r.2 = true
          · simp [enabled, mainStep, nondetMainStep, hph, hn, hr, hres, hnp, he, measure, rank,
              earlyExit]
            omega
          · by_cases hnil : P.isNil r.2 = true
            · simp [enabled, mainStep, nondetMainStep, hph, hn, hr, hres, hnp, he, hnil, measure, rank,
                earlyExit]
              omega
            · by_cases hf : P.fault s.ncalls = true
              · simp [enabled, mainStep, nondetMainStep, hph, hn, hr, hres, hnp, he, hnil, hf, measure,
                  rank, earlyExit]
                omega
              · simp [enabled, mainStep, nondetMainStep, hph, hn, hr, hres, hnp, he, hnil, hf, measure,
                  rank]
  | applying =>
    cases hn : P.nondet with
    | false =>
      right; simp [enabled, mainStep, fastCommitMainStep, hph, hn, hnp, measure, rank]
    | true => left; simp [enabled, mainStep, nondetMainStep, hph, hn]
  | waiting =>
    by_cases hb : (P.waitBeforeClose && !allExited s.workers) = true
    · left
      simp only [Bool.and_eq_true, Bool.not_eq_true'] at hb
      simp [enabled, mainStep, deferredStep, hph, hb.1, hb.2]
    · right
      have hb' : (!P.waitBeforeClose || allExited s.workers) = true := by
        revert hb
        cases P.waitBeforeClose <;> cases allExited s.workers <;> simp
      simp [enabled, mainStep, deferredStep, hph, hnp, hb, hb', measure, rank]
  | closing => right; simp [enabled, mainStep, deferredStep, hph, hnp, measure, rank]
  | returned => left; simp [enabled, mainStep, hph]

/-- A step of a blocked (or dead, or non-existent) actor leaves the state unchanged; every other
    step strictly decreases the measure. -/
theorem step_cases (P : Params ι ρ) (s : XState ι ρ) (a : Actor) :
    (enabled P s a = false ∧ step P s a = s) ∨
    (enabled P s a = true ∧ measure P (step P s a) < measure P s) := by
  unfold step
  cases hp : s.panicked with
  | true => left; cases a <;> simp [enabled, hp]
  | false =>
    cases a with
    | main => simpa using main_cases P s hp
    | worker w => simpa using encoder_cases P s w hp

theorem step_of_not_enabled (P : Params ι ρ) (s : XState ι ρ) (a : Actor)
    (h : enabled P s a = false) : step P s a = s := by
  rcases step_cases P s a with h' | h'
  · exact h'.2
  · rw [h] at h'; cases h'.1

theorem measure_of_enabled (P : Params ι ρ) (s : XState ι ρ) (a : Actor)
    (h : enabled P s a = true) : measure P (step P s a) < measure P s := by
  rcases step_cases P s a with h' | h'
  · rw [h] at h'; cases h'.1
  · exact h'.2

theorem step_ne_iff_enabled (P : Params ι ρ) (s : XState ι ρ) (a : Actor) :
    step P s a ≠ s ↔ enabled P s a = true := by
  constructor
  · intro hne
    cases he : enabled P s a with
    | true => rfl
    | false => exact absurd (step_of_not_enabled P s a he) hne
  · intro he heq
    have := measure_of_enabled P s a he
    rw [heq] at this
    exact Nat.lt_irrefl _ this

/-! ### the send on `results` never blocks -/

theorem wjob_length_le_held (ws : List (WState ι)) (w : Nat) (x : WState ι) (h : ws[w]? = some x) :
    (wjob x).length ≤ (held ws).length := by
  have := length_held_set ws w x .idle h
  have h0 : (wjob (WState.idle : WState ι)).length = 0 := rfl
  rw [h0] at this
  omega

theorem jobList_length (s : XState ι ρ) :
    (jobList s).length = s.received.length + s.results.length + (held s.workers).length +
      s.queue.length + s.unsent.length + s.dropped.length := by
  simp only [jobList, List.length_append, List.length_map]
  omega

/-- With `cap` = number of jobs: buffered results + jobs held by encoders ≤ `cap`. -/
theorem results_held_le_cap {P : Params ι ρ} {jobs : List ι} {s : XState ι ρ} (hR : Real P jobs)
    (hd : DataInv P jobs s) : s.results.length + (held s.workers).length ≤ P.cap := by
  have := hd.perm.length_eq
  rw [jobList_length] at this
  rw [hR.1]
  omega

theorem sending_has_room {P : Params ι ρ} {jobs : List ι} {s : XState ι ρ} (hR : Real P jobs)
    (hd : DataInv P jobs s) (w : Nat) (j : ι) (hw : s.workers[w]? = some (.sending j)) :
    s.results.length < P.cap := by
  have h1 := results_held_le_cap hR hd
  have h2 := wjob_length_le_held s.workers w _ hw
  simp only [wjob, List.length_cons, List.length_nil] at h2
  omega

/-! ### progress -/

theorem mem_actors_main (n : Nat) : Actor.main ∈ actors n := by simp [actors]

theorem mem_actors_worker (n w : Nat) (h : w < n) : Actor.worker w ∈ actors n := by
  simp only [actors, List.mem_cons, List.mem_map, List.mem_range]
  exact Or.inr ⟨w, h, rfl⟩

theorem lt_length_of_getElem? {α : Type} (l : List α) (w : Nat) (x : α) (h : l[w]? = some x) :
    w < l.length := by
  rcases Nat.lt_or_ge w l.length with h' | h'
  · exact h'
  · rw [List.getElem?_eq_none h'] at h; cases h

theorem exists_holder (ws : List (WState ι)) (h : held ws ≠ []) :
    ∃ (w : Nat) (x : WState ι), ws[w]? = some x ∧ wjob x ≠ [] := by
  apply Classical.byContradiction
  intro hno
  apply h
  unfold held
  rw [List.flatMap_eq_nil_iff]
  intro x hx
  apply Classical.byContradiction
  intro hne
  obtain ⟨w, hw⟩ := List.getElem?_of_mem hx
  exact hno ⟨w, x, hw, hne⟩

theorem exists_not_exited (ws : List (WState ι)) (h : allExited ws = false) :
    ∃ (w : Nat) (x : WState ι), ws[w]? = some x ∧ x ≠ .exited := by
  apply Classical.byContradiction
  intro hno
  have : allExited ws = true := by
    rw [allExited_iff]
    intro x hx
    apply Classical.byContradiction
    intro hne
    obtain ⟨w, hw⟩ := List.getElem?_of_mem hx
    exact hno ⟨w, x, hw, hne⟩
  rw [this] at h
  cases h

/-- a non-exited encoder that is not blocked on an empty open `jobs` channel can move -/
theorem worker_enabled {P : Params ι ρ} {jobs : List ι} {s : XState ι ρ} (hR : Real P jobs)
    (hd : DataInv P jobs s) (hc : CtlInv P jobs s) (w : Nat) (x : WState ι)
    (hw : s.workers[w]? = some x) (hx : x ≠ .exited) (hq : s.queue ≠ [] ∨ s.jobsClosed = true) :
    enabled P s (.worker w) = true := by
  have hnp := hc.np
  cases x with
  | exited => exact absurd rfl hx
  | idle =>
    rcases hq with hq | hq
    · cases hq' : s.queue with
      | nil => exact absurd hq' hq
      | cons a as => simp [enabled, hw, hnp, hq']
    · simp [enabled, hw, hnp, hq]
  | took j => simp [enabled, hw, hnp]
  | sending j =>
    have := sending_has_room hR hd w j hw
    simp [enabled, hw, hnp, this]

/-- In a reachable state that is not final, some actor can move. -/
theorem progress {P : Params ι ρ} {jobs : List ι} {s : XState ι ρ} (hR : Real P jobs)
    (hd : DataInv P jobs s) (hc : CtlInv P jobs s) (hpos : 0 < s.workers.length)
    (hnf : final s = false) : ∃ a ∈ actors s.workers.length, enabled P s a = true := by
  have hnp := hc.np
  cases hph : s.phase with
  | sendJobs =>
    refine ⟨.main, mem_actors_main _, ?_⟩
    have : P.nondet = true := by
      cases hn : P.nondet with
      | true => rfl
      | false => exact absurd hph (hc.mode.1 hn).1
    simp [enabled, hph, hnp, this]
  | deleting k =>
    refine ⟨.main, mem_actors_main _, ?_⟩
    have : P.nondet = true := by
      cases hn : P.nondet with
      | true => rfl
      | false => exact absurd hph ((hc.mode.1 hn).2 k)
    simp [enabled, hph, hnp, this]
  | applying =>
    refine ⟨.main, mem_actors_main _, ?_⟩
    have : P.nondet = false := by
      cases hn : P.nondet with
      | false => rfl
      | true => exact absurd hph (hc.mode.2 hn)
    simp [enabled, hph, hnp, this]
  | closing => exact ⟨.main, mem_actors_main _, by simp [enabled, hph, hnp]⟩
  | returned =>
    exfalso
    have := (allExited_iff s.workers).mpr (hc.lateExited (Or.inr hph))
    simp [final, hph, this] at hnf
  | waiting =>
    cases hall : allExited s.workers with
    | true => exact ⟨.main, mem_actors_main _, by simp [enabled, hph, hnp, hall]⟩
    | false =>
      obtain ⟨w, x, hw, hne⟩ := exists_not_exited s.workers hall
      have hjc : s.jobsClosed = true := by
        cases hj : s.jobsClosed with
        | true => rfl
        | false => have := hc.jc.mp hj; rw [hph] at this; cases this
      exact ⟨.worker w, mem_actors_worker _ _ (lt_length_of_getElem? _ _ _ hw),
        worker_enabled hR hd hc w x hw hne (Or.inr hjc)⟩
  | receiving =>
    cases hr : s.remaining with
    | zero => exact ⟨.main, mem_actors_main _, by simp [enabled, hph, hnp, hr]⟩
    | succ n =>
      cases hres : s.results with
      | cons r rest => exact ⟨.main, mem_actors_main _, by simp [enabled, hph, hnp, hres]⟩
      | nil =>
        have hstop : s.stop = none := hc.pre (by rw [hph]; rfl)
        have hdone : s.doneClosed = false := by rw [hc.doneStop, hstop]; rfl
        have hjc : s.jobsClosed = true := by
          cases hj : s.jobsClosed with
          | true => rfl
          | false => have := hc.jc.mp hj; rw [hph] at this; cases this
        have hlen := hd.perm.length_eq
        rw [jobList_length, hres, hc.us (by rw [hph]; intro h; cases h), hc.noDrop hdone] at hlen
        have hrem := hc.rem hstop
        simp only [List.length_nil] at hlen
        by_cases hq : s.queue = []
        · have hh : held s.workers ≠ [] := by
            intro h0
            rw [h0, hq] at hlen
            simp only [List.length_nil] at hlen
            omega
          obtain ⟨w, x, hw, hx⟩ := exists_holder s.workers hh
          have hne : x ≠ .exited := by
            intro h; rw [h] at hx; exact hx rfl
          exact ⟨.worker w, mem_actors_worker _ _ (lt_length_of_getElem? _ _ _ hw),
            worker_enabled hR hd hc w x hw hne (Or.inr hjc)⟩
        · have hw : s.workers[0]? = some s.workers[0] := List.getElem?_eq_getElem hpos
          have hne : s.workers[0] ≠ .exited := by
            intro h
            have hm : WState.exited ∈ s.workers := h ▸ List.getElem_mem hpos
            exact hq (hc.exitedQ hdone hm).1
          exact ⟨.worker 0, mem_actors_worker _ _ hpos,
            worker_enabled hR hd hc 0 _ hw hne (Or.inl hq)⟩

/-! ### reachable states -/

/-- everything that holds in the states reachable with the parameter values of the Go code -/
structure Reach (P : Params ι ρ) (jobs : List ι) (n : Nat) (s : XState ι ρ) : Prop where
  data : DataInv P jobs s
  ctl : CtlInv P jobs s
  nworkers : s.workers.length = n

theorem encoder_workers_length (P : Params ι ρ) (s : XState ι ρ) (w : Nat) :
    (encoderStep P s w).workers.length = s.workers.length := by
  unfold encoderStep
  split <;> try rfl
  · split
    · simp
    · split <;> simp
  · split <;> simp
  · split
    · rfl
    · split <;> simp

theorem main_workers (P : Params ι ρ) (s : XState ι ρ) : (mainStep P s).workers = s.workers := by
  unfold mainStep
  split
  · unfold deferredStep; split <;> (try split) <;> rfl
  · unfold deferredStep; split <;> (try split) <;> rfl
  · rfl
  · split
    · unfold nondetMainStep
      split <;> (try split) <;> (try split) <;> (try split) <;> (try split) <;> (try split) <;> rfl
    · unfold fastCommitMainStep
      split <;> (try split) <;> (try split) <;> (try split) <;> rfl

theorem step_workers_length (P : Params ι ρ) (s : XState ι ρ) (a : Actor) :
    (step P s a).workers.length = s.workers.length := by
  unfold step
  split
  · rfl
  · cases a with
    | main => rw [main_workers]
    | worker w => exact encoder_workers_length P s w

theorem reach_init (P : Params ι ρ) (jobs : List ι) (n : Nat) : Reach P jobs n (init P jobs n) := by
  refine ⟨data_init P jobs n, ctl_init P jobs n, ?_⟩
  unfold init
  split <;> simp [initNondet, initFast]

theorem reach_step {P : Params ι ρ} {jobs : List ι} {n : Nat} {s : XState ι ρ} (hR : Real P jobs)
    (h : Reach P jobs n s) (a : Actor) : Reach P jobs n (step P s a) :=
  ⟨data_step P jobs s a h.data, ctl_step P jobs s a hR.2 h.ctl,
    by rw [step_workers_length]; exact h.nworkers⟩

theorem reach_run {P : Params ι ρ} {jobs : List ι} {n : Nat} (hR : Real P jobs) (sched : List Actor)
    (s : XState ι ρ) (h : Reach P jobs n s) : Reach P jobs n (run P s sched) := by
  induction sched generalizing s with
  | nil => exact h
  | cons a as ih => exact ih _ (reach_step hR h a)

/-! ### termination -/

theorem final_not_enabled (P : Params ι ρ) (s : XState ι ρ) (a : Actor) (h : final s = true) :
    enabled P s a = false := by
  unfold final at h
  split at h
  · rename_i hph
    cases a with
    | main => simp [enabled, hph]
    | worker w =>
      cases hw : s.workers[w]? with
      | none => simp [enabled, hw]
      | some x =>
        have := (allExited_iff s.workers).mp h x (List.mem_of_getElem? hw)
        subst this
        simp [enabled, hw]
  · cases h

theorem final_run (P : Params ι ρ) (sched : List Actor) (s : XState ι ρ) (h : final s = true) :
    run P s sched = s := by
  induction sched with
  | nil => rfl
  | cons a as ih =>
    show run P (step P s a) as = s
    rw [step_of_not_enabled P s a (final_not_enabled P s a h), ih]

/-- The measure never increases along a schedule; if it is unchanged, nothing happened and every
    scheduled actor was blocked. -/
theorem run_measure (P : Params ι ρ) (sched : List Actor) (s : XState ι ρ) :
    measure P (run P s sched) ≤ measure P s ∧
    (measure P (run P s sched) = measure P s →
      run P s sched = s ∧ ∀ a ∈ sched, enabled P s a = false) := by
  induction sched generalizing s with
  | nil => exact ⟨Nat.le_refl _, fun _ => ⟨rfl, fun a ha => by simp at ha⟩⟩
  | cons a as ih =>
    have hrun : run P s (a :: as) = run P (step P s a) as := rfl
    rw [hrun]
    rcases step_cases P s a with ⟨hne, he⟩ | ⟨_, hlt⟩
    · rw [he]
      obtain ⟨h1, h2⟩ := ih s
      refine ⟨h1, fun heq => ?_⟩
      obtain ⟨g1, g2⟩ := h2 heq
      refine ⟨g1, fun a' ha' => ?_⟩
      rcases List.mem_cons.mp ha' with rfl | ha'
      · exact hne
      · exact g2 a' ha'
    · obtain ⟨h1, _⟩ := ih (step P s a)
      exact ⟨by omega, fun heq => by omega⟩

/-- The number of state-changing steps of a schedule (= steps of actors that were not blocked). -/
def effective (P : Params ι ρ) : XState ι ρ → List Actor → Nat
  | _, [] => 0
  | s, a :: as => (if enabled P s a then 1 else 0) + effective P (step P s a) as

theorem effective_le (P : Params ι ρ) (sched : List Actor) (s : XState ι ρ) :
    effective P s sched + measure P (run P s sched) ≤ measure P s := by
  induction sched generalizing s with
  | nil => simp [effective, run]
  | cons a as ih =>
    have hrun : run P s (a :: as) = run P (step P s a) as := rfl
    have := ih (step P s a)
    rw [hrun]
    unfold effective
    rcases step_cases P s a with ⟨hne, he⟩ | ⟨hen, hlt⟩
    · rw [he] at this
      rw [hne, he]
      simp only [Bool.false_eq_true, if_false]
      omega
    · rw [hen]
      simp only [if_true]
      omega

/-- One round of the round-robin scheduler makes progress unless the final state is reached. -/
theorem round_progress {P : Params ι ρ} {jobs : List ι} {n : Nat} {s : XState ι ρ}
    (hR : Real P jobs) (h : Reach P jobs n s) (hpos : 0 < n) :
    measure P (run P s (actors n)) < measure P s ∨ final s = true := by
  obtain ⟨h1, h2⟩ := run_measure P (actors n) s
  by_cases heq : measure P (run P s (actors n)) = measure P s
  · right
    obtain ⟨_, g2⟩ := h2 heq
    cases hf : final s with
    | true => rfl
    | false =>
      obtain ⟨a, ha, hen⟩ := progress hR h.data h.ctl (by rw [h.nworkers]; exact hpos) hf
      rw [h.nworkers] at ha
      rw [g2 a ha] at hen
      cases hen
  · left; omega

theorem rounds_progress {P : Params ι ρ} {jobs : List ι} {n : Nat} (hR : Real P jobs) (hpos : 0 < n)
    {α : Type} (L : List α) (s : XState ι ρ) (h : Reach P jobs n s) :
    final (L.foldl (fun acc _ => run P acc (actors n)) s) = true ∨
    measure P (L.foldl (fun acc _ => run P acc (actors n)) s) + L.length ≤ measure P s := by
  induction L generalizing s with
  | nil => right; simp
  | cons a L ih =>
    rw [List.foldl_cons]
    rcases round_progress hR h hpos with hlt | hfin
    · rcases ih _ (reach_run hR (actors n) s h) with h' | h'
      · exact Or.inl h'
      · right; simp only [List.length_cons]; omega
    · left
      have : ∀ (L : List α), L.foldl (fun acc _ => run P acc (actors n)) s = s := by
        intro L
        induction L with
        | nil => rfl
        | cons b L ih' => rw [List.foldl_cons, final_run P _ s hfin, ih']
      rw [final_run P _ s hfin, this]
      exact hfin

theorem measure_pos (P : Params ι ρ) (s : XState ι ρ) (h : s.panicked = false) : 1 ≤ measure P s := by
  unfold measure
  rw [h]
  simp [pw]

/-- Round robin over main and the encoders for `measure init` rounds reaches the final state. -/
theorem roundRobin_final {P : Params ι ρ} {jobs : List ι} {n : Nat} (hR : Real P jobs) (hpos : 0 < n) :
    final (run P (init P jobs n) (roundRobin n (measure P (init P jobs n)))) = true := by
  have hreach := reach_run hR (roundRobin n (measure P (init P jobs n))) _ (reach_init P jobs n)
  have hX : run P (init P jobs n) (roundRobin n (measure P (init P jobs n))) =
      List.foldl (fun acc _ => run P acc (actors n)) (init P jobs n)
        (List.range (measure P (init P jobs n))) := by
    unfold roundRobin run
    rw [List.foldl_flatMap]
  rw [hX] at hreach ⊢
  rcases rounds_progress hR hpos (List.range (measure P (init P jobs n))) (init P jobs n)
      (reach_init P jobs n) with h | h
  · exact h
  · exfalso
    rw [List.length_range] at h
    have hnp := hreach.ctl.np
    have := measure_pos P _ hnp
    omega

/-! ### what main has received -/

/-- main has left the receive loop (normally or early) -/
def mainDone (s : XState ι ρ) : Bool :=
  match s.phase with
  | .sendJobs | .deleting _ | .receiving => false
  | _ => true

theorem mainDone_of_final (s : XState ι ρ) (h : final s = true) : mainDone s = true := by
  unfold final at h
  split at h
  · rename_i hph; simp [mainDone, hph]
  · cases h

/-- When main has left the receive loop without an early exit, it has received every result:
    nothing is buffered, held, queued, unsent or dropped. -/
theorem all_received {P : Params ι ρ} {jobs : List ι} {n : Nat} {s : XState ι ρ}
    (h : Reach P jobs n s) (hdone : mainDone s = true) (hstop : s.stop = none) :
    s.results = [] ∧ held s.workers = [] ∧ s.queue = [] ∧ s.unsent = [] ∧ s.dropped = [] := by
  have hrem := h.ctl.rem hstop
  have h0 : s.remaining = 0 := by
    apply h.ctl.remLate hstop
    · intro hp; simp [mainDone, hp] at hdone
    · intro k hp; simp [mainDone, hp] at hdone
    · intro hp; simp [mainDone, hp] at hdone
  have hlen := h.data.perm.length_eq
  rw [jobList_length] at hlen
  refine ⟨?_, ?_, ?_, ?_, ?_⟩ <;> apply List.eq_nil_of_length_eq_zero <;> omega

theorem received_perm {P : Params ι ρ} {jobs : List ι} {n : Nat} {s : XState ι ρ}
    (h : Reach P jobs n s) (hdone : mainDone s = true) (hstop : s.stop = none) :
    (s.received.map Prod.fst).Perm jobs ∧ s.received.Perm (jobs.map (fun j => (j, P.f j))) := by
  obtain ⟨h1, h2, h3, h4, h5⟩ := all_received h hdone hstop
  have hp := h.data.perm
  unfold jobList at hp
  rw [h1, h2, h3, h4, h5] at hp
  simp only [List.append_nil] at hp
  refine ⟨hp, ?_⟩
  have hv : s.received = (s.received.map Prod.fst).map (fun j => (j, P.f j)) := by
    rw [List.map_map]
    have : ∀ r ∈ s.received, ((fun j => (j, P.f j)) ∘ Prod.fst) r = r := by
      intro r hr
      have := h.data.vals r (List.mem_append_left _ hr)
      show (r.1, P.f r.1) = r
      rw [← this]
    rw [List.map_congr_left this, List.map_id']
  rw [hv]
  exact hp.map _

/-- The received jobs extend to an enumeration of all jobs. -/
theorem received_extends {P : Params ι ρ} {jobs : List ι} {s : XState ι ρ} (h : DataInv P jobs s) :
    ∃ rest, (s.received.map Prod.fst ++ rest).Perm jobs := by
  refine ⟨s.results.map Prod.fst ++ (held s.workers ++ (s.queue ++ (s.unsent ++ s.dropped))), ?_⟩
  have := h.perm
  unfold jobList at this
  rw [List.map_append, List.append_assoc] at this
  exact this

/-- If some job's result is an error and main has left the receive loop, main made an early exit. -/
theorem stop_of_error {P : Params ι ρ} {jobs : List ι} {n : Nat} {s : XState ι ρ}
    (h : Reach P jobs n s) (hdone : mainDone s = true) (j : ι) (hj : j ∈ jobs)
    (he : P.isErr (P.f j) = true) : s.stop ≠ none := by
  intro hstop
  obtain ⟨_, hp⟩ := received_perm h hdone hstop
  have hm : (j, P.f j) ∈ s.received := by
    rw [hp.mem_iff, List.mem_map]
    exact ⟨j, hj, rfl⟩
  have := h.ctl.recvOk hstop _ hm
  rw [he] at this
  cases this

/-- An early exit on an encoding error happens only if some job's result is an error. -/
theorem error_of_stop {P : Params ι ρ} {jobs : List ι} {n : Nat} {s : XState ι ρ}
    (h : Reach P jobs n s) (hs : s.stop = some .encodeErr) :
    ∃ j ∈ jobs, (j, P.f j) ∈ s.received ∧ P.isErr (P.f j) = true := by
  obtain ⟨r, hr, he⟩ := h.ctl.errRecv hs
  have hv := h.data.vals r (List.mem_append_left _ hr)
  have hm : r.1 ∈ jobs := by
    rw [← h.data.perm.mem_iff]
    unfold jobList
    simp only [List.mem_append, List.mem_map]
    exact Or.inl ⟨r, Or.inl hr, rfl⟩
  refine ⟨r.1, hm, ?_, ?_⟩
  · rw [← hv]; exact hr
  · rw [← hv]; exact he

end PoolX
end Atree
