import AtreeModel.Map.Batch
import AtreeProofs.E2ESpec
/-
  Large values in a bulk build (C17, audit a1 F9).  DEFINITIONS ONLY — part of the reviewed
  statement of the property theorems in `AtreeProofs/Props/C17Refs.lean`.
-/
namespace Atree
open Gen

/-- The created-slab table of a context is sound for owner `a`: it holds no identifier of `a`
    above the allocation counter (so the next allocated identifier is not yet a key of the table).
    Every context reached by running operations from an empty table satisfies it. -/
def CreatedTableOk (a : Nat) (c : Ctx) : Prop := ∀ p ∈ c.created, p.1.addr = a → p.1.idx ≤ c.ctr

/-- Arrays: `e` is what the bulk build stores for the input value `v`: `v` itself when it fits the
    inline limit `maxInlineArr T`, otherwise the 19-byte reference `⟨19, .ref id⟩` whose slab — in
    the created-slab table `created` — holds `v`. -/
def ReprA (T : Nat) (created : List (SlabID × Elem)) (v e : Elem) : Prop :=
  (v.size ≤ maxInlineArr T ∧ e = v) ∨
  (maxInlineArr T < v.size ∧ ∃ id, e = ⟨slabIDStorableSize, .ref id⟩ ∧ AList.find? created id = some v)

/-- Maps: `e` is what the bulk build stores next to key `k` for the input value `v`: `v` itself when
    it fits the inline limit for this key, otherwise the 19-byte reference to a large-value slab
    that holds `v`. -/
def Represents (T : Nat) (created : List (SlabID × Elem)) (k : MKey) (v e : Elem) : Prop :=
  (v.size ≤ maxInlineMapValue T k.size ∧ e = v) ∨
  (maxInlineMapValue T k.size < v.size ∧
    ∃ id, e = ⟨slabIDStorableSize, .ref id⟩ ∧ AList.find? created id = some v)

/-- resolved form of a stored pair: a reference value is replaced by the value in its slab -/
def resolvePair (created : List (SlabID × Elem)) (p : MKey × Elem) : MKey × Elem :=
  (p.1, E2E.resolve created p.2)

end Atree
