import AtreeProofs.HeapSpec
import AtreeProofs.MapHeapSpec
import AtreeProofs.WorldInv
/-
  The HEAP of a world of nested containers (C09 / C03 / C10 at World level): the set of slabs, with
  their content, that must be in storage for world `w`, and what it means for an effect log to be a
  COMPLETE account of a change of the world.  DEFINITIONS ONLY — part of the reviewed statement of
  the property theorems of `AtreeProofs/Props/C09W.lean` and `Props/C10Persist.lean`.

  * A STANDALONE container owns every slab of its tree (`HeapSpec.ATree.slabs` /
    `MapHeapSpec.MTree.slabs`: data slabs, index slabs, external collision-group slabs).
  * An INLINED container owns every slab of its tree EXCEPT its root slab, which is embedded in the
    slab of its parent.  For an inlined array that is nothing.  An inlined MAP may still own
    external collision-group slabs: `MapDataSlab.Inlinable` (map_data_slab.go:346) only looks at
    the size of the elements, and an externalised group counts as a 19-byte reference.
  * Large-value slabs (`StorableSlab`) belong to no container tree; as in `HeapSpec`, the ones an
    operation creates are accounted for by the list `created` (under `WValOk` the World operations
    create none: values handed over fit the slot).
-/
namespace Atree
open Gen

/-- content of one stored slab of a world: an array slab or a map slab, with the extra data
    (type info; type, count, seed) when it is a root slab -/
inductive WSlab where
  | arr (s : ASlab) (ty : Option Nat)
  | map (s : MSlabView 3) (extra : Option (Nat × Nat × Nat))

namespace Cont

/-- every slab of the container's tree with its content (what `Arr.slabAt` / `OMap.slabAt` look
    up), root slab first -/
def treeSlabs : Cont → List (SlabID × WSlab)
  | .arr a => (ATree.slabs a.d a.root).map
      (fun p => (p.1, WSlab.arr p.2 (if p.1 = a.rootID then some a.ty else none)))
  | .map m => (MTree.slabs m.d m.root).map
      (fun p => (p.1, WSlab.map p.2 (if p.1 = m.rootID then some (m.ty, m.count, m.seed) else none)))

/-- all slab IDs of the container's tree (root slab first; for an inlined container the first one
    is the ID its root slab will be stored under when it is un-inlined) -/
def treeIds (c : Cont) : List SlabID := AList.keys c.treeSlabs

/-- THE SLABS CONTAINER `c` OWNS IN STORAGE: its whole tree when standalone, its tree without the
    root slab when inlined -/
def slabs (c : Cont) : List (SlabID × WSlab) := if c.isInlined then c.treeSlabs.tail else c.treeSlabs

def heapIds (c : Cont) : List SlabID := AList.keys c.slabs

end Cont

namespace World

/-- slab `id` with content `s` must be in storage: it is owned by a live container -/
def HasSlab (w : World) (id : SlabID) (s : WSlab) : Prop := ∃ x c, w.cont? x = some c ∧ (id, s) ∈ c.slabs

/-- slab `id` must be in storage -/
def InHeap (w : World) (id : SlabID) : Prop := ∃ x c, w.cont? x = some c ∧ id ∈ c.heapIds

/-- `id` is a slab ID of the tree of a live container (in storage, or the root of an inlined one) -/
def InTree (w : World) (id : SlabID) : Prop := ∃ x c, w.cont? x = some c ∧ id ∈ c.treeIds

/-- THE HEAP OF THE WORLD as a list: the slabs of every live container (each container once:
    shadowed entries of the table do not count) -/
def heapOf (w : World) : List (SlabID × WSlab) :=
  (AList.keys w.conts).eraseDups.flatMap (fun x =>
    match w.cont? x with
    | some c => c.slabs
    | none => [])

/-- the slab IDs that must be in storage -/
def heapIds (w : World) : List SlabID := AList.keys w.heapOf

/-- the slab that must be stored under `id` -/
def slabAt (w : World) (id : SlabID) : Option WSlab := AList.find? w.heapOf id

/-- THE OWNERSHIP INVARIANT (relative to the allocation counter): every slab ID belongs to the tree
    of exactly one container, occurs once in it, is owned by the world's address and has been
    allocated.  The tree IDs include the root IDs of the inlined containers (= their value IDs),
    so that un-inlining never overwrites another slab. -/
structure HeapOk (w : World) (ctr : Nat) : Prop where
  own   : ∀ x c x' c' id, w.cont? x = some c → w.cont? x' = some c' → id ∈ c.treeIds → id ∈ c'.treeIds → x = x'
  nodup : ∀ x c, w.cont? x = some c → c.treeIds.Nodup
  below : ∀ x c id, w.cont? x = some c → id ∈ c.treeIds → id.idx ≤ ctr
  addr  : ∀ x c id, w.cont? x = some c → id ∈ c.treeIds → id.addr = w.addr

/-- `E` IS A COMPLETE ACCOUNT OF THE CHANGE FROM WORLD `w` TO WORLD `w'` (the World-level
    `EffectsComplete` of `HeapSpec`): `created` are the large-value slabs created meanwhile. -/
structure WEffectsComplete (w w' : World) (E : List Eff) (created : List SlabID) : Prop where
  /-- a slab of the new heap whose content is new or changed was stored -/
  changed_stored : ∀ id, (w'.slabAt id).isSome → w'.slabAt id ≠ w.slabAt id → lastAction E id = some true
  /-- a slab that left the heap (its container was inlined, merged it away, …) was removed -/
  gone_removed : ∀ id, (w.slabAt id).isSome → (w'.slabAt id).isNone → lastAction E id = some false
  /-- nothing else was stored … -/
  stored_in_heap : ∀ id, lastAction E id = some true → (w'.slabAt id).isSome ∨ id ∈ created
  /-- … and nothing that is still in the heap was removed -/
  removed_not_in_heap : ∀ id, lastAction E id = some false → (w'.slabAt id).isNone

/-- applying an effect log to a heap (as a lookup function), the stored slabs taking the content
    `final` (the content in the world after the operation, cf. `E2E.applyEffs`) -/
def applyLog (h : SlabID → Option WSlab) (final : SlabID → Option WSlab) (E : List Eff) : SlabID → Option WSlab :=
  fun id =>
    match lastAction E id with
    | some true => final id
    | some false => none
    | none => h id

/-- the semantic form of the account used by the proofs (`AtreeProofs/World/HeapAlg.lean`):
    `c`, `c'` the allocation counter before / after -/
structure WAcct (c c' : Nat) (w w' : World) (E : List Eff) (cr : List SlabID) : Prop where
  le : c ≤ c'
  kept : ∀ id s, w'.HasSlab id s → w.HasSlab id s ∨ lastAction E id = some true
  gone : ∀ id, w.InHeap id → ¬ w'.InHeap id → lastAction E id = some false
  stored : ∀ id, lastAction E id = some true → w'.InHeap id ∨ id ∈ cr
  removed : ∀ id, lastAction E id = some false → ¬ w'.InHeap id
  foot : ∀ id, lastAction E id ≠ none → w.InTree id ∨ c < id.idx
  fresh : ∀ id ∈ cr, c < id.idx
  tnew : ∀ id, w'.InTree id → w.InTree id ∨ c < id.idx

end World
end Atree
