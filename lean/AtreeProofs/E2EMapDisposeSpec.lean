import AtreeProofs.E2EMapSpec
import AtreeProofs.MapRefs
import AtreeProofs.Map.EffectsTop
/-
  END-TO-END specification (ordered maps) WITH DISPOSAL: a caller that, after every request,
  removes from storage the large-value slab of every reference the request handed back to it
  (`Set` overwrite: the old value; `Remove`: the removed value; `PopIterate`: every value) - what
  the harness does (`DSP` lines).  DEFINITIONS ONLY; theorems in `Props/E2EMapDispose.lean`.
  `E2EM.MOp` / `E2EM.stepM` / `E2EM.stepS` are unchanged: `stepD` is defined on top of `stepS`.
  (Array analogue: `E2EDisposeSpec.lean`, namespace `Atree.E2ED`.)
-/
namespace Atree.E2EMD
open Atree Gen

variable {r : Nat} {β : Type}

/-- the ids of the references among values handed to the caller, in order -/
def refsOfVals (l : List Elem) : List SlabID :=
  l.filterMap (fun e => match e.pay with | .ref id => some id | .val _ => none)

/-- The values a request hands back to the caller: the overwritten value of a `Set`, the removed
    value of a `Remove`, every value of a `PopIterate`; nothing for a request that is refused. -/
def handedBack (cfg : MCfg) (st : OMap r × Ctx) : E2EM.MOp → List Elem
  | .set k v =>
    match st.1.set cfg k v st.2 with
    | .ok (some old, _) => [old]
    | _ => []
  | .remove k =>
    match st.1.remove cfg k st.2 with
    | .ok (_, v, _) => [v]
    | .error _ => []
  | .popIterate => (st.1.popIterate st.2).1.map (·.2)
  | .setType _ => []

/-- `storage.Remove(id)` for each id -/
def disposeOps (ids : List SlabID) : List (Op (E2EM.MSSlab r)) := ids.map Op.remove

/-- One request (model + its storage calls: `E2EM.stepS`), then the caller disposes of what the
    request handed back: `storage.Remove(id)` for every `.ref id` among the returned values. -/
def stepD (c : Codec (E2EM.MSSlab r) β) (cfg : MCfg) (x : (OMap r × Ctx) × St (E2EM.MSSlab r) β)
    (op : E2EM.MOp) : (OMap r × Ctx) × St (E2EM.MSSlab r) β :=
  let y := E2EM.stepS c cfg x op
  (y.1, St.run c y.2 (disposeOps (refsOfVals (handedBack cfg x.1 op))))

def runD (c : Codec (E2EM.MSSlab r) β) (cfg : MCfg) (x : (OMap r × Ctx) × St (E2EM.MSSlab r) β)
    (ops : List E2EM.MOp) : (OMap r × Ctx) × St (E2EM.MSSlab r) β := ops.foldl (stepD c cfg) x

/-- The LIVE large-value slabs of a state: `live st id = some v` iff some pair of the map holds
    the value `.ref id`, and `v` is the value that reference resolves to (the slab created for
    it, `ctx.created`). -/
def live (st : OMap r × Ctx) (id : SlabID) : Option Elem :=
  if id ∈ st.1.refIds then AList.find? st.2.created id else none

/-- The invariant of a history with disposal.  `rep.view` is the EXACT-HEAP statement: on the
    owner's address the storage's view is the stored forms of the tree slabs (data slabs, index
    slabs, external collision groups) plus the large-value slabs of the CURRENT pairs - nothing
    else. -/
structure MGoodD (c : Codec (E2EM.MSSlab r) β) (T : Nat) (D : DigestFn (r + 1)) (cfg : MCfg)
    (x : (OMap r × Ctx) × St (E2EM.MSSlab r) β) : Prop where
  inv : MapInv T D x.1.1
  ids : MIdsOk x.1.1
  ctx : CtxOk x.1.1 x.1.2
  cfg : CfgOk cfg T x.1.1
  aok : E2EM.MAddrOk x.1.1
  addr : x.1.1.addr ≠ 0
  st : Inv c x.2
  /-- created slabs have indices the allocator handed out -/
  cre : ∀ p ∈ x.1.2.created, p.1.idx ≤ x.1.2.ctr
  refs : MRefsOk x.1.1 x.1.2.ctr
  /-- no reference of the map dangles: its slab was created -/
  nodang : ∀ id ∈ x.1.1.refIds, (AList.find? x.1.2.created id).isSome
  rep : E2EM.MRep c x.2 x.1.1 (live x.1) x.1.2.ctr

/-- The answer of the request `op` issued in state `st` is the dictionary's answer (C02): `Set`
    returns the value bound to the key before (or is refused with the collision-limit error for a
    key that is absent), `Remove` returns the value bound to the key (key-not-found iff absent),
    `PopIterate` returns every pair, last to first. -/
def AnswerOk (cfg : MCfg) (st : OMap r × Ctx) : E2EM.MOp → Prop
  | .set k v =>
    (∃ m' c', st.1.set cfg k v st.2 = .ok (dictLookup st.1.toList k, m', c')) ∨
    (st.1.set cfg k v st.2 = .error .collisionLimit ∧ dictLookup st.1.toList k = none)
  | .remove k =>
    match dictLookup st.1.toList k with
    | none => st.1.remove cfg k st.2 = .error .keyNotFound
    | some w => ∃ k0 m' c', st.1.remove cfg k st.2 = .ok (k0, w, m', c') ∧ k0.same k = true
  | .popIterate => (st.1.popIterate st.2).1 = st.1.toList.reverse
  | .setType _ => True

end Atree.E2EMD
