import AtreeModel.SlabIdStorages
import AtreeProofs.AListLemmas
import AtreeProofs.SlabIdBytes
/-
  Helper lemmas for `AtreeProofs/Props/SlabIdStorages.lean`: the requests of the simple storages in
  equational form.
-/
namespace Atree.SlabIdB
open Atree

namespace LBS
variable {Λ : Type} (L : Ledger Λ) (s : LBS Λ)

theorem step_retrieve (id : SlabIDB) :
    s.step L (.retrieve id) =
      ({ s with ledger := (L.getValue s.ledger id.address.val (slabIndexToLedgerKey id.index)).1,
                bytesRetrieved := s.bytesRetrieved +
                  (L.getValue s.ledger id.address.val (slabIndexToLedgerKey id.index)).2.1.length },
       if (L.getValue s.ledger id.address.val (slabIndexToLedgerKey id.index)).2.2 then .err
       else .data (L.getValue s.ledger id.address.val (slabIndexToLedgerKey id.index)).2.1
          (decide ((L.getValue s.ledger id.address.val (slabIndexToLedgerKey id.index)).2.1.length > 0))) := by
  cases h : (L.getValue s.ledger id.address.val (slabIndexToLedgerKey id.index)).2.2 <;>
    simp [LBS.step, LBS.retrieve, h]

theorem step_store (id : SlabIDB) (d : Bytes) :
    s.step L (.store id d) =
      ({ s with ledger := (L.setValue s.ledger id.address.val (slabIndexToLedgerKey id.index) d).1,
                bytesStored := s.bytesStored + d.length },
       if (L.setValue s.ledger id.address.val (slabIndexToLedgerKey id.index) d).2 then .err else .unit) := by
  cases h : (L.setValue s.ledger id.address.val (slabIndexToLedgerKey id.index) d).2 <;>
    simp [LBS.step, LBS.store, h]

theorem step_remove (id : SlabIDB) :
    s.step L (.remove id) =
      ({ s with ledger := (L.setValue s.ledger id.address.val (slabIndexToLedgerKey id.index) []).1 },
       if (L.setValue s.ledger id.address.val (slabIndexToLedgerKey id.index) []).2 then .err else .unit) := by
  cases h : (L.setValue s.ledger id.address.val (slabIndexToLedgerKey id.index) []).2 <;>
    simp [LBS.step, LBS.remove, h]

theorem step_gen (a : Address) :
    s.step L (.gen a) =
      ({ s with ledger := (L.allocateSlabIndex s.ledger a.val).1 },
       if (L.allocateSlabIndex s.ledger a.val).2.2 then .err
       else .id (newSlabID a (L.allocateSlabIndex s.ledger a.val).2.1)) := by
  cases h : (L.allocateSlabIndex s.ledger a.val).2.2 <;>
    simp [LBS.step, LBS.generateSlabID, h]

theorem step_reset : s.step L .reset = (s.resetReporter, .unit) := rfl

end LBS

namespace MapLedger

/-- the register content of the harness ledger (`[]` when absent) -/
def val (l : MapLedger) (o k : Bytes) : Bytes := (AList.find? l.regs (o, k)).getD []

theorem getValue_eq (l : MapLedger) (o k : Bytes) :
    l.getValue o k = ({ l with calls := l.calls + 1 }, if l.failing then l.junk else l.val o k, l.failing) := by
  unfold getValue val
  cases l.failing <;> rfl

theorem setValue_fst_val (l : MapLedger) (o k v o' k' : Bytes) :
    (l.setValue o k v).1.val o' k' =
      if l.failing then l.val o' k' else if o' = o ∧ k' = k then v else l.val o' k' := by
  unfold setValue val
  cases hf : l.failing with
  | true => rfl
  | false =>
    simp only [Bool.false_eq_true, if_false]
    by_cases hk : v.length = 0 ∧ l.keepEmpty = false
    · have hv : v = [] := List.eq_nil_of_length_eq_zero hk.1
      rw [if_pos hk, AList.find?_erase]
      by_cases h : (o, k) = (o', k')
      · have h' : o' = o ∧ k' = k := by simp only [Prod.mk.injEq] at h; exact ⟨h.1.symm, h.2.symm⟩
        rw [if_pos h, if_pos h', hv]; rfl
      · have h' : ¬ (o' = o ∧ k' = k) := fun x => h (by rw [x.1, x.2])
        rw [if_neg h, if_neg h']
    · rw [if_neg hk, AList.find?_insert]
      by_cases h : (o, k) = (o', k')
      · have h' : o' = o ∧ k' = k := by simp only [Prod.mk.injEq] at h; exact ⟨h.1.symm, h.2.symm⟩
        rw [if_pos h, if_pos h']; rfl
      · have h' : ¬ (o' = o ∧ k' = k) := fun x => h (by rw [x.1, x.2])
        rw [if_neg h, if_neg h']

theorem setValue_snd (l : MapLedger) (o k v : Bytes) : (l.setValue o k v).2 = l.failing := by
  unfold setValue
  cases l.failing <;> rfl

theorem setValue_fst_rest (l : MapLedger) (o k v : Bytes) :
    (l.setValue o k v).1.ctr = l.ctr ∧ (l.setValue o k v).1.calls = l.calls + 1 ∧
    (l.setValue o k v).1.fail = l.fail ∧ (l.setValue o k v).1.junk = l.junk ∧
    (l.setValue o k v).1.keepEmpty = l.keepEmpty := by
  unfold setValue
  cases l.failing <;> exact ⟨rfl, rfl, rfl, rfl, rfl⟩

theorem allocate_eq (l : MapLedger) (o : Bytes) :
    l.allocateSlabIndex o =
      if l.failing then ({ l with calls := l.calls + 1 }, SlabIndexUndefined, true)
      else ({ l with calls := l.calls + 1,
                     ctr := AList.insert l.ctr o (((AList.find? l.ctr o).getD 0 + 1) % 2 ^ 64) },
            indexOfNat (((AList.find? l.ctr o).getD 0 + 1) % 2 ^ 64), false) := rfl

end MapLedger

end Atree.SlabIdB
