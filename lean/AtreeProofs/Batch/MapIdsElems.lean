import AtreeProofs.Map.EffectsElems
import AtreeProofs.Map.EffectsData
/-
  C17, bulk build of maps — slab identifiers, part 2 (FX9H): the EXACT storage context after an
  element-level `Set` that stores a NEW key.  `ValStep` (Map/EffectsElems.lean) only says "unchanged
  or one large-value slab created"; here: it is the context left by `newSingleElement` for this
  key and value — which value was externalised, under which identifier.  Additive copy of the path
  lemmas `setAt_inv` / `hkey_set_inv` that also keeps the returned old value.
-/
namespace Atree
open Gen

section paths
variable {α : Type} {o : ElemsOps α} {cfg : MCfg}

/-- `setAt_inv` keeping the returned key and old value -/
theorem setAt_inv_old {e : HkeyElems α} {ℓ : Nat} {k : MKey} {v : Elem} {c : Ctx} {i : Nat} {el : MElemF α}
    {res : MKey × Option Elem × HkeyElems α × Ctx}
    (h : HkeyElems.setAt o cfg e ℓ k v c i el = .ok res) :
    ∃ el' ks c', el.set o cfg ℓ k v c = .ok (el', ks, res.2.1, c') ∧
      res.2.2.1.elems = e.elems.set i el' ∧ res.2.2.2 = c' := by
  unfold HkeyElems.setAt at h
  extract_lets jp at h
  have key : ∀ r, jp r = .ok res → ∃ el' ks c', el.set o cfg ℓ k v c = .ok (el', ks, res.2.1, c') ∧
      res.2.2.1.elems = e.elems.set i el' ∧ res.2.2.2 = c' := by
    intro r hr
    simp only [jp] at hr
    obtain ⟨⟨el', ks, old, c'⟩, hs, hr⟩ := mbind_eq_ok hr
    simp only [pure, Except.pure, Except.ok.injEq] at hr
    subst hr
    exact ⟨el', ks, c', hs, rfl, rfl⟩
  clear_value jp
  split at h
  · rename_i n jp2 _
    have key2 : ∀ r, jp2 r = .ok res → ∃ el' ks c', el.set o cfg ℓ k v c = .ok (el', ks, res.2.1, c') ∧
        res.2.2.1.elems = e.elems.set i el' ∧ res.2.2.2 = c' := by
      intro r hr
      simp only [jp2] at hr
      split at hr
      · split at hr
        · obtain ⟨_, ht, _⟩ := mbind_eq_ok hr
          cases ht
        · exact key _ hr
      · exact key _ hr
    split at h
    · obtain ⟨_, ht, _⟩ := mbind_eq_ok h
      cases ht
    · exact key2 () h
  · exact key _ h

/-- `hkey_set_inv` keeping the returned old value -/
theorem hkey_set_inv_old {e : HkeyElems α} {ℓ : Nat} {k : MKey} {v : Elem} {c : Ctx}
    {res : MKey × Option Elem × HkeyElems α × Ctx}
    (h : HkeyElems.set o cfg e ℓ k v c = .ok res) :
    (∃ idx hk, res = HkeyElems.insertNew cfg e idx hk k v c) ∨
    (∃ i el el' ks c', e.elems[i]? = some el ∧ el.set o cfg ℓ k v c = .ok (el', ks, res.2.1, c') ∧
      res.2.2.1.elems = e.elems.set i el' ∧ res.2.2.2 = c') := by
  unfold HkeyElems.set at h
  split at h
  · cases h
  · extract_lets hkey at h
    split at h
    · cases h; exact Or.inl ⟨_, _, rfl⟩
    · cases h; exact Or.inl ⟨_, _, rfl⟩
    · split at h
      · cases h; exact Or.inl ⟨_, _, rfl⟩
      · split at h
        · cases h; exact Or.inl ⟨_, _, rfl⟩
        · split at h
          · cases h; exact Or.inl ⟨_, _, rfl⟩
          · split at h
            · cases h
            · rename_i i _ _ _ el hel
              have h' : HkeyElems.setAt o cfg e ℓ k v c i el = .ok res := h
              obtain ⟨el', ks, c', h1, h2, h3⟩ := setAt_inv_old h'
              exact Or.inr ⟨i, el, el', ks, c', hel, h1, h2, h3⟩

/-- overwriting the value of a resident single element returns the old value -/
theorem single_set_single_old {x x' : SElem} {ℓ : Nat} {k : MKey} {v : Elem} {c : Ctx} {ks : MKey}
    {old : Option Elem} {c' : Ctx}
    (h : (MElemF.single x : MElemF α).set o cfg ℓ k v c = .ok (.single x', ks, old, c')) : old.isSome = true := by
  simp only [MElemF.set] at h
  split at h
  · simp only [Except.ok.injEq, Prod.mk.injEq] at h
    obtain ⟨_, _, rfl, _⟩ := h
    rfl
  · obtain ⟨g, _, h⟩ := mbind_eq_ok h
    obtain ⟨g', c1, _, hcase⟩ := inlSet_inv h
    rcases hcase with ⟨he, _⟩ | ⟨_, _, _, he, _⟩ <;> cases he

end paths

/-- below the first level, storing a NEW key (`old = none`) leaves exactly the context of
    `newSingleElement` -/
structure OpsNewCtx (cfg : MCfg) {α : Type} (o : ElemsOps α) (P : α → Prop) : Prop where
  set : ∀ {e : α} {ℓ : Nat} {k : MKey} {v : Elem} {c : Ctx} {ks : MKey} {e' : α} {c' : Ctx},
    P e → 1 ≤ ℓ → o.set cfg e ℓ k v c = .ok (ks, none, e', c') →
      c' = (newSingleElement cfg.T cfg.addr k v c).2

theorem SingleElems.opsNewCtx (cfg : MCfg) : OpsNewCtx cfg SingleElems.ops (fun _ => True) where
  set := by
    intro e ℓ k v c ks e' c' _ _ h
    have h : SingleElems.set cfg e ℓ k v c = .ok (ks, none, e', c') := h
    unfold SingleElems.set at h
    split at h
    · cases h
    · split at h
      · split at h
        · cases h
        · simp only [Except.ok.injEq, Prod.mk.injEq] at h
          exact absurd h.2.1 (by simp)
      · simp only [Except.ok.injEq, Prod.mk.injEq] at h
        obtain ⟨_, _, _, rfl⟩ := h
        rfl

theorem HkeyElems.opsNewCtx {cfg : MCfg} {α : Type} {o : ElemsOps α} {P : α → Prop} (hE : OpsEff cfg o P)
    (hX : OpsNewCtx cfg o P) : OpsNewCtx cfg (HkeyElems.ops o) (HP P) where
  set := by
    intro e ℓ k v c ks e' c' hP hℓ h
    have h : HkeyElems.set o cfg e ℓ k v c = .ok (ks, none, e', c') := h
    rcases hkey_set_inv_old h with ⟨idx, hk, hres⟩ | ⟨i, el, el', ks', c'', hel, hs, _, hc⟩
    · have : c' = (HkeyElems.insertNew cfg e idx hk k v c).2.2.2 := by rw [← hres]
      rw [this]; rfl
    · simp only at hc hs
      subst hc
      have hPel := hP el (List.mem_of_getElem? hel)
      rcases elem_set_inv hs with ⟨x, x', rfl, rfl, _⟩ | ⟨g, hg, hin⟩ | ⟨id, sz, s, _, _, rfl, _⟩
      · have := single_set_single_old hs
        simp at this
      · have hPg : P g := by
          rcases hg with ⟨x, _, hn⟩ | rfl
          · exact hE.newWith hn
          · exact hPel
        obtain ⟨g', c1, hset, hcase⟩ := inlSet_inv hin
        rcases hcase with ⟨_, rfl⟩ | ⟨h0, _⟩
        · exact hX.set hPg (by omega) hset
        · omega
      · exact absurd hPel (by simp [ElP])

theorem MElems.opsNewCtx (cfg : MCfg) : ∀ r, OpsNewCtx cfg (MElems.ops r) (NoExt r)
  | 0 => SingleElems.opsNewCtx cfg
  | r + 1 => HkeyElems.opsNewCtx (MElems.opsEff cfg r) (MElems.opsNewCtx cfg r)

/-! ### a first-level element -/

/-- What `element.Set` of a FIRST-LEVEL element does to the context when it stores a new key:
    the value is stored exactly as by `newSingleElement` (context `c1`), after which either nothing
    else is allocated and the external-group identifier of the element (if any) is unchanged, or
    the element had no external group and is exported to a group slab under the next identifier. -/
theorem elem_set0_new {α : Type} {o : ElemsOps α} {cfg : MCfg} {P : α → Prop} (hE : OpsEff cfg o P)
    (hX : OpsNewCtx cfg o P) {el el' : MElemF α} (hF : FirstOk P el) {k : MKey} {v : Elem} {c : Ctx}
    {ks : MKey} {c' : Ctx} (h : el.set o cfg 0 k v c = .ok (el', ks, none, c')) :
    (el'.extId? = el.extId? ∧ c'.ctr = (newSingleElement cfg.T cfg.addr k v c).2.ctr ∧
        c'.created = (newSingleElement cfg.T cfg.addr k v c).2.created) ∨
    (el.extId? = none ∧ el'.extId? = some ⟨cfg.addr, (newSingleElement cfg.T cfg.addr k v c).2.ctr + 1⟩ ∧
        c'.ctr = (newSingleElement cfg.T cfg.addr k v c).2.ctr + 1 ∧
        c'.created = (newSingleElement cfg.T cfg.addr k v c).2.created) := by
  rcases elem_set_inv h with ⟨x, x', rfl, rfl, _⟩ | ⟨g, hg, hin⟩ | ⟨id, sz, s, elems', c1, rfl, hset, rfl, rfl⟩
  · have := single_set_single_old h
    simp at this
  · have hPg : P g ∧ el.extId? = none := by
      rcases hg with ⟨x, rfl, hn⟩ | rfl
      · exact ⟨hE.newWith hn, rfl⟩
      · exact ⟨hF, rfl⟩
    obtain ⟨g', c1, hset, hcase⟩ := inlSet_inv hin
    have hc1 := hX.set hPg.1 (Nat.le_refl 1) hset
    rcases hcase with ⟨rfl, rfl⟩ | ⟨_, sz, slab, rfl, rfl⟩
    · left
      exact ⟨by rw [hPg.2]; rfl, by rw [hc1], by rw [hc1]⟩
    · right
      refine ⟨hPg.2, ?_, ?_, ?_⟩
      · rw [← hc1]; rfl
      · rw [← hc1]; rfl
      · rw [← hc1]; rfl
  · have hc1 := hX.set hF.2 (Nat.le_refl 1) hset
    left
    exact ⟨rfl, by rw [← hc1]; rfl, by rw [← hc1]; rfl⟩

end Atree
