import AtreeModel.Map.Batch
import AtreeProofs.MapInv
import AtreeProofs.Batch.CopyMap
import AtreeProofs.MapLemmas
/-
  C17, bulk build of maps — facts that need no invariant: an accepted stream is sorted by
  first-level digest; the seed, the type and the number of pairs are recorded; every step of the
  level loop keeps the pair sequence; without first-level collisions the pair sequence is the
  input, in order.
-/
namespace Atree
open Gen MTree MBatch

variable {r : Nat}

/-! ### the element loop -/

theorem collide_facts (cfg : MCfg) (st st' : FillState r) (k : MKey) (v : Elem) (c c' : Ctx)
    (h : collide cfg st k v c = .ok (st', c')) :
    st'.count = st.count + 1 ∧ st'.prevHkey = st.prevHkey ∧ st'.slabs = st.slabs ∧ st'.id = st.id := by
  unfold collide at h
  simp only at h
  split at h
  · simp at h
  · split at h
    · simp at h
    · split at h
      · simp at h
      · simp only [Except.ok.injEq, Prod.mk.injEq] at h
        obtain ⟨h1, _⟩ := h
        subst h1
        exact ⟨rfl, rfl, rfl, rfl⟩

theorem appendNew_facts (cfg : MCfg) (st : FillState r) (hkey : Nat) (k : MKey) (v : Elem) (c : Ctx) :
    (appendNew cfg st hkey k v c).1.count = st.count + 1 ∧ (appendNew cfg st hkey k v c).1.prevHkey = hkey := by
  unfold appendNew
  simp only
  split <;> simp

/-- C17 (`batch_rejects_unsorted`, loop level): if the element loop accepts a stream, the
    first-level digests of the stream are non-decreasing (and not below the digest seen last),
    and every pair was counted. -/
theorem fillLoop_sorted (cfg : MCfg) (kvs : List (MKey × Elem)) :
    ∀ (st st' : FillState r) (c c' : Ctx), fillLoop cfg kvs st c = .ok (st', c') →
      (kvs.map (fun p => p.1.dig 0)).Pairwise (· ≤ ·) ∧ (∀ p ∈ kvs, st.prevHkey ≤ p.1.dig 0) ∧
      st'.count = st.count + kvs.length := by
  induction kvs with
  | nil =>
    intro st st' c c' h
    simp only [fillLoop, Except.ok.injEq, Prod.mk.injEq] at h
    obtain ⟨h1, _⟩ := h
    subst h1
    simp
  | cons p kvs ih =>
    intro st st' c c' h
    obtain ⟨k, v⟩ := p
    unfold fillLoop at h
    simp only at h
    by_cases h1 : k.dig 0 < st.prevHkey
    · simp [h1] at h
    · simp only [h1, if_false] at h
      by_cases h2 : k.dig 0 = st.prevHkey ∧ st.count > 0
      · simp only [h2, and_self, if_true] at h
        cases hc : collide cfg st k v c with
        | error e => rw [hc] at h; simp at h
        | ok res =>
          obtain ⟨st1, c1⟩ := res
          rw [hc] at h
          simp only at h
          obtain ⟨f1, f2, _, _⟩ := collide_facts cfg st st1 k v c c1 hc
          obtain ⟨a1, a2, a3⟩ := ih st1 st' c1 c' h
          rw [f2] at a2
          refine ⟨?_, ?_, by rw [a3, f1]; simp; omega⟩
          · simp only [List.map_cons, List.pairwise_cons, List.mem_map, forall_exists_index, and_imp]
            refine ⟨?_, a1⟩
            rintro x q hq rfl
            have := a2 q hq; omega
          · intro q hq
            simp only [List.mem_cons] at hq
            rcases hq with rfl | hq
            · simp only; omega
            · have := a2 q hq; omega
      · simp only [h2, if_false] at h
        obtain ⟨f1, f2⟩ := appendNew_facts cfg st (k.dig 0) k v c
        obtain ⟨a1, a2, a3⟩ := ih _ st' _ c' h
        rw [f2] at a2
        refine ⟨?_, ?_, by rw [a3, f1]; simp; omega⟩
        · simp only [List.map_cons, List.pairwise_cons, List.mem_map, forall_exists_index, and_imp]
          refine ⟨?_, a1⟩
          rintro x q hq rfl
          exact a2 q hq
        · intro q hq
          simp only [List.mem_cons] at hq
          rcases hq with rfl | hq
          · simp only; omega
          · have := a2 q hq; omega

/-! ### the level loop -/

/-- a map index slab seen as a tree of depth `d+1` -/
def ofMMeta {d : Nat} (m : MMetaSlab (MTree r d)) : MTree r (d + 1) := m

@[elab_as_elim]
theorem forall_ofMMeta {d : Nat} {P : MTree r (d + 1) → Prop} (h : ∀ m, P (ofMMeta m))
    (t : MTree r (d + 1)) : P t := h t

@[simp] theorem mtoList_zero (s : MDataSlab r) :
    MTree.toList 0 (ofMData s) = HkeyElems.toList (MElems.ops r) s.elems := rfl
@[simp] theorem mtoList_succ (d : Nat) (m : MMetaSlab (MTree r d)) :
    MTree.toList (d + 1) (ofMMeta m) = m.children.flatMap (MTree.toList d) := rfl

theorem mtoList_merge : ∀ (d : Nat) (l x : MTree r d),
    MTree.toList d (MTree.merge d l x) = MTree.toList d l ++ MTree.toList d x
  | 0, l, x => by
    refine forall_ofMData ?_ l; intro l
    refine forall_ofMData ?_ x; intro x
    show HkeyElems.toList (MElems.ops r) (HkeyElems.merge l.elems x.elems) = _
    simp [HkeyElems.toList, HkeyElems.merge, List.flatMap_append]
  | d + 1, l, x => by
    refine forall_ofMMeta ?_ l; intro l
    refine forall_ofMMeta ?_ x; intro x
    show (l.children ++ x.children).flatMap (MTree.toList d) = _
    simp [List.flatMap_append]

theorem mtoList_lend (T : Nat) : ∀ (d : Nat) (l x l' x' : MTree r d),
    MTree.lendToRight T d l x = .ok (l', x') →
    MTree.toList d l' ++ MTree.toList d x' = MTree.toList d l ++ MTree.toList d x
  | 0, l, x, l', x' => by
    refine forall_ofMData ?_ l; intro l
    refine forall_ofMData ?_ x; intro x
    intro h
    have h : MDataSlab.lendToRight T l x = .ok (l', x') := h
    unfold MDataSlab.lendToRight at h
    cases he : HkeyElems.lendToRight (MDataSlab.eops r) T l.elems x.elems with
    | error e => rw [he] at h; simp [bind, Except.bind] at h
    | ok p =>
      obtain ⟨le, re⟩ := p
      rw [he] at h
      have hh := Except.ok.inj h
      have h1 : MTree.toList 0 l' = HkeyElems.toList (MElems.ops r) le := by
        rw [← (Prod.mk.inj hh).1]; rfl
      have h2 : MTree.toList 0 x' = HkeyElems.toList (MElems.ops r) re := by
        rw [← (Prod.mk.inj hh).2]; rfl
      rw [h1, h2]
      unfold HkeyElems.lendToRight at he
      split at he
      · simp at he
      · have he' := Except.ok.inj he
        rw [← (Prod.mk.inj he').1, ← (Prod.mk.inj he').2]
        show HkeyElems.toList _ _ ++ HkeyElems.toList _ _ = HkeyElems.toList _ l.elems ++ HkeyElems.toList _ x.elems
        simp only [HkeyElems.toList]
        rw [← List.flatMap_append, ← List.flatMap_append, ← List.append_assoc, List.take_append_drop]
  | d + 1, l, x, l', x' => by
    refine forall_ofMMeta ?_ l; intro l
    refine forall_ofMMeta ?_ x; intro x
    intro h
    have h : Except.ok (MMetaSlab.lendToRight l x) = Except.ok (l', x') := h
    have hh := Except.ok.inj h
    have h1 : MTree.toList (d + 1) l' = (MMetaSlab.lendToRight l x).1.children.flatMap (MTree.toList d) := by
      rw [← (Prod.mk.inj hh).1]; rfl
    have h2 : MTree.toList (d + 1) x' = (MMetaSlab.lendToRight l x).2.children.flatMap (MTree.toList d) := by
      rw [← (Prod.mk.inj hh).2]; rfl
    rw [h1, h2]
    show _ = l.children.flatMap (MTree.toList d) ++ x.children.flatMap (MTree.toList d)
    unfold MMetaSlab.lendToRight
    simp only
    rw [← List.flatMap_append, ← List.append_assoc, List.take_append_drop, List.flatMap_append]

theorem mrebalanceTail_toList (T d : Nat) : ∀ (X R : List (MTree r d)),
    MBatch.rebalanceTail T d X = .ok R → R.flatMap (MTree.toList d) = X.flatMap (MTree.toList d)
  | [], R => by intro h; simp [MBatch.rebalanceTail] at h; subst h; rfl
  | [_], R => by intro h; simp [MBatch.rebalanceTail] at h; subst h; rfl
  | [l, x], R => by
    intro h
    unfold MBatch.rebalanceTail at h
    split at h
    · split at h
      · split at h
        · rename_i l' x' hl
          simp only [Except.ok.injEq] at h
          subst h
          simp only [List.flatMap_cons, List.flatMap_nil, List.append_nil]
          exact mtoList_lend T d l x l' x' hl
        · simp at h
      · simp only [Except.ok.injEq] at h
        subst h
        simp [mtoList_merge]
    · simp only [Except.ok.injEq] at h
      subst h; rfl
  | x :: y :: z :: rest, R => by
    intro h
    unfold MBatch.rebalanceTail at h
    split at h
    · rename_i L hL
      simp only [Except.ok.injEq] at h
      subst h
      simp only [List.flatMap_cons]
      have := mrebalanceTail_toList T d (y :: z :: rest) L hL
      simp only [List.flatMap_cons] at this
      rw [this]
    · simp at h

theorem mnextLevelLoop_children (maxN addr d : Nat) (ss : List (MTree r d)) :
    ∀ (cur : MMetaSlab (MTree r d)) (done : List (MMetaSlab (MTree r d))) (c : Ctx),
      (MBatch.nextLevelLoop maxN addr d ss cur done c).1.flatMap (·.children) =
        done.flatMap (·.children) ++ cur.children ++ ss := by
  induction ss with
  | nil => intro cur done c; simp [MBatch.nextLevelLoop]
  | cons s ss ih =>
    intro cur done c
    unfold MBatch.nextLevelLoop
    split
    · rw [ih]; simp [MBatch.addChild, MBatch.emptyMeta, List.flatMap_append]
    · rw [ih]; simp [MBatch.addChild]

/-- a list of map index slabs seen as a level of trees of depth `d+1` -/
def asMMetas {d : Nat} (R : List (MMetaSlab (MTree r d))) : List (MTree r (d + 1)) := R

theorem mtoList_metas (d : Nat) (R : List (MMetaSlab (MTree r d))) :
    (asMMetas R).flatMap (MTree.toList (d + 1)) = (R.flatMap (·.children)).flatMap (MTree.toList d) := by
  induction R with
  | nil => rfl
  | cons m R ih =>
    show MTree.toList (d + 1) (ofMMeta m) ++ (asMMetas R).flatMap (MTree.toList (d + 1)) = _
    simp only [List.flatMap_cons, List.flatMap_append, ih, mtoList_succ]

theorem mnextLevel_toList (T addr d : Nat) (X : List (MTree r d)) (c : Ctx) :
    (nextLevelMapSlabs T addr d X c).1.flatMap (MTree.toList (d + 1)) = X.flatMap (MTree.toList d) := by
  have h : ∀ fk, (asMMetas (MBatch.nextLevelLoop ((maxThr T - mapMetaDataSlabPrefixSize) / mapSlabHeaderSize) addr d X
      (MBatch.emptyMeta d (c.alloc addr).1 fk) [] (c.alloc addr).2).1).flatMap (MTree.toList (d + 1)) =
      X.flatMap (MTree.toList d) := by
    intro fk
    rw [mtoList_metas, mnextLevelLoop_children]
    simp [MBatch.emptyMeta]
  unfold nextLevelMapSlabs
  exact h _

theorem mfinishRoot_facts (ty count seed d : Nat) (root : MTree r d) (c : Ctx) :
    (MBatch.finishRoot ty count seed d root c).1.toList = MTree.toList d root ∧
      (MBatch.finishRoot ty count seed d root c).1.ty = ty ∧
      (MBatch.finishRoot ty count seed d root c).1.count = count ∧
      (MBatch.finishRoot ty count seed d root c).1.seed = seed := by
  cases d with
  | zero => exact ⟨rfl, rfl, rfl, rfl⟩
  | succ d => exact ⟨rfl, rfl, rfl, rfl⟩

/-- The level loop keeps the pair sequence and records type, count and seed. -/
theorem mlevels_content (T addr ty count seed : Nat) :
    ∀ (fuel d : Nat) (X : List (MTree r d)) (c : Ctx) (m : OMap r) (c' : Ctx),
      MBatch.levels T addr ty count seed fuel d X c = .ok (m, c') →
      m.toList = X.flatMap (MTree.toList d) ∧ m.ty = ty ∧ m.count = count ∧ m.seed = seed := by
  intro fuel
  induction fuel with
  | zero => intro d X c m c' h; simp [MBatch.levels] at h
  | succ fuel ih =>
    intro d X c m c' h
    unfold MBatch.levels at h
    split at h
    · simp at h
    · rename_i root
      simp only [Except.ok.injEq] at h
      obtain ⟨a, b, c1, d1⟩ := mfinishRoot_facts ty count seed d root c
      rw [h] at a b c1 d1
      exact ⟨by rw [a]; simp, b, c1, d1⟩
    · split at h
      · simp at h
      · simp at h
      · rename_i root hR
        have hfl := mrebalanceTail_toList T d _ _ hR
        simp only [Except.ok.injEq] at h
        obtain ⟨a, b, c1, d1⟩ := mfinishRoot_facts ty count seed d root c
        rw [h] at a b c1 d1
        exact ⟨by rw [a, ← hfl]; simp, b, c1, d1⟩
      · rename_i slabs' _ _ hR
        have hfl := mrebalanceTail_toList T d _ _ hR
        obtain ⟨a, b, c1, d1⟩ := ih _ _ _ _ _ h
        exact ⟨by rw [a, mnextLevel_toList, hfl], b, c1, d1⟩

/-! ### the whole build -/

/-- the pairs held by the state of the element loop: closed data slabs, then the open elements -/
def fillPairs (st : FillState r) : List (MKey × Elem) :=
  st.slabs.flatMap (fun s => HkeyElems.toList (MElems.ops r) s.elems) ++
    HkeyElems.toList (MElems.ops r) st.elements

/-- the data slabs of the first level once the loop is over -/
def fillSlabs (st : FillState r) : List (MTree r 0) :=
  st.slabs ++ [MBatch.mkData st.id SlabID.undef st.elements]

theorem mdata_flatMap_toList (L : List (MDataSlab r)) :
    List.flatMap (MTree.toList 0) (L : List (MTree r 0)) =
      L.flatMap (fun s => HkeyElems.toList (MElems.ops r) s.elems) := by
  induction L with
  | nil => rfl
  | cons s L ih =>
    show MTree.toList 0 (ofMData s) ++ List.flatMap (MTree.toList 0) (L : List (MTree r 0)) = _
    rw [ih]; rfl

theorem fillSlabs_toList (st : FillState r) :
    (fillSlabs st).flatMap (MTree.toList 0) = fillPairs st := by
  unfold fillSlabs fillPairs
  rw [mdata_flatMap_toList, List.flatMap_append]
  simp [MBatch.mkData]

theorem appendNew_pairs (cfg : MCfg) (st : FillState r) (hkey : Nat) (k : MKey) (v : Elem) (c : Ctx) :
    fillPairs (appendNew cfg st hkey k v c).1 = fillPairs st ++ [(k, storedValue cfg k v c)] := by
  unfold appendNew
  simp only
  split
  · simp [fillPairs, HkeyElems.toList, MBatch.mkData, MBatch.emptyElems, MElemF.toList, newSingleElement,
      storedValue, List.flatMap_append]
  · simp [fillPairs, HkeyElems.toList, MElemF.toList, newSingleElement, storedValue, List.flatMap_append]

/-- the storage contexts in which the values of a collision-free stream are turned into storables -/
def appendCtxs (cfg : MCfg) : List (MKey × Elem) → FillState r → Ctx → List Ctx
  | [], _, _ => []
  | (k, v) :: rest, st, c =>
    c :: appendCtxs cfg rest (appendNew cfg st (k.dig 0) k v c).1 (appendNew cfg st (k.dig 0) k v c).2

theorem appendCtxs_length (cfg : MCfg) (kvs : List (MKey × Elem)) :
    ∀ (st : FillState r) (c : Ctx), (appendCtxs cfg kvs st c).length = kvs.length := by
  induction kvs with
  | nil => intro st c; rfl
  | cons p kvs ih => intro st c; obtain ⟨k, v⟩ := p; simp [appendCtxs, ih]

/-- Without first-level digest collisions the loop only appends: the pairs are the input pairs
    (values in stored form), in input order, and the loop cannot fail. -/
theorem fillLoop_nocollision (cfg : MCfg) (kvs : List (MKey × Elem))
    (hs : (kvs.map (fun p => p.1.dig 0)).Pairwise (· < ·)) :
    ∀ (st : FillState r) (c : Ctx), (∀ p ∈ kvs, st.count = 0 ∨ st.prevHkey < p.1.dig 0) →
      (∀ p ∈ kvs, st.prevHkey ≤ p.1.dig 0) →
      ∃ st' c', fillLoop cfg kvs st c = .ok (st', c') ∧
        fillPairs st' = fillPairs st ++
          List.zipWith (fun p c => (p.1, storedValue cfg p.1 p.2 c)) kvs (appendCtxs cfg kvs st c) := by
  induction kvs with
  | nil => intro st c _ _; exact ⟨st, c, rfl, by simp [appendCtxs]⟩
  | cons p kvs ih =>
    intro st c h1 h2
    obtain ⟨k, v⟩ := p
    simp only [List.map_cons, List.pairwise_cons, List.mem_map, forall_exists_index, and_imp] at hs
    obtain ⟨hlt, hs'⟩ := hs
    have hk1 := h1 (k, v) (by simp)
    have hk2 := h2 (k, v) (by simp)
    simp only at hk1 hk2
    unfold fillLoop
    simp only
    have n1 : ¬ k.dig 0 < st.prevHkey := by omega
    have n2 : ¬ (k.dig 0 = st.prevHkey ∧ st.count > 0) := by omega
    simp only [n1, n2, if_false]
    obtain ⟨f1, f2⟩ := appendNew_facts cfg st (k.dig 0) k v c
    obtain ⟨st', c', e1, e2⟩ := ih hs' (appendNew cfg st (k.dig 0) k v c).1 (appendNew cfg st (k.dig 0) k v c).2
      (by intro q hq; right; rw [f2]; exact hlt _ q hq rfl)
      (by intro q hq; rw [f2]; exact Nat.le_of_lt (hlt _ q hq rfl))
    refine ⟨st', c', e1, ?_⟩
    rw [e2, appendNew_pairs]
    simp [appendCtxs]

/-- C17 (`batch_map_content` / `batch_rejects_unsorted`, conditional form): if the bulk build of a
    map succeeds then the seed is the (non-zero) seed passed in, type and count are recorded, the
    count is the number of input pairs, the input was sorted by first-level digest, and the pair
    sequence of the map is the pair sequence left by the element loop. -/
theorem fromBatchData_ok_facts (cfg : MCfg) (ty seed : Nat) (kvs : List (MKey × Elem)) (c : Ctx)
    (m : OMap r) (c' : Ctx) (h : OMap.fromBatchData cfg ty seed kvs c = .ok (m, c')) :
    seed ≠ 0 ∧ m.seed = seed ∧ m.ty = ty ∧ m.count = kvs.length ∧
      (kvs.map (fun p => p.1.dig 0)).Pairwise (· ≤ ·) ∧
      ∃ st cf, fillLoop cfg kvs
          { id := (c.alloc cfg.addr).1, elements := MBatch.emptyElems r, slabs := [], count := 0, prevHkey := 0 }
          (c.alloc cfg.addr).2 = .ok (st, cf) ∧ m.toList = fillPairs st := by
  unfold OMap.fromBatchData at h
  by_cases hseed : seed = 0
  · simp [hseed] at h
  · simp only [hseed, if_false] at h
    cases hf : fillLoop cfg kvs
        { id := (c.alloc cfg.addr).1, elements := MBatch.emptyElems r, slabs := [], count := 0, prevHkey := 0 }
        (c.alloc cfg.addr).2 with
    | error e => rw [hf] at h; simp at h
    | ok res =>
      obtain ⟨st, cf⟩ := res
      rw [hf] at h
      simp only at h
      obtain ⟨a1, a2, a3⟩ := fillLoop_sorted cfg kvs _ st _ cf hf
      obtain ⟨b1, b2, b3, b4⟩ := mlevels_content cfg.T cfg.addr ty st.count seed _ 0 (fillSlabs st) cf m c' h
      refine ⟨hseed, b4, b2, by rw [b3, a3]; simp, a1, st, cf, rfl, ?_⟩
      rw [b1, fillSlabs_toList]

/-- C17 (`batch_rejects_unsorted`): a stream whose first-level digests are not sorted is rejected. -/
theorem fromBatchData_rejects_unsorted (cfg : MCfg) (ty seed : Nat) (kvs : List (MKey × Elem)) (c : Ctx)
    (hns : ¬ (kvs.map (fun p => p.1.dig 0)).Pairwise (· ≤ ·)) :
    ∃ e c', (OMap.fromBatchData cfg ty seed kvs c : BRes (OMap r × Ctx)) = .error (e, c') := by
  cases h : (OMap.fromBatchData cfg ty seed kvs c : BRes (OMap r × Ctx)) with
  | error e => exact ⟨e.1, e.2, rfl⟩
  | ok res =>
    obtain ⟨m, c'⟩ := res
    exact absurd (fromBatchData_ok_facts cfg ty seed kvs c m c' h).2.2.2.2.1 hns

/-- the uninitialised seed is rejected before anything is allocated -/
theorem fromBatchData_rejects_seed0 (cfg : MCfg) (ty : Nat) (kvs : List (MKey × Elem)) (c : Ctx) :
    (OMap.fromBatchData cfg ty 0 kvs c : BRes (OMap r × Ctx)) = .error (.seedUninitialized, c) := by
  simp [OMap.fromBatchData]

end Atree
