import AtreeModel.Map.CopyKeys
import AtreeProofs.Batch.CopyMap
import AtreeProofs.Map.TreeTop
/-
  The key conjunct of `singleElement.canCopyNonRefSimple` is implied by the key limit.
-/
namespace Atree
open Gen

theorem all_congr_mem {α : Type} {f g : α → Bool} : ∀ (l : List α), (∀ x ∈ l, f x = g x) → l.all f = l.all g
  | [], _ => rfl
  | x :: l, h => by
    simp only [List.all_cons, h x (by simp), all_congr_mem l (fun y hy => h y (by simp [hy]))]

theorem MElems.canCopyK_eq (T : Nat) : ∀ (r : Nat) (e : MElems r),
    (∀ p ∈ (MElems.ops r).toList e, p.1.size ≤ maxInlineMapKey T) →
    MElems.canCopyK T r e = MElems.canCopy r e
  | 0, e => by
    intro h
    show (e : SingleElems).elems.all (SElem.canCopyK T) = (e : SingleElems).elems.all SElem.canCopy
    apply all_congr_mem
    intro x hx
    have := h (x.key, x.val) (by
      show (x.key, x.val) ∈ (e : SingleElems).elems.map (fun x => (x.key, x.val))
      exact List.mem_map.2 ⟨x, hx, rfl⟩)
    simp [SElem.canCopyK, SElem.canCopy, MKey.storedInline, this]
  | r + 1, e => by
    intro h
    have ih := MElems.canCopyK_eq T r
    show (e : HkeyElems (MElems r)).elems.all _ = (e : HkeyElems (MElems r)).elems.all _
    apply all_congr_mem
    intro el hel
    have hsub : ∀ p ∈ el.toList (MElems.ops r), p.1.size ≤ maxInlineMapKey T := by
      intro p hp
      apply h p
      show p ∈ (e : HkeyElems (MElems r)).elems.flatMap (fun el => el.toList (MElems.ops r))
      exact List.mem_flatMap.2 ⟨el, hel, hp⟩
    cases el with
    | single x =>
      have := hsub (x.key, x.val) (by simp [MElemF.toList])
      simp [SElem.canCopyK, SElem.canCopy, MKey.storedInline, this]
    | inl g => exact ih g hsub
    | ext _ _ _ => rfl

/-- for a map whose keys are within the key limit the Go conjunction and the value-only
    predicate agree -/
theorem OMap.canCopyK_eq {r : Nat} (T : Nat) (m : OMap r)
    (hk : ∀ p ∈ m.toList, p.1.size ≤ maxInlineMapKey T) :
    m.canCopyNonRefSimpleK T = m.canCopyNonRefSimple := by
  obtain ⟨d, root, ty, cnt, seed⟩ := m
  cases d with
  | succ d => rfl
  | zero =>
    show ((root : MDataSlab r).next == SlabID.undef && MElems.canCopyK T (r + 1) (root : MDataSlab r).elems) =
      ((root : MDataSlab r).next == SlabID.undef && MElems.canCopy (r + 1) (root : MDataSlab r).elems)
    rw [MElems.canCopyK_eq T (r + 1) _ hk]

end Atree
