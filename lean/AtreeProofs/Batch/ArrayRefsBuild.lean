import AtreeProofs.Batch.ArrayInvBuild
import AtreeProofs.Batch.MapIdsLevels
import AtreeProofs.ArrayRefs
import AtreeProofs.BatchRefsSpec
/-
  C17, bulk build of ARRAYS — large-value references (audit a1 F9, FX9H).  New induction over the
  element loop (`ABatch.fillLoop`) and the level loop (`ABatch.levels`) of `NewArrayFromBatchData`
  beside the existing ones (ArrayFill / ArrayLevels / ArrayInvBuild, unchanged): the identifiers of
  the tree slabs AND of the large-value slabs referenced by the elements are pairwise different,
  of the owner address, allocated during the call (`FreshIds`, Batch/MapIdsLevels.lean), and every
  stored element represents the input value at its position (a reference resolves to it in
  `Ctx.created`).
-/
namespace Atree
open Gen ATree MetaSlab ABatch

variable {T : Nat}

/-- identifiers of a level of array subtrees -/
def alvlIds (d : Nat) (X : List (ATree d)) : List SlabID := X.flatMap (slabIds d)

/-! ### the level loop -/

theorem aids_merge : ∀ (d : Nat) (l x : ATree d),
    (slabIds d (ATree.merge d l x)).Sublist (slabIds d l ++ slabIds d x)
  | 0, l, x => by
    refine forall_ofData ?_ l; intro l
    refine forall_ofData ?_ x; intro x
    show [l.hdr.id].Sublist ([l.hdr.id] ++ [x.hdr.id])
    exact List.sublist_append_left _ _
  | d + 1, l, x => by
    refine forall_ofMeta ?_ l; intro l
    refine forall_ofMeta ?_ x; intro x
    show (l.hdr.id :: (l.children ++ x.children).flatMap (slabIds d)).Sublist
      ((l.hdr.id :: l.children.flatMap (slabIds d)) ++ (x.hdr.id :: x.children.flatMap (slabIds d)))
    rw [List.flatMap_append]
    simp only [List.cons_append]
    exact List.Sublist.cons_cons _ (List.Sublist.append (List.Sublist.refl _) (List.sublist_cons_self _ _))

theorem aids_lend (T : Nat) : ∀ (d : Nat) (l x : ATree d),
    (slabIds d (ATree.lendToRight T d l x).1 ++ slabIds d (ATree.lendToRight T d l x).2).Perm
      (slabIds d l ++ slabIds d x)
  | 0, l, x => by
    refine forall_ofData ?_ l; intro l
    refine forall_ofData ?_ x; intro x
    show List.Perm ([(DataSlab.lendToRight T l x).1.hdr.id] ++ [(DataSlab.lendToRight T l x).2.hdr.id])
      ([l.hdr.id] ++ [x.hdr.id])
    unfold DataSlab.lendToRight
    simp only
    exact List.Perm.refl _
  | d + 1, l, x => by
    refine forall_ofMeta ?_ l; intro l
    refine forall_ofMeta ?_ x; intro x
    show List.Perm (((MetaSlab.lendToRight l x).1.hdr.id :: (MetaSlab.lendToRight l x).1.children.flatMap (slabIds d)) ++
      ((MetaSlab.lendToRight l x).2.hdr.id :: (MetaSlab.lendToRight l x).2.children.flatMap (slabIds d)))
      ((l.hdr.id :: l.children.flatMap (slabIds d)) ++ (x.hdr.id :: x.children.flatMap (slabIds d)))
    unfold MetaSlab.lendToRight
    simp only
    generalize (l.childHdrs.length + x.childHdrs.length) / 2 = n
    rw [List.flatMap_append]
    have := perm_lend_shape l.hdr.id x.hdr.id ((l.children.take n).flatMap (slabIds d))
      ((l.children.drop n).flatMap (slabIds d)) (x.children.flatMap (slabIds d))
    have e : (l.children.take n).flatMap (slabIds d) ++ (l.children.drop n).flatMap (slabIds d)
        = l.children.flatMap (slabIds d) := by
      rw [← List.flatMap_append, List.take_append_drop]
    rw [e] at this
    exact this

theorem arebalanceTail_ids (T d : Nat) : ∀ (X : List (ATree d)),
    (alvlIds d (rebalanceTail T d X)).Subperm (alvlIds d X)
  | [] => List.Subperm.refl _
  | [_] => List.Subperm.refl _
  | [l, x] => by
    unfold rebalanceTail
    split
    · split
      · simp only [alvlIds, List.flatMap_cons, List.flatMap_nil, List.append_nil]
        exact (aids_lend T d l x).subperm
      · simp only [alvlIds, List.flatMap_cons, List.flatMap_nil, List.append_nil]
        exact (aids_merge d l x).subperm
    · exact List.Subperm.refl _
  | x :: y :: z :: rest => by
    unfold rebalanceTail
    show (slabIds d x ++ alvlIds d (rebalanceTail T d (y :: z :: rest))).Subperm
      (slabIds d x ++ alvlIds d (y :: z :: rest))
    exact subperm_append_left' _ (arebalanceTail_ids T d (y :: z :: rest))

theorem astoreAll_created (d : Nat) (X : List (ATree d)) (c : Ctx) :
    (storeAll d X c).ctr = c.ctr ∧ (storeAll d X c).created = c.created := by
  unfold storeAll
  induction X generalizing c with
  | nil => exact ⟨rfl, rfl⟩
  | cons x X ih =>
    simp only [List.foldl_cons]
    obtain ⟨h1, h2⟩ := ih (c.emit (.store (hdr d x).id))
    exact ⟨h1, h2⟩

theorem anextLevelLoop_hdrIds (maxN addr d : Nat) (ss : List (ATree d)) :
    ∀ (cur : MetaSlab (ATree d)) (done : List (MetaSlab (ATree d))) (c : Ctx),
      ∃ news, (nextLevelLoop maxN addr d ss cur done c).1.map (·.hdr.id) =
          done.map (·.hdr.id) ++ cur.hdr.id :: news ∧
        FreshIds addr c.ctr (nextLevelLoop maxN addr d ss cur done c).2.ctr news ∧
        (nextLevelLoop maxN addr d ss cur done c).2.created = c.created := by
  induction ss with
  | nil =>
    intro cur done c
    exact ⟨[], by simp [nextLevelLoop], FreshIds.nil (Nat.le_refl _), rfl⟩
  | cons s ss ih =>
    intro cur done c
    unfold nextLevelLoop
    split
    · obtain ⟨news, h1, h2, h3⟩ := ih (addChild d (emptyMeta d (c.alloc addr).1) s) (done ++ [cur]) (c.alloc addr).2
      refine ⟨(c.alloc addr).1 :: news, ?_, ?_, ?_⟩
      · rw [h1]; simp [addChild, emptyMeta]
      · have hs := FreshIds.single_next addr c.ctr
        have h2' : FreshIds addr (c.ctr + 1) (nextLevelLoop maxN addr d ss
            (addChild d (emptyMeta d (c.alloc addr).1) s) (done ++ [cur]) (c.alloc addr).2).2.ctr news := h2
        exact (hs.append_new h2').perm (List.perm_append_singleton _ _).symm
      · rw [h3]; rfl
    · obtain ⟨news, h1, h2, h3⟩ := ih (addChild d cur s) done c
      exact ⟨news, by rw [h1]; simp [addChild], h2, h3⟩

theorem anextLevel_ids (T addr d : Nat) (X : List (ATree d)) (c : Ctx) :
    ∃ news, (alvlIds (d + 1) (nextLevelArraySlabs T addr d X c).1).Perm (news ++ alvlIds d X) ∧
      FreshIds addr c.ctr (nextLevelArraySlabs T addr d X c).2.ctr news ∧
      (nextLevelArraySlabs T addr d X c).2.created = c.created := by
  obtain ⟨news, h1, h2, h3⟩ := anextLevelLoop_hdrIds ((maxThr T - arrayMetaDataSlabPrefixSize) / arraySlabHeaderSize)
    addr d X (emptyMeta d (c.alloc addr).1) [] (c.alloc addr).2
  refine ⟨(c.alloc addr).1 :: news, ?_, ?_, h3⟩
  · rw [nextLevel_eq]
    refine (slabIds_metas_perm d _).trans ?_
    rw [nextMetas_children]
    have h1' : (nextMetas T addr d X c).map (·.hdr.id) = (c.alloc addr).1 :: news := by
      simpa [nextMetas, emptyMeta] using h1
    rw [h1']
    exact List.Perm.refl _
  · have hs := FreshIds.single_next addr c.ctr
    have h2' : FreshIds addr (c.ctr + 1) (nextLevelArraySlabs T addr d X c).2.ctr news := h2
    exact (hs.append_new h2').perm (List.perm_append_singleton _ _).symm

theorem afinishRoot_ids (ty d : Nat) (root : ATree d) (c : Ctx) :
    slabIds (finishRoot ty d root c).1.d (finishRoot ty d root c).1.root = slabIds d root ∧
      (finishRoot ty d root c).2.ctr = c.ctr ∧ (finishRoot ty d root c).2.created = c.created := by
  cases d with
  | zero => exact ⟨rfl, rfl, rfl⟩
  | succ d => exact ⟨rfl, rfl, rfl⟩

/-- The level loop of the array build keeps `FreshIds` of the tree identifiers together with the
    carried identifiers `extra` (the large-value slabs) and creates no large-value slab. -/
theorem alevels_ids (T addr ty c0 : Nat) (extra : List SlabID) :
    ∀ (fuel d : Nat) (X : List (ATree d)) (c : Ctx) (a : Arr) (c' : Ctx),
      levels T addr ty fuel d X c = .ok (a, c') →
      FreshIds addr c0 c.ctr (alvlIds d X ++ extra) →
      FreshIds addr c0 c'.ctr (slabIds a.d a.root ++ extra) ∧ c.ctr ≤ c'.ctr ∧ c'.created = c.created := by
  intro fuel
  induction fuel with
  | zero => intro d X c a c' h; simp [levels] at h
  | succ fuel ih =>
    intro d X c a c' h hF
    unfold levels at h
    split at h
    · simp at h
    · rename_i root
      simp only [Except.ok.injEq] at h
      obtain ⟨a1, a2, a3⟩ := afinishRoot_ids ty d root c
      rw [h] at a1 a2 a3
      simp only at a1 a2 a3
      rw [a1, a2]
      exact ⟨by simpa [alvlIds] using hF, Nat.le_refl _, a3⟩
    · split at h
      · simp at h
      · rename_i root hR
        have hsub := arebalanceTail_ids T d X
        rw [hR] at hsub
        simp only [Except.ok.injEq] at h
        obtain ⟨a1, a2, a3⟩ := afinishRoot_ids ty d root c
        rw [h] at a1 a2 a3
        simp only at a1 a2 a3
        rw [a1, a2]
        refine ⟨hF.subperm ?_, Nat.le_refl _, a3⟩
        have : (slabIds d root).Subperm (alvlIds d X) := by simpa [alvlIds] using hsub
        obtain ⟨l, hp, hs⟩ := this
        exact ⟨l ++ extra, List.Perm.append_right _ hp, List.Sublist.append hs (List.Sublist.refl _)⟩
      · rename_i slabs' _ _
        have hsub := arebalanceTail_ids T d X
        obtain ⟨s1, s2⟩ := astoreAll_created d (rebalanceTail T d X) c
        obtain ⟨news, n1, n2, n3⟩ := anextLevel_ids T addr d (rebalanceTail T d X) (storeAll d (rebalanceTail T d X) c)
        rw [s1] at n2
        have hF1 : FreshIds addr c0 c.ctr (alvlIds d (rebalanceTail T d X) ++ extra) := by
          refine hF.subperm ?_
          obtain ⟨l, hp, hs⟩ := hsub
          exact ⟨l ++ extra, List.Perm.append_right _ hp, List.Sublist.append hs (List.Sublist.refl _)⟩
        have hF2 := hF1.append_new n2
        obtain ⟨b1, b2, b3⟩ := ih _ _ _ _ _ h (hF2.perm (by
          rw [← List.append_assoc]; exact List.Perm.append_right _ n1))
        exact ⟨b1, Nat.le_trans n2.1 b2, by rw [b3, n3, s2]⟩

/-! ### the element loop -/

theorem forall2_snoc {α β : Type} {R : α → β → Prop} {l1 : List α} {l2 : List β} (h : List.Forall₂ R l1 l2)
    {a : α} {b : β} (hab : R a b) : List.Forall₂ R (l1 ++ [a]) (l2 ++ [b]) := by
  induction h with
  | nil => exact List.Forall₂.cons hab List.Forall₂.nil
  | cons h1 _ ih => exact List.Forall₂.cons h1 ih

theorem forall2_imp' {α β : Type} {R S : α → β → Prop} (hRS : ∀ a b, R a b → S a b) {l1 : List α} {l2 : List β}
    (h : List.Forall₂ R l1 l2) : List.Forall₂ S l1 l2 := by
  induction h with
  | nil => exact List.Forall₂.nil
  | cons h1 _ ih => exact List.Forall₂.cons (hRS _ _ h1) ih

theorem afind?_append_of_some {κ α : Type} [DecidableEq κ] (m m' : AList κ α) (k : κ) (v : α)
    (h : AList.find? m k = some v) : AList.find? (m ++ m') k = some v := by
  induction m with
  | nil => simp [AList.find?] at h
  | cons p m ih =>
    obtain ⟨k', v'⟩ := p
    simp only [List.cons_append, AList.find?] at h ⊢
    split
    · rename_i he; rw [if_pos he] at h; exact h
    · rename_i he; rw [if_neg he] at h; exact ih h

theorem afind?_append_new {κ α : Type} [DecidableEq κ] (m : AList κ α) (k : κ) (v : α)
    (h : ∀ p ∈ m, p.1 ≠ k) : AList.find? (m ++ [(k, v)]) k = some v := by
  induction m with
  | nil => simp [AList.find?]
  | cons p m ih =>
    obtain ⟨k', v'⟩ := p
    have hne : k' ≠ k := h (k', v') (by simp)
    simp only [List.cons_append, AList.find?, if_neg hne]
    exact ih (fun q hq => h q (by simp [hq]))

theorem refIdsOf_append (A B : List Elem) : refIdsOf (A ++ B) = refIdsOf A ++ refIdsOf B := by
  simp [refIdsOf, List.filterMap_append]

/-- the context left by `toStorable` for a plain value -/
theorem ts_ctx (T a : Nat) {v : Elem} (hv : ValueOk v) (c : Ctx) :
    (v.size ≤ maxInlineArr T ∧ (toStorable T a v c).2 = c ∧ (toStorable T a v c).1 = v) ∨
    (maxInlineArr T < v.size ∧ (toStorable T a v c).2.ctr = c.ctr + 1 ∧
      (toStorable T a v c).2.created = c.created ++ [(⟨a, c.ctr + 1⟩, v)] ∧
      (toStorable T a v c).1 = ⟨slabIDStorableSize, .ref ⟨a, c.ctr + 1⟩⟩) := by
  obtain ⟨_, n, hn⟩ := hv
  by_cases hb : v.size > maxInlineArr T
  · right
    refine ⟨hb, ?_, ?_, ?_⟩ <;> simp [toStorable, hn, hb, Ctx.alloc, Ctx.emit]
  · left
    refine ⟨by omega, ?_, ?_⟩ <;> simp [toStorable, hn, hb]

theorem perm_push_helper {α : Type} (A N R : List α) (x : α) :
    (A ++ N ++ (R ++ [x])).Perm ([x] ++ (N ++ (A ++ R))) := by
  rw [← List.append_assoc]
  refine (List.perm_append_singleton _ _).trans (List.Perm.cons _ ?_)
  rw [← List.append_assoc]
  exact List.Perm.append_right _ List.perm_append_comm

/-- invariant of the element loop about the list `L = done ++ [cur]` of data slabs, after the
    values `proc`, in context `c` (`P` as in `MFillIds`) -/
structure AFillIds (T addr c0 : Nat) (P : Prop) (L : List DataSlab) (proc : List Elem) (c : Ctx) : Prop where
  ids : FreshIds addr c0 c.ctr (L.map (·.hdr.id) ++ refIdsOf (L.flatMap (·.elems)))
  created : P → CreatedTableOk addr c
  repr : P → List.Forall₂ (ReprA T c.created) proc (L.flatMap (·.elems))

/-- storing one more value `v` at the end, in context `c1` whose counter is `c.ctr + k` after `k`
    (0 or 1) fresh tree identifiers `news` were appended -/
theorem afillIds_push {addr c0 : Nat} {P : Prop} {L L' : List DataSlab} {proc : List Elem} {c c1 : Ctx}
    (h : AFillIds T addr c0 P L proc c) {v : Elem} (hv : ValueOk v) (news : List SlabID)
    (hnews : FreshIds addr c.ctr c1.ctr news) (hc1 : c1.created = c.created)
    (hids : L'.map (·.hdr.id) = L.map (·.hdr.id) ++ news)
    (helems : L'.flatMap (·.elems) = L.flatMap (·.elems) ++ [(toStorable T addr v c1).1]) :
    AFillIds T addr c0 P L' (proc ++ [v]) (toStorable T addr v c1).2 := by
  have hbase : FreshIds addr c0 c1.ctr (news ++ (L.map (·.hdr.id) ++ refIdsOf (L.flatMap (·.elems)))) :=
    h.ids.append_new hnews
  have hcr1 : P → CreatedTableOk addr c1 := by
    intro hP p hp ha
    rw [hc1] at hp
    have := h.created hP p hp ha
    have := hnews.1
    omega
  rcases ts_ctx T addr hv c1 with ⟨hsmall, hn, hsv⟩ | ⟨hbig, hnctr, hncr, hsv⟩
  · rw [hn]
    refine ⟨?_, hcr1, ?_⟩
    · rw [hids, helems, hsv, refIdsOf_append]
      have : refIdsOf [v] = [] := by
        obtain ⟨_, n, hn⟩ := hv
        simp [refIdsOf, Elem.refId?, hn]
      rw [this, List.append_nil]
      refine hbase.perm ?_
      rw [← List.append_assoc]
      exact List.Perm.append_right _ List.perm_append_comm
    · intro hP
      rw [helems, hsv, hc1]
      exact forall2_snoc (h.repr hP) (Or.inl ⟨hsmall, rfl⟩)
  · refine ⟨?_, ?_, ?_⟩
    · rw [hnctr, hids, helems, hsv, refIdsOf_append]
      have : refIdsOf [(⟨slabIDStorableSize, .ref ⟨addr, c1.ctr + 1⟩⟩ : Elem)] = [⟨addr, c1.ctr + 1⟩] := by
        simp [refIdsOf, Elem.refId?]
      rw [this]
      have := hbase.append_new (FreshIds.single_next addr c1.ctr)
      exact this.perm (perm_push_helper _ _ _ _)
    · intro hP p hp ha
      rw [hncr] at hp
      rw [hnctr]
      rcases List.mem_append.mp hp with hp | hp
      · have := hcr1 hP p hp ha; omega
      · simp only [List.mem_singleton] at hp
        subst hp
        exact Nat.le_refl _
    · intro hP
      rw [helems, hsv, hncr, hc1]
      have hfresh : ∀ p ∈ c.created, p.1 ≠ (⟨addr, c1.ctr + 1⟩ : SlabID) := by
        intro p hp he
        have := hcr1 hP p (by rw [hc1]; exact hp) (by rw [he])
        rw [he] at this
        simp only at this
        omega
      refine forall2_snoc (forall2_imp' ?_ (h.repr hP)) (Or.inr ⟨hbig, _, rfl, ?_⟩)
      · intro a b hab
        rcases hab with hab | ⟨hb, id, he, hf⟩
        · exact Or.inl hab
        · exact Or.inr ⟨hb, id, he, afind?_append_of_some _ _ _ _ hf⟩
      · rw [← hc1]
        exact afind?_append_new _ _ _ (by rw [hc1]; exact hfresh)

theorem afill_ids (addr c0 : Nat) (P : Prop) (vs : List Elem) (hvs : ∀ v ∈ vs, ValueOk v) :
    ∀ (cur : DataSlab) (done : List DataSlab) (c : Ctx) (proc : List Elem),
      AFillIds T addr c0 P (done ++ [cur]) proc c →
      AFillIds T addr c0 P (fillLoop T addr (toStorable T addr) vs cur done c).1 (proc ++ vs)
        (fillLoop T addr (toStorable T addr) vs cur done c).2 := by
  induction vs with
  | nil => intro cur done c proc h; simpa [fillLoop] using h
  | cons v vs ih =>
    intro cur done c proc h
    have hv := hvs v (by simp)
    have hvs' : ∀ x ∈ vs, ValueOk x := fun x hx => hvs x (by simp [hx])
    have happ : proc ++ v :: vs = (proc ++ [v]) ++ vs := by simp
    unfold fillLoop
    by_cases hfull : cur.hdr.size ≥ T
    · simp only [hfull, if_true]
      rw [happ]
      refine ih hvs' _ _ _ _ ?_
      refine afillIds_push (c1 := (c.alloc addr).2) h hv [(c.alloc addr).1] (FreshIds.single_next addr c.ctr) rfl ?_ ?_
      · simp [pushElem, emptyData]
      · simp [pushElem, emptyData, List.flatMap_append]
    · simp only [hfull, if_false]
      rw [happ]
      refine ih hvs' _ _ _ _ ?_
      refine afillIds_push (c1 := c) h hv [] (FreshIds.nil (Nat.le_refl _)) rfl ?_ ?_
      · simp [pushElem]
      · simp [pushElem, List.flatMap_append]

/-! ### the whole build -/

theorem alvlIds_asTrees (L : List DataSlab) : alvlIds 0 (asTrees L) = L.map (·.hdr.id) :=
  asTrees_slabIds L

/-- `NewArrayFromBatchData` and identifiers/references: all tree identifiers and all references of
    the result are pairwise different identifiers of the owner allocated during the call; each
    stored element represents the input value at its position. -/
theorem arr_fromBatchData_refs (hT : legalThreshold T = true) (addr ty : Nat) (vs : List Elem)
    (hvs : ∀ v ∈ vs, ValueOk v) (c : Ctx) (a : Arr) (c' : Ctx)
    (h : Arr.fromBatchData T addr ty vs c = .ok (a, c')) :
    FreshIds addr c.ctr c'.ctr (slabIds a.d a.root ++ a.refIds) ∧
    (CreatedTableOk addr c → CreatedTableOk addr c' ∧ List.Forall₂ (ReprA T c'.created) vs a.toList) := by
  have hnw : Arr.fromBatchData T addr ty vs c = ABatch.newWith T addr ty (toStorable T addr) vs c := rfl
  rw [hnw, newWith_eq] at h
  obtain ⟨a2, c2, h2, hto, _⟩ := levels_content T addr ty hT _ 0
    (asTrees (fillLoop T addr (toStorable T addr) vs (emptyData (c.alloc addr).1) [] (c.alloc addr).2).1)
    (fillLoop T addr (toStorable T addr) vs (emptyData (c.alloc addr).1) [] (c.alloc addr).2).2
    (asTrees_ne_nil (fillLoop_ne_nil T addr _ vs _ _ _)) (Nat.le_refl _)
  rw [asTrees_length] at h2
  rw [h2] at h
  simp only [Except.ok.injEq, Prod.mk.injEq] at h
  obtain ⟨e1, e2⟩ := h
  subst e1 e2
  rw [asTrees_flatten] at hto
  have hinit : AFillIds T addr c.ctr (CreatedTableOk addr c) ([] ++ [emptyData (c.alloc addr).1]) [] (c.alloc addr).2 := by
    refine ⟨?_, ?_, ?_⟩
    · simpa [emptyData, refIdsOf] using FreshIds.single_next addr c.ctr
    · intro hP p hp ha
      have := hP p hp ha
      show p.1.idx ≤ c.ctr + 1
      omega
    · intro _; simp [emptyData]
  have hI := afill_ids (T := T) addr c.ctr (CreatedTableOk addr c) vs hvs (emptyData (c.alloc addr).1) []
    (c.alloc addr).2 [] hinit
  simp only [List.nil_append] at hI
  have hF : FreshIds addr c.ctr
      (fillLoop T addr (toStorable T addr) vs (emptyData (c.alloc addr).1) [] (c.alloc addr).2).2.ctr
      (alvlIds 0 (asTrees (fillLoop T addr (toStorable T addr) vs (emptyData (c.alloc addr).1) [] (c.alloc addr).2).1) ++
        refIdsOf a2.toList) := by
    rw [alvlIds_asTrees, hto]; exact hI.ids
  have h2' := h2
  rw [← asTrees_length] at h2'
  obtain ⟨b1, b2, b3⟩ := alevels_ids T addr ty c.ctr (refIdsOf a2.toList) _ 0 _ _ a2 c2 h2' hF
  refine ⟨b1, ?_⟩
  intro hP
  refine ⟨?_, ?_⟩
  · intro p hp ha
    rw [b3] at hp
    have := hI.created hP p hp ha
    omega
  · rw [hto, b3]
    exact hI.repr hP

end Atree
