import AtreeModel.Array.Batch
import AtreeProofs.ArrayInv
import AtreeProofs.Array.Arith
import AtreeProofs.Array.TreeDefs
/-
  C17, copy of arrays: `CanCopyNonRefSimple` / `CopyNonRefSimple`.
-/
namespace Atree
open Gen ATree

/-- a plain (non-reference) storable -/
def Elem.isPlain (e : Elem) : Prop := ∃ n, e.pay = .val n

theorem Elem.canCopy_iff (e : Elem) : e.canCopy = true ↔ e.isPlain := by
  unfold Elem.canCopy Elem.isPlain
  cases e.pay <;> simp

theorem Elem.copy_ok_iff (e : Elem) : (∃ e', e.copyNonRefSimple = .ok e') ↔ e.isPlain := by
  unfold Elem.copyNonRefSimple Elem.isPlain
  cases e.pay <;> simp

theorem Elem.copy_eq {e e' : Elem} (h : e.copyNonRefSimple = .ok e') : e' = e := by
  unfold Elem.copyNonRefSimple at h
  cases hp : e.pay <;> rw [hp] at h <;> simp at h
  exact h.symm

/-- `mapM` of the element copy: succeeds iff every element is plain, and returns the same list -/
theorem mapM_copy_ok (es : List Elem) (h : ∀ e ∈ es, e.isPlain) :
    es.mapM Elem.copyNonRefSimple = .ok es := by
  induction es with
  | nil => rfl
  | cons e es ih =>
    obtain ⟨n, hn⟩ := h e (by simp)
    have ih := ih (fun x hx => h x (by simp [hx]))
    simp only [List.mapM_cons, ih, Elem.copyNonRefSimple, hn, bind, Except.bind, pure, Except.pure]

theorem mapM_copy_eq (es es' : List Elem) (h : es.mapM Elem.copyNonRefSimple = .ok es') :
    es' = es ∧ ∀ e ∈ es, e.isPlain := by
  induction es generalizing es' with
  | nil => simp [pure, Except.pure] at h; simp [h]
  | cons e es ih =>
    simp only [List.mapM_cons, bind, Except.bind] at h
    cases h1 : e.copyNonRefSimple with
    | error x => rw [h1] at h; simp at h
    | ok e1 =>
      rw [h1] at h
      simp only at h
      cases h2 : es.mapM Elem.copyNonRefSimple with
      | error x => rw [h2] at h; simp at h
      | ok es1 =>
        rw [h2] at h
        simp only [pure, Except.pure, Except.ok.injEq] at h
        obtain ⟨a, b⟩ := ih es1 h2
        have := Elem.copy_eq h1
        subst h a this
        refine ⟨rfl, ?_⟩
        intro x hx
        simp only [List.mem_cons] at hx
        rcases hx with rfl | hx
        · exact (Elem.copy_ok_iff _).1 ⟨_, h1⟩
        · exact b x hx

/-- the root of a single-slab array -/
def Arr.singleData (a : Arr) : Option DataSlab :=
  match a with
  | ⟨0, (s : DataSlab), _⟩ => some s
  | ⟨_ + 1, _, _⟩ => none

theorem DataSlab.canCopy_iff (s : DataSlab) :
    s.canCopyWithoutSlabID = true ↔ s.next = SlabID.undef ∧ ∀ e ∈ s.elems, e.isPlain := by
  unfold DataSlab.canCopyWithoutSlabID
  by_cases h : s.next = SlabID.undef
  · simp [h, List.all_eq_true, Elem.canCopy_iff]
  · simp [h]

theorem Arr.singleData_zero (s : DataSlab) (ty : Nat) : Arr.singleData ⟨0, ofData s, ty⟩ = some s := rfl
theorem Arr.canCopy_zero (s : DataSlab) (ty : Nat) :
    Arr.canCopyNonRefSimple ⟨0, ofData s, ty⟩ = s.canCopyWithoutSlabID := rfl
theorem Arr.copy_zero (s : DataSlab) (ty addr : Nat) (c : Ctx) :
    Arr.copyNonRefSimple ⟨0, ofData s, ty⟩ addr c =
      (match s.copyWithNewSlabID (c.alloc addr).1 with
       | .error e => .error (e, (c.alloc addr).2)
       | .ok s' => .ok (⟨0, ofData s', ty⟩, (c.alloc addr).2.emit (.store (c.alloc addr).1))) := rfl

/-- C17: the copy of an array is offered exactly when the array is a single data slab without a
    right sibling whose elements are all plain values. -/
theorem Arr.canCopy_iff (a : Arr) :
    a.canCopyNonRefSimple = true ↔
      ∃ s, a.singleData = some s ∧ s.next = SlabID.undef ∧ ∀ e ∈ s.elems, e.isPlain := by
  obtain ⟨d, root, ty⟩ := a
  cases d with
  | zero =>
    refine forall_ofData ?_ root; intro s
    rw [Arr.canCopy_zero, Arr.singleData_zero, DataSlab.canCopy_iff]
    constructor
    · intro h; exact ⟨s, rfl, h⟩
    · rintro ⟨s', hs, h⟩
      have : s = s' := by simpa using hs
      subst this; exact h
  | succ d =>
    constructor
    · intro h; exact absurd h (by simp [Arr.canCopyNonRefSimple])
    · rintro ⟨s, hs, _⟩; simp [Arr.singleData] at hs

/-- the copy of data slab `s` with the fresh ID `id` -/
def DataSlab.copyOf (s : DataSlab) (id : SlabID) : DataSlab :=
  { hdr := { id := id, count := s.hdr.count,
             size := if s.inlined then
                       s.hdr.size - inlinedArrayDataSlabPrefixSize + arrayRootDataSlabPrefixSize
                     else s.hdr.size },
    next := SlabID.undef, elems := s.elems, root := s.root, inlined := false }

theorem DataSlab.copy_eq (s s' : DataSlab) (id : SlabID) (h : s.copyWithNewSlabID id = .ok s') :
    s' = s.copyOf id ∧ s.next = SlabID.undef ∧ ∀ e ∈ s.elems, e.isPlain := by
  unfold DataSlab.copyWithNewSlabID at h
  by_cases hn : s.next = SlabID.undef
  · simp only [hn, ne_eq, not_true_eq_false, if_false] at h
    cases hm : s.elems.mapM Elem.copyNonRefSimple with
    | error x => rw [hm] at h; simp at h
    | ok es =>
      rw [hm] at h
      obtain ⟨he, hp⟩ := mapM_copy_eq _ _ hm
      subst he
      simp only [Except.ok.injEq] at h
      exact ⟨h.symm, hn, hp⟩
  · simp [hn] at h

theorem DataSlab.copy_ok (s : DataSlab) (id : SlabID) (hn : s.next = SlabID.undef)
    (hp : ∀ e ∈ s.elems, e.isPlain) : s.copyWithNewSlabID id = .ok (s.copyOf id) := by
  unfold DataSlab.copyWithNewSlabID
  simp only [hn, ne_eq, not_true_eq_false, if_false, mapM_copy_ok _ hp]
  rfl

/-- what a successful copy looks like -/
theorem Arr.copy_ok_shape (a : Arr) (addr : Nat) (c : Ctx) (a' : Arr) (c' : Ctx)
    (h : a.copyNonRefSimple addr c = .ok (a', c')) :
    ∃ s, a.singleData = some s ∧ s.next = SlabID.undef ∧ (∀ e ∈ s.elems, e.isPlain) ∧
      a' = ⟨0, ofData (s.copyOf ⟨addr, c.ctr + 1⟩), a.ty⟩ ∧
      c'.ctr = c.ctr + 1 ∧
      c'.eff = c.eff ++ [.alloc addr ⟨addr, c.ctr + 1⟩, .store ⟨addr, c.ctr + 1⟩] ∧
      c'.created = c.created := by
  obtain ⟨d, root, ty⟩ := a
  cases d with
  | succ d => simp [Arr.copyNonRefSimple] at h
  | zero =>
    revert h
    refine forall_ofData ?_ root; intro s h
    rw [Arr.copy_zero] at h
    cases hc : s.copyWithNewSlabID (c.alloc addr).1 with
    | error x => rw [hc] at h; simp at h
    | ok s1 =>
      rw [hc] at h
      obtain ⟨h1, h2, h3⟩ := DataSlab.copy_eq _ _ _ hc
      simp only [Except.ok.injEq, Prod.mk.injEq] at h
      obtain ⟨e1, e2⟩ := h
      refine ⟨s, rfl, h2, h3, ?_, ?_, ?_, ?_⟩
      · rw [← e1, h1]; rfl
      · rw [← e2]; rfl
      · rw [← e2]; simp [Ctx.emit, Ctx.alloc]
      · rw [← e2]; rfl

/-- C17: an offered copy succeeds — and a copy succeeds only when it is offered. -/
theorem Arr.copy_ok_iff (a : Arr) (addr : Nat) (c : Ctx) :
    (∃ a' c', a.copyNonRefSimple addr c = .ok (a', c')) ↔ a.canCopyNonRefSimple = true := by
  constructor
  · rintro ⟨a', c', h⟩
    obtain ⟨s, h1, h2, h3, _⟩ := Arr.copy_ok_shape a addr c a' c' h
    exact (Arr.canCopy_iff a).2 ⟨s, h1, h2, h3⟩
  · intro h
    obtain ⟨s, h1, h2, h3⟩ := (Arr.canCopy_iff a).1 h
    obtain ⟨d, root, ty⟩ := a
    cases d with
    | succ d => simp [Arr.singleData] at h1
    | zero =>
      revert h h1
      refine forall_ofData ?_ root; intro s0 _ h1
      have : s0 = s := by simpa [Arr.singleData_zero] using h1
      subst this
      rw [Arr.copy_zero, DataSlab.copy_ok _ _ h2 h3]
      exact ⟨_, _, rfl⟩

/-- C17: the copy has the content, type and count of the source, is standalone, and its only slab
    is the one allocated during the call. -/
theorem Arr.copy_content (a : Arr) (addr : Nat) (c : Ctx) (a' : Arr) (c' : Ctx)
    (h : a.copyNonRefSimple addr c = .ok (a', c')) :
    a'.toList = a.toList ∧ a'.ty = a.ty ∧ a'.count = a.count ∧ a'.isInlined = false ∧
      slabIds a'.d a'.root = [⟨addr, c.ctr + 1⟩] ∧ Arr.leaves a'.d a'.root ≠ [] := by
  obtain ⟨s, h1, _, _, h4, _⟩ := Arr.copy_ok_shape a addr c a' c' h
  obtain ⟨d, root, ty⟩ := a
  cases d with
  | succ d => simp [Arr.singleData] at h1
  | zero =>
    revert h1 h4
    refine forall_ofData ?_ root; intro s0 h1 h4
    have : s0 = s := by simpa [Arr.singleData_zero] using h1
    subst this h4
    exact ⟨rfl, rfl, rfl, rfl, rfl, by simp⟩

/-- C17: the size of the copy is re-based to the root prefix — also when the source is inlined. -/
theorem Arr.copy_size_rebased (a : Arr) (addr : Nat) (c : Ctx) (a' : Arr) (c' : Ctx)
    (h : a.copyNonRefSimple addr c = .ok (a', c')) (s : DataSlab) (hs : a.singleData = some s)
    (hsz : s.hdr.size = s.prefixSize + sumSizes s.elems) (hroot : s.root = true) :
    a'.rootHdr.size = arrayRootDataSlabPrefixSize + sumSizes a'.toList := by
  obtain ⟨s1, h1, _, _, h4, _⟩ := Arr.copy_ok_shape a addr c a' c' h
  rw [hs] at h1
  have : s = s1 := by simpa using h1
  subst this h4
  show (DataSlab.copyOf s _).hdr.size = _ + sumSizes (DataSlab.copyOf s _).elems
  simp only [DataSlab.copyOf]
  rw [hsz]
  unfold DataSlab.prefixSize
  cases hi : s.inlined
  · simp [hroot]
  · simp only [if_true]
    simp only [inlinedArrayDataSlabPrefixSize, arrayRootDataSlabPrefixSize]
    omega

/-- C17 (`copy_inv`): the copy of a valid root data slab — standalone or inlined — is a valid
    standalone array, relative to the allocation counter after the call. -/
theorem Arr.copy_inv (T : Nat) (a : Arr) (addr : Nat) (c : Ctx) (a' : Arr) (c' : Ctx)
    (h : a.copyNonRefSimple addr c = .ok (a', c')) (s : DataSlab) (hs : a.singleData = some s)
    (hinv : DataInv T true s) (hcnt : s.hdr.count < maxArrayElementCount + 1) :
    ArrInv T a' c'.ctr := by
  obtain ⟨s1, h1, _, _, h4, h5, _⟩ := Arr.copy_ok_shape a addr c a' c' h
  rw [hs] at h1
  have : s = s1 := by simpa using h1
  subst this h4
  have hsz := hinv.size_eq
  refine ⟨?_, ?_, ?_, rfl, hcnt⟩
  · show DataInv T true (s.copyOf _)
    refine ⟨hinv.count_eq, ?_, hinv.elems_ok, hinv.root_eq, by simp [DataSlab.copyOf], ?_, by simp⟩
    · simp only [DataSlab.copyOf, DataSlab.prefixSize, Bool.false_eq_true, if_false, hinv.root_eq, if_true]
      rw [hsz]
      unfold DataSlab.prefixSize
      cases hi : s.inlined
      · simp [hinv.root_eq]
      · simp only [if_true, inlinedArrayDataSlabPrefixSize, arrayRootDataSlabPrefixSize]; omega
    · have := hinv.le_max
      simp only [DataSlab.copyOf]
      cases hi : s.inlined
      · simpa using this
      · simp only [if_true]
        rw [hsz] at this ⊢
        unfold DataSlab.prefixSize at this ⊢
        simp only [hi, if_true, inlinedArrayDataSlabPrefixSize, arrayRootDataSlabPrefixSize] at this ⊢
        omega
  · show LeafChain [s.copyOf _]
    simp [LeafChain, DataSlab.copyOf]
  · show IdsOk _ _ [(s.copyOf _).hdr.id]
    simp only [DataSlab.copyOf, IdsOk, List.nodup_cons, List.not_mem_nil, not_false_eq_true,
      List.nodup_nil, and_self, List.mem_singleton, forall_eq, true_and]
    refine ⟨rfl, by simp, by omega⟩

/-- C17 (`result_ids_fresh`, copy): source and copy share no slab — every slab ID of the copy was
    allocated during the call, hence differs from every ID the source uses, provided the source's
    IDs at the target address were allocated before the call. -/
theorem Arr.copy_ids_fresh (a : Arr) (addr : Nat) (c : Ctx) (a' : Arr) (c' : Ctx)
    (h : a.copyNonRefSimple addr c = .ok (a', c'))
    (hold : ∀ id ∈ slabIds a.d a.root, id.addr = addr → id.idx ≤ c.ctr) :
    (∀ id ∈ slabIds a'.d a'.root, id.addr = addr ∧ c.ctr < id.idx ∧ id.idx ≤ c'.ctr) ∧
    (∀ id ∈ slabIds a'.d a'.root, id ∉ slabIds a.d a.root) := by
  obtain ⟨_, _, _, _, hids, _⟩ := Arr.copy_content a addr c a' c' h
  obtain ⟨_, _, _, _, _, hc, _⟩ := Arr.copy_ok_shape a addr c a' c' h
  rw [hids]
  constructor
  · intro id hid
    simp only [List.mem_singleton] at hid
    subst hid
    exact ⟨rfl, by simp, by simp [hc]⟩
  · intro id hid hmem
    simp only [List.mem_singleton] at hid
    subst hid
    have := hold _ hmem rfl
    simp only at this
    omega

end Atree
