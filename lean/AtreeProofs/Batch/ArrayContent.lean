import AtreeModel.Array.Batch
import AtreeProofs.Array.TreeDefs
import AtreeProofs.Array.Arith
/-
  C17, bulk build of arrays — facts that need no invariant: the element sequence is preserved by
  every step (`fillLoop`, `rebalanceTail`, `nextLevelArraySlabs`, `finishRoot`), the number of
  slabs shrinks from level to level, and hence the level loop terminates within its bound.
-/
namespace Atree
open Gen ATree MetaSlab ABatch

/-! ### the element loop -/

/-- contexts seen by the successive calls of `Value.Storable` in the element loop -/
def fillCtxs (T addr : Nat) (toSt : Elem → Ctx → Elem × Ctx) : List Elem → DataSlab → Ctx → List Ctx
  | [], _, _ => []
  | v :: vs, cur, c =>
    if cur.hdr.size ≥ T then
      (c.alloc addr).2 :: fillCtxs T addr toSt vs (pushElem toSt v (emptyData (c.alloc addr).1) (c.alloc addr).2).1
        (pushElem toSt v (emptyData (c.alloc addr).1) (c.alloc addr).2).2
    else c :: fillCtxs T addr toSt vs (pushElem toSt v cur c).1 (pushElem toSt v cur c).2

theorem fillCtxs_length (T addr : Nat) (toSt : Elem → Ctx → Elem × Ctx) (vs : List Elem) :
    ∀ (cur : DataSlab) (c : Ctx), (fillCtxs T addr toSt vs cur c).length = vs.length := by
  induction vs with
  | nil => intro cur c; rfl
  | cons v vs ih =>
    intro cur c
    unfold fillCtxs
    split <;> simp [ih]

/-- the elements of the data slabs built by the element loop, in order: what was there, then the
    stored form of every input value -/
theorem fillLoop_elems (T addr : Nat) (toSt : Elem → Ctx → Elem × Ctx) (vs : List Elem) :
    ∀ (cur : DataSlab) (done : List DataSlab) (c : Ctx),
      (fillLoop T addr toSt vs cur done c).1.flatMap (·.elems) =
        done.flatMap (·.elems) ++ cur.elems ++
          List.zipWith (fun v c => (toSt v c).1) vs (fillCtxs T addr toSt vs cur c) := by
  induction vs with
  | nil => intro cur done c; simp [fillLoop, fillCtxs]
  | cons v vs ih =>
    intro cur done c
    unfold fillLoop fillCtxs
    by_cases h : cur.hdr.size ≥ T
    · simp only [h, if_true]
      rw [ih]
      simp [pushElem, emptyData, List.flatMap_append]
    · simp only [h, if_false]
      rw [ih]
      simp [pushElem, List.flatMap_append]

theorem fillLoop_ne_nil (T addr : Nat) (toSt : Elem → Ctx → Elem × Ctx) (vs : List Elem) :
    ∀ (cur : DataSlab) (done : List DataSlab) (c : Ctx), (fillLoop T addr toSt vs cur done c).1 ≠ [] := by
  induction vs with
  | nil => intro cur done c; simp [fillLoop]
  | cons v vs ih =>
    intro cur done c
    unfold fillLoop
    split <;> exact ih _ _ _

/-! ### one level -/

theorem flatten_merge : ∀ (d : Nat) (l r : ATree d),
    flatten d (ATree.merge d l r) = flatten d l ++ flatten d r
  | 0, l, r => rfl
  | d + 1, l, r => by
    refine forall_ofMeta ?_ l; intro l
    refine forall_ofMeta ?_ r; intro r
    show (l.children ++ r.children).flatMap (flatten d) = _
    simp [List.flatMap_append]

theorem flatten_lend (T : Nat) : ∀ (d : Nat) (l r : ATree d),
    flatten d (ATree.lendToRight T d l r).1 ++ flatten d (ATree.lendToRight T d l r).2 =
      flatten d l ++ flatten d r
  | 0, l, r => by
    refine forall_ofData ?_ l; intro l
    refine forall_ofData ?_ r; intro r
    show (DataSlab.lendToRight T l r).1.elems ++ (DataSlab.lendToRight T l r).2.elems = l.elems ++ r.elems
    unfold DataSlab.lendToRight
    simp only
    rw [← List.append_assoc, List.take_append_drop]
  | d + 1, l, r => by
    refine forall_ofMeta ?_ l; intro l
    refine forall_ofMeta ?_ r; intro r
    show (MetaSlab.lendToRight l r).1.children.flatMap (flatten d) ++
      (MetaSlab.lendToRight l r).2.children.flatMap (flatten d) = l.children.flatMap (flatten d) ++ r.children.flatMap (flatten d)
    unfold MetaSlab.lendToRight
    simp only
    rw [← List.flatMap_append, ← List.append_assoc, List.take_append_drop, List.flatMap_append]

theorem rebalanceTail_flatten (T d : Nat) : ∀ (X : List (ATree d)),
    (rebalanceTail T d X).flatMap (flatten d) = X.flatMap (flatten d)
  | [] => rfl
  | [_] => rfl
  | [l, r] => by
    unfold rebalanceTail
    split
    · split
      · simp only [List.flatMap_cons, List.flatMap_nil, List.append_nil]
        exact flatten_lend T d l r
      · simp [flatten_merge]
    · rfl
  | x :: y :: z :: rest => by
    unfold rebalanceTail
    simp only [List.flatMap_cons]
    have := rebalanceTail_flatten T d (y :: z :: rest)
    simp only [List.flatMap_cons] at this
    rw [this]

theorem rebalanceTail_length (T d : Nat) : ∀ (X : List (ATree d)),
    (rebalanceTail T d X).length ≤ X.length ∧ (X ≠ [] → rebalanceTail T d X ≠ [])
  | [] => by simp [rebalanceTail]
  | [_] => by simp [rebalanceTail]
  | [l, r] => by
    unfold rebalanceTail
    split
    · split <;> simp
    · simp
  | x :: y :: z :: rest => by
    unfold rebalanceTail
    have := rebalanceTail_length T d (y :: z :: rest)
    simp only [List.length_cons] at this ⊢
    exact ⟨by omega, by simp⟩

/-- children of the index slabs produced by the loop of `nextLevelArraySlabs` -/
theorem nextLevelLoop_children (maxN addr d : Nat) (ss : List (ATree d)) :
    ∀ (cur : MetaSlab (ATree d)) (done : List (MetaSlab (ATree d))) (c : Ctx),
      (nextLevelLoop maxN addr d ss cur done c).1.flatMap (·.children) =
        done.flatMap (·.children) ++ cur.children ++ ss := by
  induction ss with
  | nil => intro cur done c; simp [nextLevelLoop]
  | cons s ss ih =>
    intro cur done c
    unfold nextLevelLoop
    split
    · rw [ih]; simp [addChild, emptyMeta, List.flatMap_append]
    · rw [ih]; simp [addChild]

theorem nextLevelLoop_ctr_le (maxN addr d : Nat) (ss : List (ATree d)) :
    ∀ (cur : MetaSlab (ATree d)) (done : List (MetaSlab (ATree d))) (c : Ctx),
      c.ctr ≤ (nextLevelLoop maxN addr d ss cur done c).2.ctr := by
  induction ss with
  | nil => intro cur done c; exact Nat.le_refl _
  | cons s ss ih =>
    intro cur done c
    unfold nextLevelLoop
    split
    · exact Nat.le_trans (by simp [Ctx.alloc]) (ih _ _ _)
    · exact ih _ _ _

/-- number of index slabs: full ones have `maxN` children, the one being filled at least one -/
theorem nextLevelLoop_length (maxN addr d : Nat) (ss : List (ATree d)) :
    ∀ (cur : MetaSlab (ATree d)) (done : List (MetaSlab (ATree d))) (c : Ctx),
      1 ≤ cur.childHdrs.length → cur.childHdrs.length ≤ maxN →
      ((nextLevelLoop maxN addr d ss cur done c).1.length - 1) * maxN + 1 ≤
        done.length * maxN + cur.childHdrs.length + ss.length ∧
      1 ≤ (nextLevelLoop maxN addr d ss cur done c).1.length := by
  induction ss with
  | nil =>
    intro cur done c h1 hle
    simp only [nextLevelLoop, List.length_append, List.length_cons, List.length_nil, Nat.add_sub_cancel]
    omega
  | cons s ss ih =>
    intro cur done c h1 hle
    unfold nextLevelLoop
    by_cases h : cur.childHdrs.length = maxN
    · simp only [h, if_true]
      obtain ⟨a, b⟩ := ih (addChild d (emptyMeta d (c.alloc addr).1) s) (done ++ [cur]) (c.alloc addr).2
        (by simp [addChild, emptyMeta]) (by simp [addChild, emptyMeta]; omega)
      refine ⟨?_, b⟩
      have e1 : (addChild d (emptyMeta d (c.alloc addr).1) s).childHdrs.length = 1 := by
        simp [addChild, emptyMeta]
      have e2 : (done ++ [cur]).length * maxN = done.length * maxN + maxN := by
        simp [Nat.add_mul]
      rw [e1, e2] at a
      simp only [List.length_cons]
      omega
    · simp only [h, if_false]
      obtain ⟨a, b⟩ := ih (addChild d cur s) done c (by simp [addChild]) (by simp [addChild]; omega)
      refine ⟨?_, b⟩
      have e1 : (addChild d cur s).childHdrs.length = cur.childHdrs.length + 1 := by simp [addChild]
      rw [e1] at a
      simp only [List.length_cons]
      omega

/-- a list of index slabs seen as a level of trees of depth `d+1` -/
def asMetas {d : Nat} (R : List (MetaSlab (ATree d))) : List (ATree (d + 1)) := R

theorem asMetas_nil {d : Nat} : asMetas ([] : List (MetaSlab (ATree d))) = [] := rfl
theorem asMetas_cons {d : Nat} (m : MetaSlab (ATree d)) (R : List (MetaSlab (ATree d))) :
    asMetas (m :: R) = ofMeta m :: asMetas R := rfl
theorem asMetas_append {d : Nat} (A B : List (MetaSlab (ATree d))) :
    asMetas (A ++ B) = asMetas A ++ asMetas B := rfl
theorem asMetas_length {d : Nat} (R : List (MetaSlab (ATree d))) : (asMetas R).length = R.length := rfl

/-- the index slabs built by `nextLevelArraySlabs` -/
def nextMetas (T addr d : Nat) (X : List (ATree d)) (c : Ctx) : List (MetaSlab (ATree d)) :=
  (nextLevelLoop ((maxThr T - arrayMetaDataSlabPrefixSize) / arraySlabHeaderSize) addr d X
    (emptyMeta d (c.alloc addr).1) [] (c.alloc addr).2).1

theorem nextLevel_eq (T addr d : Nat) (X : List (ATree d)) (c : Ctx) :
    (nextLevelArraySlabs T addr d X c).1 = asMetas (nextMetas T addr d X c) := rfl

/-- the next level has fewer slabs than the level it indexes (index slabs hold at least two
    children) -/
theorem nextMetas_length_lt (T addr d : Nat) (hN : 2 ≤ (maxThr T - arrayMetaDataSlabPrefixSize) / arraySlabHeaderSize)
    (X : List (ATree d)) (c : Ctx) (hX : 2 ≤ X.length) :
    (nextMetas T addr d X c).length < X.length ∧ 1 ≤ (nextMetas T addr d X c).length := by
  match X, hX with
  | s :: ss, hX =>
    unfold nextMetas
    generalize (maxThr T - arrayMetaDataSlabPrefixSize) / arraySlabHeaderSize = maxN at hN
    unfold nextLevelLoop
    have hne : ¬ (emptyMeta d (c.alloc addr).1).childHdrs.length = maxN := by
      simp [emptyMeta]; omega
    simp only [hne, if_false]
    obtain ⟨a, b⟩ := nextLevelLoop_length maxN addr d ss (addChild d (emptyMeta d (c.alloc addr).1) s) []
      (c.alloc addr).2 (by simp [addChild, emptyMeta]) (by simp [addChild, emptyMeta]; omega)
    refine ⟨?_, b⟩
    have e1 : (addChild d (emptyMeta d (c.alloc addr).1) s).childHdrs.length = 1 := by
      simp [addChild, emptyMeta]
    rw [e1] at a
    simp only [List.length_nil, Nat.zero_mul, Nat.zero_add, List.length_cons] at a hX ⊢
    generalize (nextLevelLoop maxN addr d ss (addChild d (emptyMeta d (c.alloc addr).1) s) []
        (c.alloc addr).2).1.length = n at a b ⊢
    obtain ⟨k, rfl⟩ : ∃ k, n = k + 1 := ⟨n - 1, by omega⟩
    simp only [Nat.add_sub_cancel] at a
    -- k * maxN + 1 ≤ 1 + |ss| with maxN ≥ 2
    have : 2 * k ≤ k * maxN := by rw [Nat.mul_comm]; exact Nat.mul_le_mul_left _ hN
    omega

theorem nextLevel_length_lt (T addr d : Nat) (hN : 2 ≤ (maxThr T - arrayMetaDataSlabPrefixSize) / arraySlabHeaderSize)
    (X : List (ATree d)) (c : Ctx) (hX : 2 ≤ X.length) :
    (nextLevelArraySlabs T addr d X c).1.length < X.length ∧
      1 ≤ (nextLevelArraySlabs T addr d X c).1.length := by
  rw [nextLevel_eq, asMetas_length]
  exact nextMetas_length_lt T addr d hN X c hX

/-- the elements below a list of index slabs are the elements below their children -/
theorem flatten_metas (d : Nat) (R : List (MetaSlab (ATree d))) :
    (asMetas R).flatMap (flatten (d + 1)) = (R.flatMap (·.children)).flatMap (flatten d) := by
  induction R with
  | nil => rfl
  | cons m R ih =>
    simp only [asMetas_cons, List.flatMap_cons, List.flatMap_append, ih, flatten_succ]

theorem nextMetas_children (T addr d : Nat) (X : List (ATree d)) (c : Ctx) :
    (nextMetas T addr d X c).flatMap (·.children) = X := by
  have h := nextLevelLoop_children ((maxThr T - arrayMetaDataSlabPrefixSize) / arraySlabHeaderSize) addr d X
    (emptyMeta d (c.alloc addr).1) [] (c.alloc addr).2
  simpa [emptyMeta, nextMetas] using h

theorem nextLevel_flatten (T addr d : Nat) (X : List (ATree d)) (c : Ctx) :
    (nextLevelArraySlabs T addr d X c).1.flatMap (flatten (d + 1)) = X.flatMap (flatten d) := by
  rw [nextLevel_eq, flatten_metas, nextMetas_children]

/-! ### the level loop -/

theorem finishRoot_toList (ty d : Nat) (root : ATree d) (c : Ctx) :
    (finishRoot ty d root c).1.toList = flatten d root ∧ (finishRoot ty d root c).1.ty = ty := by
  cases d with
  | zero => exact ⟨rfl, rfl⟩
  | succ d => exact ⟨rfl, rfl⟩

theorem legal_maxN {T : Nat} (hT : legalThreshold T = true) :
    2 ≤ (maxThr T - arrayMetaDataSlabPrefixSize) / arraySlabHeaderSize := by
  have F := thrFacts hT
  have := F.lo
  simp only [maxThr, arrayMetaDataSlabPrefixSize, arraySlabHeaderSize]
  omega

/-- what `levels` does with the rebalanced level -/
def afterRebalance (T addr ty fuel d : Nat) (R : List (ATree d)) (c : Ctx) : BRes (Arr × Ctx) :=
  match R with
  | [] => .error (.arr .goPanic, c)
  | [root] => .ok (finishRoot ty d root c)
  | slabs' =>
    levels T addr ty fuel (d + 1) (nextLevelArraySlabs T addr d slabs' (storeAll d slabs' c)).1
      (nextLevelArraySlabs T addr d slabs' (storeAll d slabs' c)).2

theorem levels_single (T addr ty fuel d : Nat) (root : ATree d) (c : Ctx) :
    levels T addr ty (fuel + 1) d [root] c = .ok (finishRoot ty d root c) := rfl
theorem levels_many (T addr ty fuel d : Nat) (x y : ATree d) (rest : List (ATree d)) (c : Ctx) :
    levels T addr ty (fuel + 1) d (x :: y :: rest) c =
      afterRebalance T addr ty fuel d (rebalanceTail T d (x :: y :: rest)) c := rfl
theorem afterRebalance_single (T addr ty fuel d : Nat) (root : ATree d) (c : Ctx) :
    afterRebalance T addr ty fuel d [root] c = .ok (finishRoot ty d root c) := rfl
theorem afterRebalance_many (T addr ty fuel d : Nat) (x y : ATree d) (rest : List (ATree d)) (c : Ctx) :
    afterRebalance T addr ty fuel d (x :: y :: rest) c =
      levels T addr ty fuel (d + 1)
        (nextLevelArraySlabs T addr d (x :: y :: rest) (storeAll d (x :: y :: rest) c)).1
        (nextLevelArraySlabs T addr d (x :: y :: rest) (storeAll d (x :: y :: rest) c)).2 := rfl

/-- The level loop terminates within its bound and keeps the element sequence. -/
theorem levels_content (T addr ty : Nat) (hT : legalThreshold T = true) :
    ∀ (fuel d : Nat) (X : List (ATree d)) (c : Ctx), X ≠ [] → X.length ≤ fuel →
      ∃ a c', levels T addr ty fuel d X c = .ok (a, c') ∧ a.toList = X.flatMap (flatten d) ∧ a.ty = ty := by
  intro fuel
  induction fuel with
  | zero => intro d X c hne hlen; cases X <;> simp at hne hlen
  | succ fuel ih =>
    intro d X c hne hlen
    match X, hne with
    | [root], _ =>
      refine ⟨(finishRoot ty d root c).1, (finishRoot ty d root c).2, levels_single .., ?_,
        (finishRoot_toList ty d root c).2⟩
      rw [(finishRoot_toList ty d root c).1]; simp
    | x :: y :: rest, _ =>
      have hfl := rebalanceTail_flatten T d (x :: y :: rest)
      obtain ⟨hl1, hl2⟩ := rebalanceTail_length T d (x :: y :: rest)
      have hl2 := hl2 (by simp)
      rw [levels_many]
      match hR : rebalanceTail T d (x :: y :: rest), hl2 with
      | [root], _ =>
        refine ⟨(finishRoot ty d root c).1, (finishRoot ty d root c).2, afterRebalance_single .., ?_,
          (finishRoot_toList ty d root c).2⟩
        rw [(finishRoot_toList ty d root c).1, ← hfl, hR]; simp
      | x' :: y' :: rest', _ =>
        rw [hR] at hl1 hfl
        rw [afterRebalance_many]
        obtain ⟨h1, h2⟩ := nextLevel_length_lt T addr d (legal_maxN hT) (x' :: y' :: rest')
          (storeAll d (x' :: y' :: rest') c) (by simp)
        obtain ⟨a, c', heq, hto, hty⟩ := ih (d + 1)
          (nextLevelArraySlabs T addr d (x' :: y' :: rest') (storeAll d (x' :: y' :: rest') c)).1
          (nextLevelArraySlabs T addr d (x' :: y' :: rest') (storeAll d (x' :: y' :: rest') c)).2
          (by intro h; rw [h] at h2; simp at h2)
          (by simp only [List.length_cons] at hl1 hlen h1 ⊢; omega)
        refine ⟨a, c', heq, ?_, hty⟩
        rw [hto, nextLevel_flatten, hfl]

/-- a list of data slabs seen as a level of trees of depth 0 -/
def asTrees (L : List DataSlab) : List (ATree 0) := L

theorem asTrees_nil : asTrees [] = [] := rfl
theorem asTrees_cons (s : DataSlab) (L : List DataSlab) : asTrees (s :: L) = ofData s :: asTrees L := rfl
theorem asTrees_append (A B : List DataSlab) : asTrees (A ++ B) = asTrees A ++ asTrees B := rfl
theorem asTrees_length (L : List DataSlab) : (asTrees L).length = L.length := rfl
theorem asTrees_ne_nil {L : List DataSlab} (h : L ≠ []) : asTrees L ≠ [] := h

theorem asTrees_flatten (L : List DataSlab) : (asTrees L).flatMap (flatten 0) = L.flatMap (·.elems) := by
  induction L with
  | nil => rfl
  | cons s L ih => simp only [asTrees_cons, List.flatMap_cons, ih, flatten_zero]

theorem newWith_eq (T addr ty : Nat) (toSt : Elem → Ctx → Elem × Ctx) (vs : List Elem) (c : Ctx) :
    ABatch.newWith T addr ty toSt vs c =
      levels T addr ty (fillLoop T addr toSt vs (emptyData (c.alloc addr).1) [] (c.alloc addr).2).1.length 0
        (asTrees (fillLoop T addr toSt vs (emptyData (c.alloc addr).1) [] (c.alloc addr).2).1)
        (fillLoop T addr toSt vs (emptyData (c.alloc addr).1) [] (c.alloc addr).2).2 := rfl

/-- C17 (`batch_array_content`, general form): the build succeeds and the array holds, in input
    order, the stored form of every input value (`cs` = the storage contexts in which the values
    were turned into storables). -/
theorem newWith_content (T addr ty : Nat) (hT : legalThreshold T = true)
    (toSt : Elem → Ctx → Elem × Ctx) (vs : List Elem) (c : Ctx) :
    ∃ a c' cs, ABatch.newWith T addr ty toSt vs c = .ok (a, c') ∧ cs.length = vs.length ∧
      a.toList = List.zipWith (fun v c => (toSt v c).1) vs cs ∧ a.ty = ty := by
  rw [newWith_eq]
  obtain ⟨a, c', heq, hto, hty⟩ := levels_content T addr ty hT
    (fillLoop T addr toSt vs (emptyData (c.alloc addr).1) [] (c.alloc addr).2).1.length 0
    (asTrees (fillLoop T addr toSt vs (emptyData (c.alloc addr).1) [] (c.alloc addr).2).1)
    (fillLoop T addr toSt vs (emptyData (c.alloc addr).1) [] (c.alloc addr).2).2
    (asTrees_ne_nil (fillLoop_ne_nil T addr toSt vs _ _ _)) (Nat.le_refl _)
  refine ⟨a, c', fillCtxs T addr toSt vs (emptyData (c.alloc addr).1) (c.alloc addr).2, heq,
    fillCtxs_length .., ?_, hty⟩
  rw [hto, asTrees_flatten, fillLoop_elems]
  simp [emptyData]

end Atree
