import AtreeProofs.Batch.MapFill
import AtreeProofs.Map.TreeOps2
/-
  C17, bulk build of maps — one round of the level loop under the map invariant:
  the tail step (`LendToRight` or `Merge` on the last two slabs) and `nextLevelMapSlabs`.
-/
namespace Atree
open Gen MTree MBatch

variable {T r : Nat} {D : DigestFn (r + 1)}

/-- an index slab at the top has at least two children (vacuous for data slabs) -/
def MTopKids : (d : Nat) → MTree r d → Prop
  | 0, _ => True
  | d + 1, (m : MMetaSlab (MTree r d)) => 2 ≤ m.children.length

/-- A level of the map tree under construction: `A` finished slabs, `z` the last slab. -/
structure MLevelOk (T : Nat) (D : DigestFn (r + 1)) (d addr : Nat) (A : List (MTree r d)) (z : MTree r d) : Prop where
  inv : ∀ t ∈ A, MTreeInv T D d false t
  sinv : SInv T D d false z
  le_max : (hdr d z).size ≤ maxThr T
  kid2 : A = [] → MTopKids d z
  chain : MLeafChain ((A ++ [z]).flatMap (leaves d))
  sorted : ((A ++ [z]).flatMap (digests0 d)).Pairwise (· < ·)
  addr : ∀ t ∈ A ++ [z], (hdr d t).id.addr = addr

/-- A level after the tail step. -/
structure MAllOk (T : Nat) (D : DigestFn (r + 1)) (d addr : Nat) (R : List (MTree r d)) : Prop where
  ne : R ≠ []
  inv : 2 ≤ R.length → ∀ t ∈ R, MTreeInv T D d false t
  single : ∀ t, R = [t] → SInv T D d false t ∧ (hdr d t).size ≤ maxThr T ∧ MTopKids d t
  chain : MLeafChain (R.flatMap (leaves d))
  sorted : (R.flatMap (digests0 d)).Pairwise (· < ·)
  addr : ∀ t ∈ R, (hdr d t).id.addr = addr

theorem misUnderflow_some (T : Nat) : ∀ (d : Nat) (t : MTree r d), (hdr d t).size < minThr T →
    MTree.isUnderflow T d t = some (minThr T - (hdr d t).size)
  | 0, s => by
    intro h
    show (if minThr T > (s : MDataSlab r).hdr.size then some (minThr T - (s : MDataSlab r).hdr.size) else none) = _
    rw [if_pos h]
  | d + 1, m => by
    intro h
    show (if minThr T > (m : MMetaSlab (MTree r d)).hdr.size then
      some (minThr T - (m : MMetaSlab (MTree r d)).hdr.size) else none) = _
    rw [if_pos h]

theorem misUnderflow_none (T : Nat) : ∀ (d : Nat) (t : MTree r d), minThr T ≤ (hdr d t).size →
    MTree.isUnderflow T d t = none
  | 0, s => by
    intro h
    show (if minThr T > (s : MDataSlab r).hdr.size then some (minThr T - (s : MDataSlab r).hdr.size) else none) = _
    have h' : minThr T ≤ (s : MDataSlab r).hdr.size := h
    rw [if_neg (by omega)]
  | d + 1, m => by
    intro h
    show (if minThr T > (m : MMetaSlab (MTree r d)).hdr.size then
      some (minThr T - (m : MMetaSlab (MTree r d)).hdr.size) else none) = _
    have h' : minThr T ≤ (m : MMetaSlab (MTree r d)).hdr.size := h
    rw [if_neg (by omega)]

theorem mtopKids_of_inv (hT : legalThreshold T = true) : ∀ {d : Nat} {t : MTree r d},
    MTreeInv T D d false t → MTopKids d t
  | 0, _, _ => trivial
  | d + 1, m, h => by
    have := (mtreeInv_false_iff_succ hT m).mp h
    have hsz := this.1.1.size_eq
    have hm := map_minThr_ge hT
    show 2 ≤ (m : MMetaSlab (MTree r d)).children.length
    have h2 := this.2.1
    rw [hsz] at h2
    omega

/-- the tail step on the last two slabs of a level -/
theorem mrebalancePair_ok (hT : legalThreshold T = true) (d : Nat) (y z : MTree r d)
    (hy : MTreeInv T D d false y) (hz : SInv T D d false z) (hmax : (hdr d z).size ≤ maxThr T)
    (haddr : (hdr d z).id.addr = (hdr d y).id.addr)
    (hlt : ∀ a ∈ digests0 d y, ∀ b ∈ digests0 d z, a < b) :
    ∃ R2, MBatch.rebalanceTail T d [y, z] = .ok R2 ∧ (∀ t ∈ R2, MTreeInv T D d false t) ∧ R2 ≠ [] ∧
      R2.flatMap (digests0 d) = digests0 d y ++ digests0 d z ∧
      LeafRel (leaves d y ++ leaves d z) (R2.flatMap (leaves d)) ∧
      (∀ t ∈ R2, (hdr d t).id.addr = (hdr d y).id.addr) := by
  have hys := MTreeInv.sinv hT hy
  by_cases hu : (hdr d z).size < minThr T
  · have hund := misUnderflow_some T d z hu
    by_cases hcan : MTree.canLendToRight T d y (minThr T - (hdr d z).size) = true
    · obtain ⟨l', r', heq, h1, h2, h3, h4, _, h6, h7, _⟩ := lend_spec hT d y z hy hz hu hcan haddr hlt
      refine ⟨[l', r'], ?_, ?_, by simp, ?_, ?_, ?_⟩
      · simp only [MBatch.rebalanceTail, hund, hcan, if_true, heq]
      · intro t ht
        simp only [List.mem_cons, List.not_mem_nil, or_false] at ht
        rcases ht with rfl | rfl
        · exact h1
        · exact h2
      · simp only [List.flatMap_cons, List.flatMap_nil, List.append_nil]; exact h6.symm
      · simpa using h7
      · intro t ht
        simp only [List.mem_cons, List.not_mem_nil, or_false] at ht
        rcases ht with rfl | rfl
        · rw [h3]
        · rw [h4]; exact haddr
    · have hcan' : MTree.canLendToRight T d y (minThr T - (hdr d z).size) = false := by
        cases h : MTree.canLendToRight T d y (minThr T - (hdr d z).size) <;> simp_all
      obtain ⟨b1, b2⟩ := MTree.merge_band hT d z y hz hy hu (Or.inr hcan')
      obtain ⟨m1, m2, m3, _, m5, m6, _⟩ := MTree.merge_spec hT d y z hys hz haddr hlt
      refine ⟨[MTree.merge d y z], ?_, ?_, by simp, ?_, ?_, ?_⟩
      · simp only [MBatch.rebalanceTail, hund, hcan']
        simp
      · intro t ht
        simp only [List.mem_singleton] at ht
        rw [ht, mtreeInv_false_iff hT]
        exact ⟨m1, by omega, by omega⟩
      · simpa using m5
      · simpa using m6
      · intro t ht
        simp only [List.mem_singleton] at ht
        rw [ht, m3]
  · have hnone := misUnderflow_none T d z (by omega)
    refine ⟨[y, z], ?_, ?_, by simp, by simp, ?_, ?_⟩
    · simp only [MBatch.rebalanceTail, hnone]
    · intro t ht
      simp only [List.mem_cons, List.not_mem_nil, or_false] at ht
      rcases ht with rfl | rfl
      · exact hy
      · rw [mtreeInv_false_iff hT]; exact ⟨hz, by omega, hmax⟩
    · simp only [List.flatMap_cons, List.flatMap_nil, List.append_nil]
      exact LeafRel.refl (by simp [SInv.leaves_ne_nil hT d false y hys])
    · intro t ht
      simp only [List.mem_cons, List.not_mem_nil, or_false] at ht
      rcases ht with rfl | rfl
      · rfl
      · exact haddr

theorem mrebalanceTail_cons (T d : Nat) (x : MTree r d) (L : List (MTree r d)) (h : 2 ≤ L.length) :
    MBatch.rebalanceTail T d (x :: L) =
      (match MBatch.rebalanceTail T d L with
       | .ok l => .ok (x :: l)
       | .error e => .error e) := by
  match L, h with
  | y :: z :: rest, _ => rfl

theorem mrebalanceTail_append2 (T d : Nat) (A : List (MTree r d)) (y z : MTree r d) (R2 : List (MTree r d))
    (h : MBatch.rebalanceTail T d [y, z] = .ok R2) :
    MBatch.rebalanceTail T d (A ++ [y, z]) = .ok (A ++ R2) := by
  induction A with
  | nil => exact h
  | cons x A ih =>
    rw [List.cons_append, mrebalanceTail_cons T d x _ (by simp), ih]
    rfl

theorem mrebalanceTail_ok (hT : legalThreshold T = true) {d addr : Nat} {A : List (MTree r d)} {z : MTree r d}
    (h : MLevelOk T D d addr A z) :
    ∃ R, MBatch.rebalanceTail T d (A ++ [z]) = .ok R ∧ MAllOk T D d addr R ∧
      R.length ≤ (A ++ [z]).length := by
  rcases List.eq_nil_or_concat A with hA | ⟨A', y, hA⟩
  · subst hA
    refine ⟨[z], rfl, ⟨by simp, by simp, ?_, by simpa using h.chain, by simpa using h.sorted,
      by simpa using h.addr⟩, by simp⟩
    intro t ht
    have : z = t := by simpa using ht
    subst this
    exact ⟨h.sinv, h.le_max, h.kid2 rfl⟩
  · rw [List.concat_eq_append] at hA
    subst hA
    have hy : MTreeInv T D d false y := h.inv y (by simp)
    have hA' : ∀ t ∈ A', MTreeInv T D d false t := fun t ht => h.inv t (by simp [ht])
    have hsplit : A' ++ [y] ++ [z] = A' ++ [y, z] := by simp
    have hsorted := h.sorted
    rw [hsplit] at hsorted
    simp only [List.flatMap_append, List.flatMap_cons, List.flatMap_nil, List.append_nil] at hsorted
    have hlt : ∀ a ∈ digests0 d y, ∀ b ∈ digests0 d z, a < b := by
      rw [List.pairwise_append] at hsorted
      have := hsorted.2.1
      rw [List.pairwise_append] at this
      exact this.2.2
    have haddr : (hdr d z).id.addr = (hdr d y).id.addr := by
      rw [h.addr z (by simp), h.addr y (by simp)]
    obtain ⟨R2, heq, hinv2, hne2, hdig, hleaf, haddr2⟩ :=
      mrebalancePair_ok hT d y z hy h.sinv h.le_max haddr hlt
    have hlen2 : R2.length ≤ 2 := by
      have := (mrebalanceTail_toList T d [y, z] R2 heq)
      -- length bound from the shape of the tail step
      unfold MBatch.rebalanceTail at heq
      split at heq
      · split at heq
        · split at heq
          · simp only [Except.ok.injEq] at heq; subst heq; simp
          · simp at heq
        · simp only [Except.ok.injEq] at heq; subst heq; simp
      · simp only [Except.ok.injEq] at heq; subst heq; simp
    refine ⟨A' ++ R2, by rw [hsplit]; exact mrebalanceTail_append2 T d A' y z R2 heq, ?_,
      by simp only [List.length_append, List.length_cons, List.length_nil]; omega⟩
    have hall : ∀ t ∈ A' ++ R2, MTreeInv T D d false t := by
      intro t ht
      rcases List.mem_append.mp ht with ht | ht
      · exact hA' t ht
      · exact hinv2 t ht
    refine ⟨by simp [hne2], fun _ => hall, ?_, ?_, ?_, ?_⟩
    · intro t ht
      have hti := hall t (by rw [ht]; simp)
      have := (mtreeInv_false_iff hT d t).mp hti
      exact ⟨this.1, this.2.2, mtopKids_of_inv hT hti⟩
    · have hch := h.chain
      rw [hsplit] at hch
      rw [mLeafChain_iff] at hch ⊢
      have hl := hleaf.lift (A'.flatMap (leaves d)) []
      simp only [List.flatMap_append, List.flatMap_cons, List.flatMap_nil, List.append_nil] at hch hl ⊢
      exact hl.2.2.2 _ hch
    · simp only [List.flatMap_append, hdig]
      exact hsorted
    · intro t ht
      rcases List.mem_append.mp ht with ht | ht
      · exact h.addr t (by simp [ht])
      · rw [haddr2 t ht]; exact h.addr y (by simp)

/-! ### `nextLevelMapSlabs` -/

theorem batch_child_facts (hT : legalThreshold T = true) {d : Nat} {t : MTree r d} (ht : MTreeInv T D d false t) :
    (hdr d t).firstKey = (digests0 d t).headD 0 :=
  SInv.firstKey_eq hT d false t (MTreeInv.sinv hT ht)

/-- an index slab holding exactly one child -/
theorem firstChild_loose (hT : legalThreshold T = true) {d : Nat} (id : SlabID) (s : MTree r d)
    (hs : MTreeInv T D d false s) (haddr : (hdr d s).id.addr = id.addr) :
    MetaLoose T D d false (MBatch.addChild d (MBatch.emptyMeta d id (hdr d s).firstKey) s) := by
  refine MetaLoose.mk' rfl (by simp [MBatch.addChild, MBatch.emptyMeta]) ?_ (by simp [MBatch.addChild, MBatch.emptyMeta])
    ?_ ?_
  · simp [MBatch.addChild, MBatch.emptyMeta]
  · intro c hc
    have : c = s := by simpa [MBatch.addChild, MBatch.emptyMeta] using hc
    subst this
    exact ⟨hs, haddr, batch_child_facts hT hs⟩
  · simp only [MBatch.addChild, MBatch.emptyMeta, List.nil_append, List.flatMap_cons, List.flatMap_nil,
      List.append_nil]
    exact SInv.sorted d false s (MTreeInv.sinv hT hs)

/-- one more child at the right end of an index slab -/
theorem addChild_loose (hT : legalThreshold T = true) {d : Nat} {m : MMetaSlab (MTree r d)} {s : MTree r d}
    (hm : MetaLoose T D d false m) (hne : 1 ≤ m.children.length) (hs : MTreeInv T D d false s)
    (haddr : (hdr d s).id.addr = m.hdr.id.addr)
    (hlt : ∀ a ∈ m.children.flatMap (digests0 d), ∀ b ∈ digests0 d s, a < b) :
    MetaLoose T D d false (MBatch.addChild d m s) := by
  have hh := hm.2.1
  refine MetaLoose.mk' hm.1 (by simp [MBatch.addChild, hh]) ?_ ?_ ?_ ?_
  · simp only [MBatch.addChild, hm.2.2.1, List.length_append, List.length_cons, List.length_nil,
      mapSlabHeaderSize]
    omega
  · have hne' : m.childHdrs ≠ [] := by
      intro h0
      have := hm.hdrs_len
      rw [h0] at this; simp at this; omega
    simp only [MBatch.addChild]
    rw [headD_append_left _ hne']
    exact hm.2.2.2.1
  · intro c hc
    simp only [MBatch.addChild, List.mem_append, List.mem_singleton] at hc
    rcases hc with hc | rfl
    · exact hm.child c hc
    · exact ⟨hs, haddr, batch_child_facts hT hs⟩
  · simp only [MBatch.addChild, List.flatMap_append, List.flatMap_cons, List.flatMap_nil, List.append_nil]
    rw [List.pairwise_append]
    exact ⟨hm.sorted, SInv.sorted d false s (MTreeInv.sinv hT hs), hlt⟩

/-- the loop of `nextLevelMapSlabs` -/
theorem mnextLevelLoop_ok (hT : legalThreshold T = true) (maxN addr d : Nat) (ss : List (MTree r d)) :
    ∀ (cur : MMetaSlab (MTree r d)) (done : List (MMetaSlab (MTree r d))) (c : Ctx),
      (∀ t ∈ ss, MTreeInv T D d false t ∧ (hdr d t).id.addr = addr) →
      ((cur.children ++ ss).flatMap (digests0 d)).Pairwise (· < ·) →
      (∀ m ∈ done, MetaLoose T D d false m ∧ m.children.length = maxN ∧ m.hdr.id.addr = addr) →
      MetaLoose T D d false cur → cur.hdr.id.addr = addr → 1 ≤ cur.children.length →
      cur.children.length ≤ maxN →
      ∃ done' cur', (MBatch.nextLevelLoop maxN addr d ss cur done c).1 = done' ++ [cur'] ∧
        (∀ m ∈ done', MetaLoose T D d false m ∧ m.children.length = maxN ∧ m.hdr.id.addr = addr) ∧
        MetaLoose T D d false cur' ∧ cur'.hdr.id.addr = addr ∧ 1 ≤ cur'.children.length ∧
        cur'.children.length ≤ maxN := by
  induction ss with
  | nil =>
    intro cur done c _ _ hd hc ha h1 h2
    exact ⟨done, cur, rfl, hd, hc, ha, h1, h2⟩
  | cons s ss ih =>
    intro cur done c hss hsorted hd hc ha h1 h2
    obtain ⟨hs, hsa⟩ := hss s (by simp)
    have hss' : ∀ t ∈ ss, MTreeInv T D d false t ∧ (hdr d t).id.addr = addr :=
      fun t ht => hss t (by simp [ht])
    have hlen : cur.childHdrs.length = cur.children.length := hc.hdrs_len
    simp only [List.flatMap_append, List.flatMap_cons] at hsorted
    rw [List.pairwise_append] at hsorted
    obtain ⟨_, hsrest, hcross⟩ := hsorted
    unfold MBatch.nextLevelLoop
    by_cases hfull : cur.childHdrs.length = maxN
    · simp only [hfull, if_true]
      refine ih _ (done ++ [cur]) (c.alloc addr).2 hss' ?_ ?_
        (firstChild_loose hT (c.alloc addr).1 s hs (by simpa using hsa)) rfl
        (by simp [MBatch.addChild, MBatch.emptyMeta]) (by simp [MBatch.addChild, MBatch.emptyMeta]; omega)
      · simpa [MBatch.addChild, MBatch.emptyMeta] using hsrest
      · intro m hm
        simp only [List.mem_append, List.mem_singleton] at hm
        rcases hm with hm | rfl
        · exact hd m hm
        · exact ⟨hc, by omega, ha⟩
    · simp only [hfull, if_false]
      refine ih _ done c hss' ?_ hd
        (addChild_loose hT hc h1 hs (by rw [hsa, ha]) (fun a haa b hb => hcross a haa b (by simp [hb])))
        ha (by simp [MBatch.addChild]) (by simp [MBatch.addChild]; omega)
      have : (MBatch.addChild d cur s).children ++ ss = cur.children ++ s :: ss := by simp [MBatch.addChild]
      rw [this]
      simp only [List.flatMap_append, List.flatMap_cons]
      rw [List.pairwise_append]
      exact ⟨by assumption, hsrest, hcross⟩

theorem map_maxN_facts (hT : legalThreshold T = true) :
    2 ≤ (maxThr T - mapMetaDataSlabPrefixSize) / mapSlabHeaderSize ∧
    minThr T ≤ 12 + 18 * ((maxThr T - mapMetaDataSlabPrefixSize) / mapSlabHeaderSize) ∧
    12 + 18 * ((maxThr T - mapMetaDataSlabPrefixSize) / mapSlabHeaderSize) ≤ maxThr T := by
  have hB := map_legal_bounds hT
  simp only [minThr, maxThr, mapMetaDataSlabPrefixSize, mapSlabHeaderSize]
  omega

theorem mleaves_metas (d : Nat) (R : List (MMetaSlab (MTree r d))) :
    (asMMetas R).flatMap (leaves (d + 1)) = (R.flatMap (·.children)).flatMap (leaves d) := by
  induction R with
  | nil => rfl
  | cons m R ih =>
    show leaves (d + 1) (ofMMeta m) ++ (asMMetas R).flatMap (leaves (d + 1)) = _
    simp only [List.flatMap_cons, List.flatMap_append, ih]
    rfl

theorem mdigests_metas (d : Nat) (R : List (MMetaSlab (MTree r d))) :
    (asMMetas R).flatMap (digests0 (d + 1)) = (R.flatMap (·.children)).flatMap (digests0 d) := by
  induction R with
  | nil => rfl
  | cons m R ih =>
    show digests0 (d + 1) (ofMMeta m) ++ (asMMetas R).flatMap (digests0 (d + 1)) = _
    simp only [List.flatMap_cons, List.flatMap_append, ih]
    rfl

theorem flatMap_children_length {d : Nat} (L : List (MMetaSlab (MTree r d))) (n : Nat)
    (h : ∀ m ∈ L, m.children.length = n) : (L.flatMap (·.children)).length = L.length * n := by
  induction L with
  | nil => simp
  | cons m L ih =>
    simp only [List.flatMap_cons, List.length_append, List.length_cons, h m (by simp),
      ih (fun x hx => h x (by simp [hx])), Nat.add_mul, Nat.one_mul]
    omega

/-- `nextLevelMapSlabs` turns a level whose slabs are all within the band into a level of index
    slabs (all but the last one full) that is strictly shorter. -/
theorem mnextLevel_ok (hT : legalThreshold T = true) {d addr : Nat} {R : List (MTree r d)} (c : Ctx)
    (hR : MAllOk T D d addr R) (h2 : 2 ≤ R.length) :
    ∃ A z, (nextLevelMapSlabs T addr d R c).1 = A ++ [z] ∧ MLevelOk T D (d + 1) addr A z ∧
      (A ++ [z]).length < R.length := by
  obtain ⟨hN, hNmin, hNmax⟩ := map_maxN_facts hT
  have hinv := hR.inv h2
  match R, h2 with
  | s :: ss, h2 =>
    have hfirst : nextLevelMapSlabs T addr d (s :: ss) c =
        MBatch.nextLevelLoop ((maxThr T - mapMetaDataSlabPrefixSize) / mapSlabHeaderSize) addr d ss
          (MBatch.addChild d (MBatch.emptyMeta d (c.alloc addr).1 (hdr d s).firstKey) s) [] (c.alloc addr).2 := by
      unfold nextLevelMapSlabs
      simp only
      rw [MBatch.nextLevelLoop]
      have : ¬ (MBatch.emptyMeta (r := r) d (c.alloc addr).1 (hdr d s).firstKey).childHdrs.length =
          (maxThr T - mapMetaDataSlabPrefixSize) / mapSlabHeaderSize := by
        simp [MBatch.emptyMeta]; omega
      simp only [this, if_false]
      rfl
    obtain ⟨done', cur', e1, e2, e3, e4, e5, e6⟩ :=
      mnextLevelLoop_ok (T := T) (D := D) hT ((maxThr T - mapMetaDataSlabPrefixSize) / mapSlabHeaderSize) addr d ss
        (MBatch.addChild d (MBatch.emptyMeta d (c.alloc addr).1 (hdr d s).firstKey) s) [] (c.alloc addr).2
        (fun t ht => ⟨hinv t (by simp [ht]), hR.addr t (by simp [ht])⟩)
        (by simpa [MBatch.addChild, MBatch.emptyMeta] using hR.sorted) (by simp)
        (firstChild_loose hT (c.alloc addr).1 s (hinv s (by simp)) (by simpa using hR.addr s (by simp))) rfl
        (by simp [MBatch.addChild, MBatch.emptyMeta]) (by simp [MBatch.addChild, MBatch.emptyMeta]; omega)
    have hkids : (done' ++ [cur']).flatMap (·.children) = s :: ss := by
      have := mnextLevelLoop_children ((maxThr T - mapMetaDataSlabPrefixSize) / mapSlabHeaderSize) addr d ss
        (MBatch.addChild d (MBatch.emptyMeta d (c.alloc addr).1 (hdr d s).firstKey) s) [] (c.alloc addr).2
      rw [e1] at this
      simpa [MBatch.addChild, MBatch.emptyMeta] using this
    rw [hfirst]
    have hsplit : asMMetas done' ++ [ofMMeta cur'] = asMMetas (done' ++ [cur']) := rfl
    refine ⟨asMMetas done', ofMMeta cur', by rw [e1]; rfl, ⟨?_, ⟨e3, e5⟩, ?_, ?_, ?_, ?_, ?_⟩, ?_⟩
    · intro t ht
      have ht' : (t : MMetaSlab (MTree r d)) ∈ done' := ht
      revert ht'
      refine forall_ofMMeta ?_ t
      intro m hm
      obtain ⟨a, b, _⟩ := e2 m hm
      refine (mtreeInv_false_iff_succ hT m).mpr ⟨⟨a, by omega⟩, ?_, ?_⟩
      · rw [a.size_eq, b]; exact hNmin
      · rw [a.size_eq, b]; exact hNmax
    · show cur'.hdr.size ≤ maxThr T
      rw [e3.size_eq]
      have : 18 * cur'.children.length ≤ 18 * ((maxThr T - mapMetaDataSlabPrefixSize) / mapSlabHeaderSize) :=
        Nat.mul_le_mul_left _ e6
      omega
    · intro hA
      have hd : done' = [] := hA
      rw [hd] at hkids
      simp only [List.nil_append, List.flatMap_cons, List.flatMap_nil, List.append_nil] at hkids
      show 2 ≤ cur'.children.length
      rw [hkids]; exact h2
    · rw [hsplit, mleaves_metas, hkids]; exact hR.chain
    · rw [hsplit, mdigests_metas, hkids]; exact hR.sorted
    · intro t ht
      rw [hsplit] at ht
      have ht' : (t : MMetaSlab (MTree r d)) ∈ done' ++ [cur'] := ht
      revert ht'
      refine forall_ofMMeta ?_ t
      intro m hm
      rcases List.mem_append.mp hm with hm | hm
      · exact (e2 m hm).2.2
      · have : m = cur' := List.mem_singleton.mp hm
        subst this; exact e4
    · -- fewer slabs than before
      have hlen := congrArg List.length hkids
      rw [List.flatMap_append, List.length_append,
        flatMap_children_length done' _ (fun m hm => (e2 m hm).2.1)] at hlen
      simp only [List.flatMap_cons, List.flatMap_nil, List.append_nil] at hlen
      show (asMMetas done' ++ [ofMMeta cur']).length < (s :: ss).length
      simp only [List.length_append, List.length_cons, List.length_nil] at hlen h2 ⊢
      have : (asMMetas done').length = done'.length := rfl
      rw [this]
      have hmul : 2 * done'.length ≤ done'.length * ((maxThr T - mapMetaDataSlabPrefixSize) / mapSlabHeaderSize) := by
        rw [Nat.mul_comm]; exact Nat.mul_le_mul_left _ hN
      rcases Nat.eq_zero_or_pos done'.length with h0 | h0
      · omega
      · omega

end Atree
