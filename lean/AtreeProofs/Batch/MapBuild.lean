import AtreeProofs.Batch.MapFill
/-
  C17, bulk build of maps — theorems about the whole build under the map invariant's
  hypotheses (digests are a function of the key, keys fit the inline limit, values are plain).
-/
namespace Atree
open Gen MTree MBatch

variable {T r : Nat} {D : DigestFn (r + 1)}

/-- C17 (`batch_map_content` with collisions, `batch_rejects_duplicates`): if the build succeeds,
    the keys of the input are pairwise different, and the pairs of the map are — up to the order
    inside first-level collision groups, which follows the deeper digests — the input pairs with
    their values in stored form. -/
theorem fromBatchData_sound (hT : legalThreshold T = true) {cfg : MCfg} (hc : CfgFor cfg T (r + 1))
    (ty seed : Nat) (kvs : List (MKey × Elem)) (hkv : ∀ p ∈ kvs, KeyOk T (r + 1) D p.1 ∧ ValueOkM p.2)
    (c : Ctx) (m : OMap r) (c' : Ctx) (h : OMap.fromBatchData cfg ty seed kvs c = .ok (m, c')) :
    KeysDistinct kvs ∧
    (∃ cs : List Ctx, cs.length = kvs.length ∧
      m.toList.Perm (List.zipWith (fun p c => (p.1, storedValue cfg p.1 p.2 c)) kvs cs)) ∧
    KeysDistinct m.toList := by
  obtain ⟨_, _, _, _, _, st, cf, hfill, hto⟩ := fromBatchData_ok_facts cfg ty seed kvs c m c' h
  have hinit := mfill_init (D := D) hT cfg (c.alloc cfg.addr).1 rfl
  have hok := (mfill_ok hT hc kvs hkv [] _ _ hinit).1 st cf hfill
  simp only [List.nil_append] at hok
  have S := (MElems.opsSpec D hT hc r).toOpsStruct
  refine ⟨hok.distinct, ?_, ?_⟩
  · rw [hto]; exact hok.perm
  · rw [hto]
    -- distinct keys: the pairs are a permutation of distinct-keyed pairs
    obtain ⟨cs, hcs, hperm⟩ := hok.perm
    have hd : KeysDistinct (List.zipWith (fun p c => (p.1, storedValue cfg p.1 p.2 c)) kvs cs) := by
      have hgen : ∀ (l : List (MKey × Elem)) (cs : List Ctx), cs.length = l.length → KeysDistinct l →
          KeysDistinct (List.zipWith (fun p c => (p.1, storedValue cfg p.1 p.2 c)) l cs) := by
        intro l
        induction l with
        | nil => intro cs _ _; simp [KeysDistinct]
        | cons p l ih =>
          intro cs hl hdl
          cases cs with
          | nil => simp at hl
          | cons c0 cs =>
            rw [KeysDistinct.cons_iff] at hdl
            simp only [List.zipWith_cons_cons]
            rw [KeysDistinct.cons_iff]
            refine ⟨?_, ih cs (by simpa using hl) hdl.2⟩
            intro b hb
            obtain ⟨a, ha, b', hab⟩ := mem_zipWith_left _ _ _ _ hb
            rw [hab]
            exact hdl.1 a ha
      exact hgen kvs cs hcs hok.distinct
    unfold KeysDistinct at hd ⊢
    exact hperm.symm.pairwise hd (fun {a b} hab => by rw [MKey.same_comm]; exact hab)

/-- C17 (`batch_rejects_duplicates`): a stream in which a key occurs twice is rejected. -/
theorem fromBatchData_rejects_duplicates (hT : legalThreshold T = true) {cfg : MCfg}
    (hc : CfgFor cfg T (r + 1)) (ty seed : Nat) (kvs : List (MKey × Elem))
    (hkv : ∀ p ∈ kvs, KeyOk T (r + 1) D p.1 ∧ ValueOkM p.2) (c : Ctx) (hdup : ¬ KeysDistinct kvs) :
    ∃ e c', (OMap.fromBatchData cfg ty seed kvs c : BRes (OMap r × Ctx)) = .error (e, c') := by
  cases h : (OMap.fromBatchData cfg ty seed kvs c : BRes (OMap r × Ctx)) with
  | error e => exact ⟨e.1, e.2, rfl⟩
  | ok res =>
    obtain ⟨m, c'⟩ := res
    exact absurd (fromBatchData_sound hT hc ty seed kvs hkv c m c' h).1 hdup

/-- The element loop accepts every stream that is sorted by first-level digest and free of
    duplicate keys (no spurious rejection). -/
theorem fillLoop_complete (hT : legalThreshold T = true) {cfg : MCfg} (hc : CfgFor cfg T (r + 1))
    (kvs : List (MKey × Elem)) (hkv : ∀ p ∈ kvs, KeyOk T (r + 1) D p.1 ∧ ValueOkM p.2)
    (hs : (kvs.map (fun p => p.1.dig 0)).Pairwise (· ≤ ·)) (hd : KeysDistinct kvs) (id : SlabID)
    (hid : id.addr = cfg.addr) (c : Ctx) :
    ∃ st c', fillLoop cfg kvs
        { id := id, elements := emptyElems r, slabs := [], count := 0, prevHkey := 0 } c = .ok (st, c') ∧
      MFillOk T r D cfg st kvs := by
  have hinit := mfill_init (D := D) hT cfg id hid
  obtain ⟨hA, hB⟩ := mfill_ok hT hc kvs hkv [] _ c hinit
  obtain ⟨st, c', heq⟩ := hB hs (by intro p _; simp) (by simpa using hd)
  exact ⟨st, c', heq, by simpa using hA st c' heq⟩

/-- the root data slab of a map built from a single data slab -/
def rootOf (st : FillState r) : MDataSlab r :=
  { hdr := { id := st.id, size := mapRootDataSlabPrefixSize + st.elements.size, firstKey := st.elements.firstKey },
    next := SlabID.undef, elems := st.elements, root := true, inlined := false }

theorem mlevels_single (T addr ty count seed fuel : Nat) (root : MTree r 0) (c : Ctx) :
    MBatch.levels T addr ty count seed (fuel + 1) 0 [root] c = .ok (MBatch.finishRoot ty count seed 0 root c) := rfl

theorem finishRoot_single (ty count seed : Nat) (st : FillState r) (c : Ctx) :
    (MBatch.finishRoot ty count seed 0 (ofMData (mkData st.id SlabID.undef st.elements)) c).1 =
      ⟨0, ofMData (rootOf st), ty, count, seed⟩ := by
  have hsz : mapDataSlabPrefixSize + st.elements.size - mapDataSlabPrefixSize + mapRootDataSlabPrefixSize =
      mapRootDataSlabPrefixSize + st.elements.size := by
    simp only [mapDataSlabPrefixSize, mapRootDataSlabPrefixSize]; omega
  show (⟨0, ofMData { hdr := { id := st.id,
                                size := mapDataSlabPrefixSize + st.elements.size - mapDataSlabPrefixSize + mapRootDataSlabPrefixSize,
                                firstKey := st.elements.firstKey },
                       next := SlabID.undef, elems := st.elements, root := true, inlined := false },
        ty, count, seed⟩ : OMap r) = _
  rw [hsz]
  rfl

/-- C17 (`batch_map_inv_partial`): the result of the bulk build satisfies the map invariant
    `MapInv` WHEN THE INPUT FITS ONE DATA SLAB, i.e. when the element loop closed no data slab
    (`st.slabs = []` for the final loop state `st`) — the shape of every copy source and of every
    small map.  NOT PROVED here: the multi-slab case (tail `LendToRight`-or-`Merge` of map data
    slabs and the index levels built by `nextLevelMapSlabs`), which needs the size-band lemmas of
    `MapDataSlab.LendToRight` / `Merge` at tree level; it is covered by the correspondence check
    (`VerifyMap` on every bulk-built map) only. -/
theorem fromBatchData_inv_partial (hT : legalThreshold T = true) {cfg : MCfg} (hc : CfgFor cfg T (r + 1))
    (ty seed : Nat) (kvs : List (MKey × Elem)) (hkv : ∀ p ∈ kvs, KeyOk T (r + 1) D p.1 ∧ ValueOkM p.2)
    (c : Ctx) (m : OMap r) (c' : Ctx) (h : OMap.fromBatchData cfg ty seed kvs c = .ok (m, c'))
    (hone : ∀ st cf, fillLoop cfg kvs
        { id := (c.alloc cfg.addr).1, elements := emptyElems r, slabs := [], count := 0, prevHkey := 0 }
        (c.alloc cfg.addr).2 = .ok (st, cf) → st.slabs = []) :
    MapInv T D m := by
  have hB := map_legal_bounds hT
  have hseed : seed ≠ 0 := (fromBatchData_ok_facts cfg ty seed kvs c m c' h).1
  unfold OMap.fromBatchData at h
  simp only [hseed, if_false] at h
  cases hf : fillLoop cfg kvs
      { id := (c.alloc cfg.addr).1, elements := emptyElems r, slabs := [], count := 0, prevHkey := 0 }
      (c.alloc cfg.addr).2 with
  | error e => rw [hf] at h; simp at h
  | ok res =>
    obtain ⟨st, cf⟩ := res
    rw [hf] at h
    simp only at h
    have hsl := hone st cf hf
    have hinit := mfill_init (D := D) hT cfg (c.alloc cfg.addr).1 rfl
    have hok := (mfill_ok hT hc kvs hkv [] _ _ hinit).1 st cf hf
    simp only [List.nil_append] at hok
    rw [hsl] at h
    simp only [List.nil_append, List.length_cons, List.length_nil] at h
    have h' : MBatch.levels cfg.T cfg.addr ty st.count seed (0 + 1) 0
        [ofMData (mkData st.id SlabID.undef st.elements)] cf = .ok (m, c') := h
    rw [mlevels_single] at h'
    have hm : m = (MBatch.finishRoot ty st.count seed 0 (ofMData (mkData st.id SlabID.undef st.elements)) cf).1 := by
      have := congrArg (fun x => match x with | .ok p => some p.1 | .error _ => none) h'
      simpa using this.symm
    rw [finishRoot_single] at hm
    subst hm
    have S := (MElems.opsSpec D hT hc r).toOpsStruct
    have H := hok.hinv
    -- every first-level element respects the inline limit
    have hle : ∀ el ∈ st.elements.elems, MElemF.size (MElems.ops r) el ≤ maxInlineMapElem T := by
      intro el hel
      obtain ⟨i, hi⟩ := List.mem_iff_getElem?.mp hel
      obtain ⟨hk, hhk⟩ := H.hkey_at hi
      exact (H.elemOk hhk hi).size_le hT rfl
    -- size bound: everything but the last element is below T, the last element is small
    have hsize : mapRootDataSlabPrefixSize + st.elements.size ≤ maxThr T := by
      have hsz := H.size_eq
      have hinit_lt := hok.init_lt
      have hsplit : HkeyElems.elemSizes (MElems.ops r) st.elements.elems ≤
          HkeyElems.elemSizes (MElems.ops r) st.elements.elems.dropLast + (maxInlineMapElem T + digestSize) := by
        rcases List.eq_nil_or_concat st.elements.elems with hnil | ⟨L, x, hL⟩
        · rw [hnil]; simp [HkeyElems.elemSizes]
        · rw [List.concat_eq_append] at hL
          have hx := hle x (by rw [hL]; simp)
          rw [hL, List.dropLast_concat, HkeyElems.elemSizes_append]
          simp only [HkeyElems.elemSizes, List.map_cons, List.map_nil, List.sum_cons, List.sum_nil]
          omega
      rw [maxInlineMapElem_eq] at hsplit
      simp only [mapRootDataSlabPrefixSize, mapDataSlabPrefixSize, hkeyElementsPrefixSize, digestSize,
        maxThr] at *
      omega
    refine ⟨?_, ?_, ?_, ?_, rfl⟩
    · show MDataInv T D true (rootOf st)
      refine ⟨(elemsInv_succ_iff T (r + 1) D r 0 [] st.elements).2 H, rfl, rfl, rfl, by simp [rootOf],
        hsize, by simp, by simp, hle⟩
    · show MLeafChain [rootOf st]
      simp [MLeafChain, rootOf]
    · show st.count = (HkeyElems.toList (MElems.ops r) st.elements).length
      obtain ⟨cs, hcs, hperm⟩ := hok.perm
      have := hperm.length_eq
      simp only [fillPairs, hsl, List.flatMap_nil, List.nil_append, List.length_zipWith, hcs,
        Nat.min_self] at this
      rw [this, hok.count_eq]
    · show KeysDistinct (HkeyElems.toList (MElems.ops r) st.elements)
      exact H.distinct S

end Atree
