import AtreeProofs.Batch.BytesProof
/-
  C17, byte conversion (audit a1, F9): slab IDs of the byte array are fresh; `ByteArrayToByteSlice`
  REJECTS an array holding an element that is not of the caller's byte type (a reference, or a
  plain value of another type).
-/
namespace Atree
open Gen ATree MetaSlab ABatch Bytes

variable {T : Nat}

/-- every slab ID of the array built by `ByteSliceToByteArray` was allocated during the call -/
theorem byteSliceToByteArray_ids_fresh (hT : legalThreshold T = true) (addr ty est : Nat) (bsize : Nat → Nat)
    (bs : List Nat) (hb : ∀ b ∈ bs, 1 ≤ bsize b ∧ bsize b ≤ maxInlineArr T)
    (hlen : bs.length < maxArrayElementCount + 1) (c : Ctx) (a : Arr) (c' : Ctx)
    (h : byteSliceToByteArray T addr ty bsize bs est c = .ok (a, c')) :
    ∀ id ∈ slabIds a.d a.root, id.addr = addr ∧ c.ctr < id.idx ∧ id.idx ≤ c'.ctr := by
  have hok : ∀ e ∈ bs.map (byteElem bsize), ElemOk T e := by
    intro e he
    obtain ⟨b, hbm, hbe⟩ := List.mem_map.1 he
    rw [← hbe]; exact hb b hbm
  unfold byteSliceToByteArray at h
  by_cases hemp : bs.isEmpty = true
  · simp only [hemp, if_true, Except.ok.injEq] at h
    have e1 : a = (Arr.new addr ty c).1 := by rw [h]
    have e2 : c' = (Arr.new addr ty c).2 := by rw [h]
    subst e1 e2
    intro id hid
    have hroot : (Arr.new addr ty c).1 = ⟨0, ofData (rootSlab ⟨addr, c.ctr + 1⟩ []), ty⟩ := rfl
    have hctr : (Arr.new addr ty c).2.ctr = c.ctr + 1 := rfl
    rw [hroot] at hid
    simp only [slabIds, rootSlab, ofData, List.mem_singleton] at hid
    rw [hctr, hid]; simp
  · simp only [hemp, Bool.false_eq_true, if_false] at h
    generalize (if est = 0 then byteStorableCBORTagSize + byteStorableCBORDataSize else est) * bs.length = estimated at h
    by_cases hfast : (decide (estimated + arrayRootDataSlabPrefixSize < T) &&
        decide (sumSizes (bs.map (byteElem bsize)) + arrayRootDataSlabPrefixSize < T)) = true
    · rw [if_pos hfast] at h
      simp only [Except.ok.injEq] at h
      have hroot : (newArrayWithElements addr ty (bs.map (byteElem bsize)) (sumSizes (bs.map (byteElem bsize))) c).1 =
          ⟨0, ofData (rootSlab ⟨addr, c.ctr + 1⟩ (bs.map (byteElem bsize))), ty⟩ := rfl
      have hctr : (newArrayWithElements addr ty (bs.map (byteElem bsize)) (sumSizes (bs.map (byteElem bsize))) c).2.ctr = c.ctr + 1 := rfl
      have e1 : a = (newArrayWithElements addr ty (bs.map (byteElem bsize)) (sumSizes (bs.map (byteElem bsize))) c).1 := by rw [h]
      have e2 : c' = (newArrayWithElements addr ty (bs.map (byteElem bsize)) (sumSizes (bs.map (byteElem bsize))) c).2 := by rw [h]
      subst e1 e2
      intro id hid
      rw [hroot] at hid
      simp only [slabIds, rootSlab, ofData, List.mem_singleton] at hid
      rw [hctr, hid]; simp
    · rw [if_neg hfast] at h
      have hSt : ToStOk T (ElemOk T) (fun v c => (v, c)) := ⟨fun v c hv => hv, fun v c => Nat.le_refl _⟩
      obtain ⟨a1, c1, heq, hbo, _⟩ := newWith_inv hT addr ty (ElemOk T) (fun v c => (v, c)) hSt
        (bs.map (byteElem bsize)) hok (by simpa using hlen) c
      rw [heq] at h
      simp only [Except.ok.injEq, Prod.mk.injEq] at h
      obtain ⟨e1, e2⟩ := h
      subst e1 e2
      exact hbo.fresh

/-! ### Rejection -/

/-- the outcome of `elemByte` on a list: all bytes, or the type error -/
theorem mapM_elemByte_cases (isT : Elem → Bool) (es : List Elem) :
    (es.mapM (elemByte isT) = .ok (es.map payNat) ∧ ∀ e ∈ es, IsByteOf isT e) ∨
    (es.mapM (elemByte isT) = .error .unexpectedElemType ∧ ∃ e ∈ es, ¬ IsByteOf isT e) := by
  induction es with
  | nil => left; exact ⟨rfl, by simp⟩
  | cons e es ih =>
    by_cases he : IsByteOf isT e
    · rcases ih with ⟨h1, h2⟩ | ⟨h1, x, hx, hbad⟩
      · left
        refine ⟨mapM_elemByte isT (e :: es) ?_, ?_⟩ <;>
        · intro y hy
          rcases List.mem_cons.1 hy with rfl | hy
          · exact he
          · exact h2 y hy
      · right
        obtain ⟨⟨n, hn⟩, ht⟩ := he
        refine ⟨?_, x, by simp [hx], hbad⟩
        simp only [List.mapM_cons, elemByte, hn, ht, if_true, h1, bind, Except.bind]
    · right
      refine ⟨?_, e, by simp, he⟩
      have : elemByte isT e = .error .unexpectedElemType := by
        unfold elemByte
        cases hp : e.pay with
        | ref id => rfl
        | val b =>
          simp only
          have : isT e ≠ true := fun ht => he ⟨⟨b, hp⟩, ht⟩
          simp [this]
      simp only [List.mapM_cons, this, bind, Except.bind]

/-- following the sibling links from `cur`: if some element of `cur` or of a later slab is not a
    byte of type `T`, the traversal ends with `UnexpectedElementTypeError` -/
theorem collectFrom_rejects (isT : Elem → Bool) : ∀ (rest pre : List DataSlab) (cur : DataSlab) (fuel : Nat),
    LeafChain (cur :: rest) → ((pre ++ cur :: rest).map (·.hdr.id)).Nodup →
    (∀ s ∈ pre ++ cur :: rest, s.hdr.id ≠ SlabID.undef) → rest.length + 1 ≤ fuel →
    (∃ s ∈ cur :: rest, ∃ e ∈ s.elems, ¬ IsByteOf isT e) →
    collectFrom isT (pre ++ cur :: rest) fuel cur = .error .unexpectedElemType := by
  intro rest
  induction rest with
  | nil =>
    intro pre cur fuel _ _ _ hfuel hbad
    obtain ⟨f, rfl⟩ : ∃ f, fuel = f + 1 := ⟨fuel - 1, by simp at hfuel; omega⟩
    obtain ⟨s, hs, e, he, hb⟩ := hbad
    have : s = cur := by simpa using hs
    subst this
    unfold collectFrom
    rcases mapM_elemByte_cases isT s.elems with ⟨_, hall⟩ | ⟨herr, _⟩
    · exact absurd (hall e he) hb
    · simp only [herr, bind, Except.bind]
  | cons nxt rest ih =>
    intro pre cur fuel hchain hnd hdef hfuel hbad
    obtain ⟨f, rfl⟩ : ∃ f, fuel = f + 1 := ⟨fuel - 1, by simp at hfuel; omega⟩
    obtain ⟨hnext, hchain'⟩ : cur.next = nxt.hdr.id ∧ LeafChain (nxt :: rest) := hchain
    have hnu : ¬ nxt.hdr.id = SlabID.undef := hdef nxt (by simp)
    have hsplit : pre ++ cur :: nxt :: rest = (pre ++ [cur]) ++ nxt :: rest := by simp
    unfold collectFrom
    rcases mapM_elemByte_cases isT cur.elems with ⟨hok, hall⟩ | ⟨herr, _⟩
    · have hbad' : ∃ s ∈ nxt :: rest, ∃ e ∈ s.elems, ¬ IsByteOf isT e := by
        obtain ⟨s, hs, e, he, hb⟩ := hbad
        rcases List.mem_cons.1 hs with rfl | hs
        · exact absurd (hall e he) hb
        · exact ⟨s, hs, e, he, hb⟩
      have hrec := ih (pre ++ [cur]) nxt f hchain' (by rw [← hsplit]; exact hnd)
        (by rw [← hsplit]; exact hdef) (by simp at hfuel ⊢; omega) hbad'
      simp only [hok, hnext, hnu, if_false, bind, Except.bind, find?_next pre rest cur nxt hnd]
      rw [hsplit, hrec]
    · simp only [herr, bind, Except.bind]

/-- `ByteArrayToByteSlice` on a valid array one of whose elements is not of the byte type — a
    reference or a plain value of another type, in whatever data slab — reports
    `UnexpectedElementTypeError`. -/
theorem byteArrayToByteSlice_rejects (isT : Elem → Bool) (a : Arr) (ctr : Nat) (h : ArrInv T a ctr)
    (hbad : ∃ e ∈ a.toList, ¬ IsByteOf isT e) : byteArrayToByteSlice isT a = .error .unexpectedElemType := by
  obtain ⟨d, t, ty⟩ := a
  have hfl := leaves_flatMap_elems d t
  have hcount : (hdr d t).count = (flatten d t).length := h.shape.count_eq_length
  have hnd : ((Arr.leaves d t).map (·.hdr.id)).Nodup := h.ids.1.sublist (leaves_ids_sublist d t)
  have hdef : ∀ s ∈ Arr.leaves d t, s.hdr.id ≠ SlabID.undef := by
    intro s hs heq
    have hm : s.hdr.id ∈ slabIds d t :=
      (leaves_ids_sublist d t).subset (List.mem_map.2 ⟨s, hs, rfl⟩)
    have := (h.ids.2 _ hm).2.1
    rw [heq] at this
    simp [SlabID.undef] at this
  have hchain : LeafChain (Arr.leaves d t) := h.chain
  obtain ⟨e, he, hb⟩ := hbad
  have he' : e ∈ flatten d t := he
  rw [← hfl] at he'
  obtain ⟨s, hs, hes⟩ := List.mem_flatMap.1 he'
  show (if (hdr d t).count = 0 then Except.ok []
      else match Arr.leaves d t with
        | [] => .error (.arr .slabNotFound)
        | first :: _ => collectFrom isT (Arr.leaves d t) ((Arr.leaves d t).length + 1) first) = .error .unexpectedElemType
  have h0 : (hdr d t).count ≠ 0 := by
    rw [hcount]
    have : e ∈ flatten d t := he
    intro hz
    rw [List.eq_nil_of_length_eq_zero hz] at this
    simp at this
  rw [if_neg h0]
  match hl : Arr.leaves d t with
  | [] => rw [hl] at hs; simp at hs
  | first :: rest =>
    simp only
    rw [hl] at hnd hdef hchain hs
    have := collectFrom_rejects isT rest [] first ((first :: rest).length + 1) hchain
      (by simpa using hnd) (by simpa using hdef) (by simp) ⟨s, hs, e, hes, hb⟩
    simpa using this

end Atree
