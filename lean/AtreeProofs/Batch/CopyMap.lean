import AtreeModel.Map.Batch
import AtreeProofs.MapInv
import AtreeProofs.Batch.CopyArray
import AtreeProofs.AListLemmas
/-
  C17, copy of maps: `CanCopyNonRefSimple` / `CopyNonRefSimple`.
-/
namespace Atree
open Gen MTree

/-! ### `mapM` in `Except` -/

theorem mapM_except_ok {α ε : Type} (f : α → Except ε α) (l : List α) (hf : ∀ x ∈ l, f x = .ok x) :
    l.mapM f = .ok l := by
  induction l with
  | nil => rfl
  | cons x l ih =>
    simp only [List.mapM_cons, hf x (by simp), ih (fun y hy => hf y (by simp [hy])), bind, Except.bind,
      pure, Except.pure]

/-- a successful `mapM` of a function that can only return its argument returns the list itself -/
theorem mapM_except_self {α ε : Type} (f : α → Except ε α) (l l' : List α) (h : l.mapM f = .ok l')
    (hf : ∀ x ∈ l, ∀ y, f x = .ok y → y = x) : l' = l ∧ ∀ x ∈ l, f x = .ok x := by
  induction l generalizing l' with
  | nil => simp [pure, Except.pure] at h; subst h; simp
  | cons x l ih =>
    simp only [List.mapM_cons, bind, Except.bind] at h
    cases h1 : f x with
    | error e => rw [h1] at h; simp at h
    | ok y =>
      rw [h1] at h
      simp only at h
      cases h2 : l.mapM f with
      | error e => rw [h2] at h; simp at h
      | ok ys =>
        rw [h2] at h
        simp only [pure, Except.pure, Except.ok.injEq] at h
        subst h
        have hy := hf x (by simp) y h1
        subst hy
        obtain ⟨a, b⟩ := ih ys h2 (fun z hz => hf z (by simp [hz]))
        subst a
        refine ⟨rfl, ?_⟩
        intro z hz
        simp only [List.mem_cons] at hz
        rcases hz with rfl | hz
        · exact h1
        · exact b z hz

/-! ### elements -/

theorem SElem.canCopy_iff (x : SElem) : x.canCopy = true ↔ x.val.isPlain := Elem.canCopy_iff _

theorem SElem.copy_eq {x x' : SElem} (h : x.copyNonRefSimple = .ok x') : x' = x ∧ x.val.isPlain := by
  unfold SElem.copyNonRefSimple at h
  cases h1 : x.val.copyNonRefSimple with
  | error e => rw [h1] at h; simp at h
  | ok v =>
    rw [h1] at h
    have hv := Elem.copy_eq h1
    subst hv
    simp only [Except.ok.injEq] at h
    exact ⟨h.symm, (Elem.copy_ok_iff _).1 ⟨_, h1⟩⟩

theorem SElem.copy_ok {x : SElem} (h : x.val.isPlain) : x.copyNonRefSimple = .ok x := by
  obtain ⟨n, hn⟩ := h
  simp [SElem.copyNonRefSimple, Elem.copyNonRefSimple, hn]

/-- Every key and value of the elements — through inline collision groups at every level — is a
    plain (non-reference) storable, and there is no external collision group (which is a slab
    reference).  (A model key is always a plain value.) -/
def MElems.plain : (r : Nat) → MElems r → Prop
  | 0, (se : SingleElems) => ∀ x ∈ se.elems, x.val.isPlain
  | r + 1, (he : HkeyElems (MElems r)) =>
    ∀ el ∈ he.elems,
      match el with
      | .single x => x.val.isPlain
      | .inl g => MElems.plain r g
      | .ext _ _ _ => False

/-- no external collision group anywhere -/
def MElems.noExt : (r : Nat) → MElems r → Prop
  | 0, _ => True
  | r + 1, (he : HkeyElems (MElems r)) =>
    ∀ el ∈ he.elems,
      match el with
      | .single _ => True
      | .inl g => MElems.noExt r g
      | .ext _ _ _ => False

/-- `plain` in terms of the dictionary content: all values plain, and no external group -/
theorem MElems.plain_iff : ∀ (r : Nat) (e : MElems r),
    MElems.plain r e ↔ (MElems.noExt r e ∧ ∀ p ∈ (MElems.ops r).toList e, p.2.isPlain)
  | 0, e => by
    show (∀ x ∈ (e : SingleElems).elems, x.val.isPlain) ↔
      (True ∧ ∀ p ∈ (e : SingleElems).elems.map (fun x => (x.key, x.val)), p.2.isPlain)
    simp only [true_and, List.mem_map, forall_exists_index, and_imp]
    constructor
    · rintro h p x hx rfl; exact h x hx
    · intro h x hx; exact h _ x hx rfl
  | r + 1, e => by
    have ih := MElems.plain_iff r
    show (∀ el ∈ (e : HkeyElems (MElems r)).elems, _) ↔
      ((∀ el ∈ (e : HkeyElems (MElems r)).elems, _) ∧
        ∀ p ∈ (e : HkeyElems (MElems r)).elems.flatMap (fun el => el.toList (MElems.ops r)), p.2.isPlain)
    simp only [List.mem_flatMap, forall_exists_index, and_imp]
    constructor
    · intro h
      refine ⟨fun el hel => ?_, fun p el hel hp => ?_⟩
      · have := h el hel
        cases el with
        | single x => trivial
        | inl g => exact ((ih g).1 this).1
        | ext _ _ _ => exact this
      · have := h el hel
        cases el with
        | single x =>
          simp only [MElemF.toList, List.mem_singleton] at hp
          subst hp; exact this
        | inl g => exact ((ih g).1 this).2 p hp
        | ext _ _ _ => exact this.elim
    · rintro ⟨h1, h2⟩ el hel
      have a := h1 el hel
      have b := fun p => h2 p el hel
      cases el with
      | single x => exact b (x.key, x.val) (by simp [MElemF.toList])
      | inl g => exact (ih g).2 ⟨a, fun p hp => b p hp⟩
      | ext _ _ _ => exact a

theorem MElems.canCopy_iff : ∀ (r : Nat) (e : MElems r), MElems.canCopy r e = true ↔ MElems.plain r e
  | 0, e => by
    show (e : SingleElems).elems.all SElem.canCopy = true ↔ ∀ x ∈ (e : SingleElems).elems, x.val.isPlain
    simp [List.all_eq_true, SElem.canCopy_iff]
  | r + 1, e => by
    have ih := MElems.canCopy_iff r
    show (e : HkeyElems (MElems r)).elems.all _ = true ↔ ∀ el ∈ (e : HkeyElems (MElems r)).elems, _
    simp only [List.all_eq_true]
    constructor
    · intro h el hel
      have := h el hel
      cases el with
      | single x => exact (SElem.canCopy_iff x).1 this
      | inl g => exact (ih g).1 this
      | ext _ _ _ => simp at this
    · intro h el hel
      have := h el hel
      cases el with
      | single x => exact (SElem.canCopy_iff x).2 this
      | inl g => exact (ih g).2 this
      | ext _ _ _ => exact this.elim

/-- a successful copy of elements is the same elements, and they were plain -/
theorem MElems.copy_eq : ∀ (r : Nat) (e e' : MElems r),
    MElems.copyNonRefSimple r e = .ok e' → e' = e ∧ MElems.plain r e
  | 0, e, e' => by
    intro h
    have h : (match (e : SingleElems).elems.mapM SElem.copyNonRefSimple with
      | .ok l => Except.ok ({ elems := l, size := (e : SingleElems).size, level := (e : SingleElems).level } : SingleElems)
      | .error x => .error x) = .ok e' := h
    cases hm : (e : SingleElems).elems.mapM SElem.copyNonRefSimple with
    | error x => rw [hm] at h; simp at h
    | ok l =>
      rw [hm] at h
      obtain ⟨hl, hall⟩ := mapM_except_self _ _ _ hm (fun x _ y hy => (SElem.copy_eq hy).1)
      subst hl
      refine ⟨(Except.ok.inj h).symm, ?_⟩
      show ∀ x ∈ (e : SingleElems).elems, x.val.isPlain
      intro x hx
      exact (SElem.copy_eq (hall x hx)).2
  | r + 1, e, e' => by
    intro h
    have ih := MElems.copy_eq r
    let f : MElemF (MElems r) → Except BErr (MElemF (MElems r)) := fun el =>
      match el with
      | .single x => (SElem.copyNonRefSimple x).map MElemF.single
      | .inl g => (MElems.copyNonRefSimple r g).map MElemF.inl
      | .ext _ _ _ => .error .copyFailed
    have h : (match (e : HkeyElems (MElems r)).elems.mapM f with
      | .ok l => Except.ok ({ hkeys := (e : HkeyElems (MElems r)).hkeys, elems := l,
                              size := (e : HkeyElems (MElems r)).size,
                              level := (e : HkeyElems (MElems r)).level } : HkeyElems (MElems r))
      | .error x => .error x) = .ok e' := h
    have hf : ∀ el y, f el = .ok y → y = el ∧
        (match el with
          | .single x => x.val.isPlain
          | .inl g => MElems.plain r g
          | .ext _ _ _ => False) := by
      intro el y hy
      cases el with
      | single x =>
        simp only [f, Except.map] at hy
        cases hx : x.copyNonRefSimple with
        | error e => rw [hx] at hy; simp at hy
        | ok x' =>
          rw [hx] at hy
          simp only [Except.ok.injEq] at hy
          obtain ⟨a, b⟩ := SElem.copy_eq hx
          subst a; exact ⟨hy.symm, b⟩
      | inl g =>
        simp only [f, Except.map] at hy
        cases hx : MElems.copyNonRefSimple r g with
        | error e => rw [hx] at hy; simp at hy
        | ok g' =>
          rw [hx] at hy
          simp only [Except.ok.injEq] at hy
          obtain ⟨a, b⟩ := ih g g' hx
          subst a; exact ⟨hy.symm, b⟩
      | ext _ _ _ => simp [f] at hy
    cases hm : (e : HkeyElems (MElems r)).elems.mapM f with
    | error x => rw [hm] at h; simp at h
    | ok l =>
      rw [hm] at h
      obtain ⟨hl, hall⟩ := mapM_except_self _ _ _ hm (fun x _ y hy => (hf x y hy).1)
      subst hl
      refine ⟨(Except.ok.inj h).symm, ?_⟩
      show ∀ el ∈ (e : HkeyElems (MElems r)).elems, _
      intro el hel
      exact (hf el el (hall el hel)).2

/-- plain elements are copied -/
theorem MElems.copy_ok : ∀ (r : Nat) (e : MElems r), MElems.plain r e →
    MElems.copyNonRefSimple r e = .ok e
  | 0, e => by
    intro hp
    show (match (e : SingleElems).elems.mapM SElem.copyNonRefSimple with
      | .ok l => Except.ok ({ elems := l, size := (e : SingleElems).size, level := (e : SingleElems).level } : SingleElems)
      | .error x => .error x) = .ok e
    rw [mapM_except_ok _ _ (fun x hx => SElem.copy_ok (hp x hx))]
    exact rfl
  | r + 1, e => by
    intro hp
    have ih := MElems.copy_ok r
    let f : MElemF (MElems r) → Except BErr (MElemF (MElems r)) := fun el =>
      match el with
      | .single x => (SElem.copyNonRefSimple x).map MElemF.single
      | .inl g => (MElems.copyNonRefSimple r g).map MElemF.inl
      | .ext _ _ _ => .error .copyFailed
    show (match (e : HkeyElems (MElems r)).elems.mapM f with
      | .ok l => Except.ok ({ hkeys := (e : HkeyElems (MElems r)).hkeys, elems := l,
                              size := (e : HkeyElems (MElems r)).size,
                              level := (e : HkeyElems (MElems r)).level } : HkeyElems (MElems r))
      | .error x => .error x) = .ok e
    have hp : ∀ el ∈ (e : HkeyElems (MElems r)).elems, _ := hp
    have hall : ∀ el ∈ (e : HkeyElems (MElems r)).elems, f el = .ok el := by
      intro el hel
      have := hp el hel
      cases el with
      | single x => simp only [f, SElem.copy_ok this, Except.map]
      | inl g => simp only [f, ih g this, Except.map]
      | ext _ _ _ => exact this.elim
    rw [mapM_except_ok _ _ hall]
    exact rfl

/-! ### slabs and maps -/

variable {r : Nat}

/-- a map data slab seen as a tree of depth 0 -/
def ofMData (s : MDataSlab r) : MTree r 0 := s

@[elab_as_elim]
theorem forall_ofMData {P : MTree r 0 → Prop} (h : ∀ s, P (ofMData s)) (t : MTree r 0) : P t := h t

/-- the root of a single-slab map -/
def OMap.singleData (m : OMap r) : Option (MDataSlab r) :=
  match m with
  | ⟨0, (s : MDataSlab r), _, _, _⟩ => some s
  | ⟨_ + 1, _, _, _, _⟩ => none

theorem OMap.singleData_zero (s : MDataSlab r) (ty count seed : Nat) :
    OMap.singleData ⟨0, ofMData s, ty, count, seed⟩ = some s := rfl
theorem OMap.canCopy_zero (s : MDataSlab r) (ty count seed : Nat) :
    OMap.canCopyNonRefSimple ⟨0, ofMData s, ty, count, seed⟩ = s.canCopyWithoutSlabID := rfl
theorem OMap.copy_zero (s : MDataSlab r) (ty count seed addr : Nat) (c : Ctx) :
    OMap.copyNonRefSimple ⟨0, ofMData s, ty, count, seed⟩ addr c =
      (match s.copyWithNewSlabID (c.alloc addr).1 with
       | .error e => .error (e, (c.alloc addr).2)
       | .ok s' => .ok (⟨0, ofMData s', ty, count, seed⟩, (c.alloc addr).2.emit (.store (c.alloc addr).1))) := rfl

theorem MDataSlab.canCopy_iff (s : MDataSlab r) :
    s.canCopyWithoutSlabID = true ↔ s.next = SlabID.undef ∧ MElems.plain (r + 1) s.elems := by
  unfold MDataSlab.canCopyWithoutSlabID
  have h := MElems.canCopy_iff (r + 1) s.elems
  rw [Bool.and_eq_true, beq_iff_eq]
  exact and_congr Iff.rfl h

/-- C17: the copy of a map is offered exactly when the map is a single data slab without a right
    sibling, all of whose keys and values — through inline collision groups — are plain values,
    with no external collision group. -/
theorem OMap.canCopy_iff (m : OMap r) :
    m.canCopyNonRefSimple = true ↔
      ∃ s, m.singleData = some s ∧ s.next = SlabID.undef ∧ MElems.plain (r + 1) s.elems := by
  obtain ⟨d, root, ty, count, seed⟩ := m
  cases d with
  | zero =>
    refine forall_ofMData ?_ root; intro s
    rw [OMap.canCopy_zero, OMap.singleData_zero, MDataSlab.canCopy_iff]
    constructor
    · intro h; exact ⟨s, rfl, h⟩
    · rintro ⟨s', hs, h⟩
      have : s = s' := by simpa using hs
      subst this; exact h
  | succ d =>
    constructor
    · intro h; exact absurd h (by simp [OMap.canCopyNonRefSimple])
    · rintro ⟨s, hs, _⟩; simp [OMap.singleData] at hs

/-- the copy of data slab `s` with the fresh ID `id` -/
def MDataSlab.copyOf (s : MDataSlab r) (id : SlabID) : MDataSlab r :=
  { hdr := { id := id, firstKey := s.hdr.firstKey,
             size := if s.inlined then
                       s.hdr.size - inlinedMapDataSlabPrefixSize + mapRootDataSlabPrefixSize
                     else s.hdr.size },
    next := SlabID.undef, elems := s.elems, root := s.root, inlined := false }

theorem MDataSlab.copy_eq (s s' : MDataSlab r) (id : SlabID) (h : s.copyWithNewSlabID id = .ok s') :
    s' = s.copyOf id ∧ s.next = SlabID.undef ∧ MElems.plain (r + 1) s.elems := by
  unfold MDataSlab.copyWithNewSlabID at h
  by_cases hn : s.next = SlabID.undef
  · simp only [hn, ne_eq, not_true_eq_false, if_false] at h
    cases hm : MElems.copyNonRefSimple (r + 1) s.elems with
    | error x => rw [hm] at h; simp at h
    | ok es =>
      rw [hm] at h
      obtain ⟨he, hp⟩ := MElems.copy_eq _ _ _ hm
      subst he
      exact ⟨(Except.ok.inj h).symm, hn, hp⟩
  · simp [hn] at h

theorem MDataSlab.copy_ok (s : MDataSlab r) (id : SlabID) (hn : s.next = SlabID.undef)
    (hp : MElems.plain (r + 1) s.elems) : s.copyWithNewSlabID id = .ok (s.copyOf id) := by
  unfold MDataSlab.copyWithNewSlabID
  simp only [hn, ne_eq, not_true_eq_false, if_false, MElems.copy_ok _ _ hp]
  rfl

/-- what a successful copy looks like -/
theorem OMap.copy_ok_shape (m : OMap r) (addr : Nat) (c : Ctx) (m' : OMap r) (c' : Ctx)
    (h : m.copyNonRefSimple addr c = .ok (m', c')) :
    ∃ s, m.singleData = some s ∧ s.next = SlabID.undef ∧ MElems.plain (r + 1) s.elems ∧
      m' = ⟨0, ofMData (s.copyOf ⟨addr, c.ctr + 1⟩), m.ty, m.count, m.seed⟩ ∧
      c'.ctr = c.ctr + 1 ∧
      c'.eff = c.eff ++ [.alloc addr ⟨addr, c.ctr + 1⟩, .store ⟨addr, c.ctr + 1⟩] ∧
      c'.created = c.created := by
  obtain ⟨d, root, ty, count, seed⟩ := m
  cases d with
  | succ d => simp [OMap.copyNonRefSimple] at h
  | zero =>
    revert h
    refine forall_ofMData ?_ root; intro s h
    rw [OMap.copy_zero] at h
    cases hc : s.copyWithNewSlabID (c.alloc addr).1 with
    | error x => rw [hc] at h; simp at h
    | ok s1 =>
      rw [hc] at h
      obtain ⟨h1, h2, h3⟩ := MDataSlab.copy_eq _ _ _ hc
      simp only [Except.ok.injEq, Prod.mk.injEq] at h
      obtain ⟨e1, e2⟩ := h
      refine ⟨s, rfl, h2, h3, ?_, ?_, ?_, ?_⟩
      · rw [← e1, h1]; rfl
      · rw [← e2]; rfl
      · rw [← e2]; simp [Ctx.emit, Ctx.alloc]
      · rw [← e2]; rfl

/-- C17: an offered copy succeeds — and a copy succeeds only when it is offered. -/
theorem OMap.copy_ok_iff (m : OMap r) (addr : Nat) (c : Ctx) :
    (∃ m' c', m.copyNonRefSimple addr c = .ok (m', c')) ↔ m.canCopyNonRefSimple = true := by
  constructor
  · rintro ⟨m', c', h⟩
    obtain ⟨s, h1, h2, h3, _⟩ := OMap.copy_ok_shape m addr c m' c' h
    exact (OMap.canCopy_iff m).2 ⟨s, h1, h2, h3⟩
  · intro h
    obtain ⟨s, h1, h2, h3⟩ := (OMap.canCopy_iff m).1 h
    obtain ⟨d, root, ty, count, seed⟩ := m
    cases d with
    | succ d => simp [OMap.singleData] at h1
    | zero =>
      revert h h1
      refine forall_ofMData ?_ root; intro s0 _ h1
      have : s0 = s := by simpa [OMap.singleData_zero] using h1
      subst this
      rw [OMap.copy_zero, MDataSlab.copy_ok _ _ h2 h3]
      exact ⟨_, _, rfl⟩

/-- C17: the copy has the same pairs in the same order, and the type, count and seed of the
    source; it is standalone and its only slab is the one allocated during the call. -/
theorem OMap.copy_content (m : OMap r) (addr : Nat) (c : Ctx) (m' : OMap r) (c' : Ctx)
    (h : m.copyNonRefSimple addr c = .ok (m', c')) :
    m'.toList = m.toList ∧ m'.ty = m.ty ∧ m'.count = m.count ∧ m'.seed = m.seed ∧
      m'.isInlined = false ∧ m'.rootID = ⟨addr, c.ctr + 1⟩ ∧ m'.d = 0 := by
  obtain ⟨s, h1, _, _, h4, _⟩ := OMap.copy_ok_shape m addr c m' c' h
  obtain ⟨d, root, ty, count, seed⟩ := m
  cases d with
  | succ d => simp [OMap.singleData] at h1
  | zero =>
    revert h1 h4
    refine forall_ofMData ?_ root; intro s0 h1 h4
    have : s0 = s := by simpa [OMap.singleData_zero] using h1
    subst this h4
    exact ⟨rfl, rfl, rfl, rfl, rfl, rfl, rfl⟩

/-- C17: the size of the copy is re-based to the root prefix — also when the source is inlined. -/
theorem OMap.copy_size_rebased (m : OMap r) (addr : Nat) (c : Ctx) (m' : OMap r) (c' : Ctx)
    (h : m.copyNonRefSimple addr c = .ok (m', c')) (s : MDataSlab r) (hs : m.singleData = some s)
    (hsz : s.hdr.size = s.prefixSize + s.elems.size) (hroot : s.root = true) :
    ∃ s', m'.singleData = some s' ∧ s'.hdr.size = mapRootDataSlabPrefixSize + s'.elems.size ∧
      s'.elems = s.elems := by
  obtain ⟨s1, h1, _, _, h4, _⟩ := OMap.copy_ok_shape m addr c m' c' h
  rw [hs] at h1
  have : s = s1 := by simpa using h1
  subst this h4
  refine ⟨s.copyOf _, rfl, ?_, rfl⟩
  simp only [MDataSlab.copyOf]
  rw [hsz]
  unfold MDataSlab.prefixSize
  cases hi : s.inlined
  · simp [hroot]
  · simp only [if_true, inlinedMapDataSlabPrefixSize, mapRootDataSlabPrefixSize]
    omega

/-- C17 (`copy_inv`, maps): the copy of a valid root data slab — standalone or inlined — is a
    valid standalone map. -/
theorem OMap.copy_inv (T : Nat) (D : DigestFn (r + 1)) (m : OMap r) (addr : Nat) (c : Ctx)
    (m' : OMap r) (c' : Ctx) (h : m.copyNonRefSimple addr c = .ok (m', c'))
    (s : MDataSlab r) (hs : m.singleData = some s) (hinv : MDataInv T D true s)
    (hcount : m.count = m.toList.length) (hdist : KeysDistinct m.toList) :
    MapInv T D m' := by
  obtain ⟨s1, h1, _, _, h4, h5, _⟩ := OMap.copy_ok_shape m addr c m' c' h
  obtain ⟨hl, _, hc, _⟩ := OMap.copy_content m addr c m' c' h
  rw [hs] at h1
  have : s = s1 := by simpa using h1
  subst this
  have hsz := hinv.size_eq
  refine ⟨?_, ?_, by rw [hc, hl]; exact hcount, by rw [hl]; exact hdist, by subst h4; rfl⟩
  · subst h4
    show MDataInv T D true (s.copyOf _)
    refine ⟨hinv.elems_inv, ?_, hinv.first_eq, hinv.root_eq, by simp [MDataSlab.copyOf], ?_, by simp,
      by simp, hinv.elem_le⟩
    · simp only [MDataSlab.copyOf, MDataSlab.prefixSize, Bool.false_eq_true, if_false, hinv.root_eq, if_true]
      rw [hsz]
      unfold MDataSlab.prefixSize
      cases hi : s.inlined
      · simp [hinv.root_eq]
      · simp only [if_true, inlinedMapDataSlabPrefixSize, mapRootDataSlabPrefixSize]; omega
    · have := hinv.le_max
      simp only [MDataSlab.copyOf]
      cases hi : s.inlined
      · simpa using this
      · simp only [if_true]
        rw [hsz] at this ⊢
        unfold MDataSlab.prefixSize at this ⊢
        simp only [hi, if_true, inlinedMapDataSlabPrefixSize, mapRootDataSlabPrefixSize] at this ⊢
        omega
  · subst h4
    show MLeafChain [s.copyOf _]
    simp [MLeafChain, MDataSlab.copyOf]

/-- C17 (`result_ids_fresh`, map copy): the only slab of the copy has the ID allocated during the
    call (the copy has no external collision group, hence no other slab); it differs from every
    slab ID in use before the call. -/
theorem OMap.copy_ids_fresh (m : OMap r) (addr : Nat) (c : Ctx) (m' : OMap r) (c' : Ctx)
    (h : m.copyNonRefSimple addr c = .ok (m', c')) (used : List SlabID)
    (hold : ∀ id ∈ used, id.addr = addr → id.idx ≤ c.ctr) :
    m'.rootID.addr = addr ∧ c.ctr < m'.rootID.idx ∧ m'.rootID.idx ≤ c'.ctr ∧ m'.rootID ∉ used ∧
      ∃ s', m'.singleData = some s' ∧ MElems.noExt (r + 1) s'.elems := by
  obtain ⟨s, _, _, hp, h4, hc, _⟩ := OMap.copy_ok_shape m addr c m' c' h
  obtain ⟨_, _, _, _, _, hid, _⟩ := OMap.copy_content m addr c m' c' h
  rw [hid]
  refine ⟨rfl, by simp, by simp [hc], ?_, ?_⟩
  · intro hmem
    have := hold _ hmem rfl
    simp only at this
    omega
  · subst h4
    exact ⟨s.copyOf _, rfl, ((MElems.plain_iff _ _).1 hp).1⟩

end Atree
