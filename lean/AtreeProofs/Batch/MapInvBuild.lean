import AtreeProofs.Batch.MapLevels
import AtreeProofs.Batch.MapBuild
/-
  C17, bulk build of maps — the result of `NewMapFromBatchData` satisfies the map invariant
  `MapInv`, for every valid input (sorted by first-level digest, pairwise different keys), every
  legal threshold, every digest assignment, every tree depth.
-/
namespace Atree
open Gen MTree MBatch

variable {T r : Nat} {D : DigestFn (r + 1)}

/-! ### root finalisation -/

/-- the root data slab of the result: size re-based to the root prefix, extra data present -/
def asRootData (s : MDataSlab r) : MDataSlab r :=
  { s with hdr := { s.hdr with size := s.hdr.size - mapDataSlabPrefixSize + mapRootDataSlabPrefixSize },
           root := true }

theorem mfinishRoot_ok (hT : legalThreshold T = true) (ty count seed : Nat) :
    ∀ (d : Nat) (t : MTree r d) (c : Ctx), SInv T D d false t → (hdr d t).size ≤ maxThr T → MTopKids d t →
      MLeafChain (leaves d t) →
      ∃ root' : MTree r d, (MBatch.finishRoot ty count seed d t c).1 = ⟨d, root', ty, count, seed⟩ ∧
        MTreeInv T D d true root' ∧ MLeafChain (leaves d root') ∧
        (⟨d, root', ty, count, seed⟩ : OMap r).isInlined = false
  | 0, t, c => by
    refine forall_ofMData ?_ t; intro s hs hmax _ hchain
    have hs : MDataLoose T D false s := hs
    have hinl : s.inlined = false := by
      cases hi : s.inlined with
      | false => rfl
      | true => have := hs.inl_root hi; cases this
    have hsz := hs.size_eq
    rw [hs.prefix_nontop] at hsz
    have hmax' : s.hdr.size ≤ maxThr T := hmax
    have hnext : s.next = SlabID.undef := hchain
    refine ⟨ofMData (asRootData s), rfl, ?_, ?_, hinl⟩
    · show MDataInv T D true (asRootData s)
      rw [mdataInv_iff hT]
      refine ⟨⟨hs.elems_inv, ?_, hs.first_eq, rfl, fun _ => rfl⟩, ?_, by simp⟩
      · show s.hdr.size - mapDataSlabPrefixSize + mapRootDataSlabPrefixSize =
          (asRootData s).prefixSize + s.elems.size
        have hp : (asRootData s).prefixSize = mapRootDataSlabPrefixSize := by
          simp [asRootData, MDataSlab.prefixSize, hinl]
        rw [hp, hsz]
        simp only [mapDataSlabPrefixSize, mapRootDataSlabPrefixSize]
        omega
      · show s.hdr.size - mapDataSlabPrefixSize + mapRootDataSlabPrefixSize ≤ maxThr T
        rw [hsz] at hmax' ⊢
        simp only [mapDataSlabPrefixSize, mapRootDataSlabPrefixSize] at hmax' ⊢
        omega
    · show (asRootData s).next = SlabID.undef
      exact hnext
  | d + 1, t, c => by
    refine forall_ofMMeta ?_ t; intro m hs hmax hk hchain
    obtain ⟨⟨h1, h2, h3, h4, h5, h6, h7, h8⟩, _⟩ := hs
    refine ⟨ofMMeta { m with root := true }, rfl, ?_, hchain, rfl⟩
    exact (mtreeInv_succ_iff T D d true _).mpr ⟨⟨rfl, h2, h3, h4, h5, h6, h7, h8⟩, hmax, by simp, fun _ => hk⟩

/-! ### the level loop -/

/-- what `MBatch.levels` does with the rebalanced level -/
def mafterRebalance (T addr ty count seed fuel d : Nat) (R : Except MErr (List (MTree r d))) (c : Ctx) :
    BRes (OMap r × Ctx) :=
  match R with
  | .error e => .error (.map e, c)
  | .ok [] => .error (.map .goPanic, c)
  | .ok [root] => .ok (MBatch.finishRoot ty count seed d root c)
  | .ok slabs' =>
    MBatch.levels T addr ty count seed fuel (d + 1) (nextLevelMapSlabs T addr d slabs' (MBatch.storeAll d slabs' c)).1
      (nextLevelMapSlabs T addr d slabs' (MBatch.storeAll d slabs' c)).2

theorem mlevels_single' (T addr ty count seed fuel d : Nat) (root : MTree r d) (c : Ctx) :
    MBatch.levels T addr ty count seed (fuel + 1) d [root] c = .ok (MBatch.finishRoot ty count seed d root c) := rfl
theorem mlevels_many (T addr ty count seed fuel d : Nat) (x y : MTree r d) (rest : List (MTree r d)) (c : Ctx) :
    MBatch.levels T addr ty count seed (fuel + 1) d (x :: y :: rest) c =
      mafterRebalance T addr ty count seed fuel d (MBatch.rebalanceTail T d (x :: y :: rest)) c := rfl
theorem mafterRebalance_single (T addr ty count seed fuel d : Nat) (root : MTree r d) (c : Ctx) :
    mafterRebalance T addr ty count seed fuel d (.ok [root]) c = .ok (MBatch.finishRoot ty count seed d root c) := rfl
theorem mafterRebalance_many (T addr ty count seed fuel d : Nat) (x y : MTree r d) (rest : List (MTree r d)) (c : Ctx) :
    mafterRebalance T addr ty count seed fuel d (.ok (x :: y :: rest)) c =
      MBatch.levels T addr ty count seed fuel (d + 1)
        (nextLevelMapSlabs T addr d (x :: y :: rest) (MBatch.storeAll d (x :: y :: rest) c)).1
        (nextLevelMapSlabs T addr d (x :: y :: rest) (MBatch.storeAll d (x :: y :: rest) c)).2 := rfl

theorem mallOk_root {d addr : Nat} {t : MTree r d} (h : MAllOk T D d addr [t]) :
    SInv T D d false t ∧ (hdr d t).size ≤ maxThr T ∧ MTopKids d t ∧ MLeafChain (leaves d t) := by
  obtain ⟨a, b, c⟩ := h.single t rfl
  exact ⟨a, b, c, by simpa using h.chain⟩

/-- the result of the bulk build is a valid standalone map tree -/
structure MBuiltOk (T : Nat) (D : DigestFn (r + 1)) (m : OMap r) : Prop where
  tree : MTreeInv T D m.d true m.root
  chain : MLeafChain (leaves m.d m.root)
  standalone : m.isInlined = false

theorem mfinishRoot_built (hT : legalThreshold T = true) (ty count seed d : Nat) (t : MTree r d) (c : Ctx)
    (h1 : SInv T D d false t) (h2 : (hdr d t).size ≤ maxThr T) (h3 : MTopKids d t)
    (h4 : MLeafChain (leaves d t)) : MBuiltOk T D (MBatch.finishRoot ty count seed d t c).1 := by
  obtain ⟨root', e, a, b, c'⟩ := mfinishRoot_ok (D := D) hT ty count seed d t c h1 h2 h3 h4
  rw [e]
  exact ⟨a, b, c'⟩

/-- The level loop: from a level satisfying `MLevelOk` to a valid root. -/
theorem mlevels_ok (hT : legalThreshold T = true) (addr ty count seed : Nat) :
    ∀ (fuel d : Nat) (A : List (MTree r d)) (z : MTree r d) (c : Ctx), MLevelOk T D d addr A z →
      (A ++ [z]).length ≤ fuel →
      ∃ m c', MBatch.levels T addr ty count seed fuel d (A ++ [z]) c = .ok (m, c') ∧ MBuiltOk T D m := by
  intro fuel
  induction fuel with
  | zero => intro d A z c _ hlen; simp at hlen
  | succ fuel ih =>
    intro d A z c hL hlen
    obtain ⟨R, hR, hall, hlen2⟩ := mrebalanceTail_ok hT hL
    match hX : A ++ [z] with
    | [] => simp at hX
    | [root] =>
      rw [hX] at hR hlen2
      have hR' : R = [root] := by
        have : MBatch.rebalanceTail T d [root] = .ok [root] := rfl
        rw [this] at hR; exact (Except.ok.inj hR).symm
      subst hR'
      obtain ⟨r1, r2, r3, r4⟩ := mallOk_root hall
      exact ⟨_, _, mlevels_single' .., mfinishRoot_built hT ty count seed d root c r1 r2 r3 r4⟩
    | x :: y :: rest =>
      rw [hX] at hR hlen2 hlen
      rw [mlevels_many, hR]
      match R, hall.ne, hall, hlen2 with
      | [root], _, hall, _ =>
        obtain ⟨r1, r2, r3, r4⟩ := mallOk_root hall
        exact ⟨_, _, mafterRebalance_single .., mfinishRoot_built hT ty count seed d root c r1 r2 r3 r4⟩
      | x' :: y' :: rest', _, hall, hlen2 =>
        rw [mafterRebalance_many]
        obtain ⟨A2, z2, e1, e2, e3⟩ := mnextLevel_ok hT (MBatch.storeAll d (x' :: y' :: rest') c) hall (by simp)
        rw [e1]
        exact ih (d + 1) A2 z2 _ e2 (by simp only [List.length_cons] at hlen hlen2 e3 ⊢; omega)

/-! ### the whole build -/

/-- a list of map data slabs seen as a level of trees of depth 0 -/
def asMDatas (L : List (MDataSlab r)) : List (MTree r 0) := L

theorem asMDatas_append (A B : List (MDataSlab r)) : asMDatas (A ++ B) = asMDatas A ++ asMDatas B := rfl
theorem asMDatas_single (s : MDataSlab r) : asMDatas [s] = [ofMData s] := rfl

theorem mdata_flatMap_leaves (L : List (MDataSlab r)) : (asMDatas L).flatMap (leaves 0) = L := by
  induction L with
  | nil => rfl
  | cons s L ih =>
    show leaves 0 (ofMData s) ++ (asMDatas L).flatMap (leaves 0) = _
    rw [ih]; rfl

theorem mdata_flatMap_digests (L : List (MDataSlab r)) :
    (asMDatas L).flatMap (digests0 0) = L.flatMap (fun s => s.elems.hkeys) := by
  induction L with
  | nil => rfl
  | cons s L ih =>
    show digests0 0 (ofMData s) ++ (asMDatas L).flatMap (digests0 0) = _
    rw [ih]; rfl

/-- the data slabs left by the element loop form a level of depth 0 -/
theorem mfill_level (hT : legalThreshold T = true) {cfg : MCfg} {st : FillState r}
    {proc : List (MKey × Elem)} (h : MFillOk T r D cfg st proc) :
    MLevelOk T D 0 cfg.addr (asMDatas st.slabs) (ofMData (mkData st.id SlabID.undef st.elements)) := by
  have hsz := fill_size_le hT h.hinv h.init_lt
  have hsplit : asMDatas st.slabs ++ [ofMData (mkData st.id SlabID.undef st.elements)] =
      asMDatas (st.slabs ++ [mkData st.id SlabID.undef st.elements]) := rfl
  refine ⟨?_, ?_, hsz.1, fun _ => trivial, ?_, ?_, ?_⟩
  · intro t ht
    have ht' : (t : MDataSlab r) ∈ st.slabs := ht
    revert ht'
    refine forall_ofMData ?_ t
    intro s hs
    exact (mtreeInv_zero_iff T D false s).mpr (h.closed_data s hs)
  · show MDataLoose T D false (mkData st.id SlabID.undef st.elements)
    exact ⟨(elemsInv_succ_iff T (r + 1) D r 0 [] st.elements).2 h.hinv, rfl, rfl, rfl, by simp [mkData]⟩
  · rw [hsplit, mdata_flatMap_leaves, mLeafChain_iff, chainTo_append]
    exact ⟨by simpa [firstId, mkData] using h.chain, by simp [ChainTo, mkData]⟩
  · rw [hsplit, mdata_flatMap_digests]
    simpa [List.flatMap_append, mkData] using h.all_sorted
  · intro t ht
    rw [hsplit] at ht
    have ht' : (t : MDataSlab r) ∈ st.slabs ++ [mkData st.id SlabID.undef st.elements] := ht
    revert ht'
    refine forall_ofMData ?_ t
    intro s hs
    rcases List.mem_append.mp hs with hs | hs
    · exact h.addr_ok.2 s hs
    · have : s = mkData st.id SlabID.undef st.elements := List.mem_singleton.mp hs
      subst this
      exact h.addr_ok.1

/-- C17 (`batch_map_inv`): for every legal threshold, every digest assignment, every stream of
    pairs that is sorted by first-level digest and has pairwise different keys (keys within the
    key limit, plain values of any size ≥ 1) and a non-zero seed, `NewMapFromBatchData` succeeds
    and its result satisfies the map invariant `MapInv`, keeps the seed, records type and count,
    and holds exactly the input pairs with values in stored form. -/
theorem fromBatchData_inv (hT : legalThreshold T = true) {cfg : MCfg} (hc : CfgFor cfg T (r + 1))
    (ty seed : Nat) (hseed : seed ≠ 0) (kvs : List (MKey × Elem))
    (hkv : ∀ p ∈ kvs, KeyOk T (r + 1) D p.1 ∧ ValueOkM p.2)
    (hs : (kvs.map (fun p => p.1.dig 0)).Pairwise (· ≤ ·)) (hd : KeysDistinct kvs) (c : Ctx) :
    ∃ (m : OMap r) (c' : Ctx), OMap.fromBatchData cfg ty seed kvs c = .ok (m, c') ∧ MapInv T D m ∧
      m.seed = seed ∧ m.ty = ty ∧ m.count = kvs.length ∧
      ∃ cs : List Ctx, cs.length = kvs.length ∧
        m.toList.Perm (List.zipWith (fun p c => (p.1, storedValue cfg p.1 p.2 c)) kvs cs) := by
  obtain ⟨st, cf, hfill, hok⟩ := fillLoop_complete (D := D) hT hc kvs hkv hs hd (c.alloc cfg.addr).1 rfl
    (c.alloc cfg.addr).2
  have hlevel := mfill_level hT hok
  obtain ⟨m, c', hlev, hbuilt⟩ := mlevels_ok (D := D) hT cfg.addr ty st.count seed
    (asMDatas st.slabs ++ [ofMData (mkData st.id SlabID.undef st.elements)]).length 0
    (asMDatas st.slabs) (ofMData (mkData st.id SlabID.undef st.elements)) cf hlevel (Nat.le_refl _)
  have hres : OMap.fromBatchData cfg ty seed kvs c = .ok (m, c') := by
    unfold OMap.fromBatchData
    simp only [hseed, if_false, hfill]
    rw [hc.hT]
    exact hlev
  obtain ⟨_, hseed', hty, hcount, _, st2, cf2, hfill2, hto⟩ := fromBatchData_ok_facts cfg ty seed kvs c m c' hres
  obtain ⟨_, hperm, hdist⟩ := fromBatchData_sound hT hc ty seed kvs hkv c m c' hres
  refine ⟨m, c', hres, ⟨hbuilt.tree, hbuilt.chain, ?_, hdist, hbuilt.standalone⟩, hseed', hty, hcount, hperm⟩
  obtain ⟨cs, hcs, hp⟩ := hperm
  rw [hcount, hp.length_eq, List.length_zipWith, hcs, Nat.min_self]

end Atree
