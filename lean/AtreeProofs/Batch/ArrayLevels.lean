import AtreeProofs.Batch.ArrayFill
/-
  C17, bulk build of arrays — one round of the level loop:
  `rebalanceTail` ("Rebalance last slab if needed": `LendToRight` or `Merge`) brings the last slab
  of a level into the size band, `nextLevelArraySlabs` groups the level into index slabs that
  again satisfy the level invariant one level up.
-/
namespace Atree
open Gen ATree MetaSlab ABatch

variable {T : Nat}

/-- an index slab has at least `n` children (vacuous for data slabs) -/
def KidsGe : (d : Nat) → Nat → ATree d → Prop
  | 0, _, _ => True
  | d + 1, n, (m : MetaSlab (ATree d)) => n ≤ m.children.length

@[simp] theorem kidsGe_zero (n : Nat) (t : ATree 0) : KidsGe 0 n t ↔ True := Iff.rfl
@[simp] theorem kidsGe_succ (d n : Nat) (m : MetaSlab (ATree d)) :
    KidsGe (d + 1) n (ofMeta m) ↔ n ≤ m.children.length := Iff.rfl

theorem topKids_of_inv (hT : legalThreshold T = true) : ∀ {d : Nat} {t : ATree d},
    TreeInv T d false t → TopKids d t
  | 0, _, _ => trivial
  | d + 1, t, h => by
    revert h; refine forall_ofMeta ?_ t; intro m h
    exact two_kids hT h

/-- A level of the tree under construction: `A` are finished slabs, `z` is the last slab, which
    may still be underfull. -/
structure LevelOk (T d addr lo ctr : Nat) (A : List (ATree d)) (z : ATree d) : Prop where
  inv : ∀ t ∈ A, TreeInv T d false t
  shape : Shape T d false z
  le_max : (hdr d z).size ≤ maxThr T
  kid1 : KidsGe d 1 z
  kid2 : A = [] → TopKids d z
  chain : LeafChain ((A ++ [z]).flatMap (Arr.leaves d))
  ids : IdsOk addr ctr ((A ++ [z]).flatMap (slabIds d))
  fresh : ∀ id ∈ (A ++ [z]).flatMap (slabIds d), lo < id.idx
  lo_le : lo ≤ ctr

/-- A level after the tail step: every slab is within the band (if there are at least two); a
    single slab is a root candidate. -/
structure AllOk (T d addr lo ctr : Nat) (R : List (ATree d)) : Prop where
  ne : R ≠ []
  inv : 2 ≤ R.length → ∀ t ∈ R, TreeInv T d false t
  single : ∀ t, R = [t] → Shape T d false t ∧ (hdr d t).size ≤ maxThr T ∧ TopKids d t
  chain : LeafChain (R.flatMap (Arr.leaves d))
  ids : IdsOk addr ctr (R.flatMap (slabIds d))
  fresh : ∀ id ∈ R.flatMap (slabIds d), lo < id.idx
  lo_le : lo ≤ ctr

theorem mem_slabIds_of_mem {d : Nat} {X : List (ATree d)} {t : ATree d} (h : t ∈ X) :
    (hdr d t).id ∈ X.flatMap (slabIds d) :=
  List.mem_flatMap.2 ⟨t, h, hdr_id_mem_slabIds d t⟩

theorem rebalanceTail_cons (T d : Nat) (x : ATree d) (L : List (ATree d)) (h : 2 ≤ L.length) :
    rebalanceTail T d (x :: L) = x :: rebalanceTail T d L := by
  match L, h with
  | y :: z :: rest, _ => rfl

theorem rebalanceTail_append2 (T d : Nat) (A : List (ATree d)) (y z : ATree d) :
    rebalanceTail T d (A ++ [y, z]) = A ++ rebalanceTail T d [y, z] := by
  induction A with
  | nil => rfl
  | cons x A ih =>
    rw [List.cons_append, rebalanceTail_cons T d x _ (by simp), ih]
    rfl

/-- the tail step on the last two slabs -/
theorem rebalancePair_ok (hT : legalThreshold T = true) (d : Nat) (y z : ATree d) (c : Nat)
    (hy : TreeInv T d false y) (hz : Shape T d false z) (hmax : (hdr d z).size ≤ maxThr T)
    (haddr : (hdr d z).id.addr = (hdr d y).id.addr) :
    (∀ t ∈ rebalanceTail T d [y, z], TreeInv T d false t) ∧ Repl d [y, z] (rebalanceTail T d [y, z]) c c := by
  by_cases hu : (hdr d z).size < minThr T
  · have hund := isUnderflow_some T d z hu
    by_cases hcan : ATree.canLendToRight T d y (minThr T - (hdr d z).size) = true
    · have hr := lend_ok hT c d y z hy hz hu haddr hcan
      have heq : rebalanceTail T d [y, z] = [(ATree.lendToRight T d y z).1, (ATree.lendToRight T d y z).2] := by
        simp only [rebalanceTail, hund, hcan, if_true]
      rw [heq]
      refine ⟨?_, hr.repl⟩
      intro t ht
      simp only [List.mem_cons, List.not_mem_nil, or_false] at ht
      rcases ht with rfl | rfl
      · exact hr.invl
      · exact hr.invr
    · have hcan' : ATree.canLendToRight T d y (minThr T - (hdr d z).size) = false := by
        cases h : ATree.canLendToRight T d y (minThr T - (hdr d z).size) <;> simp_all
      have heq : rebalanceTail T d [y, z] = [ATree.merge d y z] := by
        simp only [rebalanceTail, hund, hcan']
        simp
      rw [heq]
      obtain ⟨b1, b2⟩ := merge_band hT d y z (minThr T - (hdr d z).size) hy hz rfl hu (Or.inr hcan')
      obtain ⟨a1, a2, a3, a4, a5, a6⟩ := merge_ok (T := T) c d y z hy.shape_false hz haddr
      refine ⟨?_, a6⟩
      intro t ht
      simp only [List.mem_singleton] at ht
      rw [ht, treeInv_false_iff]
      exact ⟨a1, by omega, by omega⟩
  · have hnone := isUnderflow_none T d z (by omega)
    have heq : rebalanceTail T d [y, z] = [y, z] := by
      simp only [rebalanceTail, hnone]
    rw [heq]
    refine ⟨?_, Repl.refl _ _⟩
    intro t ht
    simp only [List.mem_cons, List.not_mem_nil, or_false] at ht
    rcases ht with rfl | rfl
    · exact hy
    · rw [treeInv_false_iff]; exact ⟨hz, by omega, hmax⟩

theorem rebalanceTail_ok (hT : legalThreshold T = true) {d addr lo ctr : Nat} {A : List (ATree d)}
    {z : ATree d} (h : LevelOk T d addr lo ctr A z) :
    AllOk T d addr lo ctr (rebalanceTail T d (A ++ [z])) ∧
      (rebalanceTail T d (A ++ [z])).length ≤ (A ++ [z]).length := by
  refine ⟨?_, (rebalanceTail_length T d _).1⟩
  rcases List.eq_nil_or_concat A with hA | ⟨A', y, hA⟩
  · subst hA
    have heq : rebalanceTail T d ([] ++ [z]) = [z] := rfl
    rw [heq]
    refine ⟨by simp, by simp, ?_, by simpa using h.chain, by simpa using h.ids, by simpa using h.fresh, h.lo_le⟩
    intro t ht
    have : z = t := by simpa using ht
    subst this
    exact ⟨h.shape, h.le_max, h.kid2 rfl⟩
  · rw [List.concat_eq_append] at hA
    subst hA
    have hy : TreeInv T d false y := h.inv y (by simp)
    have hA' : ∀ t ∈ A', TreeInv T d false t := fun t ht => h.inv t (by simp [ht])
    have hidy := (h.ids.2 (hdr d y).id (mem_slabIds_of_mem (by simp))).1
    have hidz := (h.ids.2 (hdr d z).id (mem_slabIds_of_mem (by simp))).1
    obtain ⟨hinv2, hrepl⟩ := rebalancePair_ok hT d y z ctr hy h.shape h.le_max (by rw [hidy, hidz])
    have hsplit : A' ++ [y] ++ [z] = A' ++ [y, z] ++ [] := by simp
    have heq : rebalanceTail T d (A' ++ [y] ++ [z]) = A' ++ rebalanceTail T d [y, z] ++ [] := by
      rw [hsplit, List.append_nil, rebalanceTail_append2, List.append_nil]
    have hrc := hrepl.ctx A' []
    have hch : LeafChain ((A' ++ [y, z] ++ []).flatMap (Arr.leaves d)) := by rw [← hsplit]; exact h.chain
    have hids : IdsOk addr ctr ((A' ++ [y, z] ++ []).flatMap (slabIds d)) := by rw [← hsplit]; exact h.ids
    have hfr : ∀ id ∈ (A' ++ [y, z] ++ []).flatMap (slabIds d), lo < id.idx := by rw [← hsplit]; exact h.fresh
    rw [heq]
    obtain ⟨i1, i2⟩ := hrc.ids addr hids
    have hne2 : rebalanceTail T d [y, z] ≠ [] := (rebalanceTail_length T d [y, z]).2 (by simp)
    refine ⟨by simp [hne2], ?_, ?_, hrc.chain.leafChain hch, i1, ?_, h.lo_le⟩
    · intro _ t ht
      simp only [List.append_nil, List.mem_append] at ht
      rcases ht with ht | ht
      · exact hA' t ht
      · exact hinv2 t ht
    · intro t ht
      have hmem : t ∈ A' ++ rebalanceTail T d [y, z] ++ [] := by rw [ht]; simp
      simp only [List.append_nil, List.mem_append] at hmem
      have hti : TreeInv T d false t := by
        rcases hmem with hm | hm
        · exact hA' t hm
        · exact hinv2 t hm
      exact ⟨hti.shape_false, hti.le_max, topKids_of_inv hT hti⟩
    · intro id hid
      rcases i2 id hid with h1 | h1
      · exact hfr id h1
      · have := h.lo_le; omega

/-! ### `nextLevelArraySlabs` -/

/-- an index slab under construction -/
structure MetaOk (T d addr c0 ctr : Nat) (m : MetaSlab (ATree d)) : Prop where
  shape : MShape T d false m
  addr_eq : m.hdr.id.addr = addr
  idx_gt : c0 < m.hdr.id.idx
  idx_le : m.hdr.id.idx ≤ ctr

theorem MetaOk.mono {d addr c0 ctr ctr' : Nat} {m : MetaSlab (ATree d)} (h : MetaOk T d addr c0 ctr m)
    (hc : ctr ≤ ctr') : MetaOk T d addr c0 ctr' m :=
  ⟨h.shape, h.addr_eq, h.idx_gt, Nat.le_trans h.idx_le hc⟩

theorem emptyMeta_shape (d : Nat) (id : SlabID) : MShape T d false (emptyMeta d id) :=
  ⟨rfl, rfl, rfl, rfl, rfl, by simp [emptyMeta], by simp [emptyMeta]⟩

theorem addChild_shape {d : Nat} {m : MetaSlab (ATree d)} {t : ATree d} (hm : MShape T d false m)
    (ht : TreeInv T d false t) (haddr : (hdr d t).id.addr = m.hdr.id.addr) :
    MShape T d false (addChild d m t) := by
  refine ⟨hm.root_eq, ?_, ?_, ?_, ?_, ?_, ?_⟩
  · simp [addChild, hm.hdrs_eq]
  · simp only [addChild]
    rw [prefixSums_append, ← hm.sums_eq, prefixSums_cons, Nat.zero_add, ← hm.count_eq]
    rfl
  · simp only [addChild, sumCounts_append, sumCounts_cons, sumCounts_nil, hm.count_eq]; omega
  · simp only [addChild, hm.size_eq, List.length_append, List.length_cons, List.length_nil,
      arraySlabHeaderSize]
    omega
  · intro c hc
    simp only [addChild, List.mem_append, List.mem_singleton] at hc
    rcases hc with hc | rfl
    · exact hm.kids_inv c hc
    · exact ht
  · intro c hc
    simp only [addChild, List.mem_append, List.mem_singleton] at hc
    rcases hc with hc | rfl
    · exact hm.kids_addr c hc
    · exact haddr

theorem addChild_facts {d : Nat} (m : MetaSlab (ATree d)) (t : ATree d) :
    (addChild d m t).hdr.id = m.hdr.id ∧ (addChild d m t).children = m.children ++ [t] ∧
      (addChild d m t).childHdrs.length = m.childHdrs.length + 1 := by
  simp [addChild]

/-- the loop of `nextLevelArraySlabs` -/
theorem nextLevelLoop_ok (maxN addr d c0 : Nat) (ss : List (ATree d)) :
    ∀ (cur : MetaSlab (ATree d)) (done : List (MetaSlab (ATree d))) (c : Ctx),
      (∀ t ∈ ss, TreeInv T d false t ∧ (hdr d t).id.addr = addr) →
      (∀ m ∈ done, MetaOk T d addr c0 c.ctr m ∧ m.children.length = maxN) →
      MetaOk T d addr c0 c.ctr cur → 1 ≤ cur.children.length → cur.children.length ≤ maxN →
      ((done ++ [cur]).map (·.hdr.id)).Nodup →
      ∃ done' cur', (nextLevelLoop maxN addr d ss cur done c).1 = done' ++ [cur'] ∧
        (∀ m ∈ done', MetaOk T d addr c0 (nextLevelLoop maxN addr d ss cur done c).2.ctr m ∧
          m.children.length = maxN) ∧
        MetaOk T d addr c0 (nextLevelLoop maxN addr d ss cur done c).2.ctr cur' ∧
        1 ≤ cur'.children.length ∧ cur'.children.length ≤ maxN ∧
        ((done' ++ [cur']).map (·.hdr.id)).Nodup ∧
        c.ctr ≤ (nextLevelLoop maxN addr d ss cur done c).2.ctr := by
  induction ss with
  | nil =>
    intro cur done c _ hd hc h1 h2 hnd
    exact ⟨done, cur, rfl, hd, hc, h1, h2, hnd, Nat.le_refl _⟩
  | cons s ss ih =>
    intro cur done c hss hd hc h1 h2 hnd
    obtain ⟨hs, hsa⟩ := hss s (by simp)
    have hss' : ∀ t ∈ ss, TreeInv T d false t ∧ (hdr d t).id.addr = addr :=
      fun t ht => hss t (by simp [ht])
    have hlen : cur.childHdrs.length = cur.children.length := hc.shape.hdrs_length
    unfold nextLevelLoop
    by_cases hfull : cur.childHdrs.length = maxN
    · simp only [hfull, if_true]
      have hnew : MetaOk T d addr c0 (c.alloc addr).2.ctr (addChild d (emptyMeta d (c.alloc addr).1) s) := by
        refine ⟨addChild_shape (emptyMeta_shape d _) hs (by simpa [emptyMeta] using hsa), rfl, ?_, ?_⟩
        · have := hc.idx_gt; have := hc.idx_le
          simp only [addChild, emptyMeta, Ctx.alloc_id]; omega
        · simp [addChild, emptyMeta]
      obtain ⟨done', cur', e1, e2, e3, e4, e5, e6, e7⟩ :=
        ih (addChild d (emptyMeta d (c.alloc addr).1) s) (done ++ [cur]) (c.alloc addr).2 hss'
          (by
            intro m hm
            simp only [List.mem_append, List.mem_singleton] at hm
            rcases hm with hm | rfl
            · exact ⟨(hd m hm).1.mono (by simp), (hd m hm).2⟩
            · exact ⟨hc.mono (by simp), by omega⟩)
          hnew (by simp [addChild, emptyMeta]) (by simp [addChild, emptyMeta]; omega)
          (by
            simp only [List.map_append, List.map_cons, List.map_nil] at hnd ⊢
            rw [List.nodup_append]
            refine ⟨hnd, by simp, ?_⟩
            intro a ha b hb hab
            simp only [List.mem_singleton] at hb
            subst hb hab
            simp only [List.mem_append, List.mem_map, List.mem_singleton] at ha
            have hle : (addChild d (emptyMeta d (c.alloc addr).1) s).hdr.id.idx ≤ c.ctr := by
              rcases ha with ⟨m, hm, hmid⟩ | hmid
              · rw [← hmid]; exact (hd m hm).1.idx_le
              · rw [hmid]; exact hc.idx_le
            simp only [addChild, emptyMeta, Ctx.alloc_id] at hle
            omega)
      exact ⟨done', cur', e1, e2, e3, e4, e5, e6, Nat.le_trans (by simp) e7⟩
    · simp only [hfull, if_false]
      have hnew : MetaOk T d addr c0 c.ctr (addChild d cur s) :=
        ⟨addChild_shape hc.shape hs (by rw [hsa, hc.addr_eq]), hc.addr_eq, hc.idx_gt, hc.idx_le⟩
      exact ih (addChild d cur s) done c hss' hd hnew (by simp [addChild]) (by simp [addChild]; omega)
        (by simpa [addChild] using hnd)

theorem leaves_metas (d : Nat) (R : List (MetaSlab (ATree d))) :
    (asMetas R).flatMap (Arr.leaves (d + 1)) = (R.flatMap (·.children)).flatMap (Arr.leaves d) := by
  induction R with
  | nil => rfl
  | cons m R ih =>
    simp only [asMetas_cons, List.flatMap_cons, List.flatMap_append, ih, leaves_succ]

theorem slabIds_metas_perm (d : Nat) (R : List (MetaSlab (ATree d))) :
    ((asMetas R).flatMap (slabIds (d + 1))).Perm
      (R.map (·.hdr.id) ++ (R.flatMap (·.children)).flatMap (slabIds d)) := by
  induction R with
  | nil => exact List.Perm.refl _
  | cons m R ih =>
    simp only [asMetas_cons, List.flatMap_cons, List.flatMap_append, slabIds_succ, List.map_cons,
      List.cons_append]
    apply List.Perm.cons
    refine (List.Perm.append_left _ ih).trans ?_
    rw [← List.append_assoc, ← List.append_assoc]
    exact List.Perm.append_right _ List.perm_append_comm

theorem storeAll_ctr (d : Nat) (X : List (ATree d)) (c : Ctx) : (storeAll d X c).ctr = c.ctr := by
  unfold storeAll
  induction X generalizing c with
  | nil => rfl
  | cons x X ih => simp only [List.foldl_cons]; rw [ih]; rfl

theorem legal_maxN_facts (hT : legalThreshold T = true) :
    2 ≤ (maxThr T - arrayMetaDataSlabPrefixSize) / arraySlabHeaderSize ∧
    minThr T ≤ 12 + 14 * ((maxThr T - arrayMetaDataSlabPrefixSize) / arraySlabHeaderSize) ∧
    12 + 14 * ((maxThr T - arrayMetaDataSlabPrefixSize) / arraySlabHeaderSize) ≤ maxThr T := by
  have F := thrFacts hT
  have := F.lo
  simp only [F.minE, F.maxE, arrayMetaDataSlabPrefixSize, arraySlabHeaderSize]
  omega

/-- `nextLevelArraySlabs` turns a level whose slabs are all within the band into a level of index
    slabs: all but the last one full, the last one with at least one child. -/
theorem nextLevel_ok (hT : legalThreshold T = true) {d addr lo : Nat} {R : List (ATree d)} (c : Ctx)
    (hR : AllOk T d addr lo c.ctr R) (h2 : 2 ≤ R.length) :
    ∃ A z, (nextLevelArraySlabs T addr d R c).1 = A ++ [z] ∧
      LevelOk T (d + 1) addr lo (nextLevelArraySlabs T addr d R c).2.ctr A z := by
  obtain ⟨hN, hNmin, hNmax⟩ := legal_maxN_facts hT
  have hinv := hR.inv h2
  match R, h2 with
  | s :: ss, h2 =>
    have haddrR : ∀ t ∈ s :: ss, (hdr d t).id.addr = addr :=
      fun t ht => (hR.ids.2 _ (mem_slabIds_of_mem ht)).1
    -- unfold the first round of the loop: the empty index slab takes the first child
    have hfirst : nextLevelArraySlabs T addr d (s :: ss) c =
        nextLevelLoop ((maxThr T - arrayMetaDataSlabPrefixSize) / arraySlabHeaderSize) addr d ss
          (addChild d (emptyMeta d (c.alloc addr).1) s) [] (c.alloc addr).2 := by
      unfold nextLevelArraySlabs
      simp only
      rw [nextLevelLoop]
      have : ¬ (emptyMeta d (c.alloc addr).1).childHdrs.length =
          (maxThr T - arrayMetaDataSlabPrefixSize) / arraySlabHeaderSize := by
        simp [emptyMeta]; omega
      simp only [this, if_false]
      rfl
    have hnew : MetaOk T d addr c.ctr (c.alloc addr).2.ctr (addChild d (emptyMeta d (c.alloc addr).1) s) := by
      refine ⟨addChild_shape (emptyMeta_shape d _) (hinv s (by simp))
        (by simpa [emptyMeta] using haddrR s (by simp)), rfl, ?_, ?_⟩
      · simp [addChild, emptyMeta]
      · simp [addChild, emptyMeta]
    obtain ⟨done', cur', e1, e2, e3, e4, e5, e6, e7⟩ :=
      nextLevelLoop_ok (T := T) ((maxThr T - arrayMetaDataSlabPrefixSize) / arraySlabHeaderSize) addr d c.ctr ss
        (addChild d (emptyMeta d (c.alloc addr).1) s) [] (c.alloc addr).2
        (fun t ht => ⟨hinv t (by simp [ht]), haddrR t (by simp [ht])⟩) (by simp) hnew
        (by simp [addChild, emptyMeta]) (by simp [addChild, emptyMeta]; omega) (by simp)
    rw [hfirst]
    -- the children of the index slabs are the slabs of the level, in order
    have hkids : (done' ++ [cur']).flatMap (·.children) = s :: ss := by
      have := nextMetas_children T addr d (s :: ss) c
      unfold nextMetas at this
      have hf2 := congrArg Prod.fst hfirst
      unfold nextLevelArraySlabs at hf2
      simp only at hf2
      rw [hf2, e1] at this
      exact this
    have hctr : c.ctr + 1 ≤ (nextLevelLoop ((maxThr T - arrayMetaDataSlabPrefixSize) / arraySlabHeaderSize)
        addr d ss (addChild d (emptyMeta d (c.alloc addr).1) s) [] (c.alloc addr).2).2.ctr := by
      simpa using e7
    refine ⟨asMetas done', ofMeta cur', by rw [e1]; rfl, ?_⟩
    have hsz : ∀ m : MetaSlab (ATree d), MShape T d false m → m.hdr.size = 12 + 14 * m.children.length :=
      fun m hm => hm.kids_of_size
    refine ⟨?_, (shape_succ T d false cur').2 e3.shape, ?_, e4, ?_, ?_, ?_, ?_, by have := hR.lo_le; omega⟩
    · intro t ht
      have ht' : (t : MetaSlab (ATree d)) ∈ done' := ht
      revert ht'
      refine forall_ofMeta ?_ t
      intro m hm
      obtain ⟨a, b⟩ := e2 m hm
      rw [treeInv_succ]
      refine ⟨a.shape, ?_, ?_, by simp⟩
      · rw [hsz m a.shape, b]; exact hNmax
      · intro _; rw [hsz m a.shape, b]; exact hNmin
    · show cur'.hdr.size ≤ maxThr T
      rw [hsz cur' e3.shape]
      have : 14 * cur'.children.length ≤ 14 * ((maxThr T - arrayMetaDataSlabPrefixSize) / arraySlabHeaderSize) :=
        Nat.mul_le_mul_left _ e5
      omega
    · intro hA
      have hd : done' = [] := hA
      rw [hd] at hkids
      simp only [List.nil_append, List.flatMap_cons, List.flatMap_nil, List.append_nil] at hkids
      show 2 ≤ cur'.children.length
      rw [hkids]; exact h2
    · have : asMetas done' ++ [ofMeta cur'] = asMetas (done' ++ [cur']) := rfl
      rw [this, leaves_metas, hkids]
      exact hR.chain
    · have hperm := slabIds_metas_perm d (done' ++ [cur'])
      rw [hkids] at hperm
      have : asMetas done' ++ [ofMeta cur'] = asMetas (done' ++ [cur']) := rfl
      rw [this]
      refine IdsOk.of_perm ?_ hperm
      have hmeta : ∀ id ∈ (done' ++ [cur']).map (·.hdr.id), id.addr = addr ∧ c.ctr < id.idx ∧
          id.idx ≤ (nextLevelLoop ((maxThr T - arrayMetaDataSlabPrefixSize) / arraySlabHeaderSize) addr d ss
            (addChild d (emptyMeta d (c.alloc addr).1) s) [] (c.alloc addr).2).2.ctr := by
        intro id hid
        simp only [List.mem_map, List.mem_append, List.mem_singleton] at hid
        obtain ⟨m, hm | hm, rfl⟩ := hid
        · exact ⟨(e2 m hm).1.addr_eq, (e2 m hm).1.idx_gt, (e2 m hm).1.idx_le⟩
        · subst hm; exact ⟨e3.addr_eq, e3.idx_gt, e3.idx_le⟩
      refine ⟨?_, ?_⟩
      · rw [List.nodup_append]
        refine ⟨e6, hR.ids.1, ?_⟩
        intro a ha b hb hab
        subst hab
        have h1 := (hmeta a ha).2.1
        have h3 := (hR.ids.2 a hb).2.2
        omega
      · intro id hid
        simp only [List.mem_append] at hid
        rcases hid with hid | hid
        · obtain ⟨a, b, c'⟩ := hmeta id hid
          exact ⟨a, by omega, c'⟩
        · obtain ⟨a, b, c'⟩ := hR.ids.2 id hid
          exact ⟨a, b, by omega⟩
    · intro id hid
      have hperm := slabIds_metas_perm d (done' ++ [cur'])
      rw [hkids] at hperm
      have : asMetas done' ++ [ofMeta cur'] = asMetas (done' ++ [cur']) := rfl
      rw [this] at hid
      have hid := hperm.mem_iff.1 hid
      simp only [List.mem_append] at hid
      rcases hid with hid | hid
      · simp only [List.mem_map, List.mem_append, List.mem_singleton] at hid
        obtain ⟨m, hm | hm, rfl⟩ := hid
        · have := (e2 m hm).1.idx_gt; have := hR.lo_le; omega
        · subst hm; have := e3.idx_gt; have := hR.lo_le; omega
      · exact hR.fresh id hid

end Atree
