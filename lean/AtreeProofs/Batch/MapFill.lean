import AtreeProofs.Batch.MapContent
import AtreeProofs.Map.HkeySpec
import AtreeProofs.Map.HkeySeg
import AtreeProofs.Map.TreeInv2
/-
  C17, bulk build of maps — the element loop under the map invariant: the digest table being
  filled stays valid (`HInv` = `ElemsInv` at level 0), a key that already occurred is rejected as
  a duplicate, every other pair is added, closed data slabs hold strictly smaller digests.
-/
namespace Atree
open Gen MTree MBatch

variable {T r : Nat} {D : DigestFn (r + 1)}

/-- the invariant of a first-level digest table -/
abbrev HI (T r : Nat) (D : DigestFn (r + 1)) (he : HkeyElems (MElems r)) : Prop :=
  HInv T (r + 1) D (MElems.ops r) (ElemsInv T (r + 1) D r) r 0 [] he

theorem hi_empty : HI T r D (emptyElems r) := by
  refine ⟨by omega, rfl, rfl, by simp [emptyElems], by simp [emptyElems, HkeyElems.elemSizes], ?_⟩
  intro i hk el hi
  simp [emptyElems] at hi

theorem getLast?_eq_get {α : Type} (l : List α) : l.getLast? = l[l.length - 1]? := by
  exact List.getLast?_eq_getElem?

/-- appending a (digest, element) pair with a larger digest -/
theorem hi_push {he : HkeyElems (MElems r)} (H : HI T r D he) (hk : Nat) (el : MElemF (MElems r))
    (hgt : ∀ a ∈ he.hkeys, a < hk)
    (hel : MElemOk T (r + 1) D (MElems.ops r) (ElemsInv T (r + 1) D r) 0 [] hk el) :
    HI T r D { he with hkeys := he.hkeys ++ [hk], elems := he.elems ++ [el],
                       size := he.size + (digestSize + el.size (MElems.ops r)) } := by
  refine ⟨H.1, H.2.1, ?_, ?_, ?_, ?_⟩
  · simp [H.len_eq]
  · simp only [List.pairwise_append, List.pairwise_cons, List.not_mem_nil, false_imp_iff, implies_true,
      List.Pairwise.nil, and_self, List.mem_singleton, forall_eq, true_and]
    exact ⟨H.sorted, hgt⟩
  · simp only [H.size_eq, HkeyElems.elemSizes_append]
    simp [HkeyElems.elemSizes]; omega
  · intro i hk' el' hi hiel
    simp only [List.getElem?_append] at hi hiel
    rw [H.len_eq] at hi
    by_cases hlt : i < he.elems.length
    · rw [if_pos hlt] at hi hiel
      exact H.elemOk hi hiel
    · rw [if_neg hlt] at hi hiel
      have h0 : i - he.elems.length = 0 := by
        cases hn : i - he.elems.length with
        | zero => rfl
        | succ n => rw [hn] at hi; simp at hi
      rw [h0] at hi hiel
      simp only [List.getElem?_cons_zero, Option.some.injEq] at hi hiel
      subst hi hiel
      exact hel

/-- replacing the last element (same digest) -/
theorem hi_setLast {he : HkeyElems (MElems r)} (H : HI T r D he) (hk : Nat) (prev el : MElemF (MElems r))
    (hlast : he.elems.getLast? = some prev) (hklast : he.hkeys.getLast? = some hk)
    (hel : MElemOk T (r + 1) D (MElems.ops r) (ElemsInv T (r + 1) D r) 0 [] hk el) :
    HI T r D { he with elems := he.elems.set (he.elems.length - 1) el,
                       size := he.size + el.size (MElems.ops r) - prev.size (MElems.ops r) } := by
  rw [getLast?_eq_get] at hlast hklast
  refine ⟨H.1, H.2.1, ?_, H.sorted, ?_, ?_⟩
  · simp [H.len_eq]
  · have := sum_map_set (fun e => MElemF.size (MElems.ops r) e + digestSize) (b := el) hlast
    simp only [H.size_eq, HkeyElems.elemSizes] at this ⊢
    omega
  · intro i hk' el' hi hiel
    simp only at hi hiel
    by_cases hi0 : i = he.elems.length - 1
    · subst hi0
      have hlen := lt_of_getElem?_eq_some hlast
      rw [List.getElem?_set_self hlen] at hiel
      rw [← H.len_eq] at hi
      rw [hklast] at hi
      cases hi; cases hiel
      exact hel
    · rw [List.getElem?_set_ne (by omega)] at hiel
      exact H.elemOk hi hiel

/-! ### the loop invariant -/

/-- State of the element loop after the pairs `proc` have been accepted. -/
structure MFillOk (T r : Nat) (D : DigestFn (r + 1)) (cfg : MCfg) (st : FillState r)
    (proc : List (MKey × Elem)) : Prop where
  hinv : HI T r D st.elements
  closed_inv : ∀ s ∈ st.slabs, HI T r D s.elems
  closed_lt : ∀ s ∈ st.slabs, ∀ hk ∈ s.elems.hkeys, hk < st.prevHkey
  last_key : 0 < st.count → st.elements.hkeys.getLast? = some st.prevHkey
  zero : st.count = 0 → st.elements.hkeys = [] ∧ st.slabs = []
  count_eq : st.count = proc.length
  proc_ok : ∀ p ∈ proc, KeyOk T (r + 1) D p.1
  keys_in : ∀ p ∈ proc, ∃ v', (p.1, v') ∈ fillPairs st
  perm : ∃ cs : List Ctx, cs.length = proc.length ∧
    (fillPairs st).Perm (List.zipWith (fun p c => (p.1, storedValue cfg p.1 p.2 c)) proc cs)
  le_prev : ∀ p ∈ proc, p.1.dig 0 ≤ st.prevHkey
  distinct : KeysDistinct proc
  init_lt : mapDataSlabPrefixSize + hkeyElementsPrefixSize +
    HkeyElems.elemSizes (MElems.ops r) st.elements.elems.dropLast < T
  /-- every closed data slab satisfies the data-slab invariant of a non-root slab -/
  closed_data : ∀ s ∈ st.slabs, MDataInv T D false s
  /-- first-level digests increase strictly across the closed slabs and the open table -/
  all_sorted : (st.slabs.flatMap (fun s => s.elems.hkeys) ++ st.elements.hkeys).Pairwise (· < ·)
  /-- closed slabs are linked left to right; the last one links to the slab being filled -/
  chain : ChainTo st.slabs st.id
  addr_ok : st.id.addr = cfg.addr ∧ ∀ s ∈ st.slabs, s.hdr.id.addr = cfg.addr

/-- size of the slab being filled: everything but the last element stays below `T`, and the last
    element respects the inline limit -/
theorem fill_size_le (hT : legalThreshold T = true) {he : HkeyElems (MElems r)} (H : HI T r D he)
    (hinit : mapDataSlabPrefixSize + hkeyElementsPrefixSize +
      HkeyElems.elemSizes (MElems.ops r) he.elems.dropLast < T) :
    mapDataSlabPrefixSize + he.size ≤ maxThr T ∧
      ∀ el ∈ he.elems, MElemF.size (MElems.ops r) el ≤ maxInlineMapElem T := by
  have hB := map_legal_bounds hT
  have hle : ∀ el ∈ he.elems, MElemF.size (MElems.ops r) el ≤ maxInlineMapElem T := by
    intro el hel
    obtain ⟨i, hi⟩ := List.mem_iff_getElem?.mp hel
    obtain ⟨hk, hhk⟩ := H.hkey_at hi
    exact (H.elemOk hhk hi).size_le hT rfl
  refine ⟨?_, hle⟩
  have hsz := H.size_eq
  have hsplit : HkeyElems.elemSizes (MElems.ops r) he.elems ≤
      HkeyElems.elemSizes (MElems.ops r) he.elems.dropLast + (maxInlineMapElem T + digestSize) := by
    rcases List.eq_nil_or_concat he.elems with hnil | ⟨L, x, hL⟩
    · rw [hnil]; simp [HkeyElems.elemSizes]
    · rw [List.concat_eq_append] at hL
      have hx := hle x (by rw [hL]; simp)
      rw [hL, List.dropLast_concat, HkeyElems.elemSizes_append]
      simp only [HkeyElems.elemSizes, List.map_cons, List.map_nil, List.sum_cons, List.sum_nil]
      omega
  rw [maxInlineMapElem_eq] at hsplit
  simp only [mapDataSlabPrefixSize, hkeyElementsPrefixSize, digestSize, maxThr] at *
  omega

theorem pairwise_le_getLast {l : List Nat} (h : l.Pairwise (· < ·)) {x : Nat} (hl : l.getLast? = some x) :
    ∀ a ∈ l, a ≤ x := by
  intro a ha
  rw [getLast?_eq_get] at hl
  obtain ⟨i, hi⟩ := List.mem_iff_getElem?.mp ha
  have hlt := lt_of_getElem?_eq_some hi
  by_cases hlast : i = l.length - 1
  · subst hlast; rw [hl] at hi; cases hi; exact Nat.le_refl _
  · exact Nat.le_of_lt (sorted_get_lt h hi hl (by omega))

theorem zipWith_append_single {α β γ : Type} (f : α → β → γ) (l : List α) (cs : List β) (a : α) (b : β)
    (h : cs.length = l.length) :
    List.zipWith f (l ++ [a]) (cs ++ [b]) = List.zipWith f l cs ++ [f a b] := by
  induction l generalizing cs with
  | nil =>
    cases cs with
    | nil => rfl
    | cons c cs => simp at h
  | cons x l ih =>
    cases cs with
    | nil => simp at h
    | cons c cs => simp only [List.cons_append, List.zipWith_cons_cons, ih cs (by simpa using h)]

/-- a pair of the state whose first-level digest is the last digest seen sits in the last element -/
theorem pair_in_last (hT : legalThreshold T = true) {cfg : MCfg} (hc : CfgFor cfg T (r + 1))
    {st : FillState r} {proc : List (MKey × Elem)}
    (h : MFillOk T r D cfg st proc) (hcnt : 0 < st.count) {q : MKey × Elem} (hq : q ∈ fillPairs st)
    (hd : q.1.dig 0 = st.prevHkey) :
    ∃ el, st.elements.elems.getLast? = some el ∧ q ∈ el.toList (MElems.ops r) := by
  have S := (MElems.opsSpec D hT hc r).toOpsStruct
  unfold fillPairs at hq
  rcases List.mem_append.mp hq with hq | hq
  · obtain ⟨s, hs, hqs⟩ := List.mem_flatMap.mp hq
    have Hs := h.closed_inv s hs
    obtain ⟨i, hk, el, hi, hel, hqel⟩ := Hs.mem_toList hqs
    have := (Hs.keys_at S hi hel q hqel).2.2
    have hlt := h.closed_lt s hs hk (List.mem_of_getElem? hi)
    omega
  · obtain ⟨i, hk, el, hi, hel, hqel⟩ := h.hinv.mem_toList hq
    have hdk := (h.hinv.keys_at S hi hel q hqel).2.2
    have hl := h.last_key hcnt
    rw [getLast?_eq_get] at hl
    have hidx := sorted_get_inj h.hinv.sorted hi (by rw [hl, ← hd, hdk])
    refine ⟨el, ?_, hqel⟩
    rw [getLast?_eq_get, ← h.hinv.len_eq, ← hidx]
    exact hel

/-- the single element built for a new pair is a valid first-level element -/
theorem newSingle_ok (hT : legalThreshold T = true) {cfg : MCfg} (hc : CfgFor cfg T (r + 1))
    {k : MKey} (hkk : KeyOk T (r + 1) D k) {v : Elem} (hv : ValueOkM v) (c : Ctx) :
    MElemOk T (r + 1) D (MElems.ops r) (ElemsInv T (r + 1) D r) 0 [] (k.dig 0)
        (.single (newSingleElement cfg.T cfg.addr k v c).1) ∧
      (newSingleElement cfg.T cfg.addr k v c).1.key = k ∧
      (newSingleElement cfg.T cfg.addr k v c).1.val = storedValue cfg k v c := by
  have hspec := toStorableLim_spec (lim := maxInlineMapValue cfg.T k.size) (addr := cfg.addr) c hv
    (by rw [hc.hT]; exact maxInlineMapValue_ge hT hkk.2.2)
  rw [hc.hT] at hspec
  refine ⟨⟨⟨hkk, ?_, ?_, rfl⟩, ?_⟩, rfl, rfl⟩
  · simpa [newSingleElement, hc.hT] using hspec.1
  · simpa [newSingleElement, hc.hT] using hspec.2.1
  · have := hkk.take_succ (ℓ := 0) (by omega)
    simpa [newSingleElement] using this

theorem appendNew_ok (hT : legalThreshold T = true) {cfg : MCfg} (hc : CfgFor cfg T (r + 1))
    {st : FillState r} {proc : List (MKey × Elem)} (h : MFillOk T r D cfg st proc)
    (k : MKey) (v : Elem) (c : Ctx) (hkk : KeyOk T (r + 1) D k) (hv : ValueOkM v)
    (hnew : st.count = 0 ∨ st.prevHkey < k.dig 0) :
    MFillOk T r D cfg (appendNew cfg st (k.dig 0) k v c).1 (proc ++ [(k, v)]) := by
  have hB := map_legal_bounds hT
  obtain ⟨hel, hkey, hval⟩ := newSingle_ok (D := D) hT hc hkk hv c
  have hpairs := appendNew_pairs cfg st (k.dig 0) k v c
  obtain ⟨fc, fp⟩ := appendNew_facts cfg st (k.dig 0) k v c
  -- digests already present are below the new one
  have hlt_all : ∀ a ∈ st.elements.hkeys, a < k.dig 0 := by
    intro a ha
    rcases hnew with h0 | hgt
    · rw [(h.zero h0).1] at ha; simp at ha
    · have hc0 : 0 < st.count := by
        rcases Nat.eq_zero_or_pos st.count with h0 | h0
        · rw [(h.zero h0).1] at ha; simp at ha
        · exact h0
      have := pairwise_le_getLast h.hinv.sorted (h.last_key hc0) a ha
      omega
  have hproc_lt : ∀ p ∈ proc, p.1.dig 0 < k.dig 0 ∨ st.count = 0 := by
    intro p hp
    rcases hnew with h0 | hgt
    · exact Or.inr h0
    · have := h.le_prev p hp; left; omega
  -- the parts that do not depend on whether a slab is closed
  have hcommon : (appendNew cfg st (k.dig 0) k v c).1.count = (proc ++ [(k, v)]).length ∧
      (∀ p ∈ proc ++ [(k, v)], KeyOk T (r + 1) D p.1) ∧
      (∀ p ∈ proc ++ [(k, v)], ∃ v', (p.1, v') ∈ fillPairs (appendNew cfg st (k.dig 0) k v c).1) ∧
      (∃ cs : List Ctx, cs.length = (proc ++ [(k, v)]).length ∧
        (fillPairs (appendNew cfg st (k.dig 0) k v c).1).Perm
          (List.zipWith (fun p c => (p.1, storedValue cfg p.1 p.2 c)) (proc ++ [(k, v)]) cs)) ∧
      (∀ p ∈ proc ++ [(k, v)], p.1.dig 0 ≤ (appendNew cfg st (k.dig 0) k v c).1.prevHkey) ∧
      KeysDistinct (proc ++ [(k, v)]) := by
    refine ⟨by rw [fc, h.count_eq]; simp, ?_, ?_, ?_, ?_, ?_⟩
    · intro p hp
      rcases List.mem_append.mp hp with hp | hp
      · exact h.proc_ok p hp
      · simp only [List.mem_singleton] at hp; subst hp; exact hkk
    · intro p hp
      rw [hpairs]
      rcases List.mem_append.mp hp with hp | hp
      · obtain ⟨v', hv'⟩ := h.keys_in p hp
        exact ⟨v', List.mem_append_left _ hv'⟩
      · simp only [List.mem_singleton] at hp; subst hp
        exact ⟨storedValue cfg k v c, List.mem_append_right _ (by simp)⟩
    · obtain ⟨cs, hcs, hperm⟩ := h.perm
      refine ⟨cs ++ [c], by simp [hcs], ?_⟩
      rw [hpairs, zipWith_append_single _ _ _ _ _ hcs]
      exact List.Perm.append_right _ hperm
    · intro p hp
      rw [fp]
      rcases List.mem_append.mp hp with hp | hp
      · rcases hproc_lt p hp with hlt | h0
        · omega
        · have := h.count_eq; rw [h0] at this
          have : proc = [] := List.eq_nil_of_length_eq_zero this.symm
          subst this; simp at hp
      · simp only [List.mem_singleton] at hp; subst hp; exact Nat.le_refl _
    · rw [KeysDistinct.append_iff]
      refine ⟨h.distinct, by simp [KeysDistinct], ?_⟩
      intro a ha b hb
      simp only [List.mem_singleton] at hb; subst hb
      rw [KeyOk.same_false_iff (h.proc_ok a ha) hkk]
      intro heq
      rcases hproc_lt a ha with hlt | h0
      · rw [heq] at hlt; omega
      · have := h.count_eq; rw [h0] at this
        have : proc = [] := List.eq_nil_of_length_eq_zero this.symm
        subst this; simp at ha
  obtain ⟨c1, c2, c3, c4, c5, c6⟩ := hcommon
  -- the parts that depend on the branch
  have hsizeok := fill_size_le hT h.hinv h.init_lt
  have hnewsize : (newSingleElement cfg.T cfg.addr k v c).1.size ≤ maxInlineMapElem T := hel.size_le hT rfl
  have hbranch : HI T r D (appendNew cfg st (k.dig 0) k v c).1.elements ∧
      (∀ s ∈ (appendNew cfg st (k.dig 0) k v c).1.slabs, HI T r D s.elems) ∧
      (∀ s ∈ (appendNew cfg st (k.dig 0) k v c).1.slabs, ∀ hk ∈ s.elems.hkeys, hk < k.dig 0) ∧
      (appendNew cfg st (k.dig 0) k v c).1.elements.hkeys.getLast? = some (k.dig 0) ∧
      mapDataSlabPrefixSize + hkeyElementsPrefixSize +
        HkeyElems.elemSizes (MElems.ops r) (appendNew cfg st (k.dig 0) k v c).1.elements.elems.dropLast < T ∧
      (∀ s ∈ (appendNew cfg st (k.dig 0) k v c).1.slabs, MDataInv T D false s) ∧
      ((appendNew cfg st (k.dig 0) k v c).1.slabs.flatMap (fun s => s.elems.hkeys) ++
        (appendNew cfg st (k.dig 0) k v c).1.elements.hkeys).Pairwise (· < ·) ∧
      ChainTo (appendNew cfg st (k.dig 0) k v c).1.slabs (appendNew cfg st (k.dig 0) k v c).1.id ∧
      ((appendNew cfg st (k.dig 0) k v c).1.id.addr = cfg.addr ∧
        ∀ s ∈ (appendNew cfg st (k.dig 0) k v c).1.slabs, s.hdr.id.addr = cfg.addr) := by
    have hclosed_lt : ∀ s ∈ st.slabs, ∀ hk ∈ s.elems.hkeys, hk < k.dig 0 := by
      intro s hs hk hhk
      have h1 := h.closed_lt s hs hk hhk
      rcases hnew with h0 | hgt
      · rw [(h.zero h0).2] at hs; simp at hs
      · omega
    have hall_lt : ∀ a ∈ st.slabs.flatMap (fun s => s.elems.hkeys) ++ st.elements.hkeys, a < k.dig 0 := by
      intro a ha
      rcases List.mem_append.mp ha with ha | ha
      · obtain ⟨s, hs, has⟩ := List.mem_flatMap.mp ha
        exact hclosed_lt s hs a has
      · exact hlt_all a ha
    unfold appendNew
    simp only
    split
    · -- a data slab is closed, the new pair starts the next one
      rename_i hclose
      refine ⟨?_, ?_, ?_, by simp [emptyElems], ?_, ?_, ?_, ?_, ?_⟩
      · exact hi_push hi_empty (k.dig 0) _ (by simp [emptyElems]) hel
      · intro s hs
        simp only [List.mem_append, List.mem_singleton] at hs
        rcases hs with hs | rfl
        · exact h.closed_inv s hs
        · exact h.hinv
      · intro s hs hk hhk
        simp only [List.mem_append, List.mem_singleton] at hs
        rcases hs with hs | rfl
        · exact hclosed_lt s hs hk hhk
        · exact hlt_all hk hhk
      · simp only [emptyElems, List.nil_append, List.dropLast_singleton, HkeyElems.elemSizes, List.map_nil,
          List.sum_nil, mapDataSlabPrefixSize, hkeyElementsPrefixSize]
        omega
      · intro s hs
        simp only [List.mem_append, List.mem_singleton] at hs
        rcases hs with hs | rfl
        · exact h.closed_data s hs
        · rw [mdataInv_iff hT]
          refine ⟨⟨(elemsInv_succ_iff T (r + 1) D r 0 [] st.elements).2 h.hinv, rfl, rfl, rfl, by simp [mkData]⟩,
            hsizeok.1, ?_⟩
          intro _
          simp only [Bool.or_eq_true, decide_eq_true_eq, hc.hT] at hclose hnewsize
          show minThr T ≤ mapDataSlabPrefixSize + st.elements.size
          rw [maxInlineMapElem_eq] at hnewsize
          simp only [minThr, maxThr, mapDataSlabPrefixSize, digestSize] at *
          omega
      · simp only [List.flatMap_append, List.flatMap_cons, List.flatMap_nil, List.append_nil, emptyElems,
          List.nil_append, mkData]
        rw [List.pairwise_append]
        exact ⟨h.all_sorted, by simp, fun a ha b hb => by
          simp only [List.mem_singleton] at hb; subst hb; exact hall_lt a ha⟩
      · rw [chainTo_append]
        exact ⟨by simpa [firstId, mkData] using h.chain, by simp [ChainTo, mkData]⟩
      · refine ⟨rfl, ?_⟩
        intro s hs
        simp only [List.mem_append, List.mem_singleton] at hs
        rcases hs with hs | rfl
        · exact h.addr_ok.2 s hs
        · exact h.addr_ok.1
    · rename_i hno
      refine ⟨hi_push h.hinv (k.dig 0) _ hlt_all hel, h.closed_inv, hclosed_lt, by simp, ?_, h.closed_data, ?_,
        h.chain, h.addr_ok⟩
      · simp only [List.dropLast_concat]
        simp only [Bool.or_eq_true, decide_eq_true_eq, not_or, Nat.not_le, hc.hT] at hno
        have := h.hinv.size_eq
        omega
      · rw [← List.append_assoc, List.pairwise_append]
        exact ⟨h.all_sorted, by simp, fun a ha b hb => by
          simp only [List.mem_singleton] at hb; subst hb; exact hall_lt a ha⟩
  obtain ⟨b1, b2, b3, b4, b5, b6, b7, b8, b9⟩ := hbranch
  refine ⟨b1, b2, by rw [fp]; exact b3, fun _ => by rw [fp]; exact b4, ?_, c1, c2, c3, c4, c5, c6, b5, b6, b7, b8, b9⟩
  intro h0; rw [fc] at h0; omega

theorem dropLast_set_last {α : Type} (l : List α) (x : α) :
    (l.set (l.length - 1) x).dropLast = l.dropLast := by
  induction l with
  | nil => rfl
  | cons a l ih =>
    cases l with
    | nil => simp
    | cons b l =>
      simp only [List.length_cons, Nat.add_sub_cancel] at ih ⊢
      rw [List.set_cons_succ, List.dropLast_cons_of_ne_nil (by simp), ih]
      simp

theorem mem_zipWith_left {α β γ : Type} (f : α → β → γ) (l : List α) (cs : List β) (x : γ)
    (h : x ∈ List.zipWith f l cs) : ∃ a ∈ l, ∃ b, x = f a b := by
  induction l generalizing cs with
  | nil => simp at h
  | cons a l ih =>
    cases cs with
    | nil => simp at h
    | cons b cs =>
      simp only [List.zipWith_cons_cons, List.mem_cons] at h
      rcases h with rfl | h
      · exact ⟨a, by simp, b, rfl⟩
      · obtain ⟨a', ha', b', hb'⟩ := ih cs h
        exact ⟨a', by simp [ha'], b', hb'⟩

/-- the state after a successful collision step -/
def collideState (st : FillState r) (e' : MElemF (MElems r)) (prevSize : Nat) : FillState r :=
  { st with
    elements :=
      { st.elements with
        elems := st.elements.elems.set (st.elements.elems.length - 1) e',
        size := st.elements.size + e'.size (MElems.ops r) - prevSize },
    count := st.count + 1 }

/-- The collision step: the new pair goes through the last element's `Set`; it is accepted iff its
    key did not occur before, and rejected as a duplicate otherwise. -/
theorem collide_ok (hT : legalThreshold T = true) {cfg : MCfg} (hc : CfgFor cfg T (r + 1))
    {st : FillState r} {proc : List (MKey × Elem)} (h : MFillOk T r D cfg st proc)
    (k : MKey) (v : Elem) (c : Ctx) (hkk : KeyOk T (r + 1) D k) (hv : ValueOkM v)
    (hcnt : 0 < st.count) (hd : k.dig 0 = st.prevHkey) :
    (∃ st' c', collide cfg st k v c = .ok (st', c') ∧ MFillOk T r D cfg st' (proc ++ [(k, v)]) ∧
      ∀ p ∈ proc, p.1 ≠ k) ∨
    (∃ c', collide cfg st k v c = .error (.duplicateKey, c') ∧ ∃ p ∈ proc, p.1 = k) := by
  have S := MElems.opsSpec D hT hc r
  have hl := h.last_key hcnt
  have hl' := hl
  rw [getLast?_eq_get] at hl'
  obtain ⟨prevElem, hpe⟩ := h.hinv.elem_at hl'
  have hlastE : st.elements.elems.getLast? = some prevElem := by
    rw [getLast?_eq_get, ← h.hinv.len_eq]; exact hpe
  have hpe' : st.elements.elems[st.elements.elems.length - 1]? = some prevElem := by
    rw [← h.hinv.len_eq]; exact hpe
  have hEl := h.hinv.elemOk hl' hpe
  have hp1 : k.digs.take (0 + 1) = [] ++ [st.prevHkey] := by
    have := hkk.take_succ (ℓ := 0) (by omega)
    rw [this, hd]; simp
  obtain ⟨e', old, c', hs, hEl', heff, _, _⟩ := hEl.set S hT hc (by omega) hkk hp1 hv c
  -- where the pairs of the last element sit among all pairs
  have hsplit : fillPairs st =
      (st.slabs.flatMap (fun s => HkeyElems.toList (MElems.ops r) s.elems) ++
        (st.elements.elems.take (st.elements.elems.length - 1)).flatMap (MElemF.toList (MElems.ops r))) ++
      (prevElem.toList (MElems.ops r) ++ []) := by
    unfold fillPairs HkeyElems.toList
    rw [flatMap_split _ hpe']
    have : st.elements.elems.drop (st.elements.elems.length - 1 + 1) = [] := by
      apply List.drop_eq_nil_of_le
      have := lt_of_getElem?_eq_some hpe'; omega
    rw [this]; simp
  have hmem_last : ∀ q, q ∈ prevElem.toList (MElems.ops r) → q ∈ fillPairs st := by
    intro q hq; rw [hsplit]; simp [hq]
  unfold collide
  simp only [hlastE, hs]
  cases old with
  | some v0 =>
    right
    refine ⟨c', by simp, ?_⟩
    rcases heff with ⟨ho, _⟩ | ⟨v1, A, B, _, hA, _⟩
    · cases ho
    · have hin : (k, v1) ∈ fillPairs st := hmem_last _ (by rw [hA]; simp)
      obtain ⟨cs, _, hperm⟩ := h.perm
      obtain ⟨a, ha, b, hab⟩ := mem_zipWith_left _ _ _ _ (hperm.mem_iff.mp hin)
      exact ⟨a, ha, by simpa using (congrArg Prod.fst hab).symm⟩
  | none =>
    left
    have hfirst : (∀ p ∈ prevElem.toList (MElems.ops r), p.1 ≠ k) ∧
        ∃ A B, prevElem.toList (MElems.ops r) = A ++ B ∧
          e'.toList (MElems.ops r) = A ++ (k, storedValue cfg k v c) :: B := by
      rcases heff with ⟨_, hne, A, B, hA, hB⟩ | ⟨v1, A, B, ho, _, _⟩
      · exact ⟨hne, A, B, hA, hB⟩
      · cases ho
    obtain ⟨hne, A, B, hA, hB⟩ := hfirst
    have hnotin : ∀ p ∈ proc, p.1 ≠ k := by
      intro p hp hpk
      obtain ⟨v', hv'⟩ := h.keys_in p hp
      obtain ⟨el, hel, hq⟩ := pair_in_last hT hc h hcnt hv' (by simp only; rw [hpk]; exact hd)
      rw [hlastE] at hel
      cases hel
      exact hne _ hq hpk
    refine ⟨collideState st e' (prevElem.size (MElems.ops r)), c', by simp [collideState], ?_, hnotin⟩
    -- the pairs of the new state
    have hpairs' : fillPairs (collideState st e' (prevElem.size (MElems.ops r))) =
        (st.slabs.flatMap (fun s => HkeyElems.toList (MElems.ops r) s.elems) ++
          (st.elements.elems.take (st.elements.elems.length - 1)).flatMap (MElemF.toList (MElems.ops r))) ++
        (e'.toList (MElems.ops r) ++ []) := by
      unfold fillPairs HkeyElems.toList collideState
      simp only
      rw [flatMap_set _ hpe']
      have : st.elements.elems.drop (st.elements.elems.length - 1 + 1) = [] := by
        apply List.drop_eq_nil_of_le
        have := lt_of_getElem?_eq_some hpe'; omega
      rw [this]; simp
    rw [hA] at hsplit
    rw [hB] at hpairs'
    generalize hP : (st.slabs.flatMap (fun s => HkeyElems.toList (MElems.ops r) s.elems) ++
      (st.elements.elems.take (st.elements.elems.length - 1)).flatMap (MElemF.toList (MElems.ops r))) = P
      at hsplit hpairs'
    have hperm_step : (P ++ (A ++ (k, storedValue cfg k v c) :: B ++ [])).Perm
        ((P ++ (A ++ B ++ [])) ++ [(k, storedValue cfg k v c)]) := by
      simp only [List.append_nil]
      have h1 : (A ++ (k, storedValue cfg k v c) :: B).Perm ((A ++ B) ++ [(k, storedValue cfg k v c)]) := by
        refine List.perm_middle.trans ?_
        exact (List.perm_append_singleton _ _).symm
      have h2 := List.Perm.append_left P h1
      simpa [List.append_assoc] using h2
    refine ⟨hi_setLast h.hinv st.prevHkey prevElem e' hlastE hl hEl', h.closed_inv, h.closed_lt,
      fun _ => hl, fun h0 => by simp [collideState] at h0, by simp [collideState, h.count_eq], ?_, ?_, ?_, ?_, ?_, ?_,
      h.closed_data, h.all_sorted, h.chain, h.addr_ok⟩
    · intro p hp
      rcases List.mem_append.mp hp with hp | hp
      · exact h.proc_ok p hp
      · simp only [List.mem_singleton] at hp; subst hp; exact hkk
    · intro p hp
      rw [hpairs']
      rcases List.mem_append.mp hp with hp | hp
      · obtain ⟨v', hv'⟩ := h.keys_in p hp
        rw [hsplit] at hv'
        refine ⟨v', ?_⟩
        simp only [List.append_nil, List.mem_append, List.mem_cons] at hv' ⊢
        rcases hv' with hv' | hv' | hv'
        · exact Or.inl hv'
        · exact Or.inr (Or.inl hv')
        · exact Or.inr (Or.inr (Or.inr hv'))
      · simp only [List.mem_singleton] at hp; subst hp
        exact ⟨storedValue cfg k v c, by simp⟩
    · obtain ⟨cs, hcs, hperm⟩ := h.perm
      refine ⟨cs ++ [c], by simp [hcs], ?_⟩
      rw [hpairs', zipWith_append_single _ _ _ _ _ hcs]
      refine hperm_step.trans ?_
      rw [← hsplit]
      exact List.Perm.append_right _ hperm
    · intro p hp
      rcases List.mem_append.mp hp with hp | hp
      · exact h.le_prev p hp
      · simp only [List.mem_singleton] at hp; subst hp; simp only [collideState]; omega
    · rw [KeysDistinct.append_iff]
      refine ⟨h.distinct, by simp [KeysDistinct], ?_⟩
      intro a ha b hb
      simp only [List.mem_singleton] at hb; subst hb
      rw [KeyOk.same_false_iff (h.proc_ok a ha) hkk]
      exact hnotin a ha
    · simp only [collideState, dropLast_set_last]
      exact h.init_lt

/-- The element loop under the invariant.  Soundness: whatever it accepts leaves a valid state
    that holds exactly the accepted pairs (in particular the accepted keys are pairwise different).
    Completeness: a stream that is sorted by first-level digest and free of duplicate keys is
    accepted. -/
theorem mfill_ok (hT : legalThreshold T = true) {cfg : MCfg} (hc : CfgFor cfg T (r + 1))
    (kvs : List (MKey × Elem)) (hkv : ∀ p ∈ kvs, KeyOk T (r + 1) D p.1 ∧ ValueOkM p.2) :
    ∀ (proc : List (MKey × Elem)) (st : FillState r) (c : Ctx), MFillOk T r D cfg st proc →
      (∀ st' c', fillLoop cfg kvs st c = .ok (st', c') → MFillOk T r D cfg st' (proc ++ kvs)) ∧
      ((kvs.map (fun p => p.1.dig 0)).Pairwise (· ≤ ·) → (∀ p ∈ kvs, st.prevHkey ≤ p.1.dig 0) →
        KeysDistinct (proc ++ kvs) → ∃ st' c', fillLoop cfg kvs st c = .ok (st', c')) := by
  induction kvs with
  | nil =>
    intro proc st c h
    refine ⟨?_, fun _ _ _ => ⟨st, c, rfl⟩⟩
    intro st' c' heq
    simp only [fillLoop, Except.ok.injEq, Prod.mk.injEq] at heq
    rw [← heq.1, List.append_nil]; exact h
  | cons p kvs ih =>
    intro proc st c h
    obtain ⟨k, v⟩ := p
    obtain ⟨hkk, hv⟩ := hkv (k, v) (by simp)
    have hkv' : ∀ q ∈ kvs, KeyOk T (r + 1) D q.1 ∧ ValueOkM q.2 := fun q hq => hkv q (by simp [hq])
    have happ : proc ++ (k, v) :: kvs = (proc ++ [(k, v)]) ++ kvs := by simp
    unfold fillLoop
    simp only
    by_cases h1 : k.dig 0 < st.prevHkey
    · simp only [h1, if_true]
      refine ⟨by intro st' c' heq; simp at heq, ?_⟩
      intro _ hge _
      have := hge (k, v) (by simp)
      simp only at this; omega
    · simp only [h1, if_false]
      by_cases h2 : k.dig 0 = st.prevHkey ∧ st.count > 0
      · simp only [h2, and_self, if_true]
        rcases collide_ok hT hc h k v c hkk hv h2.2 h2.1 with ⟨st1, c1, hcol, hok, _⟩ | ⟨c1, hcol, q, hq, hqk⟩
        · rw [hcol]
          simp only
          obtain ⟨ihA, ihB⟩ := ih hkv' (proc ++ [(k, v)]) st1 c1 hok
          obtain ⟨_, fprev, _, _⟩ := collide_facts cfg st st1 k v c c1 hcol
          refine ⟨by rw [happ]; exact ihA, ?_⟩
          intro hs hge hdist
          simp only [List.map_cons, List.pairwise_cons, List.mem_map, forall_exists_index, and_imp] at hs
          refine ihB hs.2 ?_ (by rw [← happ]; exact hdist)
          intro q hq
          rw [fprev, ← h2.1]
          exact hs.1 _ q hq rfl
        · rw [hcol]
          refine ⟨by intro st' c' heq; simp at heq, ?_⟩
          intro _ _ hdist
          rw [KeysDistinct.append_iff] at hdist
          have := hdist.2.2 q hq (k, v) (by simp)
          simp only at this
          rw [hqk, MKey.same_self] at this
          cases this
      · simp only [h2, if_false]
        have hnew : st.count = 0 ∨ st.prevHkey < k.dig 0 := by
          rcases Nat.eq_zero_or_pos st.count with h0 | h0
          · exact Or.inl h0
          · right
            have : k.dig 0 ≠ st.prevHkey := fun he => h2 ⟨he, h0⟩
            omega
        have hok := appendNew_ok hT hc h k v c hkk hv hnew
        obtain ⟨ihA, ihB⟩ := ih hkv' (proc ++ [(k, v)]) (appendNew cfg st (k.dig 0) k v c).1
          (appendNew cfg st (k.dig 0) k v c).2 hok
        obtain ⟨_, fprev⟩ := appendNew_facts cfg st (k.dig 0) k v c
        refine ⟨by rw [happ]; exact ihA, ?_⟩
        intro hs hge hdist
        simp only [List.map_cons, List.pairwise_cons, List.mem_map, forall_exists_index, and_imp] at hs
        refine ihB hs.2 ?_ (by rw [← happ]; exact hdist)
        intro q hq
        rw [fprev]
        exact hs.1 _ q hq rfl

/-- the initial state of the element loop -/
theorem mfill_init (hT : legalThreshold T = true) (cfg : MCfg) (id : SlabID) (hid : id.addr = cfg.addr) :
    MFillOk T r D cfg { id := id, elements := emptyElems r, slabs := [], count := 0, prevHkey := 0 } [] := by
  have hB := map_legal_bounds hT
  refine ⟨hi_empty, by simp, by simp, by simp, fun _ => ⟨rfl, rfl⟩, rfl, by simp, by simp, ⟨[], rfl, ?_⟩,
    by simp, by simp [KeysDistinct], ?_, by simp, by simp [emptyElems], by simp [ChainTo], ⟨hid, by simp⟩⟩
  · simp [fillPairs, emptyElems, HkeyElems.toList]
  · simp only [emptyElems, List.dropLast_nil, HkeyElems.elemSizes, List.map_nil, List.sum_nil,
      mapDataSlabPrefixSize, hkeyElementsPrefixSize]
    omega

end Atree
