import AtreeProofs.Batch.MapIdsFill
import AtreeProofs.Batch.MapInvBuild
import AtreeProofs.Map.Ids
/-
  C17, bulk build of maps — slab identifiers, part 4 (FX9H): the whole `NewMapFromBatchData`.
  Every slab identifier of the result (data slabs, index slabs, external collision groups) and every
  identifier of a large-value slab referenced by a stored pair was allocated DURING the call, they
  are pairwise different and of the owner address; every stored pair represents an input pair and
  its reference (if any) resolves to the input value.
-/
namespace Atree
open Gen MTree MBatch

variable {T r : Nat} {D : DigestFn (r + 1)}

theorem lvlIds_datas (L : List (MDataSlab r)) : lvlIds 0 (asMDatas L) = L.flatMap dataIds := by
  induction L with
  | nil => rfl
  | cons s L ih =>
    show CtxOk.mapSlabIds 0 (ofMData s) ++ lvlIds 0 (asMDatas L) = _
    rw [ih]
    show CtxOk.mapSlabIds 0 s ++ _ = _
    rw [mapSlabIds_zero]
    rfl

theorem lvlIds_fillSlabs (st : FillState r) : lvlIds 0 (fillSlabs st) = fillIds st := by
  have : fillSlabs st = asMDatas (st.slabs ++ [mkData st.id SlabID.undef st.elements]) := rfl
  rw [this, lvlIds_datas, List.flatMap_append]
  simp [fillIds, dataIds, mkData]

/-- The bulk build and identifiers.  `P` = "the created-slab table of the starting context is
    sound"; the identifier clause holds regardless. -/
theorem fromBatchData_ids (hT : legalThreshold T = true) {cfg : MCfg} (hc : CfgFor cfg T (r + 1))
    (ty seed : Nat) (kvs : List (MKey × Elem)) (hkv : ∀ p ∈ kvs, KeyOk T (r + 1) D p.1 ∧ ValueOkM p.2)
    (c : Ctx) (m : OMap r) (c' : Ctx) (h : OMap.fromBatchData cfg ty seed kvs c = .ok (m, c')) :
    FreshIds cfg.addr c.ctr c'.ctr (m.slabIds ++ m.refIds) ∧ c.ctr < c'.ctr ∧
    (CreatedTableOk cfg.addr c → CreatedTableOk cfg.addr c' ∧
      ∀ p ∈ m.toList, ∃ v, (p.1, v) ∈ kvs ∧ Represents cfg.T c'.created p.1 v p.2) := by
  obtain ⟨_, _, _, _, _, st0, cf0, hfill0, hto⟩ := fromBatchData_ok_facts cfg ty seed kvs c m c' h
  unfold OMap.fromBatchData at h
  by_cases hseed : seed = 0
  · simp [hseed] at h
  · simp only [hseed, if_false] at h
    rw [hfill0] at h
    simp only at h
    have hok : MFillOk T r D cfg st0 kvs := by
      have := (mfill_ok (D := D) hT hc kvs hkv [] _ (c.alloc cfg.addr).2
        (mfill_init (D := D) hT cfg (c.alloc cfg.addr).1 rfl)).1 st0 cf0 hfill0
      simpa using this
    have hI : MFillIds cfg c.ctr (CreatedTableOk cfg.addr c) st0 kvs cf0 := by
      have := mfill_ids (D := D) hT hc c.ctr (CreatedTableOk cfg.addr c) kvs hkv [] _ (c.alloc cfg.addr).2
        (mfill_init (D := D) hT cfg (c.alloc cfg.addr).1 rfl)
        (mfillIds_init cfg c (CreatedTableOk cfg.addr c) id) st0 cf0 hfill0
      simpa using this
    have hF : FreshIds cfg.addr c.ctr cf0.ctr (lvlIds 0 (fillSlabs st0) ++ OMap.refsOf (fillPairs st0)) := by
      rw [lvlIds_fillSlabs]; exact hI.ids
    obtain ⟨b1, b2, b3⟩ := mlevels_ids cfg.T cfg.addr ty st0.count seed c.ctr (OMap.refsOf (fillPairs st0))
      _ 0 (fillSlabs st0) cf0 m c' h hF
    have hrefs : m.refIds = OMap.refsOf (fillPairs st0) := by unfold OMap.refIds; rw [hto]
    rw [hrefs]
    refine ⟨b1, ?_, ?_⟩
    · have hroot := (b1.2.2 m.rootID (List.mem_append.mpr (Or.inl m.rootID_mem_slabIds))).2
      omega
    · intro hP
      refine ⟨?_, ?_⟩
      · intro p hp ha
        rw [b3] at hp
        have := hI.created hP p hp ha
        omega
      · intro p hp
        rw [hto] at hp
        rw [b3]
        exact hI.repr hP p hp

end Atree
