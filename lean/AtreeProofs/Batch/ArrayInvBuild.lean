import AtreeProofs.Batch.ArrayLevels
/-
  C17, bulk build of arrays — the result of `NewArrayFromBatchData` satisfies the array invariant
  `ArrInv` (the same invariant single operations maintain), for every input list, every legal
  threshold, every tree depth.
-/
namespace Atree
open Gen ATree MetaSlab ABatch

variable {T : Nat}

/-- what the bulk build establishes about its result, besides the invariant -/
structure BuiltOk (T addr lo : Nat) (a : Arr) (ctr : Nat) : Prop where
  inv : ArrInv T a ctr
  addr_eq : a.addr = addr
  fresh : ∀ id ∈ slabIds a.d a.root, id.addr = addr ∧ lo < id.idx ∧ id.idx ≤ ctr

theorem finishRoot_ok (hT : legalThreshold T = true) (ty : Nat) : ∀ (d : Nat) (t : ATree d) (c : Ctx)
    (addr lo : Nat), Shape T d false t → (hdr d t).size ≤ maxThr T → TopKids d t →
    LeafChain (Arr.leaves d t) → IdsOk addr c.ctr (slabIds d t) → (∀ id ∈ slabIds d t, lo < id.idx) →
    (flatten d t).length < maxArrayElementCount + 1 →
    BuiltOk T addr lo (finishRoot ty d t c).1 (finishRoot ty d t c).2.ctr
  | 0, t, c, addr, lo => by
    refine forall_ofData ?_ t; intro s hs hmax _ hchain hids hfresh hcnt
    have F := thrFacts hT
    have hs := (shape_zero T false s).1 hs
    have hsz := hs.size_eq
    rw [hs.prefix_false] at hsz
    have hroot : (finishRoot ty 0 (ofData s) c).1 =
        ⟨0, ofData { s with hdr := { s.hdr with size := s.hdr.size - arrayDataSlabPrefixSize + arrayRootDataSlabPrefixSize },
                            root := true }, ty⟩ := rfl
    have hctr : (finishRoot ty 0 (ofData s) c).2.ctr = c.ctr := rfl
    rw [hroot, hctr]
    have haddr : s.hdr.id.addr = addr := (hids.2 s.hdr.id (by simp)).1
    refine ⟨arrInv_of_shape ?_ ?_ trivial ?_ ?_ ?_, haddr, ?_⟩
    · rw [shape_zero]
      refine ⟨hs.count_eq, ?_, hs.elems_ok, rfl, hs.not_inl⟩
      simp only [DataSlab.prefixSize, hs.not_inl, Bool.false_eq_true, if_false, if_true]
      have := F.pfx; have := F.rpfx; omega
    · simp only [hdr_zero] at hmax ⊢
      have := F.pfx; have := F.rpfx; omega
    · simpa [LeafChain] using hchain
    · simp only [hdr_zero, slabIds_zero] at hids ⊢
      rw [haddr]; exact hids
    · simp only [hdr_zero, hs.count_eq]
      simpa using hcnt
    · intro id hid
      have hid' : id ∈ slabIds 0 (ofData s) := by simpa using hid
      exact ⟨(hids.2 id hid').1, hfresh id hid', (hids.2 id hid').2.2⟩
  | d + 1, t, c, addr, lo => by
    refine forall_ofMeta ?_ t; intro m hs hmax hk hchain hids hfresh hcnt
    have hs := (shape_succ T d false m).1 hs
    have hroot : (finishRoot ty (d + 1) (ofMeta m) c).1 = ⟨d + 1, ofMeta { m with root := true }, ty⟩ := rfl
    have hctr : (finishRoot ty (d + 1) (ofMeta m) c).2.ctr = c.ctr := rfl
    rw [hroot, hctr]
    have haddr : m.hdr.id.addr = addr := (hids.2 m.hdr.id (by simp)).1
    have hsh : Shape T (d + 1) true (ofMeta { m with root := true }) :=
      (shape_succ T d true _).2 ⟨rfl, hs.hdrs_eq, hs.sums_eq, hs.count_eq, hs.size_eq, hs.kids_inv, hs.kids_addr⟩
    refine ⟨arrInv_of_shape hsh hmax hk hchain ?_ ?_, haddr, ?_⟩
    · show IdsOk m.hdr.id.addr c.ctr (slabIds (d + 1) (ofMeta m))
      rw [haddr]; exact hids
    · rw [hsh.count_eq_length]; exact hcnt
    · intro id hid
      exact ⟨(hids.2 id hid).1, hfresh id hid, (hids.2 id hid).2.2⟩

theorem allOk_root {d addr lo ctr : Nat} {t : ATree d} (h : AllOk T d addr lo ctr [t]) :
    Shape T d false t ∧ (hdr d t).size ≤ maxThr T ∧ TopKids d t ∧ LeafChain (Arr.leaves d t) ∧
      IdsOk addr ctr (slabIds d t) ∧ ∀ id ∈ slabIds d t, lo < id.idx := by
  obtain ⟨a, b, c⟩ := h.single t rfl
  exact ⟨a, b, c, by simpa using h.chain, by simpa using h.ids, by simpa using h.fresh⟩

/-- The level loop: from a level satisfying `LevelOk` to a valid array. -/
theorem levels_ok (hT : legalThreshold T = true) (addr ty lo : Nat) :
    ∀ (fuel d : Nat) (A : List (ATree d)) (z : ATree d) (c : Ctx), LevelOk T d addr lo c.ctr A z →
      (A ++ [z]).length ≤ fuel → ((A ++ [z]).flatMap (flatten d)).length < maxArrayElementCount + 1 →
      ∃ a c', levels T addr ty fuel d (A ++ [z]) c = .ok (a, c') ∧ BuiltOk T addr lo a c'.ctr ∧
        a.toList = (A ++ [z]).flatMap (flatten d) ∧ a.ty = ty ∧ c.ctr ≤ c'.ctr := by
  intro fuel
  induction fuel with
  | zero => intro d A z c _ hlen; simp at hlen
  | succ fuel ih =>
    intro d A z c hL hlen hcnt
    obtain ⟨hall, hlen2⟩ := rebalanceTail_ok hT hL
    have hfl := rebalanceTail_flatten T d (A ++ [z])
    match hX : A ++ [z] with
    | [] => simp at hX
    | [root] =>
      rw [hX] at hall hfl hcnt
      have hR : rebalanceTail T d [root] = [root] := rfl
      rw [hR] at hall
      obtain ⟨r1, r2, r3, r4, r5, r6⟩ := allOk_root hall
      refine ⟨(finishRoot ty d root c).1, (finishRoot ty d root c).2, levels_single .., ?_, ?_,
        (finishRoot_toList ty d root c).2, Nat.le_refl _⟩
      · exact finishRoot_ok hT ty d root c addr lo r1 r2 r3 r4 r5 r6 (by simpa using hcnt)
      · rw [(finishRoot_toList ty d root c).1]; simp
    | x :: y :: rest =>
      rw [hX] at hall hfl hcnt hlen2 hlen
      rw [levels_many]
      match hR : rebalanceTail T d (x :: y :: rest), hall.ne with
      | [root], _ =>
        rw [hR] at hall hfl
        obtain ⟨r1, r2, r3, r4, r5, r6⟩ := allOk_root hall
        refine ⟨(finishRoot ty d root c).1, (finishRoot ty d root c).2, afterRebalance_single .., ?_, ?_,
          (finishRoot_toList ty d root c).2, Nat.le_refl _⟩
        · refine finishRoot_ok hT ty d root c addr lo r1 r2 r3 r4 r5 r6 ?_
          have : flatten d root = (x :: y :: rest).flatMap (flatten d) := by rw [← hfl]; simp
          rw [this]; exact hcnt
        · rw [(finishRoot_toList ty d root c).1, ← hfl]; simp
      | x' :: y' :: rest', _ =>
        rw [hR] at hall hfl hlen2
        rw [afterRebalance_many]
        have hall' : AllOk T d addr lo (storeAll d (x' :: y' :: rest') c).ctr (x' :: y' :: rest') := by
          rw [storeAll_ctr]; exact hall
        obtain ⟨A2, z2, e1, e2⟩ := nextLevel_ok hT (storeAll d (x' :: y' :: rest') c) hall' (by simp)
        obtain ⟨h1, _⟩ := nextLevel_length_lt T addr d (legal_maxN hT) (x' :: y' :: rest')
          (storeAll d (x' :: y' :: rest') c) (by simp)
        have hflat := nextLevel_flatten T addr d (x' :: y' :: rest') (storeAll d (x' :: y' :: rest') c)
        rw [e1] at h1 hflat ⊢
        obtain ⟨a, c', heq, hb, hto, hty, hc⟩ := ih (d + 1) A2 z2
          (nextLevelArraySlabs T addr d (x' :: y' :: rest') (storeAll d (x' :: y' :: rest') c)).2 e2
          (by simp only [List.length_cons] at hlen hlen2 h1 ⊢; omega)
          (by rw [hflat, hfl]; exact hcnt)
        refine ⟨a, c', heq, hb, by rw [hto, hflat, hfl], hty, ?_⟩
        have := e2.lo_le
        have hmono : c.ctr ≤ (nextLevelArraySlabs T addr d (x' :: y' :: rest') (storeAll d (x' :: y' :: rest') c)).2.ctr := by
          have hperm := e2.ids
          -- the first index slab's ID was allocated after `c`
          unfold nextLevelArraySlabs
          simp only
          have := nextLevelLoop_ctr_le ((maxThr T - arrayMetaDataSlabPrefixSize) / arraySlabHeaderSize) addr d
            (x' :: y' :: rest') (emptyMeta d ((storeAll d (x' :: y' :: rest') c).alloc addr).1) []
            ((storeAll d (x' :: y' :: rest') c).alloc addr).2
          simp only [Ctx.alloc_ctr, storeAll_ctr] at this
          omega
        omega

theorem asTrees_leaves (L : List DataSlab) : (asTrees L).flatMap (Arr.leaves 0) = L := by
  induction L with
  | nil => rfl
  | cons s L ih => simp only [asTrees_cons, List.flatMap_cons, ih, leaves_zero]; rfl

theorem asTrees_slabIds (L : List DataSlab) : (asTrees L).flatMap (slabIds 0) = L.map (·.hdr.id) := by
  induction L with
  | nil => rfl
  | cons s L ih => simp only [asTrees_cons, List.flatMap_cons, ih, slabIds_zero]; rfl

theorem leafChain_of_chain (done : List DataSlab) (cur : DataSlab) (f : SlabID)
    (h : Chain f cur.hdr.id done) (hn : cur.next = SlabID.undef) : LeafChain (done ++ [cur]) := by
  rw [leafChain_iff]
  refine ⟨f, ?_⟩
  rw [chain_append]
  exact ⟨cur.hdr.id, h, by simp [Chain, hn]⟩

/-- the slabs left by the element loop form a level of depth 0 -/
theorem fill_level {addr lo : Nat} {cur : DataSlab} {done : List DataSlab} {c : Ctx}
    (h : FillOk T addr lo cur done c) : LevelOk T 0 addr lo c.ctr (asTrees done) (ofData cur) := by
  have hsplit : asTrees done ++ [ofData cur] = asTrees (done ++ [cur]) := rfl
  refine ⟨?_, (shape_zero T false cur).2 h.cur_shape, h.cur_le, trivial, fun _ => trivial, ?_, ?_, ?_, h.lo_le⟩
  · intro t ht
    have ht' : (t : DataSlab) ∈ done := ht
    revert ht'
    refine forall_ofData ?_ t
    intro s hs
    exact (treeInv_zero T false s).2 (h.done_inv s hs)
  · rw [hsplit, asTrees_leaves]
    obtain ⟨f, hf⟩ := h.chain
    exact leafChain_of_chain done cur f hf h.cur_next
  · rw [hsplit, asTrees_slabIds]; exact h.ids
  · rw [hsplit, asTrees_slabIds]
    intro id hid
    simp only [List.mem_map] at hid
    obtain ⟨s, hs, rfl⟩ := hid
    exact h.fresh s hs

/-- C17 (`batch_array_inv`, general form): for every legal threshold and every list of values whose
    stored forms respect the inline limit, the bulk build succeeds and its result satisfies the
    array invariant relative to the allocation counter after the call; its element sequence is
    the sequence of stored forms; all its slab IDs were allocated during the call. -/
theorem newWith_inv (hT : legalThreshold T = true) (addr ty : Nat) (P : Elem → Prop)
    (toSt : Elem → Ctx → Elem × Ctx) (hSt : ToStOk T P toSt) (vs : List Elem) (hvs : ∀ v ∈ vs, P v)
    (hlen : vs.length < maxArrayElementCount + 1) (c : Ctx) :
    ∃ a c', ABatch.newWith T addr ty toSt vs c = .ok (a, c') ∧ BuiltOk T addr c.ctr a c'.ctr ∧
      a.toList = List.zipWith (fun v c => (toSt v c).1) vs
        (fillCtxs T addr toSt vs (emptyData (c.alloc addr).1) (c.alloc addr).2) ∧
      a.ty = ty ∧ c.ctr ≤ c'.ctr := by
  rw [newWith_eq]
  obtain ⟨done', cur', e1, e2⟩ := fillLoop_ok T addr c.ctr hT P toSt hSt vs hvs
    (emptyData (c.alloc addr).1) [] (c.alloc addr).2 (fill_init T addr hT c)
  have hflat := fillLoop_elems T addr toSt vs (emptyData (c.alloc addr).1) [] (c.alloc addr).2
  simp only [List.flatMap_nil, emptyData, List.nil_append] at hflat
  have hsplit : asTrees (done' ++ [cur']) = asTrees done' ++ [ofData cur'] := rfl
  have hfl2 : (asTrees done' ++ [ofData cur']).flatMap (flatten 0) =
      List.zipWith (fun v c => (toSt v c).1) vs
        (fillCtxs T addr toSt vs (emptyData (c.alloc addr).1) (c.alloc addr).2) := by
    rw [← hsplit, asTrees_flatten, ← e1]; exact hflat
  rw [e1, hsplit]
  obtain ⟨a, c', heq, hb, hto, hty, hc⟩ := levels_ok hT addr ty c.ctr (done' ++ [cur']).length 0 (asTrees done')
    (ofData cur') (fillLoop T addr toSt vs (emptyData (c.alloc addr).1) [] (c.alloc addr).2).2
    (fill_level e2) (Nat.le_refl _)
    (by rw [hfl2, List.length_zipWith, fillCtxs_length]; simpa using hlen)
  refine ⟨a, c', heq, hb, by rw [hto, hfl2], hty, ?_⟩
  have := e2.lo_le
  omega

end Atree
