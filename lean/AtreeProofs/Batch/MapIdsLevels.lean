import AtreeProofs.Batch.MapContent
import AtreeProofs.Map.TreeDefs
import AtreeProofs.Map.EffectsAcct
import AtreeProofs.MapIds
import Batteries.Data.List.Perm
/-
  C17, bulk build of maps — slab identifiers, part 1 (audit a1 F9, FX9H): the identifier
  bookkeeping `FreshIds` and the LEVEL loop of `NewMapFromBatchData` (`MBatch.levels`:
  tail rebalance, `nextLevelMapSlabs`, root finalisation).  A new induction beside the existing
  ones (`mlevels_content`, `mlevels_ok`), which carry no identifier invariant.

  `FreshIds a c0 ctr ids`: the identifiers `ids` are pairwise different, belong to the owner
  address `a` and were allocated after the counter stood at `c0` and not after it stood at `ctr`.
  `extra` is a list of further identifiers handed out by the same allocator (the large-value slabs
  referenced by the elements) that is carried along unchanged by the level loop.
-/
namespace Atree
open Gen MTree MBatch

variable {r : Nat}

/-- pairwise different identifiers of owner `a` allocated in the counter interval `(c0, ctr]` -/
def FreshIds (a c0 ctr : Nat) (ids : List SlabID) : Prop :=
  c0 ≤ ctr ∧ ids.Nodup ∧ ∀ id ∈ ids, Fresh a c0 ctr id

namespace FreshIds
variable {a c0 ctr ctr' : Nat} {ids ids' : List SlabID}

theorem nil (h : c0 ≤ ctr) : FreshIds a c0 ctr [] := ⟨h, List.nodup_nil, by simp⟩

theorem mono (h : FreshIds a c0 ctr ids) (hle : ctr ≤ ctr') : FreshIds a c0 ctr' ids :=
  ⟨Nat.le_trans h.1 hle, h.2.1, fun id hid => (h.2.2 id hid).mono_right hle⟩

theorem subperm (h : FreshIds a c0 ctr ids) (hs : ids'.Subperm ids) : FreshIds a c0 ctr ids' := by
  obtain ⟨l, hp, hsub⟩ := hs
  refine ⟨h.1, hp.nodup_iff.mp (hsub.nodup h.2.1), ?_⟩
  intro id hid
  exact h.2.2 id (hsub.subset (hp.mem_iff.mpr hid))

theorem perm (h : FreshIds a c0 ctr ids) (hp : ids'.Perm ids) : FreshIds a c0 ctr ids' :=
  h.subperm hp.subperm

/-- identifiers allocated later are different from all earlier ones -/
theorem append_new {news : List SlabID} (h : FreshIds a c0 ctr ids) (hn : FreshIds a ctr ctr' news) :
    FreshIds a c0 ctr' (news ++ ids) := by
  refine ⟨Nat.le_trans h.1 hn.1, ?_, ?_⟩
  · rw [List.nodup_append]
    refine ⟨hn.2.1, h.2.1, ?_⟩
    intro x hx y hy hxy
    subst hxy
    have h1 := (hn.2.2 x hx).2.1
    have h2 := (h.2.2 x hy).2.2
    omega
  · intro id hid
    rcases List.mem_append.mp hid with h1 | h1
    · exact (hn.2.2 id h1).mono_left h.1
    · exact (h.2.2 id h1).mono_right hn.1

theorem single_next (a c : Nat) : FreshIds a c (c + 1) [⟨a, c + 1⟩] :=
  ⟨by omega, by simp, by intro id hid; simp only [List.mem_singleton] at hid; subst hid; exact fresh_next a c⟩

/-- the clause `IdsOk` of the reviewed invariants follows -/
theorem idsOk (h : FreshIds a c0 ctr ids) : IdsOk a ctr ids :=
  ⟨h.2.1, fun id hid => ⟨(h.2.2 id hid).1, by have := (h.2.2 id hid).2.1; omega, (h.2.2 id hid).2.2⟩⟩

end FreshIds

/-- the identifiers of a level of subtrees -/
def lvlIds (d : Nat) (X : List (MTree r d)) : List SlabID := X.flatMap (CtxOk.mapSlabIds d)

theorem lvlIds_cons (d : Nat) (x : MTree r d) (X : List (MTree r d)) :
    lvlIds d (x :: X) = CtxOk.mapSlabIds d x ++ lvlIds d X := rfl

/-! ### merge and lend of the last two slabs of a level -/

theorem extIds_append' {α : Type} (A B : List (MElemF α)) : extIds (A ++ B) = extIds A ++ extIds B := by
  simp [extIds, List.filterMap_append]

theorem mids_merge : ∀ (d : Nat) (l x : MTree r d),
    (CtxOk.mapSlabIds d (MTree.merge d l x)).Sublist (CtxOk.mapSlabIds d l ++ CtxOk.mapSlabIds d x)
  | 0, l, x => by
    refine forall_ofMData ?_ l; intro l
    refine forall_ofMData ?_ x; intro x
    show (CtxOk.mapSlabIds 0 (MDataSlab.merge l x)).Sublist (CtxOk.mapSlabIds 0 l ++ CtxOk.mapSlabIds 0 x)
    rw [mapSlabIds_zero, mapSlabIds_zero, mapSlabIds_zero]
    have h1 : (MDataSlab.merge l x).hdr.id = l.hdr.id := rfl
    have h2 : (MDataSlab.merge l x).elems.elems = l.elems.elems ++ x.elems.elems := rfl
    rw [h1, h2, extIds_append']
    simp only [List.cons_append]
    exact List.Sublist.cons_cons _ (List.Sublist.append (List.Sublist.refl _) (List.sublist_cons_self _ _))
  | d + 1, l, x => by
    refine forall_ofMMeta ?_ l; intro l
    refine forall_ofMMeta ?_ x; intro x
    show (CtxOk.mapSlabIds (d + 1) (MMetaSlab.merge l x)).Sublist
      (CtxOk.mapSlabIds (d + 1) l ++ CtxOk.mapSlabIds (d + 1) x)
    rw [mapSlabIds_succ, mapSlabIds_succ, mapSlabIds_succ]
    have h1 : (MMetaSlab.merge l x).hdr.id = l.hdr.id := rfl
    have h2 : (MMetaSlab.merge l x).children = l.children ++ x.children := rfl
    rw [h1, h2, List.flatMap_append]
    simp only [List.cons_append]
    exact List.Sublist.cons_cons _ (List.Sublist.append (List.Sublist.refl _) (List.sublist_cons_self _ _))

theorem perm_lend_shape {α : Type} (a b : α) (A B C : List α) :
    (a :: A ++ b :: (B ++ C)).Perm (a :: (A ++ B) ++ b :: C) := by
  simp only [List.cons_append, List.append_assoc]
  refine List.Perm.cons _ ?_
  refine List.Perm.append_left A ?_
  exact (List.perm_middle (a := b) (l₁ := B) (l₂ := C)).symm

theorem mids_lend (T : Nat) : ∀ (d : Nat) (l x l' x' : MTree r d),
    MTree.lendToRight T d l x = .ok (l', x') →
    (CtxOk.mapSlabIds d l' ++ CtxOk.mapSlabIds d x').Perm (CtxOk.mapSlabIds d l ++ CtxOk.mapSlabIds d x)
  | 0, l, x, l', x' => by
    refine forall_ofMData ?_ l; intro l
    refine forall_ofMData ?_ x; intro x h
    have h : MDataSlab.lendToRight T l x = .ok (l', x') := h
    unfold MDataSlab.lendToRight at h
    cases he : HkeyElems.lendToRight (MDataSlab.eops r) T l.elems x.elems with
    | error e => rw [he] at h; simp [bind, Except.bind] at h
    | ok p =>
      obtain ⟨le, re⟩ := p
      rw [he] at h
      have hh := Except.ok.inj h
      have h1 : CtxOk.mapSlabIds 0 l' = l.hdr.id :: extIds le.elems := by
        rw [← (Prod.mk.inj hh).1]; exact mapSlabIds_zero _
      have h2 : CtxOk.mapSlabIds 0 x' = x.hdr.id :: extIds re.elems := by
        rw [← (Prod.mk.inj hh).2]; exact mapSlabIds_zero _
      rw [h1, h2]
      show List.Perm _ (CtxOk.mapSlabIds 0 l ++ CtxOk.mapSlabIds 0 x)
      rw [mapSlabIds_zero, mapSlabIds_zero]
      unfold HkeyElems.lendToRight at he
      split at he
      · simp at he
      · have he' := Except.ok.inj he
        rw [← (Prod.mk.inj he').1, ← (Prod.mk.inj he').2]
        simp only
        generalize HkeyElems.lendLoop _ _ _ _ _ _ = p
        rw [extIds_append']
        have := perm_lend_shape l.hdr.id x.hdr.id (extIds (l.elems.elems.take p.1))
          (extIds (l.elems.elems.drop p.1)) (extIds x.elems.elems)
        have e : extIds (l.elems.elems.take p.1) ++ extIds (l.elems.elems.drop p.1) = extIds l.elems.elems := by
          rw [← extIds_append', List.take_append_drop]
        rw [e] at this
        exact this
  | d + 1, l, x, l', x' => by
    refine forall_ofMMeta ?_ l; intro l
    refine forall_ofMMeta ?_ x; intro x h
    have h : Except.ok (MMetaSlab.lendToRight l x) = Except.ok (l', x') := h
    have hh := Except.ok.inj h
    have h1 : CtxOk.mapSlabIds (d + 1) l' =
        l.hdr.id :: (l.children.take ((l.childHdrs.length + x.childHdrs.length) / 2)).flatMap (CtxOk.mapSlabIds d) := by
      rw [← (Prod.mk.inj hh).1]; exact mapSlabIds_succ _
    have h2 : CtxOk.mapSlabIds (d + 1) x' =
        x.hdr.id :: (l.children.drop ((l.childHdrs.length + x.childHdrs.length) / 2) ++ x.children).flatMap
          (CtxOk.mapSlabIds d) := by
      rw [← (Prod.mk.inj hh).2]; exact mapSlabIds_succ _
    rw [h1, h2]
    show List.Perm _ (CtxOk.mapSlabIds (d + 1) l ++ CtxOk.mapSlabIds (d + 1) x)
    rw [mapSlabIds_succ, mapSlabIds_succ, List.flatMap_append]
    generalize (l.childHdrs.length + x.childHdrs.length) / 2 = n
    have := perm_lend_shape l.hdr.id x.hdr.id
      ((l.children.take n).flatMap (CtxOk.mapSlabIds d))
      ((l.children.drop n).flatMap (CtxOk.mapSlabIds d))
      (x.children.flatMap (CtxOk.mapSlabIds d))
    have e : (l.children.take n).flatMap (CtxOk.mapSlabIds d) ++ (l.children.drop n).flatMap (CtxOk.mapSlabIds d)
        = l.children.flatMap (CtxOk.mapSlabIds d) := by
      rw [← List.flatMap_append, List.take_append_drop]
    rw [e] at this
    exact this

theorem subperm_append_left' {α : Type} (A : List α) {B C : List α} (h : B.Subperm C) :
    (A ++ B).Subperm (A ++ C) := by
  obtain ⟨l, hp, hs⟩ := h
  exact ⟨A ++ l, List.Perm.append_left A hp, List.Sublist.append (List.Sublist.refl A) hs⟩

/-- "Rebalance last slab if needed" creates no identifier and duplicates none -/
theorem mrebalanceTail_ids (T d : Nat) : ∀ (X R : List (MTree r d)),
    MBatch.rebalanceTail T d X = .ok R → (lvlIds d R).Subperm (lvlIds d X)
  | [], R => by intro h; simp [MBatch.rebalanceTail] at h; subst h; exact List.Subperm.refl _
  | [_], R => by intro h; simp [MBatch.rebalanceTail] at h; subst h; exact List.Subperm.refl _
  | [l, x], R => by
    intro h
    unfold MBatch.rebalanceTail at h
    split at h
    · split at h
      · split at h
        · rename_i l' x' hl
          simp only [Except.ok.injEq] at h
          subst h
          simp only [lvlIds, List.flatMap_cons, List.flatMap_nil, List.append_nil]
          exact (mids_lend T d l x l' x' hl).subperm
        · simp at h
      · simp only [Except.ok.injEq] at h
        subst h
        simp only [lvlIds, List.flatMap_cons, List.flatMap_nil, List.append_nil]
        exact (mids_merge d l x).subperm
    · simp only [Except.ok.injEq] at h
      subst h; exact List.Subperm.refl _
  | x :: y :: z :: rest, R => by
    intro h
    unfold MBatch.rebalanceTail at h
    split at h
    · rename_i L hL
      simp only [Except.ok.injEq] at h
      subst h
      rw [lvlIds_cons, lvlIds_cons]
      exact subperm_append_left' _ (mrebalanceTail_ids T d (y :: z :: rest) L hL)
    · simp at h

/-! ### the next level -/

theorem mstoreAll_ctr (d : Nat) (X : List (MTree r d)) (c : Ctx) :
    (MBatch.storeAll d X c).ctr = c.ctr ∧ (MBatch.storeAll d X c).created = c.created := by
  unfold MBatch.storeAll
  induction X generalizing c with
  | nil => exact ⟨rfl, rfl⟩
  | cons x X ih =>
    simp only [List.foldl_cons]
    obtain ⟨h1, h2⟩ := ih (c.emit (.store (hdr d x).id))
    exact ⟨h1, h2⟩

/-- the header identifiers of the index slabs made by the loop of `nextLevelMapSlabs`: those of
    the finished ones, the current one, then freshly allocated ones -/
theorem mnextLevelLoop_hdrIds (maxN addr d : Nat) (ss : List (MTree r d)) :
    ∀ (cur : MMetaSlab (MTree r d)) (done : List (MMetaSlab (MTree r d))) (c : Ctx),
      ∃ news, (MBatch.nextLevelLoop maxN addr d ss cur done c).1.map (·.hdr.id) =
          done.map (·.hdr.id) ++ cur.hdr.id :: news ∧
        FreshIds addr c.ctr (MBatch.nextLevelLoop maxN addr d ss cur done c).2.ctr news ∧
        (MBatch.nextLevelLoop maxN addr d ss cur done c).2.created = c.created := by
  induction ss with
  | nil =>
    intro cur done c
    exact ⟨[], by simp [MBatch.nextLevelLoop], FreshIds.nil (Nat.le_refl _), rfl⟩
  | cons s ss ih =>
    intro cur done c
    unfold MBatch.nextLevelLoop
    split
    · obtain ⟨news, h1, h2, h3⟩ := ih (MBatch.addChild d (MBatch.emptyMeta d (c.alloc addr).1 (hdr d s).firstKey) s)
        (done ++ [cur]) (c.alloc addr).2
      refine ⟨(c.alloc addr).1 :: news, ?_, ?_, ?_⟩
      · rw [h1]; simp [MBatch.addChild, MBatch.emptyMeta]
      · have hs := FreshIds.single_next addr c.ctr
        have h2' : FreshIds addr (c.ctr + 1) (MBatch.nextLevelLoop maxN addr d ss
            (MBatch.addChild d (MBatch.emptyMeta d (c.alloc addr).1 (hdr d s).firstKey) s)
            (done ++ [cur]) (c.alloc addr).2).2.ctr news := h2
        exact (hs.append_new h2').perm (List.perm_append_singleton _ _).symm
      · rw [h3]; rfl
    · obtain ⟨news, h1, h2, h3⟩ := ih (MBatch.addChild d cur s) done c
      exact ⟨news, by rw [h1]; simp [MBatch.addChild], h2, h3⟩

theorem mids_metas (d : Nat) (R : List (MMetaSlab (MTree r d))) :
    (lvlIds (d + 1) (asMMetas R)).Perm (R.map (·.hdr.id) ++ lvlIds d (R.flatMap (·.children))) := by
  induction R with
  | nil => exact List.Perm.refl _
  | cons m R ih =>
    show List.Perm (CtxOk.mapSlabIds (d + 1) (ofMMeta m) ++ lvlIds (d + 1) (asMMetas R)) _
    have : CtxOk.mapSlabIds (d + 1) (ofMMeta m) = m.hdr.id :: lvlIds d m.children := mapSlabIds_succ m
    rw [this]
    simp only [List.map_cons, List.flatMap_cons, List.cons_append, lvlIds, List.flatMap_append]
    refine List.Perm.cons _ ?_
    have ih' : List.Perm (List.flatMap (CtxOk.mapSlabIds (d + 1)) (asMMetas R))
        (R.map (·.hdr.id) ++ (R.flatMap (·.children)).flatMap (CtxOk.mapSlabIds d)) := ih
    refine (List.Perm.append_left _ ih').trans ?_
    rw [← List.append_assoc, ← List.append_assoc]
    exact List.Perm.append_right _ List.perm_append_comm

/-- `nextLevelMapSlabs`: the identifiers of the new level are those of the old level plus freshly
    allocated, pairwise different identifiers of the index slabs -/
theorem mnextLevel_ids (T addr d : Nat) (X : List (MTree r d)) (c : Ctx) :
    ∃ news, (lvlIds (d + 1) (nextLevelMapSlabs T addr d X c).1).Perm (news ++ lvlIds d X) ∧
      FreshIds addr c.ctr (nextLevelMapSlabs T addr d X c).2.ctr news ∧
      (nextLevelMapSlabs T addr d X c).2.created = c.created := by
  have h : ∀ fk, ∃ news, (lvlIds (d + 1) (asMMetas (MBatch.nextLevelLoop
        ((maxThr T - mapMetaDataSlabPrefixSize) / mapSlabHeaderSize) addr d X
        (MBatch.emptyMeta d (c.alloc addr).1 fk) [] (c.alloc addr).2).1)).Perm (news ++ lvlIds d X) ∧
      FreshIds addr c.ctr (MBatch.nextLevelLoop
        ((maxThr T - mapMetaDataSlabPrefixSize) / mapSlabHeaderSize) addr d X
        (MBatch.emptyMeta d (c.alloc addr).1 fk) [] (c.alloc addr).2).2.ctr news ∧
      (MBatch.nextLevelLoop
        ((maxThr T - mapMetaDataSlabPrefixSize) / mapSlabHeaderSize) addr d X
        (MBatch.emptyMeta d (c.alloc addr).1 fk) [] (c.alloc addr).2).2.created = c.created := by
    intro fk
    obtain ⟨news, h1, h2, h3⟩ := mnextLevelLoop_hdrIds ((maxThr T - mapMetaDataSlabPrefixSize) / mapSlabHeaderSize)
      addr d X (MBatch.emptyMeta d (c.alloc addr).1 fk) [] (c.alloc addr).2
    refine ⟨(c.alloc addr).1 :: news, ?_, ?_, by rw [h3]; rfl⟩
    · refine (mids_metas d _).trans ?_
      rw [h1, mnextLevelLoop_children]
      simp [MBatch.emptyMeta]
    · have hs := FreshIds.single_next addr c.ctr
      have h2' : FreshIds addr (c.ctr + 1) (MBatch.nextLevelLoop
        ((maxThr T - mapMetaDataSlabPrefixSize) / mapSlabHeaderSize) addr d X
        (MBatch.emptyMeta d (c.alloc addr).1 fk) [] (c.alloc addr).2).2.ctr news := h2
      exact (hs.append_new h2').perm (List.perm_append_singleton _ _).symm
  unfold nextLevelMapSlabs
  exact h _

/-! ### root finalisation and the level loop -/

theorem mfinishRoot_ids (ty count seed d : Nat) (root : MTree r d) (c : Ctx) :
    (MBatch.finishRoot ty count seed d root c).1.slabIds = CtxOk.mapSlabIds d root ∧
      (MBatch.finishRoot ty count seed d root c).2.ctr = c.ctr ∧
      (MBatch.finishRoot ty count seed d root c).2.created = c.created := by
  cases d with
  | zero =>
    refine ⟨?_, rfl, rfl⟩
    revert root
    refine forall_ofMData ?_
    intro s
    show CtxOk.mapSlabIds 0 (ofMData ({ s with
        hdr := { s.hdr with size := s.hdr.size - mapDataSlabPrefixSize + mapRootDataSlabPrefixSize },
        root := true } : MDataSlab r)) = CtxOk.mapSlabIds 0 (ofMData s)
    exact (mapSlabIds_zero _).trans (mapSlabIds_zero s).symm
  | succ d =>
    refine ⟨?_, rfl, rfl⟩
    revert root
    refine forall_ofMMeta ?_
    intro m
    show CtxOk.mapSlabIds (d + 1) (ofMMeta ({ m with root := true } : MMetaSlab (MTree r d))) =
      CtxOk.mapSlabIds (d + 1) (ofMMeta m)
    exact (mapSlabIds_succ _).trans (mapSlabIds_succ m).symm

/-- The level loop: if the identifiers of the level it starts from (together with the carried
    identifiers `extra`) are pairwise different, of owner `addr` and allocated in `(c0, c.ctr]`,
    then so are ALL slab identifiers of the resulting map (with `extra`), relative to the final
    counter; the loop creates no large-value slab. -/
theorem mlevels_ids (T addr ty count seed c0 : Nat) (extra : List SlabID) :
    ∀ (fuel d : Nat) (X : List (MTree r d)) (c : Ctx) (m : OMap r) (c' : Ctx),
      MBatch.levels T addr ty count seed fuel d X c = .ok (m, c') →
      FreshIds addr c0 c.ctr (lvlIds d X ++ extra) →
      FreshIds addr c0 c'.ctr (m.slabIds ++ extra) ∧ c.ctr ≤ c'.ctr ∧ c'.created = c.created := by
  intro fuel
  induction fuel with
  | zero => intro d X c m c' h; simp [MBatch.levels] at h
  | succ fuel ih =>
    intro d X c m c' h hF
    unfold MBatch.levels at h
    split at h
    · simp at h
    · rename_i root
      simp only [Except.ok.injEq] at h
      obtain ⟨a1, a2, a3⟩ := mfinishRoot_ids ty count seed d root c
      rw [h] at a1 a2 a3
      simp only at a1 a2 a3
      rw [a1, a2]
      exact ⟨by simpa [lvlIds] using hF, Nat.le_refl _, a3⟩
    · split at h
      · simp at h
      · simp at h
      · rename_i root hR
        have hsub := mrebalanceTail_ids T d _ _ hR
        simp only [Except.ok.injEq] at h
        obtain ⟨a1, a2, a3⟩ := mfinishRoot_ids ty count seed d root c
        rw [h] at a1 a2 a3
        simp only at a1 a2 a3
        rw [a1, a2]
        refine ⟨hF.subperm ?_, Nat.le_refl _, a3⟩
        have : (CtxOk.mapSlabIds d root).Subperm (lvlIds d X) := by simpa [lvlIds] using hsub
        obtain ⟨l, hp, hs⟩ := this
        exact ⟨l ++ extra, List.Perm.append_right _ hp, List.Sublist.append hs (List.Sublist.refl _)⟩
      · rename_i slabs' _ _ hR
        have hsub := mrebalanceTail_ids T d _ _ hR
        obtain ⟨s1, s2⟩ := mstoreAll_ctr d slabs' c
        obtain ⟨news, n1, n2, n3⟩ := mnextLevel_ids T addr d slabs' (MBatch.storeAll d slabs' c)
        rw [s1] at n2
        have hF1 : FreshIds addr c0 c.ctr (lvlIds d slabs' ++ extra) := by
          refine hF.subperm ?_
          obtain ⟨l, hp, hs⟩ := hsub
          exact ⟨l ++ extra, List.Perm.append_right _ hp, List.Sublist.append hs (List.Sublist.refl _)⟩
        have hF2 := hF1.append_new n2
        obtain ⟨b1, b2, b3⟩ := ih _ _ _ _ _ h (hF2.perm (by
          rw [← List.append_assoc]; exact List.Perm.append_right _ n1))
        exact ⟨b1, Nat.le_trans n2.1 b2, by rw [b3, n3, s2]⟩

end Atree
