import AtreeProofs.Batch.ArrayContent
import AtreeProofs.Array.Top
/-
  C17, bulk build of arrays — the element loop ("Batch append data by creating a list of
  ArrayDataSlab") establishes the level invariant at depth 0: every closed data slab is within
  the size band, the open one is well-formed and not too large, the slabs are linked left to
  right, and their IDs are fresh and distinct.
-/
namespace Atree
open Gen ATree MetaSlab ABatch

/-- What the bulk build needs from the caller's `Value.Storable`: values satisfying `P` become
    storables within the per-element inline limit, and the allocation counter never goes back. -/
structure ToStOk (T : Nat) (P : Elem → Prop) (toSt : Elem → Ctx → Elem × Ctx) : Prop where
  elem_ok : ∀ v c, P v → ElemOk T (toSt v c).1
  ctr_le  : ∀ v c, c.ctr ≤ (toSt v c).2.ctr

theorem toStorable_toStOk (T addr : Nat) (hT : legalThreshold T = true) :
    ToStOk T ValueOk (toStorable T addr) :=
  ⟨fun v c hv => toStorable_ok T addr hT v c hv, fun v c => toStorable_ctr_le T addr v c⟩

/-- state of the element loop -/
structure FillOk (T addr lo : Nat) (cur : DataSlab) (done : List DataSlab) (c : Ctx) : Prop where
  done_inv : ∀ s ∈ done, DataInv T false s
  cur_shape : DShape T false cur
  cur_le : cur.hdr.size ≤ maxThr T
  cur_next : cur.next = SlabID.undef
  chain : ∃ f, Chain f cur.hdr.id done
  ids : IdsOk addr c.ctr ((done ++ [cur]).map (·.hdr.id))
  fresh : ∀ s ∈ done ++ [cur], lo < s.hdr.id.idx
  lo_le : lo ≤ c.ctr

theorem pushElem_spec (T : Nat) (hT : legalThreshold T = true) (P : Elem → Prop)
    (toSt : Elem → Ctx → Elem × Ctx) (hSt : ToStOk T P toSt) (v : Elem) (hv : P v)
    (cur : DataSlab) (c : Ctx) (hs : DShape T false cur) (hlt : cur.hdr.size < T ∨ cur.elems = []) :
    DShape T false (pushElem toSt v cur c).1 ∧ (pushElem toSt v cur c).1.hdr.size ≤ maxThr T ∧
      (pushElem toSt v cur c).1.hdr.id = cur.hdr.id ∧ (pushElem toSt v cur c).1.next = cur.next ∧
      c.ctr ≤ (pushElem toSt v cur c).2.ctr := by
  have F := thrFacts hT
  obtain ⟨f1, f2, f3, f4, f5, f6, f7, f8, f9⟩ := F
  have he := hSt.elem_ok v c hv
  have hsz := hs.size_eq
  rw [hs.prefix_false] at hsz
  refine ⟨⟨?_, ?_, ?_, hs.root_eq, hs.not_inl⟩, ?_, rfl, rfl, hSt.ctr_le v c⟩
  · simp [pushElem, hs.count_eq]
  · simp only [pushElem, DataSlab.prefixSize, hs.root_eq, hs.not_inl, Bool.false_eq_true, if_false,
      sumSizes_append, sumSizes_cons, sumSizes_nil]
    omega
  · intro e hmem
    simp only [pushElem, List.mem_append, List.mem_singleton] at hmem
    rcases hmem with hmem | rfl
    · exact hs.elems_ok e hmem
    · exact he
  · simp only [pushElem]
    have := he.2
    rcases hlt with hlt | hlt
    · omega
    · rw [hlt] at hsz; simp only [sumSizes_nil] at hsz; omega

theorem emptyData_shape (T : Nat) (id : SlabID) : DShape T false (emptyData id) :=
  ⟨rfl, rfl, by simp [emptyData], rfl, rfl⟩

/-- one round of the element loop keeps `FillOk` -/
theorem fillLoop_ok (T addr lo : Nat) (hT : legalThreshold T = true) (P : Elem → Prop)
    (toSt : Elem → Ctx → Elem × Ctx) (hSt : ToStOk T P toSt) (vs : List Elem) (hvs : ∀ v ∈ vs, P v) :
    ∀ (cur : DataSlab) (done : List DataSlab) (c : Ctx), FillOk T addr lo cur done c →
      ∃ done' cur', (fillLoop T addr toSt vs cur done c).1 = done' ++ [cur'] ∧
        FillOk T addr lo cur' done' (fillLoop T addr toSt vs cur done c).2 := by
  have F := thrFacts hT
  obtain ⟨f1, f2, f3, f4, f5, f6, f7, f8, f9⟩ := F
  induction vs with
  | nil => intro cur done c h; exact ⟨done, cur, rfl, h⟩
  | cons v vs ih =>
    intro cur done c h
    have hv := hvs v (by simp)
    have hvs' : ∀ x ∈ vs, P x := fun x hx => hvs x (by simp [hx])
    unfold fillLoop
    by_cases hfull : cur.hdr.size ≥ T
    · simp only [hfull, if_true]
      apply ih hvs'
      obtain ⟨p1, p2, p3, p4, p5⟩ := pushElem_spec T hT P toSt hSt v hv (emptyData (c.alloc addr).1)
        (c.alloc addr).2 (emptyData_shape T _) (Or.inr rfl)
      have hcid : (emptyData (c.alloc addr).1).hdr.id = ⟨addr, c.ctr + 1⟩ := rfl
      have hctr : (c.alloc addr).2.ctr = c.ctr + 1 := rfl
      rw [hcid] at p3
      have hlo := h.lo_le
      refine ⟨?_, p1, p2, by rw [p4]; rfl, ?_, ?_, ?_, by omega⟩
      · intro s hs
        simp only [List.mem_append, List.mem_singleton] at hs
        rcases hs with hs | rfl
        · exact h.done_inv s hs
        · rw [dataInv_false_iff]
          refine ⟨⟨h.cur_shape.count_eq, h.cur_shape.size_eq, h.cur_shape.elems_ok, h.cur_shape.root_eq,
            h.cur_shape.not_inl⟩, ?_, h.cur_le⟩
          simp only; omega
      · obtain ⟨f, hf⟩ := h.chain
        refine ⟨f, ?_⟩
        rw [chain_append]
        refine ⟨cur.hdr.id, hf, ?_⟩
        show cur.hdr.id = cur.hdr.id ∧ (c.alloc addr).1 = _
        exact ⟨rfl, p3.symm⟩
      · obtain ⟨hnd, hall⟩ := h.ids
        simp only [List.map_append, List.map_cons, List.map_nil, p3] at hnd hall ⊢
        refine ⟨?_, ?_⟩
        · rw [List.nodup_append]
          refine ⟨hnd, by simp, ?_⟩
          intro a ha b hb hab
          simp only [List.mem_singleton] at hb
          subst hb hab
          have := (hall _ ha).2.2
          simp only at this
          omega
        · intro id hid
          simp only [List.mem_append, List.mem_singleton] at hid
          rcases hid with hid | rfl
          · have := hall id (by simpa using hid)
            exact ⟨this.1, this.2.1, by omega⟩
          · exact ⟨rfl, by simp, by simp only; omega⟩
      · intro s hs
        simp only [List.mem_append, List.mem_singleton] at hs
        rcases hs with (hs | rfl) | rfl
        · exact h.fresh s (by simp [hs])
        · exact h.fresh cur (by simp)
        · rw [p3]; have := h.lo_le; simp only; omega
    · simp only [hfull, if_false]
      apply ih hvs'
      obtain ⟨p1, p2, p3, p4, p5⟩ := pushElem_spec T hT P toSt hSt v hv cur c h.cur_shape (Or.inl (by omega))
      refine ⟨h.done_inv, p1, p2, by rw [p4]; exact h.cur_next, by rw [p3]; exact h.chain, ?_, ?_,
        Nat.le_trans h.lo_le p5⟩
      · have := h.ids.mono p5
        simpa [p3] using this
      · intro s hs
        simp only [List.mem_append, List.mem_singleton] at hs
        rcases hs with hs | rfl
        · exact h.fresh s (by simp [hs])
        · rw [p3]; exact h.fresh cur (by simp)

/-- the initial state of the element loop satisfies `FillOk` -/
theorem fill_init (T addr : Nat) (hT : legalThreshold T = true) (c : Ctx) :
    FillOk T addr c.ctr (emptyData (c.alloc addr).1) [] (c.alloc addr).2 := by
  have F := thrFacts hT
  refine ⟨by simp, emptyData_shape T _, ?_, rfl, ⟨_, rfl⟩, ?_, ?_, by simp⟩
  · simp only [emptyData, F.pfx, F.maxE]; have := F.lo; omega
  · simp [IdsOk, emptyData]
  · simp [emptyData]

end Atree
