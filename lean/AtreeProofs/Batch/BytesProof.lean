import AtreeModel.Bytes
import AtreeProofs.Batch.ArrayInvBuild
import AtreeProofs.Array.Iter
import AtreeProofs.Batch.CopyArray
/-
  C17, byte slice <-> byte array: `ByteSliceToByteArray` yields a valid array holding the bytes
  (fast path and `NewArrayFromBatchData` fallback), and `ByteArrayToByteSlice` reads them back.
-/
namespace Atree
open Gen ATree MetaSlab ABatch Bytes

variable {T : Nat}

/-- the byte an element stands for -/
def payNat (e : Elem) : Nat :=
  match e.pay with
  | .val b => b
  | .ref _ => 0

/-- `e` is a plain value of the caller's byte type `T` -/
def IsByteOf (isT : Elem → Bool) (e : Elem) : Prop := e.isPlain ∧ isT e = true

theorem mapM_elemByte (isT : Elem → Bool) (es : List Elem) (h : ∀ e ∈ es, IsByteOf isT e) :
    es.mapM (elemByte isT) = .ok (es.map payNat) := by
  induction es with
  | nil => rfl
  | cons e es ih =>
    obtain ⟨⟨n, hn⟩, ht⟩ := h e (by simp)
    have ih := ih (fun x hx => h x (by simp [hx]))
    simp only [List.mapM_cons, ih, elemByte, hn, ht, if_true, bind, Except.bind, pure, Except.pure, List.map_cons, payNat]

/-- following the sibling links from `cur` collects the bytes of `cur` and of all slabs after it -/
theorem collectFrom_spec (isT : Elem → Bool) : ∀ (rest pre : List DataSlab) (cur : DataSlab) (fuel : Nat),
    LeafChain (cur :: rest) → ((pre ++ cur :: rest).map (·.hdr.id)).Nodup →
    (∀ s ∈ pre ++ cur :: rest, s.hdr.id ≠ SlabID.undef) → rest.length + 1 ≤ fuel →
    (∀ s ∈ cur :: rest, ∀ e ∈ s.elems, IsByteOf isT e) →
    collectFrom isT (pre ++ cur :: rest) fuel cur = .ok ((cur.elems ++ rest.flatMap (·.elems)).map payNat) := by
  intro rest
  induction rest with
  | nil =>
    intro pre cur fuel hchain _ _ hfuel hp
    obtain ⟨f, rfl⟩ : ∃ f, fuel = f + 1 := ⟨fuel - 1, by simp at hfuel; omega⟩
    have hnext : cur.next = SlabID.undef := hchain
    unfold collectFrom
    simp only [mapM_elemByte isT _ (hp cur (by simp)), hnext, if_true, bind, Except.bind, pure, Except.pure,
      List.flatMap_nil, List.append_nil]
  | cons nxt rest ih =>
    intro pre cur fuel hchain hnd hdef hfuel hp
    obtain ⟨f, rfl⟩ : ∃ f, fuel = f + 1 := ⟨fuel - 1, by simp at hfuel; omega⟩
    obtain ⟨hnext, hchain'⟩ : cur.next = nxt.hdr.id ∧ LeafChain (nxt :: rest) := hchain
    have hnu : ¬ nxt.hdr.id = SlabID.undef := hdef nxt (by simp)
    have hsplit : pre ++ cur :: nxt :: rest = (pre ++ [cur]) ++ nxt :: rest := by simp
    have hrec := ih (pre ++ [cur]) nxt f hchain' (by rw [← hsplit]; exact hnd)
      (by rw [← hsplit]; exact hdef) (by simp at hfuel ⊢; omega) (fun s hs => hp s (by simp [hs]))
    unfold collectFrom
    simp only [mapM_elemByte isT _ (hp cur (by simp)), hnext, hnu, if_false, bind, Except.bind, pure, Except.pure,
      find?_next pre rest cur nxt hnd]
    rw [hsplit, hrec]
    simp

/-- `ByteArrayToByteSlice` on a valid array of plain values returns the payloads in order. -/
theorem byteArrayToByteSlice_spec (isT : Elem → Bool) (a : Arr) (ctr : Nat) (h : ArrInv T a ctr)
    (hp : ∀ e ∈ a.toList, IsByteOf isT e) : byteArrayToByteSlice isT a = .ok (a.toList.map payNat) := by
  obtain ⟨d, t, ty⟩ := a
  have hfl := leaves_flatMap_elems d t
  have hcount : (hdr d t).count = (flatten d t).length := h.shape.count_eq_length
  have hnd : ((Arr.leaves d t).map (·.hdr.id)).Nodup := h.ids.1.sublist (leaves_ids_sublist d t)
  have hdef : ∀ s ∈ Arr.leaves d t, s.hdr.id ≠ SlabID.undef := by
    intro s hs heq
    have hm : s.hdr.id ∈ slabIds d t :=
      (leaves_ids_sublist d t).subset (List.mem_map.2 ⟨s, hs, rfl⟩)
    have := (h.ids.2 _ hm).2.1
    rw [heq] at this
    simp [SlabID.undef] at this
  have hchain : LeafChain (Arr.leaves d t) := h.chain
  have hp' : ∀ s ∈ Arr.leaves d t, ∀ e ∈ s.elems, IsByteOf isT e := by
    intro s hs e he
    apply hp e
    show e ∈ flatten d t
    rw [← hfl]
    exact List.mem_flatMap.2 ⟨s, hs, he⟩
  show (if (hdr d t).count = 0 then Except.ok []
      else match Arr.leaves d t with
        | [] => .error (.arr .slabNotFound)
        | first :: _ => collectFrom isT (Arr.leaves d t) ((Arr.leaves d t).length + 1) first) = .ok ((flatten d t).map payNat)
  by_cases h0 : (hdr d t).count = 0
  · rw [if_pos h0]
    have : (flatten d t).length = 0 := by omega
    rw [List.eq_nil_of_length_eq_zero this]; rfl
  · rw [if_neg h0]
    match hl : Arr.leaves d t with
    | [] =>
      rw [hl] at hfl
      simp only [List.flatMap_nil] at hfl
      rw [← hfl] at hcount
      simp at hcount; omega
    | first :: rest =>
      simp only
      rw [hl] at hnd hdef hchain hfl hp'
      have := collectFrom_spec isT rest [] first ((first :: rest).length + 1) hchain
        (by simpa using hnd) (by simpa using hdef) (by simp) hp'
      simp only [List.nil_append] at this
      rw [this, ← List.flatMap_cons (f := fun s : DataSlab => s.elems), hfl]

theorem sumSizes_byteElem (bsize : Nat → Nat) (bs : List Nat) :
    sumSizes (bs.map (byteElem bsize)) = (bs.map bsize).sum := by
  induction bs with
  | nil => rfl
  | cons b bs ih => simp [sumSizes_cons, byteElem, ih]

theorem map_payNat_byteElem (bsize : Nat → Nat) (bs : List Nat) :
    (bs.map (byteElem bsize)).map payNat = bs := by
  induction bs with
  | nil => rfl
  | cons b bs ih => simp [byteElem, payNat, ih]

/-- a standalone root data slab -/
def rootSlab (id : SlabID) (es : List Elem) : DataSlab :=
  { hdr := { id := id, size := arrayRootDataSlabPrefixSize + sumSizes es, count := es.length },
    next := SlabID.undef, elems := es, root := true, inlined := false }

theorem rootSlab_inv (hT : legalThreshold T = true) (addr ctr ty : Nat) (es : List Elem)
    (hes : ∀ e ∈ es, ElemOk T e) (hfit : sumSizes es + arrayRootDataSlabPrefixSize < T)
    (hlen : es.length < maxArrayElementCount + 1) :
    ArrInv T ⟨0, ofData (rootSlab ⟨addr, ctr + 1⟩ es), ty⟩ (ctr + 1) := by
  have F := thrFacts hT
  refine arrInv_of_shape ?_ ?_ trivial ?_ ?_ ?_
  · rw [shape_zero]
    exact ⟨rfl, rfl, hes, rfl, rfl⟩
  · simp only [hdr_zero, rootSlab, F.maxE]; have := F.lo; omega
  · simp [LeafChain, rootSlab]
  · simp [IdsOk, rootSlab]
  · simpa [rootSlab] using hlen

theorem new_inv (hT : legalThreshold T = true) (addr ty : Nat) (c : Ctx) :
    ArrInv T (Arr.new addr ty c).1 (Arr.new addr ty c).2.ctr := by
  have hroot : (Arr.new addr ty c).1 = ⟨0, ofData (rootSlab ⟨addr, c.ctr + 1⟩ []), ty⟩ := rfl
  have hctr : (Arr.new addr ty c).2.ctr = c.ctr + 1 := rfl
  rw [hroot, hctr]
  have F := thrFacts hT
  exact rootSlab_inv hT addr c.ctr ty [] (by simp) (by simp [sumSizes_nil, F.rpfx]; have := F.lo; omega)
    (by simp [maxArrayElementCount])

/-- the fast path of `ByteSliceToByteArray`: one root data slab holding all bytes -/
theorem newArrayWithElements_inv (hT : legalThreshold T = true) (addr ty : Nat) (es : List Elem) (c : Ctx)
    (hes : ∀ e ∈ es, ElemOk T e) (hfit : sumSizes es + arrayRootDataSlabPrefixSize < T)
    (hlen : es.length < maxArrayElementCount + 1) :
    ArrInv T (newArrayWithElements addr ty es (sumSizes es) c).1
        (newArrayWithElements addr ty es (sumSizes es) c).2.ctr ∧
      (newArrayWithElements addr ty es (sumSizes es) c).1.toList = es := by
  have hroot : (newArrayWithElements addr ty es (sumSizes es) c).1 =
      ⟨0, ofData (rootSlab ⟨addr, c.ctr + 1⟩ es), ty⟩ := rfl
  have hctr : (newArrayWithElements addr ty es (sumSizes es) c).2.ctr = c.ctr + 1 := rfl
  rw [hroot, hctr]
  exact ⟨rootSlab_inv hT addr c.ctr ty es hes hfit hlen, rfl⟩

theorem zipWith_fst_eq {α β : Type} (l : List α) (cs : List β) (h : cs.length = l.length) :
    List.zipWith (fun v c => ((v, c) : α × β).1) l cs = l := by
  induction l generalizing cs with
  | nil => simp
  | cons x l ih =>
    cases cs with
    | nil => simp at h
    | cons c cs => simp only [List.zipWith_cons_cons, ih cs (by simpa using h)]

/-- C17 (`bytes_roundtrip`): for every legal threshold, every byte list and every estimate,
    `ByteSliceToByteArray` succeeds with a valid array whose elements are the bytes (in order),
    and `ByteArrayToByteSlice` of that array is the original byte list. -/
theorem bytes_roundtrip_full (hT : legalThreshold T = true) (addr ty est : Nat) (bsize : Nat → Nat)
    (isT : Elem → Bool) (hisT : ∀ b, isT (byteElem bsize b) = true)
    (bs : List Nat) (hb : ∀ b ∈ bs, 1 ≤ bsize b ∧ bsize b ≤ maxInlineArr T)
    (hlen : bs.length < maxArrayElementCount + 1) (c : Ctx) :
    ∃ a c', byteSliceToByteArray T addr ty bsize bs est c = .ok (a, c') ∧ ArrInv T a c'.ctr ∧
      a.toList = bs.map (byteElem bsize) ∧ a.ty = ty ∧ byteArrayToByteSlice isT a = .ok bs := by
  have hplain : ∀ e ∈ bs.map (byteElem bsize), IsByteOf isT e := by
    intro e he
    obtain ⟨b, _, hbe⟩ := List.mem_map.1 he
    exact ⟨⟨b, by rw [← hbe]; rfl⟩, by rw [← hbe]; exact hisT b⟩
  have hok : ∀ e ∈ bs.map (byteElem bsize), ElemOk T e := by
    intro e he
    obtain ⟨b, hbm, hbe⟩ := List.mem_map.1 he
    rw [← hbe]; exact hb b hbm
  have hfinal : ∀ (a : Arr) (ctr : Nat), ArrInv T a ctr → a.toList = bs.map (byteElem bsize) →
      byteArrayToByteSlice isT a = .ok bs := by
    intro a ctr ha hto
    rw [byteArrayToByteSlice_spec isT a ctr ha (by rw [hto]; exact hplain), hto, map_payNat_byteElem]
  unfold byteSliceToByteArray
  by_cases hemp : bs.isEmpty = true
  · have : bs = [] := by simpa using hemp
    subst this
    simp only [List.isEmpty_nil, if_true]
    have hinv := new_inv hT addr ty c
    exact ⟨_, _, rfl, hinv, rfl, rfl, hfinal _ _ hinv rfl⟩
  · simp only [hemp, Bool.false_eq_true, if_false]
    generalize (if est = 0 then byteStorableCBORTagSize + byteStorableCBORDataSize else est) * bs.length = estimated
    by_cases hfast : (decide (estimated + arrayRootDataSlabPrefixSize < T) &&
        decide (sumSizes (bs.map (byteElem bsize)) + arrayRootDataSlabPrefixSize < T)) = true
    · rw [if_pos hfast]
      simp only [Bool.and_eq_true, decide_eq_true_eq] at hfast
      obtain ⟨hinv, hto⟩ := newArrayWithElements_inv hT addr ty (bs.map (byteElem bsize)) c hok hfast.2
        (by simpa using hlen)
      exact ⟨_, _, rfl, hinv, hto, rfl, hfinal _ _ hinv hto⟩
    · rw [if_neg hfast]
      have hSt : ToStOk T (ElemOk T) (fun v c => (v, c)) := ⟨fun v c hv => hv, fun v c => Nat.le_refl _⟩
      obtain ⟨a, c', heq, hbo, hto, hty, _⟩ := newWith_inv hT addr ty (ElemOk T) (fun v c => (v, c)) hSt
        (bs.map (byteElem bsize)) hok (by simpa using hlen) c
      have hto' : a.toList = bs.map (byteElem bsize) := by
        rw [hto]
        exact zipWith_fst_eq _ _ (by rw [fillCtxs_length])
      exact ⟨a, c', heq, hbo.inv, hto', hty, hfinal a c'.ctr hbo.inv hto'⟩

end Atree
