import AtreeProofs.Batch.MapBuild
import AtreeProofs.Batch.MapIdsLevels
import AtreeProofs.Batch.MapIdsElems
import AtreeProofs.Map.EffectsTree
import AtreeProofs.MapRefs
import AtreeProofs.BatchRefsSpec
/-
  C17, bulk build of maps — slab identifiers, part 3 (FX9H): the ELEMENT loop of
  `NewMapFromBatchData` (`MBatch.fillLoop`).  New invariant `MFillIds` beside `MFillOk`
  (Batch/MapFill.lean, unchanged): the identifiers of the data slabs closed so far, of the slab
  being filled, of the external collision groups AND of the large-value slabs referenced by the
  stored pairs are pairwise different, of the owner address, allocated during the call; every
  stored pair represents one input pair, and a reference resolves (in `Ctx.created`) to the input
  value.
-/
namespace Atree
open Gen MTree MBatch

variable {T r : Nat} {D : DigestFn (r + 1)}

/-- identifiers of a data slab: its own and those of its external collision groups -/
def dataIds (s : MDataSlab r) : List SlabID := s.hdr.id :: extIds s.elems.elems

/-- tree identifiers held by the state of the element loop -/
def fillIds (st : FillState r) : List SlabID :=
  st.slabs.flatMap dataIds ++ (st.id :: extIds st.elements.elems)

/-- identifier part of the loop invariant (after the pairs `proc`, in context `c`, for a call that
    started with the allocation counter at `c0`) -/
structure MFillIds (cfg : MCfg) (c0 : Nat) (P : Prop) (st : FillState r) (proc : List (MKey × Elem)) (c : Ctx) :
    Prop where
  ids : FreshIds cfg.addr c0 c.ctr (fillIds st ++ OMap.refsOf (fillPairs st))
  /-- `P` = "the created-slab table of the context the call started from was sound" (`CreatedTableOk`);
      the identifier clause above does not depend on it -/
  created : P → CreatedTableOk cfg.addr c
  repr : P → ∀ p ∈ fillPairs st, ∃ v, (p.1, v) ∈ proc ∧ Represents cfg.T c.created p.1 v p.2

/-! ### small facts -/

theorem find?_append_of_some {κ α : Type} [DecidableEq κ] (m m' : AList κ α) (k : κ) (v : α)
    (h : AList.find? m k = some v) : AList.find? (m ++ m') k = some v := by
  induction m with
  | nil => simp [AList.find?] at h
  | cons p m ih =>
    obtain ⟨k', v'⟩ := p
    simp only [List.cons_append, AList.find?] at h ⊢
    split
    · rename_i he; rw [if_pos he] at h; exact h
    · rename_i he; rw [if_neg he] at h; exact ih h

theorem find?_append_new {κ α : Type} [DecidableEq κ] (m : AList κ α) (k : κ) (v : α)
    (h : ∀ p ∈ m, p.1 ≠ k) : AList.find? (m ++ [(k, v)]) k = some v := by
  induction m with
  | nil => simp [AList.find?]
  | cons p m ih =>
    obtain ⟨k', v'⟩ := p
    have hne : k' ≠ k := h (k', v') (by simp)
    simp only [List.cons_append, AList.find?, if_neg hne]
    exact ih (fun q hq => h q (by simp [hq]))

theorem extIds_single {α : Type} (e : MElemF α) : extIds [e] = e.extId?.toList := by
  cases e <;> rfl

theorem refsOf_append (A B : List (MKey × Elem)) : OMap.refsOf (A ++ B) = OMap.refsOf A ++ OMap.refsOf B := by
  simp [OMap.refsOf, List.filterMap_append]

theorem refsOf_perm {A B : List (MKey × Elem)} (h : A.Perm B) : (OMap.refsOf A).Perm (OMap.refsOf B) :=
  h.filterMap _

theorem getLast?_split {α : Type} : ∀ {l : List α} {p : α}, l.getLast? = some p → l = l.dropLast ++ [p]
  | [], _, h => by simp at h
  | [a], p, h => by
    simp only [List.getLast?_singleton, Option.some.injEq] at h
    subst h; rfl
  | a :: b :: l, p, h => by
    rw [List.getLast?_cons_cons] at h
    have ih := getLast?_split (l := b :: l) h
    rw [List.dropLast_cons_of_ne_nil (by simp), List.cons_append, ← ih]

theorem set_last_eq {α : Type} {l : List α} {p : α} (h : l.getLast? = some p) (x : α) :
    l.set (l.length - 1) x = l.dropLast ++ [x] := by
  have hl := getLast?_split h
  conv => lhs; rw [hl]
  have : (l.dropLast ++ [p]).length - 1 = l.dropLast.length := by simp
  rw [this, List.set_append_right _ _ (Nat.le_refl _)]
  simp

/-- the context left by `newSingleElement` for a plain value -/
theorem nse_ctx (T a : Nat) (k : MKey) {v : Elem} (hv : ValueOkM v) (c : Ctx) :
    (v.size ≤ maxInlineMapValue T k.size ∧ (newSingleElement T a k v c).2 = c ∧
      (toStorableLim (maxInlineMapValue T k.size) a v c).1 = v) ∨
    (maxInlineMapValue T k.size < v.size ∧ (newSingleElement T a k v c).2.ctr = c.ctr + 1 ∧
      (newSingleElement T a k v c).2.created = c.created ++ [(⟨a, c.ctr + 1⟩, v)] ∧
      (toStorableLim (maxInlineMapValue T k.size) a v c).1 = ⟨slabIDStorableSize, .ref ⟨a, c.ctr + 1⟩⟩) := by
  obtain ⟨_, n, hn⟩ := hv
  by_cases hb : v.size > maxInlineMapValue T k.size
  · right
    refine ⟨hb, ?_, ?_, ?_⟩ <;> simp [newSingleElement, toStorableLim, hn, hb, Ctx.alloc, Ctx.emit]
  · left
    refine ⟨by omega, ?_, ?_⟩ <;> simp [newSingleElement, toStorableLim, hn, hb]

/-! ### one accepted pair -/

/-- Common part of both kinds of loop step: the new state holds one more pair — the stored form of
    `(k, v)` — and either no new tree identifier or the next one after the value was stored. -/
theorem mfillIds_step {cfg : MCfg} {c0 : Nat} {P : Prop} {st st' : FillState r} {proc : List (MKey × Elem)}
    {c c' : Ctx} (h : MFillIds cfg c0 P st proc c) (k : MKey) {v : Elem} (hv : ValueOkM v)
    (hpairs : (fillPairs st').Perm (fillPairs st ++ [(k, storedValue cfg k v c)]))
    (hcr : c'.created = (newSingleElement cfg.T cfg.addr k v c).2.created)
    (hids : ((fillIds st').Perm (fillIds st) ∧ c'.ctr = (newSingleElement cfg.T cfg.addr k v c).2.ctr) ∨
      ((fillIds st').Perm (⟨cfg.addr, (newSingleElement cfg.T cfg.addr k v c).2.ctr + 1⟩ :: fillIds st) ∧
        c'.ctr = (newSingleElement cfg.T cfg.addr k v c).2.ctr + 1)) :
    MFillIds cfg c0 P st' (proc ++ [(k, v)]) c' := by
  have hrp := refsOf_perm hpairs
  rw [refsOf_append] at hrp
  rcases nse_ctx cfg.T cfg.addr k hv c with ⟨hsmall, hn, hsv⟩ | ⟨hbig, hnctr, hncr, hsv⟩
  · -- the value is stored inline
    have hsv' : storedValue cfg k v c = v := hsv
    rw [hn] at hcr hids
    rw [hsv'] at hpairs hrp
    have hnoref : OMap.refsOf [(k, v)] = [] := by
      obtain ⟨_, n, hn⟩ := hv
      simp [OMap.refsOf, OMap.refOf, hn]
    rw [hnoref, List.append_nil] at hrp
    refine ⟨?_, ?_, ?_⟩
    · rcases hids with ⟨hp, hctr⟩ | ⟨hp, hctr⟩
      · rw [hctr]
        exact h.ids.perm (List.Perm.append hp hrp)
      · rw [hctr]
        have := h.ids.append_new (FreshIds.single_next cfg.addr c.ctr)
        refine this.perm ?_
        have h2 := List.Perm.append hp hrp
        simpa using h2
    · intro hP p hp ha
      rw [hcr] at hp
      have := h.created hP p hp ha
      rcases hids with ⟨_, hctr⟩ | ⟨_, hctr⟩ <;> omega
    · intro hP p hp
      rcases List.mem_append.mp (hpairs.mem_iff.mp hp) with hp | hp
      · obtain ⟨v0, hv0, hr⟩ := h.repr hP p hp
        exact ⟨v0, List.mem_append.mpr (Or.inl hv0), by rw [hcr]; exact hr⟩
      · simp only [List.mem_singleton] at hp
        subst hp
        exact ⟨v, by simp, Or.inl ⟨hsmall, rfl⟩⟩
  · -- the value goes to a slab of its own
    have hsv' : storedValue cfg k v c = ⟨slabIDStorableSize, .ref ⟨cfg.addr, c.ctr + 1⟩⟩ := hsv
    rw [hnctr] at hids
    rw [hncr] at hcr
    rw [hsv'] at hpairs hrp
    have href : OMap.refsOf [(k, (⟨slabIDStorableSize, .ref ⟨cfg.addr, c.ctr + 1⟩⟩ : Elem))] =
        [⟨cfg.addr, c.ctr + 1⟩] := by
      simp [OMap.refsOf, OMap.refOf]
    rw [href] at hrp
    have hfresh : P → ∀ p ∈ c.created, p.1 ≠ (⟨cfg.addr, c.ctr + 1⟩ : SlabID) := by
      intro hP p hp he
      have := h.created hP p hp (by rw [he])
      rw [he] at this
      simp only at this
      omega
    refine ⟨?_, ?_, ?_⟩
    · rcases hids with ⟨hp, hctr⟩ | ⟨hp, hctr⟩
      · rw [hctr]
        have := h.ids.append_new (FreshIds.single_next cfg.addr c.ctr)
        refine this.perm ?_
        refine (List.Perm.append hp hrp).trans ?_
        rw [← List.append_assoc]
        exact (List.perm_append_singleton _ _)
      · rw [hctr]
        have h1 := (FreshIds.single_next cfg.addr c.ctr).append_new (FreshIds.single_next cfg.addr (c.ctr + 1))
        have := h.ids.append_new h1
        refine this.perm ?_
        refine (List.Perm.append hp hrp).trans ?_
        simp only [List.cons_append, List.nil_append]
        refine List.Perm.cons _ ?_
        rw [← List.append_assoc]
        exact (List.perm_append_singleton _ _)
    · intro hP p hp ha
      rw [hcr] at hp
      rcases List.mem_append.mp hp with hp | hp
      · have := h.created hP p hp ha
        rcases hids with ⟨_, hctr⟩ | ⟨_, hctr⟩ <;> omega
      · simp only [List.mem_singleton] at hp
        subst hp
        rcases hids with ⟨_, hctr⟩ | ⟨_, hctr⟩ <;> simp <;> omega
    · intro hP p hp
      rcases List.mem_append.mp (hpairs.mem_iff.mp hp) with hp | hp
      · obtain ⟨v0, hv0, hr⟩ := h.repr hP p hp
        refine ⟨v0, List.mem_append.mpr (Or.inl hv0), ?_⟩
        rw [hcr]
        rcases hr with hr | ⟨hb, id, he, hf⟩
        · exact Or.inl hr
        · exact Or.inr ⟨hb, id, he, find?_append_of_some _ _ _ _ hf⟩
      · simp only [List.mem_singleton] at hp
        subst hp
        refine ⟨v, by simp, Or.inr ⟨hbig, _, rfl, ?_⟩⟩
        rw [hcr]
        exact find?_append_new _ _ _ (hfresh hP)

/-! ### "no collision": `appendNew` -/

theorem appendNew_ids (cfg : MCfg) (st : FillState r) (hkey : Nat) (k : MKey) (v : Elem) (c : Ctx) :
    (appendNew cfg st hkey k v c).2.created = (newSingleElement cfg.T cfg.addr k v c).2.created ∧
    ((fillIds (appendNew cfg st hkey k v c).1 = fillIds st ∧
        (appendNew cfg st hkey k v c).2.ctr = (newSingleElement cfg.T cfg.addr k v c).2.ctr) ∨
     (fillIds (appendNew cfg st hkey k v c).1 =
          fillIds st ++ [⟨cfg.addr, (newSingleElement cfg.T cfg.addr k v c).2.ctr + 1⟩] ∧
        (appendNew cfg st hkey k v c).2.ctr = (newSingleElement cfg.T cfg.addr k v c).2.ctr + 1)) := by
  unfold appendNew
  simp only
  split
  · refine ⟨rfl, Or.inr ⟨?_, rfl⟩⟩
    simp [fillIds, dataIds, MBatch.mkData, MBatch.emptyElems, extIds, Ctx.alloc, List.flatMap_append]
  · refine ⟨rfl, Or.inl ⟨?_, rfl⟩⟩
    simp [fillIds, extIds, List.filterMap_append]

theorem appendNew_fillIds {cfg : MCfg} {c0 : Nat} {P : Prop} {st : FillState r} {proc : List (MKey × Elem)}
    {c : Ctx} (h : MFillIds cfg c0 P st proc c) (hkey : Nat) (k : MKey) {v : Elem} (hv : ValueOkM v) :
    MFillIds cfg c0 P (appendNew cfg st hkey k v c).1 (proc ++ [(k, v)]) (appendNew cfg st hkey k v c).2 := by
  obtain ⟨hcr, hids⟩ := appendNew_ids cfg st hkey k v c
  refine mfillIds_step h k hv (by rw [appendNew_pairs]) hcr ?_
  rcases hids with ⟨h1, h2⟩ | ⟨h1, h2⟩
  · exact Or.inl ⟨by rw [h1], h2⟩
  · exact Or.inr ⟨by rw [h1]; exact List.perm_append_singleton _ _, h2⟩

/-! ### "found collision": `collide` -/

theorem collide_fillIds (hT : legalThreshold T = true) {cfg : MCfg} (hc : CfgFor cfg T (r + 1)) {c0 : Nat}
    {P : Prop} {st : FillState r} {proc : List (MKey × Elem)} (h : MFillOk T r D cfg st proc) {c : Ctx}
    (hI : MFillIds cfg c0 P st proc c) (k : MKey) (v : Elem) (hkk : KeyOk T (r + 1) D k) (hv : ValueOkM v)
    (hcnt : 0 < st.count) (hd : k.dig 0 = st.prevHkey) {st' : FillState r} {c' : Ctx}
    (hcol : collide cfg st k v c = .ok (st', c')) :
    MFillIds cfg c0 P st' (proc ++ [(k, v)]) c' := by
  have S := MElems.opsSpec D hT hc r
  have hl := h.last_key hcnt
  have hl' := hl
  rw [getLast?_eq_get] at hl'
  obtain ⟨prevElem, hpe⟩ := h.hinv.elem_at hl'
  have hlastE : st.elements.elems.getLast? = some prevElem := by
    rw [getLast?_eq_get, ← h.hinv.len_eq]; exact hpe
  have hpe' : st.elements.elems[st.elements.elems.length - 1]? = some prevElem := by
    rw [← h.hinv.len_eq]; exact hpe
  have hEl := h.hinv.elemOk hl' hpe
  have hp1 : k.digs.take (0 + 1) = [] ++ [st.prevHkey] := by
    have := hkk.take_succ (ℓ := 0) (by omega)
    rw [this, hd]; simp
  obtain ⟨e', old, c1, hs, _, heff, _, _⟩ := hEl.set S hT hc (by omega) hkk hp1 hv c
  -- the step that was taken
  unfold collide at hcol
  simp only [hlastE, hs] at hcol
  cases old with
  | some v0 => simp at hcol
  | none =>
    simp only [Option.isSome_none, Bool.false_eq_true, if_false, Except.ok.injEq, Prod.mk.injEq] at hcol
    obtain ⟨hst, hc1⟩ := hcol
    subst hc1
    -- pairs
    obtain ⟨A, B, hA, hB⟩ : ∃ A B, prevElem.toList (MElems.ops r) = A ++ B ∧
        e'.toList (MElems.ops r) = A ++ (k, storedValue cfg k v c) :: B := by
      rcases heff with ⟨_, _, A, B, hA, hB⟩ | ⟨v1, A, B, ho, _, _⟩
      · exact ⟨A, B, hA, hB⟩
      · cases ho
    have hdrop : st.elements.elems.drop (st.elements.elems.length - 1 + 1) = [] := by
      apply List.drop_eq_nil_of_le
      have := lt_of_getElem?_eq_some hpe'; omega
    have hsplit : fillPairs st =
        (st.slabs.flatMap (fun s => HkeyElems.toList (MElems.ops r) s.elems) ++
          (st.elements.elems.take (st.elements.elems.length - 1)).flatMap (MElemF.toList (MElems.ops r))) ++
        (A ++ B) := by
      unfold fillPairs HkeyElems.toList
      rw [flatMap_split _ hpe', hdrop, hA]; simp
    have hpairs' : fillPairs st' =
        (st.slabs.flatMap (fun s => HkeyElems.toList (MElems.ops r) s.elems) ++
          (st.elements.elems.take (st.elements.elems.length - 1)).flatMap (MElemF.toList (MElems.ops r))) ++
        (A ++ (k, storedValue cfg k v c) :: B) := by
      rw [← hst]
      unfold fillPairs HkeyElems.toList
      simp only
      rw [flatMap_set _ hpe', hdrop, hB]; simp
    have hperm : (fillPairs st').Perm (fillPairs st ++ [(k, storedValue cfg k v c)]) := by
      rw [hpairs', hsplit]
      generalize (st.slabs.flatMap (fun s => HkeyElems.toList (MElems.ops r) s.elems) ++
        (st.elements.elems.take (st.elements.elems.length - 1)).flatMap (MElemF.toList (MElems.ops r))) = P
      rw [List.append_assoc]
      refine List.Perm.append_left P ?_
      exact List.perm_middle.trans (List.perm_append_singleton _ _).symm
    -- identifiers
    have hF : FirstOk (NoExt r) prevElem :=
      firstOk_of_inv ((elemsInv_succ_iff T (r + 1) D r 0 [] st.elements).2 h.hinv) prevElem
        (List.mem_of_getElem? hpe')
    have hids' : fillIds st' = st.slabs.flatMap dataIds ++ (st.id :: (extIds st.elements.elems.dropLast ++ e'.extId?.toList)) := by
      rw [← hst]
      simp only [fillIds]
      rw [set_last_eq hlastE, extIds_append', extIds_single]
    have hids0 : fillIds st = st.slabs.flatMap dataIds ++ (st.id :: (extIds st.elements.elems.dropLast ++ prevElem.extId?.toList)) := by
      simp only [fillIds]
      conv => lhs; rw [getLast?_split hlastE]
      rw [extIds_append', extIds_single]
    have hcfg : cfg.T = T := hc.hT
    rcases elem_set0_new (MElems.opsEff cfg r) (MElems.opsNewCtx cfg r) hF hs with ⟨he, hctr, hcr⟩ | ⟨he0, he1, hctr, hcr⟩
    · refine mfillIds_step hI k hv hperm hcr (Or.inl ⟨?_, hctr⟩)
      rw [hids', hids0, he]
    · refine mfillIds_step hI k hv hperm hcr (Or.inr ⟨?_, hctr⟩)
      rw [hids', hids0, he0, he1]
      simp only [Option.toList_some, Option.toList_none, List.append_nil]
      rw [← List.cons_append, ← List.append_assoc]
      exact List.perm_append_singleton _ _

/-! ### the loop -/

theorem mfill_ids (hT : legalThreshold T = true) {cfg : MCfg} (hc : CfgFor cfg T (r + 1)) (c0 : Nat) (P : Prop)
    (kvs : List (MKey × Elem)) (hkv : ∀ p ∈ kvs, KeyOk T (r + 1) D p.1 ∧ ValueOkM p.2) :
    ∀ (proc : List (MKey × Elem)) (st : FillState r) (c : Ctx), MFillOk T r D cfg st proc →
      MFillIds cfg c0 P st proc c →
      ∀ st' c', fillLoop cfg kvs st c = .ok (st', c') → MFillIds cfg c0 P st' (proc ++ kvs) c' := by
  induction kvs with
  | nil =>
    intro proc st c _ hI st' c' heq
    simp only [fillLoop, Except.ok.injEq, Prod.mk.injEq] at heq
    rw [← heq.1, ← heq.2, List.append_nil]; exact hI
  | cons p kvs ih =>
    intro proc st c h hI st' c' heq
    obtain ⟨k, v⟩ := p
    obtain ⟨hkk, hv⟩ := hkv (k, v) (by simp)
    have hkv' : ∀ q ∈ kvs, KeyOk T (r + 1) D q.1 ∧ ValueOkM q.2 := fun q hq => hkv q (by simp [hq])
    have happ : proc ++ (k, v) :: kvs = (proc ++ [(k, v)]) ++ kvs := by simp
    unfold fillLoop at heq
    simp only at heq
    by_cases h1 : k.dig 0 < st.prevHkey
    · simp [h1] at heq
    · simp only [h1, if_false] at heq
      by_cases h2 : k.dig 0 = st.prevHkey ∧ st.count > 0
      · simp only [h2, and_self, if_true] at heq
        rcases collide_ok hT hc h k v c hkk hv h2.2 h2.1 with ⟨st1, c1, hcol, hok, _⟩ | ⟨c1, hcol, _⟩
        · rw [hcol] at heq
          simp only at heq
          have hI1 := collide_fillIds hT hc h hI k v hkk hv h2.2 h2.1 hcol
          rw [happ]
          exact ih hkv' _ _ _ hok hI1 st' c' heq
        · rw [hcol] at heq
          simp at heq
      · simp only [h2, if_false] at heq
        have hnew : st.count = 0 ∨ st.prevHkey < k.dig 0 := by
          rcases Nat.eq_zero_or_pos st.count with h0 | h0
          · exact Or.inl h0
          · right
            have : k.dig 0 ≠ st.prevHkey := fun he => h2 ⟨he, h0⟩
            omega
        have hok := appendNew_ok hT hc h k v c hkk hv hnew
        have hI1 := appendNew_fillIds hI (k.dig 0) k hv
        rw [happ]
        exact ih hkv' _ _ _ hok hI1 st' c' heq

/-- the initial state of the element loop, after the allocation of the first data slab -/
def fillInit (r : Nat) (id : SlabID) : FillState r :=
  { id := id, elements := emptyElems r, slabs := [], count := 0, prevHkey := 0 }

theorem mfillIds_init (cfg : MCfg) (c : Ctx) (P : Prop) (hcr : P → CreatedTableOk cfg.addr c) :
    MFillIds cfg c.ctr P (fillInit r (c.alloc cfg.addr).1) [] (c.alloc cfg.addr).2 := by
  refine ⟨?_, ?_, ?_⟩
  · have : fillIds (fillInit r (c.alloc cfg.addr).1) ++ OMap.refsOf (fillPairs (fillInit r (c.alloc cfg.addr).1)) =
        [⟨cfg.addr, c.ctr + 1⟩] := by
      simp [fillInit, fillIds, fillPairs, emptyElems, extIds, HkeyElems.toList, OMap.refsOf, Ctx.alloc]
    rw [this]
    exact FreshIds.single_next cfg.addr c.ctr
  · intro hP p hp ha
    have := hcr hP p hp ha
    show p.1.idx ≤ c.ctr + 1
    omega
  · intro _ p hp
    simp [fillInit, fillPairs, emptyElems, HkeyElems.toList] at hp

end Atree
