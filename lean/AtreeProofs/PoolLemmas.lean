import AtreeModel.Commit
/-
  Lemmas about the message-passing model of the worker pools (`AtreeModel/Commit.lean`):
  * conservation: at every moment `results ++ held jobs ++ queue` is a permutation of the jobs and
    every result is `(j, f j)`;
  * progress: a scheduler step is a no-op or decreases `2 * |queue| + |held|` by one; a full
    round-robin round is a no-op only on a finished pool.
  Core Lean only.
-/
namespace Atree
namespace Pool

variable {ι ρ : Type}

/-- the jobs currently held by workers -/
def held (h : List (Option ι)) : List ι := h.filterMap id

theorem held_nil : held ([] : List (Option ι)) = [] := rfl
theorem held_cons_none (h : List (Option ι)) : held (none :: h) = held h := rfl
theorem held_cons_some (j : ι) (h : List (Option ι)) : held (some j :: h) = j :: held h := rfl

theorem held_replicate_none (n : Nat) : held (List.replicate n (none : Option ι)) = [] := by
  induction n with
  | zero => rfl
  | succ n ih => rw [List.replicate_succ, held_cons_none, ih]

theorem held_set_none (h : List (Option ι)) (w : Nat) (j : ι) (hw : h[w]? = some (some j)) :
    (held h).Perm (j :: held (h.set w none)) := by
  induction h generalizing w with
  | nil => simp at hw
  | cons a as ih =>
    cases w with
    | zero =>
      simp only [List.getElem?_cons_zero, Option.some.injEq] at hw
      subst hw
      rw [List.set_cons_zero, held_cons_some, held_cons_none]
    | succ w =>
      simp only [List.getElem?_cons_succ] at hw
      have h' := ih w hw
      rw [List.set_cons_succ]
      cases a with
      | none => simpa only [held_cons_none] using h'
      | some x =>
        rw [held_cons_some, held_cons_some]
        exact (List.Perm.cons x h').trans (List.Perm.swap j x _)

theorem held_set_some (h : List (Option ι)) (w : Nat) (j : ι) (hw : h[w]? = some none) :
    (held (h.set w (some j))).Perm (j :: held h) := by
  induction h generalizing w with
  | nil => simp at hw
  | cons a as ih =>
    cases w with
    | zero =>
      simp only [List.getElem?_cons_zero, Option.some.injEq] at hw
      subst hw
      rw [List.set_cons_zero, held_cons_some, held_cons_none]
    | succ w =>
      simp only [List.getElem?_cons_succ] at hw
      have h' := ih w hw
      rw [List.set_cons_succ]
      cases a with
      | none => simpa only [held_cons_none] using h'
      | some x =>
        rw [held_cons_some, held_cons_some]
        exact (List.Perm.cons x h').trans (List.Perm.swap j x _)

theorem length_filter_isSome (h : List (Option ι)) :
    (h.filter (·.isSome)).length = (held h).length := by
  induction h with
  | nil => rfl
  | cons a as ih =>
    cases a with
    | none => simpa [held_cons_none] using ih
    | some x => simpa [held_cons_some] using ih

theorem held_eq_nil_of_all_isNone (h : List (Option ι)) (hall : h.all (·.isNone) = true) :
    held h = [] := by
  unfold held
  rw [List.filterMap_eq_nil_iff]
  intro a ha
  have := List.all_eq_true.mp hall a ha
  cases a with
  | none => rfl
  | some x => simp at this

/-! ### Conservation -/

/-- Nothing is lost, duplicated or invented. -/
structure PInv (f : ι → ρ) (jobs : List ι) (s : PState ι ρ) : Prop where
  perm : (s.results.map (·.1) ++ (held s.holding ++ s.queue)).Perm jobs
  res : ∀ r ∈ s.results, r = (r.1, f r.1)

theorem pinv_init (f : ι → ρ) (jobs : List ι) (workers : Nat) :
    PInv f jobs (initState jobs workers : PState ι ρ) := by
  constructor
  · simp [initState, held_replicate_none]
  · intro r hr; simp [initState] at hr

theorem pinv_step (f : ι → ρ) (jobs : List ι) (s : PState ι ρ) (w : Nat) (h : PInv f jobs s) :
    PInv f jobs (stepWorker f s w) := by
  unfold stepWorker
  split
  · exact h
  · rename_i j hj
    constructor
    · dsimp only
      refine List.Perm.trans ?_ h.perm
      rw [List.map_append, List.append_assoc]
      apply List.Perm.append_left
      show (j :: (held (s.holding.set w none) ++ s.queue)).Perm (held s.holding ++ s.queue)
      exact (List.Perm.append_right s.queue (held_set_none s.holding w j hj)).symm
    · intro r hr
      dsimp only at hr
      rcases List.mem_append.mp hr with hr | hr
      · exact h.res r hr
      · simp only [List.mem_singleton] at hr
        rw [hr]
  · rename_i hj
    split
    · exact h
    · rename_i j rest hq
      constructor
      · dsimp only
        refine List.Perm.trans ?_ h.perm
        apply List.Perm.append_left
        rw [hq]
        refine List.Perm.trans (List.Perm.append_right rest (held_set_some s.holding w j hj)) ?_
        exact (List.perm_middle (a := j) (l₁ := held s.holding) (l₂ := rest)).symm
      · exact h.res

theorem pinv_run (f : ι → ρ) (jobs : List ι) (sched : List Nat) (s : PState ι ρ)
    (h : PInv f jobs s) : PInv f jobs (runSchedule f s sched) := by
  induction sched generalizing s with
  | nil => exact h
  | cons w ws ih => exact ih _ (pinv_step f jobs s w h)

theorem finished_iff (s : PState ι ρ) :
    finished s = true ↔ s.queue = [] ∧ s.holding.all (·.isNone) = true := by
  simp [finished, List.isEmpty_iff]

/-- A finished pool has delivered exactly the jobs, each with its result. -/
theorem pinv_finished (f : ι → ρ) (jobs : List ι) (s : PState ι ρ) (h : PInv f jobs s)
    (hfin : finished s = true) : s.results.Perm (jobs.map (fun j => (j, f j))) := by
  obtain ⟨hq, hh⟩ := (finished_iff s).mp hfin
  have hp := h.perm
  rw [hq, held_eq_nil_of_all_isNone _ hh, List.append_nil, List.append_nil] at hp
  have hm : s.results = (s.results.map (·.1)).map (fun j => (j, f j)) := by
    rw [List.map_map]
    conv => lhs; rw [← List.map_id s.results]
    apply List.map_congr_left
    intro r hr
    exact h.res r hr
  rw [hm]
  exact hp.map _

theorem pinv_count (f : ι → ρ) (jobs : List ι) (s : PState ι ρ) (h : PInv f jobs s) :
    s.results.length + (s.holding.filter (·.isSome)).length + s.queue.length = jobs.length := by
  have := h.perm.length_eq
  simp only [List.length_append, List.length_map] at this
  rw [length_filter_isSome]
  omega

/-! ### Progress -/

/-- termination measure -/
def mu (s : PState ι ρ) : Nat := 2 * s.queue.length + (held s.holding).length

theorem step_holding_length (f : ι → ρ) (s : PState ι ρ) (w : Nat) :
    (stepWorker f s w).holding.length = s.holding.length := by
  unfold stepWorker
  split
  · rfl
  · simp
  · split
    · rfl
    · simp

theorem run_holding_length (f : ι → ρ) (ws : List Nat) (s : PState ι ρ) :
    (runSchedule f s ws).holding.length = s.holding.length := by
  induction ws generalizing s with
  | nil => rfl
  | cons w ws ih =>
    show (runSchedule f (stepWorker f s w) ws).holding.length = _
    rw [ih, step_holding_length]

theorem step_cases (f : ι → ρ) (s : PState ι ρ) (w : Nat) :
    stepWorker f s w = s ∨ mu (stepWorker f s w) + 1 = mu s := by
  unfold stepWorker
  split
  · exact Or.inl rfl
  · rename_i j hj
    right
    have := (held_set_none s.holding w j hj).length_eq
    simp only [List.length_cons] at this
    simp only [mu]
    omega
  · rename_i hj
    split
    · exact Or.inl rfl
    · rename_i j rest hq
      right
      have := (held_set_some s.holding w j hj).length_eq
      simp only [List.length_cons] at this
      simp only [mu, hq, List.length_cons]
      omega

theorem step_fix (f : ι → ρ) (s : PState ι ρ) (w : Nat) (hw : w < s.holding.length)
    (h : stepWorker f s w = s) : s.holding[w]? = some none ∧ s.queue = [] := by
  unfold stepWorker at h
  split at h
  · rename_i hn
    rw [List.getElem?_eq_none_iff] at hn
    omega
  · have := congrArg (fun t => t.results.length) h
    simp at this
  · rename_i hj
    split at h
    · rename_i hq
      exact ⟨hj, hq⟩
    · rename_i j rest hq
      have := congrArg (fun t => t.queue.length) h
      simp [hq] at this

theorem finished_of_all_fix (f : ι → ρ) (s : PState ι ρ) (hpos : 0 < s.holding.length)
    (h : ∀ w, w < s.holding.length → stepWorker f s w = s) : finished s = true := by
  rw [finished_iff]
  refine ⟨(step_fix f s 0 hpos (h 0 hpos)).2, ?_⟩
  rw [List.all_eq_true]
  intro x hx
  obtain ⟨i, hi, hget⟩ := List.mem_iff_getElem.mp hx
  have := (step_fix f s i hi (h i hi)).1
  rw [List.getElem?_eq_getElem hi, hget] at this
  simp only [Option.some.injEq] at this
  rw [this]
  rfl

theorem finished_step (f : ι → ρ) (s : PState ι ρ) (w : Nat) (hfin : finished s = true) :
    stepWorker f s w = s := by
  obtain ⟨hq, hh⟩ := (finished_iff s).mp hfin
  unfold stepWorker
  split
  · rfl
  · rename_i j hj
    have hmem : some j ∈ s.holding := List.mem_of_getElem? hj
    have := List.all_eq_true.mp hh _ hmem
    simp at this
  · simp [hq]

theorem finished_run (f : ι → ρ) (ws : List Nat) (s : PState ι ρ) (hfin : finished s = true) :
    runSchedule f s ws = s := by
  induction ws with
  | nil => rfl
  | cons w ws ih =>
    show runSchedule f (stepWorker f s w) ws = s
    rw [finished_step f s w hfin, ih]

theorem run_mu (f : ι → ρ) (ws : List Nat) (s : PState ι ρ) :
    mu (runSchedule f s ws) ≤ mu s ∧
    (mu (runSchedule f s ws) = mu s →
      runSchedule f s ws = s ∧ ∀ w, w ∈ ws → stepWorker f s w = s) := by
  induction ws generalizing s with
  | nil => exact ⟨Nat.le_refl _, fun _ => ⟨rfl, fun w hw => by simp at hw⟩⟩
  | cons w ws ih =>
    have hrun : runSchedule f s (w :: ws) = runSchedule f (stepWorker f s w) ws := rfl
    rw [hrun]
    rcases step_cases f s w with he | hlt
    · rw [he]
      obtain ⟨h1, h2⟩ := ih s
      refine ⟨h1, fun heq => ?_⟩
      obtain ⟨g1, g2⟩ := h2 heq
      refine ⟨g1, fun w' hw' => ?_⟩
      rcases List.mem_cons.mp hw' with rfl | hw'
      · exact he
      · exact g2 w' hw'
    · obtain ⟨h1, _⟩ := ih (stepWorker f s w)
      exact ⟨by omega, fun heq => by omega⟩

/-- One full round of the round-robin scheduler makes progress unless the pool has finished. -/
theorem round_progress (f : ι → ρ) (s : PState ι ρ) (hpos : 0 < s.holding.length) :
    mu (runSchedule f s (List.range s.holding.length)) < mu s ∨ finished s = true := by
  obtain ⟨h1, h2⟩ := run_mu f (List.range s.holding.length) s
  by_cases heq : mu (runSchedule f s (List.range s.holding.length)) = mu s
  · right
    obtain ⟨_, g2⟩ := h2 heq
    exact finished_of_all_fix f s hpos (fun w hw => g2 w (List.mem_range.mpr hw))
  · left; omega

theorem rounds_progress (f : ι → ρ) (n : Nat) (hpos : 0 < n) {α : Type} (L : List α)
    (s : PState ι ρ) (hn : s.holding.length = n) :
    finished (L.foldl (fun acc _ => runSchedule f acc (List.range n)) s) = true ∨
    mu (L.foldl (fun acc _ => runSchedule f acc (List.range n)) s) + L.length ≤ mu s := by
  induction L generalizing s with
  | nil => right; simp
  | cons a L ih =>
    rw [List.foldl_cons]
    have hn1 : (runSchedule f s (List.range n)).holding.length = n := by
      rw [run_holding_length, hn]
    rcases round_progress f s (by omega) with hlt | hfin
    · rw [hn] at hlt
      rcases ih _ hn1 with h | h
      · exact Or.inl h
      · right; simp only [List.length_cons]; omega
    · left
      rw [finished_run f _ s hfin]
      have : ∀ (L : List α), L.foldl (fun acc _ => runSchedule f acc (List.range n)) s = s := by
        intro L
        induction L with
        | nil => rfl
        | cons b L ih' => rw [List.foldl_cons, finished_run f _ s hfin, ih']
      rw [this]
      exact hfin

/-- The pool finishes under the round-robin schedule. -/
theorem roundRobin_finishes (f : ι → ρ) (jobs : List ι) (workers : Nat) (hw : 1 ≤ workers) :
    finished (runSchedule f (initState jobs workers) (roundRobin workers jobs.length)) = true := by
  unfold roundRobin runSchedule
  rw [List.foldl_flatMap]
  have hlen : (initState jobs workers : PState ι ρ).holding.length = workers := by
    simp [initState]
  rcases rounds_progress f workers (by omega) (List.range (2 * jobs.length + 2))
      (initState jobs workers) hlen with h | h
  · exact h
  · have hmu : mu (initState jobs workers : PState ι ρ) = 2 * jobs.length := by
      simp [mu, initState, held_replicate_none]
    rw [hmu, List.length_range] at h
    omega

end Pool
end Atree
