import AtreeProofs.Iter.ObjGeneric
import AtreeProofs.Iter.MapLoadedSM
import AtreeProofs.MapIds
import AtreeProofs.Map.Ids
/-
  C13, maps: the iterator OBJECTS of Map/IterObj.lean (`MapIter`: empty / mutable / read-only /
  loaded-value, with the three step methods `Next / NextKey / NextValue`) hand out, call by call and
  for ANY interleaving of the three methods, the pair list of their flavour.
  `RMap cfg m ld it l` = "object `it` on map `m` still has to hand out the pairs `l`".
-/
namespace Atree
namespace IterMO
open Gen IterObj IterM

variable {r : Nat}

/-! ### one step of the read-only object -/

theorem roNext_some_cons (all : List (MDataSlab r)) (f : Nat) (it : ROMapIter) (p : MKey × Elem)
    (ps : List (MKey × Elem)) (h : it.elemIterator = some (p :: ps)) :
    MapIter.roNext all (f + 1) it = .ok (some p, { it with elemIterator := some ps }) := by
  unfold MapIter.roNext
  simp only [h]

theorem roNext_some_nil (all : List (MDataSlab r)) (f : Nat) (it : ROMapIter) (h : it.elemIterator = some []) :
    MapIter.roNext all (f + 1) it = MapIter.roNext all f { it with elemIterator := none } := by
  conv => lhs; unfold MapIter.roNext
  simp only [h]

theorem roNext_none_undef (all : List (MDataSlab r)) (f : Nat) (it : ROMapIter) (h : it.elemIterator = none)
    (hu : it.nextDataSlabID = SlabID.undef) : MapIter.roNext all (f + 1) it = .ok (none, it) := by
  unfold MapIter.roNext
  simp only [h, hu, if_true]

theorem roNext_none_adv_cons (all : List (MDataSlab r)) (f : Nat) (it : ROMapIter) (s : MDataSlab r)
    (p : MKey × Elem) (ps : List (MKey × Elem)) (h : it.elemIterator = none)
    (hu : it.nextDataSlabID ≠ SlabID.undef)
    (hfind : all.find? (fun x => x.hdr.id == it.nextDataSlabID) = some s) (hs : leafIter s = p :: ps) :
    MapIter.roNext all (f + 1) it = .ok (some p, { nextDataSlabID := s.next, elemIterator := some ps }) := by
  unfold MapIter.roNext MapIter.roAdvance
  simp only [h, hu, if_false, hfind]
  rw [show HkeyElems.elemIter (MElems.iops r) s.elems = p :: ps from hs]

theorem roNext_none_adv_nil (all : List (MDataSlab r)) (f : Nat) (it : ROMapIter) (s : MDataSlab r)
    (h : it.elemIterator = none) (hu : it.nextDataSlabID ≠ SlabID.undef)
    (hfind : all.find? (fun x => x.hdr.id == it.nextDataSlabID) = some s) (hs : leafIter s = []) :
    MapIter.roNext all (f + 1) it = MapIter.roNext all f { nextDataSlabID := s.next, elemIterator := none } := by
  conv => lhs; unfold MapIter.roNext MapIter.roAdvance
  simp only [h, hu, if_false, hfind]
  rw [show HkeyElems.elemIter (MElems.iops r) s.elems = [] from hs]

/-! ### what the read-only object still has to hand out -/

/-- the `next` link `id` names the first slab of `rest`, whose own links continue the same way;
    after the last slab the link is undefined -/
def ChainFrom : SlabID → List (MDataSlab r) → Prop
  | id, [] => id = SlabID.undef
  | id, s :: rest => id = s.hdr.id ∧ ChainFrom s.next rest

theorem chainFrom_of_leafChain : ∀ (rest : List (MDataSlab r)) (cur : MDataSlab r),
    MLeafChain (cur :: rest) → ChainFrom cur.next rest
  | [], _, h => h
  | nxt :: rest, cur, h => by
    obtain ⟨h1, h2⟩ : cur.next = nxt.hdr.id ∧ MLeafChain (nxt :: rest) := h
    exact ⟨h1, chainFrom_of_leafChain rest nxt h2⟩

structure MLeavesOk (all : List (MDataSlab r)) : Prop where
  nodup : (all.map (·.hdr.id)).Nodup
  defd  : ∀ s ∈ all, s.hdr.id ≠ SlabID.undef

/-- the read-only object has the rest of its element iterator and then the data slabs its `next`
    link leads to still to hand out -/
def ROkM (all : List (MDataSlab r)) (it : ROMapIter) (l : List (MKey × Elem)) : Prop :=
  ∃ pre rest, all = pre ++ rest ∧ ChainFrom it.nextDataSlabID rest ∧
    l = it.elemIterator.getD [] ++ rest.flatMap leafIter

theorem find?_mid {α : Type} (id : α → SlabID) : ∀ (pre : List α) (s : α) (rest : List α),
    ((pre ++ s :: rest).map id).Nodup → (pre ++ s :: rest).find? (fun x => id x == id s) = some s
  | [], s, rest, _ => by simp
  | p :: pre, s, rest, h => by
    have hp : (id p == id s) = false := by
      simp only [List.cons_append, List.map_cons, List.nodup_cons, List.mem_map, List.mem_append,
        List.mem_cons] at h
      have : id p ≠ id s := fun heq => h.1 ⟨s, Or.inr (Or.inl rfl), heq.symm⟩
      simpa using this
    simp only [List.cons_append, List.find?_cons, hp]
    exact find?_mid id pre s rest (by simpa using (List.nodup_cons.1 (by simpa using h)).2)

/-- the element iterator is nil: the object advances along the `next` links, skipping data slabs
    whose element iterator yields nothing -/
theorem roNext_none {all : List (MDataSlab r)} (L : MLeavesOk all) :
    ∀ (rest pre : List (MDataSlab r)) (it : ROMapIter) (fuel : Nat), all = pre ++ rest →
      it.elemIterator = none → ChainFrom it.nextDataSlabID rest → rest.length + 1 ≤ fuel →
      (rest.flatMap leafIter = [] → ∃ it', MapIter.roNext all fuel it = .ok (none, it') ∧ ROkM all it' []) ∧
      (∀ p l, rest.flatMap leafIter = p :: l →
        ∃ it', MapIter.roNext all fuel it = .ok (some p, it') ∧ ROkM all it' l)
  | [], pre, it, fuel, hall, hnone, hch, hf => by
    obtain ⟨f, rfl⟩ : ∃ f, fuel = f + 1 := ⟨fuel - 1, by simp at hf; omega⟩
    have hu : it.nextDataSlabID = SlabID.undef := hch
    constructor
    · intro _
      exact ⟨it, roNext_none_undef all f it hnone hu, pre, [], hall, hch, by simp [hnone]⟩
    · intro p l h; simp at h
  | s :: rest, pre, it, fuel, hall, hnone, hch, hf => by
    obtain ⟨f, rfl⟩ : ∃ f, fuel = f + 1 := ⟨fuel - 1, by simp at hf; omega⟩
    obtain ⟨hid, hch'⟩ : it.nextDataSlabID = s.hdr.id ∧ ChainFrom s.next rest := hch
    have hu : it.nextDataSlabID ≠ SlabID.undef := by rw [hid]; exact L.defd s (by rw [hall]; simp)
    have hfind : all.find? (fun x => x.hdr.id == it.nextDataSlabID) = some s := by
      rw [hid, hall]
      exact find?_mid (fun x : MDataSlab r => x.hdr.id) pre s rest (by rw [← hall]; exact L.nodup)
    have hall' : all = (pre ++ [s]) ++ rest := by rw [hall]; simp
    cases hs : leafIter s with
    | nil =>
      have ih := roNext_none L rest (pre ++ [s]) { nextDataSlabID := s.next, elemIterator := none } f hall' rfl
        hch' (by simp at hf; omega)
      rw [roNext_none_adv_nil all f it s hnone hu hfind hs, List.flatMap_cons, hs, List.nil_append]
      exact ih
    | cons q qs =>
      rw [roNext_none_adv_cons all f it s q qs hnone hu hfind hs, List.flatMap_cons, hs]
      constructor
      · intro h; simp at h
      · intro p l h
        obtain ⟨hp, hl⟩ := List.cons.inj h
        subst hp
        exact ⟨_, rfl, pre ++ [s], rest, hall', hch', hl.symm⟩

theorem roNext_tracks {all : List (MDataSlab r)} (L : MLeavesOk all) (fuel : Nat) (hfuel : all.length + 2 ≤ fuel) :
    Tracks (MapIter.roNext all fuel) (ROkM all) := by
  obtain ⟨f, rfl⟩ : ∃ f, fuel = f + 1 := ⟨fuel - 1, by omega⟩
  have hlen : ∀ pre rest : List (MDataSlab r), all = pre ++ rest → rest.length ≤ all.length := by
    intro pre rest h; rw [h]; simp
  constructor
  · -- cons
    intro it v l hR
    obtain ⟨pre, rest, hall, hch, hl⟩ := hR
    cases he : it.elemIterator with
    | none =>
      rw [he] at hl
      simp only [Option.getD_none, List.nil_append] at hl
      exact (roNext_none L rest pre it (f + 1) hall he hch (by have := hlen pre rest hall; omega)).2 v l hl.symm
    | some here =>
      rw [he] at hl
      simp only [Option.getD_some] at hl
      cases here with
      | cons p ps =>
        rw [List.cons_append] at hl
        obtain ⟨hp, hl'⟩ := List.cons.inj hl
        subst hp
        exact ⟨_, roNext_some_cons all f it v ps he, pre, rest, hall, hch, by simp [hl']⟩
      | nil =>
        rw [List.nil_append] at hl
        rw [roNext_some_nil all f it he]
        exact (roNext_none L rest pre { it with elemIterator := none } f hall rfl hch
          (by have := hlen pre rest hall; omega)).2 v l hl.symm
  · -- nil
    intro it hR
    obtain ⟨pre, rest, hall, hch, hl⟩ := hR
    cases he : it.elemIterator with
    | none =>
      rw [he] at hl
      simp only [Option.getD_none, List.nil_append] at hl
      exact (roNext_none L rest pre it (f + 1) hall he hch (by have := hlen pre rest hall; omega)).1 hl.symm
    | some here =>
      rw [he] at hl
      simp only [Option.getD_some] at hl
      have hhere : here = [] := (List.append_eq_nil_iff.1 hl.symm).1
      have hrest : rest.flatMap leafIter = [] := (List.append_eq_nil_iff.1 hl.symm).2
      subst hhere
      rw [roNext_some_nil all f it he]
      exact (roNext_none L rest pre { it with elemIterator := none } f hall rfl hch
        (by have := hlen pre rest hall; omega)).1 hrest

/-! ### all four object types, three step methods -/

/-- an object with a family of step methods indexed by `MapCall`: whichever method is called, a
    state that has `p :: l` to hand out answers the component of `p` the method keeps and goes to a state
    that has `l` to hand out; a state with nothing left answers nil and stays such a state -/
structure MTracks {σ ε : Type} (step : MapCall → σ → Except ε (MapRet × σ))
    (R : σ → List (MKey × Elem) → Prop) : Prop where
  cons : ∀ st p l, R st (p :: l) → ∀ c, ∃ st', step c st = .ok (project c p, st') ∧ R st' l
  nil  : ∀ st, R st [] → ∀ c, ∃ st', step c st = .ok (.nil, st') ∧ R st' []

theorem mapAnswers_nil (l : List (MKey × Elem)) : mapAnswers l [] = [] := rfl

theorem mapAnswers_cons_cons (p : MKey × Elem) (l : List (MKey × Elem)) (c : MapCall) (cs : List MapCall) :
    mapAnswers (p :: l) (c :: cs) = project c p :: mapAnswers l cs := by
  simp [mapAnswers, List.mapIdx_cons]

theorem mapAnswers_nil_cons (c : MapCall) (cs : List MapCall) :
    mapAnswers [] (c :: cs) = MapRet.nil :: mapAnswers [] cs := by
  simp [mapAnswers, List.mapIdx_cons]

theorem mapAnswers_length (l : List (MKey × Elem)) (calls : List MapCall) :
    (mapAnswers l calls).length = calls.length := by simp [mapAnswers]

theorem project_ne_nil (c : MapCall) (p : MKey × Elem) : project c p ≠ MapRet.nil := by
  cases c <;> intro h <;> cases h

theorem mapAnswers_getElem? (l : List (MKey × Elem)) (calls : List MapCall) (i : Nat) (h : i < calls.length) :
    (mapAnswers l calls)[i]? = some (match l[i]? with
      | some p => project calls[i] p
      | none => MapRet.nil) := by
  unfold mapAnswers
  rw [List.getElem?_mapIdx, List.getElem?_eq_getElem h]
  rfl

/-- once a call has answered nil, every later call answers nil -/
theorem mapAnswers_after_end (l : List (MKey × Elem)) (calls : List MapCall) (i j : Nat) (hij : i ≤ j)
    (hj : j < calls.length) (hi : (mapAnswers l calls)[i]? = some MapRet.nil) :
    (mapAnswers l calls)[j]? = some MapRet.nil := by
  rw [mapAnswers_getElem? l calls i (by omega)] at hi
  rw [mapAnswers_getElem? l calls j hj]
  have hli : l[i]? = none := by
    cases hl : l[i]? with
    | none => rfl
    | some p => rw [hl] at hi; exact absurd (Option.some.inj hi) (project_ne_nil _ _)
  have hlj : l[j]? = none := by
    rw [List.getElem?_eq_none_iff] at hli ⊢; omega
  rw [hlj]

/-- `RMap cfg m ld it l`: the object `it` on map `m` still has to hand out exactly the pairs `l`.
    * the empty iterator: nothing;
    * the mutable iterator: `l` is a tail of the enumeration and the remembered key is the key of its
      head (on a map whose lookups return the successor key: `NextKeyOk`, from `MapInv`);
    * the read-only iterator: `ROkM` (on a map whose data-slab IDs are pairwise different and defined:
      `MLeavesOk`, from `MapIdsOk`);
    * the loaded-value iterator: what its cursors still cover (`IterML.rem`), with the weight bound
      that makes the fuel of `MapIter.step` sufficient. -/
def RMap (cfg : MCfg) (m : OMap r) (ld : SlabID → Bool) : MapIter r → List (MKey × Elem) → Prop
  | .empty _, l => l = []
  | .mut nk, l => NextKeyOk cfg m ∧ (∃ A, m.toList = A ++ l) ∧ nk = l.head?.map (·.1)
  | .ro it, l => MLeavesOk (MTree.dataSlabs m.d m.root) ∧ ROkM (MTree.dataSlabs m.d m.root) it l
  | .loaded it, l => IterML.rem ld it = l ∧
      IterML.wParents it.parents < 2 * MTree.slabCount m.d m.root + 2

theorem step_tracks (cfg : MCfg) (m : OMap r) (ld : SlabID → Bool) :
    MTracks (MapIter.step cfg m ld) (RMap cfg m ld) where
  cons := by
    intro it p l hR c
    cases it with
    | empty ro => cases (show p :: l = [] from hR)
    | «mut» nk =>
      obtain ⟨hn, ⟨A, hA⟩, hnk⟩ :
        NextKeyOk cfg m ∧ (∃ A, m.toList = A ++ p :: l) ∧ nk = (p :: l).head?.map (·.1) := hR
      have hnk : nk = some p.1 := hnk
      subst hnk
      have hget := hn A p l hA
      refine ⟨.mut (l.head?.map (·.1)), ?_, hn, ⟨A ++ [p], by rw [hA]; simp⟩, rfl⟩
      simp only [MapIter.step, hget]
      cases c <;> rfl
    | ro it =>
      obtain ⟨L, hR⟩ : MLeavesOk (MTree.dataSlabs m.d m.root) ∧ _ := hR
      obtain ⟨it', hr, hR'⟩ := (roNext_tracks L _ (Nat.le_refl _)).cons it p l hR
      refine ⟨.ro it', ?_, L, hR'⟩
      simp only [MapIter.step, hr]
      cases c <;> rfl
    | loaded it =>
      obtain ⟨hrem, hw⟩ : IterML.rem ld it = p :: l ∧ _ := hR
      have hs := IterML.next_spec ld _ _ it hw hw
      revert hs
      cases hnx : MLoadedIter.next ld (2 * MTree.slabCount m.d m.root + 2)
          (2 * MTree.slabCount m.d m.root + 2) it with
      | none =>
        intro hs
        have hs : IterML.rem ld it = [] := hs
        rw [hrem] at hs; cases hs
      | some q =>
        obtain ⟨p', it'⟩ := q
        intro hs
        obtain ⟨s1, s2⟩ : IterML.rem ld it = p' :: IterML.rem ld it' ∧ _ := hs
        rw [hrem] at s1
        obtain ⟨hp, hl⟩ := List.cons.inj s1
        subst hp
        refine ⟨.loaded it', ?_, hl.symm, by omega⟩
        simp only [MapIter.step, hnx]
        cases c <;> rfl
  nil := by
    intro it hR c
    cases it with
    | empty ro => exact ⟨.empty ro, rfl, rfl⟩
    | «mut» nk =>
      obtain ⟨hn, hA, hnk⟩ :
        NextKeyOk cfg m ∧ (∃ A, m.toList = A ++ []) ∧ nk = ([] : List (MKey × Elem)).head?.map (·.1) := hR
      have hnk : nk = none := hnk
      subst hnk
      exact ⟨.mut none, rfl, hn, hA, rfl⟩
    | ro it =>
      obtain ⟨L, hR⟩ : MLeavesOk (MTree.dataSlabs m.d m.root) ∧ _ := hR
      obtain ⟨it', hr, hR'⟩ := (roNext_tracks L _ (Nat.le_refl _)).nil it hR
      refine ⟨.ro it', ?_, L, hR'⟩
      simp only [MapIter.step, hr]
    | loaded it =>
      obtain ⟨hrem, hw⟩ : IterML.rem ld it = [] ∧ _ := hR
      have hs := IterML.next_spec ld _ _ it hw hw
      revert hs
      cases hnx : MLoadedIter.next ld (2 * MTree.slabCount m.d m.root + 2)
          (2 * MTree.slabCount m.d m.root + 2) it with
      | none =>
        intro _
        exact ⟨.loaded it, by simp only [MapIter.step, hnx], hrem, hw⟩
      | some q =>
        obtain ⟨p', it'⟩ := q
        intro hs
        obtain ⟨s1, _⟩ : IterML.rem ld it = p' :: IterML.rem ld it' ∧ _ := hs
        rw [hrem] at s1; cases s1

/-- ANY interleaving of the three step methods on one object -/
theorem go_tracks {cfg : MCfg} {m : OMap r} {ld : SlabID → Bool} :
    ∀ (calls : List MapCall) (it : MapIter r) (l : List (MKey × Elem)), RMap cfg m ld it l →
      OMap.stepCalls.go cfg m ld calls it = .ok (mapAnswers l calls)
  | [], _, _, _ => rfl
  | c :: cs, it, [], h => by
    obtain ⟨it', h1, h2⟩ := (step_tracks cfg m ld).nil it h c
    unfold OMap.stepCalls.go
    rw [h1]
    simp only
    rw [go_tracks cs it' [] h2, mapAnswers_nil_cons]
  | c :: cs, it, p :: l, h => by
    obtain ⟨it', h1, h2⟩ := (step_tracks cfg m ld).cons it p l h c
    unfold OMap.stepCalls.go
    rw [h1]
    simp only
    rw [go_tracks cs it' l h2, mapAnswers_cons_cons]

/-- the step the callback loops `iterateMap / iterateMapKeys / iterateMapValues` use -/
theorem loopStep_tracks (cfg : MCfg) (m : OMap r) (ld : SlabID → Bool) (c : MapCall) :
    Tracks (OMap.loopStep cfg m ld c) (fun it L => ∃ l, RMap cfg m ld it l ∧ L = l.map (project c)) where
  cons := by
    intro it x L hR
    obtain ⟨l, hR, hL⟩ := hR
    cases l with
    | nil => cases hL
    | cons p l =>
      obtain ⟨hx, hL'⟩ := List.cons.inj hL
      obtain ⟨it', h1, h2⟩ := (step_tracks cfg m ld).cons it p l hR c
      refine ⟨it', ?_, l, h2, hL'⟩
      unfold OMap.loopStep
      rw [h1, hx]
      cases c <;> rfl
  nil := by
    intro it hR
    obtain ⟨l, hR, hL⟩ := hR
    cases l with
    | cons p l => cases hL
    | nil =>
      obtain ⟨it', h1, h2⟩ := (step_tracks cfg m ld).nil it hR c
      refine ⟨it', ?_, [], h2, rfl⟩
      unfold OMap.loopStep
      rw [h1]

/-! ### the freshly made objects -/

variable {T : Nat} {D : DigestFn (r + 1)} {cfg : MCfg}

theorem mleavesOk {m : OMap r} {ctr : Nat} (h : MapIdsOk m ctr) : MLeavesOk (MTree.dataSlabs m.d m.root) := by
  obtain ⟨h1, h2⟩ := (leafIdsOk_iff m).1 h.leafIdsOk
  exact ⟨h1, h2⟩

theorem leaves_flatMap_leafIter (hT : legalThreshold T = true) (m : OMap r) (hcfg : CfgOk cfg T m)
    (h : MapInv T D m) : (MTree.dataSlabs m.d m.root).flatMap leafIter = m.toList := by
  have hc := cfgFor_of_cfgOk hcfg
  show _ = MTree.toList m.d m.root
  rw [toList_eq_leaves]
  apply flatMap_congr'
  intro x hx
  obtain ⟨top', hx'⟩ := leaf_inv m.d true m.root h.tree x hx
  exact (leaf_hinv hx').elemIter_eq (MElems.opsSpec D hT hc r) (MElems.iterSpec D hT hc r)

theorem expected_length_le (m : OMap r) (h : MapInv T D m) (ld : SlabID → Bool) (f : OMap.IterFlavour) :
    (f.expected m ld).length ≤ m.count := by
  rw [h.count_eq]
  cases f with
  | «mut» => exact Nat.le_refl _
  | ro => exact Nat.le_refl _
  | loaded => exact (iterLoaded_sublist ld m.d m.root).length_le

/-- every way of making a map iterator object succeeds and the object has the pair list of its
    flavour to hand out; `CanMutate()` is as the flavour says -/
theorem makeLoaded_spec (cfg : MCfg) (m : OMap r) (ld : SlabID → Bool) :
    ∃ it, m.makeIterator ld .loaded = .ok it ∧ RMap cfg m ld it (m.iterLoaded ld) ∧ it.canMutate = false := by
  obtain ⟨l0, h1, h2, h3⟩ := IterML.loadedIterator_spec ld m
  exact ⟨.loaded l0, by show Except.ok (m.loadedIterator ld) = _; rw [h1], ⟨h2, h3⟩, rfl⟩

theorem makeIterator_spec (hT : legalThreshold T = true) (m : OMap r) (hcfg : CfgOk cfg T m) (ctr : Nat)
    (h : MapInvI T D m ctr) (ld : SlabID → Bool) (f : OMap.IterFlavour) :
    ∃ it, m.makeIterator ld f = .ok it ∧ RMap cfg m ld it (f.expected m ld) ∧ it.canMutate = f.mutable := by
  obtain ⟨hinv, hids⟩ := h
  have hcnt := hinv.count_eq
  cases f with
  | «mut» =>
    show ∃ it, m.iterator = .ok it ∧ _
    unfold OMap.iterator
    by_cases h0 : m.count = 0
    · refine ⟨.empty false, by rw [if_pos h0], ?_, rfl⟩
      show m.toList = []
      exact List.eq_nil_of_length_eq_zero (by omega)
    · rw [if_neg h0, iteratorStart_spec hT m hcfg hinv]
      exact ⟨.mut (m.toList.head?.map (·.1)), rfl, ⟨nextKeyOk hT m hcfg hinv, ⟨[], rfl⟩, rfl⟩, rfl⟩
  | ro =>
    show ∃ it, m.readOnlyIterator = .ok it ∧ _
    unfold OMap.readOnlyIterator
    by_cases h0 : m.count = 0
    · refine ⟨.empty true, by rw [if_pos h0], ?_, rfl⟩
      show m.toList = []
      exact List.eq_nil_of_length_eq_zero (by omega)
    · obtain ⟨s, rest, hl, hf⟩ := firstDataSlab_spec hT m.d true m.root hinv.tree
      rw [if_neg h0, hf]
      refine ⟨_, rfl, ?_, rfl⟩
      have hchain : MLeafChain (MTree.dataSlabs m.d m.root) := by rw [dataSlabs_eq_leaves]; exact hinv.chain
      rw [hl] at hchain
      refine ⟨mleavesOk hids, [s], rest, by rw [hl]; rfl, chainFrom_of_leafChain rest s hchain, ?_⟩
      show m.toList = leafIter s ++ rest.flatMap leafIter
      rw [← leaves_flatMap_leafIter hT m hcfg hinv, hl, List.flatMap_cons]
  | loaded => exact makeLoaded_spec cfg m ld

end IterMO
end Atree
