import AtreeProofs.Iter.ObjGeneric
import AtreeProofs.Iter.ArrayLoadedSM
import AtreeProofs.Props.C01Partial
import AtreeProofs.Props.C05
/-
  C13, arrays: the iterator OBJECTS of Array/IterObj.lean (`ArrIter`: empty / mutable / read-only /
  loaded-value, made by `Iterator`, `ReadOnlyIterator`, `RangeIterator`, `ReadOnlyRangeIterator`,
  `ReadOnlyLoadedValueIterator`) hand out, step by step, the list forms the C13 theorems speak about.
  `RArr a loaded it l` = "object `it` on array `a` still has to hand out `l`"; it is kept by `Next()`
  (`tracks`), and the freshly made objects satisfy it with `toList` / the slice / `iterLoaded`.
-/
namespace Atree
namespace IterAO
open Gen ATree IterObj

/-! ### one step of the read-only object -/

theorem roNext_zero (all : List DataSlab) (it : ROArrIter) (h : it.remainingCount = 0) :
    ArrIter.roNext all it = .ok (none, it) := by
  unfold ArrIter.roNext
  rw [if_pos h]

theorem roNext_here (all : List DataSlab) (it : ROArrIter) (e : Elem) (h0 : it.remainingCount ≠ 0)
    (he : it.dataSlab.elems[it.indexInDataSlab]? = some e) :
    ArrIter.roNext all it = .ok (some e, { it with indexInDataSlab := it.indexInDataSlab + 1,
                                                   remainingCount := it.remainingCount - 1 }) := by
  have hlt : it.indexInDataSlab < it.dataSlab.elems.length := (List.getElem?_eq_some_iff.1 he).1
  unfold ArrIter.roNext
  rw [if_neg h0]
  simp only
  rw [if_neg (by omega)]
  simp only [he]

theorem roNext_adv (all : List DataSlab) (it : ROArrIter) (nxt : DataSlab) (e : Elem) (es : List Elem)
    (h0 : it.remainingCount ≠ 0) (hge : it.indexInDataSlab ≥ it.dataSlab.elems.length)
    (hnext : it.dataSlab.next ≠ SlabID.undef)
    (hfind : all.find? (fun s => s.hdr.id == it.dataSlab.next) = some nxt) (hn : nxt.elems = e :: es) :
    ArrIter.roNext all it = .ok (some e, { dataSlab := nxt, indexInDataSlab := 1,
                                           remainingCount := it.remainingCount - 1 }) := by
  unfold ArrIter.roNext
  rw [if_neg h0]
  simp only
  rw [if_pos hge, if_neg hnext, hfind]
  simp only [hn, List.length_cons]
  rw [if_neg (by omega)]
  simp only [hn, List.getElem?_cons_zero]

/-! ### what the read-only object still has to hand out -/

/-- the facts about the leaf list the read-only object relies on (all follow from `ArrInv`) -/
structure LeavesOk (all : List DataSlab) : Prop where
  nodup : (all.map (·.hdr.id)).Nodup
  defd  : ∀ s ∈ all, s.hdr.id ≠ SlabID.undef
  chain : LeafChain all
  tail_nonempty : ∀ s ∈ all.tail, s.elems ≠ []

/-- the read-only object `r` stands in leaf `r.dataSlab` of `all` at offset `r.indexInDataSlab`, and
    the `r.remainingCount` elements it may still hand out are there: `l` is that run of elements -/
def ROk (all : List DataSlab) (r : ROArrIter) (l : List Elem) : Prop :=
  ∃ pre rest, all = pre ++ r.dataSlab :: rest ∧
    l.length = r.remainingCount ∧
    l <+: r.dataSlab.elems.drop r.indexInDataSlab ++ rest.flatMap (·.elems)

theorem mem_tail_of_split {α : Type} {all pre rest : List α} {cur x : α} (h : all = pre ++ cur :: rest)
    (hx : x ∈ rest) : x ∈ all.tail := by
  subst h
  cases pre with
  | nil => simpa using hx
  | cons p pre => simp [hx]

theorem roNext_tracks {all : List DataSlab} (L : LeavesOk all) :
    Tracks (ArrIter.roNext all) (ROk all) where
  nil := by
    intro it h
    obtain ⟨pre, rest, hall, hlen, _⟩ := h
    exact ⟨it, roNext_zero all it (by simpa using hlen.symm), pre, rest, hall, hlen, List.nil_prefix⟩
  cons := by
    intro it v l h
    obtain ⟨pre, rest, hall, hlen, hp⟩ := h
    have h0 : it.remainingCount ≠ 0 := by rw [← hlen]; simp
    by_cases hlt : it.indexInDataSlab < it.dataSlab.elems.length
    · -- the element is in the current data slab
      have hd := List.drop_eq_getElem_cons hlt
      rw [hd, List.cons_append, List.cons_prefix_cons] at hp
      refine ⟨_, roNext_here all it v h0 (by rw [List.getElem?_eq_getElem hlt, hp.1]), pre, rest, hall, ?_, hp.2⟩
      simp only [List.length_cons] at hlen
      show l.length = it.remainingCount - 1
      omega
    · -- the current data slab is used up: follow `next`
      rw [List.drop_of_length_le (by omega), List.nil_append] at hp
      cases rest with
      | nil => simp at hp
      | cons nxt rest =>
        have hchain : LeafChain (it.dataSlab :: nxt :: rest) := by
          have := L.chain; rw [hall] at this
          exact IterA.leafChain_tail pre _ _ this
        obtain ⟨hnext, _⟩ : it.dataSlab.next = nxt.hdr.id ∧ LeafChain (nxt :: rest) := hchain
        have hnu : nxt.hdr.id ≠ SlabID.undef := L.defd nxt (by rw [hall]; simp)
        have hfind : all.find? (fun s => s.hdr.id == it.dataSlab.next) = some nxt := by
          rw [hnext, hall]
          exact find?_next pre rest it.dataSlab nxt (by rw [← hall]; exact L.nodup)
        have hne : nxt.elems ≠ [] := L.tail_nonempty nxt (mem_tail_of_split hall (by simp))
        cases hn : nxt.elems with
        | nil => exact absurd hn hne
        | cons e es =>
          rw [List.flatMap_cons, hn, List.cons_append, List.cons_prefix_cons] at hp
          refine ⟨_, roNext_adv all it nxt v es h0 (by omega) (by rw [hnext]; exact hnu) hfind
            (by rw [hn, hp.1]), pre ++ [it.dataSlab], rest, by rw [hall]; simp, ?_, ?_⟩
          · simp only [List.length_cons] at hlen
            show l.length = it.remainingCount - 1
            omega
          · show l <+: nxt.elems.drop 1 ++ rest.flatMap (·.elems)
            rw [hn]; exact hp.2

/-! ### all four object types -/

/-- `RArr a loaded it l`: the object `it` on array `a` still has to hand out exactly `l`.
    * the empty iterator: nothing;
    * the mutable iterator at `nextIndex = i`, `lastIndex = last`: positions `i … last-1` of the array
      (on an array whose `Get` agrees with the enumeration: from `ArrInv`);
    * the read-only iterator: `ROk` (the run of `remainingCount` elements from its cursor; on an array
      whose leaf list is linked, has pairwise different defined IDs and no empty non-first leaf:
      `LeavesOk`, from `ArrInv`);
    * the loaded-value iterator: what its cursors still cover (`IterA.rem`), with the weight bound
      that makes the fuel of `ArrIter.next` sufficient. -/
def RArr (a : Arr) (loaded : SlabID → Bool) : ArrIter → List Elem → Prop
  | .empty _, l => l = []
  | .mut i last, l => (∀ j, j < a.toList.length → a.get j = .ok (a.toList.getD j default)) ∧
      i ≤ last ∧ last ≤ a.toList.length ∧ l = (a.toList.drop i).take (last - i)
  | .ro r, l => LeavesOk (Arr.leaves a.d a.root) ∧ ROk (Arr.leaves a.d a.root) r l
  | .loaded it, l => IterA.rem loaded it = l ∧
      IterA.wParents it.parents < 2 * ATree.slabCount a.d a.root + 2

variable {T : Nat}

theorem leavesOk (hT : legalThreshold T = true) {a : Arr} {ctr : Nat} (h : ArrInv T a ctr) :
    LeavesOk (Arr.leaves a.d a.root) := by
  obtain ⟨hnd, hdef, hchain⟩ := IterA.leaves_facts h
  refine ⟨hnd, hdef, hchain, ?_⟩
  obtain ⟨d, t, ty⟩ := a
  cases d with
  | zero =>
    intro s hs
    have : Arr.leaves 0 t = [t] := rfl
    rw [this] at hs
    cases hs
  | succ d =>
    have htree : TreeInv T (d + 1) true t := h.tree
    obtain ⟨_, _, _, _, _, h6, _⟩ := htree
    intro s hs
    obtain ⟨c, hc, hsc⟩ := List.mem_flatMap.mp (List.mem_of_mem_tail hs)
    exact C01P.leaves_nonempty hT d c (h6 c hc) s hsc

theorem take_drop_succ {α : Type} (L : List α) (i k : Nat) (hi : i < L.length) :
    (L.drop i).take (k + 1) = L[i] :: (L.drop (i + 1)).take k := by
  rw [List.drop_eq_getElem_cons hi, List.take_succ_cons]

theorem next_tracks (a : Arr) (loaded : SlabID → Bool) : Tracks (ArrIter.next a loaded) (RArr a loaded) where
  cons := by
    intro it v l hR
    cases it with
    | empty ro => cases (show v :: l = [] from hR)
    | «mut» i last =>
      obtain ⟨hg, h1, h2, h3⟩ : (∀ j, j < a.toList.length → a.get j = .ok (a.toList.getD j default)) ∧
        i ≤ last ∧ last ≤ a.toList.length ∧ v :: l = (a.toList.drop i).take (last - i) := hR
      have hlt : i < last := by
        rcases Nat.lt_or_ge i last with hlt | hge
        · exact hlt
        · have : last - i = 0 := by omega
          rw [this] at h3; cases h3
      have hget := hg i (by omega)
      obtain ⟨k, hk⟩ : ∃ k, last - i = k + 1 := ⟨last - i - 1, by omega⟩
      rw [hk, take_drop_succ _ _ _ (by omega)] at h3
      obtain ⟨hv, hl⟩ := List.cons.inj h3
      refine ⟨.mut (i + 1) last, ?_, ?_⟩
      · simp only [ArrIter.next]
        rw [if_neg (by omega), hget]
        simp only
        rw [hv, List.getD_eq_getElem?_getD, List.getElem?_eq_getElem (by omega)]
        rfl
      · refine ⟨hg, by omega, h2, ?_⟩
        rw [hl]
        congr 1
        omega
    | ro r =>
      obtain ⟨L, hR⟩ : LeavesOk (Arr.leaves a.d a.root) ∧ _ := hR
      obtain ⟨r', hr, hR'⟩ := (roNext_tracks L).cons r v l hR
      exact ⟨.ro r', by simp only [ArrIter.next, hr], L, hR'⟩
    | loaded it =>
      obtain ⟨hrem, hw⟩ : IterA.rem loaded it = v :: l ∧ _ := hR
      have hs := IterA.next_spec loaded _ _ it hw hw
      revert hs
      cases hn : LoadedIter.next loaded (2 * ATree.slabCount a.d a.root + 2)
          (2 * ATree.slabCount a.d a.root + 2) it with
      | none =>
        intro hs
        have hs : IterA.rem loaded it = [] := hs
        rw [hrem] at hs; cases hs
      | some q =>
        obtain ⟨v', it'⟩ := q
        intro hs
        obtain ⟨s1, s2⟩ : IterA.rem loaded it = v' :: IterA.rem loaded it' ∧ _ := hs
        rw [hrem] at s1
        obtain ⟨hv, hl⟩ := List.cons.inj s1
        refine ⟨.loaded it', ?_, hl.symm, by omega⟩
        simp only [ArrIter.next, hn, hv]
  nil := by
    intro it hR
    cases it with
    | empty ro => exact ⟨.empty ro, rfl, rfl⟩
    | «mut» i last =>
      obtain ⟨hg, h1, h2, h3⟩ : (∀ j, j < a.toList.length → a.get j = .ok (a.toList.getD j default)) ∧
        i ≤ last ∧ last ≤ a.toList.length ∧ [] = (a.toList.drop i).take (last - i) := hR
      have heq : i = last := by
        rcases Nat.lt_or_ge i last with hlt | hge
        · obtain ⟨k, hk⟩ : ∃ k, last - i = k + 1 := ⟨last - i - 1, by omega⟩
          rw [hk, take_drop_succ _ _ _ (by omega)] at h3
          cases h3
        · omega
      refine ⟨.mut i last, ?_, hg, h1, h2, h3⟩
      simp only [ArrIter.next]
      rw [if_pos heq]
    | ro r =>
      obtain ⟨L, hR⟩ : LeavesOk (Arr.leaves a.d a.root) ∧ _ := hR
      obtain ⟨r', hr, hR'⟩ := (roNext_tracks L).nil r hR
      exact ⟨.ro r', by simp only [ArrIter.next, hr], L, hR'⟩
    | loaded it =>
      obtain ⟨hrem, hw⟩ : IterA.rem loaded it = [] ∧ _ := hR
      have hs := IterA.next_spec loaded _ _ it hw hw
      revert hs
      cases hn : LoadedIter.next loaded (2 * ATree.slabCount a.d a.root + 2)
          (2 * ATree.slabCount a.d a.root + 2) it with
      | none =>
        intro _
        exact ⟨.loaded it, by simp only [ArrIter.next, hn], hrem, hw⟩
      | some q =>
        obtain ⟨v', it'⟩ := q
        intro hs
        obtain ⟨s1, _⟩ : IterA.rem loaded it = v' :: IterA.rem loaded it' ∧ _ := hs
        rw [hrem] at s1; cases s1

/-! ### the freshly made objects -/

theorem firstDataSlab_spec (hT : legalThreshold T = true) : ∀ (d : Nat) (top : Bool) (t : ATree d),
    TreeInv T d top t → ∃ f rest, Arr.leaves d t = f :: rest ∧ Arr.firstDataSlab d t = .ok f
  | 0, _, (t : DataSlab), _ => ⟨t, [], rfl, rfl⟩
  | d + 1, top, (m : MetaSlab (ATree d)), h => by
    have hne := C01P.children_nonempty hT h
    obtain ⟨_, _, _, _, _, h6, _⟩ := h
    cases hc : m.children with
    | nil => exact absurd hc hne
    | cons child cs =>
      obtain ⟨f, rest, h1, h2⟩ := firstDataSlab_spec hT d false child (h6 child (by rw [hc]; simp))
      refine ⟨f, rest ++ cs.flatMap (Arr.leaves d), ?_, ?_⟩
      · show m.children.flatMap (Arr.leaves d) = _
        rw [hc, List.flatMap_cons, h1]; rfl
      · show (match m.children with
          | [] => (Except.error AErr.goPanic : Except AErr DataSlab)
          | c :: _ => Arr.firstDataSlab d c) = _
        rw [hc]; exact h2

/-- a read-only object placed at leaf `s`, offset `idx`, with `n` elements to go -/
theorem rok_at (a : Arr) (pre : List DataSlab) (s : DataSlab) (rest : List DataSlab)
    (hl : Arr.leaves a.d a.root = pre ++ s :: rest) (idx n : Nat) (hidx : idx ≤ s.elems.length)
    (hn : (pre.flatMap (·.elems)).length + idx + n ≤ a.toList.length) :
    ROk (Arr.leaves a.d a.root) ⟨s, idx, n⟩
      ((a.toList.drop ((pre.flatMap (·.elems)).length + idx)).take n) := by
  refine ⟨pre, rest, hl, ?_, ?_⟩
  · rw [List.length_take, List.length_drop]
    show min n _ = n
    omega
  · have hfl : a.toList = (pre ++ s :: rest).flatMap (·.elems) := by
      rw [← hl]; exact (leaves_flatMap_elems a.d a.root).symm
    rw [hfl, List.flatMap_append, List.flatMap_cons, ← List.drop_drop, List.drop_left,
      List.drop_append_of_le_length hidx]
    exact List.take_prefix _ _

theorem loadedIterator_spec (loaded : SlabID → Bool) (a : Arr) :
    IterA.rem loaded a.loadedIterator = a.iterLoaded loaded ∧
    IterA.wParents a.loadedIterator.parents < 2 * ATree.slabCount a.d a.root + 2 := by
  obtain ⟨d, t, ty⟩ := a
  cases d with
  | zero =>
    refine forall_ofData ?_ t; intro s
    constructor
    · show IterA.remData loaded (some (s, 0)) ++ IterA.remParents loaded [] = s.loadedElems loaded
      simp [IterA.remData, IterA.remParents, DataSlab.loadedElems]
    · show IterA.wParents [] < _
      simp [IterA.wParents]
  | succ d =>
    refine forall_ofMeta ?_ t; intro m
    constructor
    · show IterA.remData loaded none ++ IterA.remParents loaded [⟨d, m, 0⟩]
        = ATree.iterLoaded loaded (d + 1) (ofMeta m)
      rw [IterA.iterLoaded_succ]
      simp only [IterA.remData, IterA.remParents, IterA.remCursor, List.flatMap_cons, List.flatMap_nil,
        List.append_nil, List.nil_append, List.drop_zero]
      rfl
    · show IterA.wParents [⟨d, m, 0⟩] < 2 * slabCount (d + 1) (ofMeta m) + 2
      simp only [IterA.wParents, List.map_cons, List.map_nil, List.sum_cons, List.sum_nil, IterA.wCursor,
        List.drop_zero]
      show _ < 2 * (1 + (m.children.map (slabCount d)).sum) + 2
      omega

theorem expected_length_le (a : Arr) (ctr : Nat) (h : ArrInv T a ctr)
    (loaded : SlabID → Bool) (f : Arr.Flavour) : (f.expected a loaded).length ≤ a.count := by
  rw [IterA.count_eq_length h]
  cases f with
  | «mut» => exact Nat.le_refl _
  | ro => exact Nat.le_refl _
  | mutRange lo hi => simp only [Arr.Flavour.expected, List.length_take, List.length_drop]; omega
  | roRange lo hi => simp only [Arr.Flavour.expected, List.length_take, List.length_drop]; omega
  | loaded => exact (IterA.iterLoaded_sublist loaded a.d a.root).length_le

theorem makeLoaded_spec (loaded : SlabID → Bool) (a : Arr) :
    ∃ it, a.makeIterator .loaded = .ok it ∧ RArr a loaded it (a.iterLoaded loaded) ∧ it.canMutate = false := by
  obtain ⟨h1, h2⟩ := loadedIterator_spec loaded a
  exact ⟨.loaded a.loadedIterator, rfl, ⟨h1, h2⟩, rfl⟩

/-- every way of making an iterator object succeeds (valid range) and the object has the list form
    of its flavour to hand out; `CanMutate()` is as the flavour says -/
theorem makeIterator_spec (hT : legalThreshold T = true) (a : Arr) (ctr : Nat) (h : ArrInv T a ctr)
    (loaded : SlabID → Bool) (f : Arr.Flavour) (hf : f.Valid a) :
    ∃ it, a.makeIterator f = .ok it ∧ RArr a loaded it (f.expected a loaded) ∧
      it.canMutate = f.mutable := by
  have hcnt := IterA.count_eq_length h
  have hL := leavesOk hT h
  have hg : ∀ j, j < a.toList.length → a.get j = .ok (a.toList.getD j default) := by
    have hacc := C05.access_agree T hT a ctr h
    intro j hj
    exact hacc.2.2.2 j (by rw [hacc.2.2.1]; exact hj)
  cases f with
  | «mut» =>
    show ∃ it, Except.ok a.iterator = .ok it ∧ _
    unfold Arr.iterator
    by_cases h0 : a.count = 0
    · refine ⟨.empty false, by rw [if_pos h0], ?_, rfl⟩
      show a.toList = []
      exact List.eq_nil_of_length_eq_zero (by omega)
    · refine ⟨.mut 0 a.count, by rw [if_neg h0], ⟨hg, Nat.zero_le _, by omega, ?_⟩, rfl⟩
      show a.toList = _
      rw [List.drop_zero, Nat.sub_zero, hcnt, List.take_length]
  | ro =>
    show ∃ it, a.readOnlyIterator = .ok it ∧ _
    unfold Arr.readOnlyIterator
    by_cases h0 : a.count = 0
    · refine ⟨.empty true, by rw [if_pos h0], ?_, rfl⟩
      show a.toList = []
      exact List.eq_nil_of_length_eq_zero (by omega)
    · obtain ⟨first, rest, hl, hfirst⟩ := firstDataSlab_spec hT a.d true a.root h.tree
      refine ⟨.ro ⟨first, 0, a.count⟩, ?_, ⟨hL, ?_⟩, rfl⟩
      · rw [if_neg h0, hfirst]; rfl
      · have := rok_at a [] first rest hl 0 a.count (Nat.zero_le _) (by simp; omega)
        simp only [List.flatMap_nil, List.length_nil, Nat.add_zero, List.drop_zero] at this
        rw [hcnt, List.take_length] at this
        rw [← hcnt] at this
        exact this
  | mutRange lo hi =>
    obtain ⟨h1, h2⟩ : lo ≤ hi ∧ hi ≤ a.count := hf
    show ∃ it, a.rangeIterator lo hi = .ok it ∧ _
    unfold Arr.rangeIterator
    rw [IterA.checkRange_ok a lo hi h1 h2]
    by_cases he : hi = lo
    · refine ⟨.empty false, ?_, ?_, rfl⟩
      · show (if hi = lo then (pure (.empty false) : Except AErr ArrIter) else _) = _
        rw [if_pos he]; rfl
      · show (a.toList.drop lo).take (hi - lo) = []
        rw [he, Nat.sub_self, List.take_zero]
    · refine ⟨.mut lo hi, ?_, ⟨hg, h1, by omega, rfl⟩, rfl⟩
      show (if hi = lo then (pure (.empty false) : Except AErr ArrIter) else _) = _
      rw [if_neg he]; rfl
  | roRange lo hi =>
    obtain ⟨h1, h2⟩ : lo ≤ hi ∧ hi ≤ a.count := hf
    show ∃ it, a.readOnlyRangeIterator lo hi = .ok it ∧ _
    unfold Arr.readOnlyRangeIterator
    rw [IterA.checkRange_ok a lo hi h1 h2]
    by_cases he : hi - lo = 0
    · refine ⟨.empty true, ?_, ?_, rfl⟩
      · show (if hi - lo = 0 then (pure (.empty true) : Except AErr ArrIter) else _) = _
        rw [if_pos he]; rfl
      · show (a.toList.drop lo).take (hi - lo) = []
        rw [he, List.take_zero]
    · show ∃ it, (if hi - lo = 0 then (pure (.empty true) : Except AErr ArrIter) else _) = .ok it ∧ _
      rw [if_neg he]
      clear hg
      obtain ⟨d, t, ty⟩ := a
      cases d with
      | zero =>
        revert h hcnt h2 hL; refine forall_ofData ?_ t; intro s h hcnt hL h2
        have hl : Arr.leaves (⟨0, ofData s, ty⟩ : Arr).d (⟨0, ofData s, ty⟩ : Arr).root = [] ++ s :: [] := rfl
        have hlen : (⟨0, ofData s, ty⟩ : Arr).toList.length = s.elems.length := rfl
        refine ⟨.ro ⟨s, lo, hi - lo⟩, rfl, ⟨hL, ?_⟩, rfl⟩
        have := rok_at (⟨0, ofData s, ty⟩ : Arr) [] s [] hl lo (hi - lo) (by omega) (by simp; omega)
        simp only [List.flatMap_nil, List.length_nil, Nat.zero_add] at this
        exact this
      | succ d =>
        revert h hcnt h2 hL; refine forall_ofMeta ?_ t; intro m h hcnt hL h2
        show ∃ it, (if lo = 0 then
            (Arr.firstDataSlab (d + 1) (ofMeta m) >>= fun s =>
              (pure (.ro ⟨s, 0, hi - lo⟩) : Except AErr ArrIter))
          else
            (Arr.dataSlabWithIndex (d + 1) (ofMeta m) lo >>= fun p =>
              (pure (.ro ⟨p.1, p.2, hi - lo⟩) : Except AErr ArrIter))) = .ok it ∧ _
        by_cases hlo : lo = 0
        · rw [if_pos hlo]
          obtain ⟨first, rest, hl, hfirst⟩ := firstDataSlab_spec hT (d + 1) true (ofMeta m) h.tree
          rw [hfirst]
          refine ⟨.ro ⟨first, 0, hi - lo⟩, rfl, ⟨hL, ?_⟩, rfl⟩
          have := rok_at (⟨d + 1, ofMeta m, ty⟩ : Arr) [] first rest hl 0 (hi - lo) (Nat.zero_le _)
            (by simp; omega)
          simp only [List.flatMap_nil, List.length_nil, Nat.add_zero] at this
          show ROk _ _ (((⟨d + 1, ofMeta m, ty⟩ : Arr).toList.drop lo).take (hi - lo))
          rw [show (⟨d + 1, ofMeta m, ty⟩ : Arr).toList.drop lo = (⟨d + 1, ofMeta m, ty⟩ : Arr).toList.drop 0 by rw [hlo]]
          exact this
        · rw [if_neg hlo]
          have hs : Shape T (d + 1) true (ofMeta m) := h.shape
          have hlen : (⟨d + 1, ofMeta m, ty⟩ : Arr).toList = flatten (d + 1) (ofMeta m) := rfl
          obtain ⟨pre, s, rest, hl, hle, hlt, hds⟩ :=
            IterA.dataSlabWithIndex_spec hT (d + 1) (ofMeta m) true lo hs (by rw [← hlen]; omega)
          rw [hds]
          refine ⟨.ro ⟨s, lo - (pre.flatMap (·.elems)).length, hi - lo⟩, rfl, ⟨hL, ?_⟩, rfl⟩
          have := rok_at (⟨d + 1, ofMeta m, ty⟩ : Arr) pre s rest hl (lo - (pre.flatMap (·.elems)).length)
            (hi - lo) (by omega) (by omega)
          have e : (pre.flatMap (·.elems)).length + (lo - (pre.flatMap (·.elems)).length) = lo := by omega
          rw [e] at this
          exact this
  | loaded =>
    obtain ⟨h1, h2⟩ := loadedIterator_spec loaded a
    exact ⟨.loaded a.loadedIterator, rfl, ⟨h1, h2⟩, rfl⟩

end IterAO
end Atree
