import AtreeProofs.Iter.MapTop
import AtreeModel.Map.IterObj
/-
  The iterator OBJECT of the loaded-value iteration of maps (`MLoadedIter`: stack of index-slab
  cursors and the pairs of the current data slab still to hand out, `Next()` with its loops) yields
  exactly the structural traversal `MTree.iterLoaded`, on EVERY tree and for every `ld` predicate
  (no invariant needed).  Map twin of `ArrayLoadedSM.lean`.
-/
namespace Atree
namespace IterML
open MTree MLoadedIter IterM

variable {r : Nat} (ld : SlabID → Bool)

/-- what the data cursor will still yield -/
def remData : Option (List (MKey × Elem)) → List (MKey × Elem)
  | none => []
  | some l => l

def visit (d : Nat) (hc : MHdr × MTree r d) : List (MKey × Elem) :=
  if ld hc.1.id then MTree.iterLoaded ld d hc.2 else []

/-- what an index-slab cursor will still yield -/
def remCursor (p : MLoadedSlabCursor r) : List (MKey × Elem) :=
  ((p.slab.childHdrs.zip p.slab.children).drop p.idx).flatMap (visit ld p.d)

def remParents (ps : List (MLoadedSlabCursor r)) : List (MKey × Elem) := ps.flatMap (remCursor ld)

def rem (it : MLoadedIter r) : List (MKey × Elem) := remData it.data ++ remParents ld it.parents

/-- termination weight of a cursor: 1 + twice the number of slabs below the unvisited children -/
def wCursor (p : MLoadedSlabCursor r) : Nat :=
  1 + 2 * ((p.slab.children.drop p.idx).map (slabCount p.d)).sum

def wParents (ps : List (MLoadedSlabCursor r)) : Nat := (ps.map wCursor).sum

theorem slabCount_pos : ∀ (d : Nat) (t : MTree r d), 1 ≤ slabCount d t
  | 0, _ => Nat.le_refl _
  | _ + 1, _ => by unfold slabCount; omega

theorem slabCount_succ (d : Nat) (m : MMetaSlab (MTree r d)) :
    slabCount (d + 1) (ofM m) = 1 + (m.children.map (slabCount d)).sum := rfl

/-! ### list helpers -/

theorem drop_of_none {α : Type} {l : List α} {i : Nat} (h : l[i]? = none) : l.drop i = [] := by
  apply List.drop_of_length_le
  exact List.getElem?_eq_none_iff.1 h

theorem drop_of_some {α : Type} {l : List α} {i : Nat} {x : α} (h : l[i]? = some x) :
    l.drop i = x :: l.drop (i + 1) := by
  obtain ⟨hlt, rfl⟩ := List.getElem?_eq_some_iff.1 h
  exact List.drop_eq_getElem_cons hlt

theorem zip_getElem? {α β : Type} (l1 : List α) (l2 : List β) (i : Nat) :
    (l1.zip l2)[i]? = match l1[i]?, l2[i]? with
      | some a, some b => some (a, b)
      | _, _ => none := by
  induction l1 generalizing l2 i with
  | nil => simp
  | cons a l1 ih =>
    cases l2 with
    | nil => cases i <;> simp <;> split <;> simp_all
    | cons b l2 =>
      cases i with
      | zero => simp
      | succ i => simp only [List.zip_cons_cons, List.getElem?_cons_succ]; exact ih l2 i

theorem sum_drop_le {l : List Nat} (i : Nat) : (l.drop (i + 1)).sum ≤ (l.drop i).sum := by
  cases h : l[i]? with
  | none => rw [drop_of_none h, List.drop_of_length_le (by have := List.getElem?_eq_none_iff.1 h; omega)]; simp
  | some x => rw [drop_of_some h]; simp

/-! ### the index-slab cursor -/

/-- outcome of `slabNext` in terms of what the cursors still yield, with the weights -/
def SlabNextPost (p : MLoadedSlabCursor r) : ChildRes r → Prop
  | .done => remCursor ld p = []
  | .leaf s p' => remCursor ld p = HkeyElems.loadedIter (MElems.iops r) ld s.elems ++ remCursor ld p' ∧
      wCursor p' + 1 ≤ wCursor p
  | .inner c p' => remCursor ld p = remCursor ld c ++ remCursor ld p' ∧
      wCursor c + wCursor p' + 1 ≤ wCursor p

theorem childRes_post (d : Nat) (m : MMetaSlab (MTree r d)) (idx : Nat) (h : MHdr) (child : MTree r d)
    (hh : m.childHdrs[idx]? = some h) (hc : m.children[idx]? = some child) (hl : ld h.id = true) :
    SlabNextPost ld ⟨d, m, idx⟩ (childRes d child ⟨d, m, idx + 1⟩) := by
  have hz : (m.childHdrs.zip m.children)[idx]? = some (h, child) := by
    rw [zip_getElem?, hh, hc]
  have hrem : remCursor ld ⟨d, m, idx⟩ =
      MTree.iterLoaded ld d child ++ remCursor ld ⟨d, m, idx + 1⟩ := by
    unfold remCursor
    simp only
    rw [drop_of_some hz, List.flatMap_cons]
    congr 1
    unfold visit
    simp [hl]
  have hw : wCursor ⟨d, m, idx⟩ = 2 * slabCount d child + wCursor ⟨d, m, idx + 1⟩ := by
    unfold wCursor
    simp only
    rw [drop_of_some hc]
    simp only [List.map_cons, List.sum_cons]
    omega
  cases d with
  | zero =>
    revert hc hrem hw; refine forall_ofD ?_ child; intro s hc hrem hw
    show remCursor ld ⟨0, m, idx⟩ = HkeyElems.loadedIter (MElems.iops r) ld s.elems ++ _ ∧ _
    refine ⟨hrem, ?_⟩
    rw [hw]
    have := slabCount_pos 0 (ofD s)
    omega
  | succ d =>
    revert hc hrem hw; refine forall_ofM ?_ child; intro cm hc hrem hw
    show remCursor ld ⟨d + 1, m, idx⟩ = remCursor ld ⟨d, cm, 0⟩ ++ _ ∧
      wCursor ⟨d, cm, 0⟩ + wCursor ⟨d + 1, m, idx + 1⟩ + 1 ≤ wCursor ⟨d + 1, m, idx⟩
    refine ⟨?_, ?_⟩
    · rw [hrem]
      congr 1
    · rw [hw]
      have : wCursor ⟨d, cm, 0⟩ + 1 = 2 * slabCount (d + 1) (ofM cm) := by
        unfold wCursor
        simp only [List.drop_zero]
        rw [slabCount_succ]
        omega
      omega

theorem slabNext_spec : ∀ (fuel : Nat) (p : MLoadedSlabCursor r), p.slab.childHdrs.length - p.idx < fuel →
    SlabNextPost ld p (slabNext ld fuel p)
  | 0, _, h => by omega
  | fuel + 1, ⟨d, m, idx⟩, h => by
    have h : m.childHdrs.length - idx < fuel + 1 := h
    unfold slabNext
    simp only
    cases hh : m.childHdrs[idx]? with
    | none =>
      simp only
      show remCursor ld ⟨d, m, idx⟩ = []
      unfold remCursor
      have : (m.childHdrs.zip m.children)[idx]? = none := by rw [zip_getElem?, hh]
      simp only
      rw [drop_of_none this]; rfl
    | some hd =>
      simp only
      have hlt : idx < m.childHdrs.length := (List.getElem?_eq_some_iff.1 hh).1
      by_cases hl : ld hd.id = true
      · rw [if_pos hl]
        cases hc : m.children[idx]? with
        | none =>
          simp only
          show remCursor ld ⟨d, m, idx⟩ = []
          unfold remCursor
          have : (m.childHdrs.zip m.children)[idx]? = none := by rw [zip_getElem?, hh, hc]
          simp only
          rw [drop_of_none this]; rfl
        | some child =>
          simp only
          exact childRes_post ld d m idx hd child hh hc hl
      · rw [if_neg hl]
        have ih := slabNext_spec fuel ⟨d, m, idx + 1⟩ (by show m.childHdrs.length - (idx + 1) < fuel; omega)
        -- skipping an unloaded child changes neither the remainder nor increases the weight
        have hrem : remCursor ld ⟨d, m, idx⟩ = remCursor ld ⟨d, m, idx + 1⟩ := by
          unfold remCursor
          simp only
          cases hc : m.children[idx]? with
          | none =>
            have h1 : (m.childHdrs.zip m.children)[idx]? = none := by rw [zip_getElem?, hh, hc]
            rw [drop_of_none h1, List.drop_of_length_le (by
              have := List.getElem?_eq_none_iff.1 h1; omega)]
          | some child =>
            have h1 : (m.childHdrs.zip m.children)[idx]? = some (hd, child) := by
              rw [zip_getElem?, hh, hc]
            rw [drop_of_some h1, List.flatMap_cons]
            have : visit ld d (hd, child) = [] := by unfold visit; simp [hl]
            rw [this, List.nil_append]
        have hw : wCursor ⟨d, m, idx + 1⟩ ≤ wCursor ⟨d, m, idx⟩ := by
          unfold wCursor
          simp only
          have := sum_drop_le (l := m.children.map (slabCount d)) idx
          rw [← List.map_drop, ← List.map_drop] at this
          omega
        revert ih
        cases slabNext ld fuel ⟨d, m, idx + 1⟩ with
        | done => intro ih; show remCursor ld ⟨d, m, idx⟩ = []; rw [hrem]; exact ih
        | leaf s p' =>
          intro ih
          obtain ⟨i1, i2⟩ : remCursor ld ⟨d, m, idx + 1⟩ = _ ∧ _ := ih
          exact ⟨by rw [hrem]; exact i1, by omega⟩
        | inner c p' =>
          intro ih
          obtain ⟨i1, i2⟩ : remCursor ld ⟨d, m, idx + 1⟩ = _ ∧ _ := ih
          exact ⟨by rw [hrem]; exact i1, by omega⟩

/-! ### `nextDataIterator` -/

theorem wParents_cons (p : MLoadedSlabCursor r) (ps : List (MLoadedSlabCursor r)) :
    wParents (p :: ps) = wCursor p + wParents ps := by simp [wParents]

theorem remParents_cons (p : MLoadedSlabCursor r) (ps : List (MLoadedSlabCursor r)) :
    remParents ld (p :: ps) = remCursor ld p ++ remParents ld ps := by simp [remParents]

theorem wCursor_pos (p : MLoadedSlabCursor r) : 1 ≤ wCursor p := by unfold wCursor; omega

theorem nextData_spec : ∀ (fuel : Nat) (ps : List (MLoadedSlabCursor r)), wParents ps < fuel →
    match nextData ld fuel ps with
    | (some s, ps') => remParents ld ps =
          HkeyElems.loadedIter (MElems.iops r) ld s.elems ++ remParents ld ps' ∧
        wParents ps' + 1 ≤ wParents ps
    | (none, _) => remParents ld ps = []
  | 0, _, h => by omega
  | fuel + 1, [], _ => by
    unfold nextData
    rfl
  | fuel + 1, p :: ps, h => by
    unfold nextData
    have hs := slabNext_spec ld (p.slab.childHdrs.length + 1) p (by omega)
    rw [wParents_cons] at h
    revert hs
    cases slabNext ld (p.slab.childHdrs.length + 1) p with
    | leaf s p' =>
      intro hs
      obtain ⟨h1, h2⟩ : remCursor ld p = _ ∧ _ := hs
      simp only
      refine ⟨?_, ?_⟩
      · rw [remParents_cons, remParents_cons, h1, List.append_assoc]
      · rw [wParents_cons, wParents_cons]; omega
    | inner c p' =>
      intro hs
      obtain ⟨h1, h2⟩ : remCursor ld p = _ ∧ _ := hs
      simp only
      have ih := nextData_spec fuel (c :: p' :: ps) (by
        rw [wParents_cons, wParents_cons]; omega)
      revert ih
      cases nextData ld fuel (c :: p' :: ps) with
      | mk o ps' =>
        cases o with
        | some s =>
          intro ih
          obtain ⟨i1, i2⟩ : remParents ld (c :: p' :: ps) = _ ∧ _ := ih
          refine ⟨?_, ?_⟩
          · rw [remParents_cons, h1, List.append_assoc, ← remParents_cons, ← remParents_cons]
            exact i1
          · rw [wParents_cons, wParents_cons] at i2
            rw [wParents_cons]; omega
        | none =>
          intro ih
          show remParents ld (p :: ps) = []
          rw [remParents_cons, h1, List.append_assoc, ← remParents_cons, ← remParents_cons]
          exact ih
    | done =>
      intro hs
      have h1 : remCursor ld p = [] := hs
      simp only
      have ih := nextData_spec fuel ps (by have := wCursor_pos p; omega)
      revert ih
      cases nextData ld fuel ps with
      | mk o ps' =>
        cases o with
        | some s =>
          intro ih
          obtain ⟨i1, i2⟩ : remParents ld ps = _ ∧ _ := ih
          refine ⟨?_, ?_⟩
          · rw [remParents_cons, h1, List.nil_append]; exact i1
          · rw [wParents_cons]; omega
        | none =>
          intro ih
          show remParents ld (p :: ps) = []
          rw [remParents_cons, h1, List.nil_append]; exact ih

/-! ### `Next()` -/

theorem next_spec (N : Nat) : ∀ (fuel : Nat) (it : MLoadedIter r),
    wParents it.parents < fuel → wParents it.parents < N →
    match next ld N fuel it with
    | none => rem ld it = []
    | some (p, it') => rem ld it = p :: rem ld it' ∧ wParents it'.parents ≤ wParents it.parents
  | 0, _, h, _ => by omega
  | fuel + 1, ⟨ps, data⟩, hf, hN => by
    -- the common tail: go through the parents
    have tail : ∀ (pre : List (MKey × Elem)), pre = [] →
        match (match nextData ld N ps with
          | (some s, ps') => next ld N fuel ⟨ps', some (HkeyElems.loadedIter (MElems.iops r) ld s.elems)⟩
          | (none, _) => none) with
        | none => pre ++ remParents ld ps = []
        | some (v, it') => pre ++ remParents ld ps = v :: rem ld it' ∧ wParents it'.parents ≤ wParents ps := by
      intro pre hpre
      subst hpre
      have hd := nextData_spec ld N ps hN
      revert hd
      cases nextData ld N ps with
      | mk o ps' =>
        cases o with
        | none => intro hd; simpa using hd
        | some s =>
          intro hd
          obtain ⟨d1, d2⟩ : remParents ld ps = _ ∧ _ := hd
          simp only
          have ih := next_spec N fuel ⟨ps', some (HkeyElems.loadedIter (MElems.iops r) ld s.elems)⟩
            (by simp only at hf ⊢; omega) (by simp only at hN ⊢; omega)
          revert ih
          cases next ld N fuel ⟨ps', some (HkeyElems.loadedIter (MElems.iops r) ld s.elems)⟩ with
          | none =>
            intro ih
            have ih : rem ld ⟨ps', some (HkeyElems.loadedIter (MElems.iops r) ld s.elems)⟩ = [] := ih
            show [] ++ remParents ld ps = []
            rw [List.nil_append, d1]
            exact ih
          | some q =>
            obtain ⟨v, it'⟩ := q
            intro ih
            obtain ⟨i1, i2⟩ : rem ld ⟨ps', some (HkeyElems.loadedIter (MElems.iops r) ld s.elems)⟩ = _ ∧ _ := ih
            show [] ++ remParents ld ps = v :: rem ld it' ∧ wParents it'.parents ≤ wParents ps
            refine ⟨?_, by simp only at i2; omega⟩
            rw [List.nil_append, d1]
            exact i1
    unfold next
    simp only
    cases data with
    | none =>
      simp only
      exact tail [] rfl
    | some l =>
      cases l with
      | nil =>
        simp only
        exact tail [] rfl
      | cons p rest =>
        simp only
        refine ⟨?_, Nat.le_refl _⟩
        simp only [rem, remData, List.cons_append]

/-! ### the initial object -/

/-- the initial object of `OMap.loadedIterator` -/
theorem loadedIterator_spec (m : OMap r) :
    ∃ l0 : MLoadedIter r, m.loadedIterator ld = .loaded l0 ∧ rem ld l0 = m.iterLoaded ld ∧
      wParents l0.parents < 2 * MTree.slabCount m.d m.root + 2 := by
  obtain ⟨d, t, ty, cnt, seed⟩ := m
  cases d with
  | zero =>
    refine forall_ofD ?_ t; intro s
    refine ⟨⟨[], some (HkeyElems.loadedIter (MElems.iops r) ld s.elems)⟩, rfl, ?_, ?_⟩
    · show remData (some _) ++ remParents ld [] = MTree.iterLoaded ld 0 (ofD s)
      rw [iterLoaded_zero]
      simp [remData, remParents]
    · show wParents [] < _
      simp [wParents]
  | succ d =>
    refine forall_ofM ?_ t; intro ms
    refine ⟨⟨[⟨d, ms, 0⟩], none⟩, rfl, ?_, ?_⟩
    · show remData none ++ remParents ld [⟨d, ms, 0⟩] = MTree.iterLoaded ld (d + 1) (ofM ms)
      rw [iterLoaded_succ]
      simp only [remData, remParents, remCursor, List.flatMap_cons, List.flatMap_nil, List.append_nil,
        List.nil_append, List.drop_zero]
      rfl
    · show wParents [⟨d, ms, 0⟩] < 2 * slabCount (d + 1) (ofM ms) + 2
      simp only [wParents, List.map_cons, List.map_nil, List.sum_cons, List.sum_nil, wCursor, List.drop_zero]
      rw [slabCount_succ]
      omega

end IterML
end Atree
