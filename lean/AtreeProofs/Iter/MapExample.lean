import AtreeProofs.Iter.MapTop
/-
  A concrete map (T = 256, two digest levels) obtained by running the model: three keys, two of
  which collide at the first level and live in an inline collision group.  `map3_inv` proves
  `MapInv` for it directly from the definitions, so the hypotheses of the map theorems of C13 are
  satisfiable by a tree with a collision group (non-vacuity).
-/
namespace Atree.IterExample
open Atree Gen

def T0 : Nat := 256

/-- digest of a key: the decimal digits of its payload (two levels) -/
def D : DigestFn 2 := ⟨fun p => [p.2 / 10, p.2 % 10], fun _ => rfl⟩

def k (n : Nat) : MKey := ⟨9, n, [n / 10, n % 10]⟩
def v (n : Nat) : Elem := ⟨10, .val n⟩
def cfg : MCfg := ⟨256, 2, 255, 1⟩

/-- NewMap, then Set of keys 11, 25 and 12: the third collides with the first at level 0 and
    turns the element into an inline collision group. -/
def run3 : Except MErr (OMap 1 × Nat) := do
  let (m, c) := (OMap.new 1 0 (fun _ => 0) ⟨0, [], []⟩ : OMap 1 × Ctx)
  let (_, m, c) ← m.set cfg (k 11) (v 1) c
  let (_, m, c) ← m.set cfg (k 25) (v 2) c
  let (_, m, c) ← m.set cfg (k 12) (v 3) c
  return (m, c.ctr)

def x11 : SElem := ⟨k 11, v 1, 20⟩
def x12 : SElem := ⟨k 12, v 3, 20⟩
def x25 : SElem := ⟨k 25, v 2, 20⟩

def grp : HkeyElems (MElems 0) := { hkeys := [1, 2], elems := [.single x11, .single x12], size := 64, level := 1 }

def rootElems : HkeyElems (MElems 1) := { hkeys := [1, 2], elems := [.inl grp, .single x25], size := 110, level := 0 }

def rootSlab : MDataSlab 1 :=
  { hdr := ⟨⟨1, 1⟩, 112, 1⟩, next := SlabID.undef, elems := rootElems, root := true, inlined := false }

def map3 : OMap 1 := ⟨0, rootSlab, 0, 3, 0⟩

/-- the model really produces this tree -/
theorem run3_eq : run3 = .ok (map3, 1) := by rfl

theorem map3_toList : map3.toList = [(k 11, v 1), (k 12, v 3), (k 25, v 2)] := by rfl

theorem legal : legalThreshold T0 = true := by decide

theorem cfg_ok : CfgOk cfg T0 map3 := ⟨rfl, rfl, rfl⟩

theorem selem_ok (n w : Nat) : SElemOk T0 2 D ⟨k n, v w, 20⟩ := by
  refine ⟨⟨rfl, ?_, ?_⟩, ?_, ?_, ?_⟩
  · show 1 ≤ 9; decide
  · show 9 ≤ maxInlineMapKey 256; decide
  · show 1 ≤ 10; decide
  · show 10 ≤ maxInlineMapValue 256 9; decide
  · show 20 = singleElementPrefixSize + 9 + 10; decide

theorem grp_inv : ElemsInv T0 2 D 1 1 [1] grp := by
  rw [elemsInv_succ_iff]
  refine ⟨rfl, rfl, rfl, by decide, by decide, ?_⟩
  intro i hk el hi hel
  match i with
  | 0 =>
    simp only [grp, List.getElem?_cons_zero, Option.some.injEq] at hi hel
    subst hi; subst hel
    exact ⟨selem_ok 11 1, rfl⟩
  | 1 =>
    simp only [grp, List.getElem?_cons_succ, List.getElem?_cons_zero, Option.some.injEq] at hi hel
    subst hi; subst hel
    exact ⟨selem_ok 12 3, rfl⟩
  | n + 2 => simp [grp] at hi

theorem root_elems_inv : ElemsInv T0 2 D 2 0 [] rootElems := by
  rw [elemsInv_succ_iff]
  refine ⟨rfl, rfl, rfl, by decide, by decide, ?_⟩
  intro i hk el hi hel
  match i with
  | 0 =>
    simp only [rootElems, List.getElem?_cons_zero, Option.some.injEq] at hi hel
    subst hi; subst hel
    exact ⟨grp_inv, by decide, rfl, fun _ => by decide⟩
  | 1 =>
    simp only [rootElems, List.getElem?_cons_succ, List.getElem?_cons_zero, Option.some.injEq] at hi hel
    subst hi; subst hel
    exact ⟨selem_ok 25 2, rfl⟩
  | n + 2 => simp [rootElems] at hi

/-- the invariant holds for the example, shown directly from the definitions -/
theorem map3_inv : MapInv T0 D map3 := by
  refine ⟨?_, rfl, rfl, ?_, rfl⟩
  rotate_left
  · unfold KeysDistinct
    rw [map3_toList]
    decide
  show MDataInv T0 D true rootSlab
  refine ⟨root_elems_inv, by decide, rfl, rfl, fun _ => rfl, by decide, (fun h => by cases h),
    (fun h => by cases h), ?_⟩
  intro el hel
  simp only [rootSlab, rootElems, List.mem_cons, List.not_mem_nil, or_false] at hel
  rcases hel with rfl | rfl <;> decide

theorem map3_ids : map3.leafIdsOk = true := by decide

end Atree.IterExample
