import AtreeProofs.Iter.ObjSpec
/-
  Iterator OBJECTS, generic part (C13, audit a1 F8).

  An iterator object is a state `σ` with a step function `next : σ → Except ε (Option α × σ)`
  (`none` = the nil value).  `Tracks next R` says that the relation `R st l` ("state `st` still has to
  hand out exactly the list `l`") is kept by every step: a state that has `v :: l` to hand out answers
  `v` (no error) and goes to a state that has `l` to hand out; a state with nothing left answers nil
  and stays a state with nothing left.

  Consequences (used for every array iterator type and, with the three step methods of the map
  iterators, for every map iterator type):
  * `stepN_tracks`: `n` successive `Next()` calls return `l[0]?, l[1]?, …, l[n-1]?`: call `i` returns
    the `i`-th element, every call from the end on returns nil, no call fails;
  * `iterateLoop_tracks`: the callback loop with a never-stopping callback delivers exactly `l`
    (any fuel > length of `l`).
-/
namespace Atree.IterObj
open Atree

variable {σ ε α : Type}

structure Tracks (next : σ → Except ε (Option α × σ)) (R : σ → List α → Prop) : Prop where
  cons : ∀ st v l, R st (v :: l) → ∃ st', next st = .ok (some v, st') ∧ R st' l
  nil  : ∀ st, R st [] → ∃ st', next st = .ok (none, st') ∧ R st' []

theorem answers_zero (l : List α) : answers l 0 = [] := rfl

theorem answers_succ_cons (v : α) (l : List α) (n : Nat) :
    answers (v :: l) (n + 1) = some v :: answers l n := by
  unfold answers
  rw [List.range_succ_eq_map, List.map_cons, List.map_map]
  rfl

theorem answers_succ_nil (n : Nat) : answers ([] : List α) (n + 1) = none :: answers [] n := by
  unfold answers
  rw [List.range_succ_eq_map, List.map_cons, List.map_map]
  simp

theorem answers_nil (n : Nat) : answers ([] : List α) n = List.replicate n none := by
  induction n with
  | zero => rfl
  | succ n ih => rw [answers_succ_nil, ih, List.replicate_succ]

theorem answers_length (l : List α) (n : Nat) : (answers l n).length = n := by simp [answers]

theorem getElem?_answers (l : List α) (n i : Nat) (h : i < n) : (answers l n)[i]? = some l[i]? := by
  simp [answers, h]

/-- exactly the elements, then nil for ever -/
theorem answers_eq (l : List α) (n : Nat) :
    answers l n = (l.map some ++ List.replicate (n - l.length) none).take n := by
  induction l generalizing n with
  | nil => simp [answers_nil]
  | cons v l ih =>
    cases n with
    | zero => simp [answers_zero]
    | succ n =>
      rw [answers_succ_cons, ih]
      simp

theorem stepN_tracks {next : σ → Except ε (Option α × σ)} {R : σ → List α → Prop} (T : Tracks next R) :
    ∀ (n : Nat) (st : σ) (l : List α), R st l → stepN next n st = .ok (answers l n)
  | 0, _, _, _ => rfl
  | n + 1, st, [], h => by
    obtain ⟨st', h1, h2⟩ := T.nil st h
    unfold stepN
    rw [h1]
    simp only
    rw [stepN_tracks T n st' [] h2, answers_succ_nil]
  | n + 1, st, v :: l, h => by
    obtain ⟨st', h1, h2⟩ := T.cons st v l h
    unfold stepN
    rw [h1]
    simp only
    rw [stepN_tracks T n st' l h2, answers_succ_cons]

theorem iterateLoop_tracks {next : σ → Except ε (Option α × σ)} {R : σ → List α → Prop} (T : Tracks next R) :
    ∀ (l : List α) (fuel i : Nat) (st : σ), R st l → l.length < fuel →
      iterateLoop next (neverStop α) fuel i st = .ok l
  | [], fuel, i, st, h, hf => by
    obtain ⟨f, rfl⟩ : ∃ f, fuel = f + 1 := ⟨fuel - 1, by simp at hf; omega⟩
    obtain ⟨st', h1, _⟩ := T.nil st h
    unfold iterateLoop
    rw [h1]
  | v :: l, fuel, i, st, h, hf => by
    obtain ⟨f, rfl⟩ : ∃ f, fuel = f + 1 := ⟨fuel - 1, by simp at hf; omega⟩
    obtain ⟨st', h1, h2⟩ := T.cons st v l h
    unfold iterateLoop
    rw [h1]
    simp only
    rw [if_pos (show neverStop α i v = true from rfl),
      iterateLoop_tracks T l f (i + 1) st' h2 (by simp at hf; omega)]

end Atree.IterObj
