import AtreeProofs.Iter.ArrayIter
/-
  The iterator OBJECT of the loaded-value iteration (`LoadedIter`: stack of index-slab cursors and a
  data-slab cursor, `Next()` with its loops) yields exactly the structural traversal
  `ATree.iterLoaded`, on EVERY tree and for every `loaded` predicate (no invariant needed).
-/
namespace Atree
namespace IterA
open ATree LoadedIter

variable (loaded : SlabID → Bool)

/-- what a data-slab cursor will still yield -/
def remData : Option (DataSlab × Nat) → List Elem
  | none => []
  | some (s, idx) => s.loadedFrom loaded idx

def visit (d : Nat) (hc : Hdr × ATree d) : List Elem :=
  if loaded hc.1.id then ATree.iterLoaded loaded d hc.2 else []

/-- what an index-slab cursor will still yield -/
def remCursor (p : LoadedSlabCursor) : List Elem :=
  ((p.slab.childHdrs.zip p.slab.children).drop p.idx).flatMap (visit loaded p.d)

def remParents (ps : List LoadedSlabCursor) : List Elem := ps.flatMap (remCursor loaded)

def rem (it : LoadedIter) : List Elem := remData loaded it.data ++ remParents loaded it.parents

/-- termination weight of a cursor: 1 + twice the number of slabs below the unvisited children -/
def wCursor (p : LoadedSlabCursor) : Nat :=
  1 + 2 * ((p.slab.children.drop p.idx).map (slabCount p.d)).sum

def wParents (ps : List LoadedSlabCursor) : Nat := (ps.map wCursor).sum

theorem slabCount_pos : ∀ (d : Nat) (t : ATree d), 1 ≤ slabCount d t
  | 0, _ => Nat.le_refl _
  | _ + 1, _ => by unfold slabCount; omega

/-! ### the element cursor -/

theorem drop_of_none {α : Type} {l : List α} {i : Nat} (h : l[i]? = none) : l.drop i = [] := by
  apply List.drop_of_length_le
  exact List.getElem?_eq_none_iff.1 h

theorem drop_of_some {α : Type} {l : List α} {i : Nat} {x : α} (h : l[i]? = some x) :
    l.drop i = x :: l.drop (i + 1) := by
  obtain ⟨hlt, rfl⟩ := List.getElem?_eq_some_iff.1 h
  exact List.drop_eq_getElem_cons hlt

theorem elemNext_spec (s : DataSlab) : ∀ (fuel idx : Nat), s.elems.length - idx < fuel →
    match elemNext loaded s fuel idx with
    | none => s.loadedFrom loaded idx = []
    | some (v, idx') => s.loadedFrom loaded idx = v :: s.loadedFrom loaded idx'
  | 0, _, h => by omega
  | fuel + 1, idx, h => by
    unfold elemNext
    cases he : s.elems[idx]? with
    | none =>
      simp only
      unfold DataSlab.loadedFrom
      rw [drop_of_none he]; rfl
    | some e =>
      simp only
      have hlt : idx < s.elems.length := (List.getElem?_eq_some_iff.1 he).1
      cases hv : e.loadedValue loaded with
      | some v =>
        simp only
        unfold DataSlab.loadedFrom
        rw [drop_of_some he, List.filterMap_cons, hv]
      | none =>
        simp only
        have ih := elemNext_spec s fuel (idx + 1) (by omega)
        have hstep : s.loadedFrom loaded idx = s.loadedFrom loaded (idx + 1) := by
          unfold DataSlab.loadedFrom
          rw [drop_of_some he, List.filterMap_cons, hv]
        rw [hstep]
        exact ih

/-! ### the index-slab cursor -/

theorem zip_getElem? {α β : Type} (l1 : List α) (l2 : List β) (i : Nat) :
    (l1.zip l2)[i]? = match l1[i]?, l2[i]? with
      | some a, some b => some (a, b)
      | _, _ => none := by
  induction l1 generalizing l2 i with
  | nil => simp
  | cons a l1 ih =>
    cases l2 with
    | nil => cases i <;> simp <;> split <;> simp_all
    | cons b l2 =>
      cases i with
      | zero => simp
      | succ i => simp only [List.zip_cons_cons, List.getElem?_cons_succ]; exact ih l2 i

theorem sum_drop_le {l : List Nat} (i : Nat) : (l.drop (i + 1)).sum ≤ (l.drop i).sum := by
  cases h : l[i]? with
  | none => rw [drop_of_none h, List.drop_of_length_le (by have := List.getElem?_eq_none_iff.1 h; omega)]; simp
  | some x => rw [drop_of_some h]; simp

/-- outcome of `slabNext` in terms of what the cursors still yield, with the weights -/
def SlabNextPost (p : LoadedSlabCursor) : ChildRes → Prop
  | .done => remCursor loaded p = []
  | .leaf s p' => remCursor loaded p = s.loadedElems loaded ++ remCursor loaded p' ∧
      wCursor p' + 1 ≤ wCursor p
  | .inner c p' => remCursor loaded p = remCursor loaded c ++ remCursor loaded p' ∧
      wCursor c + wCursor p' + 1 ≤ wCursor p

theorem childRes_post (d : Nat) (m : MetaSlab (ATree d)) (idx : Nat) (h : Hdr) (child : ATree d)
    (hh : m.childHdrs[idx]? = some h) (hc : m.children[idx]? = some child) (hl : loaded h.id = true) :
    SlabNextPost loaded ⟨d, m, idx⟩ (childRes d child ⟨d, m, idx + 1⟩) := by
  have hz : (m.childHdrs.zip m.children)[idx]? = some (h, child) := by
    rw [zip_getElem?, hh, hc]
  have hrem : remCursor loaded ⟨d, m, idx⟩ =
      ATree.iterLoaded loaded d child ++ remCursor loaded ⟨d, m, idx + 1⟩ := by
    unfold remCursor
    simp only
    rw [drop_of_some hz, List.flatMap_cons]
    congr 1
    unfold visit
    simp [hl]
  have hw : wCursor ⟨d, m, idx⟩ = 2 * slabCount d child + wCursor ⟨d, m, idx + 1⟩ := by
    unfold wCursor
    simp only
    rw [drop_of_some hc]
    simp only [List.map_cons, List.sum_cons]
    omega
  cases d with
  | zero =>
    revert hc hrem hw; refine forall_ofData ?_ child; intro s hc hrem hw
    show remCursor loaded ⟨0, m, idx⟩ = s.loadedElems loaded ++ _ ∧ _
    refine ⟨hrem, ?_⟩
    rw [hw]
    have := slabCount_pos 0 (ofData s)
    omega
  | succ d =>
    revert hc hrem hw; refine forall_ofMeta ?_ child; intro cm hc hrem hw
    show remCursor loaded ⟨d + 1, m, idx⟩ = remCursor loaded ⟨d, cm, 0⟩ ++ _ ∧
      wCursor ⟨d, cm, 0⟩ + wCursor ⟨d + 1, m, idx + 1⟩ + 1 ≤ wCursor ⟨d + 1, m, idx⟩
    refine ⟨?_, ?_⟩
    · rw [hrem]
      congr 1
    · rw [hw]
      have : wCursor ⟨d, cm, 0⟩ + 1 = 2 * slabCount (d + 1) (ofMeta cm) := by
        unfold wCursor
        simp only [List.drop_zero]
        show _ = 2 * (1 + (cm.children.map (slabCount d)).sum)
        omega
      omega

theorem slabNext_spec : ∀ (fuel : Nat) (p : LoadedSlabCursor), p.slab.childHdrs.length - p.idx < fuel →
    SlabNextPost loaded p (slabNext loaded fuel p)
  | 0, _, h => by omega
  | fuel + 1, ⟨d, m, idx⟩, h => by
    have h : m.childHdrs.length - idx < fuel + 1 := h
    unfold slabNext
    simp only
    cases hh : m.childHdrs[idx]? with
    | none =>
      simp only
      show remCursor loaded ⟨d, m, idx⟩ = []
      unfold remCursor
      have : (m.childHdrs.zip m.children)[idx]? = none := by rw [zip_getElem?, hh]
      simp only
      rw [drop_of_none this]; rfl
    | some hd =>
      simp only
      have hlt : idx < m.childHdrs.length := (List.getElem?_eq_some_iff.1 hh).1
      by_cases hl : loaded hd.id = true
      · rw [if_pos hl]
        cases hc : m.children[idx]? with
        | none =>
          simp only
          show remCursor loaded ⟨d, m, idx⟩ = []
          unfold remCursor
          have : (m.childHdrs.zip m.children)[idx]? = none := by rw [zip_getElem?, hh, hc]
          simp only
          rw [drop_of_none this]; rfl
        | some child =>
          simp only
          exact childRes_post loaded d m idx hd child hh hc hl
      · rw [if_neg hl]
        have ih := slabNext_spec fuel ⟨d, m, idx + 1⟩ (by show m.childHdrs.length - (idx + 1) < fuel; omega)
        -- skipping an unloaded child changes neither the remainder nor increases the weight
        have hrem : remCursor loaded ⟨d, m, idx⟩ = remCursor loaded ⟨d, m, idx + 1⟩ := by
          unfold remCursor
          simp only
          cases hc : m.children[idx]? with
          | none =>
            have h1 : (m.childHdrs.zip m.children)[idx]? = none := by rw [zip_getElem?, hh, hc]
            rw [drop_of_none h1, List.drop_of_length_le (by
              have := List.getElem?_eq_none_iff.1 h1; omega)]
          | some child =>
            have h1 : (m.childHdrs.zip m.children)[idx]? = some (hd, child) := by
              rw [zip_getElem?, hh, hc]
            rw [drop_of_some h1, List.flatMap_cons]
            have : visit loaded d (hd, child) = [] := by unfold visit; simp [hl]
            rw [this, List.nil_append]
        have hw : wCursor ⟨d, m, idx + 1⟩ ≤ wCursor ⟨d, m, idx⟩ := by
          unfold wCursor
          simp only
          have := sum_drop_le (l := m.children.map (slabCount d)) idx
          rw [← List.map_drop, ← List.map_drop] at this
          omega
        revert ih
        cases slabNext loaded fuel ⟨d, m, idx + 1⟩ with
        | done => intro ih; show remCursor loaded ⟨d, m, idx⟩ = []; rw [hrem]; exact ih
        | leaf s p' =>
          intro ih
          obtain ⟨i1, i2⟩ : remCursor loaded ⟨d, m, idx + 1⟩ = _ ∧ _ := ih
          exact ⟨by rw [hrem]; exact i1, by omega⟩
        | inner c p' =>
          intro ih
          obtain ⟨i1, i2⟩ : remCursor loaded ⟨d, m, idx + 1⟩ = _ ∧ _ := ih
          exact ⟨by rw [hrem]; exact i1, by omega⟩

/-! ### `nextDataIterator` -/

theorem wParents_cons (p : LoadedSlabCursor) (ps : List LoadedSlabCursor) :
    wParents (p :: ps) = wCursor p + wParents ps := by simp [wParents]

theorem remParents_cons (p : LoadedSlabCursor) (ps : List LoadedSlabCursor) :
    remParents loaded (p :: ps) = remCursor loaded p ++ remParents loaded ps := by simp [remParents]

theorem wCursor_pos (p : LoadedSlabCursor) : 1 ≤ wCursor p := by unfold wCursor; omega

theorem nextData_spec : ∀ (fuel : Nat) (ps : List LoadedSlabCursor), wParents ps < fuel →
    match nextData loaded fuel ps with
    | (some s, ps') => remParents loaded ps = s.loadedElems loaded ++ remParents loaded ps' ∧
        wParents ps' + 1 ≤ wParents ps
    | (none, _) => remParents loaded ps = []
  | 0, _, h => by omega
  | fuel + 1, [], _ => by
    unfold nextData
    rfl
  | fuel + 1, p :: ps, h => by
    unfold nextData
    have hs := slabNext_spec loaded (p.slab.childHdrs.length + 1) p (by omega)
    rw [wParents_cons] at h
    revert hs
    cases slabNext loaded (p.slab.childHdrs.length + 1) p with
    | leaf s p' =>
      intro hs
      obtain ⟨h1, h2⟩ : remCursor loaded p = _ ∧ _ := hs
      simp only
      refine ⟨?_, ?_⟩
      · rw [remParents_cons, remParents_cons, h1, List.append_assoc]
      · rw [wParents_cons, wParents_cons]; omega
    | inner c p' =>
      intro hs
      obtain ⟨h1, h2⟩ : remCursor loaded p = _ ∧ _ := hs
      simp only
      have ih := nextData_spec fuel (c :: p' :: ps) (by
        rw [wParents_cons, wParents_cons]; omega)
      revert ih
      cases nextData loaded fuel (c :: p' :: ps) with
      | mk o ps' =>
        cases o with
        | some s =>
          intro ih
          obtain ⟨i1, i2⟩ : remParents loaded (c :: p' :: ps) = _ ∧ _ := ih
          refine ⟨?_, ?_⟩
          · rw [remParents_cons, h1, List.append_assoc, ← remParents_cons, ← remParents_cons]
            exact i1
          · rw [wParents_cons, wParents_cons] at i2
            rw [wParents_cons]; omega
        | none =>
          intro ih
          show remParents loaded (p :: ps) = []
          rw [remParents_cons, h1, List.append_assoc, ← remParents_cons, ← remParents_cons]
          exact ih
    | done =>
      intro hs
      have h1 : remCursor loaded p = [] := hs
      simp only
      have ih := nextData_spec fuel ps (by have := wCursor_pos p; omega)
      revert ih
      cases nextData loaded fuel ps with
      | mk o ps' =>
        cases o with
        | some s =>
          intro ih
          obtain ⟨i1, i2⟩ : remParents loaded ps = _ ∧ _ := ih
          refine ⟨?_, ?_⟩
          · rw [remParents_cons, h1, List.nil_append]; exact i1
          · rw [wParents_cons]; omega
        | none =>
          intro ih
          show remParents loaded (p :: ps) = []
          rw [remParents_cons, h1, List.nil_append]; exact ih

/-! ### `Next()` and the driving loop -/

theorem next_spec (N : Nat) : ∀ (fuel : Nat) (it : LoadedIter),
    wParents it.parents < fuel → wParents it.parents < N →
    match next loaded N fuel it with
    | none => rem loaded it = []
    | some (v, it') => rem loaded it = v :: rem loaded it' ∧ wParents it'.parents ≤ wParents it.parents
  | 0, _, h, _ => by omega
  | fuel + 1, ⟨ps, data⟩, hf, hN => by
    -- the common tail: go through the parents
    have tail : ∀ (pre : List Elem), pre = [] →
        match (match nextData loaded N ps with
          | (some s, ps') => next loaded N fuel ⟨ps', some (s, 0)⟩
          | (none, _) => none) with
        | none => pre ++ remParents loaded ps = []
        | some (v, it') => pre ++ remParents loaded ps = v :: rem loaded it' ∧ wParents it'.parents ≤ wParents ps := by
      intro pre hpre
      subst hpre
      have hd := nextData_spec loaded N ps hN
      revert hd
      cases nextData loaded N ps with
      | mk o ps' =>
        cases o with
        | none => intro hd; simpa using hd
        | some s =>
          intro hd
          obtain ⟨d1, d2⟩ : remParents loaded ps = _ ∧ _ := hd
          simp only
          have ih := next_spec N fuel ⟨ps', some (s, 0)⟩ (by simp only at hf ⊢; omega) (by simp only at hN ⊢; omega)
          revert ih
          cases next loaded N fuel ⟨ps', some (s, 0)⟩ with
          | none =>
            intro ih
            have ih : rem loaded ⟨ps', some (s, 0)⟩ = [] := ih
            simp only [List.nil_append]
            rw [d1]
            exact ih
          | some r =>
            obtain ⟨v, it'⟩ := r
            intro ih
            obtain ⟨i1, i2⟩ : rem loaded ⟨ps', some (s, 0)⟩ = _ ∧ _ := ih
            simp only [List.nil_append]
            refine ⟨?_, by simp only at i2; omega⟩
            rw [d1]
            exact i1
    unfold next
    simp only
    cases data with
    | none =>
      simp only
      exact tail [] rfl
    | some sd =>
      obtain ⟨s, idx⟩ := sd
      simp only
      have he := elemNext_spec loaded s (s.elems.length + 1) idx (by omega)
      revert he
      cases elemNext loaded s (s.elems.length + 1) idx with
      | some r =>
        obtain ⟨v, idx'⟩ := r
        intro he
        have he : s.loadedFrom loaded idx = v :: s.loadedFrom loaded idx' := he
        simp only
        refine ⟨?_, Nat.le_refl _⟩
        simp only [rem, remData, he, List.cons_append]
      | none =>
        intro he
        have he : s.loadedFrom loaded idx = [] := he
        simp only
        exact tail (s.loadedFrom loaded idx) he

theorem run_spec (N : Nat) : ∀ (fuel : Nat) (it : LoadedIter),
    (rem loaded it).length < fuel → wParents it.parents < N →
    run loaded N fuel it = rem loaded it
  | 0, _, h, _ => by omega
  | fuel + 1, it, hf, hN => by
    unfold run
    have hn := next_spec loaded N N it hN hN
    revert hn
    cases next loaded N N it with
    | none => intro hn; exact (show rem loaded it = [] from hn).symm
    | some r =>
      obtain ⟨v, it'⟩ := r
      intro hn
      obtain ⟨h1, h2⟩ : rem loaded it = _ ∧ _ := hn
      simp only
      rw [h1, run_spec N fuel it' (by rw [h1] at hf; simp at hf; omega) (by omega)]

/-- The iterator object and the structural traversal yield the same elements, on every array. -/
theorem iterLoadedSM_eq (a : Arr) : a.iterLoadedSM loaded = a.iterLoaded loaded := by
  obtain ⟨d, t, ty⟩ := a
  have hsub : ((⟨d, t, ty⟩ : Arr).iterLoaded loaded).length ≤ (⟨d, t, ty⟩ : Arr).toList.length :=
    (iterLoaded_sublist loaded d t).length_le
  unfold Arr.iterLoadedSM
  cases d with
  | zero =>
    revert hsub; refine forall_ofData ?_ t; intro s hsub
    have hrem : rem loaded (Arr.loadedIterator ⟨0, ofData s, ty⟩) = (⟨0, ofData s, ty⟩ : Arr).iterLoaded loaded := by
      show remData loaded (some (s, 0)) ++ remParents loaded [] = s.loadedElems loaded
      simp [remData, remParents, DataSlab.loadedElems]
    rw [run_spec loaded _ _ _ (by rw [hrem]; omega) (by
      show wParents [] < _
      simp [wParents])]
    exact hrem
  | succ d =>
    revert hsub; refine forall_ofMeta ?_ t; intro m hsub
    have hrem : rem loaded (Arr.loadedIterator ⟨d + 1, ofMeta m, ty⟩) = (⟨d + 1, ofMeta m, ty⟩ : Arr).iterLoaded loaded := by
      show remData loaded none ++ remParents loaded [⟨d, m, 0⟩] = ATree.iterLoaded loaded (d + 1) (ofMeta m)
      rw [iterLoaded_succ]
      simp only [remData, remParents, remCursor, List.flatMap_cons, List.flatMap_nil, List.append_nil,
        List.nil_append, List.drop_zero]
      rfl
    rw [run_spec loaded _ _ _ (by rw [hrem]; omega) (by
      show wParents [⟨d, m, 0⟩] < 2 * slabCount (d + 1) (ofMeta m) + 2
      simp only [wParents, List.map_cons, List.map_nil, List.sum_cons, List.sum_nil, wCursor, List.drop_zero]
      show _ < 2 * (1 + (m.children.map (slabCount d)).sum) + 2
      omega)]
    exact hrem

end IterA
end Atree
