import AtreeProofs.Iter.MapElems
/-
  C13, maps, tree level: routing of `getElementAndNextKey` through the index slabs, first keys,
  the leaf chain of the read-only iterator, the loaded-value traversal, bulk pop.
-/
namespace Atree
namespace IterM
open Gen

variable {T r : Nat}

/-! ### casts between `MTree r 0` / `MDataSlab r` and `MTree r (d+1)` / `MMetaSlab …` -/

def ofD (s : MDataSlab r) : MTree r 0 := s
def ofM {d : Nat} (m : MMetaSlab (MTree r d)) : MTree r (d + 1) := m

@[elab_as_elim]
theorem forall_ofD {P : MTree r 0 → Prop} (h : ∀ s, P (ofD s)) (t : MTree r 0) : P t := h t
@[elab_as_elim]
theorem forall_ofM {d : Nat} {P : MTree r (d + 1) → Prop} (h : ∀ m, P (ofM m)) (t : MTree r (d + 1)) : P t := h t

abbrev leafList (s : MDataSlab r) : List (MKey × Elem) := HkeyElems.toList (MElems.ops r) s.elems

@[simp] theorem toList_zero (s : MDataSlab r) : MTree.toList 0 (ofD s) = leafList s := rfl
@[simp] theorem toList_succ (d : Nat) (m : MMetaSlab (MTree r d)) :
    MTree.toList (d + 1) (ofM m) = m.children.flatMap (MTree.toList d) := rfl
@[simp] theorem hdr_zero (s : MDataSlab r) : MTree.hdr 0 (ofD s) = s.hdr := rfl
@[simp] theorem hdr_succ (d : Nat) (m : MMetaSlab (MTree r d)) : MTree.hdr (d + 1) (ofM m) = m.hdr := rfl
@[simp] theorem digests0_zero (s : MDataSlab r) : MTree.digests0 0 (ofD s) = s.elems.hkeys := rfl
@[simp] theorem digests0_succ (d : Nat) (m : MMetaSlab (MTree r d)) :
    MTree.digests0 (d + 1) (ofM m) = m.children.flatMap (MTree.digests0 d) := rfl
@[simp] theorem dataSlabs_zero (s : MDataSlab r) : MTree.dataSlabs 0 (ofD s) = [s] := rfl
@[simp] theorem dataSlabs_succ (d : Nat) (m : MMetaSlab (MTree r d)) :
    MTree.dataSlabs (d + 1) (ofM m) = m.children.flatMap (MTree.dataSlabs d) := rfl
@[simp] theorem leaves_zero (s : MDataSlab r) : MTree.leaves 0 (ofD s) = [s] := rfl
@[simp] theorem leaves_succ (d : Nat) (m : MMetaSlab (MTree r d)) :
    MTree.leaves (d + 1) (ofM m) = m.children.flatMap (MTree.leaves d) := rfl

theorem dataSlabs_eq_leaves : ∀ (d : Nat) (t : MTree r d), MTree.dataSlabs d t = MTree.leaves d t
  | 0, t => by refine forall_ofD ?_ t; intro s; rfl
  | d + 1, t => by
    refine forall_ofM ?_ t; intro m
    rw [dataSlabs_succ, leaves_succ]
    congr 1; funext c; exact dataSlabs_eq_leaves d c

theorem inv_zero (D : DigestFn (r + 1)) (top : Bool) (s : MDataSlab r) :
    MTreeInv T D 0 top (ofD s) ↔ MDataInv T D top s := Iff.rfl

/-- the part of the index-slab invariant used here -/
structure MetaFacts (T : Nat) (D : DigestFn (r + 1)) (d : Nat) (top : Bool) (m : MMetaSlab (MTree r d)) : Prop where
  hdrs_eq : m.childHdrs = m.children.map (MTree.hdr d)
  size_eq : m.hdr.size = mapMetaDataSlabPrefixSize + mapSlabHeaderSize * m.children.length
  kids_inv : ∀ c ∈ m.children, MTreeInv T D d false c
  kids_first : ∀ c ∈ m.children, (MTree.hdr d c).firstKey = (MTree.digests0 d c).headD 0
  sorted : (m.children.flatMap (MTree.digests0 d)).Pairwise (· < ·)
  ge_min : top = false → minThr T ≤ m.hdr.size
  top_kids : top = true → 2 ≤ m.children.length

theorem inv_succ (D : DigestFn (r + 1)) (d : Nat) (top : Bool) (m : MMetaSlab (MTree r d))
    (h : MTreeInv T D (d + 1) top (ofM m)) : MetaFacts T D d top m := by
  obtain ⟨_, h2, h3, _, h5, _, h7, h8, _, h10, h11⟩ : _ ∧ _ ∧ _ ∧ _ ∧ _ ∧ _ ∧ _ ∧ _ ∧ _ ∧ _ ∧ _ := h
  exact ⟨h2, h3, h5, h7, h8, h10, h11⟩

theorem legal_bounds' {T : Nat} (hT : legalThreshold T = true) : 256 ≤ T ∧ T ≤ 32768 := by
  simp only [legalThreshold, minSlabSize, maxSlabSize, Bool.and_eq_true] at hT
  exact ⟨of_decide_eq_true hT.1, of_decide_eq_true hT.2⟩

theorem MetaFacts.kids_pos (hT : legalThreshold T = true) {D : DigestFn (r + 1)} {d : Nat} {top : Bool}
    {m : MMetaSlab (MTree r d)} (h : MetaFacts T D d top m) : 1 ≤ m.children.length := by
  cases top with
  | true => have := h.top_kids rfl; omega
  | false =>
    have h1 := h.ge_min rfl
    have h2 := h.size_eq
    have := legal_bounds' hT
    simp only [minThr, mapMetaDataSlabPrefixSize, mapSlabHeaderSize] at h1 h2
    rcases Nat.eq_zero_or_pos m.children.length with h0 | h0
    · rw [h0] at h2; omega
    · exact h0

theorem MetaFacts.hdrs_length {D : DigestFn (r + 1)} {d : Nat} {top : Bool}
    {m : MMetaSlab (MTree r d)} (h : MetaFacts T D d top m) : m.childHdrs.length = m.children.length := by
  rw [h.hdrs_eq]; simp

/-! ### elements of a data slab -/

section Leaf
variable {D : DigestFn (r + 1)} {cfg : MCfg}

theorem leaf_hinv {top : Bool} {s : MDataSlab r} (h : MDataInv T D top s) :
    HInv T (r + 1) D (MElems.ops r) (ElemsInv T (r + 1) D r) r 0 [] s.elems :=
  (elemsInv_succ_iff T (r + 1) D r 0 [] s.elems).1 h.elems_inv

end Leaf

/-! ### digests, non-emptiness -/

section Tree
variable {D : DigestFn (r + 1)} {cfg : MCfg}

theorem mem_digests0 (S : OpsSpec T (r + 1) D cfg (MElems.ops r) (ElemsInv T (r + 1) D r) r) :
    ∀ (d : Nat) (top : Bool) (t : MTree r d), MTreeInv T D d top t →
      ∀ p ∈ MTree.toList d t, p.1.dig 0 ∈ MTree.digests0 d t
  | 0, top, t => by
    refine forall_ofD ?_ t; intro s h p hp
    have H := leaf_hinv ((inv_zero D top s).1 h)
    obtain ⟨i, hk, el, hi, hel, hpel⟩ := H.mem_toList hp
    have := (H.keys_at S hi hel p hpel).2.2
    rw [digests0_zero, this]
    exact List.mem_of_getElem? hi
  | d + 1, top, t => by
    refine forall_ofM ?_ t; intro m h p hp
    have F := inv_succ D d top m h
    rw [toList_succ] at hp
    obtain ⟨c, hc, hpc⟩ := List.mem_flatMap.1 hp
    rw [digests0_succ]
    exact List.mem_flatMap.2 ⟨c, hc, mem_digests0 S d false c (F.kids_inv c hc) p hpc⟩

theorem toList_ne_nil (hT : legalThreshold T = true)
    (S : OpsSpec T (r + 1) D cfg (MElems.ops r) (ElemsInv T (r + 1) D r) r) :
    ∀ (d : Nat) (t : MTree r d), MTreeInv T D d false t → MTree.toList d t ≠ []
  | 0, t => by
    refine forall_ofD ?_ t; intro s h
    have hd := (inv_zero D false s).1 h
    have H := leaf_hinv hd
    rw [toList_zero]
    refine (H.count_pos S).1 ?_
    have := hd.nonempty rfl
    cases hh : s.elems.elems with
    | nil => exact absurd hh this
    | cons _ _ => simp
  | d + 1, t => by
    refine forall_ofM ?_ t; intro m h
    have F := inv_succ D d false m h
    have hpos := F.kids_pos hT
    rw [toList_succ]
    cases hh : m.children with
    | nil => rw [hh] at hpos; simp at hpos
    | cons c rest =>
      have := toList_ne_nil hT S d c (F.kids_inv c (by rw [hh]; simp))
      rw [List.flatMap_cons]
      intro hnil
      exact this (List.append_eq_nil_iff.1 hnil).1

theorem digests0_ne_nil (hT : legalThreshold T = true) :
    ∀ (d : Nat) (t : MTree r d), MTreeInv T D d false t → MTree.digests0 d t ≠ []
  | 0, t => by
    refine forall_ofD ?_ t; intro s h
    have hd := (inv_zero D false s).1 h
    have H := leaf_hinv hd
    have := hd.nonempty rfl
    rw [digests0_zero]
    intro hnil
    have hlen := H.len_eq
    rw [hnil] at hlen
    exact this (List.eq_nil_of_length_eq_zero hlen.symm)
  | d + 1, t => by
    refine forall_ofM ?_ t; intro m h
    have F := inv_succ D d false m h
    have hpos := F.kids_pos hT
    rw [digests0_succ]
    cases hh : m.children with
    | nil => rw [hh] at hpos; simp at hpos
    | cons c rest =>
      have := digests0_ne_nil hT d c (F.kids_inv c (by rw [hh]; simp))
      rw [List.flatMap_cons]
      intro hnil
      exact this (List.append_eq_nil_iff.1 hnil).1

/-! ### routing through an index slab -/

theorem headD_mem {l : List Nat} (h : l ≠ []) : l.headD 0 ∈ l := by
  cases l with
  | nil => exact absurd rfl h
  | cons a _ => simp

theorem headD_le_of_sorted {l : List Nat} (hs : l.Pairwise (· < ·)) {x : Nat} (hx : x ∈ l) : l.headD 0 ≤ x := by
  cases l with
  | nil => simp at hx
  | cons a l =>
    simp only [List.headD_cons]
    rcases List.mem_cons.1 hx with rfl | hx
    · exact Nat.le_refl _
    · exact Nat.le_of_lt ((List.pairwise_cons.1 hs).1 x hx)

theorem heads_sorted {α : Type} (f : α → List Nat) : ∀ (L : List α),
    (L.flatMap f).Pairwise (· < ·) → (∀ x ∈ L, f x ≠ []) →
    (L.map (fun x => (f x).headD 0)).Pairwise (· < ·)
  | [], _, _ => by simp
  | x :: L, hs, hne => by
    rw [List.flatMap_cons, List.pairwise_append] at hs
    rw [List.map_cons, List.pairwise_cons]
    refine ⟨?_, heads_sorted f L hs.2.1 (fun y hy => hne y (by simp [hy]))⟩
    intro b hb
    obtain ⟨y, hy, rfl⟩ := List.mem_map.1 hb
    exact hs.2.2 _ (headD_mem (hne x (by simp))) _
      (List.mem_flatMap.2 ⟨y, hy, headD_mem (hne y (by simp [hy]))⟩)

theorem findChild_route (hT : legalThreshold T = true) {d : Nat} {top : Bool} {m : MMetaSlab (MTree r d)}
    (F : MetaFacts T D d top m) {C1 : List (MTree r d)} {c : MTree r d} {C2 : List (MTree r d)}
    (hch : m.children = C1 ++ c :: C2) {hkey : Nat} (hk : hkey ∈ MTree.digests0 d c) :
    MMetaSlab.findChild m.childHdrs hkey 0 m.childHdrs.length none (m.childHdrs.length + 1) = some C1.length := by
  have hne : ∀ x ∈ m.children, MTree.digests0 d x ≠ [] :=
    fun x hx => digests0_ne_nil hT d x (F.kids_inv x hx)
  have hfk : m.childHdrs.map (·.firstKey) = m.children.map (fun x => (MTree.digests0 d x).headD 0) := by
    rw [F.hdrs_eq, List.map_map]
    apply List.map_congr_left
    intro x hx
    exact F.kids_first x hx
  have hs : (m.childHdrs.map (·.firstKey)).Pairwise (· < ·) := by
    rw [hfk]; exact heads_sorted _ _ F.sorted hne
  have hlen : m.childHdrs.length = C1.length + 1 + C2.length := by
    rw [F.hdrs_length, hch]; simp; omega
  -- header at a position of the children
  have hhdr : ∀ (j : Nat) (x : MTree r d), m.children[j]? = some x →
      ∃ h, m.childHdrs[j]? = some h ∧ h.firstKey = (MTree.digests0 d x).headD 0 := by
    intro j x hj
    refine ⟨MTree.hdr d x, ?_, F.kids_first x (List.mem_of_getElem? hj)⟩
    rw [F.hdrs_eq, List.getElem?_map, hj]; rfl
  have hsorted := F.sorted
  rw [hch, List.flatMap_append, List.flatMap_cons, List.pairwise_append] at hsorted
  obtain ⟨_, hs2, _⟩ := hsorted
  rw [List.pairwise_append] at hs2
  obtain ⟨hsc, _, hs4⟩ := hs2
  have hcget : m.children[C1.length]? = some c := by rw [hch]; exact SingleElems.getElem?_zipper C1 C2 c
  obtain ⟨hc, hc1, hc2⟩ := hhdr _ _ hcget
  obtain ⟨q, hq1, hq2, hq3, hq4⟩ := MMetaSlab.findChild_spec hs (m.childHdrs.length + 1) 0 m.childHdrs.length
    none (res := MMetaSlab.findChild m.childHdrs hkey 0 m.childHdrs.length none (m.childHdrs.length + 1))
    (Nat.zero_le _) (Nat.le_refl _) (by omega) (by intro p h hp; omega)
    (by intro p h hp hh; have := lt_of_getElem?_eq_some hh; omega) rfl rfl
  have ha : C1.length < q := by
    rcases Nat.lt_or_ge C1.length q with h | h
    · exact h
    · have h1 := hq4 _ _ h hc1
      have h2 := headD_le_of_sorted hsc hk
      omega
  have hb : q ≤ C1.length + 1 := by
    rcases Nat.lt_or_ge (C1.length + 1) q with h | h
    · exfalso
      cases C2 with
      | nil => simp only [List.length_nil] at hlen; omega
      | cons nc C2 =>
        have hnget : m.children[C1.length + 1]? = some nc := by
          rw [hch, List.getElem?_append_right (by omega)]
          have : C1.length + 1 - C1.length = 1 := by omega
          rw [this]; rfl
        obtain ⟨hn, hn1, hn2⟩ := hhdr _ _ hnget
        have h1 := hq3 _ _ h hn1
        have hncm : nc ∈ m.children := List.mem_of_getElem? hnget
        have h2 := hs4 hkey hk ((MTree.digests0 d nc).headD 0)
          (List.mem_flatMap.2 ⟨nc, by simp, headD_mem (hne nc hncm)⟩)
        omega
    · exact h
  revert hq2
  cases MMetaSlab.findChild m.childHdrs hkey 0 m.childHdrs.length none (m.childHdrs.length + 1) with
  | none => intro hq2; have : q = 0 := hq2; omega
  | some a => intro hq2; have : a + 1 = q := hq2; congr 1; omega

/-! ### first keys -/

theorem firstDataSlab_zero (s : MDataSlab r) : MTree.firstDataSlab 0 (ofD s) = .ok s := rfl

theorem firstDataSlab_succ {d : Nat} (m : MMetaSlab (MTree r d)) (h : MHdr) (hs : List MHdr) (c : MTree r d)
    (cs : List (MTree r d)) (h1 : m.childHdrs = h :: hs) (h2 : m.children = c :: cs) :
    MTree.firstDataSlab (d + 1) (ofM m) = MTree.firstDataSlab d c := by
  show (match m.childHdrs, m.children with
    | [], _ => Except.error MErr.goPanic
    | _ :: _, [] => Except.error MErr.slabNotFound
    | _ :: _, c :: _ => MTree.firstDataSlab d c) = _
  rw [h1, h2]

theorem firstKey_zero (s : MDataSlab r) :
    MTree.firstKey 0 (ofD s) = .ok (HkeyElems.firstKeyIn (MElems.iops r) s.elems) := rfl

theorem firstKey_succ {d : Nat} (m : MMetaSlab (MTree r d)) (h : MHdr) (hs : List MHdr) (c : MTree r d)
    (cs : List (MTree r d)) (h1 : m.childHdrs = h :: hs) (h2 : m.children = c :: cs) :
    MTree.firstKey (d + 1) (ofM m) = MTree.firstKey d c := by
  unfold MTree.firstKey
  rw [firstDataSlab_succ m h hs c cs h1 h2]

/-- `firstKeyInMapSlab` is the key of the first pair of the subtree -/
theorem firstKey_spec (hT : legalThreshold T = true)
    (S : OpsSpec T (r + 1) D cfg (MElems.ops r) (ElemsInv T (r + 1) D r) r)
    (I : IterSpec T (r + 1) D cfg (MElems.ops r) (MElems.iops r) (ElemsInv T (r + 1) D r)) :
    ∀ (d : Nat) (top : Bool) (t : MTree r d), MTreeInv T D d top t →
      MTree.firstKey d t = .ok ((MTree.toList d t).head?.map (·.1))
  | 0, top, t => by
    refine forall_ofD ?_ t; intro s h
    have H := leaf_hinv ((inv_zero D top s).1 h)
    rw [firstKey_zero, toList_zero, H.firstKeyIn S I]
  | d + 1, top, t => by
    refine forall_ofM ?_ t; intro m h
    have F := inv_succ D d top m h
    have hpos := F.kids_pos hT
    cases hh : m.children with
    | nil => rw [hh] at hpos; simp at hpos
    | cons c cs =>
      have hhd : m.childHdrs = MTree.hdr d c :: cs.map (MTree.hdr d) := by rw [F.hdrs_eq, hh]; rfl
      have hc := F.kids_inv c (by rw [hh]; simp)
      rw [firstKey_succ m _ _ c cs hhd hh, firstKey_spec hT S I d false c hc, toList_succ, hh,
        head?_flatMap_of_ne_nil _ _ _ (toList_ne_nil hT S d c hc)]

/-! ### `getElementAndNextKey` through the tree -/

theorem getNext_zero (s : MDataSlab r) (k : MKey) :
    MTree.getNext cfg 0 (ofD s) k = HkeyElems.getNext (MElems.iops r) cfg s.elems 0 k := rfl

theorem getNext_succ {d : Nat} (m : MMetaSlab (MTree r d)) (k : MKey) (i : Nat) (child : MTree r d)
    (h1 : MMetaSlab.findChild m.childHdrs (k.dig 0) 0 m.childHdrs.length none (m.childHdrs.length + 1) = some i)
    (h2 : m.children[i]? = some child) (ks : MKey) (v : Elem) (nk : Option MKey)
    (h3 : MTree.getNext cfg d child k = .ok (ks, v, nk)) :
    MTree.getNext cfg (d + 1) (ofM m) k =
      match nk with
      | some nk => .ok (ks, v, some nk)
      | none =>
        if i + 1 < m.childHdrs.length then
          match m.children[i + 1]? with
          | none => .error .slabNotFound
          | some nc => (MTree.firstKey d nc >>= fun fk => pure (ks, v, fk))
        else .ok (ks, v, none) := by
  show (match MMetaSlab.findChild m.childHdrs (k.dig 0) 0 m.childHdrs.length none (m.childHdrs.length + 1) with
    | none => Except.error MErr.keyNotFound
    | some i =>
      match m.children[i]? with
      | none => Except.error MErr.slabNotFound
      | some child => (MTree.getNext cfg d child k >>= fun res =>
        match res.2.2 with
        | some nk => pure (res.1, res.2.1, some nk)
        | none =>
          if i + 1 < m.childHdrs.length then
            match m.children[i + 1]? with
            | none => Except.error MErr.slabNotFound
            | some nc => (MTree.firstKey d nc >>= fun fk => pure (res.1, res.2.1, fk))
          else pure (res.1, res.2.1, none))) = _
  rw [h1]
  simp only [h2, h3]
  cases nk <;> rfl

/-- `getElementAndNextKey` of the key of a pair of the subtree returns the pair and the key of
    the pair that follows it in the subtree's enumeration. -/
theorem getNext_spec (hT : legalThreshold T = true) (hc : CfgFor cfg T (r + 1))
    (S : OpsSpec T (r + 1) D cfg (MElems.ops r) (ElemsInv T (r + 1) D r) r)
    (I : IterSpec T (r + 1) D cfg (MElems.ops r) (MElems.iops r) (ElemsInv T (r + 1) D r)) :
    ∀ (d : Nat) (top : Bool) (t : MTree r d), MTreeInv T D d top t →
      ∀ (A : List (MKey × Elem)) (p : MKey × Elem) (B : List (MKey × Elem)), MTree.toList d t = A ++ p :: B →
      MTree.getNext cfg d t p.1 = .ok (p.1, p.2, B.head?.map (·.1))
  | 0, top, t => by
    refine forall_ofD ?_ t; intro s h A p B hl
    have H := leaf_hinv ((inv_zero D top s).1 h)
    rw [getNext_zero]
    exact H.getNext S I hc hl
  | d + 1, top, t => by
    refine forall_ofM ?_ t; intro m h A p B hl
    have F := inv_succ D d top m h
    rw [toList_succ] at hl
    obtain ⟨C1, c, C2, A2, B2, hch, hcl, hA, hB⟩ := flatMap_eq_append_cons _ _ _ _ _ hl
    have hcm : c ∈ m.children := by rw [hch]; simp
    have hci := F.kids_inv c hcm
    have hdig : p.1.dig 0 ∈ MTree.digests0 d c :=
      mem_digests0 S d false c hci p (by rw [hcl]; simp)
    have hroute := findChild_route hT F hch hdig
    have hget : m.children[C1.length]? = some c := by rw [hch]; exact SingleElems.getElem?_zipper C1 C2 c
    have ih := getNext_spec hT hc S I d false c hci A2 p B2 hcl
    rw [getNext_succ m p.1 C1.length c hroute hget p.1 p.2 _ ih, hB]
    cases B2 with
    | cons b B2 => rfl
    | nil =>
      simp only [List.head?_nil, Option.map_none, List.nil_append]
      have hlen : m.childHdrs.length = C1.length + 1 + C2.length := by
        rw [F.hdrs_length, hch]; simp; omega
      cases C2 with
      | nil =>
        rw [if_neg (by simp only [List.length_nil] at hlen; omega)]
        rfl
      | cons nc C2 =>
        rw [if_pos (by simp only [List.length_cons] at hlen; omega)]
        have hnget : m.children[C1.length + 1]? = some nc := by
          rw [hch, List.getElem?_append_right (by omega)]
          have : C1.length + 1 - C1.length = 1 := by omega
          rw [this]; rfl
        have hnc := F.kids_inv nc (List.mem_of_getElem? hnget)
        simp only [hnget]
        rw [firstKey_spec hT S I d false nc hnc, head?_flatMap_of_ne_nil _ _ _ (toList_ne_nil hT S d nc hnc)]
        rfl

end Tree
end IterM
end Atree
