import AtreeModel.Array.Iter
import AtreeProofs.ArrayInv
import AtreeProofs.ArrayLemmas
/-
  C13, arrays: the loaded-value traversal is a sublist of the full enumeration (equal to it when
  every slab is loaded); range iteration (read-only and mutable) is the slice of the enumeration;
  invalid ranges are rejected with the exact error kinds.
-/
namespace Atree
namespace IterA
open Gen ATree MetaSlab

variable {T : Nat}

/-! ### loaded values -/

theorem loadedValue_eq {loaded : SlabID → Bool} {e v : Elem} (h : e.loadedValue loaded = some v) : v = e := by
  unfold Elem.loadedValue at h
  split at h
  · split at h
    · cases h; rfl
    · cases h
  · cases h; rfl

theorem loadedValue_all {loaded : SlabID → Bool} (hall : ∀ id, loaded id = true) (e : Elem) :
    e.loadedValue loaded = some e := by
  unfold Elem.loadedValue
  split
  · rw [hall]; rfl
  · rfl

theorem filterMap_sublist_self {α : Type} (f : α → Option α) (hf : ∀ x y, f x = some y → y = x) :
    ∀ l : List α, (l.filterMap f).Sublist l
  | [] => List.Sublist.slnil
  | x :: l => by
    rw [List.filterMap_cons]
    cases hx : f x with
    | none => exact (filterMap_sublist_self f hf l).cons x
    | some y =>
      have := hf x y hx; subst this
      exact (filterMap_sublist_self f hf l).cons_cons y

theorem filterMap_eq_self {α : Type} (f : α → Option α) (hf : ∀ x, f x = some x) :
    ∀ l : List α, l.filterMap f = l
  | [] => rfl
  | x :: l => by rw [List.filterMap_cons, hf x]; simp [filterMap_eq_self f hf l]

theorem loadedElems_sublist (loaded : SlabID → Bool) (s : DataSlab) :
    (s.loadedElems loaded).Sublist s.elems := by
  unfold DataSlab.loadedElems DataSlab.loadedFrom
  rw [List.drop_zero]
  exact filterMap_sublist_self _ (fun _ _ h => loadedValue_eq h) _

theorem loadedElems_all {loaded : SlabID → Bool} (hall : ∀ id, loaded id = true) (s : DataSlab) :
    s.loadedElems loaded = s.elems := by
  unfold DataSlab.loadedElems DataSlab.loadedFrom
  rw [List.drop_zero]
  exact filterMap_eq_self _ (loadedValue_all hall) _

theorem iterLoaded_zero (loaded : SlabID → Bool) (s : DataSlab) :
    ATree.iterLoaded loaded 0 (ofData s) = s.loadedElems loaded := rfl

theorem iterLoaded_succ (loaded : SlabID → Bool) (d : Nat) (m : MetaSlab (ATree d)) :
    ATree.iterLoaded loaded (d + 1) (ofMeta m) =
      (m.childHdrs.zip m.children).flatMap
        (fun hc => if loaded hc.1.id then ATree.iterLoaded loaded d hc.2 else []) := rfl

/-- a `flatMap` over a zip that yields, per pair, a sublist of `g` of the second component -/
theorem zip_flatMap_sublist {α β γ : Type} (f : α × β → List γ) (g : β → List γ) :
    ∀ (hs : List α) (cs : List β), (∀ h c, c ∈ cs → (f (h, c)).Sublist (g c)) →
      ((hs.zip cs).flatMap f).Sublist (cs.flatMap g)
  | [], cs, _ => by simp
  | _ :: _, [], _ => by simp
  | h :: hs, c :: cs, hf => by
    simp only [List.zip_cons_cons, List.flatMap_cons]
    exact List.Sublist.append (hf h c (by simp))
      (zip_flatMap_sublist f g hs cs (fun h' c' hc' => hf h' c' (by simp [hc'])))

/-- ANY loaded predicate: the loaded-value traversal is an in-order sublist of the enumeration
    (no hypothesis on the tree). -/
theorem iterLoaded_sublist (loaded : SlabID → Bool) : ∀ (d : Nat) (t : ATree d),
    (ATree.iterLoaded loaded d t).Sublist (flatten d t)
  | 0, t => by
    refine forall_ofData ?_ t; intro s
    rw [iterLoaded_zero, flatten_zero]
    exact loadedElems_sublist loaded s
  | d + 1, t => by
    refine forall_ofMeta ?_ t; intro m
    rw [iterLoaded_succ, flatten_succ]
    refine zip_flatMap_sublist _ _ _ _ ?_
    intro h c _
    by_cases hl : loaded h.id = true
    · simp only [hl, if_true]; exact iterLoaded_sublist loaded d c
    · simp only [hl]; exact List.nil_sublist _

theorem zip_map_flatMap {α β γ : Type} (k : β → α) (f : α × β → List γ) (g : β → List γ) :
    ∀ (cs : List β), (∀ c ∈ cs, f (k c, c) = g c) → ((cs.map k).zip cs).flatMap f = cs.flatMap g
  | [], _ => rfl
  | c :: cs, hf => by
    simp only [List.map_cons, List.zip_cons_cons, List.flatMap_cons]
    rw [hf c (by simp), zip_map_flatMap k f g cs (fun c' hc' => hf c' (by simp [hc']))]

/-- every slab loaded: the loaded-value traversal is the enumeration -/
theorem iterLoaded_all {loaded : SlabID → Bool} (hall : ∀ id, loaded id = true) :
    ∀ (d : Nat) (top : Bool) (t : ATree d), TreeInv T d top t → ATree.iterLoaded loaded d t = flatten d t
  | 0, _, t, _ => by
    refine forall_ofData ?_ t; intro s
    rw [iterLoaded_zero, flatten_zero]
    exact loadedElems_all hall s
  | d + 1, top, t, h => by
    revert h; refine forall_ofMeta ?_ t; intro m h
    obtain ⟨hs, _⟩ := (treeInv_succ T d top m).1 h
    rw [iterLoaded_succ, flatten_succ, hs.hdrs_eq]
    refine zip_map_flatMap _ _ _ _ ?_
    intro c hc
    simp only [hall, if_true]
    exact iterLoaded_all hall d false c (hs.kids_inv c hc)

/-! ### ranges -/

theorem checkRange_ok (a : Arr) (lo hi : Nat) (h1 : lo ≤ hi) (h2 : hi ≤ a.count) :
    a.checkRange lo hi = .ok () := by
  unfold Arr.checkRange
  have e1 : (decide (lo > a.count) || decide (hi > a.count)) = false := by
    simp only [Bool.or_eq_false_iff, decide_eq_false_iff_not]; omega
  rw [e1]
  simp only [Bool.false_eq_true, if_false]
  rw [if_neg (by omega)]

theorem checkRange_oob (a : Arr) (lo hi : Nat) (h : a.count < lo ∨ a.count < hi) :
    a.checkRange lo hi = .error .sliceOutOfBounds := by
  unfold Arr.checkRange
  have e1 : (decide (lo > a.count) || decide (hi > a.count)) = true := by
    simp only [Bool.or_eq_true, decide_eq_true_eq]; omega
  rw [e1]; rfl

theorem checkRange_inverted (a : Arr) (lo hi : Nat) (h1 : lo ≤ a.count) (h2 : hi ≤ a.count) (h3 : hi < lo) :
    a.checkRange lo hi = .error .invalidSliceIndex := by
  unfold Arr.checkRange
  have e1 : (decide (lo > a.count) || decide (hi > a.count)) = false := by
    simp only [Bool.or_eq_false_iff, decide_eq_false_iff_not]; omega
  rw [e1]
  simp only [Bool.false_eq_true, if_false]
  rw [if_pos (by omega)]

theorem dataSlabWithIndex_zero (s : DataSlab) (i : Nat) :
    Arr.dataSlabWithIndex 0 (ofData s) i =
      if i ≥ s.elems.length then .error .indexOutOfBounds else .ok (s, i) := rfl

theorem dataSlabWithIndex_succ_ok {d : Nat} (m : MetaSlab (ATree d)) (i k adj : Nat) (child : ATree d)
    (h1 : m.childSlabIndexInfo i = .ok (k, adj)) (h2 : m.children[k]? = some child) :
    Arr.dataSlabWithIndex (d + 1) (ofMeta m) i = Arr.dataSlabWithIndex d child adj := by
  show (m.childSlabIndexInfo i >>= fun p => match m.children[p.1]? with
      | none => Except.error AErr.slabNotFound
      | some child => Arr.dataSlabWithIndex d child p.2) = _
  rw [h1]
  show (match m.children[k]? with
      | none => Except.error AErr.slabNotFound
      | some child => Arr.dataSlabWithIndex d child adj) = _
  rw [h2]

/-- `getArrayDataSlabWithIndex` returns the leaf holding position `i` and the offset inside it. -/
theorem dataSlabWithIndex_spec (hT : legalThreshold T = true) : ∀ (d : Nat) (t : ATree d) (top : Bool) (i : Nat),
    Shape T d top t → i < (flatten d t).length →
    ∃ pre s rest, Arr.leaves d t = pre ++ s :: rest ∧
      (pre.flatMap (·.elems)).length ≤ i ∧ i - (pre.flatMap (·.elems)).length < s.elems.length ∧
      Arr.dataSlabWithIndex d t i = .ok (s, i - (pre.flatMap (·.elems)).length)
  | 0, t, top, i => by
    refine forall_ofData ?_ t; intro s _ hi
    rw [flatten_zero] at hi
    refine ⟨[], s, [], rfl, by simp, by simpa using hi, ?_⟩
    rw [dataSlabWithIndex_zero, if_neg (by omega)]
    simp
  | d + 1, t, top, i => by
    refine forall_ofMeta ?_ t; intro m hs hi
    have hs := (shape_succ T d top m).1 hs
    have hlen := hs.flat_length
    rw [flatten_succ] at hi
    obtain ⟨A, child, B, adj, hch, h1, h2, h3, h4⟩ := route_flat hT hs i (by omega)
    have hc : TreeInv T d false child := hs.kids_inv child (by rw [hch]; simp)
    obtain ⟨pre, s, rest, hl, hle, hlt, hds⟩ := dataSlabWithIndex_spec hT d child false adj hc.shape_false h3
    have hA : (A.flatMap (Arr.leaves d)).flatMap (·.elems) = A.flatMap (flatten d) := by
      rw [List.flatMap_assoc]
      congr 1; funext x; exact leaves_flatMap_elems d x
    refine ⟨A.flatMap (Arr.leaves d) ++ pre, s, rest ++ B.flatMap (Arr.leaves d), ?_, ?_, ?_, ?_⟩
    · rw [leaves_succ, hch]
      simp [List.flatMap_append, hl]
    · rw [List.flatMap_append, List.length_append, hA]; omega
    · rw [List.flatMap_append, List.length_append, hA]
      have : i - ((A.flatMap (flatten d)).length + (pre.flatMap (·.elems)).length)
          = adj - (pre.flatMap (·.elems)).length := by omega
      rw [this]; exact hlt
    · rw [dataSlabWithIndex_succ_ok m i _ adj child h1 h4, hds]
      congr 2
      rw [List.flatMap_append, List.length_append, hA]; omega

theorem leaves_ne_nil_of_elems {d : Nat} {t : ATree d} (h : 0 < (flatten d t).length) : Arr.leaves d t ≠ [] := by
  intro hnil
  have := leaves_flatMap_elems d t
  rw [hnil] at this
  simp at this
  rw [this] at h
  simp at h

/-- facts about the leaves that the read-only iterator needs -/
theorem leaves_facts {a : Arr} {ctr : Nat} (h : ArrInv T a ctr) :
    ((Arr.leaves a.d a.root).map (·.hdr.id)).Nodup ∧
    (∀ s ∈ Arr.leaves a.d a.root, s.hdr.id ≠ SlabID.undef) ∧ LeafChain (Arr.leaves a.d a.root) := by
  refine ⟨h.ids.1.sublist (leaves_ids_sublist a.d a.root), ?_, h.chain⟩
  intro s hs heq
  have hm : s.hdr.id ∈ slabIds a.d a.root :=
    (leaves_ids_sublist a.d a.root).subset (List.mem_map.2 ⟨s, hs, rfl⟩)
  have := (h.ids.2 _ hm).2.1
  rw [heq] at this
  simp [SlabID.undef] at this

theorem leafChain_tail : ∀ (pre : List DataSlab) (s : DataSlab) (rest : List DataSlab),
    LeafChain (pre ++ s :: rest) → LeafChain (s :: rest)
  | [], _, _, h => h
  | [p], s, rest, h => by
    obtain ⟨_, h2⟩ : p.next = s.hdr.id ∧ LeafChain (s :: rest) := h
    exact h2
  | p :: q :: pre, s, rest, h => by
    obtain ⟨_, h2⟩ : p.next = q.hdr.id ∧ LeafChain (q :: (pre ++ s :: rest)) := h
    exact leafChain_tail (q :: pre) s rest h2

/-- the read-only iterator started at leaf `s`, offset `idx`, for `n` elements -/
theorem roIter_at {a : Arr} {ctr : Nat} (h : ArrInv T a ctr) (pre : List DataSlab) (s : DataSlab)
    (rest : List DataSlab) (hl : Arr.leaves a.d a.root = pre ++ s :: rest) (idx n : Nat)
    (hidx : idx ≤ s.elems.length) :
    Arr.roIterFrom (Arr.leaves a.d a.root) ((Arr.leaves a.d a.root).length + 1) s idx n
      = ((a.toList.drop ((pre.flatMap (·.elems)).length + idx))).take n := by
  obtain ⟨hnd, hdef, hchain⟩ := leaves_facts h
  rw [hl] at hnd hdef hchain
  have := roIterFrom_spec rest pre s ((pre ++ s :: rest).length + 1) idx n
    (leafChain_tail pre s rest hchain) hnd hdef (by simp; omega) hidx
  rw [hl, this]
  congr 1
  have hfl : a.toList = (pre ++ s :: rest).flatMap (·.elems) := by
    rw [← hl]; exact (leaves_flatMap_elems a.d a.root).symm
  rw [hfl, List.flatMap_append, List.flatMap_cons, ← List.drop_drop, List.drop_left,
    List.drop_append_of_le_length hidx]

theorem count_eq_length {a : Arr} {ctr : Nat} (h : ArrInv T a ctr) : a.count = a.toList.length := by
  obtain ⟨d, t, ty⟩ := a
  exact h.shape.count_eq_length

/-- `IterateReadOnlyRange(lo, hi)` of a valid range is the slice `[lo, hi)` of the enumeration. -/
theorem iterReadOnlyRange_eq (hT : legalThreshold T = true) (a : Arr) (ctr : Nat) (h : ArrInv T a ctr)
    (lo hi : Nat) (h1 : lo ≤ hi) (h2 : hi ≤ a.count) :
    a.iterReadOnlyRange lo hi = .ok ((a.toList.drop lo).take (hi - lo)) := by
  have hcnt := count_eq_length h
  unfold Arr.iterReadOnlyRange
  rw [checkRange_ok a lo hi h1 h2]
  show (if hi - lo = 0 then (pure [] : Except AErr (List Elem)) else _) = _
  by_cases h0 : hi - lo = 0
  · rw [if_pos h0, h0]; simp; rfl
  · rw [if_neg h0]
    obtain ⟨d, t, ty⟩ := a
    cases d with
    | zero =>
      revert h hcnt h2; refine forall_ofData ?_ t; intro s h h2 hcnt
      show (pure (Arr.roIterFrom (Arr.leaves 0 (ofData s)) ((Arr.leaves 0 (ofData s)).length + 1) s lo (hi - lo))
        : Except AErr (List Elem)) = _
      have hl : Arr.leaves (⟨0, ofData s, ty⟩ : Arr).d (⟨0, ofData s, ty⟩ : Arr).root = [] ++ s :: [] := rfl
      have hlen : (flatten 0 (ofData s)).length = s.elems.length := rfl
      have := roIter_at h [] s [] hl lo (hi - lo) (by
        have : (⟨0, ofData s, ty⟩ : Arr).toList.length = s.elems.length := rfl
        omega)
      simp only [List.flatMap_nil, List.length_nil, Nat.zero_add] at this
      exact congrArg _ this
    | succ d =>
      revert h hcnt h2; refine forall_ofMeta ?_ t; intro m h h2 hcnt
      show (if lo = 0 then
          (match Arr.leaves (d + 1) (ofMeta m) with
           | [] => (pure [] : Except AErr (List Elem))
           | first :: _ => pure (Arr.roIterFrom (Arr.leaves (d + 1) (ofMeta m))
               ((Arr.leaves (d + 1) (ofMeta m)).length + 1) first 0 (hi - lo)))
        else
          (Arr.dataSlabWithIndex (d + 1) (ofMeta m) lo >>= fun p =>
            pure (Arr.roIterFrom (Arr.leaves (d + 1) (ofMeta m))
               ((Arr.leaves (d + 1) (ofMeta m)).length + 1) p.1 p.2 (hi - lo)))) = _
      have hlenpos : 0 < (flatten (d + 1) (ofMeta m)).length := by
        have : (⟨d + 1, ofMeta m, ty⟩ : Arr).toList = flatten (d + 1) (ofMeta m) := rfl
        rw [this] at hcnt; omega
      by_cases hlo : lo = 0
      · rw [if_pos hlo]
        match hl : Arr.leaves (d + 1) (ofMeta m) with
        | [] => exact absurd hl (leaves_ne_nil_of_elems hlenpos)
        | first :: rest =>
          simp only
          have hl' : Arr.leaves (⟨d + 1, ofMeta m, ty⟩ : Arr).d (⟨d + 1, ofMeta m, ty⟩ : Arr).root
              = [] ++ first :: rest := hl
          have := roIter_at h [] first rest hl' 0 (hi - lo) (Nat.zero_le _)
          simp only [List.flatMap_nil, List.length_nil, Nat.zero_add] at this
          rw [hlo]
          rw [hlo] at this
          rw [← hl]
          exact congrArg _ this
      · rw [if_neg hlo]
        have hs : Shape T (d + 1) true (ofMeta m) := h.shape
        obtain ⟨pre, s, rest, hl, hle, hlt, hds⟩ := dataSlabWithIndex_spec hT (d + 1) (ofMeta m) true lo hs (by
          have : (⟨d + 1, ofMeta m, ty⟩ : Arr).toList = flatten (d + 1) (ofMeta m) := rfl
          rw [this] at hcnt; omega)
        rw [hds]
        show (pure _ : Except AErr (List Elem)) = _
        have := roIter_at h pre s rest hl (lo - (pre.flatMap (·.elems)).length) (hi - lo) (by omega)
        have e : (pre.flatMap (·.elems)).length + (lo - (pre.flatMap (·.elems)).length) = lo := by omega
        rw [e] at this
        exact congrArg _ this

/-- `IterateRange(lo, hi)` (mutable range iterator) of a valid range is the same slice. -/
theorem iterMutableRange_eq (hT : legalThreshold T = true) (a : Arr) (ctr : Nat) (h : ArrInv T a ctr)
    (lo hi : Nat) (h1 : lo ≤ hi) (h2 : hi ≤ a.count) :
    a.iterMutableRange lo hi = .ok ((a.toList.drop lo).take (hi - lo)) := by
  have hcnt := count_eq_length h
  unfold Arr.iterMutableRange
  rw [checkRange_ok a lo hi h1 h2]
  obtain ⟨d, t, ty⟩ := a
  have hget : ∀ j ∈ List.range (hi - lo),
      Arr.get ⟨d, t, ty⟩ (lo + j) = .ok ((flatten d t).getD (lo + j) default) := by
    intro j hj
    simp only [List.mem_range] at hj
    exact (get_gen hT d t true (lo + j) h.shape).1 (by
      have : (⟨d, t, ty⟩ : Arr).toList = flatten d t := rfl
      rw [this] at hcnt
      have : (⟨d, t, ty⟩ : Arr).count = (hdr d t).count := rfl
      omega)
  show (List.range (hi - lo)).mapM (fun j => Arr.get ⟨d, t, ty⟩ (lo + j)) = _
  rw [mapM_ok _ _ _ hget]
  congr 1
  show _ = ((flatten d t).drop lo).take (hi - lo)
  have hlen : hi ≤ (flatten d t).length := by
    have : (⟨d, t, ty⟩ : Arr).toList = flatten d t := rfl
    rw [this] at hcnt; omega
  apply List.ext_getElem
  · simp; omega
  · intro i hi1 hi2
    simp only [List.length_map, List.length_range] at hi1
    simp only [List.getElem_map, List.getElem_range, List.getElem_take, List.getElem_drop,
      List.getD_eq_getElem?_getD]
    rw [List.getElem?_eq_getElem (by omega)]
    rfl

end IterA
end Atree
