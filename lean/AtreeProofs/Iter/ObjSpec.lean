import AtreeModel.Array.IterObj
import AtreeModel.Map.IterObj
/-
  C13, iterator OBJECTS: the vocabulary of the statements of Props/C13ObjEq.lean.  DEFINITIONS ONLY;
  they are part of the reviewed statements.
-/
namespace Atree

namespace IterObj

/-- What `n` successive `Next()` calls of an iterator object must return when `l` is the list it
    has to hand out: call `i` (from 0) returns `l[i]?`, i.e. the `i`-th element, and nil (`none`)
    from the end of `l` on. -/
def answers {α : Type} (l : List α) (n : Nat) : List (Option α) := (List.range n).map (fun i => l[i]?)

/-- the component of a pair that `Next` / `NextKey` / `NextValue` keeps -/
def project (c : MapCall) (p : MKey × Elem) : MapRet :=
  match c with
  | .next => .pair p.1 p.2
  | .nextKey => .key p.1
  | .nextValue => .value p.2

/-- What an interleaving `calls` of `Next / NextKey / NextValue` on ONE map iterator object must return
    when `l` is the pair list the object has to hand out: call `i` returns the component it asks for
    of the `i`-th pair of `l`, and nil from the end of `l` on. -/
def mapAnswers (l : List (MKey × Elem)) (calls : List MapCall) : List MapRet :=
  calls.mapIdx (fun i c => match l[i]? with
    | some p => project c p
    | none => MapRet.nil)

end IterObj

namespace Arr.Flavour

/-- the range of a range iterator lies within the array (`RangeIterator` rejects anything else:
    `C13.bad_range_rejected`) -/
def Valid (a : Arr) : Arr.Flavour → Prop
  | .mutRange lo hi => lo ≤ hi ∧ hi ≤ a.count
  | .roRange lo hi => lo ≤ hi ∧ hi ≤ a.count
  | _ => True

/-- the list form of each flavour: the enumeration, the slice `[lo, hi)` of it, or the structural
    loaded-value traversal (`Arr.iterLoaded`: a sublist of the enumeration, equal to it when every
    slab is loaded - `C13.arr_loaded_subset_is_sublist`, `C13.arr_loaded_all_eq_toList`) -/
def expected (a : Arr) (loaded : SlabID → Bool) : Arr.Flavour → List Elem
  | .mut => a.toList
  | .ro => a.toList
  | .mutRange lo hi => (a.toList.drop lo).take (hi - lo)
  | .roRange lo hi => (a.toList.drop lo).take (hi - lo)
  | .loaded => a.iterLoaded loaded

/-- `CanMutate()`: true exactly for the objects made by `Iterator` / `RangeIterator` -/
def mutable : Arr.Flavour → Bool
  | .mut => true
  | .mutRange _ _ => true
  | _ => false

end Arr.Flavour

namespace OMap.IterFlavour

/-- the list form of each map flavour: the enumeration, or the structural loaded-value traversal
    (`OMap.iterLoaded`: a sublist of the enumeration, equal to it when every slab is loaded) -/
def expected {r : Nat} (m : OMap r) (ld : SlabID → Bool) : OMap.IterFlavour → List (MKey × Elem)
  | .mut => m.toList
  | .ro => m.toList
  | .loaded => m.iterLoaded ld

/-- `CanMutate()`: true exactly for the object made by `Iterator` -/
def mutable : OMap.IterFlavour → Bool
  | .mut => true
  | _ => false

end OMap.IterFlavour
end Atree
