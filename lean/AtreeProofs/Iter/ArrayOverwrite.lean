import AtreeProofs.Iter.ArrayIter
/-
  C13, arrays: the mutable iterator whose callback overwrites the current element neither skips
  nor repeats — it hands out exactly the elements the array had when the iteration started, in
  index order, and leaves a well-formed array of the same length.
-/
namespace Atree
namespace IterA
open Gen ATree

variable {T : Nat}

theorem iterMutableWith_zero (upd : Nat → Elem → Option Elem) (i : Nat) (a : Arr) (c : Ctx) :
    Arr.iterMutableWith T upd 0 i a c = .ok ([], a, c) := rfl

theorem iterMutableWith_succ_none (upd : Nat → Elem → Option Elem) (n i : Nat) (a : Arr) (c : Ctx) (e : Elem)
    (hg : a.get i = .ok e) (hu : upd i e = none) :
    Arr.iterMutableWith T upd (n + 1) i a c =
      (Arr.iterMutableWith T upd n (i + 1) a c >>= fun r => pure (e :: r.1, r.2.1, r.2.2)) := by
  rw [Arr.iterMutableWith]
  simp only [hg, hu, bind, Except.bind, pure, Except.pure]

theorem iterMutableWith_succ_some (upd : Nat → Elem → Option Elem) (n i : Nat) (a : Arr) (c : Ctx) (e v old : Elem)
    (a' : Arr) (c' : Ctx) (hg : a.get i = .ok e) (hu : upd i e = some v) (hs : a.set T i v c = .ok (old, a', c')) :
    Arr.iterMutableWith T upd (n + 1) i a c =
      (Arr.iterMutableWith T upd n (i + 1) a' c' >>= fun r => pure (e :: r.1, r.2.1, r.2.2)) := by
  rw [Arr.iterMutableWith]
  simp only [hg, hu, hs, bind, Except.bind, pure, Except.pure]

theorem iterMutableWith_spec (hT : legalThreshold T = true) (upd : Nat → Elem → Option Elem)
    (hupd : ∀ i e v, upd i e = some v → ValueOk v) :
    ∀ (n i : Nat) (a : Arr) (c : Ctx), ArrInv T a c.ctr → i + n = a.toList.length →
      ∃ a' c', Arr.iterMutableWith T upd n i a c = .ok (a.toList.drop i, a', c') ∧
        ArrInv T a' c'.ctr ∧ a'.toList.length = a.toList.length ∧ a'.rootID = a.rootID
  | 0, i, a, c, h, hlen => by
    refine ⟨a, c, ?_, h, rfl, rfl⟩
    rw [iterMutableWith_zero, List.drop_of_length_le (by omega)]
  | n + 1, i, a, c, h, hlen => by
    have hi : i < a.toList.length := by omega
    have hg : a.get i = .ok (a.toList.getD i default) := by
      obtain ⟨d, t, ty⟩ := a
      exact (get_gen hT d t true i h.shape).1 hi
    have hdrop : a.toList.drop i = a.toList.getD i default :: a.toList.drop (i + 1) := by
      rw [List.drop_eq_getElem_cons hi]
      congr 1
      rw [List.getD_eq_getElem?_getD, List.getElem?_eq_getElem hi]; rfl
    cases hu : upd i (a.toList.getD i default) with
    | none =>
      obtain ⟨a', c', h1, h2, h3, h4⟩ := iterMutableWith_spec hT upd hupd n (i + 1) a c h (by omega)
      refine ⟨a', c', ?_, h2, h3, h4⟩
      rw [iterMutableWith_succ_none upd n i a c _ hg hu, h1, hdrop]
      rfl
    | some v =>
      obtain ⟨a2, c2, hset, hinv, hl, hid, _⟩ := arr_set_ok hT a c i v (hupd _ _ _ hu) h hi
      have hlen2 : a2.toList.length = a.toList.length := by rw [hl]; simp
      obtain ⟨a', c', h1, h2, h3, h4⟩ := iterMutableWith_spec hT upd hupd n (i + 1) a2 c2 hinv (by omega)
      refine ⟨a', c', ?_, h2, by omega, by rw [h4, hid]⟩
      rw [iterMutableWith_succ_some upd n i a c _ v _ a2 c2 hg hu hset, h1, hdrop, hl]
      have : (a.toList.set i ((toStorable T a.addr v c).1)).drop (i + 1) = a.toList.drop (i + 1) := by
        rw [List.drop_set_of_lt (by omega)]
      rw [this]
      rfl

/-- `Iterate` with overwrites of the current element hands out exactly the original sequence. -/
theorem iterateWith_spec (hT : legalThreshold T = true) (upd : Nat → Elem → Option Elem)
    (hupd : ∀ i e v, upd i e = some v → ValueOk v) (a : Arr) (c : Ctx) (h : ArrInv T a c.ctr) :
    ∃ a' c', a.iterateWith T upd c = .ok (a.toList, a', c') ∧ ArrInv T a' c'.ctr ∧
      a'.toList.length = a.toList.length ∧ a'.rootID = a.rootID := by
  have hc := count_eq_length h
  obtain ⟨a', c', h1, h2, h3, h4⟩ := iterMutableWith_spec hT upd hupd a.count 0 a c h (by omega)
  exact ⟨a', c', h1, h2, h3, h4⟩

end IterA
end Atree
