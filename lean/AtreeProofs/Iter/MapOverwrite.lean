import AtreeProofs.Iter.MapTop
import AtreeProofs.Map.Overwrite
/-
  C13, maps: the mutable iterator whose callback overwrites the value of the current key neither
  skips nor repeats.  RELATIVE to the in-place effect of `Set` on an existing key (hypothesis
  `OverwriteInPlace`): the elements-level form of that fact is `SetEffect` in AtreeProofs/Map, its
  lift to whole trees (with splits and merges of slabs) belongs to C02 and is not available here.
-/
namespace Atree
namespace IterM
open Gen

variable {T r : Nat} {D : DigestFn (r + 1)} {cfg : MCfg}

/-- `Set` of an existing key replaces the value of that pair where it stands, keeps every other
    pair and their order, and preserves the invariant and the configuration. -/
def OverwriteInPlace (T : Nat) (D : DigestFn (r + 1)) (cfg : MCfg) : Prop :=
  ∀ (m : OMap r) (c : Ctx) (A : List (MKey × Elem)) (k : MKey) (v0 : Elem) (B : List (MKey × Elem)) (v : Elem),
    MapInv T D m → CfgOk cfg T m → m.toList = A ++ (k, v0) :: B → ValueOkM v →
    ∃ old m' c' v', m.set cfg k v c = .ok (old, m', c') ∧ MapInv T D m' ∧ CfgOk cfg T m' ∧
      m'.toList = A ++ (k, v') :: B

theorem iterMutableWith_spec (hT : legalThreshold T = true) (hset : OverwriteInPlace T D cfg)
    (upd : MKey → Elem → Option Elem) (hupd : ∀ k v v', upd k v = some v' → ValueOkM v') :
    ∀ (B A : List (MKey × Elem)) (p : MKey × Elem) (fuel : Nat) (m : OMap r) (c : Ctx),
      MapInv T D m → CfgOk cfg T m → m.toList = A ++ p :: B → B.length < fuel →
      ∃ m' c', OMap.iterMutableWith cfg upd fuel p.1 m c = .ok (p :: B, m', c') ∧ MapInv T D m' ∧
        m'.toList.map (·.1) = m.toList.map (·.1)
  | [], A, p, fuel, m, c, h, hcfg, hl, hf => by
    obtain ⟨f, rfl⟩ : ∃ f, fuel = f + 1 := ⟨fuel - 1, by omega⟩
    have hn := nextKeyOk hT m hcfg h A p [] hl
    unfold OMap.iterMutableWith
    rw [hn]
    cases hu : upd p.1 p.2 with
    | none => exact ⟨m, c, by simp [hu], h, rfl⟩
    | some v' =>
      obtain ⟨old, m', c', v'', hs, hinv, _, hl'⟩ := hset m c A p.1 p.2 [] v' h hcfg hl (hupd _ _ _ hu)
      refine ⟨m', c', by simp [hu, hs], hinv, ?_⟩
      rw [hl', hl]; simp
  | b :: B, A, p, fuel, m, c, h, hcfg, hl, hf => by
    obtain ⟨f, rfl⟩ : ∃ f, fuel = f + 1 := ⟨fuel - 1, by omega⟩
    have hn := nextKeyOk hT m hcfg h A p (b :: B) hl
    unfold OMap.iterMutableWith
    rw [hn]
    cases hu : upd p.1 p.2 with
    | none =>
      obtain ⟨m', c', h1, h2, h3⟩ := iterMutableWith_spec hT hset upd hupd B (A ++ [p]) b f m c h hcfg
        (by rw [hl]; simp) (by simp at hf; omega)
      exact ⟨m', c', by simp [hu, h1], h2, h3⟩
    | some v' =>
      obtain ⟨old, m1, c1, v'', hs, hinv, hcfg1, hl'⟩ := hset m c A p.1 p.2 (b :: B) v' h hcfg hl (hupd _ _ _ hu)
      obtain ⟨m', c', h1, h2, h3⟩ := iterMutableWith_spec hT hset upd hupd B (A ++ [(p.1, v'')]) b f m1 c1 hinv hcfg1
        (by rw [hl']; simp) (by simp at hf; omega)
      refine ⟨m', c', by simp [hu, hs, h1], h2, ?_⟩
      rw [h3, hl', hl]; simp

/-- `Iterate` with overwrites of the current entry hands out exactly the original pair list and
    leaves the key sequence unchanged. -/
theorem iterateWith_spec (hT : legalThreshold T = true) (hset : OverwriteInPlace T D cfg)
    (upd : MKey → Elem → Option Elem) (hupd : ∀ k v v', upd k v = some v' → ValueOkM v')
    (m : OMap r) (c : Ctx) (h : MapInv T D m) (hcfg : CfgOk cfg T m) :
    ∃ m' c', m.iterateWith cfg upd c = .ok (m.toList, m', c') ∧ MapInv T D m' ∧
      m'.toList.map (·.1) = m.toList.map (·.1) := by
  unfold OMap.iterateWith
  rw [iteratorStart_spec hT m hcfg h]
  cases hl : m.toList with
  | nil => exact ⟨m, c, rfl, h, by rw [hl]⟩
  | cons p B =>
    simp only [List.head?_cons, Option.map_some]
    obtain ⟨m', c', h1, h2, h3⟩ := iterMutableWith_spec hT hset upd hupd B [] p (m.count + 1) m c h hcfg hl (by
      rw [h.count_eq, hl]; simp only [List.length_cons]; omega)
    exact ⟨m', c', h1, h2, by rw [h3, hl]⟩

/-- `Set` of an existing key replaces the value in place and preserves the invariant
    (from `OMap.set_overwrite`). -/
theorem overwriteInPlace (hT : legalThreshold T = true) : OverwriteInPlace T D cfg := by
  intro m c A k v0 B v h hcfg hl hv
  obtain ⟨m', c', hs, hinv, hcfg', _, hl', _, _⟩ := OMap.set_overwrite hT hcfg h hl hv c
  exact ⟨some v0, m', c', _, hs, hinv, hcfg', hl'⟩

/-- `Iterate` with overwrites of the current entry: exactly the original pair list, same keys after. -/
theorem iterateWith_full (hT : legalThreshold T = true)
    (upd : MKey → Elem → Option Elem) (hupd : ∀ k v v', upd k v = some v' → ValueOkM v')
    (m : OMap r) (c : Ctx) (h : MapInv T D m) (hcfg : CfgOk cfg T m) :
    ∃ m' c', m.iterateWith cfg upd c = .ok (m.toList, m', c') ∧ MapInv T D m' ∧
      m'.toList.map (·.1) = m.toList.map (·.1) :=
  iterateWith_spec hT (overwriteInPlace hT) upd hupd m c h hcfg

end IterM
end Atree
