import AtreeModel.Map.Iter
import AtreeProofs.MapInv
import AtreeProofs.MapLemmas
import AtreeProofs.Map.HkeySpec
/-
  C13, maps, `elements` level: what `getElementAndNextKey`, `firstKeyInElements`, the element
  iterator and the loaded-element iterator compute, in terms of the pair list `toList`, for one
  `elements` value satisfying its invariant.  Stated once over a record (`IterSpec`) and tied by
  recursion on the number of remaining digest levels, like `OpsSpec`.
-/
namespace Atree
open Gen

/-! ### list surgery -/
section Lists
variable {α β : Type}

/-- a position inside a `flatMap` lies inside exactly one of the pieces -/
theorem flatMap_eq_append_cons (f : α → List β) : ∀ (l : List α) (A : List β) (p : β) (B : List β),
    l.flatMap f = A ++ p :: B →
    ∃ E1 el E2 A2 B2, l = E1 ++ el :: E2 ∧ f el = A2 ++ p :: B2 ∧
      A = E1.flatMap f ++ A2 ∧ B = B2 ++ E2.flatMap f
  | [], A, p, B, h => by simp at h
  | x :: l, A, p, B, h => by
    rw [List.flatMap_cons] at h
    rcases List.append_eq_append_iff.1 h with ⟨A', hA, hrest⟩ | ⟨C, hfx, hB⟩
    · -- `f x` is a prefix of `A`
      obtain ⟨E1, el, E2, A2, B2, h1, h2, h3, h4⟩ := flatMap_eq_append_cons f l A' p B hrest
      refine ⟨x :: E1, el, E2, A2, B2, by rw [h1]; rfl, h2, ?_, h4⟩
      rw [hA, h3, List.flatMap_cons, List.append_assoc]
    · -- `A` is a prefix of `f x`: `f x = A ++ C`, `C ++ flatMap l = p :: B`
      cases C with
      | nil =>
        simp only [List.append_nil] at hfx
        simp only [List.nil_append] at hB
        obtain ⟨E1, el, E2, A2, B2, h1, h2, h3, h4⟩ := flatMap_eq_append_cons f l [] p B hB.symm
        refine ⟨x :: E1, el, E2, A2, B2, by rw [h1]; rfl, h2, ?_, h4⟩
        have : E1.flatMap f ++ A2 = [] := h3.symm
        rw [List.flatMap_cons, List.append_assoc, this, List.append_nil, hfx]
      | cons c C =>
        simp only [List.cons_append, List.cons.injEq] at hB
        obtain ⟨hc, hB⟩ := hB
        subst hc
        exact ⟨[], x, l, A, C, rfl, hfx, by simp, hB⟩

theorem head?_flatMap_of_ne_nil (f : α → List β) (x : α) (l : List α) (hx : f x ≠ []) :
    ((x :: l).flatMap f).head? = (f x).head? := by
  rw [List.flatMap_cons]
  cases h : f x with
  | nil => exact absurd h hx
  | cons a r => rfl

theorem sublist_flatMap_of (f g : α → List β) (L : List α)
    (h : ∀ x ∈ L, (f x).Sublist (g x)) : (L.flatMap f).Sublist (L.flatMap g) := by
  induction L with
  | nil => simp
  | cons x L ih =>
    simp only [List.flatMap_cons]
    exact List.Sublist.append (h x (by simp)) (ih (fun y hy => h y (by simp [hy])))

theorem map_eq_append_cons (f : α → β) : ∀ (l : List α) (A : List β) (p : β) (B : List β),
    l.map f = A ++ p :: B → ∃ A' x B', l = A' ++ x :: B' ∧ A'.map f = A ∧ f x = p ∧ B'.map f = B := by
  intro l A p B h
  obtain ⟨A', R, hl, hA, hR⟩ := List.map_eq_append_iff.1 h
  obtain ⟨x, B', hR', hx, hB⟩ := List.map_eq_cons_iff.1 hR
  exact ⟨A', x, B', by rw [hl, hR'], hA, hx, hB⟩

end Lists

/-- What the iterator operations of one `elements` value compute, relative to `toList`. -/
structure IterSpec (T L : Nat) (D : DigestFn L) (cfg : MCfg) {α : Type} (o : ElemsOps α) (io : IterOps α)
    (Inv : Nat → List Nat → α → Prop) : Prop where
  /-- `firstKeyInElements` is the key of the first pair -/
  firstKey : ∀ {ℓ path e}, Inv ℓ path e → io.firstKey e = (o.toList e).head?.map (·.1)
  /-- the element iterator yields the pair list -/
  elemIter : ∀ {ℓ path e}, Inv ℓ path e → io.elemIter e = o.toList e
  /-- `getElementAndNextKey` of the key of a pair returns that pair and the key of the following
      pair of the SAME elements (`none` at the end) -/
  getNext : ∀ {ℓ path e A p B}, Inv ℓ path e → o.toList e = A ++ p :: B →
    io.getNext cfg e ℓ p.1 = .ok (p.1, p.2, B.head?.map (·.1))
  /-- the loaded-element iterator yields an in-order sublist, for any `loaded` and any value -/
  loaded_sub : ∀ ld e, (io.loaded ld e).Sublist (o.toList e)
  /-- … and everything when every slab is loaded -/
  loaded_all : ∀ ld e, (∀ id, ld id = true) → io.loaded ld e = o.toList e

theorem loadedPair_eq {ld : SlabID → Bool} {x : SElem} {p : MKey × Elem} (h : x.loadedPair ld = some p) :
    p = (x.key, x.val) := by
  unfold SElem.loadedPair at h
  split at h
  · split at h
    · cases h; rfl
    · cases h
  · cases h; rfl

theorem loadedPair_all {ld : SlabID → Bool} (hall : ∀ id, ld id = true) (x : SElem) :
    x.loadedPair ld = some (x.key, x.val) := by
  unfold SElem.loadedPair
  split
  · rw [hall]; rfl
  · rfl

theorem filterMap_sublist_map {α β : Type} (f : α → Option β) (g : α → β) (hf : ∀ x y, f x = some y → y = g x) :
    ∀ l : List α, (l.filterMap f).Sublist (l.map g)
  | [] => List.Sublist.slnil
  | x :: l => by
    rw [List.filterMap_cons, List.map_cons]
    cases hx : f x with
    | none => exact (filterMap_sublist_map f g hf l).cons _
    | some y =>
      have := hf x y hx; subst this
      exact (filterMap_sublist_map f g hf l).cons_cons _

theorem filterMap_eq_map {α β : Type} (f : α → Option β) (g : α → β) (hf : ∀ x, f x = some (g x)) :
    ∀ l : List α, l.filterMap f = l.map g
  | [] => rfl
  | x :: l => by rw [List.filterMap_cons, hf x, List.map_cons, filterMap_eq_map f g hf l]

/-! ### the insertion-ordered list at the last digest level -/
namespace SingleElems
variable {T L : Nat} {D : DigestFn L} {cfg : MCfg}

theorem iterSpec (hc : CfgFor cfg T L) :
    IterSpec T L D cfg SingleElems.ops SingleElems.iops (ElemsInv T L D 0) where
  firstKey := by
    intro ℓ path e _
    show e.elems.head?.map (·.key) = (e.elems.map pairOf).head?.map (·.1)
    cases e.elems <;> rfl
  elemIter := by intro ℓ path e _; rfl
  getNext := by
    intro ℓ path e A p B h hl
    have hinv := (inv_iff ℓ path e).mp h
    have hℓ : ¬ (ℓ ≠ cfg.L) := by rw [hc.hL]; simp [hinv.1]
    obtain ⟨A', x, B', hel, hA, hx, hB⟩ := map_eq_append_cons pairOf e.elems A p B hl
    have hd := hinv.2.2.2.2
    rw [hel, List.map_append, List.map_cons, KeysDistinct.append_iff] at hd
    have hA' : ∀ a ∈ A', (fun y : SElem => y.key.same p.1) a = false := by
      intro a ha
      have := hd.2.2 (pairOf a) (List.mem_map_of_mem ha) (pairOf x) List.mem_cons_self
      rw [← hx]; exact this
    have hxs : (fun y : SElem => y.key.same p.1) x = true := by
      rw [← hx]; exact MKey.same_self _
    have hidx : e.elems.findIdx? (fun y => y.key.same p.1) = some A'.length := by
      rw [hel]; exact findIdx?_zipper hA' hxs
    have hget : e.elems[A'.length]? = some x := by rw [hel]; exact getElem?_zipper A' B' x
    have hnext : e.elems[A'.length + 1]? = B'.head? := by
      rw [hel, List.getElem?_append_right (by omega)]
      have : A'.length + 1 - A'.length = 1 := by omega
      rw [this]
      cases B' <;> rfl
    show SingleElems.getNext cfg e ℓ p.1 = _
    unfold SingleElems.getNext
    rw [if_neg hℓ, hidx]
    simp only [hget, hnext]
    rw [← hx, ← hB]
    cases B' <;> rfl
  loaded_sub := by
    intro ld e
    exact filterMap_sublist_map _ _ (fun _ _ h => loadedPair_eq h) _
  loaded_all := by
    intro ld e hall
    exact filterMap_eq_map _ _ (loadedPair_all hall) _

end SingleElems

/-! ### one element of a digest table -/
namespace MElemOk
variable {T L : Nat} {D : DigestFn L} {cfg : MCfg} {α : Type} {o : ElemsOps α} {io : IterOps α}
  {Inv : Nat → List Nat → α → Prop} {rr : Nat}

theorem firstKey (I : IterSpec T L D cfg o io Inv) {ℓ : Nat} {path : List Nat} {hk : Nat} {e : MElemF α}
    (h : MElemOk T L D o Inv ℓ path hk e) : e.firstKey io = (e.toList o).head?.map (·.1) := by
  cases e with
  | single x => rfl
  | inl g => exact I.firstKey h.1
  | ext id sz s => exact I.firstKey h.2.2.2.2.2.1

theorem getNext (I : IterSpec T L D cfg o io Inv) (hc : CfgFor cfg T L) {ℓ : Nat} {path : List Nat} {hk : Nat}
    {e : MElemF α} (hℓ : ℓ + rr + 1 = L) (h : MElemOk T L D o Inv ℓ path hk e)
    {A : List (MKey × Elem)} {p : MKey × Elem} {B : List (MKey × Elem)} (hl : e.toList o = A ++ p :: B) :
    e.getNext io cfg ℓ p.1 = .ok (p.1, p.2, B.head?.map (·.1)) := by
  have hlev : ¬ (ℓ + 1 > cfg.L) := by rw [hc.hL]; omega
  cases e with
  | single x =>
    have hl' : [(x.key, x.val)] = A ++ p :: B := hl
    cases A with
    | nil =>
      simp only [List.nil_append, List.cons.injEq] at hl'
      obtain ⟨hp, hB⟩ := hl'
      subst hp; subst hB
      simp [MElemF.getNext, MKey.same_self]
    | cons a A => simp at hl'
  | inl g =>
    simp only [MElemF.getNext, if_neg hlev]
    exact I.getNext h.1 hl
  | ext id sz s =>
    simp only [MElemF.getNext, if_neg hlev]
    exact I.getNext h.2.2.2.2.2.1 hl

end MElemOk

/-! ### a digest table -/
namespace HInv
variable {T L : Nat} {D : DigestFn L} {cfg : MCfg} {α : Type} {o : ElemsOps α} {io : IterOps α}
  {Inv : Nat → List Nat → α → Prop} {rr : Nat} {ℓ : Nat} {path : List Nat} {he : HkeyElems α}

/-- every element of the table satisfies its invariant below some digest -/
theorem elemOk_mem (H : HInv T L D o Inv rr ℓ path he) {el : MElemF α} (hel : el ∈ he.elems) :
    ∃ hk, MElemOk T L D o Inv ℓ path hk el := by
  obtain ⟨i, hi⟩ := List.mem_iff_getElem?.mp hel
  obtain ⟨hk, hhk⟩ := H.hkey_at hi
  exact ⟨hk, H.elemOk hhk hi⟩

theorem firstKeyIn (S : OpsSpec T L D cfg o Inv rr) (I : IterSpec T L D cfg o io Inv)
    (H : HInv T L D o Inv rr ℓ path he) :
    HkeyElems.firstKeyIn io he = (HkeyElems.toList o he).head?.map (·.1) := by
  unfold HkeyElems.firstKeyIn HkeyElems.toList
  cases hh : he.elems with
  | nil => rfl
  | cons el rest =>
    obtain ⟨hk, hok⟩ := H.elemOk_mem (el := el) (by rw [hh]; simp)
    simp only
    rw [head?_flatMap_of_ne_nil _ _ _ (hok.toList_ne_nil S.toOpsStruct)]
    exact hok.firstKey I

theorem elemIterList_eq (S : OpsSpec T L D cfg o Inv rr) (I : IterSpec T L D cfg o io Inv) :
    ∀ (l : List (MElemF α)), (∀ el ∈ l, ∃ hk, MElemOk T L D o Inv ℓ path hk el) →
      HkeyElems.elemIterList io l = l.flatMap (MElemF.toList o)
  | [], _ => rfl
  | el :: rest, h => by
    obtain ⟨hk, hok⟩ := h el (by simp)
    have ih := elemIterList_eq S I rest (fun e he => h e (by simp [he]))
    have hne := hok.toList_ne_nil S.toOpsStruct
    rw [List.flatMap_cons]
    cases el with
    | single x =>
      show (x.key, x.val) :: HkeyElems.elemIterList io rest = _
      rw [ih]; rfl
    | inl g =>
      have hg : io.elemIter g = o.toList g := I.elemIter hok.1
      have hne' : o.toList g ≠ [] := hne
      unfold HkeyElems.elemIterList
      rw [hg, ih]
      cases hq : o.toList g with
      | nil => exact absurd hq hne'
      | cons q qs => simp only [MElemF.toList, hq]
    | ext id sz s =>
      have hg : io.elemIter s.elems = o.toList s.elems := I.elemIter hok.2.2.2.2.2.1
      have hne' : o.toList s.elems ≠ [] := hne
      unfold HkeyElems.elemIterList
      rw [hg, ih]
      cases hq : o.toList s.elems with
      | nil => exact absurd hq hne'
      | cons q qs => simp only [MElemF.toList, hq]

theorem elemIter_eq (S : OpsSpec T L D cfg o Inv rr) (I : IterSpec T L D cfg o io Inv)
    (H : HInv T L D o Inv rr ℓ path he) : HkeyElems.elemIter io he = HkeyElems.toList o he :=
  elemIterList_eq S I he.elems (fun _ hel => H.elemOk_mem hel)

theorem getNext (S : OpsSpec T L D cfg o Inv rr) (I : IterSpec T L D cfg o io Inv) (hc : CfgFor cfg T L)
    (H : HInv T L D o Inv rr ℓ path he) {A : List (MKey × Elem)} {p : MKey × Elem} {B : List (MKey × Elem)}
    (hl : HkeyElems.toList o he = A ++ p :: B) :
    HkeyElems.getNext io cfg he ℓ p.1 = .ok (p.1, p.2, B.head?.map (·.1)) := by
  have hlev : ¬ (ℓ ≥ cfg.L) := by rw [hc.hL]; have := H.level_lt; omega
  obtain ⟨E1, el, E2, A2, B2, hE, hel, hA, hB⟩ := flatMap_eq_append_cons _ _ _ _ _ hl
  have hi : he.elems[E1.length]? = some el := by rw [hE]; exact SingleElems.getElem?_zipper E1 E2 el
  obtain ⟨hk, hhk⟩ := H.hkey_at hi
  have hok := H.elemOk hhk hi
  have hpm : p ∈ el.toList o := by rw [hel]; simp
  have hdig : p.1.dig ℓ = hk := (H.keys_at S hhk hi p hpm).2.2
  -- the binary search finds this index
  have hsp := HkeyElems.findEq_spec (p.1.dig ℓ) H.sorted
  have hfind : HkeyElems.findEq he.hkeys (p.1.dig ℓ) 0 he.hkeys.length (he.hkeys.length + 1) = some E1.length := by
    cases hr : HkeyElems.findEq he.hkeys (p.1.dig ℓ) 0 he.hkeys.length (he.hkeys.length + 1) with
    | none =>
      rw [hr] at hsp
      exact absurd (by rw [hhk, hdig]) (hsp E1.length)
    | some j =>
      rw [hr] at hsp
      rw [hdig] at hsp
      rw [sorted_get_inj H.sorted hsp hhk]
  have hgn := hok.getNext I hc H.1 hel
  have hnext : he.elems[E1.length + 1]? = E2.head? := by
    rw [hE, List.getElem?_append_right (by omega)]
    have : E1.length + 1 - E1.length = 1 := by omega
    rw [this]
    cases E2 <;> rfl
  unfold HkeyElems.getNext
  rw [if_neg hlev, hfind]
  simp only [hi]
  show (el.getNext io cfg ℓ p.1 >>= fun r => _) = _
  rw [hgn]
  show (match B2.head?.map (·.1) with
    | some nk => (pure (p.1, p.2, some nk) : Except MErr _)
    | none => match he.elems[E1.length + 1]? with
      | some nel => pure (p.1, p.2, nel.firstKey io)
      | none => pure (p.1, p.2, none)) = _
  rw [hB]
  cases B2 with
  | cons b B2 => rfl
  | nil =>
    simp only [List.head?_nil, Option.map_none, List.nil_append, hnext]
    cases E2 with
    | nil => rfl
    | cons nel E2 =>
      simp only [List.head?_cons]
      obtain ⟨hk', hok'⟩ := H.elemOk_mem (el := nel) (by rw [hE]; simp)
      rw [head?_flatMap_of_ne_nil _ _ _ (hok'.toList_ne_nil S.toOpsStruct), hok'.firstKey I]
      rfl

theorem loaded_sub (hsub : ∀ ld e, (io.loaded ld e).Sublist (o.toList e)) (ld : SlabID → Bool)
    (he : HkeyElems α) : (HkeyElems.loadedIter io ld he).Sublist (HkeyElems.toList o he) := by
  unfold HkeyElems.loadedIter HkeyElems.toList
  refine sublist_flatMap_of _ _ _ ?_
  intro el _
  cases el with
  | single x =>
    show (x.loadedPair ld).toList.Sublist [(x.key, x.val)]
    cases h : x.loadedPair ld with
    | none => simp
    | some p => rw [loadedPair_eq h]; simp
  | inl g => exact hsub ld g
  | ext id sz s =>
    show (if ld id = true then io.loaded ld s.elems else []).Sublist (o.toList s.elems)
    split
    · exact hsub ld s.elems
    · exact List.nil_sublist _

theorem loaded_all (hall' : ∀ ld e, (∀ id, ld id = true) → io.loaded ld e = o.toList e)
    (ld : SlabID → Bool) (hall : ∀ id, ld id = true) (he : HkeyElems α) :
    HkeyElems.loadedIter io ld he = HkeyElems.toList o he := by
  unfold HkeyElems.loadedIter HkeyElems.toList
  congr 1
  funext el
  cases el with
  | single x => show (x.loadedPair ld).toList = _; rw [loadedPair_all hall]; rfl
  | inl g => exact hall' ld g hall
  | ext id sz s =>
    show (if ld id = true then io.loaded ld s.elems else []) = o.toList s.elems
    rw [if_pos (hall id)]; exact hall' ld s.elems hall

theorem iterSpec (S : OpsSpec T L D cfg o Inv rr) (I : IterSpec T L D cfg o io Inv) (hc : CfgFor cfg T L) :
    IterSpec T L D cfg (HkeyElems.ops o) (HkeyElems.iops io) (HInv T L D o Inv rr) where
  firstKey := by intro ℓ path e H; exact H.firstKeyIn S I
  elemIter := by intro ℓ path e H; exact H.elemIter_eq S I
  getNext := by intro ℓ path e A p B H hl; exact H.getNext S I hc hl
  loaded_sub := by intro ld e; exact loaded_sub I.loaded_sub ld e
  loaded_all := by intro ld e hall; exact loaded_all I.loaded_all ld hall e

end HInv

/-- The iterator operations of `MElems r` meet their specification, for every number of levels. -/
theorem MElems.iterSpec {T L : Nat} (D : DigestFn L) {cfg : MCfg} (hT : legalThreshold T = true)
    (hc : CfgFor cfg T L) : ∀ r, IterSpec T L D cfg (MElems.ops r) (MElems.iops r) (ElemsInv T L D r)
  | 0 => SingleElems.iterSpec hc
  | r + 1 => by
    rw [elemsInv_succ_eq]
    exact HInv.iterSpec (MElems.opsSpec D hT hc r) (MElems.iterSpec D hT hc r) hc

/-- the loaded-element iterator yields an in-order sublist of the pair list: every number of
    levels, every value (no invariant), every `loaded` -/
theorem MElems.loaded_sub : ∀ (r : Nat) (ld : SlabID → Bool) (e : MElems r),
    ((MElems.iops r).loaded ld e).Sublist ((MElems.ops r).toList e)
  | 0 => fun _ (e : SingleElems) => filterMap_sublist_map _ _ (fun _ _ h => loadedPair_eq h) e.elems
  | r + 1 => fun ld (e : HkeyElems (MElems r)) => HInv.loaded_sub (MElems.loaded_sub r) ld e

theorem MElems.loaded_all : ∀ (r : Nat) (ld : SlabID → Bool) (e : MElems r), (∀ id, ld id = true) →
    (MElems.iops r).loaded ld e = (MElems.ops r).toList e
  | 0 => fun _ (e : SingleElems) hall => filterMap_eq_map _ _ (loadedPair_all hall) e.elems
  | r + 1 => fun ld (e : HkeyElems (MElems r)) hall => HInv.loaded_all (MElems.loaded_all r) ld hall e

/-- bulk pop of an `elements` value hands out the pair list backwards (no invariant needed) -/
theorem MElems.popIter_fst : ∀ (r : Nat) (e : MElems r) (c : Ctx),
    ((MElems.ops r).popIter e c).1 = ((MElems.ops r).toList e).reverse
  | 0 => fun (e : SingleElems) c => by
    show e.elems.reverse.map _ = (e.elems.map _).reverse
    rw [List.map_reverse]
  | r + 1 => fun (he : HkeyElems (MElems r)) c => by
    have hel : ∀ (el : MElemF (MElems r)) c, (el.popIter (MElems.ops r) c).1 = (el.toList (MElems.ops r)).reverse := by
      intro el c
      cases el with
      | single x => rfl
      | inl g => exact MElems.popIter_fst r g c
      | ext id sz s =>
        simp only [MElemF.popIter, MElemF.toList]; exact MElems.popIter_fst r s.elems c
    have hfold : ∀ (l : List (MElemF (MElems r))) (acc : List (MKey × Elem)) (c : Ctx),
        (l.foldl (fun (acc : List (MKey × Elem) × Ctx) el =>
          ((acc.1 ++ (el.popIter (MElems.ops r) acc.2).1, (el.popIter (MElems.ops r) acc.2).2) : List (MKey × Elem) × Ctx)) (acc, c)).1
          = acc ++ l.flatMap (fun el => (el.toList (MElems.ops r)).reverse) := by
      intro l
      induction l with
      | nil => intro acc c; simp
      | cons a l ih =>
        intro acc c
        rw [List.foldl_cons, ih, hel]
        simp
    show (HkeyElems.popIter (MElems.ops r) he c).1 = (HkeyElems.toList (MElems.ops r) he).reverse
    unfold HkeyElems.popIter HkeyElems.toList
    rw [List.reverse_flatMap]
    have := hfold he.elems.reverse [] c
    simp only [List.nil_append] at this
    exact this

end Atree
