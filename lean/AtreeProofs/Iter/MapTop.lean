import AtreeProofs.Iter.MapTree
import AtreeProofs.AListLemmas
/-
  C13, maps, top level: the mutable iterator (next-key lookups), the read-only iterator (leaf chain),
  keys-only / values-only flavours, the loaded-value iterator and bulk pop, for an `OMap` satisfying
  `MapInv`.
-/
namespace Atree
namespace IterM
open Gen

variable {T r : Nat} {D : DigestFn (r + 1)} {cfg : MCfg}

theorem cfgFor_of_cfgOk {m : OMap r} (h : CfgOk cfg T m) : CfgFor cfg T (r + 1) := ⟨h.1, h.2.1⟩

/-! ### the mutable iterator -/

/-- what the iterator needs from the lookup: the pair and the key of its successor -/
def NextKeyOk (cfg : MCfg) (m : OMap r) : Prop :=
  ∀ (A : List (MKey × Elem)) (p : MKey × Elem) (B : List (MKey × Elem)), m.toList = A ++ p :: B →
    m.getElementAndNextKey cfg p.1 = .ok (p.1, p.2, B.head?.map (·.1))

theorem nextKeyOk (hT : legalThreshold T = true) (m : OMap r) (hcfg : CfgOk cfg T m) (h : MapInv T D m) :
    NextKeyOk cfg m := by
  have hc := cfgFor_of_cfgOk hcfg
  intro A p B hl
  exact getNext_spec hT hc (MElems.opsSpec D hT hc r) (MElems.iterSpec D hT hc r) m.d true m.root h.tree A p B hl

theorem mutLoop_spec (m : OMap r) (hn : NextKeyOk cfg m) :
    ∀ (B A : List (MKey × Elem)) (p : MKey × Elem) (fuel : Nat), m.toList = A ++ p :: B → B.length < fuel →
      OMap.mutLoop cfg m fuel p.1 = .ok (p :: B)
  | [], A, p, fuel, hl, hf => by
    obtain ⟨f, rfl⟩ : ∃ f, fuel = f + 1 := ⟨fuel - 1, by omega⟩
    unfold OMap.mutLoop
    rw [hn A p [] hl]
    rfl
  | b :: B, A, p, fuel, hl, hf => by
    obtain ⟨f, rfl⟩ : ∃ f, fuel = f + 1 := ⟨fuel - 1, by omega⟩
    unfold OMap.mutLoop
    rw [hn A p (b :: B) hl]
    simp only [List.head?_cons, Option.map_some]
    rw [mutLoop_spec m hn B (A ++ [p]) b f (by rw [hl]; simp) (by simp at hf; omega)]

theorem mutKeyLoop_spec (m : OMap r) (hn : NextKeyOk cfg m) :
    ∀ (B A : List (MKey × Elem)) (p : MKey × Elem) (fuel : Nat), m.toList = A ++ p :: B → B.length < fuel →
      OMap.mutKeyLoop cfg m fuel p.1 = .ok ((p :: B).map (·.1))
  | [], A, p, fuel, hl, hf => by
    obtain ⟨f, rfl⟩ : ∃ f, fuel = f + 1 := ⟨fuel - 1, by omega⟩
    unfold OMap.mutKeyLoop
    rw [hn A p [] hl]
    rfl
  | b :: B, A, p, fuel, hl, hf => by
    obtain ⟨f, rfl⟩ : ∃ f, fuel = f + 1 := ⟨fuel - 1, by omega⟩
    unfold OMap.mutKeyLoop
    rw [hn A p (b :: B) hl]
    simp only [List.head?_cons, Option.map_some]
    rw [mutKeyLoop_spec m hn B (A ++ [p]) b f (by rw [hl]; simp) (by simp at hf; omega)]
    rfl

theorem iteratorStart_spec (hT : legalThreshold T = true) (m : OMap r) (hcfg : CfgOk cfg T m) (h : MapInv T D m) :
    m.iteratorStart = .ok (m.toList.head?.map (·.1)) := by
  have hc := cfgFor_of_cfgOk hcfg
  unfold OMap.iteratorStart
  by_cases h0 : m.count = 0
  · rw [if_pos h0]
    have : m.toList = [] := List.eq_nil_of_length_eq_zero (by rw [← h.count_eq]; exact h0)
    rw [this]; rfl
  · rw [if_neg h0]
    have hfk := firstKey_spec hT (MElems.opsSpec D hT hc r) (MElems.iterSpec D hT hc r) m.d true m.root h.tree
    rw [hfk]
    have hlen : m.toList.length ≠ 0 := by rw [← h.count_eq]; exact h0
    have e : m.toList = MTree.toList m.d m.root := rfl
    rw [e] at hlen ⊢
    cases hl : MTree.toList m.d m.root with
    | nil => rw [hl] at hlen; exact absurd rfl hlen
    | cons p B => rfl

/-- `Iterate`: the `getElementAndNextKey`-driven iteration visits exactly `toList`. -/
theorem iterMutable_eq (hT : legalThreshold T = true) (m : OMap r) (hcfg : CfgOk cfg T m) (h : MapInv T D m) :
    m.iterMutable cfg = .ok m.toList := by
  unfold OMap.iterMutable
  rw [iteratorStart_spec hT m hcfg h]
  cases hl : m.toList with
  | nil => rfl
  | cons p B =>
    simp only [List.head?_cons, Option.map_some]
    exact mutLoop_spec m (nextKeyOk hT m hcfg h) B [] p (m.count + 1) hl (by
      rw [h.count_eq, hl]; simp only [List.length_cons]; omega)

theorem iterMutableKeys_eq (hT : legalThreshold T = true) (m : OMap r) (hcfg : CfgOk cfg T m) (h : MapInv T D m) :
    m.iterMutableKeys cfg = .ok (m.toList.map (·.1)) := by
  unfold OMap.iterMutableKeys
  rw [iteratorStart_spec hT m hcfg h]
  cases hl : m.toList with
  | nil => rfl
  | cons p B =>
    simp only [List.head?_cons, Option.map_some]
    exact mutKeyLoop_spec m (nextKeyOk hT m hcfg h) B [] p (m.count + 1) hl (by
      rw [h.count_eq, hl]; simp only [List.length_cons]; omega)

theorem iterMutableValues_eq (hT : legalThreshold T = true) (m : OMap r) (hcfg : CfgOk cfg T m) (h : MapInv T D m) :
    m.iterMutableValues cfg = .ok (m.toList.map (·.2)) := by
  unfold OMap.iterMutableValues
  rw [iterMutable_eq hT m hcfg h]

/-! ### the read-only iterator -/

theorem find?_next {α : Type} (id : α → SlabID) (pre rest : List α) (cur nxt : α)
    (hnd : ((pre ++ cur :: nxt :: rest).map id).Nodup) :
    (pre ++ cur :: nxt :: rest).find? (fun s => id s == id nxt) = some nxt := by
  have hne : ∀ s ∈ pre ++ [cur], id s ≠ id nxt := by
    intro s hs heq
    have : (pre ++ cur :: nxt :: rest).map id = (pre ++ [cur]).map id ++ id nxt :: rest.map id := by simp
    rw [this, List.nodup_append] at hnd
    exact hnd.2.2 (id s) (List.mem_map.2 ⟨s, hs, rfl⟩) (id nxt) (by simp) heq
  have hsplit : pre ++ cur :: nxt :: rest = (pre ++ [cur]) ++ nxt :: rest := by simp
  rw [hsplit]
  generalize pre ++ [cur] = P at hne
  induction P with
  | nil => simp
  | cons p P ih =>
    have hp : (id p == id nxt) = false := by simpa using hne p (by simp)
    simp only [List.cons_append, List.find?_cons, hp]
    exact ih (fun s hs => hne s (by simp [hs]))

theorem flatMap_congr' {α β : Type} {f g : α → List β} : ∀ {l : List α}, (∀ x ∈ l, f x = g x) →
    l.flatMap f = l.flatMap g
  | [], _ => rfl
  | x :: l, h => by
    rw [List.flatMap_cons, List.flatMap_cons, h x (by simp), flatMap_congr' (fun y hy => h y (by simp [hy]))]

abbrev leafIter (s : MDataSlab r) : List (MKey × Elem) := HkeyElems.elemIter (MElems.iops r) s.elems

theorem roIterFrom_spec : ∀ (rest pre : List (MDataSlab r)) (cur : MDataSlab r) (fuel : Nat),
    MLeafChain (cur :: rest) → ((pre ++ cur :: rest).map (·.hdr.id)).Nodup →
    (∀ s ∈ pre ++ cur :: rest, s.hdr.id ≠ SlabID.undef) → rest.length + 1 ≤ fuel →
    OMap.roIterFrom (pre ++ cur :: rest) fuel cur = .ok ((cur :: rest).flatMap leafIter)
  | [], pre, cur, fuel, hchain, _, _, hfuel => by
    obtain ⟨f, rfl⟩ : ∃ f, fuel = f + 1 := ⟨fuel - 1, by simp at hfuel; omega⟩
    have hnext : cur.next = SlabID.undef := hchain
    unfold OMap.roIterFrom
    simp [hnext, leafIter]
  | nxt :: rest, pre, cur, fuel, hchain, hnd, hdef, hfuel => by
    obtain ⟨f, rfl⟩ : ∃ f, fuel = f + 1 := ⟨fuel - 1, by simp at hfuel; omega⟩
    obtain ⟨hnext, hchain'⟩ : cur.next = nxt.hdr.id ∧ MLeafChain (nxt :: rest) := hchain
    have hnu : ¬ nxt.hdr.id = SlabID.undef := hdef nxt (by simp)
    have hsplit : pre ++ cur :: nxt :: rest = (pre ++ [cur]) ++ nxt :: rest := by simp
    unfold OMap.roIterFrom
    simp only [hnext, hnu, if_false]
    rw [find?_next (fun s : MDataSlab r => s.hdr.id) pre rest cur nxt hnd]
    simp only
    rw [hsplit, roIterFrom_spec rest (pre ++ [cur]) nxt f hchain' (by rw [← hsplit]; exact hnd)
      (by rw [← hsplit]; exact hdef) (by simp at hfuel ⊢; omega)]
    simp [leafIter]

theorem toList_eq_leaves : ∀ (d : Nat) (t : MTree r d),
    MTree.toList d t = (MTree.dataSlabs d t).flatMap leafList
  | 0, t => by refine forall_ofD ?_ t; intro s; simp
  | d + 1, t => by
    refine forall_ofM ?_ t; intro m
    rw [toList_succ, dataSlabs_succ, List.flatMap_assoc]
    congr 1; funext c; exact toList_eq_leaves d c

theorem leaf_inv : ∀ (d : Nat) (top : Bool) (t : MTree r d), MTreeInv T D d top t →
    ∀ s ∈ MTree.dataSlabs d t, ∃ top', MDataInv T D top' s
  | 0, top, t => by
    refine forall_ofD ?_ t; intro s h s' hs'
    simp only [dataSlabs_zero, List.mem_singleton] at hs'
    rw [hs']
    exact ⟨top, (inv_zero D top s).1 h⟩
  | d + 1, top, t => by
    refine forall_ofM ?_ t; intro m h s hs
    have F := inv_succ D d top m h
    rw [dataSlabs_succ] at hs
    obtain ⟨c, hc, hsc⟩ := List.mem_flatMap.1 hs
    exact leaf_inv d false c (F.kids_inv c hc) s hsc

theorem firstDataSlab_spec (hT : legalThreshold T = true) : ∀ (d : Nat) (top : Bool) (t : MTree r d),
    MTreeInv T D d top t → ∃ s rest, MTree.dataSlabs d t = s :: rest ∧ MTree.firstDataSlab d t = .ok s
  | 0, top, t => by
    refine forall_ofD ?_ t; intro s _
    exact ⟨s, [], rfl, rfl⟩
  | d + 1, top, t => by
    refine forall_ofM ?_ t; intro m h
    have F := inv_succ D d top m h
    have hpos := F.kids_pos hT
    cases hh : m.children with
    | nil => rw [hh] at hpos; simp at hpos
    | cons c cs =>
      have hhd : m.childHdrs = MTree.hdr d c :: cs.map (MTree.hdr d) := by rw [F.hdrs_eq, hh]; rfl
      obtain ⟨s, rest, h1, h2⟩ := firstDataSlab_spec hT d false c (F.kids_inv c (by rw [hh]; simp))
      refine ⟨s, rest ++ cs.flatMap (MTree.dataSlabs d), ?_, ?_⟩
      · rw [dataSlabs_succ, hh, List.flatMap_cons, h1]; rfl
      · rw [firstDataSlab_succ m _ _ c cs hhd hh, h2]

theorem leafIdsOk_iff (m : OMap r) : m.leafIdsOk = true ↔
    ((MTree.dataSlabs m.d m.root).map (·.hdr.id)).Nodup ∧
    ∀ s ∈ MTree.dataSlabs m.d m.root, s.hdr.id ≠ SlabID.undef := by
  unfold OMap.leafIdsOk
  simp only [decide_eq_true_eq, List.mem_map, forall_exists_index, and_imp, forall_apply_eq_imp_iff₂]

/-- `IterateReadOnly`: walking the `next` links of the data slabs and the nested collision groups
    yields `toList`. -/
theorem iterReadOnly_eq (hT : legalThreshold T = true) (m : OMap r) (hcfg : CfgOk cfg T m) (h : MapInv T D m)
    (hids : m.leafIdsOk = true) : m.iterReadOnly = .ok m.toList := by
  have hc := cfgFor_of_cfgOk hcfg
  obtain ⟨hnd, hdef⟩ := (leafIdsOk_iff m).1 hids
  unfold OMap.iterReadOnly
  by_cases h0 : m.count = 0
  · rw [if_pos h0]
    have : m.toList = [] := List.eq_nil_of_length_eq_zero (by rw [← h.count_eq]; exact h0)
    rw [this]
  · rw [if_neg h0]
    obtain ⟨s, rest, hl, hf⟩ := firstDataSlab_spec hT m.d true m.root h.tree
    show (MTree.firstDataSlab m.d m.root >>= fun first =>
      OMap.roIterFrom (MTree.dataSlabs m.d m.root) ((MTree.dataSlabs m.d m.root).length + 1) first) = _
    rw [hf]
    show OMap.roIterFrom (MTree.dataSlabs m.d m.root) ((MTree.dataSlabs m.d m.root).length + 1) s = _
    have hchain : MLeafChain (MTree.dataSlabs m.d m.root) := by rw [dataSlabs_eq_leaves]; exact h.chain
    rw [hl] at hnd hdef hchain
    have := roIterFrom_spec rest [] s ((s :: rest).length + 1) hchain (by simpa using hnd)
      (by simpa using hdef) (by simp)
    rw [List.nil_append] at this
    rw [hl, this]
    congr 1
    show _ = MTree.toList m.d m.root
    rw [toList_eq_leaves, hl]
    apply flatMap_congr'
    intro x hx
    obtain ⟨top', hx'⟩ := leaf_inv m.d true m.root h.tree x (by rw [hl]; exact hx)
    exact (leaf_hinv hx').elemIter_eq (MElems.opsSpec D hT hc r) (MElems.iterSpec D hT hc r)

/-! ### the loaded-value iterator -/

theorem iterLoaded_zero (ld : SlabID → Bool) (s : MDataSlab r) :
    MTree.iterLoaded ld 0 (ofD s) = HkeyElems.loadedIter (MElems.iops r) ld s.elems := rfl

theorem iterLoaded_succ (ld : SlabID → Bool) (d : Nat) (m : MMetaSlab (MTree r d)) :
    MTree.iterLoaded ld (d + 1) (ofM m) =
      (m.childHdrs.zip m.children).flatMap (fun hc => if ld hc.1.id then MTree.iterLoaded ld d hc.2 else []) := rfl

theorem zip_flatMap_sublist {α β γ : Type} (f : α × β → List γ) (g : β → List γ) :
    ∀ (hs : List α) (cs : List β), (∀ h c, c ∈ cs → (f (h, c)).Sublist (g c)) →
      ((hs.zip cs).flatMap f).Sublist (cs.flatMap g)
  | [], cs, _ => by simp
  | _ :: _, [], _ => by simp
  | h :: hs, c :: cs, hf => by
    simp only [List.zip_cons_cons, List.flatMap_cons]
    exact List.Sublist.append (hf h c (by simp))
      (zip_flatMap_sublist f g hs cs (fun h' c' hc' => hf h' c' (by simp [hc'])))

theorem zip_map_flatMap {α β γ : Type} (k : β → α) (f : α × β → List γ) (g : β → List γ) :
    ∀ (cs : List β), (∀ c ∈ cs, f (k c, c) = g c) → ((cs.map k).zip cs).flatMap f = cs.flatMap g
  | [], _ => rfl
  | c :: cs, hf => by
    simp only [List.map_cons, List.zip_cons_cons, List.flatMap_cons]
    rw [hf c (by simp), zip_map_flatMap k f g cs (fun c' hc' => hf c' (by simp [hc']))]

/-- ANY loaded predicate, ANY tree: an in-order sublist of the enumeration -/
theorem iterLoaded_sublist (ld : SlabID → Bool) : ∀ (d : Nat) (t : MTree r d),
    (MTree.iterLoaded ld d t).Sublist (MTree.toList d t)
  | 0, t => by
    refine forall_ofD ?_ t; intro s
    rw [iterLoaded_zero, toList_zero]
    exact HInv.loaded_sub (MElems.loaded_sub r) ld s.elems
  | d + 1, t => by
    refine forall_ofM ?_ t; intro m
    rw [iterLoaded_succ, toList_succ]
    refine zip_flatMap_sublist _ _ _ _ ?_
    intro h c _
    by_cases hl : ld h.id = true
    · simp only [hl, if_true]; exact iterLoaded_sublist ld d c
    · simp only [hl]; exact List.nil_sublist _

theorem iterLoaded_all {ld : SlabID → Bool} (hall : ∀ id, ld id = true) :
    ∀ (d : Nat) (top : Bool) (t : MTree r d), MTreeInv T D d top t → MTree.iterLoaded ld d t = MTree.toList d t
  | 0, _, t, _ => by
    refine forall_ofD ?_ t; intro s
    rw [iterLoaded_zero, toList_zero]
    exact HInv.loaded_all (MElems.loaded_all r) ld hall s.elems
  | d + 1, top, t, h => by
    revert h; refine forall_ofM ?_ t; intro m h
    have F := inv_succ D d top m h
    rw [iterLoaded_succ, toList_succ, F.hdrs_eq]
    refine zip_map_flatMap _ _ _ _ ?_
    intro c hc
    simp only [hall, if_true]
    exact iterLoaded_all hall d false c (F.kids_inv c hc)

/-! ### bulk pop -/

theorem popIterate_fst : ∀ (d : Nat) (t : MTree r d) (c : Ctx),
    (MTree.popIterate d t c).1 = (MTree.toList d t).reverse
  | 0, t, c => by
    refine forall_ofD ?_ t; intro s
    show (HkeyElems.popIter (MElems.ops r) s.elems c).1 = _
    exact MElems.popIter_fst (r + 1) s.elems c
  | d + 1, t, c => by
    refine forall_ofM ?_ t; intro m
    have key : ∀ (L : List (MTree r d)) (acc : List (MKey × Elem) × Ctx),
        (L.foldl (fun (acc : List (MKey × Elem) × Ctx) child =>
          (acc.1 ++ (MTree.popIterate d child acc.2).1,
           (MTree.popIterate d child acc.2).2.2.emit (.remove (MTree.hdr d child).id))) acc).1
          = acc.1 ++ L.flatMap (fun ch => (MTree.toList d ch).reverse) := by
      intro L
      induction L with
      | nil => intro acc; simp
      | cons x L ih =>
        intro acc
        simp only [List.foldl_cons, List.flatMap_cons]
        rw [ih, popIterate_fst d x acc.2]
        simp
    show (m.children.reverse.foldl _ ([], c)).1 = _
    rw [key m.children.reverse ([], c), toList_succ, List.reverse_flatMap]
    rfl

end IterM
end Atree
