import AtreeProofs.Codec.DM
import AtreeProofs.Codec.CborLemmas
/-
  `Safe` (no panic, allocation bound, post-condition) for every transcribed decoder function,
  bottom-up, ending with `safe_decodeSlabFlat`.  The bounds conditions of the slice expressions are
  discharged from the length checks the Go code makes first and from the CBOR library's contract
  (`DecInv`, `decodeArrayHead_new_bound`).
-/
namespace Atree.Codec
open DM Atree.Gen

theorem safe_newHeadFromData (d : Bytes) : Safe (newHeadFromData d) 0 (fun _ => True) := by
  unfold newHeadFromData
  split
  · exact Safe.pure trivial
  · exact Safe.fail

theorem safe_headOf (data : Bytes) : Safe (headOf data) 0 (fun _ => True) := by
  unfold headOf
  apply Safe.ite
  · intro _; exact Safe.fail
  · intro h
    exact Safe.bind' (Safe.sliceTo (Nat.le_of_not_lt h)) (fun _ _ => safe_newHeadFromData _) (Nat.le_refl _)

theorem safe_newSlabIDFromRawBytes (b : Bytes) : Safe (newSlabIDFromRawBytes b) 0 (fun _ => True) := by
  unfold newSlabIDFromRawBytes
  apply Safe.ite
  · intro _; exact Safe.fail
  · intro h
    have h8 : SlabAddressLength ≤ b.length := by
      simp only [SlabIDLength, SlabAddressLength] at *; omega
    exact Safe.bind' (Safe.sliceFrom h8) (fun _ _ => Safe.pure trivial) (Nat.le_refl _)

theorem safe_decodeSlabIDStorable {t : Nat} {d : Dec} (hi : DecInv t d) :
    Safe (decodeSlabIDStorable d) 0 (fun r => DecInv t r.2) := by
  unfold decodeSlabIDStorable
  refine Safe.bind0 (Safe.liftOpt _) ?_
  intro ⟨b, d'⟩ hb
  dsimp only
  refine Safe.bind0 (safe_newSlabIDFromRawBytes b) ?_
  intro id _
  exact Safe.pure (decodeBytes_inv hi hb).1

theorem safe_decodeElem {t : Nat} {d : Dec} (hi : DecInv t d) :
    Safe (decodeElem d) 0 (fun r => DecInv t r.2) := by
  unfold decodeElem
  refine Safe.bind0 (Safe.liftOpt _) ?_
  intro ⟨ty, d1⟩ h1
  have hi1 := nextType_inv hi h1
  dsimp only
  split
  · refine Safe.bind0 (Safe.liftOpt _) ?_
    intro ⟨b, d2⟩ h2
    exact Safe.pure (decodeBytes_inv hi1 h2).1
  · refine Safe.bind0 (Safe.liftOpt _) ?_
    intro ⟨n, d2⟩ h2
    have hi2 := decodeHeadOf_inv hi1 h2
    dsimp only
    repeat' apply Safe.ite <;> intro _
    · exact Safe.fail
    · exact safe_decodeSlabIDStorable hi2
    · refine Safe.bind0 (Safe.liftOpt _) ?_
      intro ⟨b, d3⟩ h3
      exact Safe.pure (decodeBytes_inv hi2 h3).1
    · exact Safe.fail
    · exact Safe.fail
  · exact Safe.fail

theorem safe_decodeTypeInfo {t : Nat} {d : Dec} (hi : DecInv t d) :
    Safe (decodeTypeInfo d) 0 (fun r => DecInv t r.2) := by
  unfold decodeTypeInfo
  refine Safe.bind0 (Safe.liftOpt _) ?_
  intro ⟨ty, d1⟩ h1
  have hi1 := nextType_inv hi h1
  dsimp only
  apply Safe.ite <;> intro _
  · refine Safe.bind0 (Safe.liftOpt _) ?_
    intro ⟨n, d2⟩ h2
    have hi2 := decodeHeadOf_inv hi1 h2
    dsimp only
    apply Safe.ite <;> intro _
    · exact Safe.fail
    · refine Safe.bind0 (Safe.liftOpt _) ?_
      intro ⟨v, d3⟩ h3
      exact Safe.pure (decodeHeadOf_inv hi2 h3)
  · refine Safe.bind0 (Safe.liftOpt _) ?_
    intro ⟨v, d3⟩ h3
    exact Safe.pure (decodeHeadOf_inv hi1 h3)

theorem safe_newArrayExtraData {t : Nat} {d : Dec} (hi : DecInv t d) :
    Safe (newArrayExtraData d) 0 (fun r => DecInv t r.2) := by
  unfold newArrayExtraData
  refine Safe.bind0 (Safe.liftOpt _) ?_
  intro ⟨n, d1⟩ h1
  have hi1 := decodeHeadOf_inv hi h1
  dsimp only
  apply Safe.ite <;> intro _
  · exact Safe.fail
  · exact safe_decodeTypeInfo hi1

theorem safe_newArrayExtraDataFromData (data : Bytes) :
    Safe (newArrayExtraDataFromData data) 0 (fun r => r.2.length ≤ data.length) := by
  unfold newArrayExtraDataFromData
  refine Safe.bind0 (safe_newArrayExtraData (DecInv.new data)) ?_
  intro ⟨ty, d⟩ hd
  dsimp only at hd ⊢
  refine Safe.bind0 (Safe.sliceFrom hd.consumed_le) ?_
  intro rest hr
  refine Safe.pure ?_
  subst hr
  simp only [List.length_drop]; omega

theorem safe_decodeElems {t : Nat} : ∀ (n : Nat) (d : Dec) (size : Nat), DecInv t d →
    Safe (decodeElems n d size) 0 (fun r => DecInv t r.2.2) := by
  intro n
  induction n with
  | zero => intro d size hi; unfold decodeElems; exact Safe.pure hi
  | succ n ih =>
    intro d size hi
    unfold decodeElems
    refine Safe.bind0 (safe_decodeElem hi) ?_
    intro ⟨e, d1⟩ h1
    dsimp only at h1 ⊢
    apply Safe.ite <;> intro _
    · exact Safe.fail
    · refine Safe.bind0 (ih d1 _ h1) ?_
      intro ⟨es, sz, d2⟩ h2
      exact Safe.pure h2

theorem safe_decodeDataContent (id : SlabID) (isRoot : Bool) (ty : Option TyInfo) (next : SlabID)
    (checkEOF : Bool) (data : Bytes) :
    Safe (decodeDataContent id isRoot ty next checkEOF data) data.length (fun _ => True) := by
  unfold decodeDataContent
  apply Safe.ite <;> intro _
  · exact Safe.weaken Safe.fail (Nat.zero_le _) (fun _ h => h)
  · refine Safe.bind0 (Safe.liftOpt _) ?_
    intro ⟨n, d1⟩ h1
    have hb := decodeArrayHead_new_bound h1
    have hi1 : DecInv data.length d1 := decodeHeadOf_inv (DecInv.new data) h1
    dsimp only
    apply Safe.ite <;> intro _
    · exact Safe.weaken Safe.fail (Nat.zero_le _) (fun _ h => h)
    · refine Safe.bind' (Safe.alloc n) ?_ (k2 := 0) (by omega)
      intro _ _
      refine Safe.bind0 (safe_decodeElems n d1 _ hi1) ?_
      intro r _
      unfold finishData
      apply Safe.ite <;> intro _
      · exact Safe.fail
      · exact Safe.pure trivial

theorem safe_failK {α : Type} {e : DErr} {k : Nat} {P : α → Prop} : Safe (DM.fail e : DM α) k P :=
  Safe.weaken Safe.fail (Nat.zero_le _) (fun _ h => h)

theorem safe_newArrayDataSlabFromDataV0 (id : SlabID) (h : SlabHead) (data : Bytes) :
    Safe (newArrayDataSlabFromDataV0 id h data) data.length (fun _ => True) := by
  unfold newArrayDataSlabFromDataV0
  apply Safe.ite <;> intro _
  · refine Safe.bind0 (safe_newArrayExtraDataFromData data) ?_
    intro ⟨ty, rest⟩ hr
    dsimp only at hr ⊢
    apply Safe.ite <;> intro hlen
    · exact safe_failK
    · refine Safe.bind0 (Safe.sliceFrom (Nat.le_of_not_lt hlen)) ?_
      intro rest2 h2
      refine Safe.weaken (safe_decodeDataContent _ _ _ _ _ _) ?_ (fun _ h => h)
      subst h2; simp only [List.length_drop]; omega
  · apply Safe.ite <;> intro hlen
    · exact safe_failK
    · refine Safe.bind0 (safe_newSlabIDFromRawBytes data) ?_
      intro next _
      refine Safe.bind0 (Safe.sliceFrom (Nat.le_of_not_lt hlen)) ?_
      intro rest2 h2
      refine Safe.weaken (safe_decodeDataContent _ _ _ _ _ _) ?_ (fun _ h => h)
      subst h2; simp only [List.length_drop]; omega

theorem safe_dataV1AfterExtra (id : SlabID) (h : SlabHead) (ty : Option TyInfo) (data : Bytes) :
    Safe (dataV1AfterExtra id h ty data) data.length (fun _ => True) := by
  unfold dataV1AfterExtra
  apply Safe.ite <;> intro _
  · exact safe_failK
  · apply Safe.ite <;> intro _
    · -- `NewSlabIDFromRawBytes` has checked `len(data) >= SlabIDLength` before `data[SlabIDLength:]`
      unfold newSlabIDFromRawBytes
      by_cases hlen : data.length < SlabIDLength
      · rw [if_pos hlen]
        refine Safe.bind0 (P := fun _ => False) safe_failK ?_
        intro _ hf; exact hf.elim
      · rw [if_neg hlen]
        have h8 : SlabAddressLength ≤ data.length := by
          simp only [SlabIDLength, SlabAddressLength] at *; omega
        refine Safe.bind0 (Safe.bind0 (Safe.sliceFrom h8) (fun _ _ => Safe.pure (P := fun _ => True) trivial)) ?_
        intro next _
        refine Safe.bind0 (Safe.sliceFrom (Nat.le_of_not_lt hlen)) ?_
        intro rest2 h2
        refine Safe.weaken (safe_decodeDataContent _ _ _ _ _ _) ?_ (fun _ h => h)
        subst h2; simp only [List.length_drop]; omega
    · exact safe_decodeDataContent _ _ _ _ _ _

theorem safe_newArrayDataSlabFromDataV1 (id : SlabID) (h : SlabHead) (data : Bytes) :
    Safe (newArrayDataSlabFromDataV1 id h data) data.length (fun _ => True) := by
  unfold newArrayDataSlabFromDataV1
  apply Safe.ite <;> intro _
  · refine Safe.bind0 (safe_newArrayExtraDataFromData data) ?_
    intro ⟨ty, rest⟩ hr
    dsimp only at hr ⊢
    exact Safe.weaken (safe_dataV1AfterExtra _ _ _ _) hr (fun _ h => h)
  · exact safe_dataV1AfterExtra _ _ _ _

theorem safe_newArrayDataSlabFromData (id : SlabID) (data : Bytes) :
    Safe (newArrayDataSlabFromData id data) data.length (fun _ => True) := by
  unfold newArrayDataSlabFromData
  apply Safe.ite <;> intro hlen
  · exact safe_failK
  · refine Safe.bind0 (Safe.sliceTo (Nat.le_of_not_lt hlen)) ?_
    intro hb _
    refine Safe.bind0 (safe_newHeadFromData hb) ?_
    intro h _
    apply Safe.ite <;> intro _
    · exact safe_failK
    · refine Safe.bind0 (Safe.sliceFrom (Nat.le_of_not_lt hlen)) ?_
      intro rest hr
      have hle : rest.length ≤ data.length := by subst hr; simp only [List.length_drop]; omega
      apply Safe.ite <;> intro _
      · exact Safe.weaken (safe_newArrayDataSlabFromDataV0 _ _ _) hle (fun _ h => h)
      · apply Safe.ite <;> intro _
        · exact Safe.weaken (safe_newArrayDataSlabFromDataV1 _ _ _) hle (fun _ h => h)
        · exact safe_failK

theorem safe_metaLoopV0 (data : Bytes) : ∀ (n offset total : Nat),
    offset + newArrayMetaDataSlabFromDataV0_arraySlabHeaderSizeV0 * n ≤ data.length →
    Safe (metaLoopV0 data n offset total) 0 (fun _ => True) := by
  intro n
  induction n with
  | zero => intro offset total _; unfold metaLoopV0; exact Safe.pure trivial
  | succ n ih =>
    intro offset total hb
    simp only [newArrayMetaDataSlabFromDataV0_arraySlabHeaderSizeV0] at hb
    unfold metaLoopV0
    refine Safe.bind0 (Safe.sliceFrom (by omega)) ?_
    intro b _
    refine Safe.bind0 (safe_newSlabIDFromRawBytes b) ?_
    intro sid _
    refine Safe.bind0 (Safe.sliceFrom (by simp only [SlabIDLength]; omega)) ?_
    intro cb hcb
    refine Safe.bind0 (Safe.be32 (by subst hcb; simp only [List.length_drop, SlabIDLength]; omega)) ?_
    intro count _
    refine Safe.bind0 (Safe.sliceFrom (by simp only [SlabIDLength]; omega)) ?_
    intro sb hsb
    refine Safe.bind0 (Safe.be32 (by subst hsb; simp only [List.length_drop, SlabIDLength]; omega)) ?_
    intro size _
    apply Safe.ite <;> intro _
    · exact Safe.fail
    · refine Safe.bind0 (ih _ _ (by simp only [newArrayMetaDataSlabFromDataV0_arraySlabHeaderSizeV0]; omega)) ?_
      intro ⟨hs, sums⟩ _
      exact Safe.pure trivial

theorem safe_metaLoopV1 (data : Bytes) (addr : Nat) : ∀ (n offset total : Nat),
    offset + arraySlabHeaderSize * n ≤ data.length →
    Safe (metaLoopV1 data addr n offset total) 0 (fun _ => True) := by
  intro n
  induction n with
  | zero => intro offset total _; unfold metaLoopV1; exact Safe.pure trivial
  | succ n ih =>
    intro offset total hb
    simp only [arraySlabHeaderSize] at hb
    unfold metaLoopV1
    refine Safe.bind0 (Safe.sliceFrom (by omega)) ?_
    intro ib _
    refine Safe.bind0 (Safe.sliceFrom (by simp only [SlabIndexLength]; omega)) ?_
    intro cb hcb
    refine Safe.bind0 (Safe.be32 (by subst hcb; simp only [List.length_drop, SlabIndexLength]; omega)) ?_
    intro count _
    refine Safe.bind0 (Safe.sliceFrom (by simp only [SlabIndexLength]; omega)) ?_
    intro sb hsb
    refine Safe.bind0 (Safe.be16 (by subst hsb; simp only [List.length_drop, SlabIndexLength]; omega)) ?_
    intro size _
    apply Safe.ite <;> intro _
    · exact Safe.fail
    · refine Safe.bind0 (ih _ _ (by simp only [arraySlabHeaderSize, SlabIndexLength]; omega)) ?_
      intro ⟨hs, sums⟩ _
      exact Safe.pure trivial

theorem safe_metaV0AfterExtra (id : SlabID) (ty : Option TyInfo) (data : Bytes) :
    Safe (metaV0AfterExtra id ty data) data.length (fun _ => True) := by
  unfold metaV0AfterExtra
  apply Safe.ite <;> intro hlen
  · exact safe_failK
  · simp only [newArrayMetaDataSlabFromDataV0_arrayMetaDataArrayHeadSizeV0] at hlen
    refine Safe.bind0 (Safe.be16 (by omega)) ?_
    intro cnt _
    refine Safe.bind0 (Safe.sliceFrom (by simp only [newArrayMetaDataSlabFromDataV0_arrayMetaDataArrayHeadSizeV0]; omega)) ?_
    intro rest hr
    apply Safe.ite <;> intro hne
    · exact safe_failK
    · have heq : rest.length = newArrayMetaDataSlabFromDataV0_arraySlabHeaderSizeV0 * cnt := by
        simpa using hne
      have hrl : rest.length ≤ data.length := by subst hr; simp only [List.length_drop]; omega
      have h24 : 2 * cnt ≤ data.length := by
        simp only [newArrayMetaDataSlabFromDataV0_arraySlabHeaderSizeV0] at heq; omega
      refine Safe.bind' (Safe.alloc cnt) (k2 := cnt) ?_ (by omega)
      intro _ _
      refine Safe.bind' (Safe.alloc cnt) (k2 := 0) ?_ (by omega)
      intro _ _
      refine Safe.bind0 (safe_metaLoopV0 rest cnt 0 0 (by omega)) ?_
      intro ⟨hs, sums⟩ _
      exact Safe.pure trivial

theorem safe_newArrayMetaDataSlabFromDataV0 (id : SlabID) (h : SlabHead) (data : Bytes) :
    Safe (newArrayMetaDataSlabFromDataV0 id h data) data.length (fun _ => True) := by
  unfold newArrayMetaDataSlabFromDataV0
  apply Safe.ite <;> intro _
  · refine Safe.bind0 (safe_newArrayExtraDataFromData data) ?_
    intro ⟨ty, rest⟩ hr
    dsimp only at hr ⊢
    apply Safe.ite <;> intro hlen
    · exact safe_failK
    · refine Safe.bind0 (Safe.sliceFrom (Nat.le_of_not_lt hlen)) ?_
      intro rest2 h2
      refine Safe.weaken (safe_metaV0AfterExtra _ _ _) ?_ (fun _ h => h)
      subst h2; simp only [List.length_drop]; omega
  · exact safe_metaV0AfterExtra _ _ _

theorem safe_metaV1AfterExtra (id : SlabID) (ty : Option TyInfo) (data : Bytes) :
    Safe (metaV1AfterExtra id ty data) data.length (fun _ => True) := by
  unfold metaV1AfterExtra
  apply Safe.ite <;> intro hlen
  · exact safe_failK
  · simp only [arrayMetaDataSlabPrefixSize, versionAndFlagSize] at hlen
    refine Safe.bind0 (Safe.sliceFrom (Nat.zero_le _)) ?_
    intro ab _
    refine Safe.bind0 (Safe.sliceFrom (by simp only [SlabAddressLength]; omega)) ?_
    intro cb hcb
    refine Safe.bind0 (Safe.be16 (by subst hcb; simp only [List.length_drop, SlabAddressLength]; omega)) ?_
    intro cnt _
    refine Safe.bind0 (Safe.sliceFrom (by
      simp only [SlabAddressLength, newArrayMetaDataSlabFromDataV1_arrayHeaderSize]; omega)) ?_
    intro tail ht
    apply Safe.ite <;> intro hne
    · exact safe_failK
    · have heq : tail.length = arraySlabHeaderSize * cnt := by simpa using hne
      have htl : tail.length + 10 = data.length := by
        subst ht
        simp only [List.length_drop, SlabAddressLength, newArrayMetaDataSlabFromDataV1_arrayHeaderSize]
        omega
      have h14 : 2 * cnt ≤ data.length := by
        simp only [arraySlabHeaderSize] at heq; omega
      refine Safe.bind' (Safe.alloc cnt) (k2 := cnt) ?_ (by omega)
      intro _ _
      refine Safe.bind' (Safe.alloc cnt) (k2 := 0) ?_ (by omega)
      intro _ _
      refine Safe.bind0 (safe_metaLoopV1 data _ cnt _ 0 (by
        simp only [SlabAddressLength, newArrayMetaDataSlabFromDataV1_arrayHeaderSize]; omega)) ?_
      intro ⟨hs, sums⟩ _
      exact Safe.pure trivial

theorem safe_newArrayMetaDataSlabFromDataV1 (id : SlabID) (h : SlabHead) (data : Bytes) :
    Safe (newArrayMetaDataSlabFromDataV1 id h data) data.length (fun _ => True) := by
  unfold newArrayMetaDataSlabFromDataV1
  apply Safe.ite <;> intro _
  · refine Safe.bind0 (safe_newArrayExtraDataFromData data) ?_
    intro ⟨ty, rest⟩ hr
    dsimp only at hr ⊢
    exact Safe.weaken (safe_metaV1AfterExtra _ _ _) hr (fun _ h => h)
  · exact safe_metaV1AfterExtra _ _ _

theorem safe_newArrayMetaDataSlabFromData (id : SlabID) (data : Bytes) :
    Safe (newArrayMetaDataSlabFromData id data) data.length (fun _ => True) := by
  unfold newArrayMetaDataSlabFromData
  apply Safe.ite <;> intro hlen
  · exact safe_failK
  · refine Safe.bind0 (Safe.sliceTo (Nat.le_of_not_lt hlen)) ?_
    intro hb _
    refine Safe.bind0 (safe_newHeadFromData hb) ?_
    intro h _
    apply Safe.ite <;> intro _
    · exact safe_failK
    · refine Safe.bind0 (Safe.sliceFrom (Nat.le_of_not_lt hlen)) ?_
      intro rest hr
      have hle : rest.length ≤ data.length := by subst hr; simp only [List.length_drop]; omega
      apply Safe.ite <;> intro _
      · exact Safe.weaken (safe_newArrayMetaDataSlabFromDataV0 _ _ _) hle (fun _ h => h)
      · apply Safe.ite <;> intro _
        · exact Safe.weaken (safe_newArrayMetaDataSlabFromDataV1 _ _ _) hle (fun _ h => h)
        · exact safe_failK

/-- `DecodeSlab` never panics and allocates at most one slice element per input byte. -/
theorem safe_decodeSlabFlat (id : SlabID) (data : Bytes) :
    Safe (decodeSlabFlat id data) data.length (fun _ => True) := by
  unfold decodeSlabFlat
  apply Safe.ite <;> intro hlen
  · exact safe_failK
  · refine Safe.bind0 (Safe.sliceTo (Nat.le_of_not_lt hlen)) ?_
    intro hb _
    refine Safe.bind0 (safe_newHeadFromData hb) ?_
    intro h _
    split
    · split
      · exact safe_newArrayDataSlabFromData id data
      · exact safe_newArrayMetaDataSlabFromData id data
      · exact safe_failK
    · exact safe_failK
    · refine Safe.bind0 (Safe.sliceFrom (Nat.le_of_not_lt hlen)) ?_
      intro rest _
      refine Safe.bind0 (Safe.weaken (safe_decodeElem (DecInv.new rest)) (Nat.le_refl _) (fun _ _ => trivial)) ?_
      intro ⟨e, d⟩ _
      exact Safe.weaken (Safe.pure trivial) (Nat.zero_le _) (fun _ h => h)
    · exact safe_failK

end Atree.Codec
