import AtreeProofs.Codec.RoundTripS
/-
  The decoders of the second part run on encoder output (no inlined slabs): single elements,
  elements, collision groups, element lists.
-/
namespace Atree.Codec
open Atree Atree.Gen DM

/-! ### measures -/

def SEl.fuelNeed : SEl → Nat
  | .mk k v => max k.fuelNeed v.fuelNeed + 1

def fuelSElList : List SEl → Nat
  | [] => 0
  | e :: es => max e.fuelNeed (fuelSElList es) + 1

mutual
def MEl.fuelNeed : MEl → Nat
  | .single e => e.fuelNeed + 1
  | .inl els => els.fuelNeed + 1
  | .ext _ => 2
def MEls.fuelNeed : MEls → Nat
  | .hkey _ _ es => fuelMElList es + 1
  | .single _ es => fuelSElList es + 1
def fuelMElList : List MEl → Nat
  | [] => 0
  | e :: es => max e.fuelNeed (fuelMElList es) + 1
end

mutual
/-- slice elements the decoder allocates -/
def MEl.allocs : MEl → Nat
  | .single _ => 0
  | .inl els => els.allocs
  | .ext _ => 0
def MEls.allocs : MEls → Nat
  | .hkey _ hkeys es => hkeys.length + es.length + allocsMElList es
  | .single _ es => 0 + es.length
def allocsMElList : List MEl → Nat
  | [] => 0
  | e :: es => e.allocs + allocsMElList es
end

/-- bytes of the elements of a list, without the digests -/
def bytesMEl : List MEl → Nat
  | [] => 0
  | e :: es => e.size + bytesMEl es

theorem sizeMEl_eq : ∀ (l : List MEl), sizeMEl l = bytesMEl l + 8 * l.length
  | [] => rfl
  | e :: es => by simp only [sizeMEl, bytesMEl, sizeMEl_eq es, List.length_cons, digestSize]; omega

/-! ### digests -/

theorem digestsOf_encodeHkeys : ∀ (hkeys : List Nat) (more : Bytes), (∀ h ∈ hkeys, h < 2 ^ 64) →
    digestsOf hkeys.length (encodeHkeys hkeys ++ more) = hkeys
  | [], more, _ => rfl
  | h :: t, more, hv => by
    have he : encodeHkeys (h :: t) = beBytes digestSize h ++ encodeHkeys t := rfl
    rw [he, List.append_assoc]
    simp only [List.length_cons, digestsOf]
    rw [take_beBytes_append, drop_beBytes_append, beVal_beBytes (by simpa [digestSize] using hv h (List.mem_cons_self ..)),
      digestsOf_encodeHkeys t more (fun x hx => hv x (List.mem_cons_of_mem _ hx))]

/-! ### single elements -/

theorem decSElG_enc (e : SEl) (h : e.RT) (hn : e.noInl) (fuel cdepth : Nat) (rest : Bytes) (R c addr : Nat)
    (xs0 xs : List XD) (hf : e.fuelNeed ≤ fuel) (hd : cdepth + e.vneed ≤ maxDecodeDepth) (hR : e.size ≤ R) :
    decSElG fuel cdepth { data := (encSEl e xs0).1 ++ rest, remaining := R, consumed := c } addr xs
      = pure (e, { data := rest, remaining := R - e.size, consumed := c + e.size }) := by
  obtain ⟨k, v⟩ := e
  obtain ⟨hk, hv, hsz⟩ := h
  obtain ⟨f, rfl⟩ : ∃ f, fuel = f + 1 := ⟨fuel - 1, by simp only [SEl.fuelNeed] at hf; omega⟩
  simp only [SEl.fuelNeed, SEl.vneed, SEl.size, singleElementPrefixSize] at hf hd hR hsz
  have hkw := Stor.wraps_lt_vneed k hn.1
  have hvw := Stor.wraps_lt_vneed v hn.2
  simp only [encSEl, List.cons_append, List.append_assoc]
  unfold decSElG
  have h82 : (0x82 : Nat) :: ((encSt k xs0).1 ++ ((encSt v (encSt k xs0).2).1 ++ rest))
      = head 4 2 ++ ((encSt k xs0).1 ++ ((encSt v (encSt k xs0).2).1 ++ rest)) := by simp [head]
  have hh2 : headLen 2 = 1 := rfl
  rw [h82, decodeArrayHead_head (by omega) _ _ _ (by rw [hh2]; omega)]
  simp only [DM.liftOpt_some, DM.pure_bind, ne_eq, not_true_eq_false, ↓reduceIte, hh2]
  have hfk : k.fuelNeed ≤ f := by omega
  have hfv : v.fuelNeed ≤ f := by omega
  have hdk : cdepth + k.wraps ≤ maxDecodeDepth := by omega
  have hdv : cdepth + v.wraps ≤ maxDecodeDepth := by omega
  rw [decStG_enc k hk hn.1 f cdepth _ (R - 1) (c + 1) addr xs0 xs hfk hdk (by omega)]
  simp only [DM.pure_bind]
  rw [decStG_enc v hv hn.2 f cdepth _ (R - 1 - k.size) (c + 1 + k.size) addr _ xs hfv hdv (by omega)]
  simp only [DM.pure_bind, singleElementPrefixSize]
  have hle : ¬ (1 + k.size + v.size > maxUint32) := by omega
  simp only [hle, ↓reduceIte, SEl.size, singleElementPrefixSize]
  congr 3 <;> omega

theorem decSElsG_enc : ∀ (l : List SEl), rtSElList l → noInlSElList l → ∀ (fuel cdepth : Nat) (rest : Bytes)
    (R c addr : Nat) (xs0 xs : List XD) (size0 : Nat), fuelSElList l ≤ fuel →
    cdepth + vneedSElList l ≤ maxDecodeDepth → sizeSEl l ≤ R → size0 + sizeSEl l ≤ maxUint32 →
    decSElsG fuel l.length cdepth { data := (encSElList l xs0).1 ++ rest, remaining := R, consumed := c } addr xs size0
      = pure (l, size0 + sizeSEl l, { data := rest, remaining := R - sizeSEl l, consumed := c + sizeSEl l })
  | [], _, _, fuel, cdepth, rest, R, c, addr, xs0, xs, size0, _, _, _, _ => by
    cases fuel <;> simp [decSElsG, encSElList, sizeSEl]
  | e :: es, h, hn, fuel, cdepth, rest, R, c, addr, xs0, xs, size0, hf, hd, hR, hS => by
    obtain ⟨f, rfl⟩ : ∃ f, fuel = f + 1 := ⟨fuel - 1, by simp only [fuelSElList] at hf; omega⟩
    simp only [fuelSElList, vneedSElList, sizeSEl] at hf hd hR hS
    simp only [encSElList, List.length_cons, List.append_assoc, decSElsG]
    rw [decSElG_enc e h.1 hn.1 f cdepth _ R c addr xs0 xs (by omega) (by omega) (by omega)]
    simp only [DM.pure_bind]
    have hle : ¬ (size0 + e.size > maxUint32) := by omega
    simp only [hle, ↓reduceIte]
    have h1 : fuelSElList es ≤ f := by omega
    have h2 : cdepth + vneedSElList es ≤ maxDecodeDepth := by omega
    have h3 : sizeSEl es ≤ R - e.size := by omega
    have h4 : size0 + e.size + sizeSEl es ≤ maxUint32 := by omega
    rw [decSElsG_enc es h.2 hn.2 f cdepth rest (R - e.size) (c + e.size) addr _ xs (size0 + e.size) h1 h2 h3 h4]
    simp only [DM.pure_bind, sizeSEl, Nat.add_assoc, Nat.sub_sub]

/-! ### elements, collision groups, element lists -/

theorem ctypeOf_82 : ctypeOf 0x82 = .array := by decide

theorem level_head {level : Nat} (h : level < 24) : [level % 256] = head 0 level := by
  unfold head; rw [if_pos h]; simp; omega

theorem headLen_small {n : Nat} (h : n < 24) : headLen n = 1 := by
  unfold headLen; rw [if_pos h]

mutual
theorem decMElG_enc : (e : MEl) → e.RT → e.noInl → ∀ (fuel cdepth : Nat) (rest : Bytes) (R c addr : Nat)
    (xs0 xs : List XD) (n : Nat), e.fuelNeed ≤ fuel → cdepth + e.vneed ≤ maxDecodeDepth → e.size ≤ R →
    decMElG fuel cdepth { data := (encMEl e xs0).1 ++ rest, remaining := R, consumed := c } addr xs n
      = .ok (e, { data := rest, remaining := R - e.size, consumed := c + e.size }) (n + e.allocs)
  | .single e, h, hn, fuel, cdepth, rest, R, c, addr, xs0, xs, n, hf, hd, hR => by
    obtain ⟨f, rfl⟩ : ∃ f, fuel = f + 1 := ⟨fuel - 1, by simp only [MEl.fuelNeed] at hf; omega⟩
    simp only [MEl.fuelNeed, MEl.vneed, MEl.size] at hf hd hR
    have hspec := decSElG_enc e h hn f cdepth rest R c addr xs0 xs (by omega) hd hR
    obtain ⟨k, v⟩ := e
    simp only [encMEl, encSEl, List.cons_append] at hspec ⊢
    unfold decMElG
    rw [nextType_pos (by simp only [SEl.size, singleElementPrefixSize] at hR ⊢; omega) rfl]
    simp only [DM.liftOpt_some, DM.pure_bind, ctypeOf_82]
    rw [hspec]
    simp only [DM.pure_bind, MEl.size, MEl.allocs, Nat.add_zero]
    rfl
  | .inl els, h, hn, fuel, cdepth, rest, R, c, addr, xs0, xs, n, hf, hd, hR => by
    obtain ⟨f, rfl⟩ : ∃ f, fuel = f + 1 := ⟨fuel - 1, by simp only [MEl.fuelNeed] at hf; omega⟩
    simp only [MEl.fuelNeed, MEl.vneed, MEl.size, inlineCollisionGroupPrefixSize] at hf hd hR
    have ih := decMElsG_enc els h hn f cdepth rest (R - 2) (c + 2) addr xs0 xs n (by omega) (by omega) (by omega)
    simp only [encMEl, tagHead8, List.cons_append, List.nil_append]
    unfold decMElG
    rw [nextType_pos (by simp only; omega) rfl]
    simp only [DM.liftOpt_some, DM.pure_bind, ctypeOf_d8]
    rw [decodeTagNumber_tag8 _ _ _ _ (by omega)]
    simp only [DM.liftOpt_some, DM.pure_bind, CBORTagInlineCollisionGroup, ↓reduceIte]
    rw [DM.bind_ok ih]
    simp only [DM.pure_apply, MEl.size, MEl.allocs, inlineCollisionGroupPrefixSize]
    congr 3 <;> omega
  | .ext id, h, _, fuel, cdepth, rest, R, c, addr, xs0, xs, n, hf, hd, hR => by
    obtain ⟨f, rfl⟩ : ∃ f, fuel = f + 1 := ⟨fuel - 1, by simp only [MEl.fuelNeed] at hf; omega⟩
    obtain ⟨f', rfl⟩ : ∃ f', f = f' + 1 := ⟨f - 1, by simp only [MEl.fuelNeed] at hf; omega⟩
    simp only [MEl.vneed, MEl.size, externalCollisionGroupPrefixSize] at hd hR
    have hspec := decStG_elem { size := slabIDStorableSize, pay := .ref id } ⟨rfl, h.1, h.2⟩ f' cdepth rest
      (R - 2) (c + 2) addr xs (by omega) (by simp only; omega)
    simp only [encMEl, tagHead8, List.cons_append, List.nil_append]
    unfold decMElG
    rw [nextType_pos (by simp only; omega) rfl]
    simp only [DM.liftOpt_some, DM.pure_bind, ctypeOf_d8]
    rw [decodeTagNumber_tag8 _ _ _ _ (by omega)]
    simp only [DM.liftOpt_some, DM.pure_bind, CBORTagInlineCollisionGroup, CBORTagExternalCollisionGroup,
      show ¬ ((254 : Nat) = 253) by decide, ↓reduceIte]
    rw [hspec]
    simp only [DM.pure_bind, Stor.ofElem, DM.pure_apply, MEl.size, MEl.allocs, externalCollisionGroupPrefixSize,
      Nat.add_zero]
    congr 3 <;> omega
theorem decMElsG_enc : (els : MEls) → els.RT → els.noInl → ∀ (fuel cdepth : Nat) (rest : Bytes) (R c addr : Nat)
    (xs0 xs : List XD) (n : Nat), els.fuelNeed ≤ fuel → cdepth + els.vneed ≤ maxDecodeDepth → els.size ≤ R →
    decMElsG fuel cdepth { data := (encMEls els xs0).1 ++ rest, remaining := R, consumed := c } addr xs n
      = .ok (els, { data := rest, remaining := R - els.size, consumed := c + els.size }) (n + els.allocs)
  | .hkey level hkeys es, h, hn, fuel, cdepth, rest, R, c, addr, xs0, xs, n, hf, hd, hR => by
    obtain ⟨hlev, hlen, h8192, hhk, hes, hsz⟩ := h
    obtain ⟨f, rfl⟩ : ∃ f, fuel = f + 1 := ⟨fuel - 1, by simp only [MEls.fuelNeed] at hf; omega⟩
    simp only [MEls.fuelNeed, MEls.vneed, MEls.size, hkeyElementsPrefixSize] at hf hd hR hsz
    have hse := sizeMEl_eq es
    have ih := decMElListG_enc es hes hn f cdepth rest (R - 8 - 8 * es.length) (c + 8 + 8 * es.length) addr xs0 xs
      hkeyElementsPrefixSize (n + hkeys.length + es.length) (by omega) (by omega) (by omega)
      (by simp only [hkeyElementsPrefixSize]; omega)
    have h3 : headLen 3 = 1 := rfl
    have hl1 := headLen_small hlev
    have hklen : (encodeHkeys hkeys).length = hkeys.length * 8 := by rw [length_encodeHkeys]; omega
    simp only [encMEls, List.cons_append, List.nil_append, List.append_assoc]
    have hstart : (0x83 : Nat) :: level % 256 :: (bytesHead16 (hkeys.length * 8) ++ (encodeHkeys hkeys ++
          (arrayHead16 es.length ++ ((encMElList es xs0).1 ++ rest))))
        = head 4 3 ++ (head 0 level ++ (bytesHead16 (encodeHkeys hkeys).length ++ (encodeHkeys hkeys ++
          (arrayHead16 es.length ++ ((encMElList es xs0).1 ++ rest))))) := by
      rw [← level_head hlev, hklen]; simp [head]
    rw [hstart]
    unfold decMElsG
    rw [decodeArrayHead_head (by omega) _ R c (by rw [h3]; omega)]
    simp only [DM.liftOpt_some, DM.pure_bind, ne_eq, not_true_eq_false, ↓reduceIte, h3]
    rw [decodeUint64_head (by omega) _ (R - 1) (c + 1) (by rw [hl1]; omega)]
    simp only [DM.liftOpt_some, DM.pure_bind, hl1]
    rw [decodeBytes_head16 (by rw [hklen]; omega) _ (R - 1 - 1) (c + 1 + 1) (by rw [hklen]; omega)]
    simp only [DM.liftOpt_some, DM.pure_bind]
    have hmod : ¬ ((encodeHkeys hkeys).length % digestSize ≠ 0) := by
      rw [hklen]; simp [digestSize]
    have hdiv : (encodeHkeys hkeys).length / digestSize = hkeys.length := by
      rw [hklen]; simp [digestSize]
    simp only [hmod, ↓reduceIte, hdiv]
    rw [DM.alloc_bind]
    simp only
    have hdig : digestsOf hkeys.length (encodeHkeys hkeys) = hkeys := by
      have := digestsOf_encodeHkeys hkeys [] hhk
      simpa using this
    rw [hdig]
    rw [decodeArrayHead_head16 (by omega) _ _ _ (by rw [hklen]; omega)]
    simp only [DM.liftOpt_some, DM.pure_bind]
    have hc1 : ¬ (es.length > maxUint32) := by simp only [maxUint32]; omega
    have hc2 : ¬ (hkeys.length ≠ 0 ∧ hkeys.length ≠ es.length) := by omega
    have hc3 : ¬ (hkeys.length = 0 ∧ es.length > 0) := by omega
    simp only [hc1, hc2, hc3, ↓reduceIte]
    rw [DM.alloc_bind]
    simp only
    have hR' : R - 1 - 1 - (3 + (encodeHkeys hkeys).length) - 3 = R - 8 - 8 * es.length := by rw [hklen]; omega
    have hc' : c + 1 + 1 + (3 + (encodeHkeys hkeys).length) + 3 = c + 8 + 8 * es.length := by rw [hklen]; omega
    rw [hR', hc', DM.bind_ok ih]
    simp only [DM.pure_apply, MEls.size, MEls.allocs, hkeyElementsPrefixSize]
    have e1 : R - 8 - 8 * es.length - bytesMEl es = R - (8 + sizeMEl es) := by omega
    have e2 : c + 8 + 8 * es.length + bytesMEl es = c + (8 + sizeMEl es) := by omega
    have e3 : n + hkeys.length + es.length + allocsMElList es = n + (hkeys.length + es.length + allocsMElList es) := by omega
    rw [e1, e2, e3]
  | .single level es, h, hn, fuel, cdepth, rest, R, c, addr, xs0, xs, n, hf, hd, hR => by
    obtain ⟨hlev, hne, h64k, hes, hsz⟩ := h
    obtain ⟨f, rfl⟩ : ∃ f, fuel = f + 1 := ⟨fuel - 1, by simp only [MEls.fuelNeed] at hf; omega⟩
    simp only [MEls.fuelNeed, MEls.vneed, MEls.size, singleElementsPrefixSize] at hf hd hR hsz
    have ih := decSElsG_enc es hes hn f cdepth rest (R - 6) (c + 6) addr xs0 xs singleElementsPrefixSize
      (by omega) (by omega) (by omega) (by simp only [singleElementsPrefixSize]; omega)
    have h3 : headLen 3 = 1 := rfl
    have h0 : headLen 0 = 1 := rfl
    have hl1 := headLen_small hlev
    have hpos : 0 < es.length := List.length_pos_iff.2 hne
    simp only [encMEls, List.cons_append, List.nil_append, List.append_assoc]
    have hstart : (0x83 : Nat) :: level % 256 :: 0x40 :: (arrayHead16 es.length ++ ((encSElList es xs0).1 ++ rest))
        = head 4 3 ++ (head 0 level ++ (head 2 0 ++ (([] : Bytes) ++
            (arrayHead16 es.length ++ ((encSElList es xs0).1 ++ rest))))) := by
      rw [← level_head hlev]; simp [head]
    rw [hstart]
    unfold decMElsG
    rw [decodeArrayHead_head (by omega) _ R c (by rw [h3]; omega)]
    simp only [DM.liftOpt_some, DM.pure_bind, ne_eq, not_true_eq_false, ↓reduceIte, h3]
    rw [decodeUint64_head (by omega) _ (R - 1) (c + 1) (by rw [hl1]; omega)]
    simp only [DM.liftOpt_some, DM.pure_bind, hl1]
    have hdb := decodeBytes_head (l := 0) (by omega) [] (arrayHead16 es.length ++ ((encSElList es xs0).1 ++ rest)) rfl
      (R - 1 - 1) (c + 1 + 1) (by rw [h0]; omega)
    rw [hdb]
    simp only [DM.liftOpt_some, DM.pure_bind, List.length_nil, h0, Nat.zero_mod, ne_eq, not_true_eq_false,
      ↓reduceIte, Nat.zero_div]
    rw [DM.alloc_bind]
    simp only [digestsOf]
    rw [decodeArrayHead_head16 (by omega) _ _ _ (by omega)]
    simp only [DM.liftOpt_some, DM.pure_bind]
    have hc1 : ¬ (es.length > maxUint32) := by simp only [maxUint32]; omega
    have hc2 : ¬ ((0 : Nat) ≠ 0 ∧ 0 ≠ es.length) := by omega
    have hc3 : (0 : Nat) = 0 ∧ es.length > 0 := ⟨rfl, hpos⟩
    simp only [hc1, hc3, ↓reduceIte, and_self]
    rw [DM.alloc_bind]
    have hR' : R - 1 - 1 - (1 + 0) - 3 = R - 6 := by omega
    have hc' : c + 1 + 1 + (1 + 0) + 3 = c + 6 := by omega
    rw [hR', hc', ih]
    simp only [DM.pure_bind, DM.pure_apply, MEls.size, MEls.allocs, singleElementsPrefixSize]
    have e1 : R - 6 - sizeSEl es = R - (6 + sizeSEl es) := by omega
    have e2 : c + 6 + sizeSEl es = c + (6 + sizeSEl es) := by omega
    rw [e1, e2]
    simp
theorem decMElListG_enc : (l : List MEl) → rtMElList l → noInlMElList l → ∀ (fuel cdepth : Nat) (rest : Bytes)
    (R c addr : Nat) (xs0 xs : List XD) (size0 n : Nat), fuelMElList l ≤ fuel →
    cdepth + vneedMElList l ≤ maxDecodeDepth → bytesMEl l ≤ R → size0 + sizeMEl l ≤ maxUint32 →
    decMElListG fuel l.length cdepth { data := (encMElList l xs0).1 ++ rest, remaining := R, consumed := c } addr xs size0 n
      = .ok (l, size0 + sizeMEl l, { data := rest, remaining := R - bytesMEl l, consumed := c + bytesMEl l })
          (n + allocsMElList l)
  | [], _, _, fuel, cdepth, rest, R, c, addr, xs0, xs, size0, n, _, _, _, _ => by
    cases fuel <;> simp [decMElListG, encMElList, sizeMEl, bytesMEl, allocsMElList, DM.pure_apply]
  | e :: es, h, hn, fuel, cdepth, rest, R, c, addr, xs0, xs, size0, n, hf, hd, hR, hS => by
    obtain ⟨f, rfl⟩ : ∃ f, fuel = f + 1 := ⟨fuel - 1, by simp only [fuelMElList] at hf; omega⟩
    simp only [fuelMElList, vneedMElList, bytesMEl, sizeMEl, digestSize] at hf hd hR hS
    have ih1 := decMElG_enc e h.1 hn.1 f cdepth ((encMElList es (encMEl e xs0).2).1 ++ rest) R c addr xs0 xs n
      (by omega) (by omega) (by omega)
    have ih2 := decMElListG_enc es h.2 hn.2 f cdepth rest (R - e.size) (c + e.size) addr (encMEl e xs0).2 xs
      (size0 + digestSize + e.size) (n + e.allocs) (by omega) (by omega) (by omega)
      (by simp only [digestSize]; omega)
    simp only [encMElList, List.length_cons, List.append_assoc, decMElListG]
    rw [DM.bind_ok ih1]
    have hle : ¬ (size0 + digestSize + e.size > maxUint32) := by simp only [digestSize]; omega
    simp only [hle, ↓reduceIte]
    rw [DM.bind_ok ih2]
    simp only [DM.pure_apply, sizeMEl, bytesMEl, allocsMElList, digestSize]
    have e1 : size0 + 8 + e.size + sizeMEl es = size0 + (8 + e.size + sizeMEl es) := by omega
    have e2 : R - e.size - bytesMEl es = R - (e.size + bytesMEl es) := by omega
    have e3 : c + e.size + bytesMEl es = c + (e.size + bytesMEl es) := by omega
    have e4 : n + e.allocs + allocsMElList es = n + (e.allocs + allocsMElList es) := by omega
    rw [e1, e2, e3, e4]
end

end Atree.Codec
