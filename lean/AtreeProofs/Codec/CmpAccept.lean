import AtreeProofs.Codec.CmpDefs
/-
  The CBOR validator accepts the encodings of storables with inlined arrays and maps, the compact
  form included.
-/
namespace Atree.Codec
open Atree Atree.Gen DM

def encValParts (elems : List MEl) : List (Nat × Nat) → List XD → List Bytes
  | [], _ => []
  | k :: ks, xs => (encFind k elems xs).1 :: encValParts elems ks (encFind k elems xs).2

theorem encValParts_flatten (elems : List MEl) : ∀ (ks : List (Nat × Nat)) (xs : List XD),
    (encValParts elems ks xs).flatten = (encVals elems ks xs).1
  | [], xs => by simp [encValParts, encVals]
  | k :: ks, xs => by simp [encValParts, encVals, encValParts_flatten elems ks]

theorem encValParts_length (elems : List MEl) : ∀ (ks : List (Nat × Nat)) (xs : List XD),
    (encValParts elems ks xs).length = ks.length
  | [], xs => rfl
  | k :: ks, xs => by simp [encValParts, encValParts_length elems ks]

theorem accValParts (elems : List MEl) {n : Nat}
    (hfind : ∀ k xs, hasKey k elems → Acc (encFind k elems xs).1 n) :
    ∀ (ks : List (Nat × Nat)) (xs : List XD), (∀ k ∈ ks, hasKey k elems) → AccList (encValParts elems ks xs) n
  | [], xs, _ => by intro b hb; simp [encValParts] at hb
  | k :: ks, xs, hk => by
    intro b hb
    simp only [encValParts, List.mem_cons] at hb
    rcases hb with rfl | hb
    · exact hfind k xs (hk k (List.mem_cons_self ..))
    · exact accValParts elems hfind ks _ (fun k' hk' => hk k' (List.mem_cons_of_mem _ hk')) b hb

mutual
theorem accStC : (s : Stor) → (xs : List XD) → s.RTI → Acc (encSt s xs).1 s.vneedI
  | .val size pay, xs, h => by
    simp only [encSt, Stor.vneedI]; exact acc_encodeElem _ h
  | .ref id, xs, _ => by
    simp only [encSt, Stor.vneedI]; exact acc_encodeRef id
  | .some s, xs, h => by
    simp only [encSt, Stor.vneedI, tagHead8, List.cons_append, List.nil_append]
    exact Acc.tag8 _ (accStC s xs h)
  | .arr ty idx es, xs, h => by
    have hparts := accStPartsC es (addArrayXD xs ty).2 h.2.2.2.1
    have hinner : Acc (arrayHead16 es.length ++ (encSts es (addArrayXD xs ty).2).1) (vneedISts es + 1) := by
      have := Acc.array16 (l := encStParts es (addArrayXD xs ty).2) (k := vneedISts es)
        (by rw [encStParts_length]; exact h.2.2.1) hparts
      rw [encStParts_length, encStParts_flatten] at this
      exact this
    have := acc_inlined CBORTagInlinedArray (addArrayXD xs ty).1 idx hinner
    simp only [encSt, Stor.vneedI]
    simpa [List.append_assoc] using this
  | .map x idx (.hkey level hkeys elems), xs, h => by
    cases hc : compactKeys x elems with
    | none =>
      have hels := accMElsC (.hkey level hkeys elems) (addMapXD xs x).2 h.2.2.1
      have := acc_inlined CBORTagInlinedMap (addMapXD xs x).1 idx hels
      simp only [encSt, hc, Stor.vneedI]
      simpa [encMEls, List.append_assoc] using this
    | some keys =>
      have hm := compactKeys_mapM hc
      have hperm := addCompactXD_perm xs x hkeys keys
      have hes : rtiMElList elems := h.2.2.1.2.2.2.2.1
      have hfind : ∀ k xs', hasKey k elems → Acc (encFind k elems xs').1 (vneedIMElList elems) :=
        fun k xs' hk => accFindC k elems xs' hes hk
      have hcached : ∀ k ∈ (addCompactXD xs x hkeys keys).2.1, hasKey k elems :=
        fun k hk => hasKey_of_mapM elems keys hm k (hperm.subset hk)
      have hparts := accValParts elems hfind (addCompactXD xs x hkeys keys).2.1 (addCompactXD xs x hkeys keys).2.2 hcached
      have hlen : (addCompactXD xs x hkeys keys).2.1.length = elems.length := by
        rw [hperm.length_eq]; exact mapM_compactKey_length elems keys hm
      have hinner : Acc (head 4 (addCompactXD xs x hkeys keys).2.1.length ++
          (encVals elems (addCompactXD xs x hkeys keys).2.1 (addCompactXD xs x hkeys keys).2.2).1)
          (vneedIMElList elems + 1) := by
        have := Acc.array (l := encValParts elems (addCompactXD xs x hkeys keys).2.1 (addCompactXD xs x hkeys keys).2.2)
          (k := vneedIMElList elems)
          (by rw [encValParts_length, hlen]; have := h.2.2.1.2.2.1; unfold maxArrayElements; omega) hparts
        rw [encValParts_length, encValParts_flatten] at this
        exact this
      have := (acc_inlined CBORTagInlinedCompactMap (addCompactXD xs x hkeys keys).1 idx hinner).mono
        (k' := vneedIMElList elems + 2 + 2) (by omega)
      simp only [encSt, hc, Stor.vneedI, MEls.vneedI, foldl_encFind_eq, List.nil_append]
      simpa [List.append_assoc] using this
  | .map x idx (.single level elems), xs, h => by
    have hels := accMElsC (.single level elems) (addMapXD xs x).2 h.2.2.1
    have := acc_inlined CBORTagInlinedMap (addMapXD xs x).1 idx hels
    simp only [encSt, Stor.vneedI]
    simpa [encMEls, List.append_assoc] using this
theorem accStPartsC : (l : List Stor) → (xs : List XD) → rtiSts l →
    AccList (encStParts l xs) (vneedISts l)
  | [], xs, _ => by intro b hb; simp [encStParts] at hb
  | s :: ss, xs, h => by
    intro b hb
    simp only [encStParts, List.mem_cons] at hb
    rcases hb with rfl | hb
    · exact (accStC s xs h.1).mono (by simp only [vneedISts]; exact Nat.le_max_left _ _)
    · exact (accStPartsC ss _ h.2 b hb).mono (by simp only [vneedISts]; exact Nat.le_max_right _ _)
theorem accFindC : (k : Nat × Nat) → (l : List MEl) → (xs : List XD) → rtiMElList l → hasKey k l →
    Acc (encFind k l xs).1 (vneedIMElList l)
  | k, [], xs, _, hk => by cases hk
  | k, .single (.mk (.val s p) v) :: rest, xs, h, hk => by
    simp only [encFind]
    split
    · refine (accStC v xs h.1.2.1).mono ?_
      simp only [vneedIMElList, MEl.vneedI, SEl.vneedI]
      omega
    · rename_i hne
      have hk' : hasKey k rest := by
        simp only [hasKey] at hk
        rcases hk with hk | hk
        · exact absurd hk hne
        · exact hk
      exact (accFindC k rest xs h.2 hk').mono (by simp only [vneedIMElList]; exact Nat.le_max_right _ _)
  | k, .single (.mk (.ref _) _) :: rest, xs, h, hk => by
    simp only [encFind]
    exact (accFindC k rest xs h.2 hk).mono (by simp only [vneedIMElList]; exact Nat.le_max_right _ _)
  | k, .single (.mk (.some _) _) :: rest, xs, h, hk => by
    simp only [encFind]
    exact (accFindC k rest xs h.2 hk).mono (by simp only [vneedIMElList]; exact Nat.le_max_right _ _)
  | k, .single (.mk (.arr _ _ _) _) :: rest, xs, h, hk => by
    simp only [encFind]
    exact (accFindC k rest xs h.2 hk).mono (by simp only [vneedIMElList]; exact Nat.le_max_right _ _)
  | k, .single (.mk (.map _ _ _) _) :: rest, xs, h, hk => by
    simp only [encFind]
    exact (accFindC k rest xs h.2 hk).mono (by simp only [vneedIMElList]; exact Nat.le_max_right _ _)
  | k, .inl _ :: rest, xs, h, hk => by
    simp only [encFind]
    exact (accFindC k rest xs h.2 hk).mono (by simp only [vneedIMElList]; exact Nat.le_max_right _ _)
  | k, .ext _ :: rest, xs, h, hk => by
    simp only [encFind]
    exact (accFindC k rest xs h.2 hk).mono (by simp only [vneedIMElList]; exact Nat.le_max_right _ _)
theorem accSElC : (e : SEl) → (xs : List XD) → e.RTI → Acc (encSEl e xs).1 e.vneedI
  | .mk k v, xs, h => by
    have hk := accStC k xs h.1
    have hv := accStC v (encSt k xs).2 h.2.1
    simp only [encSEl, SEl.vneedI]
    have hl : AccList [(encSt k xs).1, (encSt v (encSt k xs).2).1] (max k.vneedI v.vneedI) := by
      intro b hb
      simp only [List.mem_cons, List.not_mem_nil, or_false] at hb
      rcases hb with rfl | rfl
      · exact hk.mono (Nat.le_max_left _ _)
      · exact hv.mono (Nat.le_max_right _ _)
    have := Acc.array (by simp [maxArrayElements]) hl
    simpa [head, flatten_pair] using this
theorem accMElC : (e : MEl) → (xs : List XD) → e.RTI → Acc (encMEl e xs).1 e.vneedI
  | .single e, xs, h => by
    simp only [encMEl, MEl.vneedI]; exact accSElC e xs h
  | .inl els, xs, h => by
    simp only [encMEl, MEl.vneedI, tagHead8, List.cons_append, List.nil_append]
    exact Acc.tag8 _ (accMElsC els xs h)
  | .ext id, xs, _ => by
    simp only [encMEl, MEl.vneedI, tagHead8, List.cons_append, List.nil_append]
    exact Acc.tag8 _ (acc_encodeRef id)
theorem accMElsC : (els : MEls) → (xs : List XD) → els.RTI → Acc (encMEls els xs).1 els.vneedI
  | .hkey level hkeys es, xs, h => by
    obtain ⟨hlev, hlen, h8192, hhk, hes, _⟩ := h
    have hparts := accMElPartsC es xs hes
    have hinner : Acc (arrayHead16 es.length ++ (encMElList es xs).1) (vneedIMElList es + 1) := by
      have := Acc.array16 (l := encMElParts es xs) (k := vneedIMElList es)
        (by rw [encMElParts_length]; omega) hparts
      rw [encMElParts_length, encMElParts_flatten] at this
      exact this
    have hbytes : Acc (bytesHead16 (hkeys.length * 8) ++ encodeHkeys hkeys) 0 := by
      have := Acc.bytes16 (content := encodeHkeys hkeys) (by rw [length_encodeHkeys]; omega)
      rw [length_encodeHkeys, Nat.mul_comm] at this
      exact this
    have hl : AccList [[level % 256], bytesHead16 (hkeys.length * 8) ++ encodeHkeys hkeys,
        arrayHead16 es.length ++ (encMElList es xs).1] (vneedIMElList es + 1) := by
      intro b hb
      simp only [List.mem_cons, List.not_mem_nil, or_false] at hb
      rcases hb with rfl | rfl | rfl
      · exact (acc_level hlev).mono (by omega)
      · exact hbytes.mono (by omega)
      · exact hinner
    have := Acc.array (by simp [maxArrayElements]) hl
    simp only [encMEls, MEls.vneedI]
    simpa [head, flatten_triple] using this
  | .single level es, xs, h => by
    obtain ⟨hlev, _, h64k, hes, _⟩ := h
    have hparts := accSElPartsC es xs hes
    have hinner : Acc (arrayHead16 es.length ++ (encSElList es xs).1) (vneedISElList es + 1) := by
      have := Acc.array16 (l := encSElParts es xs) (k := vneedISElList es)
        (by rw [encSElParts_length]; omega) hparts
      rw [encSElParts_length, encSElParts_flatten] at this
      exact this
    have hbytes : Acc [0x40] 0 := by
      have := Acc.bytes (content := []) (by simp)
      simpa [head] using this
    have hl : AccList [[level % 256], [0x40], arrayHead16 es.length ++ (encSElList es xs).1]
        (vneedISElList es + 1) := by
      intro b hb
      simp only [List.mem_cons, List.not_mem_nil, or_false] at hb
      rcases hb with rfl | rfl | rfl
      · exact (acc_level hlev).mono (by omega)
      · exact hbytes.mono (by omega)
      · exact hinner
    have := Acc.array (by simp [maxArrayElements]) hl
    simp only [encMEls, MEls.vneedI]
    simpa [head, flatten_triple] using this
theorem accMElPartsC : (l : List MEl) → (xs : List XD) → rtiMElList l →
    AccList (encMElParts l xs) (vneedIMElList l)
  | [], xs, _ => by intro b hb; simp [encMElParts] at hb
  | e :: es, xs, h => by
    intro b hb
    simp only [encMElParts, List.mem_cons] at hb
    rcases hb with rfl | hb
    · exact (accMElC e xs h.1).mono (by simp only [vneedIMElList]; exact Nat.le_max_left _ _)
    · exact (accMElPartsC es _ h.2 b hb).mono (by simp only [vneedIMElList]; exact Nat.le_max_right _ _)
theorem accSElPartsC : (l : List SEl) → (xs : List XD) → rtiSElList l →
    AccList (encSElParts l xs) (vneedISElList l)
  | [], xs, _ => by intro b hb; simp [encSElParts] at hb
  | e :: es, xs, h => by
    intro b hb
    simp only [encSElParts, List.mem_cons] at hb
    rcases hb with rfl | hb
    · exact (accSElC e xs h.1).mono (by simp only [vneedISElList]; exact Nat.le_max_left _ _)
    · exact (accSElPartsC es _ h.2 b hb).mono (by simp only [vneedISElList]; exact Nat.le_max_right _ _)
end

end Atree.Codec
