import AtreeProofs.Codec.InlSlab
/-
  Round trip of slabs whose elements are wrapped values but which hold no inlined slab: large-value
  slabs with a wrapped storable, array data slabs with wrapped elements (the has-inlined-slabs flag
  is clear; the first part of the decoder gives up at the first wrapper).
-/
namespace Atree.Codec
open Atree Atree.Gen DM

theorem noCompactSts_of_noInl : (l : List Stor) → noInlSts l → noCompactSts l
  | [], _ => trivial
  | s :: ss, h => ⟨Stor.noCompact_of_noInl s h.1, noCompactSts_of_noInl ss h.2⟩

/-- `decodeElem` (first part of the decoder) on an encoded wrapper: not in its fragment -/
theorem decodeElem_wrapper (x : Stor) (xs : List XD) (rest : Bytes) (R c : Nat) (hR : 2 ≤ R) (k : Nat) :
    decodeElem { data := (encSt (.some x) xs).1 ++ rest, remaining := R, consumed := c } k = .error .unsupported k := by
  simp only [encSt, tagHead8, List.cons_append, List.nil_append]
  unfold decodeElem
  rw [nextType_pos (by simp only; omega) rfl]
  simp only [DM.liftOpt_some, DM.pure_bind, ctypeOf_d8]
  rw [decodeTagNumber_tag8 _ _ _ _ hR]
  simp only [DM.liftOpt_some, DM.pure_bind, CBORTagSlabID, CBORTagInlinedArray, CBORTagInlinedMap,
    CBORTagInlinedCompactMap, tagGapValue, tagSomeValue]
  simp only [show ¬ ((165 : Nat) = 250 ∨ (165 : Nat) = 251 ∨ (165 : Nat) = 252) by decide,
    show ¬ ((165 : Nat) = 255) by decide, show ¬ ((165 : Nat) = 161) by decide, ↓reduceIte]
  rfl

/-! ### large-value slabs -/

theorem decStG_new (fuel depth : Nat) (data rest' : Bytes) (addr : Nat) (xs : List XD)
    (hw : wfNext data = some rest') :
    decStG fuel depth (Dec.new data) addr xs
      = decStG fuel depth { data := data, remaining := data.length - rest'.length, consumed := 0 } addr xs := by
  cases fuel with
  | zero => simp [decStG]
  | succ f =>
    conv => lhs; unfold decStG
    conv => rhs; unfold decStG
    rw [nextType_new hw]

theorem decodeElem_new (data rest' : Bytes) (hw : wfNext data = some rest') :
    decodeElem (Dec.new data)
      = decodeElem { data := data, remaining := data.length - rest'.length, consumed := 0 } := by
  conv => lhs; unfold decodeElem
  conv => rhs; unfold decodeElem
  rw [nextType_new hw]

/-- `DecodeSlab` on the encoding of a large-value slab holding a wrapped value (no inlined slab: the
    Go encoder refuses those), followed by ANY `extra` bytes -/
theorem decodeSlab_encodeStorableSlabG (id : SlabID) (x : Stor) (hrt : x.RT) (hni : x.noInl)
    (hnest : x.vneed + 1 ≤ maxNestedLevels) (extra : Bytes) (n : Nat) :
    decodeSlab id (encodeStorableSlabG (.some x) ++ extra) n = .ok (.storableG id (.some x)) n := by
  have hs : (Stor.some x).RT := hrt
  have hsn : (Stor.some x).noInl := hni
  have hlen := lenSt_eq (.some x) [] (Stor.OK_of_RT _ hs hsn) (Stor.noCompact_of_noInl _ hsn)
  have hacc := accSt (.some x) [] hs hsn
  have hw := wfNext_of_acc hacc (by simp only [Stor.vneed]; exact hnest) extra
  have hwr := Stor.wraps_lt_vneed (.some x) hsn
  have hf := head_storable_facts (Stor.some x).hasPtr
  simp only at hf
  have hsz : 2 ≤ (Stor.some x).size := by simp only [Stor.size, someOverhead]; omega
  unfold encodeStorableSlabG
  simp only [List.cons_append, List.nil_append]
  have hrem : ((encSt (.some x) []).1 ++ extra).length - extra.length = (Stor.some x).size := by simp [hlen]
  have hflat : decodeSlabFlat id ((StorableSlab_Encode_version * 16) ::
      (maskStorable ||| maskSlabAnySize ||| flagIf (Stor.some x).hasPtr maskSlabHasPointers) ::
      ((encSt (.some x) []).1 ++ extra)) n = .error .unsupported n := by
    rw [decodeSlabFlat_cons2, hf.1]
    simp only
    rw [decodeElem_new _ _ hw, hrem]
    show (decodeElem _ >>= _) n = _
    have := decodeElem_wrapper x [] extra (Stor.some x).size 0 hsz n
    show DM.bind' _ _ n = _
    unfold DM.bind'
    rw [this]
  rw [decodeSlab_of_flat_unsupported hflat, decodeSlabGen_cons2, hf.1]
  simp only
  rw [decStG_new _ _ _ _ _ _ hw, hrem]
  rw [decStG_enc (.some x) hs hsn _ 0 extra _ 0 id.addr [] []
    (by rw [Stor.fuelNeed_eq]; simp only [List.length_append, hlen]
        have := Stor.fuelNeed_le_size (.some x) hs hsn; rw [Stor.fuelNeed_eq] at this; omega)
    (by simp only [maxDecodeDepth, maxNestedLevels, Stor.vneed] at hnest hwr ⊢; omega) (Nat.le_refl _)]
  rfl

/-! ### array data slabs with wrapped elements -/

/-- the element loop of the first part of the decoder gives up at the first wrapper -/
theorem decodeElems_unsupported : ∀ (l : List Stor), rtiSts l → noInlSts l → (∃ s ∈ l, s.isFlat = false) →
    ∀ (rest : Bytes) (R c size0 k : Nat), sizeSts l ≤ R → size0 + sizeSts l ≤ 4294967295 →
    decodeElems l.length { data := (encSts l []).1 ++ rest, remaining := R, consumed := c } size0 k
      = .error .unsupported k
  | [], _, _, h, _, _, _, _, _, _, _ => by obtain ⟨s, hs, _⟩ := h; cases hs
  | .val size pay :: ss, h, hn, hex, rest, R, c, size0, k, hR, hS => by
    simp only [sizeSts, Stor.size] at hR hS
    have hex' : ∃ s ∈ ss, s.isFlat = false := by
      obtain ⟨s, hs, hf⟩ := hex
      simp only [List.mem_cons] at hs
      rcases hs with rfl | hs
      · simp [Stor.isFlat] at hf
      · exact ⟨s, hs, hf⟩
    have hxs : (encSt (.val size pay) []).2 = [] := by simp only [encSt]
    simp only [encSts, List.length_cons, List.append_assoc, decodeElems, encSt]
    rw [decodeElem_enc { size := size, pay := .val pay } h.1 _ R c (by simp only; omega)]
    simp only [DM.pure_bind]
    have hle : ¬ (size0 + size > 4294967295) := by omega
    simp only [hle, ↓reduceIte]
    have ih := decodeElems_unsupported ss h.2 hn.2 hex' rest (R - size) (c + size) (size0 + size) k (by omega) (by omega)
    show DM.bind' _ _ k = _
    unfold DM.bind'
    rw [ih]
  | .ref id :: ss, h, hn, hex, rest, R, c, size0, k, hR, hS => by
    simp only [sizeSts, Stor.size] at hR hS
    have hex' : ∃ s ∈ ss, s.isFlat = false := by
      obtain ⟨s, hs, hf⟩ := hex
      simp only [List.mem_cons] at hs
      rcases hs with rfl | hs
      · simp [Stor.isFlat] at hf
      · exact ⟨s, hs, hf⟩
    simp only [encSts, List.length_cons, List.append_assoc, decodeElems, encSt]
    rw [decodeElem_enc { size := slabIDStorableSize, pay := .ref id } ⟨rfl, h.1.1, h.1.2⟩ _ R c (by simp only; omega)]
    simp only [DM.pure_bind]
    have hle : ¬ (size0 + slabIDStorableSize > 4294967295) := by omega
    simp only [hle, ↓reduceIte]
    have ih := decodeElems_unsupported ss h.2 hn.2 hex' rest (R - slabIDStorableSize) (c + slabIDStorableSize)
      (size0 + slabIDStorableSize) k (by omega) (by omega)
    show DM.bind' _ _ k = _
    unfold DM.bind'
    rw [ih]
  | .some x :: ss, _, _, _, rest, R, c, size0, k, hR, _ => by
    simp only [sizeSts, Stor.size, someOverhead] at hR
    simp only [encSts, List.length_cons, List.append_assoc, decodeElems]
    have := decodeElem_wrapper x [] ((encSts ss (encSt (.some x) []).2).1 ++ rest) R c (by omega) k
    show DM.bind' _ _ k = _
    unfold DM.bind'
    rw [this]
  | .arr _ _ _ :: _, _, hn, _, _, _, _, _, _, _, _ => hn.1.elim
  | .map _ _ _ :: _, _, hn, _, _, _, _, _, _, _, _ => hn.1.elim

/-- What the encoder and the decoder rely on for an array data slab with wrapped elements and no
    inlined slab. -/
structure ArrDataOKW (a : ArrData) : Prop where
  rt : rtiSts a.elems
  noInl : noInlSts a.elems
  wrapped : ∃ s ∈ a.elems, s.isFlat = false
  nest : vneedISts a.elems + 1 ≤ maxNestedLevels
  count : a.elems.length < 65536
  next : validNext a.next
  ty : ∀ t, a.ty = some t → validTy t
  size : a.size ≤ maxUint32

theorem decodeDataContent_unsupported (id : SlabID) (isRoot : Bool) (ty : Option TyInfo) (next : SlabID)
    (checkEOF : Bool) (elems : List Stor) (hrt : rtiSts elems) (hni : noInlSts elems)
    (hw : ∃ s ∈ elems, s.isFlat = false) (hnest : vneedISts elems + 1 ≤ maxNestedLevels)
    (hcount : elems.length < 65536)
    (hsz : (if isRoot then arrayRootDataSlabPrefixSize else arrayDataSlabPrefixSize) + sizeSts elems ≤ maxUint32)
    (extra : Bytes) (n : Nat) :
    decodeDataContent id isRoot ty next checkEOF (arrayHead16 elems.length ++ ((encSts elems []).1 ++ extra)) n
      = .error .unsupported (n + elems.length) := by
  have hnc := noCompactSts_of_noInl elems hni
  have hlen := lenSts_eq elems [] (okSts_of_RTI elems hrt) hnc
  have hacc : Acc (arrayHead16 elems.length ++ (encSts elems []).1) (vneedISts elems + 1) := by
    have := Acc.array16 (l := encStParts elems []) (k := vneedISts elems)
      (by rw [encStParts_length]; exact hcount) (accStPartsI elems [] hrt hnc)
    rw [encStParts_length, encStParts_flatten] at this
    exact this
  have hwf := wfNext_of_acc hacc hnest extra
  rw [List.append_assoc] at hwf
  have hL : (arrayHead16 elems.length ++ ((encSts elems []).1 ++ extra)).length = 3 + sizeSts elems + extra.length := by
    simp only [List.length_append, length_arrayHead16, hlen]; omega
  unfold decodeDataContent
  rw [if_neg (by rw [hL]; simp only [arrayDataSlabElementHeadSize]; omega)]
  have hhead : (Dec.new (arrayHead16 elems.length ++ ((encSts elems []).1 ++ extra))).decodeArrayHead
      = some (elems.length, (⟨(encSts elems []).1 ++ extra, sizeSts elems, 3⟩ : Dec)) := by
    show Dec.decodeHeadOf 4 _ = _
    rw [decodeHeadOf_new hwf]
    have hrem : (arrayHead16 elems.length ++ ((encSts elems []).1 ++ extra)).length - extra.length = 3 + sizeSts elems := by
      rw [hL]; omega
    rw [hrem]
    have := decodeArrayHead_head16 hcount ((encSts elems []).1 ++ extra) (3 + sizeSts elems) 0 (by omega)
    simp only [Nat.zero_add, Nat.add_sub_cancel_left] at this
    exact this
  rw [hhead]
  simp only [DM.liftOpt_some, DM.pure_bind]
  have hc1 : ¬ (elems.length > 4294967295) := by omega
  simp only [hc1, ↓reduceIte]
  rw [DM.alloc_bind]
  simp only
  have hun := decodeElems_unsupported elems hrt hni hw extra (sizeSts elems) 3
    (if isRoot then arrayRootDataSlabPrefixSize else arrayDataSlabPrefixSize) (n + elems.length) (Nat.le_refl _)
    (by simpa [maxUint32] using hsz)
  show DM.bind' _ _ (n + elems.length) = _
  unfold DM.bind'
  rw [hun]

theorem dataV1AfterExtra_unsupported (id : SlabID) (h : SlabHead) (tyo : Option TyInfo) (next : SlabID)
    (elems : List Stor) (hroot : h.isRoot = tyo.isSome) (hinl : h.hasInlinedSlabs = false)
    (hnx : h.hasNextSlabID = decide (next ≠ SlabID.undef))
    (hrt : rtiSts elems) (hni : noInlSts elems)
    (hw : ∃ s ∈ elems, s.isFlat = false) (hnest : vneedISts elems + 1 ≤ maxNestedLevels)
    (hcount : elems.length < 65536) (hnext : validNext next)
    (hsz : (if tyo.isSome then arrayRootDataSlabPrefixSize else arrayDataSlabPrefixSize) + sizeSts elems ≤ maxUint32)
    (extra : Bytes) (n : Nat) :
    dataV1AfterExtra id h tyo ((if decide (next ≠ SlabID.undef) = true then encodeSlabID next else []) ++
        (arrayHead16 elems.length ++ ((encSts elems []).1 ++ extra))) n = .error .unsupported (n + elems.length) := by
  unfold dataV1AfterExtra
  rw [hinl, hnx, hroot]
  simp only [Bool.false_eq_true, ↓reduceIte]
  by_cases hnxt : next = SlabID.undef
  · have hd : decide (next ≠ SlabID.undef) = false := by simp [hnxt]
    simp only [hd, Bool.false_eq_true, ↓reduceIte, List.nil_append]
    exact decodeDataContent_unsupported id _ tyo _ true elems hrt hni hw hnest hcount hsz extra n
  · have hd : decide (next ≠ SlabID.undef) = true := by simp [hnxt]
    simp only [hd, ↓reduceIte]
    rw [newSlabIDFromRawBytes_enc_append next hnext.1 hnext.2]
    simp only [DM.pure_bind]
    unfold sliceFrom
    rw [if_pos (by simp [length_encodeSlabID, SlabIDLength])]
    simp only [DM.pure_bind]
    rw [List.drop_left' (by simp [length_encodeSlabID, SlabIDLength])]
    exact decodeDataContent_unsupported id _ tyo _ true elems hrt hni hw hnest hcount hsz extra n

theorem arrDataV1AfterExtraG_encW (id : SlabID) (h : SlabHead) (ty : Option TyInfo) (next : SlabID)
    (elems : List Stor) (hroot : h.isRoot = ty.isSome) (hinl : h.hasInlinedSlabs = false)
    (hnx : h.hasNextSlabID = decide (next ≠ SlabID.undef))
    (hrt : rtiSts elems) (hni : noInlSts elems) (hnest : vneedISts elems + 1 ≤ maxNestedLevels)
    (hcount : elems.length < 65536) (hnext : validNext next)
    (hsz : (if ty.isSome then arrayRootDataSlabPrefixSize else arrayDataSlabPrefixSize) + sizeSts elems ≤ maxUint32)
    (extra : Bytes) (n : Nat) :
    arrDataV1AfterExtraG id h ty ((if decide (next ≠ SlabID.undef) = true then encodeSlabID next else []) ++
        (arrayHead16 elems.length ++ ((encSts elems []).1 ++ extra))) n =
      if extra ≠ [] then .error .decoding (n + elems.length + allocsISts elems)
      else .ok (.adata { id := id, next := next, ty := ty, elems := elems }) (n + elems.length + allocsISts elems) := by
  have hnc := noCompactSts_of_noInl elems hni
  have hxs : (encSts elems []).2 = [] := encSts_noInl elems [] hni
  have hcontent : ∀ nx, arrDataContentG id ty.isSome ty nx true []
      (arrayHead16 elems.length ++ ((encSts elems []).1 ++ extra)) n =
      if extra ≠ [] then .error .decoding (n + elems.length + allocsISts elems)
      else .ok (.adata { id := id, next := nx, ty := ty, elems := elems }) (n + elems.length + allocsISts elems) := by
    intro nx
    have := arrDataContentG_enc id ty.isSome ty nx elems hrt hnc hnest hcount (by rw [hxs]; simp) hsz extra n
    rw [hxs] at this
    exact this
  unfold arrDataV1AfterExtraG
  rw [hinl]
  simp only [Bool.false_eq_true, ↓reduceIte]
  unfold arrDataV1AfterIEDG
  rw [hnx, hroot]
  by_cases hnxt : next = SlabID.undef
  · have hd : decide (next ≠ SlabID.undef) = false := by simp [hnxt]
    simp only [hd, Bool.false_eq_true, ↓reduceIte, List.nil_append]
    rw [hnxt]
    exact hcontent _
  · have hd : decide (next ≠ SlabID.undef) = true := by simp [hnxt]
    simp only [hd, ↓reduceIte]
    rw [newSlabIDFromRawBytes_enc_append next hnext.1 hnext.2]
    simp only [DM.pure_bind]
    unfold sliceFrom
    rw [if_pos (by simp [length_encodeSlabID, SlabIDLength])]
    simp only [DM.pure_bind]
    rw [List.drop_left' (by simp [length_encodeSlabID, SlabIDLength])]
    exact hcontent _

/-- `decodeSlabFlat` on a version-1 array data slab register without the has-inlined-slabs bit whose
    elements contain a wrapper -/
theorem decodeSlabFlat_adata_wrapped (id : SlabID) (b0 b1 : Nat) (tyo : Option TyInfo) (next : SlabID)
    (elems : List Stor) (extra : Bytes) (n : Nat)
    (h1 : (⟨b0, b1⟩ : SlabHead).slabType = .array) (h2 : (⟨b0, b1⟩ : SlabHead).arrayType = .data)
    (h3 : (⟨b0, b1⟩ : SlabHead).version = 1) (h4 : (⟨b0, b1⟩ : SlabHead).isRoot = tyo.isSome)
    (h7 : (⟨b0, b1⟩ : SlabHead).hasInlinedSlabs = false)
    (h8 : (⟨b0, b1⟩ : SlabHead).hasNextSlabID = decide (next ≠ SlabID.undef))
    (hrt : rtiSts elems) (hni : noInlSts elems)
    (hw : ∃ s ∈ elems, s.isFlat = false) (hnest : vneedISts elems + 1 ≤ maxNestedLevels)
    (hcount : elems.length < 65536) (hnext : validNext next) (hty : ∀ t, tyo = some t → validTy t)
    (hsz : (if tyo.isSome then arrayRootDataSlabPrefixSize else arrayDataSlabPrefixSize) + sizeSts elems ≤ maxUint32) :
    decodeSlabFlat id (b0 :: b1 :: (arrExtraBytes tyo ++
        ((if decide (next ≠ SlabID.undef) = true then encodeSlabID next else []) ++
          (arrayHead16 elems.length ++ ((encSts elems []).1 ++ extra))))) n = .error .unsupported (n + elems.length) := by
  rw [decodeSlabFlat_cons2, h1]
  simp only [h2]
  rw [newArrayDataSlabFromData_cons2, h2, h3]
  simp only [ne_eq, not_true_eq_false, ↓reduceIte, show ¬ ((1 : Nat) = 0) by decide]
  unfold newArrayDataSlabFromDataV1
  cases tyo with
  | none =>
    have hr4 : _ = false := h4
    simp only [hr4, Bool.false_eq_true, ↓reduceIte, arrExtraBytes, List.nil_append]
    exact dataV1AfterExtra_unsupported id _ none next elems h4 h7 h8 hrt hni hw hnest hcount hnext hsz extra n
  | some t =>
    have hr4 : _ = true := h4
    simp only [hr4, ↓reduceIte, arrExtraBytes]
    rw [newArrayExtraDataFromData_enc t (hty t rfl)]
    simp only [DM.pure_bind]
    exact dataV1AfterExtra_unsupported id _ (some t) next elems h4 h7 h8 hrt hni hw hnest hcount hnext hsz extra n

/-- `DecodeSlab` on the encoding of an array data slab with wrapped elements (no inlined slab),
    followed by `extra` bytes -/
theorem decodeSlab_encodeArrDataW (a : ArrData) (ok : ArrDataOKW a) (extra : Bytes) (n : Nat) :
    decodeSlab a.id (encodeArrData a ++ extra) n =
      if extra ≠ [] then .error .decoding (n + a.elems.length + allocsISts a.elems)
      else .ok (.adata a) (n + a.elems.length + allocsISts a.elems) := by
  obtain ⟨id, next, ty, elems⟩ := a
  obtain ⟨hrt, hni, hw, hnest, hcount, hnext, hty, hsize⟩ := ok
  simp only at hrt hni hw hnest hcount hnext hty hsize
  have hxs : (encSts elems []).2 = [] := encSts_noInl elems [] hni
  have hf := head_adata_facts (decide (next ≠ SlabID.undef)) false (anyPtrSts elems) ty.isSome
  simp only at hf
  obtain ⟨hf1, hf2, hf3, hf4, _, _, hf7, hf8⟩ := hf
  have hsz' : (if ty.isSome then arrayRootDataSlabPrefixSize else arrayDataSlabPrefixSize) + sizeSts elems ≤ maxUint32 := by
    simpa [ArrData.size] using hsize
  have hflat := decodeSlabFlat_adata_wrapped id _ _ ty next elems extra n hf1 hf2 hf3 hf4 hf7 hf8 hrt hni hw hnest
    hcount hnext hty hsz'
  have hgen := arrDataV1AfterExtraG_encW id _ ty next elems hf4 hf7 hf8 hrt hni hnest hcount hnext hsz' extra n
  unfold encodeArrData
  simp only [hxs, List.isEmpty_nil, Bool.not_true, List.cons_append, List.nil_append, List.append_assoc,
    encodeIEDSection, ↓reduceIte]
  cases ty with
  | none =>
    have hr4 : _ = false := hf4
    simp only [arrExtraBytes, List.nil_append] at hflat
    simp only [List.nil_append]
    rw [decodeSlab_of_flat_unsupported hflat, decodeSlabGen_cons2, hf1]
    simp only [hf2]
    rw [newArrayDataSlabFromDataG_cons2, hf2, hf3]
    simp only [ne_eq, not_true_eq_false, ↓reduceIte, show ¬ ((1 : Nat) = 0) by decide]
    unfold newArrayDataSlabFromDataV1G
    rw [hr4]
    simp only [Bool.false_eq_true, ↓reduceIte]
    exact hgen
  | some t =>
    have hr4 : _ = true := hf4
    simp only [arrExtraBytes] at hflat
    rw [decodeSlab_of_flat_unsupported hflat, decodeSlabGen_cons2, hf1]
    simp only [hf2]
    rw [newArrayDataSlabFromDataG_cons2, hf2, hf3]
    simp only [ne_eq, not_true_eq_false, ↓reduceIte, show ¬ ((1 : Nat) = 0) by decide]
    unfold newArrayDataSlabFromDataV1G
    rw [hr4]
    simp only [↓reduceIte]
    rw [newArrayExtraDataFromData_enc t (hty t rfl)]
    simp only [DM.pure_bind]
    exact hgen

end Atree.Codec
