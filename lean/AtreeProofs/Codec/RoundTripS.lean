import AtreeProofs.Codec.RoundTripG
/-
  The decoders of the second part run on encoder output (no inlined slabs): storables.
-/
namespace Atree.Codec
open Atree Atree.Gen DM

theorem stFromBytes_content {l p : Nat} (hl : l < 2 ^ 32) (hp : p < 256 ^ min l 8) (extra : Nat) :
    stFromBytes (tvContent l p) extra = .val (headLen l + l + extra) p := by
  unfold stFromBytes
  rw [tvFromBytes_content hl hp]

/-- `hx.decodeStorable` on an encoded plain value / slab reference -/
theorem decStG_elem (e : Elem) (hv : validElem e) (fuel depth : Nat) (rest : Bytes) (R c addr : Nat)
    (xs : List XD) (hdep : depth ≤ maxDecodeDepth) (hR : e.size ≤ R) :
    decStG (fuel + 1) depth { data := encodeElem e ++ rest, remaining := R, consumed := c } addr xs
      = pure (Stor.ofElem e, { data := rest, remaining := R - e.size, consumed := c + e.size }) := by
  have hsz := elem_size_eq_enc_len e hv
  unfold validElem at hv
  unfold encodeElem at hsz ⊢
  obtain ⟨size, pay⟩ := e
  unfold decStG
  rw [if_neg (by omega)]
  cases pay with
  | ref id =>
    simp only at hv hsz hR ⊢
    have hs19 : size = 19 := by rw [hv.1]; rfl
    subst hs19
    simp only [tagHead8, List.cons_append, List.nil_append, List.append_assoc]
    rw [nextType_pos (by simp only; omega) rfl]
    simp only [DM.liftOpt_some, DM.pure_bind, ctypeOf_d8]
    rw [decodeTagNumber_tag8 _ _ _ _ (by omega)]
    simp only [DM.liftOpt_some, DM.pure_bind, CBORTagSlabID, CBORTagInlinedArray, CBORTagInlinedMap,
      CBORTagInlinedCompactMap]
    simp only [show ¬ ((255 : Nat) = 250) by decide, show ¬ ((255 : Nat) = 251) by decide,
      show ¬ ((255 : Nat) = 252) by decide, ↓reduceIte]
    unfold decodeSlabIDStorable
    rw [decodeBytes_head (by simp [SlabIDLength]) _ _ (by simp [length_encodeSlabID, SlabIDLength]) _ _
      (by simp [headLen, SlabIDLength]; omega)]
    simp only [DM.liftOpt_some, DM.pure_bind]
    rw [newSlabIDFromRawBytes_enc id hv.2.1 hv.2.2]
    simp only [DM.pure_bind, headLen, SlabIDLength, slabIDStorableSize, Stor.ofElem]
    congr 3 <;> omega
  | val p =>
    simp only at hv hsz hR ⊢
    have hl32 : tvLen size < 2 ^ 32 := by
      unfold tvLen bsLen; repeat' split
      all_goals omega
    have hts := tv_size hv.1 hv.2.1 hv.2.2.1
    by_cases hg : isGap size = true
    · simp only [hg, ↓reduceIte, tagHead8, List.cons_append, List.nil_append, List.append_assoc] at hsz hts ⊢
      rw [nextType_pos (by simp only; omega) rfl]
      simp only [DM.liftOpt_some, DM.pure_bind, ctypeOf_d8]
      rw [decodeTagNumber_tag8 _ _ _ _ (by omega)]
      simp only [DM.liftOpt_some, DM.pure_bind, CBORTagSlabID, CBORTagInlinedArray, CBORTagInlinedMap,
        CBORTagInlinedCompactMap, tagGapValue]
      simp only [show ¬ ((161 : Nat) = 250) by decide, show ¬ ((161 : Nat) = 251) by decide,
        show ¬ ((161 : Nat) = 252) by decide, show ¬ ((161 : Nat) = 255) by decide, ↓reduceIte]
      rw [decodeBytes_head (by omega) _ _ (length_tvContent _ _) _ _ (by omega)]
      simp only [DM.liftOpt_some, DM.pure_bind]
      rw [stFromBytes_content hl32 hv.2.2.2]
      simp only [Stor.ofElem]
      congr 3 <;> omega
    · simp only [hg, Bool.false_eq_true, ↓reduceIte, List.nil_append, List.append_assoc, Nat.zero_add] at hsz hts ⊢
      cases hd : head 2 (tvLen size) ++ (tvContent (tvLen size) p ++ rest) with
      | nil => exact absurd hd (head_ne_nil _ _ _)
      | cons b tl =>
        have hb := first_byte_type (by omega) (by omega : tvLen size < 2 ^ 64) hd
        rw [nextType_pos (by simp only; omega) rfl]
        simp only [DM.liftOpt_some, DM.pure_bind, ctypeOf_bytes hb]
        rw [← hd, decodeBytes_head (by omega) _ _ (length_tvContent _ _) _ _ (by omega)]
        simp only [DM.liftOpt_some, DM.pure_bind]
        rw [stFromBytes_content hl32 hv.2.2.2]
        simp only [Stor.ofElem]
        congr 3 <;> omega

/-- fuel the storable decoder needs -/
def Stor.fuelNeed : Stor → Nat
  | .some s => s.fuelNeed + 1
  | _ => 1

theorem Stor.fuelNeed_eq : (s : Stor) → s.fuelNeed = s.wraps + 1
  | .some s => by simp only [Stor.fuelNeed, Stor.wraps, Stor.fuelNeed_eq s]
  | .val _ _ => rfl
  | .ref _ => rfl
  | .arr _ _ _ => rfl
  | .map _ _ _ => rfl

/-- `hx.decodeStorable` on an encoded storable without inlined slabs: the storable comes back, the
    decoder has consumed exactly its encoding -/
theorem decStG_enc : (s : Stor) → s.RT → s.noInl → ∀ (fuel depth : Nat) (rest : Bytes) (R c addr : Nat)
    (xs0 xs : List XD), s.fuelNeed ≤ fuel → depth + s.wraps ≤ maxDecodeDepth → s.size ≤ R →
    decStG fuel depth { data := (encSt s xs0).1 ++ rest, remaining := R, consumed := c } addr xs
      = pure (s, { data := rest, remaining := R - s.size, consumed := c + s.size })
  | .val size pay, h, _, fuel, depth, rest, R, c, addr, xs0, xs, hf, hd, hR => by
    obtain ⟨f, rfl⟩ : ∃ f, fuel = f + 1 := ⟨fuel - 1, by simp only [Stor.fuelNeed] at hf; omega⟩
    simp only [encSt, Stor.size] at hR ⊢
    have := decStG_elem { size := size, pay := .val pay } h f depth rest R c addr xs
      (by simp only [Stor.wraps] at hd; omega) hR
    simpa [Stor.ofElem] using this
  | .ref id, h, _, fuel, depth, rest, R, c, addr, xs0, xs, hf, hd, hR => by
    obtain ⟨f, rfl⟩ : ∃ f, fuel = f + 1 := ⟨fuel - 1, by simp only [Stor.fuelNeed] at hf; omega⟩
    simp only [encSt, Stor.size] at hR ⊢
    have := decStG_elem { size := slabIDStorableSize, pay := .ref id } ⟨rfl, h.1, h.2⟩ f depth rest R c addr xs
      (by simp only [Stor.wraps] at hd; omega) hR
    simpa [Stor.ofElem] using this
  | .some s, h, hn, fuel, depth, rest, R, c, addr, xs0, xs, hf, hd, hR => by
    obtain ⟨f, rfl⟩ : ∃ f, fuel = f + 1 := ⟨fuel - 1, by simp only [Stor.fuelNeed] at hf; omega⟩
    simp only [Stor.fuelNeed, Stor.wraps, Stor.size, someOverhead] at hf hd hR
    have ih := decStG_enc s h hn f (depth + 1) rest (R - 2) (c + 2) addr xs0 xs (by omega) (by omega) (by omega)
    simp only [encSt, tagHead8, List.cons_append, List.nil_append]
    unfold decStG
    rw [if_neg (by omega)]
    rw [nextType_pos (by simp only; omega) rfl]
    simp only [DM.liftOpt_some, DM.pure_bind, ctypeOf_d8]
    rw [decodeTagNumber_tag8 _ _ _ _ (by omega)]
    simp only [DM.liftOpt_some, DM.pure_bind, CBORTagSlabID, CBORTagInlinedArray, CBORTagInlinedMap,
      CBORTagInlinedCompactMap, tagGapValue, tagSomeValue]
    simp only [show ¬ ((165 : Nat) = 250) by decide, show ¬ ((165 : Nat) = 251) by decide,
      show ¬ ((165 : Nat) = 252) by decide, show ¬ ((165 : Nat) = 255) by decide,
      show ¬ ((165 : Nat) = 161) by decide, ↓reduceIte]
    rw [ih]
    simp only [DM.pure_bind, Stor.size, someOverhead]
    congr 3 <;> omega
  | .arr _ _ _, _, hn, _, _, _, _, _, _, _, _, _, _, _ => hn.elim
  | .map _ _ _, _, hn, _, _, _, _, _, _, _, _, _, _, _ => hn.elim

end Atree.Codec
