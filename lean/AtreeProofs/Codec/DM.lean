import AtreeModel.Codec.Decode
/-
  A small Hoare logic for the decoder monad `DM`: `Safe m k P` says that `m`, started with any
  allocation counter, does not panic, allocates at most `k` further slice elements (whether it
  succeeds or fails), and returns a value satisfying `P` when it succeeds.
-/
namespace Atree.Codec
open DM

def Safe {α : Type} (m : DM α) (k : Nat) (P : α → Prop) : Prop :=
  ∀ n, match m n with
       | .ok a n' => n' ≤ n + k ∧ P a
       | .error _ n' => n' ≤ n + k
       | .panic => False

namespace Safe
variable {α β : Type}

theorem pure {a : α} {P : α → Prop} (h : P a) : Safe (Pure.pure a : DM α) 0 P := by
  intro n; exact ⟨Nat.le_refl _, h⟩

theorem fail {e : DErr} {P : α → Prop} : Safe (DM.fail e : DM α) 0 P := by
  intro n; exact Nat.le_refl _

theorem alloc (k : Nat) : Safe (DM.alloc k) k (fun _ => True) := by
  intro n; exact ⟨Nat.le_refl _, trivial⟩

theorem bind {m : DM α} {f : α → DM β} {k1 k2 : Nat} {P : α → Prop} {Q : β → Prop}
    (hm : Safe m k1 P) (hf : ∀ a, P a → Safe (f a) k2 Q) : Safe (m >>= f) (k1 + k2) Q := by
  intro n
  have h1 := hm n
  show match DM.bind' m f n with
       | .ok a n' => n' ≤ n + (k1 + k2) ∧ Q a
       | .error _ n' => n' ≤ n + (k1 + k2)
       | .panic => False
  unfold DM.bind'
  cases hmn : m n with
  | ok a n' =>
    rw [hmn] at h1
    have h2 := hf a h1.2 n'
    simp only
    cases hfa : f a n' with
    | ok b n'' => rw [hfa] at h2; exact ⟨by have := h1.1; have := h2.1; omega, h2.2⟩
    | error e n'' => rw [hfa] at h2; simp only; have := h1.1; omega
    | panic => rw [hfa] at h2; exact h2
  | error e n' => rw [hmn] at h1; simp only; omega
  | panic => rw [hmn] at h1; exact h1

theorem weaken {m : DM α} {k k' : Nat} {P Q : α → Prop}
    (hm : Safe m k P) (hk : k ≤ k') (hpq : ∀ a, P a → Q a) : Safe m k' Q := by
  intro n
  have h := hm n
  cases hmn : m n with
  | ok a n' => rw [hmn] at h; exact ⟨by have := h.1; omega, hpq a h.2⟩
  | error e n' => rw [hmn] at h; simp only; omega
  | panic => rw [hmn] at h; exact h

/-- `bind` with the budget stated for the whole computation -/
theorem bind' {m : DM α} {f : α → DM β} {k1 k2 k : Nat} {P : α → Prop} {Q : β → Prop}
    (hm : Safe m k1 P) (hf : ∀ a, P a → Safe (f a) k2 Q) (hk : k1 + k2 ≤ k) : Safe (m >>= f) k Q :=
  weaken (bind hm hf) hk (fun _ h => h)

/-- `bind` when the first computation does not allocate -/
theorem bind0 {m : DM α} {f : α → DM β} {k : Nat} {P : α → Prop} {Q : β → Prop}
    (hm : Safe m 0 P) (hf : ∀ a, P a → Safe (f a) k Q) : Safe (m >>= f) k Q :=
  bind' hm hf (by omega)

theorem ite {c : Prop} [Decidable c] {a b : DM α} {k : Nat} {P : α → Prop}
    (ha : c → Safe a k P) (hb : ¬c → Safe b k P) : Safe (if c then a else b) k P := by
  split
  · exact ha ‹_›
  · exact hb ‹_›

theorem liftOpt (o : Option α) : Safe (DM.liftOpt o) 0 (fun a => o = some a) := by
  cases o with
  | none => exact fail
  | some a => exact pure rfl

theorem sliceTo {data : Bytes} {b : Nat} (h : b ≤ data.length) :
    Safe (sliceTo data b) 0 (fun r => r = data.take b) := by
  unfold Codec.sliceTo; rw [if_pos h]; exact pure rfl

theorem sliceFrom {data : Bytes} {a : Nat} (h : a ≤ data.length) :
    Safe (sliceFrom data a) 0 (fun r => r = data.drop a) := by
  unfold Codec.sliceFrom; rw [if_pos h]; exact pure rfl

theorem be16 {b : Bytes} (h : 2 ≤ b.length) : Safe (be16 b) 0 (fun r => r = beVal (b.take 2)) := by
  unfold Codec.be16; rw [if_pos h]; exact pure rfl

theorem be32 {b : Bytes} (h : 4 ≤ b.length) : Safe (be32 b) 0 (fun r => r = beVal (b.take 4)) := by
  unfold Codec.be32; rw [if_pos h]; exact pure rfl

/-- what `Safe` gives for a run from a fresh counter -/
theorem run_ne_panic {m : DM α} {k : Nat} {P : α → Prop} (h : Safe m k P) : m.run ≠ .panic := by
  intro hp
  have := h 0
  unfold DM.run at hp
  rw [hp] at this
  exact this

end Safe

/-- allocation count of an outcome -/
def Res.allocs {α : Type} : Res α → Nat
  | .ok _ n => n
  | .error _ n => n
  | .panic => 0

theorem Safe.run_allocs_le {α : Type} {m : DM α} {k : Nat} {P : α → Prop} (h : Safe m k P) :
    m.run.allocs ≤ k := by
  have := h 0
  unfold DM.run
  cases hm : m 0 with
  | ok a n => rw [hm] at this; simp [Res.allocs]; omega
  | error e n => rw [hm] at this; simp [Res.allocs]; simp at this; omega
  | panic => simp [Res.allocs]

end Atree.Codec
