import AtreeProofs.Codec.InlDefs
import AtreeProofs.Codec.EncLemmasC
/-
  The encoder's `InlinedExtraData` while a slab without compact maps is encoded: entries are only
  appended, stay valid, and the index handed to an inlined slab refers to its own extra data.
-/
namespace Atree.Codec
open Atree Atree.Gen DM

theorem addArrayXD_spec (xs : List XD) (ty : TyInfo) (hx : XOK xs) (hty : validTy ty) :
    (∃ t, (addArrayXD xs ty).2 = xs ++ t) ∧ XOK (addArrayXD xs ty).2 ∧
      (addArrayXD xs ty).2[(addArrayXD xs ty).1]? = some (.arr ty) := by
  unfold addArrayXD
  cases hf : findIdxFrom (fun x => match x with | .arr t => encodeTy t == encodeTy ty | _ => false) xs 0 with
  | none =>
    refine ⟨⟨[.arr ty], rfl⟩, hx.append (XOK.single_arr hty), ?_⟩
    simp
  | some i =>
    obtain ⟨_, y, hy, hp⟩ := findIdxFrom_some _ xs 0 i hf
    simp only [Nat.sub_zero] at hy
    refine ⟨⟨[], by simp⟩, hx, ?_⟩
    simp only [hy, Option.some.injEq]
    have hmem : y ∈ xs := List.mem_of_getElem? hy
    have hval := hx y hmem
    cases y with
    | arr t =>
      simp only at hp hval
      have := encodeTy_inj hval hty (eq_of_beq hp)
      rw [this]
    | map m => simp at hp
    | cmap a b c => simp at hp

theorem addMapXD_spec (xs : List XD) (x : MapExtra) (hx : XOK xs) (hv : validMapExtra x) :
    (∃ t, (addMapXD xs x).2 = xs ++ t) ∧ XOK (addMapXD xs x).2 ∧
      (addMapXD xs x).2[(addMapXD xs x).1]? = some (.map x) := by
  unfold addMapXD
  refine ⟨⟨[.map x], rfl⟩, hx.append (XOK.single_map hv), ?_⟩
  simp

/-- what holds of the encoder's state after encoding `x` from state `xs0` -/
def StateOK (xs0 xs1 : List XD) : Prop := (∃ t, xs1 = xs0 ++ t) ∧ XOK xs1

theorem StateOK.refl {xs : List XD} (h : XOK xs) : StateOK xs xs := ⟨⟨[], by simp⟩, h⟩

theorem StateOK.trans {a b c : List XD} (h1 : StateOK a b) (h2 : StateOK b c) : StateOK a c := by
  obtain ⟨⟨t1, rfl⟩, _⟩ := h1
  obtain ⟨⟨t2, rfl⟩, hc⟩ := h2
  exact ⟨⟨t1 ++ t2, by simp⟩, hc⟩

mutual
theorem encSt_state : (s : Stor) → (xs : List XD) → s.RTI → s.noCompact → XOK xs → StateOK xs (encSt s xs).2
  | .val _ _, xs, _, _, hx => by simp only [encSt]; exact StateOK.refl hx
  | .ref _, xs, _, _, hx => by simp only [encSt]; exact StateOK.refl hx
  | .some s, xs, h, nc, hx => by simp only [encSt]; exact encSt_state s xs h nc hx
  | .arr ty idx es, xs, h, nc, hx => by
    obtain ⟨ha, hxa, _⟩ := addArrayXD_spec xs ty hx h.1
    simp only [encSt]
    exact StateOK.trans ⟨ha, hxa⟩ (encSts_state es _ h.2.2.2.1 nc hxa)
  | .map x idx (.hkey level hkeys elems), xs, h, nc, hx => by
    obtain ⟨ha, hxa, _⟩ := addMapXD_spec xs x hx h.1
    have hc : compactKeys x elems = none := nc.1
    simp only [encSt, hc]
    exact StateOK.trans ⟨ha, hxa⟩ (encMElList_state elems _ h.2.2.1.2.2.2.2.1 nc.2 hxa)
  | .map x idx (.single level elems), xs, h, nc, hx => by
    obtain ⟨ha, hxa, _⟩ := addMapXD_spec xs x hx h.1
    simp only [encSt]
    exact StateOK.trans ⟨ha, hxa⟩ (encSElList_state elems _ h.2.2.1.2.2.2.1 nc hxa)
theorem encSts_state : (l : List Stor) → (xs : List XD) → rtiSts l → noCompactSts l → XOK xs →
    StateOK xs (encSts l xs).2
  | [], xs, _, _, hx => by simp only [encSts]; exact StateOK.refl hx
  | s :: ss, xs, h, nc, hx => by
    have h1 := encSt_state s xs h.1 nc.1 hx
    simp only [encSts]
    exact StateOK.trans h1 (encSts_state ss _ h.2 nc.2 h1.2)
theorem encSEl_state : (e : SEl) → (xs : List XD) → e.RTI → e.noCompact → XOK xs → StateOK xs (encSEl e xs).2
  | .mk k v, xs, h, nc, hx => by
    have h1 := encSt_state k xs h.1 nc.1 hx
    simp only [encSEl]
    exact StateOK.trans h1 (encSt_state v _ h.2.1 nc.2 h1.2)
theorem encMEl_state : (e : MEl) → (xs : List XD) → e.RTI → e.noCompact → XOK xs → StateOK xs (encMEl e xs).2
  | .single e, xs, h, nc, hx => by simp only [encMEl]; exact encSEl_state e xs h nc hx
  | .inl els, xs, h, nc, hx => by simp only [encMEl]; exact encMEls_state els xs h nc hx
  | .ext _, xs, _, _, hx => by simp only [encMEl]; exact StateOK.refl hx
theorem encMEls_state : (els : MEls) → (xs : List XD) → els.RTI → els.noCompact → XOK xs →
    StateOK xs (encMEls els xs).2
  | .hkey _ _ es, xs, h, nc, hx => by simp only [encMEls]; exact encMElList_state es xs h.2.2.2.2.1 nc hx
  | .single _ es, xs, h, nc, hx => by simp only [encMEls]; exact encSElList_state es xs h.2.2.2.1 nc hx
theorem encMElList_state : (l : List MEl) → (xs : List XD) → rtiMElList l → noCompactMElList l → XOK xs →
    StateOK xs (encMElList l xs).2
  | [], xs, _, _, hx => by simp only [encMElList]; exact StateOK.refl hx
  | e :: es, xs, h, nc, hx => by
    have h1 := encMEl_state e xs h.1 nc.1 hx
    simp only [encMElList]
    exact StateOK.trans h1 (encMElList_state es _ h.2 nc.2 h1.2)
theorem encSElList_state : (l : List SEl) → (xs : List XD) → rtiSElList l → noCompactSElList l → XOK xs →
    StateOK xs (encSElList l xs).2
  | [], xs, _, _, hx => by simp only [encSElList]; exact StateOK.refl hx
  | e :: es, xs, h, nc, hx => by
    have h1 := encSEl_state e xs h.1 nc.1 hx
    simp only [encSElList]
    exact StateOK.trans h1 (encSElList_state es _ h.2 nc.2 h1.2)
end

/-- an entry of a prefix is still there in the whole list -/
theorem getElem?_of_prefix {α : Type} {a t : List α} {i : Nat} {x : α} (h : a[i]? = some x) :
    (a ++ t)[i]? = some x := by
  have hi : i < a.length := by
    rcases Nat.lt_or_ge i a.length with h' | h'
    · exact h'
    · rw [List.getElem?_eq_none h'] at h; cases h
  rw [List.getElem?_append_left hi]; exact h

end Atree.Codec
