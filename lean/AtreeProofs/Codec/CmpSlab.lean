import AtreeProofs.Codec.CmpIED
/-
  `DecodeSlab` on encoded map data / collision-group slabs and array data slabs whose elements
  contain inlined slabs in ANY form — inlined arrays, inlined maps, compact maps, at any depth.
-/
namespace Atree.Codec
open Atree Atree.Gen DM

/-! ### map data slabs -/

/-- What the encoder and the decoder rely on for a map data slab, inlined arrays / maps allowed
    the compact form included. -/
structure MapDataOKC (s : MapData) : Prop where
  rt : s.els.RTI
  nodup : s.els.nodupKeys
  nest : s.els.vneedI ≤ maxNestedLevels
  entries : (encMEls s.els []).2.length ≤ 256
  next : validNext s.next
  extra : ∀ x, s.extra = some x → validMapExtra x
  size : s.size ≤ maxUint32

theorem mapDataContent_encC (id : SlabID) (h : SlabHead) (extra : Option MapExtra) (next : SlabID)
    (els : MEls) (hrt : els.RTI) (hnd : els.nodupKeys) (hnest : els.vneedI ≤ maxNestedLevels)
    (h256 : (encMEls els []).2.length ≤ 256)
    (hsz : versionAndFlagSize + els.size + (if h.isRoot then 0 else SlabIDLength) ≤ maxUint32)
    (more : Bytes) (n : Nat) :
    mapDataContent id h extra next (encMEls els []).2 ((encMEls els []).1 ++ more) n =
      .ok (.mdata { id := id, next := next, extra := extra, els := normMEls els [], anySize := !h.hasSizeLimit,
                    group := decide (h.mapType = .collisionGroup) }) (n + (normMEls els []).allocsI) := by
  have hw := wfNext_of_acc (accMElsC els [] hrt) hnest more
  have hdn := MEls.dneed_le els
  unfold mapDataContent
  rw [decMElsG_new _ _ _ _ _ _ hw]
  have hrem : ((encMEls els []).1 ++ more).length - more.length = (encMEls els []).1.length := by simp
  have hspec := decMElsG_encC els hrt hnd (((encMEls els []).1 ++ more).length + 1) 0 more (encMEls els []).1.length 0
    id.addr [] (encMEls els []).2 n XOKC.nil ⟨[], by simp⟩ h256
    (by simp only [List.length_append]; omega)
    (by simp only [maxDecodeDepth, maxNestedLevels] at hnest ⊢; omega) (Nat.le_refl _)
  rw [hrem, DM.bind_ok hspec]
  simp only [size_normMEls els [] hnd]
  have h1 : ¬ (versionAndFlagSize + els.size > maxUint32) := by split at hsz <;> omega
  have h2 : ¬ (¬ h.isRoot = true ∧ versionAndFlagSize + els.size + SlabIDLength > maxUint32) := by
    intro hc
    rw [if_neg hc.1] at hsz
    omega
  rw [DM.ite_apply, if_neg h1, DM.ite_apply, if_neg h2]
  rfl

/-- slice elements the decoder allocates for the inlined-extra-data section -/
def iedAllocsC (xs : List XD) : Nat :=
  if xs.isEmpty then 0 else (findDuplicateTypeInfo xs).length + xs.length + (xs.map xdAllocs).sum

/-- `newMapDataSlabFromDataV1` on what `MapDataSlab.Encode` writes after the two head bytes -/
theorem newMapDataSlabFromDataV1_encC (id : SlabID) (h : SlabHead) (extra : Option MapExtra) (next : SlabID)
    (els : MEls) (hroot : h.isRoot = extra.isSome) (hinl : h.hasInlinedSlabs = !(encMEls els []).2.isEmpty)
    (hnx : h.hasNextSlabID = decide (next ≠ SlabID.undef))
    (hrt : els.RTI) (hnd : els.nodupKeys) (hnest : els.vneedI ≤ maxNestedLevels)
    (h256 : (encMEls els []).2.length ≤ 256) (hnext : validNext next)
    (hextra : ∀ x, extra = some x → validMapExtra x)
    (hsz : versionAndFlagSize + els.size + (if extra.isSome then 0 else SlabIDLength) ≤ maxUint32)
    (more : Bytes) (n : Nat) :
    newMapDataSlabFromDataV1 id h (mapExtraBytes extra ++ (encodeIEDSection (encMEls els []).2 ++
        ((if decide (next ≠ SlabID.undef) = true then encodeSlabID next else []) ++ ((encMEls els []).1 ++ more)))) n =
      .ok (.mdata { id := id, next := next, extra := extra, els := normMEls els [], anySize := !h.hasSizeLimit,
                    group := decide (h.mapType = .collisionGroup) }) (n + iedAllocsC (encMEls els []).2 + (normMEls els []).allocsI) := by
  have hxok : XOKC (encMEls els []).2 := (encMEls_stateC els [] hrt XOKC.nil).2
  have hcontent : ∀ (nx : SlabID) (k : Nat), mapDataContent id h extra nx (encMEls els []).2 ((encMEls els []).1 ++ more) k =
      .ok (.mdata { id := id, next := nx, extra := extra, els := normMEls els [], anySize := !h.hasSizeLimit,
                    group := decide (h.mapType = .collisionGroup) }) (k + (normMEls els []).allocsI) := by
    intro nx k
    exact mapDataContent_encC id h extra nx els hrt hnd hnest h256 (by rw [hroot]; exact hsz) more k
  have hied : ∀ (k : Nat), mapDataV1AfterIED id h extra (encMEls els []).2
      ((if decide (next ≠ SlabID.undef) = true then encodeSlabID next else []) ++ ((encMEls els []).1 ++ more)) k =
      .ok (.mdata { id := id, next := next, extra := extra, els := normMEls els [], anySize := !h.hasSizeLimit,
                    group := decide (h.mapType = .collisionGroup) }) (k + (normMEls els []).allocsI) := by
    intro k
    unfold mapDataV1AfterIED
    rw [hnx]
    by_cases hn : next = SlabID.undef
    · subst hn
      simp only [ne_eq, not_true_eq_false, decide_false, Bool.false_eq_true, ↓reduceIte, List.nil_append]
      exact hcontent _ k
    · simp only [ne_eq, hn, not_false_eq_true, decide_true, ↓reduceIte]
      have hl : ¬ (encodeSlabID next ++ ((encMEls els []).1 ++ more)).length < SlabIDLength := by
        simp [length_encodeSlabID, SlabIDLength]
      rw [if_neg hl, newSlabIDFromRawBytes_enc_append next hnext.1 hnext.2]
      simp only [DM.pure_bind]
      unfold sliceFrom
      rw [if_pos (by simp [length_encodeSlabID, SlabIDLength])]
      simp only [DM.pure_bind]
      have hdrop : (encodeSlabID next ++ ((encMEls els []).1 ++ more)).drop SlabIDLength = (encMEls els []).1 ++ more :=
        List.drop_left' (by simp [length_encodeSlabID, SlabIDLength])
      rw [hdrop]
      exact hcontent _ k
  have hafter : mapDataV1AfterExtra id h extra (encodeIEDSection (encMEls els []).2 ++
      ((if decide (next ≠ SlabID.undef) = true then encodeSlabID next else []) ++ ((encMEls els []).1 ++ more))) n =
      .ok (.mdata { id := id, next := next, extra := extra, els := normMEls els [], anySize := !h.hasSizeLimit,
                    group := decide (h.mapType = .collisionGroup) }) (n + iedAllocsC (encMEls els []).2 + (normMEls els []).allocsI) := by
    unfold mapDataV1AfterExtra
    rw [hinl]
    by_cases hemp : (encMEls els []).2 = []
    · simp only [hemp, List.isEmpty_nil, Bool.not_true, Bool.false_eq_true, ↓reduceIte, encodeIEDSection,
        List.nil_append, iedAllocsC, Nat.add_zero]
      have := hied n
      rw [hemp] at this
      exact this
    · have hne : (encMEls els []).2.isEmpty = false := by
        cases hxs : (encMEls els []).2 with
        | nil => exact absurd hxs hemp
        | cons a b => rfl
      simp only [hne, Bool.not_false, ↓reduceIte, encodeIEDSection, iedAllocsC, Bool.false_eq_true]
      rw [DM.bind_ok (newInlinedExtraDataFromData_encC (encMEls els []).2 hxok hemp h256 _ n)]
      have := hied (n + (findDuplicateTypeInfo (encMEls els []).2).length + (encMEls els []).2.length +
        ((encMEls els []).2.map xdAllocs).sum)
      simp only [Nat.add_assoc] at this ⊢
      exact this
  unfold newMapDataSlabFromDataV1
  cases extra with
  | none =>
    simp only [Option.isSome_none] at hroot
    simp only [hroot, Bool.false_eq_true, ↓reduceIte, mapExtraBytes, List.nil_append]
    exact hafter
  | some x =>
    simp only [Option.isSome_some] at hroot
    simp only [hroot, ↓reduceIte, mapExtraBytes]
    rw [newMapExtraDataFromData_enc x (hextra x rfl)]
    simp only [DM.pure_bind]
    exact hafter

/-- `DecodeSlab` on the encoding of a map data / collision-group slab with inlined arrays / maps
    (any depth, shared and repeated type infos, the compact form included), followed by ANY `more` bytes:
    the decoded slab holds the elements as `normMEls` describes them -/
theorem decodeSlab_encodeMapDataC (s : MapData) (ok : MapDataOKC s) (more : Bytes) (n : Nat) :
    decodeSlab s.id (encodeMapData s ++ more) n
      = .ok (.mdata { s with els := normMEls s.els [] })
          (n + iedAllocsC (encMEls s.els []).2 + (normMEls s.els []).allocsI) := by
  obtain ⟨id, next, extra, els, anySize, group⟩ := s
  obtain ⟨hrt, hnd, hnest, h256, hnext, hextra, hsize⟩ := ok
  simp only at hrt hnd hnest h256 hnext hextra hsize
  have hf := head_mdata_facts (decide (next ≠ SlabID.undef)) (!(encMEls els []).2.isEmpty) group els.hasPtr anySize
    extra.isSome
  simp only at hf
  obtain ⟨hf1, hf2, hf3, hf4, _, hf6, hf7, hf8⟩ := hf
  unfold encodeMapData
  simp only [List.cons_append, List.nil_append, List.append_assoc]
  rw [decodeSlab_of_flat_unsupported (decodeSlabFlat_map _ _ _ _ n hf1),
    decodeSlabGen_mapData _ _ _ _ hf1 (by rw [hf2]; cases group <;> simp),
    newMapDataSlabFromData_cons2]
  have hty : ¬ ((if group = true then MapType.collisionGroup else MapType.data) ≠ MapType.data ∧
      (if group = true then MapType.collisionGroup else MapType.data) ≠ MapType.collisionGroup) := by
    cases group <;> simp
  rw [hf2, hf3, if_neg hty]
  simp only [show ¬ ((1 : Nat) = 0) by decide, ↓reduceIte]
  have hsz' : versionAndFlagSize + els.size + (if extra.isSome then 0 else SlabIDLength) ≤ maxUint32 := by
    simpa [MapData.size] using hsize
  have key := newMapDataSlabFromDataV1_encC id _ extra next els hf4 hf7 hf8 hrt hnd hnest h256 hnext hextra hsz' more n
  rw [hf6, hf2] at key
  refine Eq.trans ?_ (Eq.trans key ?_)
  · rfl
  · cases group <;> simp

/-! ### array data slabs with inlined children -/

/-- What the encoder and the decoder rely on for an array data slab that holds at least one inlined
    array / map, the compact form included. -/
structure ArrDataOKC (a : ArrData) : Prop where
  rt : rtiSts a.elems
  nodup : nodupKeysSts a.elems
  nest : vneedISts a.elems + 1 ≤ maxNestedLevels
  count : a.elems.length < 65536
  inlined : (encSts a.elems []).2 ≠ []
  entries : (encSts a.elems []).2.length ≤ 256
  next : validNext a.next
  ty : ∀ t, a.ty = some t → validTy t
  size : a.size ≤ maxUint32

theorem arrDataContentG_encC (id : SlabID) (isRoot : Bool) (ty : Option TyInfo) (next : SlabID)
    (elems : List Stor) (hrt : rtiSts elems) (hnd : nodupKeysSts elems)
    (hnest : vneedISts elems + 1 ≤ maxNestedLevels) (hcount : elems.length < 65536)
    (h256 : (encSts elems []).2.length ≤ 256)
    (hsz : (if isRoot then arrayRootDataSlabPrefixSize else arrayDataSlabPrefixSize) + sizeSts elems ≤ maxUint32)
    (extra : Bytes) (n : Nat) :
    arrDataContentG id isRoot ty next true (encSts elems []).2
        (arrayHead16 elems.length ++ ((encSts elems []).1 ++ extra)) n =
      if extra ≠ [] then .error .decoding (n + elems.length + allocsISts (normSts elems []))
      else .ok (.adata { id := id, next := next, ty := ty, elems := normSts elems [] })
        (n + elems.length + allocsISts (normSts elems [])) := by
  have hacc : Acc (arrayHead16 elems.length ++ (encSts elems []).1) (vneedISts elems + 1) := by
    have := Acc.array16 (l := encStParts elems []) (k := vneedISts elems)
      (by rw [encStParts_length]; exact hcount) (accStPartsC elems [] hrt)
    rw [encStParts_length, encStParts_flatten] at this
    exact this
  have hw := wfNext_of_acc hacc hnest extra
  rw [List.append_assoc] at hw
  have hdn := dneedSts_le elems
  have hL : (arrayHead16 elems.length ++ ((encSts elems []).1 ++ extra)).length
      = 3 + (encSts elems []).1.length + extra.length := by
    simp only [List.length_append, length_arrayHead16]; omega
  unfold arrDataContentG
  rw [if_neg (by rw [hL]; simp only [arrayDataSlabElementHeadSize]; omega)]
  have hhead : (Dec.new (arrayHead16 elems.length ++ ((encSts elems []).1 ++ extra))).decodeArrayHead
      = some (elems.length, (⟨(encSts elems []).1 ++ extra, (encSts elems []).1.length, 3⟩ : Dec)) := by
    show Dec.decodeHeadOf 4 _ = _
    rw [decodeHeadOf_new hw]
    have hrem : (arrayHead16 elems.length ++ ((encSts elems []).1 ++ extra)).length - extra.length
        = 3 + (encSts elems []).1.length := by
      rw [hL]; omega
    rw [hrem]
    have := decodeArrayHead_head16 hcount ((encSts elems []).1 ++ extra) (3 + (encSts elems []).1.length) 0 (by omega)
    simp only [Nat.zero_add, Nat.add_sub_cancel_left] at this
    exact this
  rw [hhead]
  simp only [DM.liftOpt_some, DM.pure_bind]
  have hc1 : ¬ (elems.length > maxUint32) := by simp only [maxUint32]; omega
  simp only [hc1, ↓reduceIte]
  rw [DM.alloc_bind]
  simp only
  have hspec := decStsG_encC elems hrt hnd ((arrayHead16 elems.length ++ ((encSts elems []).1 ++ extra)).length + 1) 0
    extra (encSts elems []).1.length 3 id.addr [] (encSts elems []).2
    (if isRoot then arrayRootDataSlabPrefixSize else arrayDataSlabPrefixSize) (n + elems.length)
    XOKC.nil ⟨[], by simp⟩ h256 (by rw [hL]; omega)
    (by simp only [maxDecodeDepth, maxNestedLevels] at hnest ⊢; omega) (Nat.le_refl _) hsz
  rw [DM.bind_ok hspec]
  simp only [Dec.numBytesDecoded, Nat.sub_self]
  by_cases hex : extra = []
  · subst hex
    have hc : ¬ (True ∧ 3 + (encSts elems []).1.length < (arrayHead16 elems.length ++ ((encSts elems []).1 ++ [])).length) := by
      rw [hL]; simp
    simp only [hc, ↓reduceIte, ne_eq, not_true_eq_false]
    rfl
  · have hpos : 0 < extra.length := List.length_pos_iff.2 hex
    have hc : 3 + (encSts elems []).1.length < (arrayHead16 elems.length ++ ((encSts elems []).1 ++ extra)).length := by
      rw [hL]; omega
    simp only [true_and, hc, ↓reduceIte, ne_eq, hex, not_false_eq_true]
    rfl

/-- the part of `newArrayDataSlabFromDataV1` after the root's extra data -/
theorem arrDataV1AfterExtraG_encC (id : SlabID) (h : SlabHead) (ty : Option TyInfo) (next : SlabID)
    (elems : List Stor) (hroot : h.isRoot = ty.isSome) (hinl : h.hasInlinedSlabs = true)
    (hnx : h.hasNextSlabID = decide (next ≠ SlabID.undef))
    (hrt : rtiSts elems) (hnd : nodupKeysSts elems) (hnest : vneedISts elems + 1 ≤ maxNestedLevels)
    (hcount : elems.length < 65536) (hne : (encSts elems []).2 ≠ []) (h256 : (encSts elems []).2.length ≤ 256)
    (hnext : validNext next)
    (hsz : (if ty.isSome then arrayRootDataSlabPrefixSize else arrayDataSlabPrefixSize) + sizeSts elems ≤ maxUint32)
    (extra : Bytes) (n : Nat) :
    arrDataV1AfterExtraG id h ty
      (encodeIED (encSts elems []).2 ++ ((if decide (next ≠ SlabID.undef) = true then encodeSlabID next else []) ++
        (arrayHead16 elems.length ++ ((encSts elems []).1 ++ extra)))) n =
      if extra ≠ [] then .error .decoding (n + iedAllocsC (encSts elems []).2 + elems.length + allocsISts (normSts elems []))
      else .ok (.adata { id := id, next := next, ty := ty, elems := normSts elems [] })
        (n + iedAllocsC (encSts elems []).2 + elems.length + allocsISts (normSts elems [])) := by
  have hxok : XOKC (encSts elems []).2 := (encSts_stateC elems [] hrt XOKC.nil).2
  have hemp : (encSts elems []).2.isEmpty = false := by
    cases hxs : (encSts elems []).2 with
    | nil => exact absurd hxs hne
    | cons a b => rfl
  unfold arrDataV1AfterExtraG
  rw [hinl]
  simp only [↓reduceIte]
  rw [DM.bind_ok (newInlinedExtraDataFromData_encC (encSts elems []).2 hxok hne h256 _ n)]
  simp only [iedAllocsC, hemp, Bool.false_eq_true, ↓reduceIte]
  unfold arrDataV1AfterIEDG
  rw [hnx, hroot]
  by_cases hnxt : next = SlabID.undef
  · have hd : decide (next ≠ SlabID.undef) = false := by simp [hnxt]
    simp only [hd, Bool.false_eq_true, ↓reduceIte, List.nil_append]
    have := arrDataContentG_encC id ty.isSome ty SlabID.undef elems hrt hnd hnest hcount h256 hsz extra
      (n + (findDuplicateTypeInfo (encSts elems []).2).length + (encSts elems []).2.length +
        ((encSts elems []).2.map xdAllocs).sum)
    rw [hnxt]
    simp only [Nat.add_assoc] at this ⊢
    exact this
  · have hd : decide (next ≠ SlabID.undef) = true := by simp [hnxt]
    simp only [hd, ↓reduceIte]
    rw [newSlabIDFromRawBytes_enc_append next hnext.1 hnext.2]
    simp only [DM.pure_bind]
    unfold sliceFrom
    rw [if_pos (by simp [length_encodeSlabID, SlabIDLength])]
    simp only [DM.pure_bind]
    rw [List.drop_left' (by simp [length_encodeSlabID, SlabIDLength])]
    have := arrDataContentG_encC id ty.isSome ty next elems hrt hnd hnest hcount h256 hsz extra
      (n + (findDuplicateTypeInfo (encSts elems []).2).length + (encSts elems []).2.length +
        ((encSts elems []).2.map xdAllocs).sum)
    simp only [Nat.add_assoc] at this ⊢
    exact this

/-- `DecodeSlab` on the encoding of an array data slab that holds inlined arrays / maps (any depth,
    shared and repeated type infos, the compact form included), followed by `extra` bytes: the decoded
    slab holds the elements as `normSts` describes them -/
theorem decodeSlab_encodeArrDataC (a : ArrData) (ok : ArrDataOKC a) (extra : Bytes) (n : Nat) :
    decodeSlab a.id (encodeArrData a ++ extra) n =
      if extra ≠ [] then
        .error .decoding (n + iedAllocsC (encSts a.elems []).2 + a.elems.length + allocsISts (normSts a.elems []))
      else .ok (.adata { a with elems := normSts a.elems [] })
        (n + iedAllocsC (encSts a.elems []).2 + a.elems.length + allocsISts (normSts a.elems [])) := by
  obtain ⟨id, next, ty, elems⟩ := a
  obtain ⟨hrt, hnd, hnest, hcount, hinl, h256, hnext, hty, hsize⟩ := ok
  simp only at hrt hnd hnest hcount hinl h256 hnext hty hsize
  have hne : (encSts elems []).2.isEmpty = false := by
    cases hxs : (encSts elems []).2 with
    | nil => exact absurd hxs hinl
    | cons a b => rfl
  have hf := head_adata_facts (decide (next ≠ SlabID.undef)) true (anyPtrSts elems) ty.isSome
  simp only at hf
  obtain ⟨hf1, hf2, hf3, hf4, _, _, hf7, hf8⟩ := hf
  have hsz' : (if ty.isSome then arrayRootDataSlabPrefixSize else arrayDataSlabPrefixSize) + sizeSts elems ≤ maxUint32 := by
    simpa [ArrData.size] using hsize
  have hgen := arrDataV1AfterExtraG_encC id _ ty next elems hf4 hf7 hf8 hrt hnd hnest hcount hinl h256 hnext hsz' extra n
  unfold encodeArrData
  simp only [hne, Bool.not_false, List.cons_append, List.nil_append, List.append_assoc, encodeIEDSection,
    Bool.false_eq_true, ↓reduceIte]
  cases ty with
  | none =>
    have hr4 : _ = false := hf4
    simp only [List.nil_append]
    have hflat := decodeSlabFlat_adata_inlined id _ _
      (encodeIED (encSts elems []).2 ++ ((if decide (next ≠ SlabID.undef) = true then encodeSlabID next else []) ++
        (arrayHead16 elems.length ++ ((encSts elems []).1 ++ extra)))) n hf1 hf2 hf3 hf7
      (by intro hr; rw [hr4] at hr; cases hr)
    rw [decodeSlab_of_flat_unsupported hflat, decodeSlabGen_cons2, hf1]
    simp only [hf2]
    rw [newArrayDataSlabFromDataG_cons2, hf2, hf3]
    simp only [ne_eq, not_true_eq_false, ↓reduceIte, show ¬ ((1 : Nat) = 0) by decide]
    unfold newArrayDataSlabFromDataV1G
    rw [hr4]
    simp only [Bool.false_eq_true, ↓reduceIte]
    exact hgen
  | some t =>
    have hr4 : _ = true := hf4
    have hflat := decodeSlabFlat_adata_inlined id _ _
      (encodeExtraData t ++ (encodeIED (encSts elems []).2 ++
        ((if decide (next ≠ SlabID.undef) = true then encodeSlabID next else []) ++
        (arrayHead16 elems.length ++ ((encSts elems []).1 ++ extra))))) n hf1 hf2 hf3 hf7
      (by intro _; exact ⟨t, _, newArrayExtraDataFromData_enc t (hty t rfl) _⟩)
    rw [decodeSlab_of_flat_unsupported hflat, decodeSlabGen_cons2, hf1]
    simp only [hf2]
    rw [newArrayDataSlabFromDataG_cons2, hf2, hf3]
    simp only [ne_eq, not_true_eq_false, ↓reduceIte, show ¬ ((1 : Nat) = 0) by decide]
    unfold newArrayDataSlabFromDataV1G
    rw [hr4]
    simp only [↓reduceIte]
    rw [newArrayExtraDataFromData_enc t (hty t rfl)]
    simp only [DM.pure_bind]
    exact hgen

end Atree.Codec
