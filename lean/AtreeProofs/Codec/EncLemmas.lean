import AtreeModel.Codec.Encode
/-
  Byte-level facts about the encoders: big-endian round trip, lengths of heads, elements, element
  arrays and child headers, and the length laws of C06.
-/
namespace Atree.Codec
open Atree Atree.Gen

@[simp] theorem length_beBytes (k n : Nat) : (beBytes k n).length = k := by
  induction k with
  | zero => rfl
  | succ k ih => simp [beBytes, ih]

theorem beVal_beBytes_mod (k n : Nat) : beVal (beBytes k n) = n % 256 ^ k := by
  induction k with
  | zero => simp [beBytes, beVal, Nat.mod_one]
  | succ k ih =>
    simp only [beBytes, beVal, length_beBytes, ih]
    rw [Nat.mod_pow_succ]
    rw [Nat.mul_comm, Nat.add_comm]

theorem beVal_beBytes {k n : Nat} (h : n < 256 ^ k) : beVal (beBytes k n) = n := by
  rw [beVal_beBytes_mod, Nat.mod_eq_of_lt h]

theorem beVal_append_zeros (b : Bytes) (z : Nat) :
    beVal (b ++ List.replicate z 0) = beVal b * 256 ^ z := by
  induction b with
  | nil =>
    simp only [List.nil_append, beVal, Nat.zero_mul]
    induction z with
    | zero => rfl
    | succ z ih => simp [List.replicate_succ, beVal, ih]
  | cons x xs ih =>
    simp only [List.cons_append, beVal, ih, List.length_append, List.length_replicate]
    rw [Nat.pow_add, Nat.add_mul, Nat.mul_assoc]

theorem length_head (m n : Nat) : (head m n).length = headLen n := by
  unfold head headLen
  repeat' split
  all_goals simp

theorem length_tvContent (l p : Nat) : (tvContent l p).length = l := by
  unfold tvContent
  simp only [List.length_append, length_beBytes, List.length_replicate]
  omega

theorem isGap_iff (size : Nat) : isGap size = true ↔ size = 25 ∨ size = 258 ∨ size = 65539 := by
  unfold isGap
  simp only [Bool.or_eq_true, beq_iff_eq]
  constructor
  · rintro ((h | h) | h) <;> simp [h]
  · rintro (h | h | h) <;> simp [h]

/-- sizes of the byte-string encoding of a harness value: tag (if gap) + head + content -/
theorem tv_size {size : Nat} (h1 : 1 ≤ size) (h2 : size ≠ 65540) (h3 : size < 2 ^ 32) :
    (if isGap size then 2 else 0) + headLen (tvLen size) + tvLen size = size := by
  unfold tvLen
  by_cases hg : isGap size = true
  · rw [if_pos hg, if_pos hg]
    rcases (isGap_iff size).1 hg with h | h | h <;> subst h <;> decide
  · rw [if_neg hg, if_neg hg]
    have hng := mt (isGap_iff size).2 hg
    unfold bsLen headLen
    repeat' split
    all_goals omega

theorem length_encodeSlabID (id : SlabID) : (encodeSlabID id).length = 16 := by
  simp [encodeSlabID, SlabAddressLength, SlabIndexLength]

/-- C06, elements: the encoded length of every valid element is its size. -/
theorem elem_size_eq_enc_len (e : Elem) (hv : validElem e) : (encodeElem e).length = e.size := by
  unfold validElem at hv
  unfold encodeElem
  cases hp : e.pay with
  | ref id =>
    rw [hp] at hv
    simp only at hv ⊢
    simp only [List.length_append, length_encodeSlabID, length_head, tagHead8, List.length_cons,
      List.length_nil, headLen, SlabIDLength]
    rw [hv.1]; simp [slabIDStorableSize, SlabIDLength]
  | val p =>
    rw [hp] at hv
    simp only at hv ⊢
    have := tv_size hv.1 hv.2.1 hv.2.2.1
    simp only [List.length_append, length_head, length_tvContent]
    split <;> simp_all [tagHead8] <;> omega

theorem length_flatMap_encodeElem (l : List Elem) (hv : ∀ e ∈ l, validElem e) :
    (l.flatMap encodeElem).length = sumSizes l := by
  induction l with
  | nil => rfl
  | cons e es ih =>
    simp only [List.flatMap_cons, List.length_append, sumSizes, List.map_cons, List.sum_cons]
    rw [elem_size_eq_enc_len e (hv e (List.mem_cons_self ..))]
    have := ih (fun x hx => hv x (List.mem_cons_of_mem _ hx))
    unfold sumSizes at this
    rw [this]

theorem length_encodeElements (l : List Elem) (hv : ∀ e ∈ l, validElem e) :
    (encodeElements l).length = arrayDataSlabElementHeadSize + sumSizes l := by
  unfold encodeElements arrayHead16
  simp [length_flatMap_encodeElem l hv, arrayDataSlabElementHeadSize]; omega

theorem length_encodeChildHdr (h : Hdr) : (encodeChildHdr h).length = arraySlabHeaderSize := by
  simp [encodeChildHdr, SlabIndexLength, arraySlabHeaderSize]

theorem length_flatMap_encodeChildHdr (l : List Hdr) :
    (l.flatMap encodeChildHdr).length = arraySlabHeaderSize * l.length := by
  induction l with
  | nil => rfl
  | cons h hs ih =>
    simp only [List.flatMap_cons, List.length_append, length_encodeChildHdr, ih, List.length_cons]
    simp [arraySlabHeaderSize]; omega

theorem enc_len_data (ty : TyInfo) (s : DataSlab)
    (hsize : s.hdr.size = s.prefixSize + sumSizes s.elems)
    (hinl : s.inlined = false)
    (hroot : s.root = true → s.next = SlabID.undef)
    (hv : ∀ e ∈ s.elems, validElem e) :
    (encodeDataSlab ty s).length + (if s.root = false ∧ s.next = SlabID.undef then 16 else 0)
      = s.hdr.size + (if s.root then (encodeExtraData ty).length else 0) := by
  unfold encodeDataSlab
  rw [hsize]
  simp only [DataSlab.prefixSize, hinl, List.length_append, length_encodeElements s.elems hv,
    List.length_cons, List.length_nil, arrayDataSlabElementHeadSize, arrayRootDataSlabPrefixSize,
    arrayDataSlabPrefixSize]
  cases hr : s.root with
  | true =>
    have := hroot hr
    simp [this]; omega
  | false =>
    by_cases hn : s.next = SlabID.undef
    · simp [hn]; omega
    · simp [hn, length_encodeSlabID]; omega

theorem enc_len_meta {α : Type} (ty : TyInfo) (m : MetaSlab α)
    (hsize : m.hdr.size = arrayMetaDataSlabPrefixSize + arraySlabHeaderSize * m.childHdrs.length) :
    (encodeMetaSlab ty m).length = m.hdr.size + (if m.root then (encodeExtraData ty).length else 0) := by
  unfold encodeMetaSlab
  rw [hsize]
  simp only [List.length_append, length_flatMap_encodeChildHdr, length_beBytes, List.length_cons,
    List.length_nil, arrayMetaDataSlabPrefixSize, SlabAddressLength]
  cases m.root <;> simp <;> omega

theorem enc_len_storable (e : Elem) (hv : validElem e) :
    (encodeStorableSlab e).length = versionAndFlagSize + e.size := by
  unfold encodeStorableSlab
  simp [elem_size_eq_enc_len e hv, versionAndFlagSize]; omega

end Atree.Codec
