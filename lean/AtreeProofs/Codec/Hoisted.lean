import AtreeProofs.Codec.EncLemmasC
import AtreeModel.Codec.Limits
/-
  The EXACT length law with compact maps:

      (encSt s xs).1.length + s.hoisted = s.size

  `Stor.hoisted` (AtreeModel/Codec/Limits.lean) is the number of bytes the compact form of an inlined
  map does not write in place: per compact-encoded map the `hkeyElements` head (8 bytes) that is
  replaced by a plain CBOR array head, and per key its digest (8), the single-element head (1) and
  the key itself; recursively for keys and values.  `lenSt_le` (EncLemmasC.lean) only says
  `written ≤ reported`, which an encoder that drops values satisfies too; this one does not leave
  that freedom.
-/
namespace Atree.Codec
open Atree Atree.Gen

/-! ### a measure of the value stored under a key, generically -/

/-- `f` of the value of the first single element whose key is `k` (0 if there is none) -/
def valFOf (f : Stor → Nat) (k : Nat × Nat) : List MEl → Nat
  | [] => 0
  | .single (.mk (.val s p) v) :: rest => if (s, p) = k then f v else valFOf f k rest
  | _ :: rest => valFOf f k rest

/-- sum of `f` over the values of the single elements -/
def valFSum (f : Stor → Nat) : List MEl → Nat
  | [] => 0
  | .single (.mk _ v) :: rest => f v + valFSum f rest
  | _ :: rest => valFSum f rest

/-- over the map's own (distinct) keys, the looked-up measures add up to the sum over the values -/
theorem sum_valFOf_keys (f : Stor → Nat) : ∀ (elems : List MEl) (keys : List (Nat × Nat)),
    elems.mapM compactKey = some keys → keys.Nodup →
    (keys.map (fun k => valFOf f k elems)).sum = valFSum f elems := by
  intro elems
  induction elems with
  | nil =>
    intro keys h _
    simp only [List.mapM_nil, Option.pure_def, Option.some.injEq] at h
    subst h; rfl
  | cons e es ih =>
    intro keys h hnd
    rw [List.mapM_cons] at h
    cases hk : compactKey e with
    | none => rw [hk] at h; cases h
    | some k0 =>
      rw [hk] at h
      cases hm : es.mapM compactKey with
      | none => rw [hm] at h; cases h
      | some ks =>
        rw [hm] at h
        simp only [Option.pure_def, Option.bind_eq_bind, Option.bind_some, Option.some.injEq] at h
        subst h
        obtain ⟨hnot, hnd'⟩ := List.nodup_cons.1 hnd
        match e, hk with
        | .single (.mk (.val s p) v), hk =>
          simp only [compactKey, Option.some.injEq] at hk
          subst hk
          have ih' := ih ks hm hnd'
          have hrest : (ks.map (fun k => valFOf f k (MEl.single (SEl.mk (Stor.val s p) v) :: es)))
              = ks.map (fun k => valFOf f k es) := by
            apply List.map_congr_left
            intro k hkin
            have hne : (s, p) ≠ k := fun h => hnot (h ▸ hkin)
            simp only [valFOf, hne, ↓reduceIte]
          rw [List.map_cons, List.sum_cons, hrest, ih']
          simp only [valFOf, ↓reduceIte, valFSum]

/-- the bytes hoisted per key: digest, single-element head, the key -/
def keyHoist (k : Nat × Nat) : Nat := digestSize + singleElementPrefixSize + k.1

/-- a compact-eligible element list: its size is the values plus what is hoisted per key, and what it
    hoists below is what its values hoist (the keys are plain values) -/
theorem compact_size_split : ∀ (elems : List MEl) (keys : List (Nat × Nat)),
    elems.mapM compactKey = some keys →
    sizeMEl elems = valFSum Stor.size elems + (keys.map keyHoist).sum ∧
    hoistedMElList elems = valFSum Stor.hoisted elems ∧
    9 * keys.length ≤ (keys.map keyHoist).sum := by
  intro elems
  induction elems with
  | nil =>
    intro keys h
    simp only [List.mapM_nil, Option.pure_def, Option.some.injEq] at h
    subst h
    simp [sizeMEl, valFSum, hoistedMElList]
  | cons e es ih =>
    intro keys h
    rw [List.mapM_cons] at h
    cases hk : compactKey e with
    | none => rw [hk] at h; cases h
    | some k0 =>
      rw [hk] at h
      cases hm : es.mapM compactKey with
      | none => rw [hm] at h; cases h
      | some ks =>
        rw [hm] at h
        simp only [Option.pure_def, Option.bind_eq_bind, Option.bind_some, Option.some.injEq] at h
        subst h
        obtain ⟨ih1, ih2, ih3⟩ := ih ks hm
        match e, hk with
        | .single (.mk (.val s p) v), hk =>
          simp only [compactKey, Option.some.injEq] at hk
          subst hk
          simp only [sizeMEl, MEl.size, SEl.size, Stor.size, valFSum, List.map_cons, List.sum_cons, keyHoist,
            hoistedMElList, MEl.hoisted, SEl.hoisted, Stor.hoisted, List.length_cons, digestSize,
            singleElementPrefixSize] at ih1 ih2 ih3 ⊢
          omega

/-- the loop of `encodeCompactMapValues` over the cached keys, exactly -/
theorem foldl_encFind_exact (elems : List MEl)
    (hfind : ∀ k xs, (encFind k elems xs).1.length + valFOf Stor.hoisted k elems = valFOf Stor.size k elems) :
    ∀ (ks : List (Nat × Nat)) (acc : Bytes × List XD),
      (ks.foldl (fun (acc : Bytes × List XD) k =>
          let v := encFind k elems acc.2
          (acc.1 ++ v.1, v.2)) acc).1.length + (ks.map (fun k => valFOf Stor.hoisted k elems)).sum
        = acc.1.length + (ks.map (fun k => valFOf Stor.size k elems)).sum := by
  intro ks
  induction ks with
  | nil => intro acc; simp
  | cons k ks ih =>
    intro acc
    simp only [List.foldl_cons, List.map_cons, List.sum_cons]
    have h1 := ih (acc.1 ++ (encFind k elems acc.2).1, (encFind k elems acc.2).2)
    have h2 := hfind k acc.2
    simp only [List.length_append] at h1
    omega

mutual
/-- bytes written in place + bytes hoisted into the shared section = computed size -/
theorem lenSt_exact : (s : Stor) → (xs : List XD) → s.OK → s.nodupKeys →
    (encSt s xs).1.length + s.hoisted = s.size
  | .val size pay, xs, h, _ => by
    simp only [encSt, Stor.size, Stor.hoisted, Nat.add_zero]
    exact elem_size_eq_enc_len _ h
  | .ref id, xs, _, _ => by
    simp only [encSt, Stor.size, Stor.hoisted, Nat.add_zero]
    exact length_encodeRef id
  | .some s, xs, h, nd => by
    have ih := lenSt_exact s xs h nd
    simp only [encSt, Stor.size, Stor.hoisted, List.length_append, tagHead8, List.length_cons, List.length_nil,
      someOverhead]
    omega
  | .arr ty idx es, xs, h, nd => by
    have ih := lenSts_exact es (addArrayXD xs ty).2 h nd
    simp only [encSt, Stor.size, Stor.hoisted, List.length_append, length_inlinedHead, length_encodeIdx,
      length_arrayHead16, inlinedArrayDataSlabPrefixSize]
    omega
  | .map x idx (.hkey level hkeys elems), xs, h, nd => by
    cases hc : compactKeys x elems with
    | none =>
      have ih := lenMElList_exact elems (addMapXD xs x).2 h.2 nd.2
      simp only [encSt, hc, Stor.size, Stor.hoisted, MEls.size, List.length_append, length_inlinedHead,
        length_encodeIdx, length_arrayHead16, length_bytesHead16, length_encodeHkeys, List.length_cons,
        List.length_nil, inlinedMapDataSlabPrefixSize, hkeyElementsPrefixSize]
      have := h.1
      omega
    | some keys =>
      have hm := compactKeys_mapM hc
      have hnd := nd.1 keys hc
      have hperm := addCompactXD_perm xs x hkeys keys
      have hfind : ∀ k xs', (encFind k elems xs').1.length + valFOf Stor.hoisted k elems
          = valFOf Stor.size k elems :=
        fun k xs' => lenFind_exact k elems xs' h.2 nd.2
      have hfold := foldl_encFind_exact elems hfind (addCompactXD xs x hkeys keys).2.1
        ([], (addCompactXD xs x hkeys keys).2.2)
      have hsumS : ((addCompactXD xs x hkeys keys).2.1.map (fun k => valFOf Stor.size k elems)).sum
          = valFSum Stor.size elems := by
        rw [(List.Perm.map _ hperm).sum_nat]
        exact sum_valFOf_keys Stor.size elems keys hm hnd
      have hsumH : ((addCompactXD xs x hkeys keys).2.1.map (fun k => valFOf Stor.hoisted k elems)).sum
          = valFSum Stor.hoisted elems := by
        rw [(List.Perm.map _ hperm).sum_nat]
        exact sum_valFOf_keys Stor.hoisted elems keys hm hnd
      have hlen : (addCompactXD xs x hkeys keys).2.1.length = keys.length := hperm.length_eq
      obtain ⟨hsz, hho, h9n⟩ := compact_size_split elems keys hm
      have h9 := headLen_le_nine keys.length
      have h1 : keys.length = 0 → headLen keys.length = 1 := by intro h0; rw [h0]; rfl
      have hK : (keys.map (fun k => digestSize + singleElementPrefixSize + k.1)).sum = (keys.map keyHoist).sum := rfl
      simp only [encSt, hc, Stor.size, Stor.hoisted, MEls.size, List.length_append, length_inlinedHead,
        length_encodeIdx, length_head, hlen, hK, inlinedMapDataSlabPrefixSize, hkeyElementsPrefixSize]
      rw [hsumS, hsumH] at hfold
      simp only [List.length_nil, Nat.zero_add] at hfold
      omega
  | .map x idx (.single level elems), xs, h, nd => by
    have ih := lenSElList_exact elems (addMapXD xs x).2 h nd
    simp only [encSt, Stor.size, Stor.hoisted, MEls.size, List.length_append, length_inlinedHead, length_encodeIdx,
      length_arrayHead16, List.length_cons, List.length_nil, inlinedMapDataSlabPrefixSize, singleElementsPrefixSize]
    omega
theorem lenSts_exact : (l : List Stor) → (xs : List XD) → okSts l → nodupKeysSts l →
    (encSts l xs).1.length + hoistedSts l = sizeSts l
  | [], xs, _, _ => by simp [encSts, sizeSts, hoistedSts]
  | s :: ss, xs, h, nd => by
    have ih1 := lenSt_exact s xs h.1 nd.1
    have ih2 := lenSts_exact ss (encSt s xs).2 h.2 nd.2
    simp only [encSts, sizeSts, hoistedSts, List.length_append]
    omega
theorem lenFind_exact : (k : Nat × Nat) → (l : List MEl) → (xs : List XD) → okMElList l → nodupKeysMElList l →
    (encFind k l xs).1.length + valFOf Stor.hoisted k l = valFOf Stor.size k l
  | k, [], xs, _, _ => by simp [encFind, valFOf]
  | k, .single (.mk (.val s p) v) :: rest, xs, h, nd => by
    simp only [encFind, valFOf]
    split
    · exact lenSt_exact v xs h.1.2 nd.1.2
    · exact lenFind_exact k rest xs h.2 nd.2
  | k, .single (.mk (.ref _) _) :: rest, xs, h, nd => by
    simp only [encFind, valFOf]; exact lenFind_exact k rest xs h.2 nd.2
  | k, .single (.mk (.some _) _) :: rest, xs, h, nd => by
    simp only [encFind, valFOf]; exact lenFind_exact k rest xs h.2 nd.2
  | k, .single (.mk (.arr _ _ _) _) :: rest, xs, h, nd => by
    simp only [encFind, valFOf]; exact lenFind_exact k rest xs h.2 nd.2
  | k, .single (.mk (.map _ _ _) _) :: rest, xs, h, nd => by
    simp only [encFind, valFOf]; exact lenFind_exact k rest xs h.2 nd.2
  | k, .inl _ :: rest, xs, h, nd => by
    simp only [encFind, valFOf]; exact lenFind_exact k rest xs h.2 nd.2
  | k, .ext _ :: rest, xs, h, nd => by
    simp only [encFind, valFOf]; exact lenFind_exact k rest xs h.2 nd.2
theorem lenSEl_exact : (e : SEl) → (xs : List XD) → e.OK → e.nodupKeys →
    (encSEl e xs).1.length + e.hoisted = e.size
  | .mk k v, xs, h, nd => by
    have ih1 := lenSt_exact k xs h.1 nd.1
    have ih2 := lenSt_exact v (encSt k xs).2 h.2 nd.2
    simp only [encSEl, SEl.size, SEl.hoisted, List.length_cons, List.length_append, singleElementPrefixSize]
    omega
theorem lenMEl_exact : (e : MEl) → (xs : List XD) → e.OK → e.nodupKeys →
    (encMEl e xs).1.length + e.hoisted = e.size
  | .single e, xs, h, nd => by
    simp only [encMEl, MEl.size, MEl.hoisted]
    exact lenSEl_exact e xs h nd
  | .inl els, xs, h, nd => by
    have ih := lenMEls_exact els xs h nd
    simp only [encMEl, MEl.size, MEl.hoisted, List.length_append, tagHead8, List.length_cons, List.length_nil,
      inlineCollisionGroupPrefixSize]
    omega
  | .ext id, xs, _, _ => by
    simp only [encMEl, MEl.size, MEl.hoisted, List.length_append, tagHead8, List.length_cons, List.length_nil,
      length_encodeRef, externalCollisionGroupPrefixSize]
    omega
theorem lenMEls_exact : (els : MEls) → (xs : List XD) → els.OK → els.nodupKeys →
    (encMEls els xs).1.length + els.hoisted = els.size
  | .hkey level hkeys elems, xs, h, nd => by
    have ih := lenMElList_exact elems xs h.2 nd
    simp only [encMEls, MEls.size, MEls.hoisted, List.length_append, length_arrayHead16, length_bytesHead16,
      length_encodeHkeys, List.length_cons, List.length_nil, hkeyElementsPrefixSize]
    have := h.1
    omega
  | .single level elems, xs, h, nd => by
    have ih := lenSElList_exact elems xs h nd
    simp only [encMEls, MEls.size, MEls.hoisted, List.length_append, length_arrayHead16, List.length_cons,
      List.length_nil, singleElementsPrefixSize]
    omega
theorem lenMElList_exact : (l : List MEl) → (xs : List XD) → okMElList l → nodupKeysMElList l →
    (encMElList l xs).1.length + 8 * l.length + hoistedMElList l = sizeMEl l
  | [], xs, _, _ => by simp [encMElList, sizeMEl, hoistedMElList]
  | e :: es, xs, h, nd => by
    have ih1 := lenMEl_exact e xs h.1 nd.1
    have ih2 := lenMElList_exact es (encMEl e xs).2 h.2 nd.2
    simp only [encMElList, sizeMEl, hoistedMElList, List.length_append, List.length_cons, digestSize]
    omega
theorem lenSElList_exact : (l : List SEl) → (xs : List XD) → okSElList l → nodupKeysSElList l →
    (encSElList l xs).1.length + hoistedSElList l = sizeSEl l
  | [], xs, _, _ => by simp [encSElList, sizeSEl, hoistedSElList]
  | e :: es, xs, h, nd => by
    have ih1 := lenSEl_exact e xs h.1 nd.1
    have ih2 := lenSElList_exact es (encSEl e xs).2 h.2 nd.2
    simp only [encSElList, sizeSEl, hoistedSElList, List.length_append]
    omega
end

/-! ### without compact maps nothing is hoisted -/

mutual
theorem Stor.hoisted_noCompact : (s : Stor) → s.noCompact → s.hoisted = 0
  | .val _ _, _ => rfl
  | .ref _, _ => rfl
  | .some s, nc => by simp only [Stor.hoisted]; exact Stor.hoisted_noCompact s nc
  | .arr _ _ es, nc => by simp only [Stor.hoisted]; exact hoistedSts_noCompact es nc
  | .map x _ (.hkey _ _ es), nc => by
    have hc : compactKeys x es = none := nc.1
    simp only [Stor.hoisted, hc]; exact hoistedMElList_noCompact es nc.2
  | .map _ _ (.single _ es), nc => by simp only [Stor.hoisted]; exact hoistedSElList_noCompact es nc
theorem hoistedSts_noCompact : (l : List Stor) → noCompactSts l → hoistedSts l = 0
  | [], _ => rfl
  | s :: ss, nc => by
    simp only [hoistedSts, Stor.hoisted_noCompact s nc.1, hoistedSts_noCompact ss nc.2]
theorem SEl.hoisted_noCompact : (e : SEl) → e.noCompact → e.hoisted = 0
  | .mk k v, nc => by simp only [SEl.hoisted, Stor.hoisted_noCompact k nc.1, Stor.hoisted_noCompact v nc.2]
theorem MEl.hoisted_noCompact : (e : MEl) → e.noCompact → e.hoisted = 0
  | .single e, nc => by simp only [MEl.hoisted]; exact SEl.hoisted_noCompact e nc
  | .inl els, nc => by simp only [MEl.hoisted]; exact MEls.hoisted_noCompact els nc
  | .ext _, _ => rfl
theorem MEls.hoisted_noCompact : (els : MEls) → els.noCompact → els.hoisted = 0
  | .hkey _ _ es, nc => by simp only [MEls.hoisted]; exact hoistedMElList_noCompact es nc
  | .single _ es, nc => by simp only [MEls.hoisted]; exact hoistedSElList_noCompact es nc
theorem hoistedMElList_noCompact : (l : List MEl) → noCompactMElList l → hoistedMElList l = 0
  | [], _ => rfl
  | e :: es, nc => by
    simp only [hoistedMElList, MEl.hoisted_noCompact e nc.1, hoistedMElList_noCompact es nc.2]
theorem hoistedSElList_noCompact : (l : List SEl) → noCompactSElList l → hoistedSElList l = 0
  | [], _ => rfl
  | e :: es, nc => by
    simp only [hoistedSElList, SEl.hoisted_noCompact e nc.1, hoistedSElList_noCompact es nc.2]
end

/-! ### `noCompact` implies `nodupKeys` (no compact-eligible map, nothing to be distinct) -/

mutual
theorem Stor.nodupKeys_of_noCompact : (s : Stor) → s.noCompact → s.nodupKeys
  | .val _ _, _ => trivial
  | .ref _, _ => trivial
  | .some s, nc => Stor.nodupKeys_of_noCompact s nc
  | .arr _ _ es, nc => nodupKeysSts_of_noCompact es nc
  | .map x _ (.hkey _ _ es), nc => by
    have hc : compactKeys x es = none := nc.1
    exact ⟨fun keys h => (by rw [hc] at h; cases h), nodupKeysMElList_of_noCompact es nc.2⟩
  | .map _ _ (.single _ es), nc => nodupKeysSElList_of_noCompact es nc
theorem nodupKeysSts_of_noCompact : (l : List Stor) → noCompactSts l → nodupKeysSts l
  | [], _ => trivial
  | s :: ss, nc => ⟨Stor.nodupKeys_of_noCompact s nc.1, nodupKeysSts_of_noCompact ss nc.2⟩
theorem SEl.nodupKeys_of_noCompact : (e : SEl) → e.noCompact → e.nodupKeys
  | .mk k v, nc => ⟨Stor.nodupKeys_of_noCompact k nc.1, Stor.nodupKeys_of_noCompact v nc.2⟩
theorem MEl.nodupKeys_of_noCompact : (e : MEl) → e.noCompact → e.nodupKeys
  | .single e, nc => SEl.nodupKeys_of_noCompact e nc
  | .inl els, nc => MEls.nodupKeys_of_noCompact els nc
  | .ext _, _ => trivial
theorem MEls.nodupKeys_of_noCompact : (els : MEls) → els.noCompact → els.nodupKeys
  | .hkey _ _ es, nc => nodupKeysMElList_of_noCompact es nc
  | .single _ es, nc => nodupKeysSElList_of_noCompact es nc
theorem nodupKeysMElList_of_noCompact : (l : List MEl) → noCompactMElList l → nodupKeysMElList l
  | [], _ => trivial
  | e :: es, nc => ⟨MEl.nodupKeys_of_noCompact e nc.1, nodupKeysMElList_of_noCompact es nc.2⟩
theorem nodupKeysSElList_of_noCompact : (l : List SEl) → noCompactSElList l → nodupKeysSElList l
  | [], _ => trivial
  | e :: es, nc => ⟨SEl.nodupKeys_of_noCompact e nc.1, nodupKeysSElList_of_noCompact es nc.2⟩
end

/-! ### standalone slabs that may hold compact maps: the exact law -/

theorem enc_len_mdata_exact (s : MapData) (ok : s.els.OK) (nd : s.els.nodupKeys)
    (hroot : s.extra.isSome = true → s.next = SlabID.undef) :
    (encodeMapData s).length + (if s.extra.isNone ∧ s.next = SlabID.undef then 16 else 0) + s.els.hoisted
      = s.size + mapExtraLen s.extra + (encodeIEDSection (encMEls s.els []).2).length := by
  have hl := lenMEls_exact s.els [] ok nd
  unfold encodeMapData MapData.size mapExtraLen
  simp only [List.length_append, List.length_cons, List.length_nil, versionAndFlagSize, SlabIDLength]
  cases hx : s.extra with
  | none =>
    by_cases hn : s.next = SlabID.undef
    · simp [hn]; omega
    · simp [hn, length_encodeSlabID]; omega
  | some x =>
    have hn := hroot (by rw [hx]; rfl)
    simp [hn]; omega

theorem enc_len_adata_exact (a : ArrData) (ok : okSts a.elems) (nd : nodupKeysSts a.elems)
    (hroot : a.ty.isSome = true → a.next = SlabID.undef) :
    (encodeArrData a).length + (if a.ty.isNone ∧ a.next = SlabID.undef then 16 else 0) + hoistedSts a.elems
      = a.size + (match a.ty with | some t => (encodeExtraData t).length | none => 0) +
          (encodeIEDSection (encSts a.elems []).2).length := by
  have hl := lenSts_exact a.elems [] ok nd
  unfold encodeArrData ArrData.size
  simp only [List.length_append, List.length_cons, List.length_nil, length_arrayHead16,
    arrayRootDataSlabPrefixSize, arrayDataSlabPrefixSize]
  cases hx : a.ty with
  | none =>
    by_cases hn : a.next = SlabID.undef
    · simp [hn]; omega
    · simp [hn, length_encodeSlabID]; omega
  | some x =>
    have hn := hroot (by rw [hx]; rfl)
    simp [hn]; omega

theorem enc_len_storableG_exact (s : Stor) (ok : s.OK) (nd : s.nodupKeys) :
    (encodeStorableSlabG s).length + s.hoisted = versionAndFlagSize + s.size := by
  have hl := lenSt_exact s [] ok nd
  unfold encodeStorableSlabG
  simp only [List.length_append, List.length_cons, List.length_nil, versionAndFlagSize]
  omega

end Atree.Codec
