import AtreeProofs.Codec.RoundTripW
/-
  Round trip WITH the compact form of inlined maps (tag 252): what the decoder returns.

  An inlined map of a composite type whose elements are all single elements with plain keys is
  written as `[extra-data index, slab index, [values …]]`; keys, digests, count, seed and type live
  in ONE shared extra-data entry per (type, key set), created by the first such map the encoder
  meets.  Decoding therefore does not give back the encoded value: every map of the group comes
  back with the FIRST map's key order, digests, count and seed, and with level 0.  `normSt s xs` is
  that value, as a function of the value `s` and the encoder's extra-data state `xs` before `s`.
-/
namespace Atree.Codec
open Atree Atree.Gen DM

/-! ### the value loop of the encoder as a recursive function -/

/-- `encodeCompactMapValues`: the values stored under the cached keys, in that order -/
def encVals (elems : List MEl) : List (Nat × Nat) → List XD → Bytes × List XD
  | [], xs => ([], xs)
  | k :: ks, xs =>
    let v := encFind k elems xs
    let r := encVals elems ks v.2
    (v.1 ++ r.1, r.2)

theorem foldl_encFind_eq (elems : List MEl) : ∀ (ks : List (Nat × Nat)) (acc : Bytes × List XD),
    ks.foldl (fun (acc : Bytes × List XD) k =>
        let v := encFind k elems acc.2
        (acc.1 ++ v.1, v.2)) acc
      = (acc.1 ++ (encVals elems ks acc.2).1, (encVals elems ks acc.2).2)
  | [], acc => by simp [encVals]
  | k :: ks, acc => by
    simp only [List.foldl_cons, encVals]
    rw [foldl_encFind_eq elems ks]
    simp [List.append_assoc]

/-! ### what the decoder returns -/

mutual
def normSt : Stor → List XD → Stor
  | .val s p, _ => .val s p
  | .ref id, _ => .ref id
  | .some s, xs => .some (normSt s xs)
  | .arr ty idx es, xs => .arr ty idx (normSts es (addArrayXD xs ty).2)
  | .map x idx (.hkey level hkeys elems), xs =>
    match compactKeys x elems with
    | some keys =>
      let a := addCompactXD xs x hkeys keys
      let vals := (a.2.1.foldl (fun (acc : List MEl × List XD) k =>
          (acc.1 ++ [MEl.single (.mk (.val k.1 k.2) (normFind k elems acc.2))], (encFind k elems acc.2).2))
          ([], a.2.2)).1
      match a.2.2[a.1]? with
      | some (.cmap x' hk' _) => .map x' idx (.hkey 0 hk' vals)
      | _ => .map x idx (.hkey 0 hkeys vals)
    | none => .map x idx (.hkey level hkeys (normMElList elems (addMapXD xs x).2))
  | .map x idx (.single level elems), xs => .map x idx (.single level (normSElList elems (addMapXD xs x).2))
def normSts : List Stor → List XD → List Stor
  | [], _ => []
  | s :: ss, xs => normSt s xs :: normSts ss (encSt s xs).2
/-- the decoded value of the first single element whose key is `k` -/
def normFind (k : Nat × Nat) : List MEl → List XD → Stor
  | [], _ => .val 0 0
  | .single (.mk (.val s p) v) :: rest, xs => if (s, p) = k then normSt v xs else normFind k rest xs
  | _ :: rest, xs => normFind k rest xs
def normSEl : SEl → List XD → SEl
  | .mk k v, xs => .mk (normSt k xs) (normSt v (encSt k xs).2)
def normMEl : MEl → List XD → MEl
  | .single e, xs => .single (normSEl e xs)
  | .inl els, xs => .inl (normMEls els xs)
  | .ext id, _ => .ext id
def normMEls : MEls → List XD → MEls
  | .hkey level hkeys es, xs => .hkey level hkeys (normMElList es xs)
  | .single level es, xs => .single level (normSElList es xs)
def normMElList : List MEl → List XD → List MEl
  | [], _ => []
  | e :: es, xs => normMEl e xs :: normMElList es (encMEl e xs).2
def normSElList : List SEl → List XD → List SEl
  | [], _ => []
  | e :: es, xs => normSEl e xs :: normSElList es (encSEl e xs).2
end

/-- the decoded elements of a compact map: one single element per cached key -/
def normVals (elems : List MEl) : List (Nat × Nat) → List XD → List MEl
  | [], _ => []
  | k :: ks, xs =>
    .single (.mk (.val k.1 k.2) (normFind k elems xs)) :: normVals elems ks (encFind k elems xs).2

theorem foldl_normFind_eq (elems : List MEl) : ∀ (ks : List (Nat × Nat)) (acc : List MEl × List XD),
    (ks.foldl (fun (acc : List MEl × List XD) k =>
        (acc.1 ++ [MEl.single (.mk (.val k.1 k.2) (normFind k elems acc.2))], (encFind k elems acc.2).2)) acc).1
      = acc.1 ++ normVals elems ks acc.2
  | [], acc => by simp [normVals]
  | k :: ks, acc => by
    simp only [List.foldl_cons, normVals]
    rw [foldl_normFind_eq elems ks]
    simp [List.append_assoc]

/-! ### keys of a list of elements -/

/-- some single element of the list has the plain key `k` -/
def hasKey (k : Nat × Nat) : List MEl → Prop
  | [] => False
  | .single (.mk (.val s p) _) :: rest => (s, p) = k ∨ hasKey k rest
  | _ :: rest => hasKey k rest

theorem hasKey_of_mapM : ∀ (elems : List MEl) (keys : List (Nat × Nat)),
    elems.mapM compactKey = some keys → ∀ k ∈ keys, hasKey k elems := by
  intro elems
  induction elems with
  | nil =>
    intro keys h k hk
    simp only [List.mapM_nil, Option.pure_def, Option.some.injEq] at h
    subst h; cases hk
  | cons e es ih =>
    intro keys h k hk
    rw [List.mapM_cons] at h
    cases hk0 : compactKey e with
    | none => rw [hk0] at h; cases h
    | some k0 =>
      rw [hk0] at h
      cases hm : es.mapM compactKey with
      | none => rw [hm] at h; cases h
      | some ks =>
        rw [hm] at h
        simp only [Option.pure_def, Option.bind_eq_bind, Option.bind_some, Option.some.injEq] at h
        subst h
        match e, hk0 with
        | .single (.mk (.val s p) v), hk0 =>
          simp only [compactKey, Option.some.injEq] at hk0
          subst hk0
          simp only [List.mem_cons] at hk
          simp only [hasKey]
          rcases hk with rfl | hk
          · exact Or.inl rfl
          · exact Or.inr (ih ks hm k hk)

/-! ### the encoder's state with compact entries -/

/-- a valid extra-data entry, the compact form included -/
def XD.validC : XD → Prop
  | .arr t => validTy t
  | .map m => validMapExtra m
  | .cmap m hkeys keys =>
    validMapExtra m ∧ hkeys.length = keys.length ∧ keys.length < 8192 ∧ (∀ h ∈ hkeys, h < 2 ^ 64) ∧
      (∀ k ∈ keys, validElem { size := k.1, pay := .val k.2 }) ∧
      (m.ty.isComposite = true ∧ m.count = keys.length)

def XOKC (xs : List XD) : Prop := ∀ x ∈ xs, x.validC

theorem XOKC.nil : XOKC [] := by intro x hx; cases hx

theorem XOKC.append {a b : List XD} (ha : XOKC a) (hb : XOKC b) : XOKC (a ++ b) := by
  intro x hx
  rcases List.mem_append.1 hx with h | h
  · exact ha x h
  · exact hb x h

theorem XOKC.single {x : XD} (h : x.validC) : XOKC [x] := by
  intro y hy; simp only [List.mem_cons, List.not_mem_nil, or_false] at hy; subst hy; exact h

theorem XOKC.of_XOK {xs : List XD} (h : XOK xs) : XOKC xs := by
  intro x hx
  have := h x hx
  cases x with
  | arr t => exact this
  | map m => exact this
  | cmap a b c => exact this.elim

theorem addArrayXD_specC (xs : List XD) (ty : TyInfo) (hx : XOKC xs) (hty : validTy ty) :
    (∃ t, (addArrayXD xs ty).2 = xs ++ t) ∧ XOKC (addArrayXD xs ty).2 ∧
      (addArrayXD xs ty).2[(addArrayXD xs ty).1]? = some (.arr ty) := by
  unfold addArrayXD
  cases hf : findIdxFrom (fun x => match x with | .arr t => encodeTy t == encodeTy ty | _ => false) xs 0 with
  | none =>
    refine ⟨⟨[.arr ty], rfl⟩, hx.append (XOKC.single hty), ?_⟩
    simp
  | some i =>
    obtain ⟨_, y, hy, hp⟩ := findIdxFrom_some _ xs 0 i hf
    simp only [Nat.sub_zero] at hy
    refine ⟨⟨[], by simp⟩, hx, ?_⟩
    simp only [hy, Option.some.injEq]
    have hmem : y ∈ xs := List.mem_of_getElem? hy
    have hval := hx y hmem
    cases y with
    | arr t =>
      simp only at hp
      have := encodeTy_inj hval hty (eq_of_beq hp)
      rw [this]
    | map m => simp at hp
    | cmap a b c => simp at hp

theorem addMapXD_specC (xs : List XD) (x : MapExtra) (hx : XOKC xs) (hv : validMapExtra x) :
    (∃ t, (addMapXD xs x).2 = xs ++ t) ∧ XOKC (addMapXD xs x).2 ∧
      (addMapXD xs x).2[(addMapXD xs x).1]? = some (.map x) := by
  unfold addMapXD
  refine ⟨⟨[.map x], rfl⟩, hx.append (XOKC.single hv), ?_⟩
  simp

/-- `addCompactMapExtraData`: the index refers to a compact entry whose keys are the cached keys, a
    permutation of the keys handed in -/
theorem addCompactXD_specC (xs : List XD) (x : MapExtra) (hkeys : List Nat) (keys : List (Nat × Nat))
    (hx : XOKC xs) (hv : (XD.cmap x hkeys keys).validC) :
    (∃ t, (addCompactXD xs x hkeys keys).2.2 = xs ++ t) ∧ XOKC (addCompactXD xs x hkeys keys).2.2 ∧
      ∃ x' hk', (addCompactXD xs x hkeys keys).2.2[(addCompactXD xs x hkeys keys).1]?
          = some (.cmap x' hk' (addCompactXD xs x hkeys keys).2.1) := by
  unfold addCompactXD
  cases hf : findIdxFrom (sameCompactType x.ty keys) xs 0 with
  | none =>
    refine ⟨⟨[.cmap x hkeys keys], rfl⟩, hx.append (XOKC.single hv), x, hkeys, ?_⟩
    simp
  | some i =>
    obtain ⟨_, y, hy, hp⟩ := findIdxFrom_some _ xs 0 i hf
    simp only [Nat.sub_zero] at hy
    simp only [hy]
    cases y with
    | arr t => simp [sameCompactType] at hp
    | map m => simp [sameCompactType] at hp
    | cmap x' hk' keys' =>
      exact ⟨⟨[], by simp⟩, hx, x', hk', hy⟩

/-- the shared entry has the type of the map that refers to it -/
theorem addCompactXD_entry_ty (xs : List XD) (x : MapExtra) (hkeys : List Nat) (keys : List (Nat × Nat))
    (hx : XOKC xs) (hv : (XD.cmap x hkeys keys).validC) {x' : MapExtra} {hk' : List Nat} {cached : List (Nat × Nat)}
    (hget : (addCompactXD xs x hkeys keys).2.2[(addCompactXD xs x hkeys keys).1]? = some (.cmap x' hk' cached)) :
    x'.ty = x.ty := by
  unfold addCompactXD at hget
  cases hf : findIdxFrom (sameCompactType x.ty keys) xs 0 with
  | none =>
    rw [hf] at hget
    simp only [List.getElem?_append_right (Nat.le_refl _), Nat.sub_self, List.getElem?_cons_zero, Option.some.injEq,
      XD.cmap.injEq] at hget
    rw [hget.1]
  | some i =>
    rw [hf] at hget
    obtain ⟨_, y, hy, hp⟩ := findIdxFrom_some _ xs 0 i hf
    simp only [Nat.sub_zero] at hy
    simp only [hy] at hget
    have hmem : y ∈ xs := List.mem_of_getElem? hy
    have hval := hx y hmem
    cases y with
    | arr t => simp [sameCompactType] at hp
    | map m => simp [sameCompactType] at hp
    | cmap x'' hk'' keys'' =>
      rw [hy] at hget
      simp only [Option.some.injEq, XD.cmap.injEq] at hget
      simp only [sameCompactType, Bool.and_eq_true] at hp
      rw [← hget.1]
      exact encodeTy_inj hval.1.1 hv.1.1 (eq_of_beq hp.1)

/-- what holds of the encoder's state after encoding from state `xs0` -/
def StateOKC (xs0 xs1 : List XD) : Prop := (∃ t, xs1 = xs0 ++ t) ∧ XOKC xs1

theorem StateOKC.refl {xs : List XD} (h : XOKC xs) : StateOKC xs xs := ⟨⟨[], by simp⟩, h⟩

theorem StateOKC.trans {a b c : List XD} (h1 : StateOKC a b) (h2 : StateOKC b c) : StateOKC a c := by
  obtain ⟨⟨t1, rfl⟩, _⟩ := h1
  obtain ⟨⟨t2, rfl⟩, hc⟩ := h2
  exact ⟨⟨t1 ++ t2, by simp⟩, hc⟩

theorem keys_valid_of_rti : ∀ (elems : List MEl) (keys : List (Nat × Nat)),
    elems.mapM compactKey = some keys → rtiMElList elems →
    ∀ k ∈ keys, validElem { size := k.1, pay := .val k.2 } := by
  intro elems
  induction elems with
  | nil =>
    intro keys hm _ k hk
    simp only [List.mapM_nil, Option.pure_def, Option.some.injEq] at hm
    subst hm; cases hk
  | cons e es ih =>
    intro keys hm hes k hk
    rw [List.mapM_cons] at hm
    cases hk0 : compactKey e with
    | none => rw [hk0] at hm; cases hm
    | some k0 =>
      rw [hk0] at hm
      cases hm' : es.mapM compactKey with
      | none => rw [hm'] at hm; cases hm
      | some ks =>
        rw [hm'] at hm
        simp only [Option.pure_def, Option.bind_eq_bind, Option.bind_some, Option.some.injEq] at hm
        subst hm
        simp only [List.mem_cons] at hk
        rcases hk with rfl | hk
        · match e, hk0, hes with
          | .single (.mk (.val s p) v), hk0, hes =>
            simp only [compactKey, Option.some.injEq] at hk0
            subst hk0
            exact hes.1.1
        · exact ih ks hm' hes.2 k hk

/-- the entry a compact map hands to `addCompactMapExtraData` is valid -/
theorem cmap_validC {x : MapExtra} {hkeys : List Nat} {elems : List MEl} {keys : List (Nat × Nat)} {level : Nat}
    (hv : validMapExtra x) (h : (MEls.hkey level hkeys elems).RTI) (hc : compactKeys x elems = some keys) :
    (XD.cmap x hkeys keys).validC := by
  obtain ⟨_, hlen, h8192, hhk, hes, _⟩ := h
  have hm := compactKeys_mapM hc
  have hkl := mapM_compactKey_length elems keys hm
  have hcond : x.ty.isComposite = true ∧ x.count = elems.length := by
    unfold compactKeys at hc
    split at hc
    · assumption
    · cases hc
  exact ⟨hv, by omega, by omega, hhk, keys_valid_of_rti elems keys hm hes, hcond.1, by omega⟩

mutual
theorem encSt_stateC : (s : Stor) → (xs : List XD) → s.RTI → XOKC xs → StateOKC xs (encSt s xs).2
  | .val _ _, xs, _, hx => by simp only [encSt]; exact StateOKC.refl hx
  | .ref _, xs, _, hx => by simp only [encSt]; exact StateOKC.refl hx
  | .some s, xs, h, hx => by simp only [encSt]; exact encSt_stateC s xs h hx
  | .arr ty idx es, xs, h, hx => by
    obtain ⟨ha, hxa, _⟩ := addArrayXD_specC xs ty hx h.1
    simp only [encSt]
    exact StateOKC.trans ⟨ha, hxa⟩ (encSts_stateC es _ h.2.2.2.1 hxa)
  | .map x idx (.hkey level hkeys elems), xs, h, hx => by
    cases hc : compactKeys x elems with
    | none =>
      obtain ⟨ha, hxa, _⟩ := addMapXD_specC xs x hx h.1
      simp only [encSt, hc]
      exact StateOKC.trans ⟨ha, hxa⟩ (encMElList_stateC elems _ h.2.2.1.2.2.2.2.1 hxa)
    | some keys =>
      have hv := cmap_validC h.1 h.2.2.1 hc
      obtain ⟨ha, hxa, _⟩ := addCompactXD_specC xs x hkeys keys hx hv
      have hfind : ∀ k xs', XOKC xs' → StateOKC xs' (encFind k elems xs').2 :=
        fun k xs' hx' => encFind_stateC k elems xs' h.2.2.1.2.2.2.2.1 hx'
      have hvals : ∀ (ks : List (Nat × Nat)) (xs' : List XD), XOKC xs' → StateOKC xs' (encVals elems ks xs').2 := by
        intro ks
        induction ks with
        | nil => intro xs' hx'; simp only [encVals]; exact StateOKC.refl hx'
        | cons k ks ih =>
          intro xs' hx'
          have h1 := hfind k xs' hx'
          simp only [encVals]
          exact StateOKC.trans h1 (ih _ h1.2)
      simp only [encSt, hc, foldl_encFind_eq]
      exact StateOKC.trans ⟨ha, hxa⟩ (hvals _ _ hxa)
  | .map x idx (.single level elems), xs, h, hx => by
    obtain ⟨ha, hxa, _⟩ := addMapXD_specC xs x hx h.1
    simp only [encSt]
    exact StateOKC.trans ⟨ha, hxa⟩ (encSElList_stateC elems _ h.2.2.1.2.2.2.1 hxa)
theorem encSts_stateC : (l : List Stor) → (xs : List XD) → rtiSts l → XOKC xs → StateOKC xs (encSts l xs).2
  | [], xs, _, hx => by simp only [encSts]; exact StateOKC.refl hx
  | s :: ss, xs, h, hx => by
    have h1 := encSt_stateC s xs h.1 hx
    simp only [encSts]
    exact StateOKC.trans h1 (encSts_stateC ss _ h.2 h1.2)
theorem encFind_stateC : (k : Nat × Nat) → (l : List MEl) → (xs : List XD) → rtiMElList l → XOKC xs →
    StateOKC xs (encFind k l xs).2
  | k, [], xs, _, hx => by simp only [encFind]; exact StateOKC.refl hx
  | k, .single (.mk (.val s p) v) :: rest, xs, h, hx => by
    simp only [encFind]
    split
    · exact encSt_stateC v xs h.1.2.1 hx
    · exact encFind_stateC k rest xs h.2 hx
  | k, .single (.mk (.ref _) _) :: rest, xs, h, hx => by simp only [encFind]; exact encFind_stateC k rest xs h.2 hx
  | k, .single (.mk (.some _) _) :: rest, xs, h, hx => by simp only [encFind]; exact encFind_stateC k rest xs h.2 hx
  | k, .single (.mk (.arr _ _ _) _) :: rest, xs, h, hx => by simp only [encFind]; exact encFind_stateC k rest xs h.2 hx
  | k, .single (.mk (.map _ _ _) _) :: rest, xs, h, hx => by simp only [encFind]; exact encFind_stateC k rest xs h.2 hx
  | k, .inl _ :: rest, xs, h, hx => by simp only [encFind]; exact encFind_stateC k rest xs h.2 hx
  | k, .ext _ :: rest, xs, h, hx => by simp only [encFind]; exact encFind_stateC k rest xs h.2 hx
theorem encSEl_stateC : (e : SEl) → (xs : List XD) → e.RTI → XOKC xs → StateOKC xs (encSEl e xs).2
  | .mk k v, xs, h, hx => by
    have h1 := encSt_stateC k xs h.1 hx
    simp only [encSEl]
    exact StateOKC.trans h1 (encSt_stateC v _ h.2.1 h1.2)
theorem encMEl_stateC : (e : MEl) → (xs : List XD) → e.RTI → XOKC xs → StateOKC xs (encMEl e xs).2
  | .single e, xs, h, hx => by simp only [encMEl]; exact encSEl_stateC e xs h hx
  | .inl els, xs, h, hx => by simp only [encMEl]; exact encMEls_stateC els xs h hx
  | .ext _, xs, _, hx => by simp only [encMEl]; exact StateOKC.refl hx
theorem encMEls_stateC : (els : MEls) → (xs : List XD) → els.RTI → XOKC xs → StateOKC xs (encMEls els xs).2
  | .hkey _ _ es, xs, h, hx => by simp only [encMEls]; exact encMElList_stateC es xs h.2.2.2.2.1 hx
  | .single _ es, xs, h, hx => by simp only [encMEls]; exact encSElList_stateC es xs h.2.2.2.1 hx
theorem encMElList_stateC : (l : List MEl) → (xs : List XD) → rtiMElList l → XOKC xs →
    StateOKC xs (encMElList l xs).2
  | [], xs, _, hx => by simp only [encMElList]; exact StateOKC.refl hx
  | e :: es, xs, h, hx => by
    have h1 := encMEl_stateC e xs h.1 hx
    simp only [encMElList]
    exact StateOKC.trans h1 (encMElList_stateC es _ h.2 h1.2)
theorem encSElList_stateC : (l : List SEl) → (xs : List XD) → rtiSElList l → XOKC xs →
    StateOKC xs (encSElList l xs).2
  | [], xs, _, hx => by simp only [encSElList]; exact StateOKC.refl hx
  | e :: es, xs, h, hx => by
    have h1 := encSEl_stateC e xs h.1 hx
    simp only [encSElList]
    exact StateOKC.trans h1 (encSElList_stateC es _ h.2 h1.2)
end

theorem encVals_stateC (elems : List MEl) (hes : rtiMElList elems) : ∀ (ks : List (Nat × Nat)) (xs : List XD),
    XOKC xs → StateOKC xs (encVals elems ks xs).2
  | [], xs, hx => by simp only [encVals]; exact StateOKC.refl hx
  | k :: ks, xs, hx => by
    have h1 := encFind_stateC k elems xs hes hx
    simp only [encVals]
    exact StateOKC.trans h1 (encVals_stateC elems hes ks _ h1.2)

/-! ### decoding does not change sizes -/

/-- the size `decCVals` computes for the element of key `k` -/
def keyElemSize (elems : List MEl) (k : Nat × Nat) : Nat :=
  digestSize + (singleElementPrefixSize + k.1 + valSizeOf k elems)

theorem sum_keyElemSize : ∀ (elems : List MEl) (keys : List (Nat × Nat)),
    elems.mapM compactKey = some keys → keys.Nodup →
    (keys.map (keyElemSize elems)).sum = sizeMEl elems := by
  intro elems
  induction elems with
  | nil =>
    intro keys h _
    simp only [List.mapM_nil, Option.pure_def, Option.some.injEq] at h
    subst h; rfl
  | cons e es ih =>
    intro keys h hnd
    rw [List.mapM_cons] at h
    cases hk : compactKey e with
    | none => rw [hk] at h; cases h
    | some k0 =>
      rw [hk] at h
      cases hm : es.mapM compactKey with
      | none => rw [hm] at h; cases h
      | some ks =>
        rw [hm] at h
        simp only [Option.pure_def, Option.bind_eq_bind, Option.bind_some, Option.some.injEq] at h
        subst h
        obtain ⟨hnot, hnd'⟩ := List.nodup_cons.1 hnd
        match e, hk with
        | .single (.mk (.val s p) v), hk =>
          simp only [compactKey, Option.some.injEq] at hk
          subst hk
          have ih' := ih ks hm hnd'
          have hrest : (ks.map (keyElemSize (MEl.single (SEl.mk (Stor.val s p) v) :: es)))
              = ks.map (keyElemSize es) := by
            apply List.map_congr_left
            intro k hkin
            have hne : (s, p) ≠ k := fun h => hnot (h ▸ hkin)
            simp only [keyElemSize, valSizeOf, hne, ↓reduceIte]
          rw [List.map_cons, List.sum_cons, hrest, ih']
          simp only [keyElemSize, valSizeOf, ↓reduceIte, sizeMEl, MEl.size, SEl.size, Stor.size]

theorem sizeMEl_normVals (elems : List MEl) (hfind : ∀ k xs, (normFind k elems xs).size = valSizeOf k elems) :
    ∀ (ks : List (Nat × Nat)) (xs : List XD),
      sizeMEl (normVals elems ks xs) = (ks.map (keyElemSize elems)).sum
  | [], xs => rfl
  | k :: ks, xs => by
    simp only [normVals, sizeMEl, MEl.size, SEl.size, Stor.size, List.map_cons, List.sum_cons, hfind,
      sizeMEl_normVals elems hfind ks, keyElemSize]

mutual
theorem size_normSt : (s : Stor) → (xs : List XD) → s.nodupKeys → (normSt s xs).size = s.size
  | .val _ _, xs, _ => by simp only [normSt]
  | .ref _, xs, _ => by simp only [normSt]
  | .some s, xs, nd => by simp only [normSt, Stor.size, size_normSt s xs nd]
  | .arr ty idx es, xs, nd => by simp only [normSt, Stor.size, sizeSts_norm es _ nd]
  | .map x idx (.hkey level hkeys elems), xs, nd => by
    cases hc : compactKeys x elems with
    | none => simp only [normSt, hc, Stor.size, MEls.size, sizeMEl_norm elems _ nd.2]
    | some keys =>
      have hm := compactKeys_mapM hc
      have hnd := nd.1 keys hc
      have hperm := addCompactXD_perm xs x hkeys keys
      have hfind : ∀ k xs', (normFind k elems xs').size = valSizeOf k elems :=
        fun k xs' => size_normFind k elems xs' nd.2
      have hsum : sizeMEl (normVals elems (addCompactXD xs x hkeys keys).2.1 (addCompactXD xs x hkeys keys).2.2)
          = sizeMEl elems := by
        rw [sizeMEl_normVals elems hfind, (List.Perm.map _ hperm).sum_nat]
        exact sum_keyElemSize elems keys hm hnd
      simp only [normSt, hc, foldl_normFind_eq, List.nil_append]
      split <;> simp only [Stor.size, MEls.size, hsum]
  | .map x idx (.single level elems), xs, nd => by
    simp only [normSt, Stor.size, MEls.size, sizeSEl_norm elems _ nd]
theorem sizeSts_norm : (l : List Stor) → (xs : List XD) → nodupKeysSts l → sizeSts (normSts l xs) = sizeSts l
  | [], xs, _ => by simp only [normSts]
  | s :: ss, xs, nd => by simp only [normSts, sizeSts, size_normSt s xs nd.1, sizeSts_norm ss _ nd.2]
theorem size_normFind : (k : Nat × Nat) → (l : List MEl) → (xs : List XD) → nodupKeysMElList l →
    (normFind k l xs).size = valSizeOf k l
  | k, [], xs, _ => by simp only [normFind, valSizeOf, Stor.size]
  | k, .single (.mk (.val s p) v) :: rest, xs, nd => by
    simp only [normFind, valSizeOf]
    split
    · exact size_normSt v xs nd.1.2
    · exact size_normFind k rest xs nd.2
  | k, .single (.mk (.ref _) _) :: rest, xs, nd => by simp only [normFind, valSizeOf]; exact size_normFind k rest xs nd.2
  | k, .single (.mk (.some _) _) :: rest, xs, nd => by simp only [normFind, valSizeOf]; exact size_normFind k rest xs nd.2
  | k, .single (.mk (.arr _ _ _) _) :: rest, xs, nd => by simp only [normFind, valSizeOf]; exact size_normFind k rest xs nd.2
  | k, .single (.mk (.map _ _ _) _) :: rest, xs, nd => by simp only [normFind, valSizeOf]; exact size_normFind k rest xs nd.2
  | k, .inl _ :: rest, xs, nd => by simp only [normFind, valSizeOf]; exact size_normFind k rest xs nd.2
  | k, .ext _ :: rest, xs, nd => by simp only [normFind, valSizeOf]; exact size_normFind k rest xs nd.2
theorem size_normSEl : (e : SEl) → (xs : List XD) → e.nodupKeys → (normSEl e xs).size = e.size
  | .mk k v, xs, nd => by simp only [normSEl, SEl.size, size_normSt k xs nd.1, size_normSt v _ nd.2]
theorem size_normMEl : (e : MEl) → (xs : List XD) → e.nodupKeys → (normMEl e xs).size = e.size
  | .single e, xs, nd => by simp only [normMEl, MEl.size, size_normSEl e xs nd]
  | .inl els, xs, nd => by simp only [normMEl, MEl.size, size_normMEls els xs nd]
  | .ext _, xs, _ => by simp only [normMEl]
theorem size_normMEls : (els : MEls) → (xs : List XD) → els.nodupKeys → (normMEls els xs).size = els.size
  | .hkey _ _ es, xs, nd => by simp only [normMEls, MEls.size, sizeMEl_norm es xs nd]
  | .single _ es, xs, nd => by simp only [normMEls, MEls.size, sizeSEl_norm es xs nd]
theorem sizeMEl_norm : (l : List MEl) → (xs : List XD) → nodupKeysMElList l → sizeMEl (normMElList l xs) = sizeMEl l
  | [], xs, _ => by simp only [normMElList]
  | e :: es, xs, nd => by simp only [normMElList, sizeMEl, size_normMEl e xs nd.1, sizeMEl_norm es _ nd.2]
theorem sizeSEl_norm : (l : List SEl) → (xs : List XD) → nodupKeysSElList l → sizeSEl (normSElList l xs) = sizeSEl l
  | [], xs, _ => by simp only [normSElList]
  | e :: es, xs, nd => by simp only [normSElList, sizeSEl, size_normSEl e xs nd.1, sizeSEl_norm es _ nd.2]
end

/-! ### without the compact form nothing changes -/

mutual
theorem normSt_noCompact : (s : Stor) → (xs : List XD) → s.noCompact → normSt s xs = s
  | .val _ _, xs, _ => by simp only [normSt]
  | .ref _, xs, _ => by simp only [normSt]
  | .some s, xs, nc => by simp only [normSt, normSt_noCompact s xs nc]
  | .arr ty idx es, xs, nc => by simp only [normSt, normSts_noCompact es _ nc]
  | .map x idx (.hkey level hkeys elems), xs, nc => by
    have hc : compactKeys x elems = none := nc.1
    simp only [normSt, hc, normMElList_noCompact elems _ nc.2]
  | .map x idx (.single level elems), xs, nc => by simp only [normSt, normSElList_noCompact elems _ nc]
theorem normSts_noCompact : (l : List Stor) → (xs : List XD) → noCompactSts l → normSts l xs = l
  | [], xs, _ => by simp only [normSts]
  | s :: ss, xs, nc => by simp only [normSts, normSt_noCompact s xs nc.1, normSts_noCompact ss _ nc.2]
theorem normSEl_noCompact : (e : SEl) → (xs : List XD) → e.noCompact → normSEl e xs = e
  | .mk k v, xs, nc => by simp only [normSEl, normSt_noCompact k xs nc.1, normSt_noCompact v _ nc.2]
theorem normMEl_noCompact : (e : MEl) → (xs : List XD) → e.noCompact → normMEl e xs = e
  | .single e, xs, nc => by simp only [normMEl, normSEl_noCompact e xs nc]
  | .inl els, xs, nc => by simp only [normMEl, normMEls_noCompact els xs nc]
  | .ext _, xs, _ => by simp only [normMEl]
theorem normMEls_noCompact : (els : MEls) → (xs : List XD) → els.noCompact → normMEls els xs = els
  | .hkey _ _ es, xs, nc => by simp only [normMEls, normMElList_noCompact es xs nc]
  | .single _ es, xs, nc => by simp only [normMEls, normSElList_noCompact es xs nc]
theorem normMElList_noCompact : (l : List MEl) → (xs : List XD) → noCompactMElList l → normMElList l xs = l
  | [], xs, _ => by simp only [normMElList]
  | e :: es, xs, nc => by simp only [normMElList, normMEl_noCompact e xs nc.1, normMElList_noCompact es _ nc.2]
theorem normSElList_noCompact : (l : List SEl) → (xs : List XD) → noCompactSElList l → normSElList l xs = l
  | [], xs, _ => by simp only [normSElList]
  | e :: es, xs, nc => by simp only [normSElList, normSEl_noCompact e xs nc.1, normSElList_noCompact es _ nc.2]
end

end Atree.Codec
