import AtreeProofs.Codec.RoundTripE
/-
  Round trip of map slabs (no inlined slabs): the map extra-data section, map index slabs, map data
  / collision-group slabs; and what the fuel of `decodeSlabGen` has to cover.
-/
namespace Atree.Codec
open Atree Atree.Gen DM

/-! ### a fresh decoder: the first operation validates the next item -/

theorem decodeHeadOf_new {major : Nat} {data rest' : Bytes} (hw : wfNext data = some rest') :
    Dec.decodeHeadOf major (Dec.new data)
      = Dec.decodeHeadOf major { data := data, remaining := data.length - rest'.length, consumed := 0 } := by
  have hlt := wfNext_length hw
  have hpos : 0 < data.length - rest'.length := by omega
  conv => lhs; unfold Dec.decodeHeadOf Dec.prepareNext Dec.new
  simp only [Nat.lt_irrefl, ↓reduceIte, gt_iff_lt, hw]
  conv => rhs; unfold Dec.decodeHeadOf
  rw [prepareNext_pos hpos]

/-- type infos: `Acc` -/
theorem acc_encodeTy (ty : TyInfo) (hv : validTy ty) : Acc (encodeTy ty) 1 := by
  cases ty with
  | plain n => exact (Acc.uint hv).mono (by omega)
  | composite n =>
    simp only [encodeTy, head_tagCompositeTI, List.cons_append, List.nil_append]
    exact Acc.tag8 _ (Acc.uint hv)

/-- `decodeTypeInfo` inside a validated item, any amount of validated data remaining -/
theorem decodeTypeInfo_encR (ty : TyInfo) (hv : validTy ty) (rest : Bytes) (R c : Nat)
    (hR : (encodeTy ty).length ≤ R) :
    decodeTypeInfo { data := encodeTy ty ++ rest, remaining := R, consumed := c }
      = pure (ty, { data := rest, remaining := R - (encodeTy ty).length, consumed := c + (encodeTy ty).length }) := by
  have hpos := length_encodeTy_pos ty
  have hlen := length_encodeTy ty
  unfold decodeTypeInfo
  cases ty with
  | plain n =>
    simp only [validTy] at hv
    simp only [encodeTy] at hpos hlen hR ⊢
    cases hd : head 0 n ++ rest with
    | nil => exact absurd hd (head_ne_nil _ _ _)
    | cons b tl =>
      have hb := first_byte_type (by omega) hv hd
      rw [nextType_pos (by simp only; omega) rfl]
      simp only [DM.liftOpt_some, DM.pure_bind, ctypeOf_uint hb, reduceCtorEq, ↓reduceIte]
      rw [← hd, decodeUint64_head hv _ _ _ (by omega)]
      simp only [DM.liftOpt_some, DM.pure_bind, hlen]
  | composite n =>
    simp only [validTy] at hv
    simp only [encodeTy, head_tagCompositeTI, List.cons_append, List.nil_append] at hpos hlen hR ⊢
    rw [nextType_pos (by simp only; omega) rfl]
    simp only [DM.liftOpt_some, DM.pure_bind, ctypeOf_d8, ↓reduceIte]
    rw [decodeTagNumber_tag8 _ _ _ _ (by omega)]
    simp only [DM.liftOpt_some, DM.pure_bind, tagCompositeTI, ne_eq, not_true_eq_false, ↓reduceIte]
    rw [decodeUint64_head hv _ _ _ (by omega)]
    simp only [DM.liftOpt_some, DM.pure_bind, hlen]
    congr 3 <;> omega

/-! ### the map extra-data section -/

/-- a `MapExtraData` the encoder and the decoder agree on -/
def validMapExtra (x : MapExtra) : Prop := validTy x.ty ∧ x.count < 2 ^ 64 ∧ x.seed < 2 ^ 64

theorem acc_encodeMapExtra (x : MapExtra) (hv : validMapExtra x) : Acc (encodeMapExtra x) 2 := by
  have hl : AccList [encodeTy x.ty, head 0 x.count, head 0 x.seed] 1 := by
    intro b hb
    simp only [List.mem_cons, List.not_mem_nil, or_false] at hb
    rcases hb with rfl | rfl | rfl
    · exact acc_encodeTy _ hv.1
    · exact (Acc.uint hv.2.1).mono (by omega)
    · exact (Acc.uint hv.2.2).mono (by omega)
  have := Acc.array (by simp [maxArrayElements]) hl
  simpa [encodeMapExtra, encodeMapExtraWith, mapExtraDataLength, flatten_triple] using this

theorem length_encodeMapExtra (x : MapExtra) :
    (encodeMapExtra x).length = 1 + (encodeTy x.ty).length + headLen x.count + headLen x.seed := by
  simp [encodeMapExtra, encodeMapExtraWith, mapExtraDataLength, length_head, headLen]
  omega

/-- `newMapExtraDataFromData` on an encoded extra-data section followed by `rest` -/
theorem newMapExtraDataFromData_enc (x : MapExtra) (hv : validMapExtra x) (rest : Bytes) :
    newMapExtraDataFromData (encodeMapExtra x ++ rest) = pure (x, rest) := by
  have hw := wfNext_of_acc (acc_encodeMapExtra x hv) (by decide) rest
  have hlen := length_encodeMapExtra x
  have htl := length_encodeTy_pos x.ty
  unfold newMapExtraDataFromData newMapExtraData
  have h3 : headLen 3 = 1 := rfl
  have hhead : (Dec.new (encodeMapExtra x ++ rest)).decodeArrayHead
      = some (3, { data := encodeTy x.ty ++ (head 0 x.count ++ (head 0 x.seed ++ rest)),
                   remaining := (encodeMapExtra x).length - 1, consumed := 1 }) := by
    show Dec.decodeHeadOf 4 _ = _
    rw [decodeHeadOf_new hw]
    have hdata : encodeMapExtra x ++ rest = head 4 3 ++ (encodeTy x.ty ++ (head 0 x.count ++ (head 0 x.seed ++ rest))) := by
      simp [encodeMapExtra, encodeMapExtraWith, mapExtraDataLength]
    have hrem : (encodeMapExtra x ++ rest).length - rest.length = (encodeMapExtra x).length := by simp
    rw [hrem, hdata]
    have := decodeArrayHead_head (n := 3) (by omega) (encodeTy x.ty ++ (head 0 x.count ++ (head 0 x.seed ++ rest)))
      (encodeMapExtra x).length 0 (by rw [h3]; omega)
    simp only [h3, Nat.zero_add] at this
    exact this
  rw [hhead]
  simp only [DM.liftOpt_some, DM.pure_bind, mapExtraDataLength, ne_eq, not_true_eq_false, ↓reduceIte]
  unfold decodeTypeInfoRef
  simp only [List.length_nil, ↓reduceIte]
  rw [decodeTypeInfo_encR x.ty hv.1 _ _ _ (by omega)]
  simp only [DM.pure_bind]
  rw [decodeUint64_head hv.2.1 _ _ _ (by omega)]
  simp only [DM.liftOpt_some, DM.pure_bind]
  rw [decodeUint64_head hv.2.2 _ _ _ (by omega)]
  simp only [DM.liftOpt_some, DM.pure_bind, Dec.numBytesDecoded]
  unfold sliceFrom
  have hc : 1 + (encodeTy x.ty).length + headLen x.count + headLen x.seed = (encodeMapExtra x).length := by omega
  rw [hc, if_pos (by simp)]
  simp only [DM.pure_bind, List.drop_left]

/-! ### map index slabs -/

/-- a child header as the encoder can write it -/
def validMChildHdr (addr : Nat) (h : MChildHdr) : Prop :=
  h.id.addr = addr ∧ h.id.idx < 2 ^ 64 ∧ h.firstKey < 2 ^ 64 ∧ h.size < 65536

theorem mapMetaLoopV1_enc (addr : Nat) : ∀ (hdrs : List MChildHdr) (pre : Bytes),
    (∀ h ∈ hdrs, validMChildHdr addr h) →
    mapMetaLoopV1 (pre ++ hdrs.flatMap encodeMChildHdr) addr hdrs.length pre.length = pure hdrs := by
  intro hdrs
  induction hdrs with
  | nil => intro pre _; simp [mapMetaLoopV1]
  | cons h hs ih =>
    intro pre hv
    obtain ⟨ha, hi, hk, hsz⟩ := hv h (List.mem_cons_self ..)
    simp only [List.flatMap_cons, List.length_cons, mapMetaLoopV1]
    unfold sliceFrom be64 be16
    have hL : (pre ++ (encodeMChildHdr h ++ hs.flatMap encodeMChildHdr)).length
        = pre.length + 18 + (hs.flatMap encodeMChildHdr).length := by
      simp only [List.length_append, length_encodeMChildHdr, mapSlabHeaderSize]; omega
    rw [if_pos (by rw [hL]; omega)]
    simp only [DM.pure_bind]
    rw [if_pos (by rw [hL]; simp only [SlabIndexLength]; omega)]
    simp only [DM.pure_bind]
    have hd0 : (pre ++ (encodeMChildHdr h ++ hs.flatMap encodeMChildHdr)).drop pre.length
        = encodeMChildHdr h ++ hs.flatMap encodeMChildHdr := by
      have := drop_length_add pre (encodeMChildHdr h ++ hs.flatMap encodeMChildHdr) 0
      simpa using this
    have hd8 : (pre ++ (encodeMChildHdr h ++ hs.flatMap encodeMChildHdr)).drop (pre.length + SlabIndexLength)
        = beBytes digestSize h.firstKey ++ (beBytes 2 h.size ++ hs.flatMap encodeMChildHdr) := by
      rw [drop_length_add]
      unfold encodeMChildHdr
      rw [List.append_assoc, List.append_assoc, List.drop_left' (length_beBytes _ _)]
    have hd16 : (pre ++ (encodeMChildHdr h ++ hs.flatMap encodeMChildHdr)).drop (pre.length + SlabIndexLength + digestSize)
        = beBytes 2 h.size ++ hs.flatMap encodeMChildHdr := by
      rw [Nat.add_assoc, drop_length_add]
      unfold encodeMChildHdr
      rw [List.append_assoc, List.append_assoc, ← List.append_assoc (beBytes SlabIndexLength h.id.idx)]
      rw [List.drop_left' (by simp [SlabIndexLength, digestSize, length_beBytes])]
    rw [hd0, hd8]
    rw [if_pos (by simp [length_beBytes, digestSize])]
    simp only [DM.pure_bind]
    rw [if_pos (by rw [hL]; simp only [SlabIndexLength, digestSize]; omega)]
    simp only [DM.pure_bind]
    rw [hd16]
    rw [if_pos (by simp [length_beBytes])]
    simp only [DM.pure_bind]
    have ht8 : (beBytes digestSize h.firstKey ++ (beBytes 2 h.size ++ hs.flatMap encodeMChildHdr)).take 8
        = beBytes digestSize h.firstKey := by
      have := take_beBytes_append digestSize h.firstKey (beBytes 2 h.size ++ hs.flatMap encodeMChildHdr)
      simpa [digestSize] using this
    rw [ht8, take_beBytes_append, beVal_beBytes (k := digestSize) (n := h.firstKey) (by simpa [digestSize] using hk),
      beVal_beBytes (k := 2) (n := h.size) (by simpa using hsz)]
    have hidx : beVal (copyN SlabIndexLength (encodeMChildHdr h ++ hs.flatMap encodeMChildHdr)) = h.id.idx := by
      unfold encodeMChildHdr
      rw [List.append_assoc, List.append_assoc, copyN_append_left (length_beBytes _ _),
        beVal_beBytes (by simpa [SlabIndexLength] using hi)]
    rw [hidx]
    have hoff : pre.length + SlabIndexLength + digestSize + 2 = (pre ++ encodeMChildHdr h).length := by
      simp [length_encodeMChildHdr, mapSlabHeaderSize, SlabIndexLength, digestSize]
    rw [hoff, ← List.append_assoc]
    rw [ih (pre ++ encodeMChildHdr h) (fun x hx => hv x (List.mem_cons_of_mem _ hx))]
    simp only [DM.pure_bind]
    have : ({ addr := addr, idx := h.id.idx } : SlabID) = h.id := by
      cases hid : h.id with
      | mk a i => rw [hid] at ha; simp at ha; simp [ha]
    rw [this]

/-- What the encoder relies on for a map index slab. -/
structure MapMetaOK (m : MapMeta) : Prop where
  addr : m.id.addr < 2 ^ 64
  hdrs : ∀ h ∈ m.childHdrs, validMChildHdr m.id.addr h
  n16 : m.childHdrs.length < 65536
  extra : ∀ x, m.extra = some x → validMapExtra x

theorem decodeSlabFlat_map (id : SlabID) (b0 b1 : Nat) (tail : Bytes) (n : Nat)
    (h : (⟨b0, b1⟩ : SlabHead).slabType = .map) :
    decodeSlabFlat id (b0 :: b1 :: tail) n = .error .unsupported n := by
  rw [decodeSlabFlat_cons2, h]
  rfl

theorem decodeSlabGen_cons2 (id : SlabID) (b0 b1 : Nat) (tail : Bytes) :
    decodeSlabGen id (b0 :: b1 :: tail) =
      match (⟨b0, b1⟩ : SlabHead).slabType with
      | .array =>
        match (⟨b0, b1⟩ : SlabHead).arrayType with
        | .data => newArrayDataSlabFromDataG id (b0 :: b1 :: tail)
        | .index => newArrayMetaDataSlabFromData id (b0 :: b1 :: tail)
        | _ => DM.fail
      | .map =>
        match (⟨b0, b1⟩ : SlabHead).mapType with
        | .data => newMapDataSlabFromData id (b0 :: b1 :: tail)
        | .index => newMapMetaDataSlabFromData id (b0 :: b1 :: tail)
        | .collisionGroup => newMapDataSlabFromData id (b0 :: b1 :: tail)
        | _ => DM.fail
      | .storable => do
        let (s, _) ← decStG (tail.length + 1) 0 (Dec.new tail) id.addr []
        pure (.storableG id s)
      | .undefined => DM.fail := by
  unfold decodeSlabGen
  have h2 : ¬ (b0 :: b1 :: tail).length < versionAndFlagSize := by simp [versionAndFlagSize]
  rw [if_neg h2]
  unfold sliceTo sliceFrom
  rw [if_pos (by simp [versionAndFlagSize]), if_pos (by simp [versionAndFlagSize])]
  simp only [DM.pure_bind, versionAndFlagSize, List.take_succ_cons, List.take_zero, newHeadFromData,
    List.drop_succ_cons, List.drop_zero]
  generalize (SlabHead.mk b0 b1).slabType = st
  generalize (SlabHead.mk b0 b1).arrayType = aty
  generalize (SlabHead.mk b0 b1).mapType = mty
  cases st <;> cases aty <;> cases mty <;> rfl

theorem newMapMetaDataSlabFromData_cons2 (id : SlabID) (b0 b1 : Nat) (tail : Bytes) :
    newMapMetaDataSlabFromData id (b0 :: b1 :: tail) =
      if (⟨b0, b1⟩ : SlabHead).mapType ≠ .index then DM.fail
      else if (⟨b0, b1⟩ : SlabHead).version = 0 then newMapMetaDataSlabFromDataV0 id ⟨b0, b1⟩ tail
      else if (⟨b0, b1⟩ : SlabHead).version = 1 then newMapMetaDataSlabFromDataV1 id ⟨b0, b1⟩ tail
      else DM.fail := by
  unfold newMapMetaDataSlabFromData
  have h2 : ¬ (b0 :: b1 :: tail).length < versionAndFlagSize := by simp [versionAndFlagSize]
  rw [if_neg h2]
  unfold sliceTo sliceFrom
  rw [if_pos (by simp [versionAndFlagSize]), if_pos (by simp [versionAndFlagSize])]
  simp only [DM.pure_bind, versionAndFlagSize, List.take_succ_cons, List.take_zero, newHeadFromData,
    List.drop_succ_cons, List.drop_zero]

/-- `DecodeSlab` on the encoding of a map index slab followed by `extra` bytes -/
theorem decodeSlab_encodeMapMeta (m : MapMeta) (ok : MapMetaOK m) (extra : Bytes) (n : Nat) :
    decodeSlab m.id (encodeMapMeta m ++ extra) n =
      if extra ≠ [] then .error .decoding n
      else .ok (.mindex m) (n + m.childHdrs.length) := by
  obtain ⟨id, ext, hdrs⟩ := m
  obtain ⟨haddr, hhdrs, hn16, hext⟩ := ok
  simp only at haddr hhdrs hn16 hext
  have hf := head_mmeta_facts ext.isSome
  simp only at hf
  obtain ⟨hf1, hf2, hf3, hf4, _, _⟩ := hf
  unfold encodeMapMeta
  simp only [List.cons_append, List.nil_append, List.append_assoc]
  rw [decodeSlab_of_flat_unsupported (decodeSlabFlat_map _ _ _ _ n hf1), decodeSlabGen_cons2, hf1]
  simp only [hf2]
  rw [newMapMetaDataSlabFromData_cons2, hf2, hf3]
  simp only [ne_eq, not_true_eq_false, ↓reduceIte, show ¬ ((1 : Nat) = 0) by decide]
  unfold newMapMetaDataSlabFromDataV1
  rw [hf4]
  have htail : ∀ (x : Option MapExtra),
      mapMetaV1AfterExtra id x (beBytes SlabAddressLength id.addr ++ (beBytes 2 hdrs.length ++
          (hdrs.flatMap encodeMChildHdr ++ extra))) n =
        if extra ≠ [] then .error .decoding n
        else .ok (.mindex { id := id, extra := x, childHdrs := hdrs }) (n + hdrs.length) := by
    intro x
    unfold mapMetaV1AfterExtra
    have hL : (beBytes SlabAddressLength id.addr ++ (beBytes 2 hdrs.length ++
        (hdrs.flatMap encodeMChildHdr ++ extra))).length = 10 + 18 * hdrs.length + extra.length := by
      simp only [List.length_append, length_beBytes, length_flatMap_encodeMChildHdr, SlabAddressLength,
        mapSlabHeaderSize]; omega
    rw [if_neg (by rw [hL]; simp only [mapMetaDataSlabPrefixSize, versionAndFlagSize]; omega)]
    unfold sliceFrom be16
    rw [if_pos (Nat.zero_le _)]
    simp only [DM.pure_bind, List.drop_zero]
    rw [if_pos (by rw [hL]; simp only [SlabAddressLength]; omega)]
    simp only [DM.pure_bind]
    rw [drop_beBytes_append]
    rw [if_pos (by simp [length_beBytes])]
    simp only [DM.pure_bind]
    rw [take_beBytes_append, beVal_beBytes (by simpa using hn16)]
    rw [if_pos (by rw [hL]; simp only [SlabAddressLength, newMapMetaDataSlabFromDataV1_arrayHeaderSize]; omega)]
    simp only [DM.pure_bind]
    have hdrop : (beBytes SlabAddressLength id.addr ++ (beBytes 2 hdrs.length ++
        (hdrs.flatMap encodeMChildHdr ++ extra))).drop (SlabAddressLength + newMapMetaDataSlabFromDataV1_arrayHeaderSize)
        = hdrs.flatMap encodeMChildHdr ++ extra := by
      rw [← List.append_assoc, List.drop_left' (by simp [length_beBytes, SlabAddressLength,
        newMapMetaDataSlabFromDataV1_arrayHeaderSize])]
    rw [hdrop]
    have haddr' : beVal (copyN SlabAddressLength (beBytes SlabAddressLength id.addr ++ (beBytes 2 hdrs.length ++
        (hdrs.flatMap encodeMChildHdr ++ extra)))) = id.addr := by
      rw [copyN_append_left (length_beBytes _ _), beVal_beBytes (by simpa [SlabAddressLength] using haddr)]
    rw [haddr']
    by_cases hex : extra = []
    · subst hex
      simp only [List.append_nil, ne_eq, not_true_eq_false, ↓reduceIte]
      rw [if_neg (by rw [length_flatMap_encodeMChildHdr]; simp)]
      rw [DM.alloc_bind]
      simp only
      have hpre : (beBytes SlabAddressLength id.addr ++ (beBytes 2 hdrs.length ++ hdrs.flatMap encodeMChildHdr))
          = (beBytes SlabAddressLength id.addr ++ beBytes 2 hdrs.length) ++ hdrs.flatMap encodeMChildHdr := by
        rw [List.append_assoc]
      have hplen : SlabAddressLength + newMapMetaDataSlabFromDataV1_arrayHeaderSize
          = (beBytes SlabAddressLength id.addr ++ beBytes 2 hdrs.length).length := by
        simp [length_beBytes, SlabAddressLength, newMapMetaDataSlabFromDataV1_arrayHeaderSize]
      rw [hpre, hplen, mapMetaLoopV1_enc id.addr hdrs _ hhdrs]
      simp only [DM.pure_bind]
      rfl
    · have hne : (hdrs.flatMap encodeMChildHdr ++ extra).length ≠ mapSlabHeaderSize * hdrs.length := by
        have : 0 < extra.length := List.length_pos_iff.2 hex
        simp only [List.length_append, length_flatMap_encodeMChildHdr]; omega
      rw [if_pos hne, if_pos hex]
      rfl
  cases ext with
  | none =>
    simp only [Option.isSome_none, Bool.false_eq_true, ↓reduceIte, List.nil_append]
    exact htail none
  | some x =>
    simp only [Option.isSome_some, ↓reduceIte, List.append_assoc]
    rw [newMapExtraDataFromData_enc x (hext x rfl)]
    simp only [DM.pure_bind]
    exact htail (some x)

end Atree.Codec
