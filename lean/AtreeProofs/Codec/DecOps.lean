import AtreeProofs.Codec.Accept
import AtreeProofs.Codec.EncLemmasG
/-
  Stream-decoder operations inside a validated item, on encoder output, for arbitrary heads:
  `decodeHeadOf` (array heads, unsigned integers, tag numbers) and `decodeBytes`, plus the small
  algebra of the decoder monad used to run decoders on known input.
-/
namespace Atree.Codec
open Atree Atree.Gen DM

/-! ### the decoder monad, pointwise -/

theorem DM.bind_ok {α β : Type} {m : DM α} {f : α → DM β} {n n' : Nat} {a : α} (h : m n = .ok a n') :
    (m >>= f) n = f a n' := by
  show DM.bind' m f n = _
  unfold DM.bind'; rw [h]

theorem DM.pure_apply {α : Type} (a : α) (n : Nat) : (pure a : DM α) n = .ok a n := rfl

theorem DM.fail_apply {α : Type} (e : DErr) (n : Nat) : (DM.fail e : DM α) n = .error e n := rfl

theorem DM.alloc_apply (k n : Nat) : DM.alloc k n = .ok () (n + k) := rfl

/-! ### heads -/

theorem first_byte_of_wfHead {hb : Bytes} {h : Head} {rest : Bytes} {b : Nat} {tl : Bytes}
    (hw : wfHead (hb ++ rest) = some (h, rest)) (hd : hb ++ rest = b :: tl) : b / 32 % 8 = h.t := by
  rw [hd] at hw
  exact (wfHead_t hw).1.symm

/-- `decodeHeadOf major` inside a validated item whose next bytes are a head `hb` of that major type -/
theorem decodeHeadOf_enc {major : Nat} {hb : Bytes} {h : Head} (hne : hb ≠ [])
    (hw : ∀ rest, wfHead (hb ++ rest) = some (h, rest)) (ht : h.t = major) (hai : h.ai ≠ 31)
    (rest : Bytes) (R c : Nat) (hR : hb.length ≤ R) :
    Dec.decodeHeadOf major { data := hb ++ rest, remaining := R, consumed := c }
      = some (h.val, { data := rest, remaining := R - hb.length, consumed := c + hb.length }) := by
  have hpos : 0 < R := by
    cases hb with
    | nil => exact absurd rfl hne
    | cons x xs => simp at hR; omega
  unfold Dec.decodeHeadOf
  rw [prepareNext_pos hpos]
  simp only
  cases hd : hb ++ rest with
  | nil => cases hb with
    | nil => exact absurd rfl hne
    | cons x xs => simp at hd
  | cons b tl =>
    have hb' := first_byte_of_wfHead (hw rest) hd
    simp only
    rw [← hd, hw rest]
    simp only [hb', ht, ne_eq, not_true_eq_false, ↓reduceIte, hai]
    unfold Dec.advance
    have hk : (hb ++ rest).length - rest.length = hb.length := by simp
    simp only [hk]
    rw [if_neg (by omega)]

theorem head_ne_nil' (m n : Nat) : head m n ≠ [] := by
  unfold head; repeat' split
  all_goals simp

/-- `DecodeArrayHead` on a minimal array head -/
theorem decodeArrayHead_head {n : Nat} (hn : n < 2 ^ 64) (rest : Bytes) (R c : Nat) (hR : headLen n ≤ R) :
    Dec.decodeArrayHead { data := head 4 n ++ rest, remaining := R, consumed := c }
      = some (n, { data := rest, remaining := R - headLen n, consumed := c + headLen n }) := by
  have := decodeHeadOf_enc (major := 4) (head_ne_nil' 4 n) (fun rest => wfHead_head (by omega) hn rest) rfl
    (aiOf_ne_31 n) rest R c (by rw [length_head]; exact hR)
  rw [length_head] at this
  exact this

/-- `DecodeArrayHead` on the fixed-width head `0x99 hi lo` -/
theorem decodeArrayHead_head16 {n : Nat} (hn : n < 65536) (rest : Bytes) (R c : Nat) (hR : 3 ≤ R) :
    Dec.decodeArrayHead { data := arrayHead16 n ++ rest, remaining := R, consumed := c }
      = some (n, { data := rest, remaining := R - 3, consumed := c + 3 }) := by
  have := decodeHeadOf_enc (major := 4) (hb := arrayHead16 n) (by simp [arrayHead16])
    (fun rest => wfHead_arrayHead16 hn rest) rfl (by simp) rest R c (by rw [length_arrayHead16]; exact hR)
  rw [length_arrayHead16] at this
  exact this

/-- `DecodeUint64` on the fixed-size `uint8` `0x18 i` -/
theorem decodeUint64_fixed8 {i : Nat} (hi : i < 256) (rest : Bytes) (R c : Nat) (hR : 2 ≤ R) :
    Dec.decodeUint64 { data := 0x18 :: i :: rest, remaining := R, consumed := c }
      = some (i, { data := rest, remaining := R - 2, consumed := c + 2 }) := by
  have := decodeHeadOf_enc (major := 0) (hb := [0x18, i]) (h := ⟨0, 24, i⟩) (by simp)
    (fun rest => by simp [wfHead]) rfl (by simp) rest R c (by simpa using hR)
  show Dec.decodeHeadOf 0 _ = _
  simpa using this

/-- `DecodeBytes` inside a validated item, the head of the byte string being `hb` -/
theorem decodeBytes_enc {hb content : Bytes} {h : Head} (hne : hb ≠ [])
    (hw : ∀ rest, wfHead (hb ++ rest) = some (h, rest)) (ht : h.t = 2) (hai : h.ai ≠ 31)
    (hv : h.val = content.length) (rest : Bytes) (R c : Nat) (hR : hb.length + content.length ≤ R) :
    Dec.decodeBytes { data := hb ++ (content ++ rest), remaining := R, consumed := c }
      = some (content, { data := rest, remaining := R - (hb.length + content.length),
                         consumed := c + (hb.length + content.length) }) := by
  have hpos : 0 < R := by
    cases hb with
    | nil => exact absurd rfl hne
    | cons x xs => simp at hR; omega
  unfold Dec.decodeBytes
  rw [prepareNext_pos hpos]
  simp only
  cases hd : hb ++ (content ++ rest) with
  | nil => cases hb with
    | nil => exact absurd rfl hne
    | cons x xs => simp at hd
  | cons b tl =>
    have hb' := first_byte_of_wfHead (hw (content ++ rest)) hd
    simp only
    rw [← hd, hw (content ++ rest)]
    have h2 : ¬ (content ++ rest).length < h.val := by simp [hv]
    simp only [hb', ht, ne_eq, not_true_eq_false, ↓reduceIte, hai, h2]
    rw [hv, List.drop_left, List.take_left]
    unfold Dec.advance
    have hk : (hb ++ (content ++ rest)).length - rest.length = hb.length + content.length := by
      simp; omega
    simp only [hk]
    rw [if_neg (by omega)]

/-- `DecodeBytes` on the fixed-width head `0x59 hi lo` -/
theorem decodeBytes_head16 {content : Bytes} (hl : content.length < 65536) (rest : Bytes) (R c : Nat)
    (hR : 3 + content.length ≤ R) :
    Dec.decodeBytes { data := bytesHead16 content.length ++ (content ++ rest), remaining := R, consumed := c }
      = some (content, { data := rest, remaining := R - (3 + content.length), consumed := c + (3 + content.length) }) := by
  have := decodeBytes_enc (hb := bytesHead16 content.length) (by simp [bytesHead16])
    (fun rest => wfHead_bytesHead16 hl rest) rfl (by simp) rfl rest R c (by rw [length_bytesHead16]; exact hR)
  rw [length_bytesHead16] at this
  exact this

end Atree.Codec
