import AtreeProofs.Codec.NoPanicG
/-
  Fuel irrelevance of the mutually recursive decoders of the second part of
  `AtreeModel/Codec/Decode.lean` (audit item B4, property C19).

  The eleven mutually recursive functions (`decStG`, `decStsG`, `decInlArr`, `decInlMap`,
  `decInlCMap`, `decCVals`, `decMElsG`, `decSElG`, `decSElsG`, `decMElG`, `decMElListG`) recurse on a
  fuel argument; `fuel = 0` is `fail`, which cannot be told from a decoding error.  This file proves
  that the fuel is never what makes an input invalid.

  Invariant.  Write `L = d.data.length` for the number of unread input bytes of the stream decoder.
  Every CBOR call that returns a value other than `NextType` (`DecodeArrayHead`, `DecodeTagNumber`,
  `DecodeUint64`, `DecodeBytes`) makes `L` strictly smaller; `NextType` leaves it unchanged.  Between
  two nested calls of the decoders at least one such call happens, except on the three edges
  element-loop → element (`decStsG → decStG`, `decCVals → decStG`, `decSElsG → decSElG`,
  `decMElListG → decMElG`) and `decMElG → decSElG` (only `NextType` in between).  Hence the fuel
  a call needs is `L + c` with a small constant `c` per function:

      c = 1   decStG decInlArr decInlMap decInlCMap decMElsG decSElG
      c = 2   decStsG decCVals decSElsG decMElG
      c = 3   decMElListG

  `FAll fuel` says, for each function `g` with constant `c`: if `L + c ≤ fuel` then
  `g (fuel + 1) … = g fuel …` (same outcome — value, error kind, allocation counter, panic — from
  every start of the allocation counter) and a successful run leaves fewer (for the loops: not
  more) unread bytes.  `FAll` is proved for all `fuel` by one induction.

  Consequences: `g fuel = g (L + c)` for every `fuel ≥ L + c` (`decStG_fuel_eq` …), the callers'
  fuels (`data.length + 1`, always at least `L + c` at the call site) can be replaced by any larger
  number (`newInlinedExtraDataFromDataF_eq`, `mapDataContentF_eq`, `arrDataContentGF_eq`), and
  `decodeSlabGenF φ = decodeSlabGen`, `decodeSlabF φ = decodeSlab` for every fuel schedule
  `φ : input length → fuel` with `φ L ≥ L + 1`.
-/
namespace Atree.Codec
open DM Atree.Gen

/-! ### a relational Hoare logic: two computations with the same outcome -/

/-- `m1` and `m2` have the same outcome from every allocation counter, and a value they return
    satisfies `P`. -/
def Same {α : Type} (m1 m2 : DM α) (P : α → Prop) : Prop :=
  ∀ n, m1 n = m2 n ∧ match m1 n with
                      | .ok a _ => P a
                      | _ => True

namespace Same
variable {α β : Type}

theorem eq {m1 m2 : DM α} {P : α → Prop} (h : Same m1 m2 P) : m1 = m2 := funext fun n => (h n).1

theorem pure {a : α} {P : α → Prop} (h : P a) : Same (Pure.pure a : DM α) (Pure.pure a) P := by
  intro n; exact ⟨rfl, h⟩

theorem fail {e : DErr} {P : α → Prop} : Same (DM.fail e : DM α) (DM.fail e) P := by
  intro n; exact ⟨rfl, trivial⟩

theorem alloc (k : Nat) : Same (DM.alloc k) (DM.alloc k) (fun _ => True) := by
  intro n; exact ⟨rfl, trivial⟩

/-- one computation, with a postcondition -/
theorem refl {m : DM α} {P : α → Prop} (h : ∀ n a n', m n = .ok a n' → P a) : Same m m P := by
  intro n
  refine ⟨rfl, ?_⟩
  cases hm : m n with
  | ok a n' => exact h n a n' hm
  | error e n' => trivial
  | panic => trivial

theorem triv (m : DM α) : Same m m (fun _ => True) := refl (fun _ _ _ _ => trivial)

theorem of_np {m : DM α} {P : α → Prop} (h : NP m P) : Same m m P := by
  refine refl ?_
  intro n a n' hm
  have := h n
  rw [hm] at this
  exact this

theorem bind {m1 m2 : DM α} {f1 f2 : α → DM β} {P : α → Prop} {Q : β → Prop}
    (hm : Same m1 m2 P) (hf : ∀ a, P a → Same (f1 a) (f2 a) Q) : Same (m1 >>= f1) (m2 >>= f2) Q := by
  intro n
  obtain ⟨he, hp⟩ := hm n
  show DM.bind' m1 f1 n = DM.bind' m2 f2 n ∧ match DM.bind' m1 f1 n with
                                              | .ok a _ => Q a
                                              | _ => True
  unfold DM.bind'
  rw [← he]
  cases hmn : m1 n with
  | ok a n' =>
    rw [hmn] at hp
    exact hf a hp n'
  | error e n' => exact ⟨rfl, trivial⟩
  | panic => exact ⟨rfl, trivial⟩

theorem weaken {m1 m2 : DM α} {P Q : α → Prop} (hm : Same m1 m2 P) (hpq : ∀ a, P a → Q a) :
    Same m1 m2 Q := by
  intro n
  obtain ⟨he, hp⟩ := hm n
  refine ⟨he, ?_⟩
  cases hmn : m1 n with
  | ok a n' => rw [hmn] at hp; exact hpq a hp
  | error e n' => trivial
  | panic => trivial

theorem ite {c : Prop} [Decidable c] {a1 a2 b1 b2 : DM α} {P : α → Prop}
    (ha : c → Same a1 a2 P) (hb : ¬c → Same b1 b2 P) :
    Same (if c then a1 else b1) (if c then a2 else b2) P := by
  by_cases h : c
  · rw [if_pos h, if_pos h]; exact ha h
  · rw [if_neg h, if_neg h]; exact hb h

theorem liftOpt (o : Option α) : Same (DM.liftOpt o) (DM.liftOpt o) (fun a => o = some a) := by
  cases o with
  | none => exact fail
  | some a => exact pure rfl

/-- add a fact that holds for the values the first computation returns -/
theorem and_np {m1 m2 : DM α} {P Q : α → Prop} (hm : Same m1 m2 P) (hn : NP m1 Q) :
    Same m1 m2 (fun a => P a ∧ Q a) := by
  intro n
  obtain ⟨he, hp⟩ := hm n
  refine ⟨he, ?_⟩
  have hq := hn n
  cases hmn : m1 n with
  | ok a n' => rw [hmn] at hp hq; exact ⟨hp, hq⟩
  | error e n' => trivial
  | panic => trivial

end Same

/-! ### the CBOR calls consume input -/

theorem advance_data {d d' : Dec} {rest : Bytes} (h : d.advance rest = some d') : d'.data = rest := by
  unfold Dec.advance at h
  simp only at h
  split at h
  · simp at h
  · simp at h; subst h; rfl

/-- `NextType` leaves the unread input unchanged -/
theorem nextType_data {d d' : Dec} {c : CType} (h : d.nextType = some (c, d')) : d'.data = d.data := by
  unfold Dec.nextType at h
  split at h
  · simp at h
  · rename_i d1 hp
    split at h
    · simp at h
    · simp at h; rw [← h.2]; exact (prepareNext_data hp).1

/-- `DecodeUint64` / `DecodeTagNumber` / `DecodeArrayHead` consume at least one byte -/
theorem decodeHeadOf_lt {major v : Nat} {d d' : Dec} (h : d.decodeHeadOf major = some (v, d')) :
    d'.data.length < d.data.length := by
  unfold Dec.decodeHeadOf at h
  split at h
  · simp at h
  · rename_i d1 hp
    have hd := (prepareNext_data hp).1
    split at h
    · simp at h
    · split at h
      · simp at h
      · split at h
        · simp at h
        · rename_i hd' rest hwf
          split at h
          · simp at h
          · split at h
            · simp at h
            · rename_i d2 hadv
              simp at h
              rw [← h.2, advance_data hadv, ← hd]
              exact wfHead_length hwf

/-- `DecodeBytes` consumes at least one byte -/
theorem decodeBytes_lt {b : Bytes} {d d' : Dec} (h : d.decodeBytes = some (b, d')) :
    d'.data.length < d.data.length := by
  unfold Dec.decodeBytes at h
  split at h
  · simp at h
  · rename_i d1 hp
    have hd := (prepareNext_data hp).1
    split at h
    · simp at h
    · split at h
      · simp at h
      · split at h
        · simp at h
        · rename_i hd' rest hwf
          have hl := wfHead_length hwf
          split at h
          · simp at h
          · split at h
            · simp at h
            · split at h
              · simp at h
              · rename_i hlen d2 hadv
                simp at h
                rw [← h.2, advance_data hadv, ← hd]
                simp only [List.length_drop]
                omega

theorem same_decodeIdx (d : Dec) :
    Same (decodeIdx d) (decodeIdx d) (fun r => r.2.data.length < d.data.length) := by
  unfold decodeIdx
  refine Same.bind (Same.liftOpt _) ?_
  intro ⟨b, d1⟩ h1
  dsimp only
  apply Same.ite <;> intro _
  · exact Same.fail
  · exact Same.pure (decodeBytes_lt h1)

theorem same_decodeSlabIDStorable (d : Dec) :
    Same (decodeSlabIDStorable d) (decodeSlabIDStorable d) (fun r => r.2.data.length < d.data.length) := by
  unfold decodeSlabIDStorable
  refine Same.bind (Same.liftOpt _) ?_
  intro ⟨b, d1⟩ h1
  dsimp only
  refine Same.bind (Same.triv _) ?_
  intro id _
  exact Same.pure (decodeBytes_lt h1)

/-! ### the eleven decoders: one more unit of fuel changes nothing once `L + c ≤ fuel` -/

/-- unread bytes -/
abbrev Dec.len (d : Dec) : Nat := d.data.length

/-- the statement proved for all eleven functions at one fuel value (see the header comment) -/
def FAll (fuel : Nat) : Prop :=
  (∀ depth d addr xs, d.len + 1 ≤ fuel →
    Same (decStG (fuel + 1) depth d addr xs) (decStG fuel depth d addr xs) (fun r => r.2.len < d.len)) ∧
  (∀ n cdepth d addr xs size, d.len + 2 ≤ fuel →
    Same (decStsG (fuel + 1) n cdepth d addr xs size) (decStsG fuel n cdepth d addr xs size)
      (fun r => r.2.2.len ≤ d.len)) ∧
  (∀ cdepth d addr xs, d.len + 1 ≤ fuel →
    Same (decInlArr (fuel + 1) cdepth d addr xs) (decInlArr fuel cdepth d addr xs) (fun r => r.2.len < d.len)) ∧
  (∀ cdepth d addr xs, d.len + 1 ≤ fuel →
    Same (decInlMap (fuel + 1) cdepth d addr xs) (decInlMap fuel cdepth d addr xs) (fun r => r.2.len < d.len)) ∧
  (∀ cdepth d addr xs, d.len + 1 ≤ fuel →
    Same (decInlCMap (fuel + 1) cdepth d addr xs) (decInlCMap fuel cdepth d addr xs) (fun r => r.2.len < d.len)) ∧
  (∀ ks cdepth d addr xs size, d.len + 2 ≤ fuel →
    Same (decCVals (fuel + 1) ks cdepth d addr xs size) (decCVals fuel ks cdepth d addr xs size)
      (fun r => r.2.2.len ≤ d.len)) ∧
  (∀ cdepth d addr xs, d.len + 1 ≤ fuel →
    Same (decMElsG (fuel + 1) cdepth d addr xs) (decMElsG fuel cdepth d addr xs) (fun r => r.2.len < d.len)) ∧
  (∀ cdepth d addr xs, d.len + 1 ≤ fuel →
    Same (decSElG (fuel + 1) cdepth d addr xs) (decSElG fuel cdepth d addr xs) (fun r => r.2.len < d.len)) ∧
  (∀ n cdepth d addr xs size, d.len + 2 ≤ fuel →
    Same (decSElsG (fuel + 1) n cdepth d addr xs size) (decSElsG fuel n cdepth d addr xs size)
      (fun r => r.2.2.len ≤ d.len)) ∧
  (∀ cdepth d addr xs, d.len + 2 ≤ fuel →
    Same (decMElG (fuel + 1) cdepth d addr xs) (decMElG fuel cdepth d addr xs) (fun r => r.2.len < d.len)) ∧
  (∀ n cdepth d addr xs size, d.len + 3 ≤ fuel →
    Same (decMElListG (fuel + 1) n cdepth d addr xs size) (decMElListG fuel n cdepth d addr xs size)
      (fun r => r.2.2.len ≤ d.len))

theorem fAll_zero : FAll 0 := by
  refine ⟨?_, ?_, ?_, ?_, ?_, ?_, ?_, ?_, ?_, ?_, ?_⟩ <;> intros <;> omega

theorem fAll_succ (fuel : Nat) (ih : FAll fuel) : FAll (fuel + 1) := by
  obtain ⟨ihSt, ihSts, ihArr, ihMap, ihCMap, ihCVals, ihMEls, ihSEl, ihSEls, ihMEl, ihMElList⟩ := ih
  refine ⟨?_, ?_, ?_, ?_, ?_, ?_, ?_, ?_, ?_, ?_, ?_⟩
  · -- decStG
    intro depth d addr xs hf
    unfold decStG
    apply Same.ite <;> intro _
    · exact Same.fail
    · refine Same.bind (Same.liftOpt _) ?_
      intro ⟨ty, d1⟩ h1
      have hl1 : d1.len = d.len := congrArg List.length (nextType_data h1)
      dsimp only
      cases ty <;> dsimp only <;> try exact Same.fail
      · -- bytes
        refine Same.bind (Same.liftOpt _) ?_
        intro ⟨b, d2⟩ h2
        have hl2 := decodeBytes_lt h2
        exact Same.pure (by dsimp only [Dec.len] at *; omega)
      · -- tag
        refine Same.bind (Same.liftOpt _) ?_
        intro ⟨n, d2⟩ h2
        have hl2 : d2.len < d1.len := decodeHeadOf_lt h2
        dsimp only
        repeat' apply Same.ite <;> intro _
        · exact (ihArr _ _ _ _ (by omega)).weaken (fun r hr => Nat.lt_trans hr (by omega))
        · exact (ihMap _ _ _ _ (by omega)).weaken (fun r hr => Nat.lt_trans hr (by omega))
        · exact (ihCMap _ _ _ _ (by omega)).weaken (fun r hr => Nat.lt_trans hr (by omega))
        · refine Same.bind (same_decodeSlabIDStorable d2) ?_
          intro ⟨e, d3⟩ h3
          exact Same.pure (by dsimp only [Dec.len] at *; omega)
        · refine Same.bind (Same.liftOpt _) ?_
          intro ⟨b, d3⟩ h3
          have hl3 := decodeBytes_lt h3
          exact Same.pure (by dsimp only [Dec.len] at *; omega)
        · refine Same.bind (ihSt _ _ _ _ (by omega)) ?_
          intro ⟨s, d3⟩ h3
          exact Same.pure (by dsimp only [Dec.len] at *; omega)
        · exact Same.fail
  · -- decStsG
    intro n cdepth d addr xs size hf
    cases n with
    | zero => unfold decStsG; exact Same.pure (Nat.le_refl _)
    | succ n =>
      unfold decStsG
      refine Same.bind (ihSt _ _ _ _ (by omega)) ?_
      intro ⟨e, d1⟩ h1
      dsimp only at h1 ⊢
      apply Same.ite <;> intro _
      · exact Same.fail
      · refine Same.bind (ihSts _ _ _ _ _ _ (by omega)) ?_
        intro ⟨es, sz, d2⟩ h2
        exact Same.pure (by dsimp only [Dec.len] at *; omega)
  · -- decInlArr
    intro cdepth d addr xs hf
    unfold decInlArr
    refine Same.bind (Same.liftOpt _) ?_
    intro ⟨c, d1⟩ h1
    have hl1 : d1.len < d.len := decodeHeadOf_lt h1
    dsimp only
    apply Same.ite <;> intro _
    · exact Same.fail
    · refine Same.bind (Same.liftOpt _) ?_
      intro ⟨i, d2⟩ h2
      have hl2 : d2.len < d1.len := decodeHeadOf_lt h2
      dsimp only
      refine Same.bind (Same.triv (getXD xs i)) ?_
      intro x _
      cases x <;> dsimp only <;> try exact Same.fail
      refine Same.bind (same_decodeIdx d2) ?_
      intro ⟨idx, d3⟩ hl3
      dsimp only at hl3 ⊢
      refine Same.bind (Same.liftOpt _) ?_
      intro ⟨n, d4⟩ h4
      have hl4 : d4.len < d3.len := decodeHeadOf_lt h4
      dsimp only
      apply Same.ite <;> intro _
      · exact Same.fail
      · refine Same.bind (Same.alloc n) ?_
        intro _ _
        refine Same.bind (ihSts _ _ _ _ _ _ (by dsimp only [Dec.len] at *; omega)) ?_
        intro ⟨es, sz, d5⟩ h5
        exact Same.pure (by dsimp only [Dec.len] at *; omega)
  · -- decInlMap
    intro cdepth d addr xs hf
    unfold decInlMap
    refine Same.bind (Same.liftOpt _) ?_
    intro ⟨c, d1⟩ h1
    have hl1 : d1.len < d.len := decodeHeadOf_lt h1
    dsimp only
    apply Same.ite <;> intro _
    · exact Same.fail
    · refine Same.bind (Same.liftOpt _) ?_
      intro ⟨i, d2⟩ h2
      have hl2 : d2.len < d1.len := decodeHeadOf_lt h2
      dsimp only
      refine Same.bind (Same.triv (getXD xs i)) ?_
      intro x _
      cases x <;> dsimp only <;> try exact Same.fail
      refine Same.bind (same_decodeIdx d2) ?_
      intro ⟨idx, d3⟩ hl3
      dsimp only at hl3 ⊢
      refine Same.bind (ihMEls _ _ _ _ (by dsimp only [Dec.len] at *; omega)) ?_
      intro ⟨els, d4⟩ h4
      dsimp only at h4 ⊢
      apply Same.ite <;> intro _
      · exact Same.fail
      · exact Same.pure (by dsimp only [Dec.len] at *; omega)
  · -- decInlCMap
    intro cdepth d addr xs hf
    unfold decInlCMap
    refine Same.bind (Same.liftOpt _) ?_
    intro ⟨c, d1⟩ h1
    have hl1 : d1.len < d.len := decodeHeadOf_lt h1
    dsimp only
    apply Same.ite <;> intro _
    · exact Same.fail
    · refine Same.bind (Same.liftOpt _) ?_
      intro ⟨i, d2⟩ h2
      have hl2 : d2.len < d1.len := decodeHeadOf_lt h2
      dsimp only
      refine Same.bind (Same.triv (getXD xs i)) ?_
      intro x _
      cases x <;> dsimp only <;> try exact Same.fail
      refine Same.bind (same_decodeIdx d2) ?_
      intro ⟨idx, d3⟩ hl3
      dsimp only at hl3 ⊢
      refine Same.bind (Same.liftOpt _) ?_
      intro ⟨n, d4⟩ h4
      have hl4 : d4.len < d3.len := decodeHeadOf_lt h4
      dsimp only
      apply Same.ite <;> intro _
      · exact Same.fail
      · refine Same.bind (Same.alloc _) ?_
        intro _ _
        refine Same.bind (Same.alloc _) ?_
        intro _ _
        refine Same.bind (ihCVals _ _ _ _ _ _ (by dsimp only [Dec.len] at *; omega)) ?_
        intro ⟨es, sz, d5⟩ h5
        dsimp only at h5 ⊢
        apply Same.ite <;> intro _
        · exact Same.fail
        · exact Same.pure (by dsimp only [Dec.len] at *; omega)
  · -- decCVals
    intro ks cdepth d addr xs size hf
    cases ks with
    | nil => unfold decCVals; exact Same.pure (Nat.le_refl _)
    | cons k ks =>
      unfold decCVals
      refine Same.bind (ihSt _ _ _ _ (by omega)) ?_
      intro ⟨v, d1⟩ h1
      dsimp only at h1 ⊢
      apply Same.ite <;> intro _
      · exact Same.fail
      · apply Same.ite <;> intro _
        · exact Same.fail
        · refine Same.bind (ihCVals _ _ _ _ _ _ (by omega)) ?_
          intro ⟨es, sz, d2⟩ h2
          exact Same.pure (by dsimp only [Dec.len] at *; omega)
  · -- decMElsG
    intro cdepth d addr xs hf
    unfold decMElsG
    refine Same.bind (Same.liftOpt _) ?_
    intro ⟨c, d1⟩ h1
    have hl1 : d1.len < d.len := decodeHeadOf_lt h1
    dsimp only
    apply Same.ite <;> intro _
    · exact Same.fail
    · refine Same.bind (Same.liftOpt _) ?_
      intro ⟨level, d2⟩ h2
      have hl2 : d2.len < d1.len := decodeHeadOf_lt h2
      dsimp only
      refine Same.bind (Same.liftOpt _) ?_
      intro ⟨db, d3⟩ h3
      have hl3 : d3.len < d2.len := decodeBytes_lt h3
      dsimp only
      apply Same.ite <;> intro _
      · exact Same.fail
      · refine Same.bind (Same.alloc _) ?_
        intro _ _
        refine Same.bind (Same.liftOpt _) ?_
        intro ⟨ec, d4⟩ h4
        have hl4 : d4.len < d3.len := decodeHeadOf_lt h4
        dsimp only
        apply Same.ite <;> intro _
        · exact Same.fail
        · apply Same.ite <;> intro _
          · exact Same.fail
          · apply Same.ite <;> intro _
            · refine Same.bind (Same.alloc _) ?_
              intro _ _
              refine Same.bind (ihSEls _ _ _ _ _ _ (by omega)) ?_
              intro ⟨es, sz, d5⟩ h5
              exact Same.pure (by dsimp only [Dec.len] at *; omega)
            · refine Same.bind (Same.alloc _) ?_
              intro _ _
              refine Same.bind (ihMElList _ _ _ _ _ _ (by omega)) ?_
              intro ⟨es, sz, d5⟩ h5
              exact Same.pure (by dsimp only [Dec.len] at *; omega)
  · -- decSElG
    intro cdepth d addr xs hf
    unfold decSElG
    refine Same.bind (Same.liftOpt _) ?_
    intro ⟨c, d1⟩ h1
    have hl1 : d1.len < d.len := decodeHeadOf_lt h1
    dsimp only
    apply Same.ite <;> intro _
    · exact Same.fail
    · refine Same.bind (ihSt _ _ _ _ (by omega)) ?_
      intro ⟨k, d2⟩ h2
      dsimp only at h2 ⊢
      refine Same.bind (ihSt _ _ _ _ (by omega)) ?_
      intro ⟨v, d3⟩ h3
      dsimp only at h3 ⊢
      apply Same.ite <;> intro _
      · exact Same.fail
      · exact Same.pure (by dsimp only [Dec.len] at *; omega)
  · -- decSElsG
    intro n cdepth d addr xs size hf
    cases n with
    | zero => unfold decSElsG; exact Same.pure (Nat.le_refl _)
    | succ n =>
      unfold decSElsG
      refine Same.bind (ihSEl _ _ _ _ (by omega)) ?_
      intro ⟨e, d1⟩ h1
      dsimp only at h1 ⊢
      apply Same.ite <;> intro _
      · exact Same.fail
      · refine Same.bind (ihSEls _ _ _ _ _ _ (by omega)) ?_
        intro ⟨es, sz, d2⟩ h2
        exact Same.pure (by dsimp only [Dec.len] at *; omega)
  · -- decMElG
    intro cdepth d addr xs hf
    unfold decMElG
    refine Same.bind (Same.liftOpt _) ?_
    intro ⟨ty, d1⟩ h1
    have hl1 : d1.len = d.len := congrArg List.length (nextType_data h1)
    dsimp only
    cases ty <;> dsimp only <;> try exact Same.fail
    · -- array
      refine Same.bind (ihSEl _ _ _ _ (by omega)) ?_
      intro ⟨e, d2⟩ h2
      exact Same.pure (by dsimp only [Dec.len] at *; omega)
    · -- tag
      refine Same.bind (Same.liftOpt _) ?_
      intro ⟨n, d2⟩ h2
      have hl2 : d2.len < d1.len := decodeHeadOf_lt h2
      dsimp only
      apply Same.ite <;> intro _
      · refine Same.bind (ihMEls _ _ _ _ (by omega)) ?_
        intro ⟨els, d3⟩ h3
        exact Same.pure (by dsimp only [Dec.len] at *; omega)
      · apply Same.ite <;> intro _
        · refine Same.bind (ihSt _ _ _ _ (by omega)) ?_
          intro ⟨s, d3⟩ h3
          dsimp only at h3 ⊢
          cases s <;> dsimp only <;> try exact Same.fail
          exact Same.pure (by dsimp only [Dec.len] at *; omega)
        · exact Same.fail
  · -- decMElListG
    intro n cdepth d addr xs size hf
    cases n with
    | zero => unfold decMElListG; exact Same.pure (Nat.le_refl _)
    | succ n =>
      unfold decMElListG
      refine Same.bind (ihMEl _ _ _ _ (by omega)) ?_
      intro ⟨e, d1⟩ h1
      dsimp only at h1 ⊢
      apply Same.ite <;> intro _
      · exact Same.fail
      · refine Same.bind (ihMElList _ _ _ _ _ _ (by omega)) ?_
        intro ⟨es, sz, d2⟩ h2
        exact Same.pure (by dsimp only [Dec.len] at *; omega)

theorem fAll : ∀ fuel, FAll fuel
  | 0 => fAll_zero
  | fuel + 1 => fAll_succ fuel (fAll fuel)

/-! ### any fuel at or above the bound gives the result of the bound -/

theorem stab_of_step {β : Type} (f : Nat → β) (r : Nat) (h : ∀ fuel, r ≤ fuel → f (fuel + 1) = f fuel) :
    ∀ fuel, r ≤ fuel → f fuel = f r := by
  intro fuel hf
  induction fuel with
  | zero =>
    have : r = 0 := by omega
    subst this; rfl
  | succ k ih =>
    by_cases hk : r ≤ k
    · rw [h k hk]; exact ih hk
    · have : r = k + 1 := by omega
      subst this; rfl

theorem decStG_fuel_eq (fuel depth : Nat) (d : Dec) (addr : Nat) (xs : List XD) (h : d.data.length + 1 ≤ fuel) :
    decStG fuel depth d addr xs = decStG (d.data.length + 1) depth d addr xs :=
  stab_of_step (fun f => decStG f depth d addr xs) _ (fun f hf => ((fAll f).1 depth d addr xs hf).eq) fuel h

theorem decStsG_fuel_eq (fuel n cdepth : Nat) (d : Dec) (addr : Nat) (xs : List XD) (size : Nat)
    (h : d.data.length + 2 ≤ fuel) :
    decStsG fuel n cdepth d addr xs size = decStsG (d.data.length + 2) n cdepth d addr xs size :=
  stab_of_step (fun f => decStsG f n cdepth d addr xs size) _
    (fun f hf => ((fAll f).2.1 n cdepth d addr xs size hf).eq) fuel h

theorem decInlArr_fuel_eq (fuel cdepth : Nat) (d : Dec) (addr : Nat) (xs : List XD) (h : d.data.length + 1 ≤ fuel) :
    decInlArr fuel cdepth d addr xs = decInlArr (d.data.length + 1) cdepth d addr xs :=
  stab_of_step (fun f => decInlArr f cdepth d addr xs) _ (fun f hf => ((fAll f).2.2.1 cdepth d addr xs hf).eq) fuel h

theorem decInlMap_fuel_eq (fuel cdepth : Nat) (d : Dec) (addr : Nat) (xs : List XD) (h : d.data.length + 1 ≤ fuel) :
    decInlMap fuel cdepth d addr xs = decInlMap (d.data.length + 1) cdepth d addr xs :=
  stab_of_step (fun f => decInlMap f cdepth d addr xs) _ (fun f hf => ((fAll f).2.2.2.1 cdepth d addr xs hf).eq) fuel h

theorem decInlCMap_fuel_eq (fuel cdepth : Nat) (d : Dec) (addr : Nat) (xs : List XD) (h : d.data.length + 1 ≤ fuel) :
    decInlCMap fuel cdepth d addr xs = decInlCMap (d.data.length + 1) cdepth d addr xs :=
  stab_of_step (fun f => decInlCMap f cdepth d addr xs) _
    (fun f hf => ((fAll f).2.2.2.2.1 cdepth d addr xs hf).eq) fuel h

theorem decCVals_fuel_eq (fuel : Nat) (ks : List (Nat × Nat)) (cdepth : Nat) (d : Dec) (addr : Nat) (xs : List XD)
    (size : Nat) (h : d.data.length + 2 ≤ fuel) :
    decCVals fuel ks cdepth d addr xs size = decCVals (d.data.length + 2) ks cdepth d addr xs size :=
  stab_of_step (fun f => decCVals f ks cdepth d addr xs size) _
    (fun f hf => ((fAll f).2.2.2.2.2.1 ks cdepth d addr xs size hf).eq) fuel h

theorem decMElsG_fuel_eq (fuel cdepth : Nat) (d : Dec) (addr : Nat) (xs : List XD) (h : d.data.length + 1 ≤ fuel) :
    decMElsG fuel cdepth d addr xs = decMElsG (d.data.length + 1) cdepth d addr xs :=
  stab_of_step (fun f => decMElsG f cdepth d addr xs) _
    (fun f hf => ((fAll f).2.2.2.2.2.2.1 cdepth d addr xs hf).eq) fuel h

theorem decSElG_fuel_eq (fuel cdepth : Nat) (d : Dec) (addr : Nat) (xs : List XD) (h : d.data.length + 1 ≤ fuel) :
    decSElG fuel cdepth d addr xs = decSElG (d.data.length + 1) cdepth d addr xs :=
  stab_of_step (fun f => decSElG f cdepth d addr xs) _
    (fun f hf => ((fAll f).2.2.2.2.2.2.2.1 cdepth d addr xs hf).eq) fuel h

theorem decSElsG_fuel_eq (fuel n cdepth : Nat) (d : Dec) (addr : Nat) (xs : List XD) (size : Nat)
    (h : d.data.length + 2 ≤ fuel) :
    decSElsG fuel n cdepth d addr xs size = decSElsG (d.data.length + 2) n cdepth d addr xs size :=
  stab_of_step (fun f => decSElsG f n cdepth d addr xs size) _
    (fun f hf => ((fAll f).2.2.2.2.2.2.2.2.1 n cdepth d addr xs size hf).eq) fuel h

theorem decMElG_fuel_eq (fuel cdepth : Nat) (d : Dec) (addr : Nat) (xs : List XD) (h : d.data.length + 2 ≤ fuel) :
    decMElG fuel cdepth d addr xs = decMElG (d.data.length + 2) cdepth d addr xs :=
  stab_of_step (fun f => decMElG f cdepth d addr xs) _
    (fun f hf => ((fAll f).2.2.2.2.2.2.2.2.2.1 cdepth d addr xs hf).eq) fuel h

theorem decMElListG_fuel_eq (fuel n cdepth : Nat) (d : Dec) (addr : Nat) (xs : List XD) (size : Nat)
    (h : d.data.length + 3 ≤ fuel) :
    decMElListG fuel n cdepth d addr xs size = decMElListG (d.data.length + 3) n cdepth d addr xs size :=
  stab_of_step (fun f => decMElListG f n cdepth d addr xs size) _
    (fun f hf => ((fAll f).2.2.2.2.2.2.2.2.2.2 n cdepth d addr xs size hf).eq) fuel h

/-- with enough fuel a successful `decStG` has consumed at least one byte -/
theorem decStG_consumes {fuel depth : Nat} {d : Dec} {addr : Nat} {xs : List XD} {n n' : Nat} {s : Stor} {d' : Dec}
    (hf : d.data.length + 1 ≤ fuel) (h : decStG fuel depth d addr xs n = .ok (s, d') n') :
    d'.data.length < d.data.length := by
  obtain ⟨h1, h2⟩ := ((fAll fuel).1 depth d addr xs hf) n
  rw [h1, h] at h2
  exact h2

/-! ### the compact-map key loop and the inlined-extra-data section (fuel constant along the loop) -/

theorem DecInv.len_le {t : Nat} {d : Dec} (h : DecInv t d) : d.data.length ≤ t := by
  unfold DecInv at h; omega

theorem same_decCompactKeys {T f1 f2 : Nat} (h1 : T + 1 ≤ f1) (h2 : T + 1 ≤ f2) : ∀ (n : Nat) (d : Dec), DecInv T d →
    Same (decCompactKeys f1 n d) (decCompactKeys f2 n d) (fun r => DecInv T r.2) := by
  intro n
  induction n with
  | zero => intro d hi; unfold decCompactKeys; exact Same.pure hi
  | succ n ih =>
    intro d hi
    unfold decCompactKeys
    have hl := hi.len_le
    have hst : Same (decStG f1 0 d 0 []) (decStG f2 0 d 0 []) (fun r => DecInv T r.2) := by
      rw [decStG_fuel_eq f1 0 d 0 [] (by omega), decStG_fuel_eq f2 0 d 0 [] (by omega)]
      exact Same.of_np (np_decStG _ 0 0 [] hi)
    refine Same.bind hst ?_
    intro ⟨k, d1⟩ hk
    dsimp only at hk ⊢
    cases k <;> dsimp only <;> try exact Same.fail
    refine Same.bind (ih _ hk) ?_
    intro ⟨ks, d2⟩ hk2
    exact Same.pure hk2

theorem same_newCompactMapExtraData {T f1 f2 : Nat} (h1 : T + 1 ≤ f1) (h2 : T + 1 ≤ f2) (tis : List TyInfo)
    {d : Dec} (hi : DecInv T d) :
    Same (newCompactMapExtraData f1 tis d) (newCompactMapExtraData f2 tis d) (fun r => DecInv T r.2) := by
  unfold newCompactMapExtraData
  refine Same.bind (Same.liftOpt _) ?_
  intro ⟨n, d1⟩ e1
  have hi1 := decodeHeadOf_inv hi e1
  dsimp only
  apply Same.ite <;> intro _
  · exact Same.fail
  · refine Same.bind (Same.of_np (np_newMapExtraData tis hi1)) ?_
    intro ⟨x, d2⟩ hi2
    dsimp only at hi2 ⊢
    refine Same.bind (Same.liftOpt _) ?_
    intro ⟨db, d3⟩ e3
    have hi3 := (decodeBytes_inv hi2 e3).1
    dsimp only
    apply Same.ite <;> intro _
    · exact Same.fail
    · apply Same.ite <;> intro _
      · exact Same.fail
      · refine Same.bind (Same.liftOpt _) ?_
        intro ⟨kc, d4⟩ e4
        have hi4 := decodeHeadOf_inv hi3 e4
        dsimp only
        apply Same.ite <;> intro _
        · exact Same.fail
        · refine Same.bind (Same.alloc _) ?_
          intro _ _
          refine Same.bind (Same.alloc _) ?_
          intro _ _
          refine Same.bind (same_decCompactKeys h1 h2 _ _ hi4) ?_
          intro ⟨keys, d5⟩ h5
          exact Same.pure h5

theorem same_decXD {T f1 f2 : Nat} (h1 : T + 1 ≤ f1) (h2 : T + 1 ≤ f2) (tis : List TyInfo)
    {d : Dec} (hi : DecInv T d) :
    Same (decXD f1 tis d) (decXD f2 tis d) (fun r => DecInv T r.2) := by
  unfold decXD
  refine Same.bind (Same.liftOpt _) ?_
  intro ⟨tg, d1⟩ e1
  have hi1 := decodeHeadOf_inv hi e1
  dsimp only
  apply Same.ite <;> intro _
  · refine Same.bind (Same.of_np (np_newArrayExtraDataRef tis hi1)) ?_
    intro ⟨ty, d2⟩ e2
    exact Same.pure e2
  · apply Same.ite <;> intro _
    · refine Same.bind (Same.of_np (np_newMapExtraData tis hi1)) ?_
      intro ⟨mx, d2⟩ e2
      exact Same.pure e2
    · apply Same.ite <;> intro _
      · exact same_newCompactMapExtraData h1 h2 tis hi1
      · exact Same.fail

theorem same_decXDs {T f1 f2 : Nat} (h1 : T + 1 ≤ f1) (h2 : T + 1 ≤ f2) (tis : List TyInfo) :
    ∀ (n : Nat) (d : Dec), DecInv T d →
      Same (decXDs f1 tis n d) (decXDs f2 tis n d) (fun r => DecInv T r.2) := by
  intro n
  induction n with
  | zero => intro d hi; unfold decXDs; exact Same.pure hi
  | succ n ih =>
    intro d hi
    unfold decXDs
    refine Same.bind (same_decXD h1 h2 tis hi) ?_
    intro ⟨x, d2⟩ e2
    dsimp only at e2 ⊢
    refine Same.bind (ih _ e2) ?_
    intro ⟨rest, d3⟩ e3
    exact Same.pure e3

/-- entry-point form: on a decoder over an input of `T` bytes every fuel above `T` gives the result
    of `T + 1` -/
theorem decCompactKeys_fuel_eq {T fuel : Nat} (h : T + 1 ≤ fuel) (n : Nat) {d : Dec} (hi : DecInv T d) :
    decCompactKeys fuel n d = decCompactKeys (T + 1) n d :=
  (same_decCompactKeys h (Nat.le_refl _) n d hi).eq

theorem newCompactMapExtraData_fuel_eq {T fuel : Nat} (h : T + 1 ≤ fuel) (tis : List TyInfo) {d : Dec}
    (hi : DecInv T d) : newCompactMapExtraData fuel tis d = newCompactMapExtraData (T + 1) tis d :=
  (same_newCompactMapExtraData h (Nat.le_refl _) tis hi).eq

theorem decXD_fuel_eq {T fuel : Nat} (h : T + 1 ≤ fuel) (tis : List TyInfo) {d : Dec} (hi : DecInv T d) :
    decXD fuel tis d = decXD (T + 1) tis d :=
  (same_decXD h (Nat.le_refl _) tis hi).eq

theorem decXDs_fuel_eq {T fuel : Nat} (h : T + 1 ≤ fuel) (tis : List TyInfo) (n : Nat) {d : Dec} (hi : DecInv T d) :
    decXDs fuel tis n d = decXDs (T + 1) tis n d :=
  (same_decXDs h (Nat.le_refl _) tis n d hi).eq

/-! ### the callers: `decodeSlabGen` with an arbitrary fuel schedule

  `φ : Nat → Nat` maps the length of the byte string a caller is about to decode to the fuel it
  hands down; the model's schedule is `fun L => L + 1`.  The `…F` functions below are the functions
  of Decode.lean of the same name with every `data.length + 1` / `rest.length + 1` replaced by
  `φ data.length` / `φ rest.length`, and nothing else changed (`decodeSlabGenF_model` : with the
  model's schedule they ARE the model's functions, by `rfl`). -/

/-- `newInlinedExtraDataFromData` with fuel `φ data.length` -/
def newInlinedExtraDataFromDataF (φ : Nat → Nat) (data : Bytes) : DM (List XD × Bytes) := do
  let d := Dec.new data
  let (count, d) ← liftOpt d.decodeArrayHead
  if count ≠ inlinedExtraDataArrayCount then fail
  else do
    let (typeInfoCount, d) ← liftOpt d.decodeArrayHead
    if typeInfoCount > data.length then fail
    else do
      alloc typeInfoCount
      let (tis, d) ← decTypeInfos typeInfoCount d
      let (extraDataCount, d) ← liftOpt d.decodeArrayHead
      if extraDataCount = 0 then fail
      else if extraDataCount > data.length then fail
      else do
        alloc extraDataCount
        let (xs, d) ← decXDs (φ data.length) tis extraDataCount d
        let rest ← sliceFrom data d.numBytesDecoded
        pure (xs, rest)

/-- `mapDataContent` with fuel `φ data.length` -/
def mapDataContentF (φ : Nat → Nat) (id : SlabID) (h : SlabHead) (extra : Option MapExtra) (next : SlabID)
    (xs : List XD) (data : Bytes) : DM Slab := do
  let (els, _) ← decMElsG (φ data.length) 0 (Dec.new data) id.addr xs
  if versionAndFlagSize + els.size > maxUint32 then fail
  else if ¬ h.isRoot ∧ versionAndFlagSize + els.size + SlabIDLength > maxUint32 then fail
  else
    pure (.mdata { id := id, next := next, extra := extra, els := els,
                   anySize := !h.hasSizeLimit, group := decide (h.mapType = .collisionGroup) })

def newMapDataSlabFromDataV0F (φ : Nat → Nat) (id : SlabID) (h : SlabHead) (data : Bytes) : DM Slab := do
  if h.isRoot then do
    let (x, data) ← newMapExtraDataFromData data
    if data.length < versionAndFlagSize then fail
    else do
      let data ← sliceFrom data versionAndFlagSize
      mapDataContentF φ id h (some x) SlabID.undef [] data
  else
    if data.length < SlabIDLength then fail
    else do
      let next ← newSlabIDFromRawBytes data
      let data ← sliceFrom data SlabIDLength
      mapDataContentF φ id h none next [] data

def mapDataV1AfterIEDF (φ : Nat → Nat) (id : SlabID) (h : SlabHead) (extra : Option MapExtra) (xs : List XD)
    (data : Bytes) : DM Slab :=
  if h.hasNextSlabID then
    if data.length < SlabIDLength then fail
    else do
      let next ← newSlabIDFromRawBytes data
      let data ← sliceFrom data SlabIDLength
      mapDataContentF φ id h extra next xs data
  else mapDataContentF φ id h extra SlabID.undef xs data

def mapDataV1AfterExtraF (φ : Nat → Nat) (id : SlabID) (h : SlabHead) (extra : Option MapExtra) (data : Bytes) :
    DM Slab :=
  if h.hasInlinedSlabs then do
    let (xs, data) ← newInlinedExtraDataFromDataF φ data
    mapDataV1AfterIEDF φ id h extra xs data
  else mapDataV1AfterIEDF φ id h extra [] data

def newMapDataSlabFromDataV1F (φ : Nat → Nat) (id : SlabID) (h : SlabHead) (data : Bytes) : DM Slab := do
  if h.isRoot then do
    let (x, data) ← newMapExtraDataFromData data
    mapDataV1AfterExtraF φ id h (some x) data
  else mapDataV1AfterExtraF φ id h none data

def newMapDataSlabFromDataF (φ : Nat → Nat) (id : SlabID) (data : Bytes) : DM Slab :=
  if data.length < versionAndFlagSize then fail
  else do
    let hb ← sliceTo data versionAndFlagSize
    let h ← newHeadFromData hb
    if h.mapType ≠ .data ∧ h.mapType ≠ .collisionGroup then fail
    else do
      let data ← sliceFrom data versionAndFlagSize
      if h.version = 0 then newMapDataSlabFromDataV0F φ id h data
      else if h.version = 1 then newMapDataSlabFromDataV1F φ id h data
      else fail

/-- `arrDataContentG` with fuel `φ data.length` -/
def arrDataContentGF (φ : Nat → Nat) (id : SlabID) (isRoot : Bool) (ty : Option TyInfo) (next : SlabID)
    (checkEOF : Bool) (xs : List XD) (data : Bytes) : DM Slab :=
  if data.length < arrayDataSlabElementHeadSize then fail
  else do
    let (elemCount, d) ← liftOpt (Dec.new data).decodeArrayHead
    if elemCount > maxUint32 then fail
    else do
      let slabSize := if isRoot then arrayRootDataSlabPrefixSize else arrayDataSlabPrefixSize
      alloc elemCount
      let (es, _, d) ← decStsG (φ data.length) elemCount 0 d id.addr xs slabSize
      if checkEOF = true ∧ d.numBytesDecoded < data.length then fail
      else pure (.adata { id := id, next := next, ty := ty, elems := es })

def newArrayDataSlabFromDataV0GF (φ : Nat → Nat) (id : SlabID) (h : SlabHead) (data : Bytes) : DM Slab := do
  if h.isRoot then do
    let (ty, data) ← newArrayExtraDataFromData data
    if data.length < versionAndFlagSize then fail
    else do
      let data ← sliceFrom data versionAndFlagSize
      arrDataContentGF φ id true (some ty) SlabID.undef false [] data
  else
    if data.length < SlabIDLength then fail
    else do
      let next ← newSlabIDFromRawBytes data
      let data ← sliceFrom data SlabIDLength
      arrDataContentGF φ id false none next false [] data

def arrDataV1AfterIEDGF (φ : Nat → Nat) (id : SlabID) (h : SlabHead) (ty : Option TyInfo) (xs : List XD)
    (data : Bytes) : DM Slab :=
  if h.hasNextSlabID then do
    let next ← newSlabIDFromRawBytes data
    let data ← sliceFrom data SlabIDLength
    arrDataContentGF φ id h.isRoot ty next true xs data
  else arrDataContentGF φ id h.isRoot ty SlabID.undef true xs data

def arrDataV1AfterExtraGF (φ : Nat → Nat) (id : SlabID) (h : SlabHead) (ty : Option TyInfo) (data : Bytes) :
    DM Slab :=
  if h.hasInlinedSlabs then do
    let (xs, data) ← newInlinedExtraDataFromDataF φ data
    arrDataV1AfterIEDGF φ id h ty xs data
  else arrDataV1AfterIEDGF φ id h ty [] data

def newArrayDataSlabFromDataV1GF (φ : Nat → Nat) (id : SlabID) (h : SlabHead) (data : Bytes) : DM Slab := do
  if h.isRoot then do
    let (ty, data) ← newArrayExtraDataFromData data
    arrDataV1AfterExtraGF φ id h (some ty) data
  else arrDataV1AfterExtraGF φ id h none data

def newArrayDataSlabFromDataGF (φ : Nat → Nat) (id : SlabID) (data : Bytes) : DM Slab :=
  if data.length < versionAndFlagSize then fail
  else do
    let hb ← sliceTo data versionAndFlagSize
    let h ← newHeadFromData hb
    if h.arrayType ≠ .data then fail
    else do
      let data ← sliceFrom data versionAndFlagSize
      if h.version = 0 then newArrayDataSlabFromDataV0GF φ id h data
      else if h.version = 1 then newArrayDataSlabFromDataV1GF φ id h data
      else fail

/-- `decodeSlabGen` with the fuel schedule `φ` -/
def decodeSlabGenF (φ : Nat → Nat) (id : SlabID) (data : Bytes) : DM Slab :=
  if data.length < versionAndFlagSize then fail
  else do
    let hb ← sliceTo data versionAndFlagSize
    let h ← newHeadFromData hb
    match h.slabType with
    | .array =>
      match h.arrayType with
      | .data => newArrayDataSlabFromDataGF φ id data
      | .index => newArrayMetaDataSlabFromData id data
      | _ => fail
    | .map =>
      match h.mapType with
      | .data => newMapDataSlabFromDataF φ id data
      | .index => newMapMetaDataSlabFromData id data
      | .collisionGroup => newMapDataSlabFromDataF φ id data
      | _ => fail
    | .storable => do
      let rest ← sliceFrom data versionAndFlagSize
      let (s, _) ← decStG (φ rest.length) 0 (Dec.new rest) id.addr []
      pure (.storableG id s)
    | .undefined => fail

/-- `decodeSlab` with the fuel schedule `φ` -/
def decodeSlabF (φ : Nat → Nat) (id : SlabID) (data : Bytes) : DM Slab := fun n =>
  match decodeSlabFlat id data n with
  | .error .unsupported _ => decodeSlabGenF φ id data n
  | r => r

/-- with the model's schedule the `…F` functions are the model's functions, definitionally -/
theorem decodeSlabGenF_model : decodeSlabGenF (fun L => L + 1) = decodeSlabGen := rfl
theorem decodeSlabF_model : decodeSlabF (fun L => L + 1) = decodeSlab := rfl

section
variable {φ : Nat → Nat} (hφ : ∀ L, L + 1 ≤ φ L)
include hφ

theorem newInlinedExtraDataFromDataF_eq (data : Bytes) :
    newInlinedExtraDataFromDataF φ data = newInlinedExtraDataFromData data := by
  refine Same.eq (P := fun _ => True) ?_
  unfold newInlinedExtraDataFromDataF newInlinedExtraDataFromData
  dsimp only
  refine Same.bind (Same.liftOpt _) ?_
  intro ⟨c, d1⟩ h1
  have hi1 : DecInv data.length d1 := decodeHeadOf_inv (DecInv.new data) h1
  dsimp only
  apply Same.ite <;> intro _
  · exact Same.fail
  · refine Same.bind (Same.liftOpt _) ?_
    intro ⟨tc, d2⟩ h2
    have hi2 := decodeHeadOf_inv hi1 h2
    dsimp only
    apply Same.ite <;> intro _
    · exact Same.fail
    · refine Same.bind (Same.alloc _) ?_
      intro _ _
      refine Same.bind (Same.of_np (np_decTypeInfos _ _ hi2)) ?_
      intro ⟨tis, d3⟩ hi3
      dsimp only at hi3 ⊢
      refine Same.bind (Same.liftOpt _) ?_
      intro ⟨xc, d4⟩ h4
      have hi4 := decodeHeadOf_inv hi3 h4
      dsimp only
      apply Same.ite <;> intro _
      · exact Same.fail
      · apply Same.ite <;> intro _
        · exact Same.fail
        · refine Same.bind (Same.alloc _) ?_
          intro _ _
          refine Same.bind (same_decXDs (hφ _) (Nat.le_refl _) tis _ _ hi4) ?_
          intro ⟨xs, d5⟩ _
          exact Same.triv _

theorem mapDataContentF_eq (id : SlabID) (h : SlabHead) (extra : Option MapExtra) (next : SlabID)
    (xs : List XD) (data : Bytes) :
    mapDataContentF φ id h extra next xs data = mapDataContent id h extra next xs data := by
  unfold mapDataContentF mapDataContent
  rw [decMElsG_fuel_eq (φ data.length) 0 (Dec.new data) id.addr xs (hφ _)]
  rfl

theorem arrDataContentGF_eq (id : SlabID) (isRoot : Bool) (ty : Option TyInfo) (next : SlabID)
    (checkEOF : Bool) (xs : List XD) (data : Bytes) :
    arrDataContentGF φ id isRoot ty next checkEOF xs data = arrDataContentG id isRoot ty next checkEOF xs data := by
  refine Same.eq (P := fun _ => True) ?_
  unfold arrDataContentGF arrDataContentG
  apply Same.ite <;> intro _
  · exact Same.fail
  · refine Same.bind (Same.liftOpt _) ?_
    intro ⟨ec, d1⟩ h1
    have hl1 : d1.data.length < data.length := decodeHeadOf_lt h1
    dsimp only
    apply Same.ite <;> intro _
    · exact Same.fail
    · refine Same.bind (Same.alloc _) ?_
      intro _ _
      have hL := hφ data.length
      rw [decStsG_fuel_eq (φ data.length) _ _ d1 _ _ _ (by omega),
        decStsG_fuel_eq (data.length + 1) _ _ d1 _ _ _ (by omega)]
      exact Same.triv _

theorem decodeSlabGenF_eq (id : SlabID) (data : Bytes) : decodeSlabGenF φ id data = decodeSlabGen id data := by
  have hIED : newInlinedExtraDataFromDataF φ = newInlinedExtraDataFromData :=
    funext (newInlinedExtraDataFromDataF_eq hφ)
  have hM : mapDataContentF φ = mapDataContent := by
    funext a b c d e f; exact mapDataContentF_eq hφ a b c d e f
  have hA : arrDataContentGF φ = arrDataContentG := by
    funext a b c d e f g; exact arrDataContentGF_eq hφ a b c d e f g
  have hM0 : newMapDataSlabFromDataV0F φ = newMapDataSlabFromDataV0 := by
    funext a b c; unfold newMapDataSlabFromDataV0F newMapDataSlabFromDataV0; rw [hM]
  have hMI : mapDataV1AfterIEDF φ = mapDataV1AfterIED := by
    funext a b c d e; unfold mapDataV1AfterIEDF mapDataV1AfterIED; rw [hM]
  have hME : mapDataV1AfterExtraF φ = mapDataV1AfterExtra := by
    funext a b c d; unfold mapDataV1AfterExtraF mapDataV1AfterExtra; rw [hMI, hIED]
  have hM1 : newMapDataSlabFromDataV1F φ = newMapDataSlabFromDataV1 := by
    funext a b c; unfold newMapDataSlabFromDataV1F newMapDataSlabFromDataV1; rw [hME]
  have hMD : newMapDataSlabFromDataF φ = newMapDataSlabFromData := by
    funext a b; unfold newMapDataSlabFromDataF newMapDataSlabFromData; rw [hM0, hM1]
  have hA0 : newArrayDataSlabFromDataV0GF φ = newArrayDataSlabFromDataV0G := by
    funext a b c; unfold newArrayDataSlabFromDataV0GF newArrayDataSlabFromDataV0G; rw [hA]
  have hAI : arrDataV1AfterIEDGF φ = arrDataV1AfterIEDG := by
    funext a b c d e; unfold arrDataV1AfterIEDGF arrDataV1AfterIEDG; rw [hA]
  have hAE : arrDataV1AfterExtraGF φ = arrDataV1AfterExtraG := by
    funext a b c d; unfold arrDataV1AfterExtraGF arrDataV1AfterExtraG; rw [hAI, hIED]
  have hA1 : newArrayDataSlabFromDataV1GF φ = newArrayDataSlabFromDataV1G := by
    funext a b c; unfold newArrayDataSlabFromDataV1GF newArrayDataSlabFromDataV1G; rw [hAE]
  have hAD : newArrayDataSlabFromDataGF φ = newArrayDataSlabFromDataG := by
    funext a b; unfold newArrayDataSlabFromDataGF newArrayDataSlabFromDataG; rw [hA0, hA1]
  have hS : ∀ rest : Bytes, decStG (φ rest.length) 0 (Dec.new rest) id.addr [] =
      decStG (rest.length + 1) 0 (Dec.new rest) id.addr [] :=
    fun rest => decStG_fuel_eq (φ rest.length) 0 (Dec.new rest) id.addr [] (hφ _)
  unfold decodeSlabGenF decodeSlabGen
  rw [hMD, hAD]
  simp only [hS]
  rfl

theorem decodeSlabF_eq (id : SlabID) (data : Bytes) : decodeSlabF φ id data = decodeSlab id data := by
  unfold decodeSlabF decodeSlab
  rw [decodeSlabGenF_eq hφ]
  rfl

end

end Atree.Codec
