import AtreeProofs.Codec.NoPanicG
/-
  The size and child-reference accessors of the slabs `DecodeSlab` returns, transcribed in the
  panic-tracking monad `DM` over a RAW representation of Go values (audit item B3, property C19).

  Go functions transcribed (line by line; each definition names its Go function):
    `(*ArrayDataSlab).ByteSize` / `.ChildStorables`         array_data_slab.go:566, :612
    `(*ArrayMetaDataSlab).ByteSize` / `.ChildStorables`     array_metadata_slab.go:866, :912
    `(*MapDataSlab).ByteSize` / `.ChildStorables`           map_data_slab.go:460, :424
    `(*MapMetaDataSlab).ByteSize` / `.ChildStorables`       map_metadata_slab.go:788, :766
    `(*StorableSlab).ByteSize` / `.ChildStorables`          storable_slab.go:122, :85
    `elementsStorables`, `elementStorables`                 map_elements.go:145, :164
    `Storable.ByteSize` of the storables a large-value slab can hold: `hx.TV`, `hx.SomeStorable`
    (harness/hx/values.go:87, :226), `SlabIDStorable` (slab_id_storable.go:96), inlined
    `*ArrayDataSlab` / `*MapDataSlab` (`header.size`).

  RAW representation.  The algebraic types of the codec model (`Slab`, `Stor`, `MEls`, `MEl`) cannot
  express several things a Go value can be, and which are exactly what makes an accessor panic:
    * an interface value (`Slab`, `Storable`, `elements`, `element`) can be the nil interface, or hold
      a typed nil pointer, or — for `elements` / `element`, whose type switches have no `default` /
      a panicking fall-through — a dynamic type the switch does not list (`foreign`);
    * a slot of `[]Storable`, `[]element`, `[]*singleElement` can be nil (this is what
      `make([]T, n)` produces before the decoding loop assigns `slots[i]`);
    * `header.size`, `header.count` are stored fields, independent of the slices' lengths and
      contents; `hkeys` and `elems` of `hkeyElements` are two independent slices.
  `RawSlab`, `RStor`, `RElems`, `RElem` below have a constructor for each of these.  The accessors
  are total functions `RawSlab → DM _`; they answer `panic` where the Go code dereferences a nil
  pointer, calls a method on a nil interface, writes past the end of a slice, or reaches
  `panic(NewUnreachableError())` (map_elements.go:178).  `uint32` additions are done in `Nat` (wrap-
  around is not a panic; sizes are `Nat` everywhere in the model).

  WHAT IS PROVED (`accessors_of_decoded`, restated in Props/C19Acc.lean as
  `C19.accessors_never_panic`): for every slab `s` that the decoder MODEL returns,
  `byteSizeM s.toRaw = ok s.byteSize` and `childStorablesM s.toRaw = ok (s.childStorables.map toRaw)`
  — no panic, and every returned child storable is non-nil.  `Slab.toRaw` is the embedding of the
  algebraic slab into the raw representation: pointers non-nil, every slot filled, header sizes as
  the decoders compute them (the model's `size` functions).  Two ingredients:
    (1) the transcription: on fully populated raw slabs the accessors do not panic (and on raw slabs
        with a nil / foreign slot they do — `byteSizeM_panic_iff`, `childStorablesM_panic_iff` say
        exactly when, `childStorables_nil_slot_panics` is an instance — so the raw model is able to
        express the failure);
    (2) the decoder model returns `Slab` values, i.e. fully populated ones; the single place where the
        hypothesis "`s` was decoded" is used is the flat large-value slab `Slab.storable id e`: the
        model's `Elem` carries a size even for a slab reference, Go's `SlabIDStorable.ByteSize()` is
        the constant 19, and the two agree because `DecodeSlabIDStorable` sets the size to that
        constant (`decodeSlab_refSizeOK`).

  WHAT THIS DOES AND DOES NOT ESTABLISH ABOUT THE GO CODE.  (2) is where Go facts are carried by the
  SHAPE of the model's types rather than by a theorem.  That `DecodeSlab` returns only fully
  populated slabs rests on these facts about the Go decoders, which the model's decoders encode by
  returning `List`s built element by element and `Slab` constructors applied to them:
    * every `make([]T, n)` of a decoder is followed by a loop `for i := range slots` /
      `for i := range n` whose body either returns `nil, err` or assigns `slots[i]`, and the struct
      holding the slice is built only after the loop:
        elements:        array_data_slab_decode.go:161-168 (v0), :278-285 (v1), :400-407 (inlined);
        singleElements:  map_elements_decode.go:80-88;   hkeyElements: map_elements_decode.go:110-118;
        hkeys:           map_elements_decode.go:55-57;
        childrenHeaders: array_metadata_slab_decode.go:143-172 (v0), :262-294 (v1),
                         map_metadata_slab_decode.go:137-153 (v0), :250-266 (v1);
      (`makeFillM_eq` below proves, for the loop pattern itself, that make + indexed assignment
      returns exactly the list of decoded items with every slot filled and never indexes out of
      range, and `goElementLoop_eq_decodeElems` instantiates it for the element loop of the array
      data slab decoders and the model's `decodeElems` — but that the Go loops ARE instances of
      the pattern is read off the source, not proved);
    * a decoder returns `&T{…}` (non-nil) exactly when it returns a nil error, and `nil, err`
      otherwise (decode.go:42-100 and every `return` of the files above);
    * `newElementFromData` returns one of `*singleElement`, `*inlineCollisionGroup`,
      `*externalCollisionGroup`, each freshly allocated (map_element_decode.go:86, :100, :121);
      its `return newSingleElementFromData(…)` (map_element_decode.go:36) does convert a nil
      `*singleElement` to a non-nil `element` on the error path, but the caller drops the value
      (`map_elements_decode.go:112-116`);
    * the `StorableDecoder` callback returns a non-nil `Storable` with a nil error (true of
      `hx.DecodeStorable`; a callback returning `nil, nil` makes `storable.ByteSize()` panic inside
      the decoder already — array_data_slab_decode.go:170 — which is outside this model).
  A statement "the Go decoders return no nil slot" that does not lean on these readings needs a
  model of the decoders at the level of pointers and slices (slots, aliasing, `make`, assignment),
  with the algebraic model proved to be its abstraction; the present model has no such layer, so
  the theorem cannot say more than: the accessors, as transcribed, are panic-free on the image of
  the decoder model under `toRaw`.
-/
namespace Atree.Codec
open DM Atree.Gen

/-! ### raw Go values -/

/-- What an inlined `*ArrayDataSlab` / `*MapDataSlab` held as a `Storable` exposes to the accessors
    in scope: its `header.size`.  The content is kept algebraic (no accessor in scope looks inside). -/
structure RInl where
  hdrSize : Nat
  content : Stor

/-- A `Storable` interface value. -/
inductive RStor where
  /-- the nil interface -/
  | nil
  /-- `hx.TV{Size, Pay}` -/
  | val (size pay : Nat)
  /-- `SlabIDStorable` -/
  | ref (id : SlabID)
  /-- `hx.SomeStorable{S}`; `S` is again an interface value -/
  | some (s : RStor)
  /-- `*ArrayDataSlab` (inlined); `none` = typed nil pointer -/
  | arr (p : Option RInl)
  /-- `*MapDataSlab` (inlined); `none` = typed nil pointer -/
  | map (p : Option RInl)

/-- the pointee of a `*singleElement` -/
structure RSingle where
  key   : RStor
  value : RStor
  size  : Nat

mutual
/-- An `elements` interface value. -/
inductive RElems where
  /-- the nil interface -/
  | nil
  /-- a dynamic type other than `*hkeyElements` / `*singleElements` -/
  | foreign
  /-- `(*hkeyElements)(nil)` -/
  | hkeyNil
  /-- `&hkeyElements{hkeys, elems, level, size}`: two independent slices; slots of `elems` are
      interface values -/
  | hkey (level : Nat) (hkeys : List Nat) (elems : List RElem) (size : Nat)
  /-- `(*singleElements)(nil)` -/
  | singleNil
  /-- `&singleElements{elems, level, size}`: slots of `elems` are pointers, `none` = nil -/
  | single (level : Nat) (elems : List (Option RSingle)) (size : Nat)
/-- An `element` interface value. -/
inductive RElem where
  /-- the nil interface -/
  | nil
  /-- a dynamic type the switch of `elementStorables` does not list -/
  | foreign
  /-- `(*singleElement)(nil)` -/
  | singleNil
  | single (e : RSingle)
  /-- `(*inlineCollisionGroup)(nil)` -/
  | inlNil
  /-- `&inlineCollisionGroup{elements}` -/
  | inl (els : RElems)
  /-- `(*externalCollisionGroup)(nil)` -/
  | extNil
  /-- `&externalCollisionGroup{slabID, size}` -/
  | ext (id : SlabID) (size : Nat)
end

/-- `*ArrayDataSlab`: the fields the accessors read (`header.count` is kept to show that it is
    independent of `len(elements)`) -/
structure RArrData where
  hdrSize  : Nat
  hdrCount : Nat
  elements : List RStor

/-- `*ArrayMetaDataSlab` (`[]ArraySlabHeader` is a slice of structs: no nil slots) -/
structure RArrMeta where
  hdrSize         : Nat
  childrenHeaders : List Hdr

/-- `*MapDataSlab` -/
structure RMapData where
  hdrSize  : Nat
  elements : RElems

/-- `*MapMetaDataSlab` -/
structure RMapMeta where
  hdrSize         : Nat
  childrenHeaders : List MChildHdr

/-- `*StorableSlab` -/
structure RStorableSlab where
  slabID   : SlabID
  storable : RStor

/-- A `Slab` interface value as `DecodeSlab` can return it: the nil interface, or a pointer
    (`none` = typed nil) to one of the five slab structs. -/
inductive RawSlab where
  | nil
  | arrData (p : Option RArrData)
  | arrMeta (p : Option RArrMeta)
  | mapData (p : Option RMapData)
  | mapMeta (p : Option RMapMeta)
  | storable (p : Option RStorableSlab)

/-! ### `Storable.ByteSize()` -/

/-- `storable.ByteSize()` on an interface value: a method call on the nil interface panics;
    `TV.ByteSize` returns the field; `SlabIDStorable.ByteSize` the constant;
    `SomeStorable.ByteSize` is `someOverhead + s.S.ByteSize()`; `(*ArrayDataSlab).ByteSize` /
    `(*MapDataSlab).ByteSize` read `a.header.size` through the pointer. -/
def RStor.byteSizeM : RStor → DM Nat
  | .nil => DM.panic
  | .val size _ => pure size
  | .ref _ => pure slabIDStorableSize
  | .some s => do
    let n ← s.byteSizeM
    pure (someOverhead + n)
  | .arr Option.none => DM.panic
  | .arr (Option.some a) => pure a.hdrSize
  | .map Option.none => DM.panic
  | .map (Option.some m) => pure m.hdrSize

/-! ### map_elements.go: `elementsStorables`, `elementStorables` -/

/-- the two `*singleElement` lines of `elementStorables` (`case *singleElement:
    return append(childStorables, v.key, v.value)`); `v.key` on a nil pointer panics -/
def singleElementStorablesM (p : Option RSingle) (childStorables : List RStor) : DM (List RStor) :=
  match p with
  | none => DM.panic
  | some v => pure (childStorables ++ [v.key, v.value])

/-- the loop of the `*singleElements` case of `elementsStorables`:
    `for i := range v.elems { childStorables = elementStorables(v.elems[i], childStorables) }`.
    `v.elems[i]` is a `*singleElement` converted to `element`, so the type switch of
    `elementStorables` takes the `*singleElement` case whether or not the pointer is nil.  (`range`
    fixes the slice and its length on entry and the body does not modify it, so the index expression
    cannot fail: the loop is an iteration over the slots.) -/
def singleLoopM : List (Option RSingle) → List RStor → DM (List RStor)
  | [], childStorables => pure childStorables
  | p :: ps, childStorables => do
    let childStorables ← singleElementStorablesM p childStorables
    singleLoopM ps childStorables

mutual
/-- `elementsStorables(elems, childStorables)`: a type switch WITHOUT default, then
    `return childStorables` -/
def elementsStorablesM : RElems → List RStor → DM (List RStor)
  | .hkey _ _ elems _, childStorables => hkeyLoopM elems childStorables
  | .hkeyNil, _ => DM.panic                               -- `v.elems` through a nil pointer
  | .single _ elems _, childStorables => singleLoopM elems childStorables
  | .singleNil, _ => DM.panic
  | .nil, childStorables => pure childStorables           -- no case matches
  | .foreign, childStorables => pure childStorables
/-- `elementStorables(e, childStorables)`: a type switch, then `panic(NewUnreachableError())` -/
def elementStorablesM : RElem → List RStor → DM (List RStor)
  | .ext id _, childStorables => pure (childStorables ++ [RStor.ref id])   -- `SlabIDStorable(v.slabID)`
  | .extNil, _ => DM.panic                                -- `v.slabID` through a nil pointer
  | .inl els, childStorables => elementsStorablesM els childStorables
  | .inlNil, _ => DM.panic                                -- `v.elements` through a nil pointer
  | .single v, childStorables => singleElementStorablesM (some v) childStorables
  | .singleNil, childStorables => singleElementStorablesM none childStorables
  | .nil, _ => DM.panic                                   -- `panic(NewUnreachableError())`
  | .foreign, _ => DM.panic
/-- the loop of the `*hkeyElements` case:
    `for i := range v.elems { childStorables = elementStorables(v.elems[i], childStorables) }` -/
def hkeyLoopM : List RElem → List RStor → DM (List RStor)
  | [], childStorables => pure childStorables
  | e :: es, childStorables => do
    let childStorables ← elementStorablesM e childStorables
    hkeyLoopM es childStorables
end

/-! ### index slabs: `make` + indexed assignment -/

/-- `s[i] = v`: index out of range panics -/
def setIdxM {α : Type} (s : List α) (i : Nat) (v : α) : DM (List α) :=
  if i < s.length then pure (s.set i v) else DM.panic

/-- `for i, h := range a.childrenHeaders { childIDs[i] = SlabIDStorable(h.slabID) }`, from index `i` on -/
def fillChildIDsM : List SlabID → Nat → List RStor → DM (List RStor)
  | [], _, childIDs => pure childIDs
  | h :: hs, i, childIDs => do
    let childIDs ← setIdxM childIDs i (RStor.ref h)
    fillChildIDsM hs (i + 1) childIDs

/-- `(*ArrayMetaDataSlab).ChildStorables` / `(*MapMetaDataSlab).ChildStorables` (the two bodies are
    the same text): `childIDs := make([]Storable, len(childrenHeaders))` — a slice of nil interfaces —
    then the loop; `ids` are the `slabID` fields of the headers -/
def metaChildStorablesM (ids : List SlabID) : DM (List RStor) := do
  alloc ids.length
  let childIDs := List.replicate ids.length RStor.nil
  fillChildIDsM ids 0 childIDs

/-! ### the accessors -/

/-- `Slab.ByteSize()` -/
def byteSizeM : RawSlab → DM Nat
  | .nil => DM.panic                                      -- method call on the nil interface
  | .arrData none => DM.panic                             -- `a.header.size` through a nil pointer
  | .arrData (some a) => pure a.hdrSize                   -- array_data_slab.go:567
  | .arrMeta none => DM.panic
  | .arrMeta (some a) => pure a.hdrSize                   -- array_metadata_slab.go:867
  | .mapData none => DM.panic
  | .mapData (some m) => pure m.hdrSize                   -- map_data_slab.go:461
  | .mapMeta none => DM.panic
  | .mapMeta (some m) => pure m.hdrSize                   -- map_metadata_slab.go:789
  | .storable none => DM.panic
  | .storable (some s) => do                              -- storable_slab.go:125
    let n ← s.storable.byteSizeM
    pure (versionAndFlagSize + n)

/-- `Slab.ChildStorables()` -/
def childStorablesM : RawSlab → DM (List RStor)
  | .nil => DM.panic
  | .arrData none => DM.panic
  | .arrData (some a) => pure a.elements                  -- `slices.Clone(a.elements)`: a copy, nil slots stay nil
  | .arrMeta none => DM.panic
  | .arrMeta (some a) => metaChildStorablesM (a.childrenHeaders.map (·.id))
  | .mapData none => DM.panic
  | .mapData (some m) => elementsStorablesM m.elements [] -- `elementsStorables(m.elements, nil)`
  | .mapMeta none => DM.panic
  | .mapMeta (some m) => metaChildStorablesM (m.childrenHeaders.map (·.id))
  | .storable none => DM.panic
  | .storable (some s) => pure [s.storable]               -- `[]Storable{s.storable}`

/-! ### the embedding of the algebraic model -/

/-- a storable of the model as a Go value: every interface non-nil, every pointer non-nil, the
    header size of an inlined slab as the decoders compute it -/
def Stor.toRaw : Stor → RStor
  | .val size pay => .val size pay
  | .ref id => .ref id
  | .some s => .some s.toRaw
  | .arr ty idx es => .arr (Option.some ⟨(Stor.arr ty idx es).size, .arr ty idx es⟩)
  | .map x idx els => .map (Option.some ⟨(Stor.map x idx els).size, .map x idx els⟩)

/-- `&singleElement{key, value, size}` -/
def SEl.toRaw : SEl → RSingle
  | .mk k v => ⟨k.toRaw, v.toRaw, (SEl.mk k v).size⟩

mutual
def MEls.toRaw : MEls → RElems
  | .hkey level hkeys es => .hkey level hkeys (melListToRaw es) (hkeyElementsPrefixSize + sizeMEl es)
  | .single level es => .single level (es.map (fun e => some e.toRaw)) (singleElementsPrefixSize + sizeSEl es)
def MEl.toRaw : MEl → RElem
  | .single e => .single e.toRaw
  | .inl els => .inl els.toRaw
  | .ext id => .ext id (externalCollisionGroupPrefixSize + slabIDStorableSize)
def melListToRaw : List MEl → List RElem
  | [] => []
  | e :: es => e.toRaw :: melListToRaw es
end

/-- a slab of the model as the Go value `DecodeSlab` returns: a non-nil pointer to a struct whose
    slices have every slot filled; the seven constructors of `Slab` are five Go types -/
def Slab.toRaw : Slab → RawSlab
  | .data _ s => .arrData (some ⟨s.hdr.size, s.hdr.count, s.elems.map (fun e => (Stor.ofElem e).toRaw)⟩)
  | .index _ m => .arrMeta (some ⟨m.hdr.size, m.childHdrs⟩)
  | .storable id e => .storable (some ⟨id, (Stor.ofElem e).toRaw⟩)
  | .adata a => .arrData (some ⟨a.size, a.elems.length, a.elems.map Stor.toRaw⟩)
  | .mdata s => .mapData (some ⟨s.size, s.els.toRaw⟩)
  | .mindex m => .mapMeta (some ⟨m.size, m.childHdrs⟩)
  | .storableG id s => .storable (some ⟨id, s.toRaw⟩)

/-- slice elements `ChildStorables()` allocates with `make` (index slabs only) -/
def Slab.childMakeAllocs : Slab → Nat
  | .index _ m => m.childHdrs.length
  | .mindex m => m.childHdrs.length
  | _ => 0

/-! ### (1) the accessors on embedded values -/

theorem DM.run_pure {α : Type} (a : α) (k : Nat) : (pure a : DM α) k = .ok a k := rfl

theorem DM.run_bind_ok {α β : Type} {m : DM α} {f : α → DM β} {k k' : Nat} {a : α} (h : m k = .ok a k') :
    (m >>= f) k = f a k' := by
  show DM.bind' m f k = f a k'
  unfold DM.bind'
  rw [h]

theorem DM.run_bind_panic {α β : Type} {m : DM α} {f : α → DM β} {k : Nat} (h : m k = .panic) :
    (m >>= f) k = .panic := by
  show DM.bind' m f k = .panic
  unfold DM.bind'
  rw [h]

/-- `ByteSize()` of an embedded storable is the model's size -/
theorem Stor.byteSizeM_toRaw : (s : Stor) → (k : Nat) → s.toRaw.byteSizeM k = .ok s.size k
  | .val size pay, k => rfl
  | .ref id, k => rfl
  | .some s, k => by
    have ih := Stor.byteSizeM_toRaw s k
    show (s.toRaw.byteSizeM >>= fun n => pure (someOverhead + n)) k = _
    rw [DM.run_bind_ok ih]
    rfl
  | .arr ty idx es, k => rfl
  | .map x idx els, k => rfl

theorem singleLoopM_toRaw : (es : List SEl) → (acc : List RStor) → (k : Nat) →
    singleLoopM (es.map (fun e => some e.toRaw)) acc k = .ok (acc ++ (selListStorables es).map Stor.toRaw) k
  | [], acc, k => by simp [singleLoopM, selListStorables, DM.run_pure]
  | .mk kk v :: es, acc, k => by
    have ih := singleLoopM_toRaw es (acc ++ [kk.toRaw, v.toRaw]) k
    simp only [List.map_cons, singleLoopM, selListStorables]
    have h1 : singleElementStorablesM (some (SEl.mk kk v).toRaw) acc k = .ok (acc ++ [kk.toRaw, v.toRaw]) k := rfl
    rw [DM.run_bind_ok h1, ih]
    simp

mutual
theorem elementsStorablesM_toRaw : (els : MEls) → (acc : List RStor) → (k : Nat) →
    elementsStorablesM els.toRaw acc k = .ok (acc ++ els.storables.map Stor.toRaw) k
  | .hkey level hkeys es, acc, k => by
    simp only [MEls.toRaw, elementsStorablesM, MEls.storables]
    exact hkeyLoopM_toRaw es acc k
  | .single level es, acc, k => by
    simp only [MEls.toRaw, elementsStorablesM, MEls.storables]
    exact singleLoopM_toRaw es acc k
theorem elementStorablesM_toRaw : (e : MEl) → (acc : List RStor) → (k : Nat) →
    elementStorablesM e.toRaw acc k = .ok (acc ++ e.storables.map Stor.toRaw) k
  | .single (.mk kk v), acc, k => by
    simp only [MEl.toRaw, elementStorablesM, MEl.storables, SEl.toRaw, singleElementStorablesM, DM.run_pure,
      List.map_cons, List.map_nil]
  | .inl els, acc, k => by
    simp only [MEl.toRaw, elementStorablesM, MEl.storables]
    exact elementsStorablesM_toRaw els acc k
  | .ext id, acc, k => by
    simp only [MEl.toRaw, elementStorablesM, MEl.storables, DM.run_pure, List.map_cons, List.map_nil, Stor.toRaw]
theorem hkeyLoopM_toRaw : (es : List MEl) → (acc : List RStor) → (k : Nat) →
    hkeyLoopM (melListToRaw es) acc k = .ok (acc ++ (melListStorables es).map Stor.toRaw) k
  | [], acc, k => by simp [melListToRaw, hkeyLoopM, melListStorables, DM.run_pure]
  | e :: es, acc, k => by
    have h1 := elementStorablesM_toRaw e acc k
    have ih := hkeyLoopM_toRaw es (acc ++ e.storables.map Stor.toRaw) k
    simp only [melListToRaw, hkeyLoopM, melListStorables]
    rw [DM.run_bind_ok h1, ih]
    simp
end

theorem take_succ_set {α : Type} : ∀ (s : List α) (i : Nat) (v : α), i < s.length →
    (s.take (i + 1)).set i v = s.take i ++ [v]
  | [], i, v, h => by simp at h
  | a :: s, 0, v, h => by simp
  | a :: s, i + 1, v, h => by simp [take_succ_set s i v (by simpa using h)]

/-- the indexed loop never writes out of range and fills the slots from `i` on -/
theorem fillChildIDsM_eq : (hs : List SlabID) → (i : Nat) → (s : List RStor) → (k : Nat) →
    i + hs.length = s.length →
    fillChildIDsM hs i s k = .ok (s.take i ++ hs.map RStor.ref) k
  | [], i, s, k, h => by
    have : s.take i = s := List.take_of_length_le (by simp at h; omega)
    simp [fillChildIDsM, DM.run_pure, this]
  | x :: hs, i, s, k, h => by
    have hlt : i < s.length := by simp at h; omega
    have h1 : setIdxM s i (RStor.ref x) k = .ok (s.set i (RStor.ref x)) k := by
      unfold setIdxM; rw [if_pos hlt]; rfl
    have ih := fillChildIDsM_eq hs (i + 1) (s.set i (RStor.ref x)) k (by simp at h ⊢; omega)
    simp only [fillChildIDsM]
    rw [DM.run_bind_ok h1, ih]
    congr 1
    rw [List.take_set, take_succ_set s i _ hlt]
    simp

theorem metaChildStorablesM_eq (ids : List SlabID) (k : Nat) :
    metaChildStorablesM ids k = .ok (ids.map RStor.ref) (k + ids.length) := by
  unfold metaChildStorablesM
  have h1 : DM.alloc ids.length k = .ok () (k + ids.length) := rfl
  rw [DM.run_bind_ok h1]
  rw [fillChildIDsM_eq ids 0 _ _ (by simp)]
  simp

/-- slab references of the flat model have the size Go's `SlabIDStorable.ByteSize()` returns -/
def Slab.refSizeOK : Slab → Prop
  | .storable _ e => ∀ id, e.pay = .ref id → e.size = slabIDStorableSize
  | _ => True

theorem byteSizeM_toRaw (s : Slab) (h : s.refSizeOK) (k : Nat) : byteSizeM s.toRaw k = .ok s.byteSize k := by
  cases s with
  | data ty d => rfl
  | index ty m => rfl
  | adata a => rfl
  | mdata m => rfl
  | mindex m => rfl
  | storable id e =>
    have h1 := Stor.byteSizeM_toRaw (Stor.ofElem e) k
    have hs : (Stor.ofElem e).size = e.size := by
      unfold Stor.ofElem
      cases hp : e.pay with
      | val p => simp [Stor.size]
      | ref r => simp only [Stor.size]; exact (h r hp).symm
    show ((Stor.ofElem e).toRaw.byteSizeM >>= fun n => pure (versionAndFlagSize + n)) k = _
    rw [DM.run_bind_ok h1, hs]
    rfl
  | storableG id x =>
    have h1 := Stor.byteSizeM_toRaw x k
    show (x.toRaw.byteSizeM >>= fun n => pure (versionAndFlagSize + n)) k = _
    rw [DM.run_bind_ok h1]
    rfl

theorem childStorablesM_toRaw (s : Slab) (k : Nat) :
    childStorablesM s.toRaw k = .ok (s.childStorables.map Stor.toRaw) (k + s.childMakeAllocs) := by
  cases s with
  | data ty d => simp [Slab.toRaw, childStorablesM, Slab.childStorables, Slab.childMakeAllocs, DM.run_pure]
  | index ty m =>
    simp only [Slab.toRaw, childStorablesM, Slab.childStorables, Slab.childMakeAllocs, metaChildStorablesM_eq,
      List.map_map, List.length_map]
    rfl
  | adata a => simp [Slab.toRaw, childStorablesM, Slab.childStorables, Slab.childMakeAllocs, DM.run_pure]
  | mdata m =>
    simp only [Slab.toRaw, childStorablesM, Slab.childStorables, Slab.childMakeAllocs]
    rw [elementsStorablesM_toRaw]
    simp
  | mindex m =>
    simp only [Slab.toRaw, childStorablesM, Slab.childStorables, Slab.childMakeAllocs, metaChildStorablesM_eq,
      List.map_map, List.length_map]
    rfl
  | storable id e => simp [Slab.toRaw, childStorablesM, Slab.childStorables, Slab.childMakeAllocs, DM.run_pure]
  | storableG id x => simp [Slab.toRaw, childStorablesM, Slab.childStorables, Slab.childMakeAllocs, DM.run_pure]

/-! ### (2) what the decoder model returns -/

/-- a value the computation returns satisfies `P` (nothing about errors or panics) -/
def RetP {α : Type} (m : DM α) (P : α → Prop) : Prop := ∀ n a k, m n = .ok a k → P a

namespace RetP
variable {α β : Type}

theorem pure {a : α} {P : α → Prop} (h : P a) : RetP (Pure.pure a : DM α) P := by
  intro n b k hb
  cases hb
  exact h

theorem fail {e : DErr} {P : α → Prop} : RetP (DM.fail e : DM α) P := by
  intro n b k hb
  cases hb

theorem bind {m : DM α} {f : α → DM β} {P : α → Prop} {Q : β → Prop}
    (hm : RetP m P) (hf : ∀ a, P a → RetP (f a) Q) : RetP (m >>= f) Q := by
  intro n b k hb
  change DM.bind' m f n = .ok b k at hb
  unfold DM.bind' at hb
  cases hmn : m n with
  | ok a n' => rw [hmn] at hb; exact hf a (hm n a n' hmn) n' b k hb
  | error e n' => rw [hmn] at hb; cases hb
  | panic => rw [hmn] at hb; cases hb

theorem ite {c : Prop} [Decidable c] {a b : DM α} {P : α → Prop}
    (ha : c → RetP a P) (hb : ¬c → RetP b P) : RetP (if c then a else b) P := by
  split
  · exact ha ‹_›
  · exact hb ‹_›

theorem bind_any {m : DM α} {f : α → DM β} {Q : β → Prop} (hf : ∀ a, RetP (f a) Q) : RetP (m >>= f) Q :=
  bind (P := fun _ => True) (fun _ _ _ _ => trivial) (fun a _ => hf a)

end RetP

/-- one step through a decoder body whose result constructor decides the postcondition -/
macro "retp_step" : tactic => `(tactic| first
  | exact RetP.fail
  | exact RetP.pure trivial
  | (apply RetP.ite <;> intro _)
  | (refine RetP.bind_any ?_; intro _)
  | split
  | dsimp only)

/-- an element of the flat model: a slab reference has the size of `SlabIDStorable` -/
def ElemRefOK (e : Elem) : Prop := ∀ id, e.pay = .ref id → e.size = slabIDStorableSize

theorem retp_decodeSlabIDStorable (d : Dec) : RetP (decodeSlabIDStorable d) (fun r => ElemRefOK r.1) := by
  unfold decodeSlabIDStorable
  refine RetP.bind_any ?_
  intro ⟨b, d1⟩
  refine RetP.bind_any ?_
  intro id
  exact RetP.pure (fun _ _ => rfl)

theorem elemRefOK_tvFromBytes (b : Bytes) (extra : Nat) : ElemRefOK (tvFromBytes b extra) := by
  intro id h
  simp [tvFromBytes] at h

theorem retp_decodeElem (d : Dec) : RetP (decodeElem d) (fun r => ElemRefOK r.1) := by
  unfold decodeElem
  refine RetP.bind_any ?_
  intro ⟨t, d1⟩
  dsimp only
  split
  · refine RetP.bind_any ?_
    intro ⟨b, d2⟩
    exact RetP.pure (elemRefOK_tvFromBytes b 0)
  · refine RetP.bind_any ?_
    intro ⟨n, d2⟩
    dsimp only
    split
    · exact RetP.fail
    · split
      · exact retp_decodeSlabIDStorable d2
      · split
        · refine RetP.bind_any ?_
          intro ⟨b, d3⟩
          exact RetP.pure (elemRefOK_tvFromBytes b 2)
        · split <;> exact RetP.fail
  · exact RetP.fail

theorem retp_finishData (id : SlabID) (ty : Option TyInfo) (next : SlabID) (checkEOF : Bool) (dataLen : Nat)
    (elemCount : Nat) (elems : List Elem) (slabSize : Nat) (d : Dec) :
    RetP (finishData id ty next checkEOF dataLen elemCount elems slabSize d) Slab.refSizeOK := by
  unfold finishData; repeat retp_step

theorem retp_decodeDataContent (id : SlabID) (isRoot : Bool) (ty : Option TyInfo) (next : SlabID)
    (checkEOF : Bool) (data : Bytes) : RetP (decodeDataContent id isRoot ty next checkEOF data) Slab.refSizeOK := by
  unfold decodeDataContent
  repeat (first | retp_step | exact retp_finishData _ _ _ _ _ _ _ _ _)

theorem retp_newArrayDataSlabFromDataV0 (id : SlabID) (h : SlabHead) (data : Bytes) :
    RetP (newArrayDataSlabFromDataV0 id h data) Slab.refSizeOK := by
  unfold newArrayDataSlabFromDataV0
  repeat (first | retp_step | exact retp_decodeDataContent _ _ _ _ _ _)

theorem retp_dataV1AfterExtra (id : SlabID) (h : SlabHead) (ty : Option TyInfo) (data : Bytes) :
    RetP (dataV1AfterExtra id h ty data) Slab.refSizeOK := by
  unfold dataV1AfterExtra
  repeat (first | retp_step | exact retp_decodeDataContent _ _ _ _ _ _)

theorem retp_newArrayDataSlabFromDataV1 (id : SlabID) (h : SlabHead) (data : Bytes) :
    RetP (newArrayDataSlabFromDataV1 id h data) Slab.refSizeOK := by
  unfold newArrayDataSlabFromDataV1
  repeat (first | retp_step | exact retp_dataV1AfterExtra _ _ _ _)

theorem retp_newArrayDataSlabFromData (id : SlabID) (data : Bytes) :
    RetP (newArrayDataSlabFromData id data) Slab.refSizeOK := by
  unfold newArrayDataSlabFromData
  repeat (first | retp_step | exact retp_newArrayDataSlabFromDataV0 _ _ _ | exact retp_newArrayDataSlabFromDataV1 _ _ _)

theorem retp_metaV0AfterExtra (id : SlabID) (ty : Option TyInfo) (data : Bytes) :
    RetP (metaV0AfterExtra id ty data) Slab.refSizeOK := by
  unfold metaV0AfterExtra mkMeta; repeat retp_step

theorem retp_metaV1AfterExtra (id : SlabID) (ty : Option TyInfo) (data : Bytes) :
    RetP (metaV1AfterExtra id ty data) Slab.refSizeOK := by
  unfold metaV1AfterExtra mkMeta; repeat retp_step

theorem retp_newArrayMetaDataSlabFromData (id : SlabID) (data : Bytes) :
    RetP (newArrayMetaDataSlabFromData id data) Slab.refSizeOK := by
  unfold newArrayMetaDataSlabFromData newArrayMetaDataSlabFromDataV0 newArrayMetaDataSlabFromDataV1
  repeat (first | retp_step | exact retp_metaV0AfterExtra _ _ _ | exact retp_metaV1AfterExtra _ _ _)

theorem retp_decodeSlabFlat (id : SlabID) (data : Bytes) : RetP (decodeSlabFlat id data) Slab.refSizeOK := by
  unfold decodeSlabFlat
  apply RetP.ite <;> intro _
  · exact RetP.fail
  · refine RetP.bind_any ?_
    intro hb
    refine RetP.bind_any ?_
    intro h
    split
    · split
      · exact retp_newArrayDataSlabFromData _ _
      · exact retp_newArrayMetaDataSlabFromData _ _
      · exact RetP.fail
    · exact RetP.fail
    · refine RetP.bind_any ?_
      intro rest
      refine RetP.bind (retp_decodeElem _) ?_
      intro ⟨e, _⟩ he
      exact RetP.pure he
    · exact RetP.fail

theorem retp_arrDataContentG (id : SlabID) (isRoot : Bool) (ty : Option TyInfo) (next : SlabID)
    (checkEOF : Bool) (xs : List XD) (data : Bytes) :
    RetP (arrDataContentG id isRoot ty next checkEOF xs data) Slab.refSizeOK := by
  unfold arrDataContentG; repeat retp_step

theorem retp_arrDataV1AfterIEDG (id : SlabID) (h : SlabHead) (ty : Option TyInfo) (xs : List XD) (data : Bytes) :
    RetP (arrDataV1AfterIEDG id h ty xs data) Slab.refSizeOK := by
  unfold arrDataV1AfterIEDG
  repeat (first | retp_step | exact retp_arrDataContentG _ _ _ _ _ _ _)

theorem retp_newArrayDataSlabFromDataG (id : SlabID) (data : Bytes) :
    RetP (newArrayDataSlabFromDataG id data) Slab.refSizeOK := by
  unfold newArrayDataSlabFromDataG newArrayDataSlabFromDataV0G newArrayDataSlabFromDataV1G arrDataV1AfterExtraG
  repeat (first | retp_step | exact retp_arrDataContentG _ _ _ _ _ _ _ | exact retp_arrDataV1AfterIEDG _ _ _ _ _)

theorem retp_mapDataContent (id : SlabID) (h : SlabHead) (extra : Option MapExtra) (next : SlabID)
    (xs : List XD) (data : Bytes) : RetP (mapDataContent id h extra next xs data) Slab.refSizeOK := by
  unfold mapDataContent; repeat retp_step

theorem retp_mapDataV1AfterIED (id : SlabID) (h : SlabHead) (extra : Option MapExtra) (xs : List XD) (data : Bytes) :
    RetP (mapDataV1AfterIED id h extra xs data) Slab.refSizeOK := by
  unfold mapDataV1AfterIED
  repeat (first | retp_step | exact retp_mapDataContent _ _ _ _ _ _)

theorem retp_newMapDataSlabFromData (id : SlabID) (data : Bytes) :
    RetP (newMapDataSlabFromData id data) Slab.refSizeOK := by
  unfold newMapDataSlabFromData newMapDataSlabFromDataV0 newMapDataSlabFromDataV1 mapDataV1AfterExtra
  repeat (first | retp_step | exact retp_mapDataContent _ _ _ _ _ _ | exact retp_mapDataV1AfterIED _ _ _ _ _)

theorem retp_newMapMetaDataSlabFromData (id : SlabID) (data : Bytes) :
    RetP (newMapMetaDataSlabFromData id data) Slab.refSizeOK := by
  unfold newMapMetaDataSlabFromData newMapMetaDataSlabFromDataV0 newMapMetaDataSlabFromDataV1
    mapMetaV0AfterExtra mapMetaV1AfterExtra
  repeat retp_step

theorem retp_decodeSlabGen (id : SlabID) (data : Bytes) : RetP (decodeSlabGen id data) Slab.refSizeOK := by
  unfold decodeSlabGen
  apply RetP.ite <;> intro _
  · exact RetP.fail
  · refine RetP.bind_any ?_
    intro hb
    refine RetP.bind_any ?_
    intro h
    split
    · split
      · exact retp_newArrayDataSlabFromDataG _ _
      · exact retp_newArrayMetaDataSlabFromData _ _
      · exact RetP.fail
    · split
      · exact retp_newMapDataSlabFromData _ _
      · exact retp_newMapMetaDataSlabFromData _ _
      · exact retp_newMapDataSlabFromData _ _
      · exact RetP.fail
    · repeat retp_step
    · exact RetP.fail

/-- every slab the decoder model returns has `SlabIDStorable`-sized references -/
theorem decodeSlab_refSizeOK {id : SlabID} {bytes : Bytes} {n k : Nat} {s : Slab}
    (h : decodeSlab id bytes n = .ok s k) : s.refSizeOK := by
  unfold decodeSlab at h
  cases hf : decodeSlabFlat id bytes n with
  | ok a k' =>
    rw [hf] at h
    cases h
    exact retp_decodeSlabFlat id bytes n _ _ hf
  | error e k' =>
    rw [hf] at h
    cases e with
    | decoding => cases h
    | unsupported => exact retp_decodeSlabGen id bytes n _ _ h
  | panic => rw [hf] at h; cases h

/-- The accessors on a decoded slab: no panic, the results are the model's `byteSize` and
    `childStorables` (every returned storable non-nil). -/
theorem accessors_of_decoded {id : SlabID} {bytes : Bytes} {n k : Nat} {s : Slab}
    (h : decodeSlab id bytes n = .ok s k) (k' : Nat) :
    byteSizeM s.toRaw k' = .ok s.byteSize k' ∧
    childStorablesM s.toRaw k' = .ok (s.childStorables.map Stor.toRaw) (k' + s.childMakeAllocs) :=
  ⟨byteSizeM_toRaw s (decodeSlab_refSizeOK h) k', childStorablesM_toRaw s k'⟩

/-! ### exactly when the transcribed accessors panic (so: the raw model can express the failure) -/

theorem DM.run_bind_error {α β : Type} {m : DM α} {f : α → DM β} {k k' : Nat} {e : DErr} (h : m k = .error e k') :
    (m >>= f) k = .error e k' := by
  show DM.bind' m f k = .error e k'
  unfold DM.bind'
  rw [h]

/-- `ByteSize()` of a storable does not panic: no nil interface and no nil pointer on the path the
    method calls take (through wrappers; not into inlined slabs, whose size is a stored field) -/
def RStor.sizeSafe : RStor → Bool
  | .nil => false
  | .val _ _ => true
  | .ref _ => true
  | .some s => s.sizeSafe
  | .arr p => p.isSome
  | .map p => p.isSome

theorem RStor.byteSizeM_panic_iff : (s : RStor) → (k : Nat) →
    (s.sizeSafe = true → ∃ n, s.byteSizeM k = .ok n k) ∧ (s.sizeSafe = false → s.byteSizeM k = .panic)
  | .nil, k => ⟨fun h => by simp [RStor.sizeSafe] at h, fun _ => rfl⟩
  | .val size pay, k => ⟨fun _ => ⟨size, rfl⟩, fun h => by simp [RStor.sizeSafe] at h⟩
  | .ref id, k => ⟨fun _ => ⟨_, rfl⟩, fun h => by simp [RStor.sizeSafe] at h⟩
  | .some s, k => by
    have ih := RStor.byteSizeM_panic_iff s k
    constructor
    · intro h
      obtain ⟨n, hn⟩ := ih.1 h
      refine ⟨someOverhead + n, ?_⟩
      show (s.byteSizeM >>= fun n => pure (someOverhead + n)) k = _
      rw [DM.run_bind_ok hn]; rfl
    · intro h
      show (s.byteSizeM >>= fun n => pure (someOverhead + n)) k = _
      exact DM.run_bind_panic (ih.2 h)
  | .arr Option.none, k => ⟨fun h => by simp [RStor.sizeSafe] at h, fun _ => rfl⟩
  | .arr (Option.some a), k => ⟨fun _ => ⟨_, rfl⟩, fun h => by simp [RStor.sizeSafe] at h⟩
  | .map Option.none, k => ⟨fun h => by simp [RStor.sizeSafe] at h, fun _ => rfl⟩
  | .map (Option.some a), k => ⟨fun _ => ⟨_, rfl⟩, fun h => by simp [RStor.sizeSafe] at h⟩

mutual
/-- `elementsStorables` does not panic on this value.  Note the asymmetry the Go code has: a nil or
    foreign `elements` is harmless (the type switch has no default, the function returns its
    argument), a nil or foreign `element` is not. -/
def RElems.safe : RElems → Bool
  | .nil => true
  | .foreign => true
  | .hkeyNil => false
  | .hkey _ _ es _ => relemsSafe es
  | .singleNil => false
  | .single _ es _ => es.all Option.isSome
def RElem.safe : RElem → Bool
  | .nil => false
  | .foreign => false
  | .singleNil => false
  | .single _ => true
  | .inlNil => false
  | .inl els => els.safe
  | .extNil => false
  | .ext _ _ => true
def relemsSafe : List RElem → Bool
  | [] => true
  | e :: es => e.safe && relemsSafe es
end

theorem singleLoopM_panic_iff : (es : List (Option RSingle)) → (acc : List RStor) → (k : Nat) →
    (es.all Option.isSome = true → ∃ l, singleLoopM es acc k = .ok (acc ++ l) k) ∧
    (es.all Option.isSome = false → singleLoopM es acc k = .panic)
  | [], acc, k => ⟨fun _ => ⟨[], by simp [singleLoopM, DM.run_pure]⟩, fun h => by simp at h⟩
  | Option.none :: es, acc, k => by
    refine ⟨fun h => by simp at h, fun _ => ?_⟩
    simp only [singleLoopM]
    exact DM.run_bind_panic rfl
  | Option.some v :: es, acc, k => by
    have ih := singleLoopM_panic_iff es (acc ++ [v.key, v.value]) k
    have h1 : singleElementStorablesM (Option.some v) acc k = .ok (acc ++ [v.key, v.value]) k := rfl
    constructor
    · intro h
      obtain ⟨l, hl⟩ := ih.1 (by simpa using h)
      refine ⟨[v.key, v.value] ++ l, ?_⟩
      simp only [singleLoopM]
      rw [DM.run_bind_ok h1, hl]
      simp
    · intro h
      simp only [singleLoopM]
      rw [DM.run_bind_ok h1]
      exact ih.2 (by simpa using h)

mutual
theorem elementsStorablesM_panic_iff : (els : RElems) → (acc : List RStor) → (k : Nat) →
    (els.safe = true → ∃ l, elementsStorablesM els acc k = .ok (acc ++ l) k) ∧
    (els.safe = false → elementsStorablesM els acc k = .panic)
  | .nil, acc, k => ⟨fun _ => ⟨[], by simp [elementsStorablesM, DM.run_pure]⟩, fun h => by simp [RElems.safe] at h⟩
  | .foreign, acc, k => ⟨fun _ => ⟨[], by simp [elementsStorablesM, DM.run_pure]⟩, fun h => by simp [RElems.safe] at h⟩
  | .hkeyNil, acc, k => ⟨fun h => by simp [RElems.safe] at h, fun _ => by simp [elementsStorablesM, DM.panic]⟩
  | .singleNil, acc, k => ⟨fun h => by simp [RElems.safe] at h, fun _ => by simp [elementsStorablesM, DM.panic]⟩
  | .hkey level hkeys es size, acc, k => by
    simp only [RElems.safe, elementsStorablesM]
    exact hkeyLoopM_panic_iff es acc k
  | .single level es size, acc, k => by
    simp only [RElems.safe, elementsStorablesM]
    exact singleLoopM_panic_iff es acc k
theorem elementStorablesM_panic_iff : (e : RElem) → (acc : List RStor) → (k : Nat) →
    (e.safe = true → ∃ l, elementStorablesM e acc k = .ok (acc ++ l) k) ∧
    (e.safe = false → elementStorablesM e acc k = .panic)
  | .nil, acc, k => ⟨fun h => by simp [RElem.safe] at h, fun _ => by simp [elementStorablesM, DM.panic]⟩
  | .foreign, acc, k => ⟨fun h => by simp [RElem.safe] at h, fun _ => by simp [elementStorablesM, DM.panic]⟩
  | .singleNil, acc, k =>
    ⟨fun h => by simp [RElem.safe] at h, fun _ => by simp [elementStorablesM, singleElementStorablesM, DM.panic]⟩
  | .inlNil, acc, k => ⟨fun h => by simp [RElem.safe] at h, fun _ => by simp [elementStorablesM, DM.panic]⟩
  | .extNil, acc, k => ⟨fun h => by simp [RElem.safe] at h, fun _ => by simp [elementStorablesM, DM.panic]⟩
  | .single v, acc, k =>
    ⟨fun _ => ⟨[v.key, v.value], by simp [elementStorablesM, singleElementStorablesM, DM.run_pure]⟩,
     fun h => by simp [RElem.safe] at h⟩
  | .ext id size, acc, k =>
    ⟨fun _ => ⟨[RStor.ref id], by simp [elementStorablesM, DM.run_pure]⟩, fun h => by simp [RElem.safe] at h⟩
  | .inl els, acc, k => by
    simp only [RElem.safe, elementStorablesM]
    exact elementsStorablesM_panic_iff els acc k
theorem hkeyLoopM_panic_iff : (es : List RElem) → (acc : List RStor) → (k : Nat) →
    (relemsSafe es = true → ∃ l, hkeyLoopM es acc k = .ok (acc ++ l) k) ∧
    (relemsSafe es = false → hkeyLoopM es acc k = .panic)
  | [], acc, k => ⟨fun _ => ⟨[], by simp [hkeyLoopM, DM.run_pure]⟩, fun h => by simp [relemsSafe] at h⟩
  | e :: es, acc, k => by
    have h1 := elementStorablesM_panic_iff e acc k
    constructor
    · intro h
      simp only [relemsSafe, Bool.and_eq_true] at h
      obtain ⟨l1, hl1⟩ := h1.1 h.1
      obtain ⟨l2, hl2⟩ := (hkeyLoopM_panic_iff es (acc ++ l1) k).1 h.2
      refine ⟨l1 ++ l2, ?_⟩
      simp only [hkeyLoopM]
      rw [DM.run_bind_ok hl1, hl2]
      simp
    · intro h
      simp only [hkeyLoopM]
      cases hs : e.safe with
      | false => exact DM.run_bind_panic (h1.2 hs)
      | true =>
        obtain ⟨l1, hl1⟩ := h1.1 hs
        rw [DM.run_bind_ok hl1]
        refine (hkeyLoopM_panic_iff es (acc ++ l1) k).2 ?_
        simpa [relemsSafe, hs] using h
end

/-- `ByteSize()` of a raw slab does not panic -/
def RawSlab.sizeSafe : RawSlab → Bool
  | .nil => false
  | .arrData p => p.isSome
  | .arrMeta p => p.isSome
  | .mapData p => p.isSome
  | .mapMeta p => p.isSome
  | .storable Option.none => false
  | .storable (Option.some s) => s.storable.sizeSafe

/-- `ChildStorables()` of a raw slab does not panic -/
def RawSlab.childSafe : RawSlab → Bool
  | .nil => false
  | .arrData p => p.isSome
  | .arrMeta p => p.isSome
  | .mapData Option.none => false
  | .mapData (Option.some m) => m.elements.safe
  | .mapMeta p => p.isSome
  | .storable p => p.isSome

/-- `ByteSize()` panics exactly on: the nil interface, a nil slab pointer, a large-value slab whose
    storable is (or wraps) a nil interface or a nil inlined-slab pointer. -/
theorem byteSizeM_panic_iff (r : RawSlab) (k : Nat) : byteSizeM r k = .panic ↔ r.sizeSafe = false := by
  cases r with
  | nil => simp [byteSizeM, RawSlab.sizeSafe, DM.panic]
  | arrData p => cases p <;> simp [byteSizeM, RawSlab.sizeSafe, DM.panic, DM.run_pure]
  | arrMeta p => cases p <;> simp [byteSizeM, RawSlab.sizeSafe, DM.panic, DM.run_pure]
  | mapData p => cases p <;> simp [byteSizeM, RawSlab.sizeSafe, DM.panic, DM.run_pure]
  | mapMeta p => cases p <;> simp [byteSizeM, RawSlab.sizeSafe, DM.panic, DM.run_pure]
  | storable p =>
    cases p with
    | none => simp [byteSizeM, RawSlab.sizeSafe, DM.panic]
    | some s =>
      have h := RStor.byteSizeM_panic_iff s.storable k
      simp only [byteSizeM, RawSlab.sizeSafe]
      cases hs : s.storable.sizeSafe with
      | false => simp [DM.run_bind_panic (h.2 hs)]
      | true =>
        obtain ⟨n, hn⟩ := h.1 hs
        rw [DM.run_bind_ok hn]
        simp [DM.run_pure]

/-- `ChildStorables()` panics exactly on: the nil interface, a nil slab pointer, a map data slab one
    of whose reachable `element` slots is nil / foreign / a typed nil pointer, or one of whose
    reachable `elements` is a typed nil pointer. -/
theorem childStorablesM_panic_iff (r : RawSlab) (k : Nat) : childStorablesM r k = .panic ↔ r.childSafe = false := by
  cases r with
  | nil => simp [childStorablesM, RawSlab.childSafe, DM.panic]
  | arrData p => cases p <;> simp [childStorablesM, RawSlab.childSafe, DM.panic, DM.run_pure]
  | arrMeta p => cases p <;> simp [childStorablesM, RawSlab.childSafe, DM.panic, metaChildStorablesM_eq]
  | mapMeta p => cases p <;> simp [childStorablesM, RawSlab.childSafe, DM.panic, metaChildStorablesM_eq]
  | storable p => cases p <;> simp [childStorablesM, RawSlab.childSafe, DM.panic, DM.run_pure]
  | mapData p =>
    cases p with
    | none => simp [childStorablesM, RawSlab.childSafe, DM.panic]
    | some m =>
      have h := elementsStorablesM_panic_iff m.elements [] k
      simp only [childStorablesM, RawSlab.childSafe]
      cases hs : m.elements.safe with
      | false => simp [h.2 hs]
      | true =>
        obtain ⟨l, hl⟩ := h.1 hs
        simp [hl]

/-- a raw map data slab as it would be if a decoding loop returned after `make` and before the
    second assignment: slot 1 of `elems` is still the nil interface -/
def halfFilledMapSlab : RawSlab :=
  .mapData (Option.some ⟨100, .hkey 0 [1, 2] [.single ⟨.val 2 7, .val 2 8, 5⟩, .nil] 30⟩)

theorem childStorables_nil_slot_panics (k : Nat) : childStorablesM halfFilledMapSlab k = .panic := by
  rw [childStorablesM_panic_iff]; rfl

/-- … while its `ByteSize()` reads the header field and is fine -/
theorem byteSize_nil_slot_ok (k : Nat) : byteSizeM halfFilledMapSlab k = .ok 100 k := rfl

/-- an array data slab with a nil slot: `ChildStorables()` does not panic, it hands the nil on -/
theorem childStorables_arr_nil_slot (k : Nat) :
    childStorablesM (.arrData (Option.some ⟨10, 2, [.val 2 1, .nil]⟩)) k = .ok [.val 2 1, .nil] k := rfl

/-- a large-value slab whose wrapper holds a nil interface: `ByteSize()` panics -/
theorem byteSize_wrapped_nil_panics (k : Nat) :
    byteSizeM (.storable (Option.some ⟨⟨1, 1⟩, .some .nil⟩)) k = .panic := by
  rw [byteSizeM_panic_iff]; rfl

/-! ### the loop pattern of the Go decoders: `make` + indexed assignment = the list the model builds -/

/-- `for i := range slots { x, err := step(); if err != nil { return nil, err }; slots[i] = x }`
    from index `i` on, `n` iterations left; `σ` is the state the steps thread (stream decoder, size) -/
def fillSlotsM {α σ : Type} (step : σ → DM (α × σ)) : Nat → Nat → List (Option α) → σ → DM (List (Option α) × σ)
  | 0, _, slots, st => pure (slots, st)
  | n + 1, i, slots, st => do
    let (x, st) ← step st
    let slots ← setIdxM slots i (Option.some x)
    fillSlotsM step n (i + 1) slots st

/-- `slots := make([]T, n)` (all nil), then the loop -/
def makeFillM {α σ : Type} (step : σ → DM (α × σ)) (n : Nat) (st : σ) : DM (List (Option α) × σ) := do
  alloc n
  fillSlotsM step n 0 (List.replicate n Option.none) st

/-- how the decoder model writes the same loop: the list of the items, built front to back -/
def collectM {α σ : Type} (step : σ → DM (α × σ)) : Nat → σ → DM (List α × σ)
  | 0, st => pure ([], st)
  | n + 1, st => do
    let (x, st) ← step st
    let (xs, st) ← collectM step n st
    pure (x :: xs, st)

theorem DM.bind_assoc' {α β γ : Type} (m : DM α) (f : α → DM β) (g : β → DM γ) :
    (m >>= f >>= g) = (m >>= fun a => f a >>= g) := by
  funext k
  show DM.bind' (DM.bind' m f) g k = DM.bind' m (fun a => DM.bind' (f a) g) k
  unfold DM.bind'
  cases m k <;> rfl

theorem DM.pure_bind' {α β : Type} (a : α) (f : α → DM β) : ((pure a : DM α) >>= f) = f a := rfl

theorem fillSlotsM_eq {α σ : Type} (step : σ → DM (α × σ)) : (n i : Nat) → (slots : List (Option α)) → (st : σ) →
    (k : Nat) → i + n = slots.length →
    fillSlotsM step n i slots st k =
      (collectM step n st >>= fun r => pure (slots.take i ++ r.1.map Option.some, r.2)) k
  | 0, i, slots, st, k, h => by
    have : slots.take i = slots := List.take_of_length_le (by omega)
    simp only [fillSlotsM, collectM, DM.pure_bind', List.map_nil, List.append_nil, this]
  | n + 1, i, slots, st, k, h => by
    simp only [fillSlotsM, collectM, DM.bind_assoc']
    cases hs : step st k with
    | panic => rw [DM.run_bind_panic hs, DM.run_bind_panic hs]
    | error e k' => rw [DM.run_bind_error hs, DM.run_bind_error hs]
    | ok r k' =>
      obtain ⟨x, st'⟩ := r
      have hlt : i < slots.length := by omega
      have h1 : setIdxM slots i (Option.some x) k' = .ok (slots.set i (Option.some x)) k' := by
        unfold setIdxM; rw [if_pos hlt]; rfl
      rw [DM.run_bind_ok hs, DM.run_bind_ok hs]
      dsimp only
      rw [DM.run_bind_ok h1, fillSlotsM_eq step n (i + 1) _ st' k' (by simp; omega)]
      simp only [DM.pure_bind']
      have hk : (fun r : List α × σ => (pure (List.take (i + 1) (slots.set i (Option.some x)) ++ r.1.map Option.some, r.2)
            : DM (List (Option α) × σ))) =
          (fun r => pure (List.take i slots ++ (x :: r.1).map Option.some, r.2)) := by
        funext r
        rw [List.take_set, take_succ_set slots i _ hlt]
        simp
      rw [hk]

/-- The Go loop pattern returns exactly the model's list with every slot filled, fails exactly when
    a step fails, and the indexed assignment never goes out of range. -/
theorem makeFillM_eq {α σ : Type} (step : σ → DM (α × σ)) (n : Nat) (st : σ) (k : Nat) :
    makeFillM step n st k =
      (alloc n >>= fun _ => collectM step n st >>= fun r => pure (r.1.map Option.some, r.2)) k := by
  unfold makeFillM
  have h1 : DM.alloc n k = .ok () (k + n) := rfl
  rw [DM.run_bind_ok h1, DM.run_bind_ok h1, fillSlotsM_eq step n 0 _ st _ (by simp)]
  simp

/-! #### one instance: the element loop of `newArrayDataSlabFromDataV0/V1`
    (array_data_slab_decode.go:161-175, :278-292) and the model's `decodeElems` -/

/-- the loop body: `decodeStorable`, (the assignment `elements[i] = storable` is the pattern's),
    `safeAdd2Uint32(slabSize, storable.ByteSize())`; the state is `(slabSize, cborDec)` -/
def elemStepM (st : Nat × Dec) : DM (Elem × (Nat × Dec)) := do
  let (e, d) ← decodeElem st.2
  if st.1 + e.size > 4294967295 then fail
  else pure (e, (st.1 + e.size, d))

/-- the model's `decodeElems` is the list-building form of the loop with that body -/
theorem decodeElems_eq_collectM : (n : Nat) → (d : Dec) → (size : Nat) →
    decodeElems n d size = (collectM elemStepM n (size, d) >>= fun r => pure (r.1, r.2.1, r.2.2))
  | 0, d, size => by simp only [decodeElems, collectM, DM.pure_bind']
  | n + 1, d, size => by
    funext k
    simp only [decodeElems, collectM, elemStepM, DM.bind_assoc']
    cases hs : decodeElem d k with
    | panic => rw [DM.run_bind_panic hs, DM.run_bind_panic hs]
    | error e k' => rw [DM.run_bind_error hs, DM.run_bind_error hs]
    | ok r k' =>
      obtain ⟨e, d'⟩ := r
      rw [DM.run_bind_ok hs, DM.run_bind_ok hs]
      dsimp only
      by_cases hc : size + e.size > 4294967295
      · rw [if_pos hc, if_pos hc]; rfl
      · rw [if_neg hc, if_neg hc, decodeElems_eq_collectM n d' (size + e.size)]
        simp only [DM.pure_bind', DM.bind_assoc']

/-- So the Go text — `elements := make([]Storable, elemCount)`, then the loop assigning
    `elements[i]` — computes the model's element list with every slot non-nil, fails when the
    model fails, and never indexes out of range. -/
theorem goElementLoop_eq_decodeElems (n : Nat) (d : Dec) (size : Nat) (k : Nat) :
    makeFillM elemStepM n (size, d) k =
      (alloc n >>= fun _ => decodeElems n d size >>= fun r => pure (r.1.map Option.some, (r.2.1, r.2.2))) k := by
  rw [makeFillM_eq, decodeElems_eq_collectM]
  simp only [DM.bind_assoc', DM.pure_bind']

end Atree.Codec
