import AtreeProofs.Codec.VDepthSlab
import AtreeProofs.Codec.RoundTripW
/-
  `DecodeSlab` on encoded array data slabs with WRAPPED elements and no inlined child, under the EXACT
  nesting hypothesis `Slab.vdepth ≤ maxNestedLevels` (`ArrDataOKWX`), instead of the over-approximation
  `vneedISts + 1 ≤ maxNestedLevels` of `ArrDataOKW` (RoundTripW.lean).

  The lemmas of RoundTripW.lean are re-proved with the only consequence of the nesting hypothesis they
  use — the validator accepts the element array, `wfNext … = some extra` — as their hypothesis; the
  exact validator depth (`exX_arrElements`, VDepthSlab.lean) then supplies it.
-/
namespace Atree.Codec
open Atree Atree.Gen DM

/-- `ArrDataOKW` with the EXACT nesting hypothesis -/
structure ArrDataOKWX (a : ArrData) : Prop where
  rt : rtiSts a.elems
  noInl : noInlSts a.elems
  wrapped : ∃ s ∈ a.elems, s.isFlat = false
  nest : (Slab.adata a).vdepth ≤ maxNestedLevels
  count : a.elems.length < 65536
  next : validNext a.next
  ty : ∀ t, a.ty = some t → validTy t
  size : a.size ≤ maxUint32

/-- the old hypothesis implies the new one -/
theorem ArrDataOKW.toX {a : ArrData} (ok : ArrDataOKW a) : ArrDataOKWX a :=
  ⟨ok.rt, ok.noInl, ok.wrapped,
   (vdepth_adata_le_iff a (by decide)).2 (by have := vdSts_le_vneedI a.elems; have := ok.nest; omega),
   ok.count, ok.next, ok.ty, ok.size⟩

theorem ArrDataOKWX.nodup {a : ArrData} (ok : ArrDataOKWX a) : nodupKeysSts a.elems :=
  nodupKeysSts_of_noCompact a.elems (noCompactSts_of_noInl a.elems ok.noInl)

theorem decodeDataContent_unsupportedX (id : SlabID) (isRoot : Bool) (ty : Option TyInfo) (next : SlabID)
    (checkEOF : Bool) (elems : List Stor) (hrt : rtiSts elems) (hni : noInlSts elems)
    (hw : ∃ s ∈ elems, s.isFlat = false) (extra : Bytes)
    (hwf : wfNext (arrayHead16 elems.length ++ ((encSts elems []).1 ++ extra)) = some extra)
    (hcount : elems.length < 65536)
    (hsz : (if isRoot then arrayRootDataSlabPrefixSize else arrayDataSlabPrefixSize) + sizeSts elems ≤ maxUint32)
    (n : Nat) :
    decodeDataContent id isRoot ty next checkEOF (arrayHead16 elems.length ++ ((encSts elems []).1 ++ extra)) n
      = .error .unsupported (n + elems.length) := by
  have hnc := noCompactSts_of_noInl elems hni
  have hlen := lenSts_eq elems [] (okSts_of_RTI elems hrt) hnc
  have hL : (arrayHead16 elems.length ++ ((encSts elems []).1 ++ extra)).length = 3 + sizeSts elems + extra.length := by
    simp only [List.length_append, length_arrayHead16, hlen]; omega
  unfold decodeDataContent
  rw [if_neg (by rw [hL]; simp only [arrayDataSlabElementHeadSize]; omega)]
  have hhead : (Dec.new (arrayHead16 elems.length ++ ((encSts elems []).1 ++ extra))).decodeArrayHead
      = some (elems.length, (⟨(encSts elems []).1 ++ extra, sizeSts elems, 3⟩ : Dec)) := by
    show Dec.decodeHeadOf 4 _ = _
    rw [decodeHeadOf_new hwf]
    have hrem : (arrayHead16 elems.length ++ ((encSts elems []).1 ++ extra)).length - extra.length = 3 + sizeSts elems := by
      rw [hL]; omega
    rw [hrem]
    have := decodeArrayHead_head16 hcount ((encSts elems []).1 ++ extra) (3 + sizeSts elems) 0 (by omega)
    simp only [Nat.zero_add, Nat.add_sub_cancel_left] at this
    exact this
  rw [hhead]
  simp only [DM.liftOpt_some, DM.pure_bind]
  have hc1 : ¬ (elems.length > 4294967295) := by omega
  simp only [hc1, ↓reduceIte]
  rw [DM.alloc_bind]
  simp only
  have hun := decodeElems_unsupported elems hrt hni hw extra (sizeSts elems) 3
    (if isRoot then arrayRootDataSlabPrefixSize else arrayDataSlabPrefixSize) (n + elems.length) (Nat.le_refl _)
    (by simpa [maxUint32] using hsz)
  show DM.bind' _ _ (n + elems.length) = _
  unfold DM.bind'
  rw [hun]

theorem dataV1AfterExtra_unsupportedX (id : SlabID) (h : SlabHead) (tyo : Option TyInfo) (next : SlabID)
    (elems : List Stor) (hroot : h.isRoot = tyo.isSome) (hinl : h.hasInlinedSlabs = false)
    (hnx : h.hasNextSlabID = decide (next ≠ SlabID.undef))
    (hrt : rtiSts elems) (hni : noInlSts elems)
    (hw : ∃ s ∈ elems, s.isFlat = false) (extra : Bytes)
    (hwf : wfNext (arrayHead16 elems.length ++ ((encSts elems []).1 ++ extra)) = some extra)
    (hcount : elems.length < 65536) (hnext : validNext next)
    (hsz : (if tyo.isSome then arrayRootDataSlabPrefixSize else arrayDataSlabPrefixSize) + sizeSts elems ≤ maxUint32)
    (n : Nat) :
    dataV1AfterExtra id h tyo ((if decide (next ≠ SlabID.undef) = true then encodeSlabID next else []) ++
        (arrayHead16 elems.length ++ ((encSts elems []).1 ++ extra))) n = .error .unsupported (n + elems.length) := by
  unfold dataV1AfterExtra
  rw [hinl, hnx, hroot]
  simp only [Bool.false_eq_true, ↓reduceIte]
  by_cases hnxt : next = SlabID.undef
  · have hd : decide (next ≠ SlabID.undef) = false := by simp [hnxt]
    simp only [hd, Bool.false_eq_true, ↓reduceIte, List.nil_append]
    exact decodeDataContent_unsupportedX id _ tyo _ true elems hrt hni hw extra hwf hcount hsz n
  · have hd : decide (next ≠ SlabID.undef) = true := by simp [hnxt]
    simp only [hd, ↓reduceIte]
    rw [newSlabIDFromRawBytes_enc_append next hnext.1 hnext.2]
    simp only [DM.pure_bind]
    unfold sliceFrom
    rw [if_pos (by simp [length_encodeSlabID, SlabIDLength])]
    simp only [DM.pure_bind]
    rw [List.drop_left' (by simp [length_encodeSlabID, SlabIDLength])]
    exact decodeDataContent_unsupportedX id _ tyo _ true elems hrt hni hw extra hwf hcount hsz n

theorem arrDataV1AfterExtraG_encWX (id : SlabID) (h : SlabHead) (ty : Option TyInfo) (next : SlabID)
    (elems : List Stor) (hroot : h.isRoot = ty.isSome) (hinl : h.hasInlinedSlabs = false)
    (hnx : h.hasNextSlabID = decide (next ≠ SlabID.undef))
    (hrt : rtiSts elems) (hni : noInlSts elems) (extra : Bytes)
    (hwf : wfNext (arrayHead16 elems.length ++ ((encSts elems []).1 ++ extra)) = some extra)
    (hdn : dneedSts elems ≤ maxDecodeDepth)
    (hcount : elems.length < 65536) (hnext : validNext next)
    (hsz : (if ty.isSome then arrayRootDataSlabPrefixSize else arrayDataSlabPrefixSize) + sizeSts elems ≤ maxUint32)
    (n : Nat) :
    arrDataV1AfterExtraG id h ty ((if decide (next ≠ SlabID.undef) = true then encodeSlabID next else []) ++
        (arrayHead16 elems.length ++ ((encSts elems []).1 ++ extra))) n =
      if extra ≠ [] then .error .decoding (n + elems.length + allocsISts elems)
      else .ok (.adata { id := id, next := next, ty := ty, elems := elems }) (n + elems.length + allocsISts elems) := by
  have hnc := noCompactSts_of_noInl elems hni
  have hnd := nodupKeysSts_of_noCompact elems hnc
  have hxs : (encSts elems []).2 = [] := encSts_noInl elems [] hni
  have hcontent : ∀ nx, arrDataContentG id ty.isSome ty nx true []
      (arrayHead16 elems.length ++ ((encSts elems []).1 ++ extra)) n =
      if extra ≠ [] then .error .decoding (n + elems.length + allocsISts elems)
      else .ok (.adata { id := id, next := nx, ty := ty, elems := elems }) (n + elems.length + allocsISts elems) := by
    intro nx
    have := arrDataContentG_encX id ty.isSome ty nx elems hrt hnd extra hwf hdn hcount (by rw [hxs]; simp) hsz n
    rw [hxs, normSts_noCompact elems [] hnc] at this
    exact this
  unfold arrDataV1AfterExtraG
  rw [hinl]
  simp only [Bool.false_eq_true, ↓reduceIte]
  unfold arrDataV1AfterIEDG
  rw [hnx, hroot]
  by_cases hnxt : next = SlabID.undef
  · have hd : decide (next ≠ SlabID.undef) = false := by simp [hnxt]
    simp only [hd, Bool.false_eq_true, ↓reduceIte, List.nil_append]
    rw [hnxt]
    exact hcontent _
  · have hd : decide (next ≠ SlabID.undef) = true := by simp [hnxt]
    simp only [hd, ↓reduceIte]
    rw [newSlabIDFromRawBytes_enc_append next hnext.1 hnext.2]
    simp only [DM.pure_bind]
    unfold sliceFrom
    rw [if_pos (by simp [length_encodeSlabID, SlabIDLength])]
    simp only [DM.pure_bind]
    rw [List.drop_left' (by simp [length_encodeSlabID, SlabIDLength])]
    exact hcontent _

theorem decodeSlabFlat_adata_wrappedX (id : SlabID) (b0 b1 : Nat) (tyo : Option TyInfo) (next : SlabID)
    (elems : List Stor) (extra : Bytes) (n : Nat)
    (h1 : (⟨b0, b1⟩ : SlabHead).slabType = .array) (h2 : (⟨b0, b1⟩ : SlabHead).arrayType = .data)
    (h3 : (⟨b0, b1⟩ : SlabHead).version = 1) (h4 : (⟨b0, b1⟩ : SlabHead).isRoot = tyo.isSome)
    (h7 : (⟨b0, b1⟩ : SlabHead).hasInlinedSlabs = false)
    (h8 : (⟨b0, b1⟩ : SlabHead).hasNextSlabID = decide (next ≠ SlabID.undef))
    (hrt : rtiSts elems) (hni : noInlSts elems)
    (hw : ∃ s ∈ elems, s.isFlat = false)
    (hwf : wfNext (arrayHead16 elems.length ++ ((encSts elems []).1 ++ extra)) = some extra)
    (hcount : elems.length < 65536) (hnext : validNext next) (hty : ∀ t, tyo = some t → validTy t)
    (hsz : (if tyo.isSome then arrayRootDataSlabPrefixSize else arrayDataSlabPrefixSize) + sizeSts elems ≤ maxUint32) :
    decodeSlabFlat id (b0 :: b1 :: (arrExtraBytes tyo ++
        ((if decide (next ≠ SlabID.undef) = true then encodeSlabID next else []) ++
          (arrayHead16 elems.length ++ ((encSts elems []).1 ++ extra))))) n = .error .unsupported (n + elems.length) := by
  rw [decodeSlabFlat_cons2, h1]
  simp only [h2]
  rw [newArrayDataSlabFromData_cons2, h2, h3]
  simp only [ne_eq, not_true_eq_false, ↓reduceIte, show ¬ ((1 : Nat) = 0) by decide]
  unfold newArrayDataSlabFromDataV1
  cases tyo with
  | none =>
    have hr4 : _ = false := h4
    simp only [hr4, Bool.false_eq_true, ↓reduceIte, arrExtraBytes, List.nil_append]
    exact dataV1AfterExtra_unsupportedX id _ none next elems h4 h7 h8 hrt hni hw extra hwf hcount hnext hsz n
  | some t =>
    have hr4 : _ = true := h4
    simp only [hr4, ↓reduceIte, arrExtraBytes]
    rw [newArrayExtraDataFromData_enc t (hty t rfl)]
    simp only [DM.pure_bind]
    exact dataV1AfterExtra_unsupportedX id _ (some t) next elems h4 h7 h8 hrt hni hw extra hwf hcount hnext hsz n

/-- `DecodeSlab` on the encoding of an array data slab with wrapped elements (no inlined slab) whose
    validator depth is within the limit, followed by `extra` bytes -/
theorem decodeSlab_encodeArrDataWX (a : ArrData) (ok : ArrDataOKWX a) (extra : Bytes) (n : Nat) :
    decodeSlab a.id (encodeArrData a ++ extra) n =
      if extra ≠ [] then .error .decoding (n + a.elems.length + allocsISts a.elems)
      else .ok (.adata a) (n + a.elems.length + allocsISts a.elems) := by
  have hvd : vdSts a.elems + 1 ≤ maxNestedLevels := (vdepth_adata_le_iff a (by decide)).1 ok.nest
  have hwf := wfNext_of_exX (exX_arrElements a.elems ok.rt ok.nodup ok.count) hvd extra
  rw [List.append_assoc] at hwf
  have hdn : dneedSts a.elems ≤ maxDecodeDepth := by
    have := dneedSts_le_vd a.elems
    simp only [maxDecodeDepth, maxNestedLevels] at hvd ⊢; omega
  obtain ⟨id, next, ty, elems⟩ := a
  obtain ⟨hrt, hni, hw, _, hcount, hnext, hty, hsize⟩ := ok
  simp only at hrt hni hw hcount hnext hty hsize hwf hdn
  have hxs : (encSts elems []).2 = [] := encSts_noInl elems [] hni
  have hf := head_adata_facts (decide (next ≠ SlabID.undef)) false (anyPtrSts elems) ty.isSome
  simp only at hf
  obtain ⟨hf1, hf2, hf3, hf4, _, _, hf7, hf8⟩ := hf
  have hsz' : (if ty.isSome then arrayRootDataSlabPrefixSize else arrayDataSlabPrefixSize) + sizeSts elems ≤ maxUint32 := by
    simpa [ArrData.size] using hsize
  have hflat := decodeSlabFlat_adata_wrappedX id _ _ ty next elems extra n hf1 hf2 hf3 hf4 hf7 hf8 hrt hni hw hwf
    hcount hnext hty hsz'
  have hgen := arrDataV1AfterExtraG_encWX id _ ty next elems hf4 hf7 hf8 hrt hni extra hwf hdn hcount hnext hsz' n
  unfold encodeArrData
  simp only [hxs, List.isEmpty_nil, Bool.not_true, List.cons_append, List.nil_append, List.append_assoc,
    encodeIEDSection, ↓reduceIte]
  cases ty with
  | none =>
    have hr4 : _ = false := hf4
    simp only [arrExtraBytes, List.nil_append] at hflat
    simp only [List.nil_append]
    rw [decodeSlab_of_flat_unsupported hflat, decodeSlabGen_cons2, hf1]
    simp only [hf2]
    rw [newArrayDataSlabFromDataG_cons2, hf2, hf3]
    simp only [ne_eq, not_true_eq_false, ↓reduceIte, show ¬ ((1 : Nat) = 0) by decide]
    unfold newArrayDataSlabFromDataV1G
    rw [hr4]
    simp only [Bool.false_eq_true, ↓reduceIte]
    exact hgen
  | some t =>
    have hr4 : _ = true := hf4
    simp only [arrExtraBytes] at hflat
    rw [decodeSlab_of_flat_unsupported hflat, decodeSlabGen_cons2, hf1]
    simp only [hf2]
    rw [newArrayDataSlabFromDataG_cons2, hf2, hf3]
    simp only [ne_eq, not_true_eq_false, ↓reduceIte, show ¬ ((1 : Nat) = 0) by decide]
    unfold newArrayDataSlabFromDataV1G
    rw [hr4]
    simp only [↓reduceIte]
    rw [newArrayExtraDataFromData_enc t (hty t rfl)]
    simp only [DM.pure_bind]
    exact hgen

/-- … and one level above the limit the register does NOT decode.  (The first part of the decoder,
    `decodeSlabFlat`, fails with a decoding error — not "unsupported" — so `DecodeSlab` does not even
    reach the general decoder.)  Stated for the general decoder's verdict: the validator rejects the
    element array. -/
theorem wfNext_arrElements_tooDeep (a : ArrData) (hrt : rtiSts a.elems) (hnd : nodupKeysSts a.elems)
    (hcount : a.elems.length < 65536) (h : maxNestedLevels < (Slab.adata a).vdepth) (extra : Bytes) :
    wfNext (arrayHead16 a.elems.length ++ ((encSts a.elems []).1 ++ extra)) = none := by
  have hvd : maxNestedLevels < vdSts a.elems + 1 := by
    have := (vdepth_adata_le_iff a (L := maxNestedLevels) (by decide)).2
    by_cases hc : vdSts a.elems + 1 ≤ maxNestedLevels
    · have := this hc; omega
    · omega
  have hw := wfNext_none_of_exX (exX_arrElements a.elems hrt hnd hcount) hvd extra
  rw [List.append_assoc] at hw
  exact hw

end Atree.Codec
