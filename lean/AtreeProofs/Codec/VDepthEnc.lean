import AtreeProofs.Codec.VDepth
/-
  Exact acceptance of what the element encoders write: `(encSt s xs).1` needs exactly `s.vd inTag`
  nesting levels, `(encMEls els xs).1` exactly `els.vd`, …  (`Stor.vd`, `MEls.vd`: Limits.lean).
  For the compact form of an inlined map the values written are those `encFind` finds under the
  cached keys — a permutation of the map's own keys, so, the keys being distinct (`nodupKeys`),
  every value is written exactly once and the need is `vdMElVals`.
-/
namespace Atree.Codec
open Atree Atree.Gen DM

/-! ### plain values and slab references -/

theorem exX_encodeVal (size pay : Nat) (hv : validElem { size := size, pay := .val pay }) :
    ExX (encodeElem { size := size, pay := .val pay }) (fun t => if isGap size && t then 1 else 0) := by
  unfold validElem at hv
  simp only at hv
  have hl := tvLen_lt hv.2.2.1
  have hb : Acc (head 2 (tvLen size) ++ tvContent (tvLen size) pay) 0 := by
    have h := Acc.bytes (content := tvContent (tvLen size) pay) (by rw [length_tvContent]; exact hl)
    rw [length_tvContent] at h
    exact h
  unfold encodeElem
  by_cases hg : isGap size = true
  · exact (ExX.tag8 tagGapValue (ExX.ofAcc0 hb)).cast
      (by simp only [hg, ↓reduceIte, tagHead8, List.cons_append, List.nil_append])
      (fun t => by cases t <;> simp [hg])
  · exact (ExX.ofAcc0 hb).cast (by simp only [hg, Bool.false_eq_true, ↓reduceIte, List.nil_append])
      (fun t => by simp [hg])

theorem exX_encodeRef (id : SlabID) :
    ExX (encodeElem { size := slabIDStorableSize, pay := .ref id }) (fun t => if t then 1 else 0) := by
  have hb : Acc (head 2 SlabIDLength ++ encodeSlabID id) 0 := by
    have h := Acc.bytes (content := encodeSlabID id) (by simp [length_encodeSlabID])
    rw [length_encodeSlabID] at h
    exact h
  unfold encodeElem
  exact (ExX.tag8 CBORTagSlabID (ExX.ofAcc0 hb)).cast
    (by simp only [tagHead8, List.cons_append, List.nil_append]) (fun t => by simp)

/-! ### element lists as lists of (bytes, exact need) -/

def encStPartsX : List Stor → List XD → List (Bytes × Nat)
  | [], _ => []
  | s :: ss, xs => ((encSt s xs).1, s.vd false) :: encStPartsX ss (encSt s xs).2

theorem encStPartsX_fst : ∀ (l : List Stor) (xs : List XD), (encStPartsX l xs).map Prod.fst = encStParts l xs
  | [], xs => rfl
  | s :: ss, xs => by simp [encStPartsX, encStParts, encStPartsX_fst ss]

theorem encStPartsX_length (l : List Stor) (xs : List XD) : (encStPartsX l xs).length = l.length := by
  rw [← List.length_map (f := Prod.fst), encStPartsX_fst, encStParts_length]

theorem isMax_encStPartsX : ∀ (l : List Stor) (xs : List XD), IsMax (encStPartsX l xs) (vdSts l)
  | [], xs => IsMax.nil
  | s :: ss, xs => by
    simp only [encStPartsX, vdSts]
    exact (isMax_encStPartsX ss _).cons _

def encMElPartsX : List MEl → List XD → List (Bytes × Nat)
  | [], _ => []
  | e :: es, xs => ((encMEl e xs).1, e.vd) :: encMElPartsX es (encMEl e xs).2

theorem encMElPartsX_fst : ∀ (l : List MEl) (xs : List XD), (encMElPartsX l xs).map Prod.fst = encMElParts l xs
  | [], xs => rfl
  | e :: es, xs => by simp [encMElPartsX, encMElParts, encMElPartsX_fst es]

theorem encMElPartsX_length (l : List MEl) (xs : List XD) : (encMElPartsX l xs).length = l.length := by
  rw [← List.length_map (f := Prod.fst), encMElPartsX_fst, encMElParts_length]

theorem isMax_encMElPartsX : ∀ (l : List MEl) (xs : List XD), IsMax (encMElPartsX l xs) (vdMElList l)
  | [], xs => IsMax.nil
  | e :: es, xs => by
    simp only [encMElPartsX, vdMElList]
    exact (isMax_encMElPartsX es _).cons _

def encSElPartsX : List SEl → List XD → List (Bytes × Nat)
  | [], _ => []
  | e :: es, xs => ((encSEl e xs).1, e.vd) :: encSElPartsX es (encSEl e xs).2

theorem encSElPartsX_fst : ∀ (l : List SEl) (xs : List XD), (encSElPartsX l xs).map Prod.fst = encSElParts l xs
  | [], xs => rfl
  | e :: es, xs => by simp [encSElPartsX, encSElParts, encSElPartsX_fst es]

theorem encSElPartsX_length (l : List SEl) (xs : List XD) : (encSElPartsX l xs).length = l.length := by
  rw [← List.length_map (f := Prod.fst), encSElPartsX_fst, encSElParts_length]

theorem isMax_encSElPartsX : ∀ (l : List SEl) (xs : List XD), IsMax (encSElPartsX l xs) (vdSElList l)
  | [], xs => IsMax.nil
  | e :: es, xs => by
    simp only [encSElPartsX, vdSElList]
    exact (isMax_encSElPartsX es _).cons _

/-! ### the values of a compact map -/

/-- exact need of the value of the first single element whose key is `k` (0 if there is none) -/
def vdFind (k : Nat × Nat) : List MEl → Nat
  | [] => 0
  | .single (.mk (.val s p) v) :: rest => if (s, p) = k then v.vd false else vdFind k rest
  | _ :: rest => vdFind k rest

def encValPartsX (elems : List MEl) : List (Nat × Nat) → List XD → List (Bytes × Nat)
  | [], _ => []
  | k :: ks, xs => ((encFind k elems xs).1, vdFind k elems) :: encValPartsX elems ks (encFind k elems xs).2

theorem encValPartsX_fst (elems : List MEl) : ∀ (ks : List (Nat × Nat)) (xs : List XD),
    (encValPartsX elems ks xs).map Prod.fst = encValParts elems ks xs
  | [], xs => rfl
  | k :: ks, xs => by simp [encValPartsX, encValParts, encValPartsX_fst elems ks]

theorem encValPartsX_length (elems : List MEl) (ks : List (Nat × Nat)) (xs : List XD) :
    (encValPartsX elems ks xs).length = ks.length := by
  rw [← List.length_map (f := Prod.fst), encValPartsX_fst, encValParts_length]

theorem encValPartsX_snd (elems : List MEl) : ∀ (ks : List (Nat × Nat)) (xs : List XD),
    (encValPartsX elems ks xs).map Prod.snd = ks.map (fun k => vdFind k elems)
  | [], xs => rfl
  | k :: ks, xs => by simp [encValPartsX, encValPartsX_snd elems ks]

theorem vdFind_le : ∀ (k : Nat × Nat) (l : List MEl), vdFind k l ≤ vdMElVals l
  | k, [] => Nat.le_refl _
  | k, .single (.mk (.val s p) v) :: rest => by
    have := vdFind_le k rest
    simp only [vdFind, vdMElVals]
    split <;> omega
  | k, .single (.mk (.ref _) _) :: rest => by
    have := vdFind_le k rest; simp only [vdFind, vdMElVals]; omega
  | k, .single (.mk (.some _) _) :: rest => by
    have := vdFind_le k rest; simp only [vdFind, vdMElVals]; omega
  | k, .single (.mk (.arr _ _ _) _) :: rest => by
    have := vdFind_le k rest; simp only [vdFind, vdMElVals]; omega
  | k, .single (.mk (.map _ _ _) _) :: rest => by
    have := vdFind_le k rest; simp only [vdFind, vdMElVals]; omega
  | k, .inl _ :: rest => by
    have := vdFind_le k rest; simp only [vdFind, vdMElVals]; exact this
  | k, .ext _ :: rest => by
    have := vdFind_le k rest; simp only [vdFind, vdMElVals]; exact this

/-- over the map's own (distinct) keys the deepest looked-up value is the deepest value -/
theorem vdFind_attained : ∀ (elems : List MEl) (keys : List (Nat × Nat)),
    elems.mapM compactKey = some keys → keys.Nodup → vdMElVals elems ≠ 0 →
    ∃ k ∈ keys, vdFind k elems = vdMElVals elems := by
  intro elems
  induction elems with
  | nil => intro keys _ _ h0; exact absurd rfl h0
  | cons e es ih =>
    intro keys h hnd h0
    rw [List.mapM_cons] at h
    cases hk : compactKey e with
    | none => rw [hk] at h; cases h
    | some k0 =>
      rw [hk] at h
      cases hm : es.mapM compactKey with
      | none => rw [hm] at h; cases h
      | some ks =>
        rw [hm] at h
        simp only [Option.pure_def, Option.bind_eq_bind, Option.bind_some, Option.some.injEq] at h
        subst h
        obtain ⟨hnot, hnd'⟩ := List.nodup_cons.1 hnd
        match e, hk with
        | .single (.mk (.val s p) v), hk =>
          simp only [compactKey, Option.some.injEq] at hk
          subst hk
          simp only [vdMElVals] at h0 ⊢
          by_cases hv : vdMElVals es ≤ v.vd false
          · refine ⟨(s, p), List.mem_cons_self .., ?_⟩
            simp only [vdFind, ↓reduceIte]
            omega
          · obtain ⟨k, hkin, hkv⟩ := ih ks hm hnd' (by omega)
            refine ⟨k, List.mem_cons_of_mem _ hkin, ?_⟩
            have hne : (s, p) ≠ k := fun h => hnot (h ▸ hkin)
            simp only [vdFind, hne, ↓reduceIte, hkv]
            omega

theorem isMax_encValPartsX (elems : List MEl) (keys ks : List (Nat × Nat)) (xs : List XD)
    (hm : elems.mapM compactKey = some keys) (hnd : keys.Nodup) (hperm : ks.Perm keys) :
    IsMax (encValPartsX elems ks xs) (vdMElVals elems) := by
  have hsnd := encValPartsX_snd elems ks xs
  refine ⟨?_, ?_⟩
  · intro p hp
    have : p.2 ∈ (encValPartsX elems ks xs).map Prod.snd := List.mem_map_of_mem hp
    rw [hsnd] at this
    obtain ⟨k, _, hk⟩ := List.mem_map.1 this
    rw [← hk]; exact vdFind_le k elems
  · by_cases h0 : vdMElVals elems = 0
    · exact Or.inl h0
    · obtain ⟨k, hkin, hkv⟩ := vdFind_attained elems keys hm hnd h0
      have hk' : k ∈ ks := hperm.symm.subset hkin
      have : vdFind k elems ∈ (encValPartsX elems ks xs).map Prod.snd := by
        rw [hsnd]; exact List.mem_map_of_mem (f := fun k => vdFind k elems) hk'
      obtain ⟨p, hp, hpv⟩ := List.mem_map.1 this
      exact Or.inr ⟨p, hp, by rw [hpv, hkv]⟩

theorem exValPartsX (elems : List MEl)
    (hfind : ∀ k xs, hasKey k elems → ExF (encFind k elems xs).1 (vdFind k elems)) :
    ∀ (ks : List (Nat × Nat)) (xs : List XD), (∀ k ∈ ks, hasKey k elems) →
      ∀ p ∈ encValPartsX elems ks xs, ExF p.1 p.2
  | [], xs, _ => by intro p hp; simp [encValPartsX] at hp
  | k :: ks, xs, hk => by
    intro p hp
    simp only [encValPartsX, List.mem_cons] at hp
    rcases hp with rfl | hp
    · exact hfind k xs (hk k (List.mem_cons_self ..))
    · exact exValPartsX elems hfind ks _ (fun k' hk' => hk k' (List.mem_cons_of_mem _ hk')) p hp

/-! ### the element encoders -/

theorem acc_empty_bytes : Acc [0x40] 0 := by
  have := Acc.bytes (content := []) (by simp)
  simpa [head] using this

theorem acc_hkeyBytes (hkeys : List Nat) (h8192 : hkeys.length < 8192) :
    Acc (bytesHead16 (hkeys.length * 8) ++ encodeHkeys hkeys) 0 := by
  have := Acc.bytes16 (content := encodeHkeys hkeys) (by rw [length_encodeHkeys]; omega)
  rw [length_encodeHkeys, Nat.mul_comm] at this
  exact this

mutual
theorem exStX : (s : Stor) → (xs : List XD) → s.RTI → s.nodupKeys → ExX (encSt s xs).1 s.vd
  | .val size pay, xs, h, _ =>
    (exX_encodeVal size pay h).cast (by simp only [encSt]) (fun t => by simp only [Stor.vd])
  | .ref id, xs, _, _ =>
    (exX_encodeRef id).cast (by simp only [encSt]) (fun t => by simp only [Stor.vd])
  | .some s, xs, h, nd =>
    (ExX.tag8 tagSomeValue (exStX s xs h nd)).cast
      (by simp only [encSt, tagHead8, List.cons_append, List.nil_append]) (fun t => by simp only [Stor.vd])
  | .arr ty idx es, xs, h, nd => by
    have hparts := exStPartsX es (addArrayXD xs ty).2 h.2.2.2.1 nd
    have hinner : ExX (arrayHead16 es.length ++ (encSts es (addArrayXD xs ty).2).1) (fun _ => vdSts es + 1) := by
      have := ExX.array16 (l := encStPartsX es (addArrayXD xs ty).2) (N := vdSts es)
        (by rw [encStPartsX_length]; exact h.2.2.1) hparts (isMax_encStPartsX es _)
      exact this.cast (by rw [encStPartsX_length, encStPartsX_fst, encStParts_flatten]) (fun _ => rfl)
    have := exX_inlined CBORTagInlinedArray (addArrayXD xs ty).1 idx hinner.toF
    exact this.cast (by simp only [encSt, List.append_assoc]) (fun t => by simp only [Stor.vd]; omega)
  | .map x idx (.hkey level hkeys elems), xs, h, nd => by
    cases hc : compactKeys x elems with
    | none =>
      have hels := exMElsX (.hkey level hkeys elems) (addMapXD xs x).2 h.2.2.1 nd.2
      have := exX_inlined CBORTagInlinedMap (addMapXD xs x).1 idx hels.toF
      exact this.cast (by simp only [encSt, hc, encMEls, List.append_assoc])
        (fun t => by simp only [Stor.vd, hc]; omega)
    | some keys =>
      have hm := compactKeys_mapM hc
      have hnd := nd.1 keys hc
      have hperm := addCompactXD_perm xs x hkeys keys
      have hes : rtiMElList elems := h.2.2.1.2.2.2.2.1
      have hfind : ∀ k xs', hasKey k elems → ExF (encFind k elems xs').1 (vdFind k elems) :=
        fun k xs' hk => exFindX k elems xs' hes nd.2 hk
      have hcached : ∀ k ∈ (addCompactXD xs x hkeys keys).2.1, hasKey k elems :=
        fun k hk => hasKey_of_mapM elems keys hm k (hperm.subset hk)
      have hparts := exValPartsX elems hfind (addCompactXD xs x hkeys keys).2.1 (addCompactXD xs x hkeys keys).2.2 hcached
      have hlen : (addCompactXD xs x hkeys keys).2.1.length = elems.length := by
        rw [hperm.length_eq]; exact mapM_compactKey_length elems keys hm
      have hinner : ExX (head 4 (addCompactXD xs x hkeys keys).2.1.length ++
          (encVals elems (addCompactXD xs x hkeys keys).2.1 (addCompactXD xs x hkeys keys).2.2).1)
          (fun _ => vdMElVals elems + 1) := by
        have := ExX.array (l := encValPartsX elems (addCompactXD xs x hkeys keys).2.1 (addCompactXD xs x hkeys keys).2.2)
          (N := vdMElVals elems)
          (by rw [encValPartsX_length, hlen]; have := h.2.2.1.2.2.1; unfold maxArrayElements; omega) hparts
          (isMax_encValPartsX elems keys _ _ hm hnd hperm)
        exact this.cast (by rw [encValPartsX_length, encValPartsX_fst, encValParts_flatten]) (fun _ => rfl)
      have := exX_inlined CBORTagInlinedCompactMap (addCompactXD xs x hkeys keys).1 idx hinner.toF
      exact this.cast (by simp only [encSt, hc, foldl_encFind_eq, List.nil_append, List.append_assoc])
        (fun t => by simp only [Stor.vd, hc]; omega)
  | .map x idx (.single level elems), xs, h, nd => by
    have hels := exMElsX (.single level elems) (addMapXD xs x).2 h.2.2.1 nd
    have := exX_inlined CBORTagInlinedMap (addMapXD xs x).1 idx hels.toF
    exact this.cast (by simp only [encSt, encMEls, List.append_assoc])
      (fun t => by simp only [Stor.vd]; omega)
theorem exStPartsX : (l : List Stor) → (xs : List XD) → rtiSts l → nodupKeysSts l →
    ∀ p ∈ encStPartsX l xs, ExF p.1 p.2
  | [], xs, _, _ => by intro p hp; simp [encStPartsX] at hp
  | s :: ss, xs, h, nd => by
    intro p hp
    simp only [encStPartsX, List.mem_cons] at hp
    rcases hp with rfl | hp
    · exact (exStX s xs h.1 nd.1).toF
    · exact exStPartsX ss _ h.2 nd.2 p hp
theorem exFindX : (k : Nat × Nat) → (l : List MEl) → (xs : List XD) → rtiMElList l → nodupKeysMElList l →
    hasKey k l → ExF (encFind k l xs).1 (vdFind k l)
  | k, [], xs, _, _, hk => by cases hk
  | k, .single (.mk (.val s p) v) :: rest, xs, h, nd, hk => by
    simp only [encFind, vdFind]
    split
    · exact (exStX v xs h.1.2.1 nd.1.2).toF
    · rename_i hne
      have hk' : hasKey k rest := by
        simp only [hasKey] at hk
        rcases hk with hk | hk
        · exact absurd hk hne
        · exact hk
      exact exFindX k rest xs h.2 nd.2 hk'
  | k, .single (.mk (.ref _) _) :: rest, xs, h, nd, hk => by
    simp only [encFind, vdFind]; exact exFindX k rest xs h.2 nd.2 hk
  | k, .single (.mk (.some _) _) :: rest, xs, h, nd, hk => by
    simp only [encFind, vdFind]; exact exFindX k rest xs h.2 nd.2 hk
  | k, .single (.mk (.arr _ _ _) _) :: rest, xs, h, nd, hk => by
    simp only [encFind, vdFind]; exact exFindX k rest xs h.2 nd.2 hk
  | k, .single (.mk (.map _ _ _) _) :: rest, xs, h, nd, hk => by
    simp only [encFind, vdFind]; exact exFindX k rest xs h.2 nd.2 hk
  | k, .inl _ :: rest, xs, h, nd, hk => by
    simp only [encFind, vdFind]; exact exFindX k rest xs h.2 nd.2 hk
  | k, .ext _ :: rest, xs, h, nd, hk => by
    simp only [encFind, vdFind]; exact exFindX k rest xs h.2 nd.2 hk
theorem exSElX : (e : SEl) → (xs : List XD) → e.RTI → e.nodupKeys → ExX (encSEl e xs).1 (fun _ => e.vd)
  | .mk k v, xs, h, nd => by
    have hk := exStX k xs h.1 nd.1
    have hv := exStX v (encSt k xs).2 h.2.1 nd.2
    exact (exX_pair hk.toF hv.toF).cast (by simp only [encSEl]) (fun _ => by simp only [SEl.vd]; omega)
theorem exMElX : (e : MEl) → (xs : List XD) → e.RTI → e.nodupKeys → ExF (encMEl e xs).1 e.vd
  | .single e, xs, h, nd => (exSElX e xs h nd).toF.cast (by simp only [encMEl]) (by simp only [MEl.vd])
  | .inl els, xs, h, nd =>
    -- a map element is an array element: its tag number does not follow a tag number
    (ExX.tag8 CBORTagInlineCollisionGroup (exMElsX els xs h nd)).toF.cast
      (by simp only [encMEl, tagHead8, List.cons_append, List.nil_append]) (by simp [MEl.vd])
  | .ext id, xs, _, _ =>
    (ExX.tag8 CBORTagExternalCollisionGroup (exX_encodeRef id)).toF.cast
      (by simp only [encMEl, tagHead8, List.cons_append, List.nil_append]) (by simp [MEl.vd])
theorem exMElsX : (els : MEls) → (xs : List XD) → els.RTI → els.nodupKeys → ExX (encMEls els xs).1 (fun _ => els.vd)
  | .hkey level hkeys es, xs, h, nd => by
    obtain ⟨hlev, hlen, h8192, hhk, hes, _⟩ := h
    have hparts := exMElPartsX es xs hes nd
    have hinner : ExX (arrayHead16 es.length ++ (encMElList es xs).1) (fun _ => vdMElList es + 1) := by
      have := ExX.array16 (l := encMElPartsX es xs) (N := vdMElList es)
        (by rw [encMElPartsX_length]; omega) hparts (isMax_encMElPartsX es xs)
      exact this.cast (by rw [encMElPartsX_length, encMElPartsX_fst, encMElParts_flatten]) (fun _ => rfl)
    have := exX_triple (acc_level hlev) (acc_hkeyBytes hkeys (by omega)) hinner.toF
    exact this.cast (by simp only [encMEls, List.cons_append, List.nil_append, List.append_assoc])
      (fun _ => by simp only [MEls.vd]; omega)
  | .single level es, xs, h, nd => by
    obtain ⟨hlev, _, h64k, hes, _⟩ := h
    have hparts := exSElPartsX es xs hes nd
    have hinner : ExX (arrayHead16 es.length ++ (encSElList es xs).1) (fun _ => vdSElList es + 1) := by
      have := ExX.array16 (l := encSElPartsX es xs) (N := vdSElList es)
        (by rw [encSElPartsX_length]; omega) hparts (isMax_encSElPartsX es xs)
      exact this.cast (by rw [encSElPartsX_length, encSElPartsX_fst, encSElParts_flatten]) (fun _ => rfl)
    have := exX_triple (acc_level hlev) acc_empty_bytes hinner.toF
    exact this.cast (by simp only [encMEls, List.cons_append, List.nil_append, List.append_assoc])
      (fun _ => by simp only [MEls.vd]; omega)
theorem exMElPartsX : (l : List MEl) → (xs : List XD) → rtiMElList l → nodupKeysMElList l →
    ∀ p ∈ encMElPartsX l xs, ExF p.1 p.2
  | [], xs, _, _ => by intro p hp; simp [encMElPartsX] at hp
  | e :: es, xs, h, nd => by
    intro p hp
    simp only [encMElPartsX, List.mem_cons] at hp
    rcases hp with rfl | hp
    · exact exMElX e xs h.1 nd.1
    · exact exMElPartsX es _ h.2 nd.2 p hp
theorem exSElPartsX : (l : List SEl) → (xs : List XD) → rtiSElList l → nodupKeysSElList l →
    ∀ p ∈ encSElPartsX l xs, ExF p.1 p.2
  | [], xs, _, _ => by intro p hp; simp [encSElPartsX] at hp
  | e :: es, xs, h, nd => by
    intro p hp
    simp only [encSElPartsX, List.mem_cons] at hp
    rcases hp with rfl | hp
    · exact (exSElX e xs h.1 nd.1).toF
    · exact exSElPartsX es _ h.2 nd.2 p hp
end

end Atree.Codec
