import AtreeProofs.Codec.EncLemmasG
/-
  The length law WITH compact maps: `(encSt s xs).1.length ≤ s.size`.  An inlined map written in the
  compact form keeps only its values in place (keys and digests are hoisted into the shared
  inlined-extra-data section), so the written bytes can only be fewer than the computed size.
-/
namespace Atree.Codec
open Atree Atree.Gen

/-! ### permutations: the cached key order is a permutation of the map's own key order -/

theorem insertKey_perm (k : Nat × Nat) (l : List (Nat × Nat)) : (insertKey k l).Perm (k :: l) := by
  induction l with
  | nil => exact List.Perm.refl _
  | cons x xs ih =>
    unfold insertKey
    split
    · exact ((List.Perm.cons x ih).trans (List.Perm.swap k x xs))
    · exact List.Perm.refl _

theorem sortKeys_perm (l : List (Nat × Nat)) : (sortKeys l).Perm l := by
  induction l with
  | nil => exact List.Perm.refl _
  | cons k ks ih =>
    show (insertKey k (sortKeys ks)).Perm (k :: ks)
    exact (insertKey_perm k _).trans (List.Perm.cons k ih)

theorem findIdxFrom_some {α : Type} (p : α → Bool) : ∀ (l : List α) (j i : Nat),
    findIdxFrom p l j = some i → j ≤ i ∧ ∃ x, l[i - j]? = some x ∧ p x = true := by
  intro l
  induction l with
  | nil => intro j i h; cases h
  | cons x xs ih =>
    intro j i h
    unfold findIdxFrom at h
    by_cases hp : p x = true
    · rw [if_pos hp] at h
      cases h
      exact ⟨Nat.le_refl _, x, by simp, hp⟩
    · rw [if_neg hp] at h
      obtain ⟨hle, y, hy, hpy⟩ := ih (j + 1) i h
      refine ⟨by omega, y, ?_, hpy⟩
      have : i - j = (i - (j + 1)) + 1 := by omega
      rw [this, List.getElem?_cons_succ]
      exact hy

/-- the cached keys `addCompactMapExtraData` returns are a permutation of the keys handed in -/
theorem addCompactXD_perm (xs : List XD) (x : MapExtra) (hkeys : List Nat) (keys : List (Nat × Nat)) :
    (addCompactXD xs x hkeys keys).2.1.Perm keys := by
  unfold addCompactXD
  cases hf : findIdxFrom (sameCompactType x.ty keys) xs 0 with
  | none => exact List.Perm.refl _
  | some i =>
    obtain ⟨_, y, hy, hp⟩ := findIdxFrom_some _ xs 0 i hf
    simp only [Nat.sub_zero] at hy
    simp only [hy]
    cases y with
    | arr t => exact List.Perm.refl _
    | map m => exact List.Perm.refl _
    | cmap x' hk' keys' =>
      simp only [sameCompactType, Bool.and_eq_true] at hp
      have heq : sortKeys keys' = sortKeys keys := eq_of_beq hp.2
      exact ((sortKeys_perm keys').symm.trans (heq ▸ List.Perm.refl _)).trans (sortKeys_perm keys)

/-! ### the size of the value stored under a key -/

/-- size of the value of the first single element whose key is `k` (0 if there is none) -/
def valSizeOf (k : Nat × Nat) : List MEl → Nat
  | [] => 0
  | .single (.mk (.val s p) v) :: rest => if (s, p) = k then v.size else valSizeOf k rest
  | _ :: rest => valSizeOf k rest

/-- sum of the sizes of the values of the single elements -/
def valSizes : List MEl → Nat
  | [] => 0
  | .single (.mk _ v) :: rest => v.size + valSizes rest
  | _ :: rest => valSizes rest

theorem valSizes_le_sizeMEl : ∀ (l : List MEl), valSizes l + 17 * l.length ≤ sizeMEl l + 8 * l.length
  | [] => by simp [valSizes, sizeMEl]
  | .single (.mk k v) :: rest => by
    have := valSizes_le_sizeMEl rest
    simp only [valSizes, sizeMEl, MEl.size, SEl.size, List.length_cons, digestSize, singleElementPrefixSize]
    omega
  | .inl els :: rest => by
    have := valSizes_le_sizeMEl rest
    simp only [valSizes, sizeMEl, MEl.size, List.length_cons, digestSize, inlineCollisionGroupPrefixSize]
    omega
  | .ext id :: rest => by
    have := valSizes_le_sizeMEl rest
    simp only [valSizes, sizeMEl, MEl.size, List.length_cons, digestSize, externalCollisionGroupPrefixSize,
      slabIDStorableSize, SlabIDLength]
    omega

/-- over the map's own (distinct) keys, the looked-up value sizes add up to the value sizes -/
theorem sum_valSizeOf_keys : ∀ (elems : List MEl) (keys : List (Nat × Nat)),
    elems.mapM compactKey = some keys → keys.Nodup →
    (keys.map (fun k => valSizeOf k elems)).sum = valSizes elems := by
  intro elems
  induction elems with
  | nil =>
    intro keys h _
    simp only [List.mapM_nil, Option.pure_def, Option.some.injEq] at h
    subst h; rfl
  | cons e es ih =>
    intro keys h hnd
    rw [List.mapM_cons] at h
    cases hk : compactKey e with
    | none => rw [hk] at h; cases h
    | some k0 =>
      rw [hk] at h
      cases hm : es.mapM compactKey with
      | none => rw [hm] at h; cases h
      | some ks =>
        rw [hm] at h
        simp only [Option.pure_def, Option.bind_eq_bind, Option.bind_some, Option.some.injEq] at h
        subst h
        obtain ⟨hnot, hnd'⟩ := List.nodup_cons.1 hnd
        -- the shape of `e`
        match e, hk with
        | .single (.mk (.val s p) v), hk =>
          simp only [compactKey, Option.some.injEq] at hk
          subst hk
          have ih' := ih ks hm hnd'
          have hrest : (ks.map (fun k => valSizeOf k (MEl.single (SEl.mk (Stor.val s p) v) :: es)))
              = ks.map (fun k => valSizeOf k es) := by
            apply List.map_congr_left
            intro k hkin
            have hne : (s, p) ≠ k := fun h => hnot (h ▸ hkin)
            simp only [valSizeOf, hne, ↓reduceIte]
          rw [List.map_cons, List.sum_cons, hrest, ih']
          simp only [valSizeOf, ↓reduceIte, valSizes]

theorem compactKeys_mapM {x : MapExtra} {elems : List MEl} {keys : List (Nat × Nat)}
    (h : compactKeys x elems = some keys) : elems.mapM compactKey = some keys := by
  unfold compactKeys at h
  split at h
  · exact h
  · cases h

theorem mapM_compactKey_length : ∀ (elems : List MEl) (keys : List (Nat × Nat)),
    elems.mapM compactKey = some keys → keys.length = elems.length := by
  intro elems
  induction elems with
  | nil => intro keys h; simp only [List.mapM_nil, Option.pure_def, Option.some.injEq] at h; subst h; rfl
  | cons e es ih =>
    intro keys h
    rw [List.mapM_cons] at h
    cases hk : compactKey e with
    | none => rw [hk] at h; cases h
    | some k0 =>
      rw [hk] at h
      cases hm : es.mapM compactKey with
      | none => rw [hm] at h; cases h
      | some ks =>
        rw [hm] at h
        simp only [Option.pure_def, Option.bind_eq_bind, Option.bind_some, Option.some.injEq] at h
        subst h
        simp [ih ks hm]

/-! ### distinct keys of the compact-eligible maps -/

mutual
/-- the keys of every inlined map that is written in the compact form are distinct -/
def Stor.nodupKeys : Stor → Prop
  | .val _ _ => True
  | .ref _ => True
  | .some s => s.nodupKeys
  | .arr _ _ es => nodupKeysSts es
  | .map x _ (.hkey _ _ es) => (∀ keys, compactKeys x es = some keys → keys.Nodup) ∧ nodupKeysMElList es
  | .map _ _ (.single _ es) => nodupKeysSElList es
def nodupKeysSts : List Stor → Prop
  | [] => True
  | s :: ss => s.nodupKeys ∧ nodupKeysSts ss
def SEl.nodupKeys : SEl → Prop
  | .mk k v => k.nodupKeys ∧ v.nodupKeys
def MEl.nodupKeys : MEl → Prop
  | .single e => e.nodupKeys
  | .inl els => els.nodupKeys
  | .ext _ => True
def MEls.nodupKeys : MEls → Prop
  | .hkey _ _ es => nodupKeysMElList es
  | .single _ es => nodupKeysSElList es
def nodupKeysMElList : List MEl → Prop
  | [] => True
  | e :: es => e.nodupKeys ∧ nodupKeysMElList es
def nodupKeysSElList : List SEl → Prop
  | [] => True
  | e :: es => e.nodupKeys ∧ nodupKeysSElList es
end

/-- the loop of `encodeCompactMapValues` over the cached keys -/
theorem foldl_encFind_le (elems : List MEl)
    (hfind : ∀ k xs, (encFind k elems xs).1.length ≤ valSizeOf k elems) :
    ∀ (ks : List (Nat × Nat)) (acc : Bytes × List XD),
      (ks.foldl (fun (acc : Bytes × List XD) k =>
          let v := encFind k elems acc.2
          (acc.1 ++ v.1, v.2)) acc).1.length ≤ acc.1.length + (ks.map (fun k => valSizeOf k elems)).sum := by
  intro ks
  induction ks with
  | nil => intro acc; simp
  | cons k ks ih =>
    intro acc
    simp only [List.foldl_cons, List.map_cons, List.sum_cons]
    refine Nat.le_trans (ih _) ?_
    have := hfind k acc.2
    simp only [List.length_append]
    omega

theorem headLen_le_nine (n : Nat) : headLen n ≤ 9 := by
  unfold headLen; repeat' split
  all_goals omega

mutual
theorem lenSt_le : (s : Stor) → (xs : List XD) → s.OK → s.nodupKeys → (encSt s xs).1.length ≤ s.size
  | .val size pay, xs, h, _ => by
    simp only [encSt, Stor.size]
    exact Nat.le_of_eq (elem_size_eq_enc_len _ h)
  | .ref id, xs, _, _ => by
    simp only [encSt, Stor.size]
    exact Nat.le_of_eq (length_encodeRef id)
  | .some s, xs, h, nd => by
    have ih := lenSt_le s xs h nd
    simp only [encSt, Stor.size, List.length_append, tagHead8, List.length_cons, List.length_nil, someOverhead]
    omega
  | .arr ty idx es, xs, h, nd => by
    have ih := lenSts_le es (addArrayXD xs ty).2 h nd
    simp only [encSt, Stor.size, List.length_append, length_inlinedHead, length_encodeIdx, length_arrayHead16,
      inlinedArrayDataSlabPrefixSize]
    omega
  | .map x idx (.hkey level hkeys elems), xs, h, nd => by
    cases hc : compactKeys x elems with
    | none =>
      have ih := lenMElList_le elems (addMapXD xs x).2 h.2 nd.2
      simp only [encSt, hc, Stor.size, MEls.size, List.length_append, length_inlinedHead, length_encodeIdx,
        length_arrayHead16, length_bytesHead16, length_encodeHkeys, List.length_cons, List.length_nil,
        inlinedMapDataSlabPrefixSize, hkeyElementsPrefixSize]
      have := h.1
      omega
    | some keys =>
      have hm := compactKeys_mapM hc
      have hnd := nd.1 keys hc
      have hperm := addCompactXD_perm xs x hkeys keys
      have hfind : ∀ k xs', (encFind k elems xs').1.length ≤ valSizeOf k elems :=
        fun k xs' => lenFind_le k elems xs' h.2 nd.2
      have hfold := foldl_encFind_le elems hfind (addCompactXD xs x hkeys keys).2.1 ([], (addCompactXD xs x hkeys keys).2.2)
      have hsum : ((addCompactXD xs x hkeys keys).2.1.map (fun k => valSizeOf k elems)).sum = valSizes elems := by
        rw [(List.Perm.map _ hperm).sum_nat]
        exact sum_valSizeOf_keys elems keys hm hnd
      have hlen : (addCompactXD xs x hkeys keys).2.1.length = elems.length := by
        rw [hperm.length_eq]; exact mapM_compactKey_length elems keys hm
      have hv := valSizes_le_sizeMEl elems
      have h9 := headLen_le_nine elems.length
      have h1 : elems.length = 0 → headLen elems.length = 1 := by intro h0; rw [h0]; rfl
      simp only [encSt, hc, Stor.size, MEls.size, List.length_append, length_inlinedHead, length_encodeIdx,
        length_head, hlen, inlinedMapDataSlabPrefixSize, hkeyElementsPrefixSize]
      rw [hsum] at hfold
      simp only [List.length_nil, Nat.zero_add] at hfold
      omega
  | .map x idx (.single level elems), xs, h, nd => by
    have ih := lenSElList_le elems (addMapXD xs x).2 h nd
    simp only [encSt, Stor.size, MEls.size, List.length_append, length_inlinedHead, length_encodeIdx,
      length_arrayHead16, List.length_cons, List.length_nil, inlinedMapDataSlabPrefixSize, singleElementsPrefixSize]
    omega
theorem lenSts_le : (l : List Stor) → (xs : List XD) → okSts l → nodupKeysSts l →
    (encSts l xs).1.length ≤ sizeSts l
  | [], xs, _, _ => by simp [encSts, sizeSts]
  | s :: ss, xs, h, nd => by
    have ih1 := lenSt_le s xs h.1 nd.1
    have ih2 := lenSts_le ss (encSt s xs).2 h.2 nd.2
    simp only [encSts, sizeSts, List.length_append]
    omega
theorem lenFind_le : (k : Nat × Nat) → (l : List MEl) → (xs : List XD) → okMElList l → nodupKeysMElList l →
    (encFind k l xs).1.length ≤ valSizeOf k l
  | k, [], xs, _, _ => by simp [encFind, valSizeOf]
  | k, .single (.mk (.val s p) v) :: rest, xs, h, nd => by
    simp only [encFind, valSizeOf]
    split
    · exact lenSt_le v xs h.1.2 nd.1.2
    · exact lenFind_le k rest xs h.2 nd.2
  | k, .single (.mk (.ref _) _) :: rest, xs, h, nd => by
    simp only [encFind, valSizeOf]; exact lenFind_le k rest xs h.2 nd.2
  | k, .single (.mk (.some _) _) :: rest, xs, h, nd => by
    simp only [encFind, valSizeOf]; exact lenFind_le k rest xs h.2 nd.2
  | k, .single (.mk (.arr _ _ _) _) :: rest, xs, h, nd => by
    simp only [encFind, valSizeOf]; exact lenFind_le k rest xs h.2 nd.2
  | k, .single (.mk (.map _ _ _) _) :: rest, xs, h, nd => by
    simp only [encFind, valSizeOf]; exact lenFind_le k rest xs h.2 nd.2
  | k, .inl _ :: rest, xs, h, nd => by
    simp only [encFind, valSizeOf]; exact lenFind_le k rest xs h.2 nd.2
  | k, .ext _ :: rest, xs, h, nd => by
    simp only [encFind, valSizeOf]; exact lenFind_le k rest xs h.2 nd.2
theorem lenSEl_le : (e : SEl) → (xs : List XD) → e.OK → e.nodupKeys → (encSEl e xs).1.length ≤ e.size
  | .mk k v, xs, h, nd => by
    have ih1 := lenSt_le k xs h.1 nd.1
    have ih2 := lenSt_le v (encSt k xs).2 h.2 nd.2
    simp only [encSEl, SEl.size, List.length_cons, List.length_append, singleElementPrefixSize]
    omega
theorem lenMEl_le : (e : MEl) → (xs : List XD) → e.OK → e.nodupKeys → (encMEl e xs).1.length ≤ e.size
  | .single e, xs, h, nd => by
    simp only [encMEl, MEl.size]
    exact lenSEl_le e xs h nd
  | .inl els, xs, h, nd => by
    have ih := lenMEls_le els xs h nd
    simp only [encMEl, MEl.size, List.length_append, tagHead8, List.length_cons, List.length_nil,
      inlineCollisionGroupPrefixSize]
    omega
  | .ext id, xs, _, _ => by
    simp only [encMEl, MEl.size, List.length_append, tagHead8, List.length_cons, List.length_nil, length_encodeRef,
      externalCollisionGroupPrefixSize]
    omega
theorem lenMEls_le : (els : MEls) → (xs : List XD) → els.OK → els.nodupKeys → (encMEls els xs).1.length ≤ els.size
  | .hkey level hkeys elems, xs, h, nd => by
    have ih := lenMElList_le elems xs h.2 nd
    simp only [encMEls, MEls.size, List.length_append, length_arrayHead16, length_bytesHead16, length_encodeHkeys,
      List.length_cons, List.length_nil, hkeyElementsPrefixSize]
    have := h.1
    omega
  | .single level elems, xs, h, nd => by
    have ih := lenSElList_le elems xs h nd
    simp only [encMEls, MEls.size, List.length_append, length_arrayHead16, List.length_cons, List.length_nil,
      singleElementsPrefixSize]
    omega
theorem lenMElList_le : (l : List MEl) → (xs : List XD) → okMElList l → nodupKeysMElList l →
    (encMElList l xs).1.length + 8 * l.length ≤ sizeMEl l
  | [], xs, _, _ => by simp [encMElList, sizeMEl]
  | e :: es, xs, h, nd => by
    have ih1 := lenMEl_le e xs h.1 nd.1
    have ih2 := lenMElList_le es (encMEl e xs).2 h.2 nd.2
    simp only [encMElList, sizeMEl, List.length_append, List.length_cons, digestSize]
    omega
theorem lenSElList_le : (l : List SEl) → (xs : List XD) → okSElList l → nodupKeysSElList l →
    (encSElList l xs).1.length ≤ sizeSEl l
  | [], xs, _, _ => by simp [encSElList, sizeSEl]
  | e :: es, xs, h, nd => by
    have ih1 := lenSEl_le e xs h.1 nd.1
    have ih2 := lenSElList_le es (encSEl e xs).2 h.2 nd.2
    simp only [encSElList, sizeSEl, List.length_append]
    omega
end

/-! ### standalone slabs that may hold compact maps: the written bytes are at most the computed size -/

theorem enc_len_mdata_le (s : MapData) (ok : s.els.OK) (nd : s.els.nodupKeys)
    (hroot : s.extra.isSome = true → s.next = SlabID.undef) :
    (encodeMapData s).length + (if s.extra.isNone ∧ s.next = SlabID.undef then 16 else 0)
      ≤ s.size + mapExtraLen s.extra + (encodeIEDSection (encMEls s.els []).2).length := by
  have hl := lenMEls_le s.els [] ok nd
  unfold encodeMapData MapData.size mapExtraLen
  simp only [List.length_append, List.length_cons, List.length_nil, versionAndFlagSize, SlabIDLength]
  cases hx : s.extra with
  | none =>
    by_cases hn : s.next = SlabID.undef
    · simp [hn]; omega
    · simp [hn, length_encodeSlabID]; omega
  | some x =>
    have hn := hroot (by rw [hx]; rfl)
    simp [hn]; omega

theorem enc_len_adata_le (a : ArrData) (ok : okSts a.elems) (nd : nodupKeysSts a.elems)
    (hroot : a.ty.isSome = true → a.next = SlabID.undef) :
    (encodeArrData a).length + (if a.ty.isNone ∧ a.next = SlabID.undef then 16 else 0)
      ≤ a.size + (match a.ty with | some t => (encodeExtraData t).length | none => 0) +
          (encodeIEDSection (encSts a.elems []).2).length := by
  have hl := lenSts_le a.elems [] ok nd
  unfold encodeArrData ArrData.size
  simp only [List.length_append, List.length_cons, List.length_nil, length_arrayHead16,
    arrayRootDataSlabPrefixSize, arrayDataSlabPrefixSize]
  cases hx : a.ty with
  | none =>
    by_cases hn : a.next = SlabID.undef
    · simp [hn]; omega
    · simp [hn, length_encodeSlabID]; omega
  | some x =>
    have hn := hroot (by rw [hx]; rfl)
    simp [hn]; omega

end Atree.Codec
