import AtreeProofs.Codec.CmpFix
/-
  The decoded compact child, EXTENSIONALLY.

  `normVals elems cached st` (CmpDefs.lean) lists, per cached key, the decoded form of the value
  found by a totalised lookup (`normFind`, default `.val 0 0`).  Under distinct keys the lookup is
  exact: `elems = keys.map (keyEl elems)` — every element is found under its own key and nothing
  else — so the decoded child has exactly the key set of the encoded one, each key once, and under
  every key the decoded form of the value that was stored under it.
-/
namespace Atree.Codec
open Atree Atree.Gen DM

/-- the value of the first single element whose key is `k` (what `encFind` / `normFind` look up) -/
def findVal (k : Nat × Nat) : List MEl → Stor
  | [] => .val 0 0
  | .single (.mk (.val s p) v) :: rest => if (s, p) = k then v else findVal k rest
  | _ :: rest => findVal k rest

/-- the element a compact-eligible list stores under `k` -/
def keyEl (elems : List MEl) (k : Nat × Nat) : MEl := .single (.mk (.val k.1 k.2) (findVal k elems))

/-- the totalised lookup of the decoded value is the decoded form of the looked-up value -/
theorem normFind_eq_findVal : ∀ (k : Nat × Nat) (l : List MEl) (st : List XD),
    normFind k l st = normSt (findVal k l) st
  | k, [], st => by simp only [normFind, findVal, normSt]
  | k, .single (.mk (.val s p) v) :: rest, st => by
    simp only [normFind, findVal]
    split
    · rfl
    · exact normFind_eq_findVal k rest st
  | k, .single (.mk (.ref _) _) :: rest, st => by simp only [normFind, findVal]; exact normFind_eq_findVal k rest st
  | k, .single (.mk (.some _) _) :: rest, st => by simp only [normFind, findVal]; exact normFind_eq_findVal k rest st
  | k, .single (.mk (.arr _ _ _) _) :: rest, st => by
    simp only [normFind, findVal]; exact normFind_eq_findVal k rest st
  | k, .single (.mk (.map _ _ _) _) :: rest, st => by
    simp only [normFind, findVal]; exact normFind_eq_findVal k rest st
  | k, .inl _ :: rest, st => by simp only [normFind, findVal]; exact normFind_eq_findVal k rest st
  | k, .ext _ :: rest, st => by simp only [normFind, findVal]; exact normFind_eq_findVal k rest st

/-- a compact-eligible list with distinct keys IS the list of what is found under its keys -/
theorem map_keyEl_keys : ∀ (elems : List MEl) (keys : List (Nat × Nat)),
    elems.mapM compactKey = some keys → keys.Nodup → keys.map (keyEl elems) = elems := by
  intro elems
  induction elems with
  | nil =>
    intro keys h _
    simp only [List.mapM_nil, Option.pure_def, Option.some.injEq] at h
    subst h; rfl
  | cons e es ih =>
    intro keys h hnd
    rw [List.mapM_cons] at h
    cases hk : compactKey e with
    | none => rw [hk] at h; cases h
    | some k0 =>
      rw [hk] at h
      cases hm : es.mapM compactKey with
      | none => rw [hm] at h; cases h
      | some ks =>
        rw [hm] at h
        simp only [Option.pure_def, Option.bind_eq_bind, Option.bind_some, Option.some.injEq] at h
        subst h
        obtain ⟨hnot, hnd'⟩ := List.nodup_cons.1 hnd
        match e, hk with
        | .single (.mk (.val s p) v), hk =>
          simp only [compactKey, Option.some.injEq] at hk
          subst hk
          have ih' := ih ks hm hnd'
          have hrest : ks.map (keyEl (MEl.single (SEl.mk (Stor.val s p) v) :: es)) = ks.map (keyEl es) := by
            apply List.map_congr_left
            intro k hkin
            have hne : (s, p) ≠ k := fun h => hnot (h ▸ hkin)
            simp only [keyEl, findVal, hne, ↓reduceIte]
          rw [List.map_cons, hrest, ih']
          simp only [keyEl, findVal, ↓reduceIte]

/-- the decoded element of the key at position `pre.length` of the cached keys, with the encoder's
    state at the moment the value was written -/
theorem mem_normVals_at (elems : List MEl) (pre post : List (Nat × Nat)) (k : Nat × Nat) (st : List XD) :
    MEl.single (.mk (.val k.1 k.2) (normSt (findVal k elems) (encVals elems pre st).2))
      ∈ normVals elems (pre ++ k :: post) st := by
  rw [normVals_append]
  apply List.mem_append_right
  simp only [normVals, normFind_eq_findVal]
  exact List.mem_cons_self ..

/-- every decoded element belongs to a cached key -/
theorem of_mem_normVals (elems : List MEl) : ∀ (ks : List (Nat × Nat)) (st : List XD) (e : MEl),
    e ∈ normVals elems ks st →
      ∃ k ∈ ks, ∃ st', e = MEl.single (.mk (.val k.1 k.2) (normSt (findVal k elems) st'))
  | [], st, e, h => by simp [normVals] at h
  | k :: ks, st, e, h => by
    simp only [normVals, List.mem_cons] at h
    rcases h with rfl | h
    · exact ⟨k, List.mem_cons_self .., st, by rw [normFind_eq_findVal]⟩
    · obtain ⟨k', hk', st', he⟩ := of_mem_normVals elems ks _ e h
      exact ⟨k', List.mem_cons_of_mem _ hk', st', he⟩

/-- when the looked-up values hold no compact map, the decoded elements are the looked-up elements -/
theorem normVals_eq_map (elems : List MEl) : ∀ (ks : List (Nat × Nat)) (st : List XD),
    (∀ k ∈ ks, (findVal k elems).noCompact) → normVals elems ks st = ks.map (keyEl elems)
  | [], st, _ => rfl
  | k :: ks, st, h => by
    simp only [normVals, List.map_cons, normFind_eq_findVal,
      normSt_noCompact _ _ (h k (List.mem_cons_self ..)),
      normVals_eq_map elems ks _ (fun k' hk' => h k' (List.mem_cons_of_mem _ hk'))]
    rfl

/-- The decoded elements of a compact map with distinct keys, extensionally. -/
theorem normVals_extensional (elems : List MEl) (keys cached : List (Nat × Nat)) (st : List XD)
    (hm : elems.mapM compactKey = some keys) (hnd : keys.Nodup) (hperm : cached.Perm keys) :
    (normVals elems cached st).length = elems.length ∧
    ((normVals elems cached st).mapM compactKey = some cached ∧ cached.Nodup) ∧
    (∀ s p v, MEl.single (.mk (.val s p) v) ∈ elems →
        ∃ pre post, cached = pre ++ (s, p) :: post ∧
          MEl.single (.mk (.val s p) (normSt v (encVals elems pre st).2)) ∈ normVals elems cached st) ∧
    (∀ e ∈ normVals elems cached st, ∃ s p v st',
        e = MEl.single (.mk (.val s p) (normSt v st')) ∧ MEl.single (.mk (.val s p) v) ∈ elems) ∧
    ((∀ s p v, MEl.single (.mk (.val s p) v) ∈ elems → v.noCompact) → (normVals elems cached st).Perm elems) := by
  have hmap := map_keyEl_keys elems keys hm hnd
  have hkl := mapM_compactKey_length elems keys hm
  -- an element of the list is what is found under its key, and its key is a key
  have hel : ∀ s p v, MEl.single (.mk (.val s p) v) ∈ elems → (s, p) ∈ keys ∧ findVal (s, p) elems = v := by
    intro s p v hin
    rw [← hmap] at hin
    obtain ⟨k, hk, he⟩ := List.mem_map.1 hin
    simp only [keyEl, MEl.single.injEq, SEl.mk.injEq, Stor.val.injEq] at he
    obtain ⟨⟨h1, h2⟩, h3⟩ := he
    have hk' : k = (s, p) := by rw [← h1, ← h2]
    subst hk'
    exact ⟨hk, h3⟩
  have hkey : ∀ k ∈ keys, keyEl elems k ∈ elems := by
    intro k hk
    have : keyEl elems k ∈ keys.map (keyEl elems) := List.mem_map.2 ⟨k, hk, rfl⟩
    rw [hmap] at this
    exact this
  refine ⟨?_, ⟨mapM_normVals elems cached st, hperm.nodup_iff.2 hnd⟩, ?_, ?_, ?_⟩
  · rw [length_normVals, hperm.length_eq, hkl]
  · intro s p v hin
    obtain ⟨hk, hv⟩ := hel s p v hin
    obtain ⟨pre, post, hsplit⟩ := List.append_of_mem (hperm.mem_iff.2 hk)
    refine ⟨pre, post, hsplit, ?_⟩
    have := mem_normVals_at elems pre post (s, p) st
    rw [hv, ← hsplit] at this
    exact this
  · intro e he
    obtain ⟨k, hk, st', rfl⟩ := of_mem_normVals elems cached st e he
    exact ⟨k.1, k.2, findVal k elems, st', rfl, hkey k (hperm.mem_iff.1 hk)⟩
  · intro hnc
    have hall : ∀ k ∈ cached, (findVal k elems).noCompact := by
      intro k hk
      exact hnc k.1 k.2 (findVal k elems) (hkey k (hperm.mem_iff.1 hk))
    rw [normVals_eq_map elems cached st hall]
    have := List.Perm.map (keyEl elems) hperm
    rw [hmap] at this
    exact this

end Atree.Codec
