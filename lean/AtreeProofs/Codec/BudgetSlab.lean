import AtreeProofs.Codec.BudgetExtra
/-
  The allocation bound of the whole second-part decoder: every phase of `decodeSlabGen` starts a
  fresh stream decoder on the bytes the earlier phases left, so with `B = n₀ + 2·|data|` the
  invariant between phases is `n + 2·|bytes left| ≤ B`.
-/
namespace Atree.Codec
open DM Atree.Gen

/-- a phase working on `L` remaining bytes -/
def TrL {α : Type} (B L : Nat) (Q : α → Nat → Prop) (m : DM α) : Prop :=
  ∀ n, n + 2 * L ≤ B → Out B Q (m n)

/-- every outcome is within the budget -/
abbrev LeB {α : Type} (B : Nat) : α → Nat → Prop := fun _ n' => n' ≤ B
/-- the phase hands the bytes it did not read to the next phase -/
abbrev RestQ {α : Type} (B : Nat) (P : α → Prop) : α × Bytes → Nat → Prop :=
  fun r n' => n' + 2 * r.2.length ≤ B ∧ P r.1

namespace TrG
variable {β : Type} {B T : Nat}

theorem pureLe {a : β} {d : Dec} {stk : List Frame} {c : Nat} : TrG B T (LeB B) (Pure.pure a : DM β) d stk c :=
  fun _ _ h => h.le

theorem sliceRest {α : Type} (a : α) (data : Bytes) {d : Dec} {c : Nat} :
    TrG B data.length (RestQ B (fun _ : α => True))
      (sliceFrom data d.numBytesDecoded >>= fun rest => (Pure.pure (a, rest) : DM (α × Bytes))) d [] c := by
  intro n hi hp
  have hle : d.consumed ≤ data.length := hi.consumed_le
  unfold sliceFrom
  simp only [Dec.numBytesDecoded, hle, ↓reduceIte, DM.pure_bind]
  refine ⟨?_, trivial⟩
  have h2 := hp.2
  unfold DecInv at hi
  simp only [pending, List.length_drop] at h2 ⊢
  omega

end TrG

namespace TrL
variable {α β : Type} {B L : Nat}

theorem fail {Q : α → Nat → Prop} {e : DErr} : TrL B L Q (DM.fail e : DM α) := by
  intro n h
  show n ≤ B
  omega

theorem pureLe {a : α} : TrL B L (LeB B) (Pure.pure a : DM α) := by
  intro n h
  show n ≤ B
  omega

theorem mono {Q : α → Nat → Prop} {m : DM α} {L' : Nat} (hL : L' ≤ L) (h : TrL B L' Q m) : TrL B L Q m := by
  intro n hn
  exact h n (by omega)

theorem ite {Q : α → Nat → Prop} {c0 : Prop} [Decidable c0] {a b : DM α}
    (ha : c0 → TrL B L Q a) (hb : ¬ c0 → TrL B L Q b) : TrL B L Q (if c0 then a else b) := by
  split
  · exact ha ‹_›
  · exact hb ‹_›

theorem noalloc {Q : β → Nat → Prop} {m : DM α} {f : α → DM β} (hm : NoAlloc m) (hf : ∀ a, TrL B L Q (f a)) :
    TrL B L Q (m >>= f) := by
  intro n hn
  have h1 := hm n
  show Out B Q (DM.bind' m f n)
  unfold DM.bind'
  cases hmn : m n with
  | ok a n' =>
    rw [hmn] at h1
    subst h1
    exact hf a n' hn
  | error e n' =>
    rw [hmn] at h1; subst h1
    show n' ≤ B
    omega
  | panic => trivial

theorem sliceFrom {Q : β → Nat → Prop} {data : Bytes} {k : Nat} {f : Bytes → DM β}
    (hf : TrL B (data.drop k).length Q (f (data.drop k))) :
    TrL B data.length Q (sliceFrom data k >>= f) := by
  intro n hn
  unfold Codec.sliceFrom
  by_cases hk : k ≤ data.length
  · simp only [hk, ↓reduceIte, DM.pure_bind]
    refine hf n ?_
    simp only [List.length_drop]
    omega
  · simp only [hk, ↓reduceIte]
    trivial

theorem alloc {Q : β → Nat → Prop} {f : Unit → DM β} {k : Nat} (hk : k ≤ 2 * L) (hf : TrL B 0 Q (f ())) :
    TrL B L Q (DM.alloc k >>= f) := by
  intro n hn
  rw [DM.alloc_bind]
  exact hf (n + k) (by omega)

theorem bindRest {γ : Type} {P : α → Prop} {Q : γ → Nat → Prop} {m : DM (α × Bytes)} {f : α × Bytes → DM γ}
    (hm : TrL B L (RestQ B P) m) (hf : ∀ a rest, P a → TrL B rest.length Q (f (a, rest))) :
    TrL B L Q (m >>= f) := by
  intro n hn
  have h1 := hm n hn
  show Out B Q (DM.bind' m f n)
  unfold DM.bind'
  cases hmn : m n with
  | ok a n' =>
    rw [hmn] at h1
    obtain ⟨x, rest⟩ := a
    exact hf x rest h1.2 n' h1.1
  | error e n' => rw [hmn] at h1; exact h1
  | panic => trivial

theorem andPost {Q : α → Nat → Prop} {P : α → Prop} {m : DM α} (h : TrL B L Q m) (hp : Post P m) :
    TrL B L (fun a n' => Q a n' ∧ P a) m := by
  intro n hn
  have h1 := h n hn
  have h2 := hp n
  cases hmn : m n with
  | ok a n' => rw [hmn] at h1 h2; exact ⟨h1, h2⟩
  | error e n' => rw [hmn] at h1; exact h1
  | panic => trivial

/-- a computation of the first part: at most `k` slots, no panic -/
theorem ofSafe {P : α → Prop} {m : DM α} {k : Nat} (h : Safe m k P) (hk : k ≤ 2 * L) : TrL B L (LeB B) m := by
  intro n hn
  have h1 := h n
  cases hmn : m n with
  | ok a n' => rw [hmn] at h1; show n' ≤ B; omega
  | error e n' => rw [hmn] at h1; show n' ≤ B; omega
  | panic => trivial

theorem ofSafeRest {m : DM (α × Bytes)} {data : Bytes} (h : Safe m 0 (fun r => r.2.length ≤ data.length)) :
    TrL B data.length (RestQ B (fun _ : α => True)) m := by
  intro n hn
  have h1 := h n
  cases hmn : m n with
  | ok a n' => rw [hmn] at h1; exact ⟨by omega, trivial⟩
  | error e n' => rw [hmn] at h1; show n' ≤ B; omega
  | panic => trivial

/-- a phase that runs a fresh stream decoder on its bytes -/
theorem decPhase {Q : α → Nat → Prop} {m : DM α} {data : Bytes}
    (h : TrG B data.length Q m (Dec.new data) [] 0) : TrL B data.length Q m := by
  intro n hn
  exact h n (DecInv.new data) (Pre.new data hn)

end TrL

variable {B : Nat}

/-! ### phases that return the unread bytes -/

theorem trl_newMapExtraDataFromData (data : Bytes) :
    TrL B data.length (RestQ B (fun _ : MapExtra => True)) (newMapExtraDataFromData data) := by
  unfold newMapExtraDataFromData
  apply TrL.decPhase
  refine TrG.bind (tr_newMapExtraData [] (Dec.new data) [] 0) ?_
  intro ⟨x, d⟩
  exact TrG.sliceRest x data

theorem trl_newInlinedExtraDataFromData (data : Bytes) :
    TrL B data.length (RestQ B XDWf) (newInlinedExtraDataFromData data) := by
  have h1 : TrL B data.length (RestQ B (fun _ : List XD => True)) (newInlinedExtraDataFromData data) := by
    unfold newInlinedExtraDataFromData
    apply TrL.decPhase
    refine TrG.arrayHead ?_
    intro count d1
    dsimp only
    apply TrG.ite <;> intro hc
    · exact TrG.fail
    · have hc2 : count = 2 := by simp only [inlinedExtraDataArrayCount] at hc; omega
      subst hc2
      refine TrG.arrayHead ?_
      intro tic d2
      dsimp only
      rw [next1_pushItems_succ]
      apply TrG.ite <;> intro _
      · exact TrG.fail
      · refine TrG.alloc (k := tic) (by omega) ?_
        refine TrG.weaken (c := 0) ?_ (Nat.zero_le _)
        refine TrG.bind (tr_decTypeInfos tic d2 _ _) ?_
        intro ⟨tis, d3⟩
        dsimp only
        refine TrG.arrayHead ?_
        intro xc d4
        dsimp only
        rw [next1_pushItems_succ]
        simp only [pushItems]
        apply TrG.ite <;> intro _
        · exact TrG.fail
        · apply TrG.ite <;> intro _
          · exact TrG.fail
          · refine TrG.alloc (k := xc) (by omega) ?_
            refine TrG.weaken (c := 0) ?_ (Nat.zero_le _)
            refine TrG.bind (tr_decXDs _ tis xc d4 _ (next1 [])) ?_
            intro ⟨xs, d5⟩
            exact TrG.sliceRest xs data
  intro n hn
  have h2 := (h1.andPost (post_newInlinedExtraDataFromData data)) n hn
  cases hmn : newInlinedExtraDataFromData data n with
  | ok a n' => rw [hmn] at h2; exact ⟨h2.1.1, h2.2⟩
  | error e n' => rw [hmn] at h2; exact h2
  | panic => trivial

/-! ### map data slabs -/

theorem trl_mapDataContent (id : SlabID) (h : SlabHead) (extra : Option MapExtra) (next : SlabID)
    (xs : List XD) (hxs : XDWf xs) (data : Bytes) :
    TrL B data.length (LeB B) (mapDataContent id h extra next xs data) := by
  unfold mapDataContent
  apply TrL.decPhase
  refine TrG.bind ((trAll B data.length xs hxs _).2.2.2.2.2.2.1 0 (Dec.new data) id.addr []) ?_
  intro ⟨els, d1⟩
  dsimp only
  apply TrG.ite <;> intro _
  · exact TrG.fail
  · apply TrG.ite <;> intro _
    · exact TrG.fail
    · exact TrG.pureLe

theorem trl_newMapDataSlabFromDataV0 (id : SlabID) (h : SlabHead) (data : Bytes) :
    TrL B data.length (LeB B) (newMapDataSlabFromDataV0 id h data) := by
  unfold newMapDataSlabFromDataV0
  apply TrL.ite <;> intro _
  · refine TrL.bindRest (trl_newMapExtraDataFromData data) ?_
    intro x rest _
    dsimp only
    apply TrL.ite <;> intro _
    · exact TrL.fail
    · refine TrL.sliceFrom ?_
      exact trl_mapDataContent id h (some x) SlabID.undef [] xdwf_nil _
  · apply TrL.ite <;> intro _
    · exact TrL.fail
    · refine TrL.noalloc (noAlloc_newSlabIDFromRawBytes data) ?_
      intro next
      refine TrL.sliceFrom ?_
      exact trl_mapDataContent id h none next [] xdwf_nil _

theorem trl_mapDataV1AfterIED (id : SlabID) (h : SlabHead) (extra : Option MapExtra) (xs : List XD) (hxs : XDWf xs)
    (data : Bytes) : TrL B data.length (LeB B) (mapDataV1AfterIED id h extra xs data) := by
  unfold mapDataV1AfterIED
  apply TrL.ite <;> intro _
  · apply TrL.ite <;> intro _
    · exact TrL.fail
    · refine TrL.noalloc (noAlloc_newSlabIDFromRawBytes data) ?_
      intro next
      refine TrL.sliceFrom ?_
      exact trl_mapDataContent id h extra next xs hxs _
  · exact trl_mapDataContent id h extra SlabID.undef xs hxs data

theorem trl_mapDataV1AfterExtra (id : SlabID) (h : SlabHead) (extra : Option MapExtra) (data : Bytes) :
    TrL B data.length (LeB B) (mapDataV1AfterExtra id h extra data) := by
  unfold mapDataV1AfterExtra
  apply TrL.ite <;> intro _
  · refine TrL.bindRest (trl_newInlinedExtraDataFromData data) ?_
    intro xs rest hxs
    exact trl_mapDataV1AfterIED id h extra xs hxs rest
  · exact trl_mapDataV1AfterIED id h extra [] xdwf_nil data

theorem trl_newMapDataSlabFromDataV1 (id : SlabID) (h : SlabHead) (data : Bytes) :
    TrL B data.length (LeB B) (newMapDataSlabFromDataV1 id h data) := by
  unfold newMapDataSlabFromDataV1
  apply TrL.ite <;> intro _
  · refine TrL.bindRest (trl_newMapExtraDataFromData data) ?_
    intro x rest _
    exact trl_mapDataV1AfterExtra id h (some x) rest
  · exact trl_mapDataV1AfterExtra id h none data

theorem trl_newMapDataSlabFromData (id : SlabID) (data : Bytes) :
    TrL B data.length (LeB B) (newMapDataSlabFromData id data) := by
  unfold newMapDataSlabFromData
  apply TrL.ite <;> intro _
  · exact TrL.fail
  · refine TrL.noalloc (NoAlloc.sliceTo _ _) ?_
    intro hb
    refine TrL.noalloc (noAlloc_newHeadFromData hb) ?_
    intro h
    apply TrL.ite <;> intro _
    · exact TrL.fail
    · refine TrL.sliceFrom ?_
      apply TrL.ite <;> intro _
      · exact trl_newMapDataSlabFromDataV0 id h _
      · apply TrL.ite <;> intro _
        · exact trl_newMapDataSlabFromDataV1 id h _
        · exact TrL.fail

/-! ### map index slabs -/

theorem noAlloc_mapMetaLoopV0 (data : Bytes) : ∀ (n offset : Nat), NoAlloc (mapMetaLoopV0 data n offset)
  | 0, _ => by unfold mapMetaLoopV0; exact NoAlloc.pure _
  | n + 1, offset => by
    unfold mapMetaLoopV0
    refine NoAlloc.bind (NoAlloc.sliceFrom _ _) ?_
    intro b
    refine NoAlloc.bind (noAlloc_newSlabIDFromRawBytes b) ?_
    intro slabID
    refine NoAlloc.bind (NoAlloc.sliceFrom _ _) ?_
    intro fb
    refine NoAlloc.bind (NoAlloc.be64 fb) ?_
    intro firstKey
    refine NoAlloc.bind (NoAlloc.sliceFrom _ _) ?_
    intro sb
    refine NoAlloc.bind (NoAlloc.be32 sb) ?_
    intro size
    refine NoAlloc.bind (noAlloc_mapMetaLoopV0 data n _) ?_
    intro hs
    exact NoAlloc.pure _

theorem noAlloc_mapMetaLoopV1 (data : Bytes) (addr : Nat) : ∀ (n offset : Nat), NoAlloc (mapMetaLoopV1 data addr n offset)
  | 0, _ => by unfold mapMetaLoopV1; exact NoAlloc.pure _
  | n + 1, offset => by
    unfold mapMetaLoopV1
    refine NoAlloc.bind (NoAlloc.sliceFrom _ _) ?_
    intro ib
    refine NoAlloc.bind (NoAlloc.sliceFrom _ _) ?_
    intro fb
    refine NoAlloc.bind (NoAlloc.be64 fb) ?_
    intro firstKey
    refine NoAlloc.bind (NoAlloc.sliceFrom _ _) ?_
    intro sb
    refine NoAlloc.bind (NoAlloc.be16 sb) ?_
    intro size
    refine NoAlloc.bind (noAlloc_mapMetaLoopV1 data addr n _) ?_
    intro hs
    exact NoAlloc.pure _

theorem trl_mapMetaV0AfterExtra (id : SlabID) (extra : Option MapExtra) (data : Bytes) :
    TrL B data.length (LeB B) (mapMetaV0AfterExtra id extra data) := by
  unfold mapMetaV0AfterExtra
  apply TrL.ite <;> intro _
  · exact TrL.fail
  · refine TrL.noalloc (NoAlloc.be16 data) ?_
    intro chc
    refine TrL.sliceFrom ?_
    apply TrL.ite <;> intro hlen
    · exact TrL.fail
    · refine TrL.alloc ?_ ?_
      · simp only [newMapMetaDataSlabFromDataV0_mapSlabHeaderSizeV0] at hlen; omega
      · refine TrL.noalloc (noAlloc_mapMetaLoopV0 _ chc 0) ?_
        intro hs
        exact TrL.pureLe

theorem trl_newMapMetaDataSlabFromDataV0 (id : SlabID) (h : SlabHead) (data : Bytes) :
    TrL B data.length (LeB B) (newMapMetaDataSlabFromDataV0 id h data) := by
  unfold newMapMetaDataSlabFromDataV0
  apply TrL.ite <;> intro _
  · refine TrL.bindRest (trl_newMapExtraDataFromData data) ?_
    intro x rest _
    dsimp only
    apply TrL.ite <;> intro _
    · exact TrL.fail
    · refine TrL.sliceFrom ?_
      exact trl_mapMetaV0AfterExtra id (some x) _
  · exact trl_mapMetaV0AfterExtra id none data

theorem trl_mapMetaV1AfterExtra (id : SlabID) (extra : Option MapExtra) (data : Bytes) :
    TrL B data.length (LeB B) (mapMetaV1AfterExtra id extra data) := by
  unfold mapMetaV1AfterExtra
  apply TrL.ite <;> intro _
  · exact TrL.fail
  · refine TrL.noalloc (NoAlloc.sliceFrom data 0) ?_
    intro ab
    refine TrL.noalloc (NoAlloc.sliceFrom data _) ?_
    intro cb
    refine TrL.noalloc (NoAlloc.be16 cb) ?_
    intro chc
    intro n hn
    unfold sliceFrom
    by_cases hk : SlabAddressLength + newMapMetaDataSlabFromDataV1_arrayHeaderSize ≤ data.length
    · simp only [hk, ↓reduceIte, DM.pure_bind]
      revert n
      show TrL B data.length (LeB B) _
      apply TrL.ite <;> intro hlen
      · exact TrL.fail
      · refine TrL.alloc ?_ ?_
        · simp only [mapSlabHeaderSize, List.length_drop] at hlen; omega
        · refine TrL.noalloc (noAlloc_mapMetaLoopV1 _ _ chc _) ?_
          intro hs
          exact TrL.pureLe
    · simp only [hk, ↓reduceIte]
      trivial

theorem trl_newMapMetaDataSlabFromDataV1 (id : SlabID) (h : SlabHead) (data : Bytes) :
    TrL B data.length (LeB B) (newMapMetaDataSlabFromDataV1 id h data) := by
  unfold newMapMetaDataSlabFromDataV1
  apply TrL.ite <;> intro _
  · refine TrL.bindRest (trl_newMapExtraDataFromData data) ?_
    intro x rest _
    exact trl_mapMetaV1AfterExtra id (some x) rest
  · exact trl_mapMetaV1AfterExtra id none data

theorem trl_newMapMetaDataSlabFromData (id : SlabID) (data : Bytes) :
    TrL B data.length (LeB B) (newMapMetaDataSlabFromData id data) := by
  unfold newMapMetaDataSlabFromData
  apply TrL.ite <;> intro _
  · exact TrL.fail
  · refine TrL.noalloc (NoAlloc.sliceTo _ _) ?_
    intro hb
    refine TrL.noalloc (noAlloc_newHeadFromData hb) ?_
    intro h
    apply TrL.ite <;> intro _
    · exact TrL.fail
    · refine TrL.sliceFrom ?_
      apply TrL.ite <;> intro _
      · exact trl_newMapMetaDataSlabFromDataV0 id h _
      · apply TrL.ite <;> intro _
        · exact trl_newMapMetaDataSlabFromDataV1 id h _
        · exact TrL.fail

/-! ### array data slabs with general elements -/

theorem trl_arrDataContentG (id : SlabID) (isRoot : Bool) (ty : Option TyInfo) (next : SlabID) (checkEOF : Bool)
    (xs : List XD) (hxs : XDWf xs) (data : Bytes) :
    TrL B data.length (LeB B) (arrDataContentG id isRoot ty next checkEOF xs data) := by
  unfold arrDataContentG
  apply TrL.ite <;> intro _
  · exact TrL.fail
  · apply TrL.decPhase
    refine TrG.arrayHead ?_
    intro ec d1
    dsimp only
    apply TrG.ite <;> intro _
    · exact TrG.fail
    · refine TrG.alloc (k := ec) (by omega) ?_
      refine TrG.weaken (c := 0) ?_ (Nat.zero_le _)
      refine TrG.bind ((trAll B data.length xs hxs _).2.1 ec 0 d1 id.addr _ _ (next1 [])) ?_
      intro ⟨es, sz, d2⟩
      dsimp only
      apply TrG.ite <;> intro _
      · exact TrG.fail
      · exact TrG.pureLe

theorem trl_newArrayDataSlabFromDataV0G (id : SlabID) (h : SlabHead) (data : Bytes) :
    TrL B data.length (LeB B) (newArrayDataSlabFromDataV0G id h data) := by
  unfold newArrayDataSlabFromDataV0G
  apply TrL.ite <;> intro _
  · refine TrL.bindRest (TrL.ofSafeRest (safe_newArrayExtraDataFromData data)) ?_
    intro x rest _
    dsimp only
    apply TrL.ite <;> intro _
    · exact TrL.fail
    · refine TrL.sliceFrom ?_
      exact trl_arrDataContentG id true (some x) SlabID.undef false [] xdwf_nil _
  · apply TrL.ite <;> intro _
    · exact TrL.fail
    · refine TrL.noalloc (noAlloc_newSlabIDFromRawBytes data) ?_
      intro next
      refine TrL.sliceFrom ?_
      exact trl_arrDataContentG id false none next false [] xdwf_nil _

theorem trl_arrDataV1AfterIEDG (id : SlabID) (h : SlabHead) (ty : Option TyInfo) (xs : List XD) (hxs : XDWf xs)
    (data : Bytes) : TrL B data.length (LeB B) (arrDataV1AfterIEDG id h ty xs data) := by
  unfold arrDataV1AfterIEDG
  apply TrL.ite <;> intro _
  · refine TrL.noalloc (noAlloc_newSlabIDFromRawBytes data) ?_
    intro next
    refine TrL.sliceFrom ?_
    exact trl_arrDataContentG id h.isRoot ty next true xs hxs _
  · exact trl_arrDataContentG id h.isRoot ty SlabID.undef true xs hxs data

theorem trl_arrDataV1AfterExtraG (id : SlabID) (h : SlabHead) (ty : Option TyInfo) (data : Bytes) :
    TrL B data.length (LeB B) (arrDataV1AfterExtraG id h ty data) := by
  unfold arrDataV1AfterExtraG
  apply TrL.ite <;> intro _
  · refine TrL.bindRest (trl_newInlinedExtraDataFromData data) ?_
    intro xs rest hxs
    exact trl_arrDataV1AfterIEDG id h ty xs hxs rest
  · exact trl_arrDataV1AfterIEDG id h ty [] xdwf_nil data

theorem trl_newArrayDataSlabFromDataV1G (id : SlabID) (h : SlabHead) (data : Bytes) :
    TrL B data.length (LeB B) (newArrayDataSlabFromDataV1G id h data) := by
  unfold newArrayDataSlabFromDataV1G
  apply TrL.ite <;> intro _
  · refine TrL.bindRest (TrL.ofSafeRest (safe_newArrayExtraDataFromData data)) ?_
    intro x rest _
    exact trl_arrDataV1AfterExtraG id h (some x) rest
  · exact trl_arrDataV1AfterExtraG id h none data

theorem trl_newArrayDataSlabFromDataG (id : SlabID) (data : Bytes) :
    TrL B data.length (LeB B) (newArrayDataSlabFromDataG id data) := by
  unfold newArrayDataSlabFromDataG
  apply TrL.ite <;> intro _
  · exact TrL.fail
  · refine TrL.noalloc (NoAlloc.sliceTo _ _) ?_
    intro hb
    refine TrL.noalloc (noAlloc_newHeadFromData hb) ?_
    intro h
    apply TrL.ite <;> intro _
    · exact TrL.fail
    · refine TrL.sliceFrom ?_
      apply TrL.ite <;> intro _
      · exact trl_newArrayDataSlabFromDataV0G id h _
      · apply TrL.ite <;> intro _
        · exact trl_newArrayDataSlabFromDataV1G id h _
        · exact TrL.fail

/-! ### `DecodeSlab` -/

theorem trl_decodeSlabGen (id : SlabID) (data : Bytes) :
    TrL B data.length (LeB B) (decodeSlabGen id data) := by
  unfold decodeSlabGen
  apply TrL.ite <;> intro _
  · exact TrL.fail
  · refine TrL.noalloc (NoAlloc.sliceTo _ _) ?_
    intro hb
    refine TrL.noalloc (noAlloc_newHeadFromData hb) ?_
    intro h
    split
    · split
      · exact trl_newArrayDataSlabFromDataG id data
      · exact TrL.ofSafe (safe_newArrayMetaDataSlabFromData id data) (by omega)
      · exact TrL.fail
    · split
      · exact trl_newMapDataSlabFromData id data
      · exact trl_newMapMetaDataSlabFromData id data
      · exact trl_newMapDataSlabFromData id data
      · exact TrL.fail
    · refine TrL.sliceFrom ?_
      apply TrL.decPhase
      refine TrG.bind ((trAll B _ [] xdwf_nil _).1 0 (Dec.new _) id.addr []) ?_
      intro ⟨s, d1⟩
      exact TrG.pureLe
    · exact TrL.fail

/-- every `make` of `DecodeSlab` is paid for by input bytes: at most two slots per byte -/
theorem decodeSlab_alloc_le (id : SlabID) (data : Bytes) (n : Nat) :
    match decodeSlab id data n with
    | .ok _ n' => n' ≤ n + 2 * data.length
    | .error _ n' => n' ≤ n + 2 * data.length
    | .panic => True := by
  have hflat := safe_decodeSlabFlat id data n
  have hgen := trl_decodeSlabGen (B := n + 2 * data.length) id data n (Nat.le_refl _)
  unfold decodeSlab
  cases hf : decodeSlabFlat id data n with
  | ok s n' =>
    rw [hf] at hflat
    show n' ≤ _
    omega
  | panic => trivial
  | error e n' =>
    rw [hf] at hflat
    cases e with
    | unsupported =>
      show (match decodeSlabGen id data n with
            | .ok _ n' => n' ≤ n + 2 * data.length
            | .error _ n' => n' ≤ n + 2 * data.length
            | .panic => True)
      cases hg : decodeSlabGen id data n with
      | ok s n2 => rw [hg] at hgen; exact hgen
      | error e2 n2 => rw [hg] at hgen; exact hgen
      | panic => trivial
    | decoding =>
      show n' ≤ _
      omega

end Atree.Codec
