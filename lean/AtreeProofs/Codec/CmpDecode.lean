import AtreeProofs.Codec.CmpAccept
/-
  The mutually recursive decoders of the second part run on encoder output WITH inlined arrays and
  maps, the compact form included: the result is `normSt s xs0`, the bytes consumed are the bytes
  the encoder wrote.
-/
namespace Atree.Codec
open Atree Atree.Gen DM

theorem Ext.of_stateC {a b xs : List XD} (h : StateOKC a b) (he : Ext b xs) : Ext a xs := by
  obtain ⟨⟨t1, rfl⟩, _⟩ := h
  obtain ⟨t2, rfl⟩ := he
  exact ⟨t1 ++ t2, by simp⟩

/-! ### lengths of the decoded lists -/

theorem length_normSts : ∀ (l : List Stor) (xs : List XD), (normSts l xs).length = l.length
  | [], xs => by simp only [normSts]
  | s :: ss, xs => by simp only [normSts, List.length_cons, length_normSts ss]

theorem length_normMElList : ∀ (l : List MEl) (xs : List XD), (normMElList l xs).length = l.length
  | [], xs => by simp only [normMElList]
  | s :: ss, xs => by simp only [normMElList, List.length_cons, length_normMElList ss]

theorem length_normSElList : ∀ (l : List SEl) (xs : List XD), (normSElList l xs).length = l.length
  | [], xs => by simp only [normSElList]
  | s :: ss, xs => by simp only [normSElList, List.length_cons, length_normSElList ss]

theorem length_normVals (elems : List MEl) : ∀ (ks : List (Nat × Nat)) (xs : List XD),
    (normVals elems ks xs).length = ks.length
  | [], xs => rfl
  | k :: ks, xs => by simp only [normVals, List.length_cons, length_normVals elems ks]

/-! ### every encoding has at least one byte -/

theorem length_encSt_pos : (s : Stor) → (xs : List XD) → s.RTI → 1 ≤ (encSt s xs).1.length
  | .val size pay, xs, h => by
    simp only [encSt]
    rw [elem_size_eq_enc_len _ h]
    unfold Stor.RTI validElem at h
    exact h.1
  | .ref id, xs, _ => by simp only [encSt]; rw [length_encodeRef]; simp only [slabIDStorableSize]; omega
  | .some s, xs, _ => by simp [encSt, tagHead8]
  | .arr ty idx es, xs, _ => by simp [encSt, length_inlinedHead]; omega
  | .map x idx (.hkey level hkeys elems), xs, _ => by
    simp only [encSt]
    split <;> simp [length_inlinedHead] <;> omega
  | .map x idx (.single level elems), xs, _ => by simp [encSt, length_inlinedHead]; omega

theorem length_encFind_pos : ∀ (k : Nat × Nat) (l : List MEl) (xs : List XD), rtiMElList l → hasKey k l →
    1 ≤ (encFind k l xs).1.length
  | k, [], xs, _, hk => by cases hk
  | k, .single (.mk (.val s p) v) :: rest, xs, h, hk => by
    simp only [encFind]
    split
    · exact length_encSt_pos v xs h.1.2.1
    · rename_i hne
      have hk' : hasKey k rest := by
        simp only [hasKey] at hk
        rcases hk with hk | hk
        · exact absurd hk hne
        · exact hk
      exact length_encFind_pos k rest xs h.2 hk'
  | k, .single (.mk (.ref _) _) :: rest, xs, h, hk => by simp only [encFind]; exact length_encFind_pos k rest xs h.2 hk
  | k, .single (.mk (.some _) _) :: rest, xs, h, hk => by simp only [encFind]; exact length_encFind_pos k rest xs h.2 hk
  | k, .single (.mk (.arr _ _ _) _) :: rest, xs, h, hk => by simp only [encFind]; exact length_encFind_pos k rest xs h.2 hk
  | k, .single (.mk (.map _ _ _) _) :: rest, xs, h, hk => by simp only [encFind]; exact length_encFind_pos k rest xs h.2 hk
  | k, .inl _ :: rest, xs, h, hk => by simp only [encFind]; exact length_encFind_pos k rest xs h.2 hk
  | k, .ext _ :: rest, xs, h, hk => by simp only [encFind]; exact length_encFind_pos k rest xs h.2 hk

theorem length_encSEl_pos (e : SEl) (xs : List XD) : 1 ≤ (encSEl e xs).1.length := by
  cases e; simp [encSEl]

theorem length_encMEl_pos (e : MEl) (xs : List XD) : 1 ≤ (encMEl e xs).1.length := by
  cases e with
  | single e => simp only [encMEl]; exact length_encSEl_pos e xs
  | inl els => simp [encMEl, tagHead8]
  | ext id => simp [encMEl, tagHead8]

/-- the size bound of one element of a valid list -/
theorem keyElemSize_le : ∀ (k : Nat × Nat) (l : List MEl), rtiMElList l → hasKey k l →
    singleElementPrefixSize + k.1 + valSizeOf k l ≤ maxUint32
  | k, [], _, hk => by cases hk
  | k, .single (.mk (.val s p) v) :: rest, h, hk => by
    simp only [valSizeOf]
    split
    · rename_i heq
      have := h.1.2.2
      simp only [Stor.size] at this
      rw [← heq]
      exact this
    · rename_i hne
      have hk' : hasKey k rest := by
        simp only [hasKey] at hk
        rcases hk with hk | hk
        · exact absurd hk hne
        · exact hk
      exact keyElemSize_le k rest h.2 hk'
  | k, .single (.mk (.ref _) _) :: rest, h, hk => by simp only [valSizeOf]; exact keyElemSize_le k rest h.2 hk
  | k, .single (.mk (.some _) _) :: rest, h, hk => by simp only [valSizeOf]; exact keyElemSize_le k rest h.2 hk
  | k, .single (.mk (.arr _ _ _) _) :: rest, h, hk => by simp only [valSizeOf]; exact keyElemSize_le k rest h.2 hk
  | k, .single (.mk (.map _ _ _) _) :: rest, h, hk => by simp only [valSizeOf]; exact keyElemSize_le k rest h.2 hk
  | k, .inl _ :: rest, h, hk => by simp only [valSizeOf]; exact keyElemSize_le k rest h.2 hk
  | k, .ext _ :: rest, h, hk => by simp only [valSizeOf]; exact keyElemSize_le k rest h.2 hk

/-! ### the value loop of `DecodeInlinedCompactMapStorable` -/

theorem decCVals_encC (elems : List MEl) (hes : rtiMElList elems) (cdepth addr : Nat) (xs : List XD)
    (hfind : ∀ k, hasKey k elems → ∀ (fuel : Nat) (rest : Bytes) (R c : Nat) (xs0 : List XD) (n : Nat),
      XOKC xs0 → Ext (encFind k elems xs0).2 xs → (encFind k elems xs0).1.length ≤ fuel →
      (encFind k elems xs0).1.length ≤ R →
      decStG fuel cdepth { data := (encFind k elems xs0).1 ++ rest, remaining := R, consumed := c } addr xs n
        = .ok (normFind k elems xs0, { data := rest, remaining := R - (encFind k elems xs0).1.length, consumed := c + (encFind k elems xs0).1.length }) (n + (normFind k elems xs0).allocsI))
    (hsz : ∀ k xs0, (normFind k elems xs0).size = valSizeOf k elems) :
    ∀ (ks : List (Nat × Nat)), (∀ k ∈ ks, hasKey k elems) → ∀ (fuel : Nat) (rest : Bytes) (R c : Nat)
      (xs0 : List XD) (size0 n : Nat), XOKC xs0 → Ext (encVals elems ks xs0).2 xs →
      (encVals elems ks xs0).1.length + 1 ≤ fuel → (encVals elems ks xs0).1.length ≤ R →
      size0 + (ks.map (keyElemSize elems)).sum ≤ maxUint32 →
      decCVals fuel ks cdepth { data := (encVals elems ks xs0).1 ++ rest, remaining := R, consumed := c } addr xs size0 n
        = .ok (normVals elems ks xs0, size0 + (ks.map (keyElemSize elems)).sum,
            { data := rest, remaining := R - (encVals elems ks xs0).1.length, consumed := c + (encVals elems ks xs0).1.length }) (n + allocsIMElList (normVals elems ks xs0))
  | [], _, fuel, rest, R, c, xs0, size0, n, _, _, _, _, _ => by
    cases fuel <;> simp [decCVals, encVals, normVals, allocsIMElList, DM.pure_apply]
  | k :: ks, hks, fuel, rest, R, c, xs0, size0, n, hx, he, hf, hR, hS => by
    have hk : hasKey k elems := hks k (List.mem_cons_self ..)
    have hks' : ∀ k' ∈ ks, hasKey k' elems := fun k' hk' => hks k' (List.mem_cons_of_mem _ hk')
    have hL : (encVals elems (k :: ks) xs0).1.length
        = (encFind k elems xs0).1.length + (encVals elems ks (encFind k elems xs0).2).1.length := by
      simp only [encVals, List.length_append]
    rw [hL] at hf hR ⊢
    have hpos := length_encFind_pos k elems xs0 hes hk
    obtain ⟨f, rfl⟩ : ∃ f, fuel = f + 1 := ⟨fuel - 1, by omega⟩
    simp only [encVals] at he
    have hst1 := encFind_stateC k elems xs0 hes hx
    have hst2 := encVals_stateC elems hes ks (encFind k elems xs0).2 hst1.2
    have hkb := keyElemSize_le k elems hes hk
    simp only [List.map_cons, List.sum_cons, keyElemSize, digestSize, singleElementPrefixSize] at hS hkb
    have ih1 := hfind k hk f ((encVals elems ks (encFind k elems xs0).2).1 ++ rest) R c xs0 n hx
      (Ext.of_stateC hst2 he) (by omega) (by omega)
    have ih2 := decCVals_encC elems hes cdepth addr xs hfind hsz ks hks' f rest
      (R - (encFind k elems xs0).1.length) (c + (encFind k elems xs0).1.length) (encFind k elems xs0).2
      (size0 + digestSize + (singleElementPrefixSize + k.1 + valSizeOf k elems))
      (n + (normFind k elems xs0).allocsI) hst1.2 he (by omega) (by omega)
      (by simp only [digestSize, singleElementPrefixSize]; omega)
    simp only [encVals, List.append_assoc, decCVals]
    rw [DM.bind_ok ih1]
    simp only [hsz]
    have hle1 : ¬ (singleElementPrefixSize + k.1 + valSizeOf k elems > maxUint32) := by
      simp only [singleElementPrefixSize]; omega
    have hle2 : ¬ (size0 + digestSize + (singleElementPrefixSize + k.1 + valSizeOf k elems) > maxUint32) := by
      simp only [singleElementPrefixSize, digestSize]; omega
    simp only [hle1, hle2, ↓reduceIte]
    rw [DM.bind_ok ih2]
    simp only [DM.pure_apply, normVals, allocsIMElList, MEl.allocsI, SEl.allocsI, Stor.allocsI, List.map_cons,
      List.sum_cons, keyElemSize, Nat.zero_add]
    have e1 : size0 + digestSize + (singleElementPrefixSize + k.1 + valSizeOf k elems) +
          (ks.map (keyElemSize elems)).sum
        = size0 + (digestSize + (singleElementPrefixSize + k.1 + valSizeOf k elems) + (ks.map (keyElemSize elems)).sum) := by
      omega
    have e2 : R - (encFind k elems xs0).1.length - (encVals elems ks (encFind k elems xs0).2).1.length
        = R - ((encFind k elems xs0).1.length + (encVals elems ks (encFind k elems xs0).2).1.length) := by omega
    have e3 : c + (encFind k elems xs0).1.length + (encVals elems ks (encFind k elems xs0).2).1.length
        = c + ((encFind k elems xs0).1.length + (encVals elems ks (encFind k elems xs0).2).1.length) := by omega
    have e4 : n + (normFind k elems xs0).allocsI + allocsIMElList (normVals elems ks (encFind k elems xs0).2)
        = n + ((normFind k elems xs0).allocsI + allocsIMElList (normVals elems ks (encFind k elems xs0).2)) := by omega
    rw [e1, e2, e3, e4]

/-! ### `decodeStorable` on the three inlined forms, given what the body decoder does -/

theorem decStG_inlArr_wrap (f' depth : Nat) (rest body : Bytes) (R c addr : Nat) (xs : List XD) (n : Nat)
    (ty : TyInfo) (i idx cnt : Nat) (esR : List Stor) (szR Lb n' : Nat)
    (hgx : xs[i]? = some (.arr ty)) (hi : i < 256) (hidx : idx < 2 ^ 64) (hcnt : cnt < 65536)
    (hd : depth ≤ maxDecodeDepth) (hR : 17 + Lb ≤ R)
    (hdec : decStsG f' cnt (depth + 1) { data := body ++ rest, remaining := R - 17, consumed := c + 17 } addr xs
        inlinedArrayDataSlabPrefixSize (n + cnt)
          = .ok (esR, szR, { data := rest, remaining := R - 17 - Lb, consumed := c + 17 + Lb }) n') :
    decStG (f' + 2) depth { data := inlinedHead CBORTagInlinedArray i ++ encodeIdx idx ++ arrayHead16 cnt ++ body ++ rest, remaining := R, consumed := c } addr xs n
      = .ok (.arr ty idx esR, { data := rest, remaining := R - (17 + Lb), consumed := c + (17 + Lb) }) n' := by
  simp only [inlinedHead, List.cons_append, List.nil_append, List.append_assoc]
  unfold decStG
  rw [if_neg (by omega)]
  rw [nextType_pos (by simp only; omega) rfl]
  simp only [DM.liftOpt_some, DM.pure_bind, ctypeOf_d8]
  rw [decodeTagNumber_tag8 _ _ _ _ (by omega)]
  simp only [DM.liftOpt_some, DM.pure_bind, CBORTagInlinedArray, ↓reduceIte]
  unfold decInlArr
  have h83 : (0x83 : Nat) :: 0x18 :: i % 256 :: (encodeIdx idx ++ (arrayHead16 cnt ++ (body ++ rest)))
      = head 4 3 ++ (0x18 :: i % 256 :: (encodeIdx idx ++ (arrayHead16 cnt ++ (body ++ rest)))) := by simp [head]
  have h3 : headLen 3 = 1 := rfl
  rw [h83, decodeArrayHead_head (by omega) _ (R - 2) (c + 2) (by rw [h3]; omega)]
  simp only [DM.liftOpt_some, DM.pure_bind, DecodeInlinedArrayStorable_inlinedArrayDataSlabArrayCount, ne_eq,
    not_true_eq_false, ↓reduceIte, h3]
  rw [decodeUint64_fixed8 (Nat.mod_lt _ (by omega)) _ (R - 2 - 1) (c + 2 + 1) (by omega)]
  simp only [DM.liftOpt_some, DM.pure_bind, Nat.mod_eq_of_lt hi]
  rw [getXD_some hgx]
  simp only [DM.pure_bind]
  rw [decodeIdx_enc hidx _ (R - 2 - 1 - 2) (c + 2 + 1 + 2) (by omega)]
  simp only [DM.pure_bind]
  rw [decodeArrayHead_head16 hcnt _ (R - 2 - 1 - 2 - 9) (c + 2 + 1 + 2 + 9) (by omega)]
  simp only [DM.liftOpt_some, DM.pure_bind]
  have hc1 : ¬ (cnt > maxUint32) := by simp only [maxUint32]; omega
  simp only [hc1, ↓reduceIte]
  rw [DM.alloc_bind]
  simp only
  have hR' : R - 2 - 1 - 2 - 9 - 3 = R - 17 := by omega
  have hc' : c + 2 + 1 + 2 + 9 + 3 = c + 17 := by omega
  rw [hR', hc', DM.bind_ok hdec]
  simp only [DM.pure_apply]
  have e1 : R - 17 - Lb = R - (17 + Lb) := by omega
  have e2 : c + 17 + Lb = c + (17 + Lb) := by omega
  rw [e1, e2]

theorem decStG_inlMap_wrap (f' depth : Nat) (rest body : Bytes) (R c addr : Nat) (xs : List XD) (n : Nat)
    (mx : MapExtra) (i idx : Nat) (elsR : MEls) (Lb n' : Nat)
    (hgx : xs[i]? = some (.map mx)) (hi : i < 256) (hidx : idx < 2 ^ 64)
    (hd : depth ≤ maxDecodeDepth) (hR : 14 + Lb ≤ R) (hsz : inlinedMapDataSlabPrefixSize + elsR.size ≤ maxUint32)
    (hdec : decMElsG f' (depth + 1) { data := body ++ rest, remaining := R - 14, consumed := c + 14 } addr xs n
          = .ok (elsR, { data := rest, remaining := R - 14 - Lb, consumed := c + 14 + Lb }) n') :
    decStG (f' + 2) depth { data := inlinedHead CBORTagInlinedMap i ++ encodeIdx idx ++ body ++ rest, remaining := R, consumed := c } addr xs n
      = .ok (.map mx idx elsR, { data := rest, remaining := R - (14 + Lb), consumed := c + (14 + Lb) }) n' := by
  simp only [inlinedHead, List.cons_append, List.nil_append, List.append_assoc]
  unfold decStG
  rw [if_neg (by omega)]
  rw [nextType_pos (by simp only; omega) rfl]
  simp only [DM.liftOpt_some, DM.pure_bind, ctypeOf_d8]
  rw [decodeTagNumber_tag8 _ _ _ _ (by omega)]
  simp only [DM.liftOpt_some, DM.pure_bind, CBORTagInlinedArray, CBORTagInlinedMap,
    show ¬ ((251 : Nat) = 250) by decide, ↓reduceIte]
  unfold decInlMap
  have h83 : (0x83 : Nat) :: 0x18 :: i % 256 :: (encodeIdx idx ++ (body ++ rest))
      = head 4 3 ++ (0x18 :: i % 256 :: (encodeIdx idx ++ (body ++ rest))) := by simp [head]
  have h3 : headLen 3 = 1 := rfl
  rw [h83, decodeArrayHead_head (by omega) _ (R - 2) (c + 2) (by rw [h3]; omega)]
  simp only [DM.liftOpt_some, DM.pure_bind, DecodeInlinedMapStorable_inlinedMapDataSlabArrayCount, ne_eq,
    not_true_eq_false, ↓reduceIte, h3]
  rw [decodeUint64_fixed8 (Nat.mod_lt _ (by omega)) _ (R - 2 - 1) (c + 2 + 1) (by omega)]
  simp only [DM.liftOpt_some, DM.pure_bind, Nat.mod_eq_of_lt hi]
  rw [getXD_some hgx]
  simp only [DM.pure_bind]
  rw [decodeIdx_enc hidx _ (R - 2 - 1 - 2) (c + 2 + 1 + 2) (by omega)]
  simp only [DM.pure_bind]
  have hR' : R - 2 - 1 - 2 - 9 = R - 14 := by omega
  have hc' : c + 2 + 1 + 2 + 9 = c + 14 := by omega
  rw [hR', hc', DM.bind_ok hdec]
  have hc1 : ¬ (inlinedMapDataSlabPrefixSize + elsR.size > maxUint32) := by omega
  have e1 : R - 14 - Lb = R - (14 + Lb) := by omega
  have e2 : c + 14 + Lb = c + (14 + Lb) := by omega
  rw [e1, e2]
  simp only [hc1, ↓reduceIte]
  rfl

theorem decStG_inlCMap_wrap (f' depth : Nat) (rest body : Bytes) (R c addr : Nat) (xs : List XD) (n : Nat)
    (mx : MapExtra) (hk : List Nat) (cached : List (Nat × Nat)) (i idx : Nat) (valsR : List MEl) (szR Lb n' : Nat)
    (hgx : xs[i]? = some (.cmap mx hk cached)) (hi : i < 256) (hidx : idx < 2 ^ 64) (hcl : cached.length < 2 ^ 64)
    (hd : depth ≤ maxDecodeDepth) (hR : 14 + headLen cached.length + Lb ≤ R)
    (hsz : inlinedMapDataSlabPrefixSize + szR ≤ maxUint32)
    (hdec : decCVals f' cached (depth + 1)
        { data := body ++ rest, remaining := R - 14 - headLen cached.length, consumed := c + 14 + headLen cached.length }
        addr xs hkeyElementsPrefixSize (n + hk.length + cached.length)
          = .ok (valsR, szR, { data := rest, remaining := R - 14 - headLen cached.length - Lb, consumed := c + 14 + headLen cached.length + Lb }) n') :
    decStG (f' + 2) depth { data := inlinedHead CBORTagInlinedCompactMap i ++ encodeIdx idx ++ head 4 cached.length ++ body ++ rest, remaining := R, consumed := c } addr xs n
      = .ok (.map mx idx (.hkey 0 hk valsR), { data := rest, remaining := R - (14 + headLen cached.length + Lb), consumed := c + (14 + headLen cached.length + Lb) }) n' := by
  simp only [inlinedHead, List.cons_append, List.nil_append, List.append_assoc]
  unfold decStG
  rw [if_neg (by omega)]
  rw [nextType_pos (by simp only; omega) rfl]
  simp only [DM.liftOpt_some, DM.pure_bind, ctypeOf_d8]
  rw [decodeTagNumber_tag8 _ _ _ _ (by omega)]
  simp only [DM.liftOpt_some, DM.pure_bind, CBORTagInlinedArray, CBORTagInlinedMap, CBORTagInlinedCompactMap,
    show ¬ ((252 : Nat) = 250) by decide, show ¬ ((252 : Nat) = 251) by decide, ↓reduceIte]
  unfold decInlCMap
  have h83 : (0x83 : Nat) :: 0x18 :: i % 256 :: (encodeIdx idx ++ (head 4 cached.length ++ (body ++ rest)))
      = head 4 3 ++ (0x18 :: i % 256 :: (encodeIdx idx ++ (head 4 cached.length ++ (body ++ rest)))) := by simp [head]
  have h3 : headLen 3 = 1 := rfl
  rw [h83, decodeArrayHead_head (by omega) _ (R - 2) (c + 2) (by rw [h3]; omega)]
  simp only [DM.liftOpt_some, DM.pure_bind, DecodeInlinedCompactMapStorable_inlinedMapDataSlabArrayCount, ne_eq,
    not_true_eq_false, ↓reduceIte, h3]
  rw [decodeUint64_fixed8 (Nat.mod_lt _ (by omega)) _ (R - 2 - 1) (c + 2 + 1) (by omega)]
  simp only [DM.liftOpt_some, DM.pure_bind, Nat.mod_eq_of_lt hi]
  rw [getXD_some hgx]
  simp only [DM.pure_bind]
  rw [decodeIdx_enc hidx _ (R - 2 - 1 - 2) (c + 2 + 1 + 2) (by omega)]
  simp only [DM.pure_bind]
  rw [decodeArrayHead_head hcl _ (R - 2 - 1 - 2 - 9) (c + 2 + 1 + 2 + 9) (by omega)]
  simp only [DM.liftOpt_some, DM.pure_bind, ne_eq, not_true_eq_false, ↓reduceIte]
  rw [DM.alloc_bind, DM.alloc_bind]
  simp only
  have hR' : R - 2 - 1 - 2 - 9 - headLen cached.length = R - 14 - headLen cached.length := by omega
  have hc' : c + 2 + 1 + 2 + 9 + headLen cached.length = c + 14 + headLen cached.length := by omega
  rw [hR', hc', DM.bind_ok hdec]
  have hc1 : ¬ (inlinedMapDataSlabPrefixSize + szR > maxUint32) := by omega
  have e1 : R - 14 - headLen cached.length - Lb = R - (14 + headLen cached.length + Lb) := by omega
  have e2 : c + 14 + headLen cached.length + Lb = c + (14 + headLen cached.length + Lb) := by omega
  rw [e1, e2]
  simp only [hc1, ↓reduceIte]
  rfl

theorem headLen_ge_one (n : Nat) : 1 ≤ headLen n := by
  unfold headLen; repeat' split
  all_goals omega

/-! ### the decoders on encoder output -/

mutual
theorem decStG_encC : (s : Stor) → s.RTI → s.nodupKeys → ∀ (fuel depth : Nat) (rest : Bytes) (R c addr : Nat)
    (xs0 xs : List XD) (n : Nat), XOKC xs0 → Ext (encSt s xs0).2 xs → xs.length ≤ 256 →
    (encSt s xs0).1.length ≤ fuel → depth + s.dneed ≤ maxDecodeDepth → (encSt s xs0).1.length ≤ R →
    decStG fuel depth { data := (encSt s xs0).1 ++ rest, remaining := R, consumed := c } addr xs n
      = .ok (normSt s xs0, { data := rest, remaining := R - (encSt s xs0).1.length, consumed := c + (encSt s xs0).1.length })
          (n + (normSt s xs0).allocsI)
  | .val size pay, h, _, fuel, depth, rest, R, c, addr, xs0, xs, n, _, _, _, hf, hd, hR => by
    have hL : (encSt (.val size pay) xs0).1.length = size := by
      simp only [encSt]; exact elem_size_eq_enc_len _ h
    rw [hL] at hf hR ⊢
    have hpos : 1 ≤ size := by unfold Stor.RTI validElem at h; exact h.1
    obtain ⟨f, rfl⟩ : ∃ f, fuel = f + 1 := ⟨fuel - 1, by omega⟩
    simp only [encSt, normSt]
    have := decStG_elem { size := size, pay := .val pay } h f depth rest R c addr xs
      (by simp only [Stor.dneed] at hd; omega) hR
    simp only [Stor.ofElem] at this
    rw [this]; rfl
  | .ref id, h, _, fuel, depth, rest, R, c, addr, xs0, xs, n, _, _, _, hf, hd, hR => by
    have hL : (encSt (.ref id) xs0).1.length = slabIDStorableSize := by
      simp only [encSt]; exact length_encodeRef id
    rw [hL] at hf hR ⊢
    have hpos : 1 ≤ slabIDStorableSize := by decide
    obtain ⟨f, rfl⟩ : ∃ f, fuel = f + 1 := ⟨fuel - 1, by omega⟩
    simp only [encSt, normSt]
    have := decStG_elem { size := slabIDStorableSize, pay := .ref id } ⟨rfl, h.1, h.2⟩ f depth rest R c addr xs
      (by simp only [Stor.dneed] at hd; omega) hR
    simp only [Stor.ofElem] at this
    rw [this]; rfl
  | .some s, h, nd, fuel, depth, rest, R, c, addr, xs0, xs, n, hx, he, h256, hf, hd, hR => by
    have hL : (encSt (.some s) xs0).1.length = 2 + (encSt s xs0).1.length := by
      simp only [encSt, tagHead8, List.length_append, List.length_cons, List.length_nil] <;> omega
    rw [hL] at hf hR ⊢
    obtain ⟨f, rfl⟩ : ∃ f, fuel = f + 1 := ⟨fuel - 1, by omega⟩
    simp only [Stor.dneed] at hd
    simp only [encSt] at he
    have ih := decStG_encC s h nd f (depth + 1) rest (R - 2) (c + 2) addr xs0 xs n hx he h256
      (by omega) (by omega) (by omega)
    simp only [encSt, normSt, tagHead8, List.cons_append, List.nil_append]
    unfold decStG
    rw [if_neg (by omega)]
    rw [nextType_pos (by simp only; omega) rfl]
    simp only [DM.liftOpt_some, DM.pure_bind, ctypeOf_d8]
    rw [decodeTagNumber_tag8 _ _ _ _ (by omega)]
    simp only [DM.liftOpt_some, DM.pure_bind, CBORTagSlabID, CBORTagInlinedArray, CBORTagInlinedMap,
      CBORTagInlinedCompactMap, tagGapValue, tagSomeValue]
    simp only [show ¬ ((165 : Nat) = 250) by decide, show ¬ ((165 : Nat) = 251) by decide,
      show ¬ ((165 : Nat) = 252) by decide, show ¬ ((165 : Nat) = 255) by decide,
      show ¬ ((165 : Nat) = 161) by decide, ↓reduceIte]
    rw [DM.bind_ok ih]
    simp only [DM.pure_apply, Stor.allocsI]
    have e1 : R - 2 - (encSt s xs0).1.length = R - (2 + (encSt s xs0).1.length) := by omega
    have e2 : c + 2 + (encSt s xs0).1.length = c + (2 + (encSt s xs0).1.length) := by omega
    rw [e1, e2]
  | .arr ty idx es, h, nd, fuel, depth, rest, R, c, addr, xs0, xs, n, hx, he, h256, hf, hd, hR => by
    obtain ⟨hty, hidx, hlen, hes, hsz⟩ := h
    obtain ⟨ha, hxa, hget⟩ := addArrayXD_specC xs0 ty hx hty
    have hL : (encSt (.arr ty idx es) xs0).1.length = 17 + (encSts es (addArrayXD xs0 ty).2).1.length := by
      simp only [encSt, List.length_append, length_inlinedHead, length_encodeIdx, length_arrayHead16] <;> omega
    rw [hL] at hf hR ⊢
    obtain ⟨f', rfl⟩ : ∃ f', fuel = f' + 2 := ⟨fuel - 2, by omega⟩
    simp only [Stor.dneed] at hd
    simp only [encSt] at he
    have hst := encSts_stateC es (addArrayXD xs0 ty).2 hes hxa
    have hgx : xs[(addArrayXD xs0 ty).1]? = some (.arr ty) :=
      (Ext.of_stateC (StateOKC.refl hxa) (Ext.of_stateC hst he)).get hget
    have hi256 : (addArrayXD xs0 ty).1 < 256 := by have := lt_length_of_get hgx; omega
    have ih := decStsG_encC es hes nd f' (depth + 1) rest (R - 17) (c + 17) addr (addArrayXD xs0 ty).2 xs
      inlinedArrayDataSlabPrefixSize (n + es.length) hxa he h256 (by omega) (by omega) (by omega) hsz
    have hw := decStG_inlArr_wrap f' depth rest (encSts es (addArrayXD xs0 ty).2).1 R c addr xs n ty
      (addArrayXD xs0 ty).1 idx es.length (normSts es (addArrayXD xs0 ty).2) _
      (encSts es (addArrayXD xs0 ty).2).1.length _ hgx hi256 hidx hlen (by omega) hR ih
    simp only [encSt, normSt, Stor.allocsI, length_normSts]
    have e3 : n + es.length + allocsISts (normSts es (addArrayXD xs0 ty).2)
        = n + (es.length + allocsISts (normSts es (addArrayXD xs0 ty).2)) := by omega
    rw [hw, e3]
  | .map x idx (.hkey level hkeys elems), h, nd, fuel, depth, rest, R, c, addr, xs0, xs, n, hx, he, h256, hf, hd, hR => by
    obtain ⟨hmx, hidx, hels, hsz⟩ := h
    cases hc : compactKeys x elems with
    | none =>
      obtain ⟨ha, hxa, hget⟩ := addMapXD_specC xs0 x hx hmx
      have hE : encSt (.map x idx (.hkey level hkeys elems)) xs0 =
          (inlinedHead CBORTagInlinedMap (addMapXD xs0 x).1 ++ encodeIdx idx ++
            (encMEls (.hkey level hkeys elems) (addMapXD xs0 x).2).1,
           (encMEls (.hkey level hkeys elems) (addMapXD xs0 x).2).2) := by
        simp only [encSt, hc, encMEls, List.append_assoc]
      have hL : (encSt (.map x idx (.hkey level hkeys elems)) xs0).1.length
          = 14 + (encMEls (.hkey level hkeys elems) (addMapXD xs0 x).2).1.length := by
        rw [hE]; simp only [List.length_append, length_inlinedHead, length_encodeIdx] <;> omega
      rw [hL] at hf hR ⊢
      rw [hE] at he ⊢
      simp only at he ⊢
      obtain ⟨f', rfl⟩ : ∃ f', fuel = f' + 2 := ⟨fuel - 2, by omega⟩
      simp only [Stor.dneed] at hd
      have hst := encMEls_stateC (.hkey level hkeys elems) (addMapXD xs0 x).2 hels hxa
      have hgx : xs[(addMapXD xs0 x).1]? = some (.map x) :=
        (Ext.of_stateC (StateOKC.refl hxa) (Ext.of_stateC hst he)).get hget
      have hi256 : (addMapXD xs0 x).1 < 256 := by have := lt_length_of_get hgx; omega
      have ih := decMElsG_encC (.hkey level hkeys elems) hels nd.2 f' (depth + 1) rest (R - 14) (c + 14) addr
        (addMapXD xs0 x).2 xs n hxa he h256 (by omega) (by omega) (by omega)
      have hw := decStG_inlMap_wrap f' depth rest (encMEls (.hkey level hkeys elems) (addMapXD xs0 x).2).1 R c addr xs n
        x (addMapXD xs0 x).1 idx (normMEls (.hkey level hkeys elems) (addMapXD xs0 x).2)
        (encMEls (.hkey level hkeys elems) (addMapXD xs0 x).2).1.length _ hgx hi256 hidx (by omega) hR
        (by have hnd' : (MEls.hkey level hkeys elems).nodupKeys := nd.2
            rw [size_normMEls _ _ hnd']; exact hsz) ih
      simp only [normMEls] at hw
      simp only [normSt, hc, Stor.allocsI]
      rw [hw]
    | some keys =>
      have hm := compactKeys_mapM hc
      have hnd := nd.1 keys hc
      have hperm := addCompactXD_perm xs0 x hkeys keys
      have hes : rtiMElList elems := hels.2.2.2.2.1
      have hv := cmap_validC hmx hels hc
      obtain ⟨ha, hxa, x', hk', hget⟩ := addCompactXD_specC xs0 x hkeys keys hx hv
      have hE : encSt (.map x idx (.hkey level hkeys elems)) xs0 =
          (inlinedHead CBORTagInlinedCompactMap (addCompactXD xs0 x hkeys keys).1 ++ encodeIdx idx ++
            head 4 (addCompactXD xs0 x hkeys keys).2.1.length ++
            (encVals elems (addCompactXD xs0 x hkeys keys).2.1 (addCompactXD xs0 x hkeys keys).2.2).1,
           (encVals elems (addCompactXD xs0 x hkeys keys).2.1 (addCompactXD xs0 x hkeys keys).2.2).2) := by
        simp only [encSt, hc, foldl_encFind_eq, List.nil_append]
      have hN : normSt (.map x idx (.hkey level hkeys elems)) xs0 =
          .map x' idx (.hkey 0 hk'
            (normVals elems (addCompactXD xs0 x hkeys keys).2.1 (addCompactXD xs0 x hkeys keys).2.2)) := by
        simp only [normSt, hc, foldl_normFind_eq, List.nil_append, hget]
      have hL : (encSt (.map x idx (.hkey level hkeys elems)) xs0).1.length
          = 14 + headLen (addCompactXD xs0 x hkeys keys).2.1.length +
            (encVals elems (addCompactXD xs0 x hkeys keys).2.1 (addCompactXD xs0 x hkeys keys).2.2).1.length := by
        rw [hE]; simp only [List.length_append, length_inlinedHead, length_encodeIdx, length_head] <;> omega
      rw [hL] at hf hR ⊢
      rw [hN]
      rw [hE] at he ⊢
      simp only at he ⊢
      have hh1 := headLen_ge_one (addCompactXD xs0 x hkeys keys).2.1.length
      obtain ⟨f', rfl⟩ : ∃ f', fuel = f' + 2 := ⟨fuel - 2, by omega⟩
      simp only [Stor.dneed, MEls.dneed] at hd
      have hst := encVals_stateC elems hes (addCompactXD xs0 x hkeys keys).2.1 (addCompactXD xs0 x hkeys keys).2.2 hxa
      have hgx : xs[(addCompactXD xs0 x hkeys keys).1]? = some (.cmap x' hk' (addCompactXD xs0 x hkeys keys).2.1) :=
        (Ext.of_stateC (StateOKC.refl hxa) (Ext.of_stateC hst he)).get hget
      have hi256 : (addCompactXD xs0 x hkeys keys).1 < 256 := by have := lt_length_of_get hgx; omega
      have hent : (XD.cmap x' hk' (addCompactXD xs0 x hkeys keys).2.1).validC :=
        hxa _ (List.mem_of_getElem? hget)
      obtain ⟨_, hklen, hk8192, _, _, _⟩ := hent
      have hcached : ∀ k ∈ (addCompactXD xs0 x hkeys keys).2.1, hasKey k elems :=
        fun k hk => hasKey_of_mapM elems keys hm k (hperm.subset hk)
      have hfind : ∀ k, hasKey k elems → ∀ (fuel : Nat) (rest : Bytes) (R c : Nat) (xs0' : List XD) (n : Nat),
          XOKC xs0' → Ext (encFind k elems xs0').2 xs → (encFind k elems xs0').1.length ≤ fuel →
          (encFind k elems xs0').1.length ≤ R →
          decStG fuel (depth + 1) { data := (encFind k elems xs0').1 ++ rest, remaining := R, consumed := c } addr xs n
            = .ok (normFind k elems xs0', { data := rest, remaining := R - (encFind k elems xs0').1.length, consumed := c + (encFind k elems xs0').1.length })
                (n + (normFind k elems xs0').allocsI) :=
        fun k hk fuel rest R c xs0' n hx' he' hf' hR' =>
          decFind_encC k elems hes nd.2 hk fuel (depth + 1) rest R c addr xs0' xs n hx' he' h256 hf' (by omega) hR'
      have hszf : ∀ k xs0', (normFind k elems xs0').size = valSizeOf k elems :=
        fun k xs0' => size_normFind k elems xs0' nd.2
      have hsum : ((addCompactXD xs0 x hkeys keys).2.1.map (keyElemSize elems)).sum = sizeMEl elems := by
        rw [(List.Perm.map _ hperm).sum_nat]
        exact sum_keyElemSize elems keys hm hnd
      have hels6 := hels.2.2.2.2.2
      simp only [MEls.size] at hsz
      have ihv := decCVals_encC elems hes (depth + 1) addr xs hfind hszf (addCompactXD xs0 x hkeys keys).2.1 hcached f' rest
        (R - 14 - headLen (addCompactXD xs0 x hkeys keys).2.1.length)
        (c + 14 + headLen (addCompactXD xs0 x hkeys keys).2.1.length) (addCompactXD xs0 x hkeys keys).2.2
        hkeyElementsPrefixSize (n + hk'.length + (addCompactXD xs0 x hkeys keys).2.1.length) hxa he
        (by omega) (by omega) (by rw [hsum]; exact hels6)
      have hw := decStG_inlCMap_wrap f' depth rest
        (encVals elems (addCompactXD xs0 x hkeys keys).2.1 (addCompactXD xs0 x hkeys keys).2.2).1 R c addr xs n
        x' hk' (addCompactXD xs0 x hkeys keys).2.1 (addCompactXD xs0 x hkeys keys).1 idx _ _
        (encVals elems (addCompactXD xs0 x hkeys keys).2.1 (addCompactXD xs0 x hkeys keys).2.2).1.length _
        hgx hi256 hidx (by omega) (by omega) hR (by rw [hsum]; exact hsz) ihv
      simp only [Stor.allocsI, MEls.allocsI, length_normVals]
      have e3 : n + hk'.length + (addCompactXD xs0 x hkeys keys).2.1.length +
            allocsIMElList (normVals elems (addCompactXD xs0 x hkeys keys).2.1 (addCompactXD xs0 x hkeys keys).2.2)
          = n + (hk'.length + (addCompactXD xs0 x hkeys keys).2.1.length +
            allocsIMElList (normVals elems (addCompactXD xs0 x hkeys keys).2.1 (addCompactXD xs0 x hkeys keys).2.2)) := by
        omega
      rw [hw, e3]
  | .map x idx (.single level elems), h, nd, fuel, depth, rest, R, c, addr, xs0, xs, n, hx, he, h256, hf, hd, hR => by
    obtain ⟨hmx, hidx, hels, hsz⟩ := h
    obtain ⟨ha, hxa, hget⟩ := addMapXD_specC xs0 x hx hmx
    have hE : encSt (.map x idx (.single level elems)) xs0 =
        (inlinedHead CBORTagInlinedMap (addMapXD xs0 x).1 ++ encodeIdx idx ++
          (encMEls (.single level elems) (addMapXD xs0 x).2).1,
         (encMEls (.single level elems) (addMapXD xs0 x).2).2) := by
      simp only [encSt, encMEls, List.append_assoc]
    have hL : (encSt (.map x idx (.single level elems)) xs0).1.length
        = 14 + (encMEls (.single level elems) (addMapXD xs0 x).2).1.length := by
      rw [hE]; simp only [List.length_append, length_inlinedHead, length_encodeIdx] <;> omega
    rw [hL] at hf hR ⊢
    rw [hE] at he ⊢
    simp only at he ⊢
    obtain ⟨f', rfl⟩ : ∃ f', fuel = f' + 2 := ⟨fuel - 2, by omega⟩
    simp only [Stor.dneed] at hd
    have hst := encMEls_stateC (.single level elems) (addMapXD xs0 x).2 hels hxa
    have hgx : xs[(addMapXD xs0 x).1]? = some (.map x) :=
      (Ext.of_stateC (StateOKC.refl hxa) (Ext.of_stateC hst he)).get hget
    have hi256 : (addMapXD xs0 x).1 < 256 := by have := lt_length_of_get hgx; omega
    have ih := decMElsG_encC (.single level elems) hels nd f' (depth + 1) rest (R - 14) (c + 14) addr
      (addMapXD xs0 x).2 xs n hxa he h256 (by omega) (by omega) (by omega)
    have hw := decStG_inlMap_wrap f' depth rest (encMEls (.single level elems) (addMapXD xs0 x).2).1 R c addr xs n
      x (addMapXD xs0 x).1 idx (normMEls (.single level elems) (addMapXD xs0 x).2)
      (encMEls (.single level elems) (addMapXD xs0 x).2).1.length _ hgx hi256 hidx (by omega) hR
      (by have hnd' : (MEls.single level elems).nodupKeys := nd
          rw [size_normMEls _ _ hnd']; exact hsz) ih
    simp only [normMEls] at hw
    simp only [normSt, Stor.allocsI]
    rw [hw]
theorem decStsG_encC : (l : List Stor) → rtiSts l → nodupKeysSts l → ∀ (fuel cdepth : Nat) (rest : Bytes)
    (R c addr : Nat) (xs0 xs : List XD) (size0 n : Nat), XOKC xs0 → Ext (encSts l xs0).2 xs → xs.length ≤ 256 →
    (encSts l xs0).1.length + 1 ≤ fuel → cdepth + dneedSts l ≤ maxDecodeDepth → (encSts l xs0).1.length ≤ R →
    size0 + sizeSts l ≤ maxUint32 →
    decStsG fuel l.length cdepth { data := (encSts l xs0).1 ++ rest, remaining := R, consumed := c } addr xs size0 n
      = .ok (normSts l xs0, size0 + sizeSts l,
          { data := rest, remaining := R - (encSts l xs0).1.length, consumed := c + (encSts l xs0).1.length })
          (n + allocsISts (normSts l xs0))
  | [], _, _, fuel, cdepth, rest, R, c, addr, xs0, xs, size0, n, _, _, _, _, _, _, _ => by
    cases fuel <;> simp [decStsG, encSts, normSts, sizeSts, allocsISts, DM.pure_apply]
  | s :: ss, h, nd, fuel, cdepth, rest, R, c, addr, xs0, xs, size0, n, hx, he, h256, hf, hd, hR, hS => by
    have hL : (encSts (s :: ss) xs0).1.length = (encSt s xs0).1.length + (encSts ss (encSt s xs0).2).1.length := by
      simp only [encSts, List.length_append]
    rw [hL] at hf hR ⊢
    have hpos := length_encSt_pos s xs0 h.1
    obtain ⟨f, rfl⟩ : ∃ f, fuel = f + 1 := ⟨fuel - 1, by omega⟩
    simp only [dneedSts, sizeSts] at hd hS
    simp only [encSts] at he
    have hst1 := encSt_stateC s xs0 h.1 hx
    have hst2 := encSts_stateC ss (encSt s xs0).2 h.2 hst1.2
    have ih1 := decStG_encC s h.1 nd.1 f cdepth ((encSts ss (encSt s xs0).2).1 ++ rest) R c addr xs0 xs n hx
      (Ext.of_stateC hst2 he) h256 (by omega) (by omega) (by omega)
    have ih2 := decStsG_encC ss h.2 nd.2 f cdepth rest (R - (encSt s xs0).1.length) (c + (encSt s xs0).1.length) addr
      (encSt s xs0).2 xs (size0 + s.size) (n + (normSt s xs0).allocsI) hst1.2 he h256 (by omega) (by omega) (by omega)
      (by omega)
    simp only [encSts, normSts, List.length_cons, List.append_assoc, decStsG]
    rw [DM.bind_ok ih1]
    simp only [size_normSt s xs0 nd.1]
    have hle : ¬ (size0 + s.size > maxUint32) := by omega
    simp only [hle, ↓reduceIte]
    rw [DM.bind_ok ih2]
    simp only [DM.pure_apply, sizeSts, allocsISts]
    have e1 : size0 + s.size + sizeSts ss = size0 + (s.size + sizeSts ss) := by omega
    have e2 : R - (encSt s xs0).1.length - (encSts ss (encSt s xs0).2).1.length
        = R - ((encSt s xs0).1.length + (encSts ss (encSt s xs0).2).1.length) := by omega
    have e3 : c + (encSt s xs0).1.length + (encSts ss (encSt s xs0).2).1.length
        = c + ((encSt s xs0).1.length + (encSts ss (encSt s xs0).2).1.length) := by omega
    have e4 : n + (normSt s xs0).allocsI + allocsISts (normSts ss (encSt s xs0).2)
        = n + ((normSt s xs0).allocsI + allocsISts (normSts ss (encSt s xs0).2)) := by omega
    rw [e1, e2, e3, e4]
theorem decFind_encC : (k : Nat × Nat) → (l : List MEl) → rtiMElList l → nodupKeysMElList l → hasKey k l →
    ∀ (fuel depth : Nat) (rest : Bytes) (R c addr : Nat) (xs0 xs : List XD) (n : Nat), XOKC xs0 →
    Ext (encFind k l xs0).2 xs → xs.length ≤ 256 → (encFind k l xs0).1.length ≤ fuel →
    depth + dneedMElList l ≤ maxDecodeDepth → (encFind k l xs0).1.length ≤ R →
    decStG fuel depth { data := (encFind k l xs0).1 ++ rest, remaining := R, consumed := c } addr xs n
      = .ok (normFind k l xs0, { data := rest, remaining := R - (encFind k l xs0).1.length, consumed := c + (encFind k l xs0).1.length })
          (n + (normFind k l xs0).allocsI)
  | k, [], _, _, hk, _, _, _, _, _, _, _, _, _, _, _, _, _, _, _ => by cases hk
  | k, .single (.mk (.val s p) v) :: rest', h, nd, hk, fuel, depth, rest, R, c, addr, xs0, xs, n, hx, he, h256, hf, hd, hR => by
    simp only [dneedMElList, MEl.dneed, SEl.dneed] at hd
    by_cases hkk : (s, p) = k
    · simp only [encFind, normFind, if_pos hkk] at he hf hR ⊢
      exact decStG_encC v h.1.2.1 nd.1.2 fuel depth rest R c addr xs0 xs n hx he h256 hf (by omega) hR
    · have hk' : hasKey k rest' := by
        simp only [hasKey] at hk
        rcases hk with hk | hk
        · exact absurd hk hkk
        · exact hk
      simp only [encFind, normFind, if_neg hkk] at he hf hR ⊢
      exact decFind_encC k rest' h.2 nd.2 hk' fuel depth rest R c addr xs0 xs n hx he h256 hf (by omega) hR
  | k, .single (.mk (.ref _) _) :: rest', h, nd, hk, fuel, depth, rest, R, c, addr, xs0, xs, n, hx, he, h256, hf, hd, hR => by
    simp only [dneedMElList] at hd
    simp only [encFind, normFind] at he hf hR ⊢
    exact decFind_encC k rest' h.2 nd.2 hk fuel depth rest R c addr xs0 xs n hx he h256 hf (by omega) hR
  | k, .single (.mk (.some _) _) :: rest', h, nd, hk, fuel, depth, rest, R, c, addr, xs0, xs, n, hx, he, h256, hf, hd, hR => by
    simp only [dneedMElList] at hd
    simp only [encFind, normFind] at he hf hR ⊢
    exact decFind_encC k rest' h.2 nd.2 hk fuel depth rest R c addr xs0 xs n hx he h256 hf (by omega) hR
  | k, .single (.mk (.arr _ _ _) _) :: rest', h, nd, hk, fuel, depth, rest, R, c, addr, xs0, xs, n, hx, he, h256, hf, hd, hR => by
    simp only [dneedMElList] at hd
    simp only [encFind, normFind] at he hf hR ⊢
    exact decFind_encC k rest' h.2 nd.2 hk fuel depth rest R c addr xs0 xs n hx he h256 hf (by omega) hR
  | k, .single (.mk (.map _ _ _) _) :: rest', h, nd, hk, fuel, depth, rest, R, c, addr, xs0, xs, n, hx, he, h256, hf, hd, hR => by
    simp only [dneedMElList] at hd
    simp only [encFind, normFind] at he hf hR ⊢
    exact decFind_encC k rest' h.2 nd.2 hk fuel depth rest R c addr xs0 xs n hx he h256 hf (by omega) hR
  | k, .inl _ :: rest', h, nd, hk, fuel, depth, rest, R, c, addr, xs0, xs, n, hx, he, h256, hf, hd, hR => by
    simp only [dneedMElList] at hd
    simp only [encFind, normFind] at he hf hR ⊢
    exact decFind_encC k rest' h.2 nd.2 hk fuel depth rest R c addr xs0 xs n hx he h256 hf (by omega) hR
  | k, .ext _ :: rest', h, nd, hk, fuel, depth, rest, R, c, addr, xs0, xs, n, hx, he, h256, hf, hd, hR => by
    simp only [dneedMElList] at hd
    simp only [encFind, normFind] at he hf hR ⊢
    exact decFind_encC k rest' h.2 nd.2 hk fuel depth rest R c addr xs0 xs n hx he h256 hf (by omega) hR
theorem decSElG_encC : (e : SEl) → e.RTI → e.nodupKeys → ∀ (fuel cdepth : Nat) (rest : Bytes) (R c addr : Nat)
    (xs0 xs : List XD) (n : Nat), XOKC xs0 → Ext (encSEl e xs0).2 xs → xs.length ≤ 256 →
    (encSEl e xs0).1.length ≤ fuel → cdepth + e.dneed ≤ maxDecodeDepth → (encSEl e xs0).1.length ≤ R →
    decSElG fuel cdepth { data := (encSEl e xs0).1 ++ rest, remaining := R, consumed := c } addr xs n
      = .ok (normSEl e xs0, { data := rest, remaining := R - (encSEl e xs0).1.length, consumed := c + (encSEl e xs0).1.length })
          (n + (normSEl e xs0).allocsI)
  | .mk k v, h, nd, fuel, cdepth, rest, R, c, addr, xs0, xs, n, hx, he, h256, hf, hd, hR => by
    obtain ⟨hk, hv, hsz⟩ := h
    have hL : (encSEl (.mk k v) xs0).1.length = 1 + (encSt k xs0).1.length + (encSt v (encSt k xs0).2).1.length := by
      simp only [encSEl, List.length_cons, List.length_append] <;> omega
    rw [hL] at hf hR ⊢
    obtain ⟨f, rfl⟩ : ∃ f, fuel = f + 1 := ⟨fuel - 1, by omega⟩
    simp only [SEl.dneed] at hd
    simp only [singleElementPrefixSize] at hsz
    simp only [encSEl] at he
    have hst1 := encSt_stateC k xs0 hk hx
    have hst2 := encSt_stateC v (encSt k xs0).2 hv hst1.2
    have ih1 := decStG_encC k hk nd.1 f cdepth ((encSt v (encSt k xs0).2).1 ++ rest) (R - 1) (c + 1) addr xs0 xs n hx
      (Ext.of_stateC hst2 he) h256 (by omega) (by omega) (by omega)
    have ih2 := decStG_encC v hv nd.2 f cdepth rest (R - 1 - (encSt k xs0).1.length) (c + 1 + (encSt k xs0).1.length) addr
      (encSt k xs0).2 xs (n + (normSt k xs0).allocsI) hst1.2 he h256 (by omega) (by omega) (by omega)
    simp only [encSEl, normSEl, List.cons_append, List.append_assoc]
    unfold decSElG
    have h82 : (0x82 : Nat) :: ((encSt k xs0).1 ++ ((encSt v (encSt k xs0).2).1 ++ rest))
        = head 4 2 ++ ((encSt k xs0).1 ++ ((encSt v (encSt k xs0).2).1 ++ rest)) := by simp [head]
    have hh2 : headLen 2 = 1 := rfl
    rw [h82, decodeArrayHead_head (by omega) _ _ _ (by rw [hh2]; omega)]
    simp only [DM.liftOpt_some, DM.pure_bind, ne_eq, not_true_eq_false, ↓reduceIte, hh2]
    rw [DM.bind_ok ih1]
    simp only
    rw [DM.bind_ok ih2]
    simp only [size_normSt k xs0 nd.1, size_normSt v _ nd.2]
    have hle : ¬ (singleElementPrefixSize + k.size + v.size > maxUint32) := by
      simp only [singleElementPrefixSize]; omega
    simp only [hle, ↓reduceIte, SEl.allocsI, DM.pure_apply]
    have e1 : R - 1 - (encSt k xs0).1.length - (encSt v (encSt k xs0).2).1.length
        = R - (1 + (encSt k xs0).1.length + (encSt v (encSt k xs0).2).1.length) := by omega
    have e2 : c + 1 + (encSt k xs0).1.length + (encSt v (encSt k xs0).2).1.length
        = c + (1 + (encSt k xs0).1.length + (encSt v (encSt k xs0).2).1.length) := by omega
    have e3 : n + (normSt k xs0).allocsI + (normSt v (encSt k xs0).2).allocsI
        = n + ((normSt k xs0).allocsI + (normSt v (encSt k xs0).2).allocsI) := by omega
    rw [e1, e2, e3]
theorem decMElG_encC : (e : MEl) → e.RTI → e.nodupKeys → ∀ (fuel cdepth : Nat) (rest : Bytes) (R c addr : Nat)
    (xs0 xs : List XD) (n : Nat), XOKC xs0 → Ext (encMEl e xs0).2 xs → xs.length ≤ 256 →
    (encMEl e xs0).1.length + 1 ≤ fuel → cdepth + e.dneed ≤ maxDecodeDepth → (encMEl e xs0).1.length ≤ R →
    decMElG fuel cdepth { data := (encMEl e xs0).1 ++ rest, remaining := R, consumed := c } addr xs n
      = .ok (normMEl e xs0, { data := rest, remaining := R - (encMEl e xs0).1.length, consumed := c + (encMEl e xs0).1.length })
          (n + (normMEl e xs0).allocsI)
  | .single e, h, nd, fuel, cdepth, rest, R, c, addr, xs0, xs, n, hx, he, h256, hf, hd, hR => by
    obtain ⟨f, rfl⟩ : ∃ f, fuel = f + 1 := ⟨fuel - 1, by omega⟩
    simp only [MEl.dneed] at hd
    simp only [encMEl] at he hf hR ⊢
    have hspec := decSElG_encC e h nd f cdepth rest R c addr xs0 xs n hx he h256 (by omega) hd hR
    have hpos := length_encSEl_pos e xs0
    obtain ⟨k, v⟩ := e
    simp only [encSEl, List.cons_append] at hspec ⊢
    unfold decMElG
    rw [nextType_pos (by simp only [encSEl, List.length_cons] at hpos hR ⊢; omega) rfl]
    simp only [DM.liftOpt_some, DM.pure_bind, ctypeOf_82]
    rw [DM.bind_ok hspec]
    simp only [DM.pure_apply, normMEl, MEl.allocsI]
  | .inl els, h, nd, fuel, cdepth, rest, R, c, addr, xs0, xs, n, hx, he, h256, hf, hd, hR => by
    have hL : (encMEl (.inl els) xs0).1.length = 2 + (encMEls els xs0).1.length := by
      simp only [encMEl, tagHead8, List.length_append, List.length_cons, List.length_nil] <;> omega
    rw [hL] at hf hR ⊢
    obtain ⟨f, rfl⟩ : ∃ f, fuel = f + 1 := ⟨fuel - 1, by omega⟩
    simp only [MEl.dneed] at hd
    simp only [encMEl] at he
    have ih := decMElsG_encC els h nd f cdepth rest (R - 2) (c + 2) addr xs0 xs n hx he h256
      (by omega) (by omega) (by omega)
    simp only [encMEl, normMEl, tagHead8, List.cons_append, List.nil_append]
    unfold decMElG
    rw [nextType_pos (by simp only; omega) rfl]
    simp only [DM.liftOpt_some, DM.pure_bind, ctypeOf_d8]
    rw [decodeTagNumber_tag8 _ _ _ _ (by omega)]
    simp only [DM.liftOpt_some, DM.pure_bind, CBORTagInlineCollisionGroup, ↓reduceIte]
    rw [DM.bind_ok ih]
    simp only [DM.pure_apply, MEl.allocsI]
    have e1 : R - 2 - (encMEls els xs0).1.length = R - (2 + (encMEls els xs0).1.length) := by omega
    have e2 : c + 2 + (encMEls els xs0).1.length = c + (2 + (encMEls els xs0).1.length) := by omega
    rw [e1, e2]
  | .ext id, h, _, fuel, cdepth, rest, R, c, addr, xs0, xs, n, _, _, _, hf, hd, hR => by
    have hL : (encMEl (.ext id) xs0).1.length = 2 + slabIDStorableSize := by
      simp only [encMEl, tagHead8, List.length_append, List.length_cons, List.length_nil, length_encodeRef] <;> omega
    rw [hL] at hf hR ⊢
    obtain ⟨f', rfl⟩ : ∃ f', fuel = f' + 2 := ⟨fuel - 2, by omega⟩
    simp only [MEl.dneed] at hd
    have hspec := decStG_elem { size := slabIDStorableSize, pay := .ref id } ⟨rfl, h.1, h.2⟩ f' cdepth rest
      (R - 2) (c + 2) addr xs (by omega) (by simp only; omega)
    simp only [encMEl, normMEl, tagHead8, List.cons_append, List.nil_append]
    unfold decMElG
    rw [nextType_pos (by simp only; omega) rfl]
    simp only [DM.liftOpt_some, DM.pure_bind, ctypeOf_d8]
    rw [decodeTagNumber_tag8 _ _ _ _ (by omega)]
    simp only [DM.liftOpt_some, DM.pure_bind, CBORTagInlineCollisionGroup, CBORTagExternalCollisionGroup,
      show ¬ ((254 : Nat) = 253) by decide, ↓reduceIte]
    rw [hspec]
    simp only [DM.pure_bind, Stor.ofElem, DM.pure_apply, MEl.allocsI, Nat.add_zero]
    have e1 : R - 2 - slabIDStorableSize = R - (2 + slabIDStorableSize) := by omega
    have e2 : c + 2 + slabIDStorableSize = c + (2 + slabIDStorableSize) := by omega
    rw [e1, e2]
theorem decMElsG_encC : (els : MEls) → els.RTI → els.nodupKeys → ∀ (fuel cdepth : Nat) (rest : Bytes)
    (R c addr : Nat) (xs0 xs : List XD) (n : Nat), XOKC xs0 → Ext (encMEls els xs0).2 xs → xs.length ≤ 256 →
    (encMEls els xs0).1.length ≤ fuel → cdepth + els.dneed ≤ maxDecodeDepth → (encMEls els xs0).1.length ≤ R →
    decMElsG fuel cdepth { data := (encMEls els xs0).1 ++ rest, remaining := R, consumed := c } addr xs n
      = .ok (normMEls els xs0, { data := rest, remaining := R - (encMEls els xs0).1.length, consumed := c + (encMEls els xs0).1.length })
          (n + (normMEls els xs0).allocsI)
  | .hkey level hkeys es, h, nd, fuel, cdepth, rest, R, c, addr, xs0, xs, n, hx, he, h256, hf, hd, hR => by
    obtain ⟨hlev, hlen, h8192, hhk, hes, hsz⟩ := h
    have hL : (encMEls (.hkey level hkeys es) xs0).1.length = 8 + 8 * es.length + (encMElList es xs0).1.length := by
      simp only [encMEls, List.length_append, List.length_cons, List.length_nil, length_bytesHead16,
        length_encodeHkeys, length_arrayHead16] <;> omega
    rw [hL] at hf hR ⊢
    obtain ⟨f, rfl⟩ : ∃ f, fuel = f + 1 := ⟨fuel - 1, by omega⟩
    simp only [MEls.dneed] at hd
    simp only [encMEls] at he
    have ih := decMElListG_encC es hes nd f cdepth rest (R - 8 - 8 * es.length) (c + 8 + 8 * es.length) addr xs0 xs
      hkeyElementsPrefixSize (n + hkeys.length + es.length) hx he h256 (by omega) (by omega) (by omega) hsz
    have h3 : headLen 3 = 1 := rfl
    have hl1 := headLen_small hlev
    have hklen : (encodeHkeys hkeys).length = hkeys.length * 8 := by rw [length_encodeHkeys]; omega
    simp only [encMEls, normMEls, List.cons_append, List.nil_append, List.append_assoc]
    have hstart : (0x83 : Nat) :: level % 256 :: (bytesHead16 (hkeys.length * 8) ++ (encodeHkeys hkeys ++
          (arrayHead16 es.length ++ ((encMElList es xs0).1 ++ rest))))
        = head 4 3 ++ (head 0 level ++ (bytesHead16 (encodeHkeys hkeys).length ++ (encodeHkeys hkeys ++
          (arrayHead16 es.length ++ ((encMElList es xs0).1 ++ rest))))) := by
      rw [← level_head hlev, hklen]; simp [head]
    rw [hstart]
    unfold decMElsG
    rw [decodeArrayHead_head (by omega) _ R c (by rw [h3]; omega)]
    simp only [DM.liftOpt_some, DM.pure_bind, ne_eq, not_true_eq_false, ↓reduceIte, h3]
    rw [decodeUint64_head (by omega) _ (R - 1) (c + 1) (by rw [hl1]; omega)]
    simp only [DM.liftOpt_some, DM.pure_bind, hl1]
    rw [decodeBytes_head16 (by rw [hklen]; omega) _ (R - 1 - 1) (c + 1 + 1) (by rw [hklen]; omega)]
    simp only [DM.liftOpt_some, DM.pure_bind]
    have hmod : ¬ ((encodeHkeys hkeys).length % digestSize ≠ 0) := by
      rw [hklen]; simp [digestSize]
    have hdiv : (encodeHkeys hkeys).length / digestSize = hkeys.length := by
      rw [hklen]; simp [digestSize]
    simp only [hmod, ↓reduceIte, hdiv]
    rw [DM.alloc_bind]
    simp only
    have hdig : digestsOf hkeys.length (encodeHkeys hkeys) = hkeys := by
      have := digestsOf_encodeHkeys hkeys [] hhk
      simpa using this
    rw [hdig]
    rw [decodeArrayHead_head16 (by omega) _ _ _ (by rw [hklen]; omega)]
    simp only [DM.liftOpt_some, DM.pure_bind]
    have hc1 : ¬ (es.length > maxUint32) := by simp only [maxUint32]; omega
    have hc2 : ¬ (hkeys.length ≠ 0 ∧ hkeys.length ≠ es.length) := by omega
    have hc3 : ¬ (hkeys.length = 0 ∧ es.length > 0) := by omega
    simp only [hc1, hc2, hc3, ↓reduceIte]
    rw [DM.alloc_bind]
    simp only
    have hR' : R - 1 - 1 - (3 + (encodeHkeys hkeys).length) - 3 = R - 8 - 8 * es.length := by rw [hklen]; omega
    have hc' : c + 1 + 1 + (3 + (encodeHkeys hkeys).length) + 3 = c + 8 + 8 * es.length := by rw [hklen]; omega
    rw [hR', hc', DM.bind_ok ih]
    simp only [DM.pure_apply, MEls.allocsI, length_normMElList]
    have e1 : R - 8 - 8 * es.length - (encMElList es xs0).1.length = R - (8 + 8 * es.length + (encMElList es xs0).1.length) := by omega
    have e2 : c + 8 + 8 * es.length + (encMElList es xs0).1.length = c + (8 + 8 * es.length + (encMElList es xs0).1.length) := by omega
    have e3 : n + hkeys.length + es.length + allocsIMElList (normMElList es xs0)
        = n + (hkeys.length + es.length + allocsIMElList (normMElList es xs0)) := by omega
    rw [e1, e2, e3]
  | .single level es, h, nd, fuel, cdepth, rest, R, c, addr, xs0, xs, n, hx, he, h256, hf, hd, hR => by
    obtain ⟨hlev, hne, h64k, hes, hsz⟩ := h
    have hL : (encMEls (.single level es) xs0).1.length = 6 + (encSElList es xs0).1.length := by
      simp only [encMEls, List.length_append, List.length_cons, List.length_nil, length_arrayHead16] <;> omega
    rw [hL] at hf hR ⊢
    obtain ⟨f, rfl⟩ : ∃ f, fuel = f + 1 := ⟨fuel - 1, by omega⟩
    simp only [MEls.dneed] at hd
    simp only [encMEls] at he
    have ih := decSElsG_encC es hes nd f cdepth rest (R - 6) (c + 6) addr xs0 xs singleElementsPrefixSize
      (n + 0 + es.length) hx he h256 (by omega) (by omega) (by omega) hsz
    have h3 : headLen 3 = 1 := rfl
    have h0 : headLen 0 = 1 := rfl
    have hl1 := headLen_small hlev
    have hpos : 0 < es.length := List.length_pos_iff.2 hne
    simp only [encMEls, normMEls, List.cons_append, List.nil_append, List.append_assoc]
    have hstart : (0x83 : Nat) :: level % 256 :: 0x40 :: (arrayHead16 es.length ++ ((encSElList es xs0).1 ++ rest))
        = head 4 3 ++ (head 0 level ++ (head 2 0 ++ (([] : Bytes) ++
            (arrayHead16 es.length ++ ((encSElList es xs0).1 ++ rest))))) := by
      rw [← level_head hlev]; simp [head]
    rw [hstart]
    unfold decMElsG
    rw [decodeArrayHead_head (by omega) _ R c (by rw [h3]; omega)]
    simp only [DM.liftOpt_some, DM.pure_bind, ne_eq, not_true_eq_false, ↓reduceIte, h3]
    rw [decodeUint64_head (by omega) _ (R - 1) (c + 1) (by rw [hl1]; omega)]
    simp only [DM.liftOpt_some, DM.pure_bind, hl1]
    have hdb := decodeBytes_head (l := 0) (by omega) [] (arrayHead16 es.length ++ ((encSElList es xs0).1 ++ rest)) rfl
      (R - 1 - 1) (c + 1 + 1) (by rw [h0]; omega)
    rw [hdb]
    simp only [DM.liftOpt_some, DM.pure_bind, List.length_nil, h0, Nat.zero_mod, not_true_eq_false,
      ↓reduceIte, Nat.zero_div]
    rw [DM.alloc_bind]
    simp only [digestsOf]
    rw [decodeArrayHead_head16 (by omega) _ _ _ (by omega)]
    simp only [DM.liftOpt_some, DM.pure_bind]
    have hc1 : ¬ (es.length > maxUint32) := by simp only [maxUint32]; omega
    have hc3 : (0 : Nat) = 0 ∧ es.length > 0 := ⟨rfl, hpos⟩
    simp only [hc1, hc3, ↓reduceIte, and_self]
    rw [DM.alloc_bind]
    have hR' : R - 1 - 1 - (1 + 0) - 3 = R - 6 := by omega
    have hc' : c + 1 + 1 + (1 + 0) + 3 = c + 6 := by omega
    rw [hR', hc']
    have hfin : (decSElsG f es.length cdepth { data := (encSElList es xs0).1 ++ rest, remaining := R - 6, consumed := c + 6 }
        addr xs singleElementsPrefixSize >>= fun x => (pure (MEls.single level x.1, x.2.2) : DM (MEls × Dec)))
        (n + 0 + es.length) = .ok (MEls.single level (normSElList es xs0),
          { data := rest, remaining := R - 6 - (encSElList es xs0).1.length, consumed := c + 6 + (encSElList es xs0).1.length })
          (n + 0 + es.length + allocsISElList (normSElList es xs0)) := by
      rw [DM.bind_ok ih]; rfl
    simp only [MEls.allocsI, length_normSElList]
    have e1 : R - 6 - (encSElList es xs0).1.length = R - (6 + (encSElList es xs0).1.length) := by omega
    have e2 : c + 6 + (encSElList es xs0).1.length = c + (6 + (encSElList es xs0).1.length) := by omega
    have e3 : n + 0 + es.length + allocsISElList (normSElList es xs0)
        = n + (0 + es.length + allocsISElList (normSElList es xs0)) := by omega
    rw [e1, e2, e3] at hfin
    simpa using hfin
theorem decSElsG_encC : (l : List SEl) → rtiSElList l → nodupKeysSElList l → ∀ (fuel cdepth : Nat) (rest : Bytes)
    (R c addr : Nat) (xs0 xs : List XD) (size0 n : Nat), XOKC xs0 → Ext (encSElList l xs0).2 xs → xs.length ≤ 256 →
    (encSElList l xs0).1.length + 1 ≤ fuel → cdepth + dneedSElList l ≤ maxDecodeDepth →
    (encSElList l xs0).1.length ≤ R → size0 + sizeSEl l ≤ maxUint32 →
    decSElsG fuel l.length cdepth { data := (encSElList l xs0).1 ++ rest, remaining := R, consumed := c } addr xs size0 n
      = .ok (normSElList l xs0, size0 + sizeSEl l,
          { data := rest, remaining := R - (encSElList l xs0).1.length, consumed := c + (encSElList l xs0).1.length })
          (n + allocsISElList (normSElList l xs0))
  | [], _, _, fuel, cdepth, rest, R, c, addr, xs0, xs, size0, n, _, _, _, _, _, _, _ => by
    cases fuel <;> simp [decSElsG, encSElList, normSElList, sizeSEl, allocsISElList, DM.pure_apply]
  | e :: es, h, nd, fuel, cdepth, rest, R, c, addr, xs0, xs, size0, n, hx, he, h256, hf, hd, hR, hS => by
    have hL : (encSElList (e :: es) xs0).1.length = (encSEl e xs0).1.length + (encSElList es (encSEl e xs0).2).1.length := by
      simp only [encSElList, List.length_append]
    rw [hL] at hf hR ⊢
    have hpos := length_encSEl_pos e xs0
    obtain ⟨f, rfl⟩ : ∃ f, fuel = f + 1 := ⟨fuel - 1, by omega⟩
    simp only [dneedSElList, sizeSEl] at hd hS
    simp only [encSElList] at he
    have hst1 := encSEl_stateC e xs0 h.1 hx
    have hst2 := encSElList_stateC es (encSEl e xs0).2 h.2 hst1.2
    have ih1 := decSElG_encC e h.1 nd.1 f cdepth ((encSElList es (encSEl e xs0).2).1 ++ rest) R c addr xs0 xs n hx
      (Ext.of_stateC hst2 he) h256 (by omega) (by omega) (by omega)
    have ih2 := decSElsG_encC es h.2 nd.2 f cdepth rest (R - (encSEl e xs0).1.length) (c + (encSEl e xs0).1.length) addr
      (encSEl e xs0).2 xs (size0 + e.size) (n + (normSEl e xs0).allocsI) hst1.2 he h256 (by omega) (by omega)
      (by omega) (by omega)
    simp only [encSElList, normSElList, List.length_cons, List.append_assoc, decSElsG]
    rw [DM.bind_ok ih1]
    simp only [size_normSEl e xs0 nd.1]
    have hle : ¬ (size0 + e.size > maxUint32) := by omega
    simp only [hle, ↓reduceIte]
    rw [DM.bind_ok ih2]
    simp only [DM.pure_apply, sizeSEl, allocsISElList]
    have e1 : size0 + e.size + sizeSEl es = size0 + (e.size + sizeSEl es) := by omega
    have e2 : R - (encSEl e xs0).1.length - (encSElList es (encSEl e xs0).2).1.length
        = R - ((encSEl e xs0).1.length + (encSElList es (encSEl e xs0).2).1.length) := by omega
    have e3 : c + (encSEl e xs0).1.length + (encSElList es (encSEl e xs0).2).1.length
        = c + ((encSEl e xs0).1.length + (encSElList es (encSEl e xs0).2).1.length) := by omega
    have e4 : n + (normSEl e xs0).allocsI + allocsISElList (normSElList es (encSEl e xs0).2)
        = n + ((normSEl e xs0).allocsI + allocsISElList (normSElList es (encSEl e xs0).2)) := by omega
    rw [e1, e2, e3, e4]
theorem decMElListG_encC : (l : List MEl) → rtiMElList l → nodupKeysMElList l → ∀ (fuel cdepth : Nat) (rest : Bytes)
    (R c addr : Nat) (xs0 xs : List XD) (size0 n : Nat), XOKC xs0 → Ext (encMElList l xs0).2 xs → xs.length ≤ 256 →
    (encMElList l xs0).1.length + 2 ≤ fuel → cdepth + dneedMElList l ≤ maxDecodeDepth →
    (encMElList l xs0).1.length ≤ R → size0 + sizeMEl l ≤ maxUint32 →
    decMElListG fuel l.length cdepth { data := (encMElList l xs0).1 ++ rest, remaining := R, consumed := c } addr xs size0 n
      = .ok (normMElList l xs0, size0 + sizeMEl l,
          { data := rest, remaining := R - (encMElList l xs0).1.length, consumed := c + (encMElList l xs0).1.length })
          (n + allocsIMElList (normMElList l xs0))
  | [], _, _, fuel, cdepth, rest, R, c, addr, xs0, xs, size0, n, _, _, _, _, _, _, _ => by
    cases fuel <;> simp [decMElListG, encMElList, normMElList, sizeMEl, allocsIMElList, DM.pure_apply]
  | e :: es, h, nd, fuel, cdepth, rest, R, c, addr, xs0, xs, size0, n, hx, he, h256, hf, hd, hR, hS => by
    have hL : (encMElList (e :: es) xs0).1.length = (encMEl e xs0).1.length + (encMElList es (encMEl e xs0).2).1.length := by
      simp only [encMElList, List.length_append]
    rw [hL] at hf hR ⊢
    have hpos := length_encMEl_pos e xs0
    obtain ⟨f, rfl⟩ : ∃ f, fuel = f + 1 := ⟨fuel - 1, by omega⟩
    simp only [dneedMElList, sizeMEl, digestSize] at hd hS
    simp only [encMElList] at he
    have hst1 := encMEl_stateC e xs0 h.1 hx
    have hst2 := encMElList_stateC es (encMEl e xs0).2 h.2 hst1.2
    have ih1 := decMElG_encC e h.1 nd.1 f cdepth ((encMElList es (encMEl e xs0).2).1 ++ rest) R c addr xs0 xs n hx
      (Ext.of_stateC hst2 he) h256 (by omega) (by omega) (by omega)
    have ih2 := decMElListG_encC es h.2 nd.2 f cdepth rest (R - (encMEl e xs0).1.length) (c + (encMEl e xs0).1.length) addr
      (encMEl e xs0).2 xs (size0 + digestSize + e.size) (n + (normMEl e xs0).allocsI) hst1.2 he h256 (by omega) (by omega)
      (by omega) (by simp only [digestSize]; omega)
    simp only [encMElList, normMElList, List.length_cons, List.append_assoc, decMElListG]
    rw [DM.bind_ok ih1]
    simp only [size_normMEl e xs0 nd.1]
    have hle : ¬ (size0 + digestSize + e.size > maxUint32) := by simp only [digestSize]; omega
    simp only [hle, ↓reduceIte]
    rw [DM.bind_ok ih2]
    simp only [DM.pure_apply, sizeMEl, allocsIMElList, digestSize]
    have e1 : size0 + 8 + e.size + sizeMEl es = size0 + (8 + e.size + sizeMEl es) := by omega
    have e2 : R - (encMEl e xs0).1.length - (encMElList es (encMEl e xs0).2).1.length
        = R - ((encMEl e xs0).1.length + (encMElList es (encMEl e xs0).2).1.length) := by omega
    have e3 : c + (encMEl e xs0).1.length + (encMElList es (encMEl e xs0).2).1.length
        = c + ((encMEl e xs0).1.length + (encMElList es (encMEl e xs0).2).1.length) := by omega
    have e4 : n + (normMEl e xs0).allocsI + allocsIMElList (normMElList es (encMEl e xs0).2)
        = n + ((normMEl e xs0).allocsI + allocsIMElList (normMElList es (encMEl e xs0).2)) := by omega
    rw [e1, e2, e3, e4]
end

end Atree.Codec
