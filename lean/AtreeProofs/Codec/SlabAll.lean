import AtreeProofs.Codec.CmpSlab
import AtreeProofs.Codec.CmpFix
import AtreeProofs.Codec.RoundTripW
import AtreeProofs.Codec.Hoisted
import AtreeProofs.Codec.VDepthW
/-
  The round trip, the re-encoding fixpoint and the length law for ALL SEVEN slab kinds at once.

  `SlabOK` (RoundTrip.lean) is `False` for `.adata / .mdata / .mindex / .storableG`, so the general
  statements phrased with it (`C06.enc_len`, `C06.decoded_size_eq`, `C07.decode_encode`,
  `C07.reencode_fixpoint`) say nothing about four of the seven kinds although the kind-specific
  theorems exist.  `SlabOKG` collects the kind-specific hypotheses; `normSlab` is what the decoder
  returns (the slab itself, except that compact-encoded inlined maps come back in the shared entry's
  key order — `normMEls` / `normSts`); the theorems below dispatch to the kind-specific ones.
-/
namespace Atree.Codec
open Atree Atree.Gen DM

/-! ### a slab without inlined children meets the hypotheses for slabs with inlined children -/

mutual
theorem Stor.RTI_of_RT : (s : Stor) → s.RT → s.noInl → s.RTI
  | .val _ _, h, _ => h
  | .ref _, h, _ => h
  | .some s, h, hn => Stor.RTI_of_RT s h hn
  | .arr _ _ _, _, hn => hn.elim
  | .map _ _ _, _, hn => hn.elim
theorem SEl.RTI_of_RT : (e : SEl) → e.RT → e.noInl → e.RTI
  | .mk k v, h, hn => ⟨Stor.RTI_of_RT k h.1 hn.1, Stor.RTI_of_RT v h.2.1 hn.2, h.2.2⟩
theorem MEl.RTI_of_RT : (e : MEl) → e.RT → e.noInl → e.RTI
  | .single e, h, hn => SEl.RTI_of_RT e h hn
  | .inl els, h, hn => MEls.RTI_of_RT els h hn
  | .ext _, h, _ => h
theorem MEls.RTI_of_RT : (els : MEls) → els.RT → els.noInl → els.RTI
  | .hkey _ _ es, h, hn => ⟨h.1, h.2.1, h.2.2.1, h.2.2.2.1, rtiMElList_of_RT es h.2.2.2.2.1 hn, h.2.2.2.2.2⟩
  | .single _ es, h, hn => ⟨h.1, h.2.1, h.2.2.1, rtiSElList_of_RT es h.2.2.2.1 hn, h.2.2.2.2⟩
theorem rtiMElList_of_RT : (l : List MEl) → rtMElList l → noInlMElList l → rtiMElList l
  | [], _, _ => trivial
  | e :: es, h, hn => ⟨MEl.RTI_of_RT e h.1 hn.1, rtiMElList_of_RT es h.2 hn.2⟩
theorem rtiSElList_of_RT : (l : List SEl) → rtSElList l → noInlSElList l → rtiSElList l
  | [], _, _ => trivial
  | e :: es, h, hn => ⟨SEl.RTI_of_RT e h.1 hn.1, rtiSElList_of_RT es h.2 hn.2⟩
end

mutual
theorem Stor.vneedI_of_noInl : (s : Stor) → s.noInl → s.vneedI = s.vneed
  | .val _ _, _ => rfl
  | .ref _, _ => rfl
  | .some s, hn => by simp only [Stor.vneedI, Stor.vneed, Stor.vneedI_of_noInl s hn]
  | .arr _ _ _, hn => hn.elim
  | .map _ _ _, hn => hn.elim
theorem SEl.vneedI_of_noInl : (e : SEl) → e.noInl → e.vneedI = e.vneed
  | .mk k v, hn => by
    simp only [SEl.vneedI, SEl.vneed, Stor.vneedI_of_noInl k hn.1, Stor.vneedI_of_noInl v hn.2]
theorem MEl.vneedI_of_noInl : (e : MEl) → e.noInl → e.vneedI = e.vneed
  | .single e, hn => by simp only [MEl.vneedI, MEl.vneed, SEl.vneedI_of_noInl e hn]
  | .inl els, hn => by simp only [MEl.vneedI, MEl.vneed, MEls.vneedI_of_noInl els hn]
  | .ext _, _ => rfl
theorem MEls.vneedI_of_noInl : (els : MEls) → els.noInl → els.vneedI = els.vneed
  | .hkey _ _ es, hn => by simp only [MEls.vneedI, MEls.vneed, vneedIMElList_of_noInl es hn]
  | .single _ es, hn => by simp only [MEls.vneedI, MEls.vneed, vneedISElList_of_noInl es hn]
theorem vneedIMElList_of_noInl : (l : List MEl) → noInlMElList l → vneedIMElList l = vneedMElList l
  | [], _ => rfl
  | e :: es, hn => by
    simp only [vneedIMElList, vneedMElList, MEl.vneedI_of_noInl e hn.1, vneedIMElList_of_noInl es hn.2]
theorem vneedISElList_of_noInl : (l : List SEl) → noInlSElList l → vneedISElList l = vneedSElList l
  | [], _ => rfl
  | e :: es, hn => by
    simp only [vneedISElList, vneedSElList, SEl.vneedI_of_noInl e hn.1, vneedISElList_of_noInl es hn.2]
end

/-- `MapDataOKC` covers map data slabs WITHOUT inlined children too: the hypotheses of
    `decode_encode_mdata` imply those of `decode_encode_mdata_compact`. -/
theorem MapDataOK.toC {s : MapData} (ok : MapDataOK s) : MapDataOKC s where
  rt := MEls.RTI_of_RT s.els ok.rt ok.noInl
  nodup := MEls.nodupKeys_of_noCompact s.els (MEls.noCompact_of_noInl s.els ok.noInl)
  nest := by rw [MEls.vneedI_of_noInl s.els ok.noInl]; exact ok.nest
  entries := by rw [encMEls_noInl s.els [] ok.noInl]; simp
  next := ok.next
  extra := ok.extra
  size := ok.size

theorem MapDataOKI.toC {s : MapData} (ok : MapDataOKI s) : MapDataOKC s where
  rt := ok.rt
  nodup := MEls.nodupKeys_of_noCompact s.els ok.noCompact
  nest := ok.nest
  entries := ok.entries
  next := ok.next
  extra := ok.extra
  size := ok.size

theorem ArrDataOKI.toC {a : ArrData} (ok : ArrDataOKI a) : ArrDataOKC a where
  rt := ok.rt
  nodup := nodupKeysSts_of_noCompact a.elems ok.noCompact
  nest := ok.nest
  count := ok.count
  inlined := ok.inlined
  entries := ok.entries
  next := ok.next
  ty := ok.ty
  size := ok.size

/-! ### the hypotheses, per kind -/

/-- What encoder and decoder rely on, for every slab kind of the model:
    * `.data / .index / .storable` — `SlabOK` (`DataOK` / `MetaOK` / `validElem`);
    * `.adata a` — `ArrDataOKX a` (at least one inlined array / map / compact map, any depth) or
      `ArrDataOKWX a` (wrapped elements, no inlined child);
    * `.mdata m` — `MapDataOKX m` (inlined children in any form OR none);
      the nesting clause of the three is the EXACT one, `Slab.vdepth ≤ maxNestedLevels` (VDepthSlab.lean,
      VDepthW.lean): one level more and the register does not decode.  The older predicates with the
      over-approximating clause `vneedI ≤ maxNestedLevels` imply them (`MapDataOKC.toX`, `MapDataOK.toC`,
      `MapDataOKI.toX`, `ArrDataOKC.toX`, `ArrDataOKI.toX`, `ArrDataOKW.toX`);
    * `.mindex m` — `MapMetaOK m`;
    * `.storableG id s` — the hypotheses of `decode_encode_storable_wrapped`: `s` is a wrapper
      (`isFlat = false`, no inlined slab: the Go encoder refuses those in a large-value slab) of
      valid values nested within the CBOR library's limit. -/
def SlabOKG : Slab → Prop
  | .data ty s => SlabOK (.data ty s)
  | .index ty m => SlabOK (.index ty m)
  | .storable id e => SlabOK (.storable id e)
  | .adata a => ArrDataOKX a ∨ ArrDataOKWX a
  | .mdata m => MapDataOKX m
  | .mindex m => MapMetaOK m
  | .storableG _ s => s.RT ∧ s.noInl ∧ s.isFlat = false ∧ s.vneed ≤ maxNestedLevels

theorem SlabOKG_of_SlabOK {s : Slab} (ok : SlabOK s) : SlabOKG s := by
  cases s with
  | data ty d => exact ok
  | index ty m => exact ok
  | storable id e => exact ok
  | adata _ => exact ok.elim
  | mdata _ => exact ok.elim
  | mindex _ => exact ok.elim
  | storableG _ _ => exact ok.elim

/-- a large-value slab's general storable under `SlabOKG` is a wrapper -/
theorem storableG_shape {s : Stor} (hn : s.noInl) (hf : s.isFlat = false) : ∃ x, s = .some x := by
  cases s with
  | val _ _ => simp [Stor.isFlat] at hf
  | ref _ => simp [Stor.isFlat] at hf
  | some x => exact ⟨x, rfl⟩
  | arr _ _ _ => exact hn.elim
  | map _ _ _ => exact hn.elim

/-! ### what the decoder returns -/

/-- The decoded form of a slab: the slab itself, except that inlined maps written in the compact
    form come back with the shared entry's key order, digests and seed (`normSts` / `normMEls`). -/
def normSlab : Slab → Slab
  | .adata a => .adata { a with elems := normSts a.elems [] }
  | .mdata m => .mdata { m with els := normMEls m.els [] }
  | s => s

/-- no inlined map of the slab is written in the compact form -/
def Slab.noCompact : Slab → Prop
  | .adata a => noCompactSts a.elems
  | .mdata m => m.els.noCompact
  | .storableG _ s => s.noCompact
  | _ => True

theorem normSlab_noCompact (s : Slab) (nc : s.noCompact) : normSlab s = s := by
  cases s with
  | adata a => simp only [normSlab, normSts_noCompact a.elems [] nc]
  | mdata m => simp only [normSlab, normMEls_noCompact m.els [] nc]
  | data _ _ => rfl
  | index _ _ => rfl
  | storable _ _ => rfl
  | mindex _ => rfl
  | storableG _ _ => rfl

theorem normSlab_id (s : Slab) : (normSlab s).id = s.id := by
  cases s <;> rfl

/-- slice elements `DecodeSlab` allocates for the register of the slab -/
def Slab.decodeAllocsG : Slab → Nat
  | .data _ s => s.elems.length
  | .index _ m => m.childHdrs.length + m.childHdrs.length
  | .storable _ _ => 0
  | .adata a => iedAllocsC (encSts a.elems []).2 + a.elems.length + allocsISts (normSts a.elems [])
  | .mdata m => iedAllocsC (encMEls m.els []).2 + (normMEls m.els []).allocsI
  | .mindex m => m.childHdrs.length
  | .storableG _ _ => 0

theorem Slab.decodeAllocsG_of_SlabOK {s : Slab} (ok : SlabOK s) : s.decodeAllocsG = s.decodeAllocs := by
  cases s with
  | data _ _ => rfl
  | index _ _ => rfl
  | storable _ _ => rfl
  | adata _ => exact ok.elim
  | mdata _ => exact ok.elim
  | mindex _ => exact ok.elim
  | storableG _ _ => exact ok.elim

/-! ### round trip -/

/-- `DecodeSlab (EncodeSlab s) = normSlab s` for every slab kind, with the exact allocation count -/
theorem decodeSlab_encodeSlab_all (s : Slab) (ok : SlabOKG s) (n : Nat) :
    decodeSlab s.id (encodeSlab s) n = .ok (normSlab s) (n + s.decodeAllocsG) := by
  cases s with
  | data ty d =>
    have := decodeSlab_encodeSlab (.data ty d) ok n
    simpa [normSlab, Slab.decodeAllocsG, Slab.decodeAllocs] using this
  | index ty m =>
    have := decodeSlab_encodeSlab (.index ty m) ok n
    simpa [normSlab, Slab.decodeAllocsG, Slab.decodeAllocs] using this
  | storable id e =>
    have := decodeSlab_encodeSlab (.storable id e) ok n
    simpa [normSlab, Slab.decodeAllocsG, Slab.decodeAllocs] using this
  | adata a =>
    rcases ok with okc | okw
    · have := decodeSlab_encodeArrDataX a okc [] n
      simp only [List.append_nil, ne_eq, not_true_eq_false, ↓reduceIte] at this
      simp only [Slab.id, encodeSlab, normSlab, Slab.decodeAllocsG]
      rw [this]
      simp only [Nat.add_assoc]
    · have := decodeSlab_encodeArrDataWX a okw [] n
      simp only [List.append_nil, ne_eq, not_true_eq_false, ↓reduceIte] at this
      have hnc := noCompactSts_of_noInl a.elems okw.noInl
      have hxs : (encSts a.elems []).2 = [] := encSts_noInl a.elems [] okw.noInl
      simp only [Slab.id, encodeSlab, normSlab, Slab.decodeAllocsG]
      rw [this, normSts_noCompact a.elems [] hnc, hxs]
      simp only [iedAllocsC, List.isEmpty_nil, ↓reduceIte, Nat.zero_add, Nat.add_assoc]
  | mdata m =>
    have := decodeSlab_encodeMapDataX m ok [] n
    simp only [List.append_nil] at this
    simp only [Slab.id, encodeSlab, normSlab, Slab.decodeAllocsG]
    rw [this]
    simp only [Nat.add_assoc]
  | mindex m =>
    have := decodeSlab_encodeMapMeta m ok [] n
    simp only [List.append_nil, ne_eq, not_true_eq_false, ↓reduceIte] at this
    simp only [Slab.id, encodeSlab, normSlab, Slab.decodeAllocsG]
    exact this
  | storableG id x =>
    obtain ⟨hrt, hni, hfl, hnest⟩ := ok
    obtain ⟨y, rfl⟩ := storableG_shape hni hfl
    have := decodeSlab_encodeStorableSlabG id y hrt hni (by simpa [Stor.vneed] using hnest) [] n
    simp only [List.append_nil] at this
    simp only [Slab.id, encodeSlab, normSlab, Slab.decodeAllocsG, Nat.add_zero]
    exact this

/-- encoding the decoded form gives the register back -/
theorem encodeSlab_normSlab (s : Slab) (ok : SlabOKG s) : encodeSlab (normSlab s) = encodeSlab s := by
  cases s with
  | data _ _ => rfl
  | index _ _ => rfl
  | storable _ _ => rfl
  | mindex _ => rfl
  | storableG _ _ => rfl
  | adata a =>
    rcases ok with okc | okw
    · exact encodeArrData_normX a okc.pre
    · have hnc := noCompactSts_of_noInl a.elems okw.noInl
      simp only [normSlab, normSts_noCompact a.elems [] hnc]
  | mdata m => exact encodeMapData_normX m ok.pre

/-- decoding never changes the size a slab reports -/
theorem byteSize_normSlab (s : Slab) (ok : SlabOKG s) : (normSlab s).byteSize = s.byteSize := by
  cases s with
  | data _ _ => rfl
  | index _ _ => rfl
  | storable _ _ => rfl
  | mindex _ => rfl
  | storableG _ _ => rfl
  | adata a =>
    have hnd : nodupKeysSts a.elems := by
      rcases ok with okc | okw
      · exact okc.nodup
      · exact nodupKeysSts_of_noCompact a.elems (noCompactSts_of_noInl a.elems okw.noInl)
    simp only [normSlab, Slab.byteSize, ArrData.size, sizeSts_norm a.elems [] hnd]
  | mdata m =>
    simp only [normSlab, Slab.byteSize, MapData.size, size_normMEls m.els [] ok.nodup]

/-! ### the length law -/

/-- the 16 bytes of an undefined sibling link that a non-root data slab does not write -/
def Slab.omittedNext : Slab → Nat
  | .data _ d => if d.root = false ∧ d.next = SlabID.undef then 16 else 0
  | .adata a => if a.ty.isNone ∧ a.next = SlabID.undef then 16 else 0
  | .mdata m => if m.extra.isNone ∧ m.next = SlabID.undef then 16 else 0
  | _ => 0

/-- a root has no right sibling (the three data kinds; as in every tree) -/
def Slab.rootNoSibling : Slab → Prop
  | .data _ d => d.root = true → d.next = SlabID.undef
  | .adata a => a.ty.isSome = true → a.next = SlabID.undef
  | .mdata m => m.extra.isSome = true → m.next = SlabID.undef
  | _ => True

/-- `len(EncodeSlab(s)) + omitted sibling link + bytes hoisted by compact maps
      = s.ByteSize() + extra-data sections`, for every slab kind -/
theorem enc_len_slab_all (s : Slab) (ok : SlabOKG s) (hroot : s.rootNoSibling) :
    (encodeSlab s).length + s.omittedNext + s.hoisted = s.byteSize + s.extraDataLen := by
  cases s with
  | data ty d =>
    obtain ⟨hok, _⟩ := ok
    simp only [encodeSlab, Slab.byteSize, Slab.extraDataLen, Slab.omittedNext, Slab.hoisted, Nat.add_zero]
    exact enc_len_data _ d hok.size hok.notInlined hroot hok.elems
  | index ty m =>
    obtain ⟨hok, _⟩ := ok
    simp only [encodeSlab, Slab.byteSize, Slab.extraDataLen, Slab.omittedNext, Slab.hoisted, Nat.add_zero]
    exact enc_len_meta _ m hok.size
  | storable id e =>
    simp only [encodeSlab, Slab.byteSize, Slab.extraDataLen, Slab.omittedNext, Slab.hoisted, Nat.add_zero]
    exact enc_len_storable e ok
  | adata a =>
    have hrt : rtiSts a.elems := by
      rcases ok with okc | okw
      · exact okc.rt
      · exact okw.rt
    have hnd : nodupKeysSts a.elems := by
      rcases ok with okc | okw
      · exact okc.nodup
      · exact nodupKeysSts_of_noCompact a.elems (noCompactSts_of_noInl a.elems okw.noInl)
    have := enc_len_adata_exact a (okSts_of_RTI a.elems hrt) hnd hroot
    simp only [encodeSlab, Slab.byteSize, Slab.extraDataLen, Slab.omittedNext, Slab.hoisted]
    cases hty : a.ty <;> simp only [hty] at this ⊢ <;> omega
  | mdata m =>
    have := enc_len_mdata_exact m (MEls.OK_of_RTI m.els ok.rt) ok.nodup hroot
    simp only [encodeSlab, Slab.byteSize, Slab.extraDataLen, Slab.omittedNext, Slab.hoisted]
    simp only [mapExtraLen] at this
    cases hx : m.extra <;> simp only [hx] at this ⊢ <;> omega
  | mindex m =>
    have := enc_len_mindex m
    simp only [encodeSlab, Slab.byteSize, Slab.extraDataLen, Slab.omittedNext, Slab.hoisted, Nat.add_zero]
    simp only [mapExtraLen] at this
    cases hx : m.extra <;> simp only [hx] at this ⊢ <;> exact this
  | storableG id x =>
    obtain ⟨hrt, hni, _, _⟩ := ok
    have hnc := Stor.noCompact_of_noInl x hni
    have := enc_len_storableG_exact x (Stor.OK_of_RT x hrt hni) (Stor.nodupKeys_of_noCompact x hnc)
    simp only [encodeSlab, Slab.byteSize, Slab.extraDataLen, Slab.omittedNext, Slab.hoisted, Nat.add_zero]
    exact this

end Atree.Codec
